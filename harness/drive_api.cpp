// drive_api <script.ndjson> <trace.ndjson> [assets.json]
// C03 conformance harness: replays call sequences over the WHOLE exported surface of include/opnmidi.h
// (public header only, no friend access) on the real library.  Every history (an Init command up to the
// next Init) runs in a forked child: a crash, sanitizer report, uncaught exception, hang or allocation
// blow-up costs one history and is recorded as an observation of the call that was executing.
//
// The harness computes NO expectation.  Per call it records the return value (r), string results as their
// length (rs), double results as a class (rc), the elapsed time (ms) and, when the child died inside the
// call, a crash record: {cls, sig, what, fn, file, line} = coarse class of the report (parsed from the
// sanitizer / libc++abi text), the signal, the first line of the report and the top stack frame that lies
// in the library's sources.  The calls after a crash are written as {.., "skip":1}: one record per command.
// All predicates (no crash, documented failures, predicted returns, crash labels) are evaluated by TLC
// (spec/ApiSurfaceTrace.tla).
//
// Pointer arguments are always valid and exactly sized heap blocks (AddressSanitizer fences them; without
// ASan 64-byte canaries are checked and reported as "guard":1).  Integer tokens: -2147483647 stands for
// INT_MIN; -1 in an unsigned/size_t parameter is UINT_MAX / SIZE_MAX.  Double tokens: see dbl().
#ifndef OPNMIDI_UNSTABLE_API
#define OPNMIDI_UNSTABLE_API
#endif
#include "opnmidi.h"
#include "vjson.hpp"
#include <cmath>
#include <cstdarg>
#include <climits>
#include <string>
#include <vector>
#include <map>
#include <fstream>
#include <exception>
#include <unistd.h>
#include <signal.h>
#include <fcntl.h>
#include <time.h>
#include <sys/time.h>
#include <sys/wait.h>
#include <sys/stat.h>
#include <sys/resource.h>

#if defined(__has_feature)
#  if __has_feature(address_sanitizer)
#    define HAVE_ASAN 1
#  endif
#endif
#if defined(__SANITIZE_ADDRESS__) && !defined(HAVE_ASAN)
#  define HAVE_ASAN 1
#endif

extern "C" const char *__asan_default_options()
{ return "detect_leaks=0:abort_on_error=0:exitcode=66:allocator_may_return_null=1:max_allocation_size_mb=2048:handle_abort=0"; }
extern "C" const char *__ubsan_default_options() { return "print_stacktrace=1"; }

static std::map<std::string, std::vector<uint8_t> > g_assets;
static std::string g_scratch;        // scratch directory (cwd of the children: the VGM dumper core writes "kek.vgm")
static long g_rssCapMb = 1536;

// ------------------------------------------------------------------ argument tokens
static int tokInt(long long v) { return v == -2147483647LL ? INT_MIN : (int)v; }
static double dbl(const std::string &t)
{
    if(t == "neg1") return -1.0;
    if(t == "zero") return 0.0;
    if(t == "tiny") return 1e-300;
    if(t == "small") return 0.01;
    if(t == "mid") return 0.25;
    if(t == "one") return 1.0;
    if(t == "big") return 1000.0;
    if(t == "huge") return 1e300;
    if(t == "nan") return NAN;
    if(t == "inf") return INFINITY;
    if(t == "ninf") return -INFINITY;
    fprintf(stderr, "INFRA: unknown double token %s\n", t.c_str());
    _exit(2);
}
static const char *dblClass(double d)
{
    if(std::isnan(d)) return "nan";
    if(std::isinf(d)) return d > 0 ? "pinf" : "ninf";
    return d < 0 ? "neg" : (d == 0 ? "zero" : "pos");
}
static long long clampInt(long long v) { return v > 2147483647LL ? 2147483647LL : (v < -2147483647LL ? -2147483647LL : v); }

// ------------------------------------------------------------------ fenced buffers
struct Buf
{
    uint8_t *base, *p; size_t n;
    explicit Buf(size_t size) : n(size)
    {
#ifdef HAVE_ASAN
        base = (uint8_t *)malloc(n); p = base;
#else
        base = (uint8_t *)malloc(n + 128); memset(base, 0xA5, n + 128); p = base + 64;
#endif
        if(!base) { fprintf(stderr, "INFRA: harness buffer allocation failed\n"); _exit(2); }
        memset(p, 0x5A, n);
    }
    bool intact() const
    {
#ifdef HAVE_ASAN
        return true;
#else
        for(size_t i = 0; i < 64; ++i) if(base[i] != 0xA5 || base[64 + n + i] != 0xA5) return false;
        return true;
#endif
    }
    ~Buf() { free(base); }
};

// ------------------------------------------------------------------ hooks (never call back into the library)
static volatile long g_hookCalls[5];
static volatile unsigned g_sink;
static void hkRaw(void *, OPN2_UInt8 t, OPN2_UInt8 st, OPN2_UInt8 ch, const OPN2_UInt8 *data, size_t len)
{ ++g_hookCalls[0]; unsigned s = t + st + ch; for(size_t i = 0; i < len; ++i) s += data[i]; g_sink += s; }
static void hkNote(void *, int c, int n, int i, int p, double b) { ++g_hookCalls[1]; g_sink += (unsigned)(c + n + i + p) + (b > 0 ? 1u : 0u); }
static void hkDbg(void *, const char *fmt, ...)
{
    ++g_hookCalls[2];
    char buf[512]; va_list ap; va_start(ap, fmt); int n = vsnprintf(buf, sizeof buf, fmt, ap); va_end(ap);
    g_sink += (unsigned)n;
}
static void hkLs(void *) { ++g_hookCalls[3]; }
static void hkLe(void *) { ++g_hookCalls[4]; }

// ------------------------------------------------------------------ child: execute one history
static long rssMb()
{
    FILE *f = fopen("/proc/self/statm", "r"); if(!f) return 0;
    long a = 0, b = 0; if(fscanf(f, "%ld %ld", &a, &b) != 2) b = 0; fclose(f);
    return b * (sysconf(_SC_PAGESIZE) / 1024) / 1024;
}
// resident-set watchdog: SIGVTALRM every 50 ms of user CPU time (touching memory costs CPU); async-signal-safe calls only
static void rssWatch(int)
{
    int fd = open("/proc/self/statm", O_RDONLY); if(fd < 0) return;
    char b[128]; ssize_t n = read(fd, b, sizeof b - 1); close(fd); if(n <= 0) return; b[n] = 0;
    const char *q = b; while(*q && *q != ' ') ++q;
    long pages = atol(q);
    if(pages * (sysconf(_SC_PAGESIZE) / 1024) / 1024 > g_rssCapMb)
    {
        static const char m[] = "\nHARNESS: resident set above the cap (out of memory)\n";
        (void)!write(2, m, sizeof m - 1); _exit(74);
    }
}
static double nowMs() { timespec ts; clock_gettime(CLOCK_MONOTONIC, &ts); return ts.tv_sec * 1e3 + ts.tv_nsec / 1e6; }
static void arm(long cpuSec)
{
    itimerval it; memset(&it, 0, sizeof it); it.it_value.tv_sec = cpuSec; setitimer(ITIMER_PROF, &it, NULL);   // CPU time: robust on a loaded machine
    alarm(cpuSec ? (unsigned)(cpuSec * 10 + 20) : 0);                                                          // wall clock: blocked calls
}
static std::string assetPath(const std::string &a)
{
    if(a == "missing") return g_scratch + "/does-not-exist.bin";
    if(a == "dir") return g_scratch;
    std::map<std::string, std::vector<uint8_t> >::iterator it = g_assets.find(a);
    if(it == g_assets.end()) { fprintf(stderr, "INFRA: unknown asset %s\n", a.c_str()); _exit(2); }
    std::string p = g_scratch + "/" + a + ".bin";
    FILE *f = fopen(p.c_str(), "wb"); if(!f) { fprintf(stderr, "INFRA: cannot write %s\n", p.c_str()); _exit(2); }
    if(!it->second.empty()) fwrite(it->second.data(), 1, it->second.size(), f);
    fclose(f);
    return p;
}
static const std::vector<uint8_t> &asset(const std::string &a)
{
    std::map<std::string, std::vector<uint8_t> >::iterator it = g_assets.find(a);
    if(it == g_assets.end()) { fprintf(stderr, "INFRA: unknown asset %s\n", a.c_str()); _exit(2); }
    return it->second;
}
static void fillIns(OPN2_Instrument &o, int tok, int version, int flags)
{
    memset(&o, 0, sizeof o);
    o.version = version; o.note_offset = (OPN2_SInt16)((tok % 25) - 12); o.percussion_key_number = (OPN2_UInt8)(tok % 128);
    o.inst_flags = (OPN2_UInt8)flags; o.fbalg = (OPN2_UInt8)(tok % 64); o.lfosens = (OPN2_UInt8)(tok % 48);
    for(int k = 0; k < 4; ++k)
    {
        o.operators[k].dtfm_30 = (OPN2_UInt8)((tok + k) % 16); o.operators[k].level_40 = (OPN2_UInt8)((tok * (k + 3)) % 128);
        o.operators[k].rsatk_50 = 0x1F; o.operators[k].susrel_80 = 0x0F;
    }
    o.delay_on_ms = 500; o.delay_off_ms = 300;
}
static void strRes(JW &w, const char *s) { w.kv("rs", s ? (long long)strlen(s) : -1); }

// returns false when the command is unknown (infrastructure error)
static bool execute(const JV &c, OPN2_MIDIPlayer *&dev, JW &w)
{
    const std::string e = c.gets("e");
    OPN2_MIDIPlayer *D = c.get("nd") ? NULL : dev;
    const int v = tokInt(c.get("v"));
#define RET(x) do { w.kv("r", clampInt((long long)(x))); return true; } while(0)
#define VOID(x) do { x; return true; } while(0)
    if(e == "Init" || e == "reinit")
    {
        if(dev) opn2_close(dev);
        dev = opn2_init((long)c.get("rate", 44100));
        RET(dev ? 1 : 0);
    }
    if(e == "close") { opn2_close(D); if(D) dev = NULL; return true; }
    if(e == "setNumChips") RET(opn2_setNumChips(D, tokInt(c.get("n"))));
    if(e == "getNumChips") RET(opn2_getNumChips(D));
    if(e == "getNumChipsObtained") RET(opn2_getNumChipsObtained(D));
    if(e == "reserveBanks") RET(opn2_reserveBanks(D, (unsigned)c.get("n")));
    if(e == "getBank")
    {
        OPN2_BankId id; id.percussive = (OPN2_UInt8)c.get("p"); id.msb = (OPN2_UInt8)c.get("msb"); id.lsb = (OPN2_UInt8)c.get("lsb");
        OPN2_Bank b; memset(&b, 0, sizeof b);
        int r = opn2_getBank(D, &id, (int)c.get("flags"), &b);
        w.kv("r", r);
        const std::string th = c.gets("then", "none");
        if(r == 0 && th != "none")
        {
            // a handle is only ever used right after the lookup that produced it (API contract: no stale handles)
            if(th == "id") { OPN2_BankId o; memset(&o, 0xEE, sizeof o); int r2 = opn2_getBankId(D, &b, &o); w.kv("r2", r2); w.kv("idp", o.percussive); w.kv("idm", o.msb); w.kv("idl", o.lsb); }
            else if(th == "remove") w.kv("r2", opn2_removeBank(D, &b));
            else if(th == "getIns") { OPN2_Instrument ins; memset(&ins, 0xEE, sizeof ins); w.kv("r2", opn2_getInstrument(D, &b, (unsigned)c.get("idx"), &ins)); }
            else if(th == "setIns") { OPN2_Instrument ins; fillIns(ins, (int)c.get("tok", 7), (int)c.get("ver", 0), (int)c.get("fl", 0)); w.kv("r2", opn2_setInstrument(D, &b, (unsigned)c.get("idx"), &ins)); }
            else if(th == "next") w.kv("r2", opn2_getNextBank(D, &b));
            else return false;
        }
        return true;
    }
    if(e == "iterBanks")
    {
        OPN2_Bank b; memset(&b, 0, sizeof b);
        int r = opn2_getFirstBank(D, &b); long n = 0, mx = (long)c.get("max", 64);
        w.kv("r", r);
        int rc = r;
        while(rc == 0 && n < mx) { ++n; OPN2_BankId o; if(opn2_getBankId(D, &b, &o) != 0) break; rc = opn2_getNextBank(D, &b); }
        w.kv("cnt", n);
        return true;
    }
    if(e == "setLfoEnabled") VOID(opn2_setLfoEnabled(D, v));
    if(e == "getLfoEnabled") RET(opn2_getLfoEnabled(D));
    if(e == "setLfoFrequency") VOID(opn2_setLfoFrequency(D, v));
    if(e == "getLfoFrequency") RET(opn2_getLfoFrequency(D));
    if(e == "setChipType") VOID(opn2_setChipType(D, v));
    if(e == "getChipType") RET(opn2_getChipType(D));
    if(e == "setScaleModulators") VOID(opn2_setScaleModulators(D, v));
    if(e == "setFullRangeBrightness") VOID(opn2_setFullRangeBrightness(D, v));
    if(e == "setAutoArpeggio") VOID(opn2_setAutoArpeggio(D, v));
    if(e == "getAutoArpeggio") RET(opn2_getAutoArpeggio(D));
    if(e == "setLoopEnabled") VOID(opn2_setLoopEnabled(D, v));
    if(e == "setLoopCount") VOID(opn2_setLoopCount(D, v));
    if(e == "setLoopHooksOnly") VOID(opn2_setLoopHooksOnly(D, v));
    if(e == "setSoftPanEnabled") VOID(opn2_setSoftPanEnabled(D, v));
#pragma clang diagnostic push
#pragma clang diagnostic ignored "-Wdeprecated-declarations"
    if(e == "setLogarithmicVolumes") VOID(opn2_setLogarithmicVolumes(D, v));
    if(e == "emulatorName") { strRes(w, opn2_emulatorName()); return true; }
#pragma clang diagnostic pop
    if(e == "setVolumeRangeModel") VOID(opn2_setVolumeRangeModel(D, v));
    if(e == "getVolumeRangeModel") RET(opn2_getVolumeRangeModel(D));
    if(e == "setChannelAllocMode") VOID(opn2_setChannelAllocMode(D, v));
    if(e == "getChannelAllocMode") RET(opn2_getChannelAllocMode(D));
    if(e == "openBankFile") { std::string p = assetPath(c.gets("a")); RET(opn2_openBankFile(D, p.c_str())); }
    if(e == "openBankData") { const std::vector<uint8_t> &a = asset(c.gets("a")); Buf b(a.size()); if(!a.empty()) memcpy(b.p, a.data(), a.size()); RET(opn2_openBankData(D, b.p, (long)a.size())); }
    if(e == "openFile") { std::string p = assetPath(c.gets("a")); RET(opn2_openFile(D, p.c_str())); }
    if(e == "openData") { const std::vector<uint8_t> &a = asset(c.gets("a")); Buf b(a.size()); if(!a.empty()) memcpy(b.p, a.data(), a.size()); RET(opn2_openData(D, b.p, (unsigned long)a.size())); }
    if(e == "chipEmulatorName") { strRes(w, opn2_chipEmulatorName(D)); return true; }
    if(e == "switchEmulator") RET(opn2_switchEmulator(D, v));
    if(e == "setRunAtPcmRate") RET(opn2_setRunAtPcmRate(D, v));
    if(e == "setDeviceIdentifier") RET(opn2_setDeviceIdentifier(D, (unsigned)c.get("v")));
    if(e == "linkedLibraryVersion") { strRes(w, opn2_linkedLibraryVersion()); return true; }
    if(e == "linkedVersion") { const OPN2_Version *ver = opn2_linkedVersion(); RET(ver ? ver->major * 10000 + ver->minor * 100 + ver->patch : -1); }
    if(e == "errorString") { strRes(w, opn2_errorString()); return true; }
    if(e == "errorInfo") { strRes(w, opn2_errorInfo(D)); return true; }
    if(e == "selectSongNum") VOID(opn2_selectSongNum(D, v));
    if(e == "getSongsCount") RET(opn2_getSongsCount(D));
    if(e == "reset") VOID(opn2_reset(D));
    if(e == "totalTimeLength") { w.ks("rc", dblClass(opn2_totalTimeLength(D))); return true; }
    if(e == "loopStartTime") { w.ks("rc", dblClass(opn2_loopStartTime(D))); return true; }
    if(e == "loopEndTime") { w.ks("rc", dblClass(opn2_loopEndTime(D))); return true; }
    if(e == "positionTell") { w.ks("rc", dblClass(opn2_positionTell(D))); return true; }
    if(e == "positionSeek") VOID(opn2_positionSeek(D, dbl(c.gets("t"))));
    if(e == "positionRewind") VOID(opn2_positionRewind(D));
    if(e == "setTempo") VOID(opn2_setTempo(D, dbl(c.gets("t"))));
    if(e == "atEnd") RET(opn2_atEnd(D));
    if(e == "trackCount") RET(opn2_trackCount(D));
    if(e == "metaMusicTitle") { strRes(w, opn2_metaMusicTitle(D)); return true; }
    if(e == "metaMusicCopyright") { strRes(w, opn2_metaMusicCopyright(D)); return true; }
    if(e == "metaTrackTitleCount") RET(opn2_metaTrackTitleCount(D));
    if(e == "metaTrackTitle") { strRes(w, opn2_metaTrackTitle(D, (size_t)c.get("i"))); return true; }
    if(e == "metaMarkerCount") RET(opn2_metaMarkerCount(D));
    if(e == "metaMarker") { Opn2_MarkerEntry m = opn2_metaMarker(D, (size_t)c.get("i")); strRes(w, m.label); w.ks("rc", dblClass(m.pos_time)); return true; }
    if(e == "play" || e == "generate")
    {
        int n = tokInt(c.get("n"));
        Buf b(n > 0 ? (size_t)n * sizeof(short) : 0);
        int r = (e == "play") ? opn2_play(D, n, (short *)b.p) : opn2_generate(D, n, (short *)b.p);
        w.kv("r", r); if(!b.intact()) w.kv("guard", 1);
        return true;
    }
    if(e == "playFormat" || e == "generateFormat")
    {
        int n = tokInt(c.get("n"));
        OPNMIDI_AudioFormat f; f.type = (OPNMIDI_SampleType)(int)c.get("type"); f.containerSize = (unsigned)c.get("cs");
        size_t frames = n > 0 ? (size_t)n / 2 : 0, cs = f.containerSize;
        const std::string lay = c.gets("lay", "il");
        int r; bool ok;
        if(lay == "pl")        // two separate planes
        {
            f.sampleOffset = (unsigned)cs; Buf l(frames * cs), rr(frames * cs);
            r = (e == "playFormat") ? opn2_playFormat(D, n, l.p, rr.p, &f) : opn2_generateFormat(D, n, l.p, rr.p, &f);
            ok = l.intact() && rr.intact();
        }
        else                   // interleaved ("il") or interleaved with a gap ("wide")
        {
            unsigned k = lay == "wide" ? 4 : 2;
            f.sampleOffset = (unsigned)(k * cs);
            size_t bytes = frames ? (frames - 1) * k * cs + 2 * cs : 0;
            Buf b(bytes);
            r = (e == "playFormat") ? opn2_playFormat(D, n, b.p, b.p + cs, &f) : opn2_generateFormat(D, n, b.p, b.p + cs, &f);
            ok = b.intact();
        }
        w.kv("r", r); if(!ok) w.kv("guard", 1);
        return true;
    }
    if(e == "tickEvents") { w.ks("rc", dblClass(opn2_tickEvents(D, dbl(c.gets("s")), dbl(c.gets("g"))))); return true; }
    if(e == "setTrackOptions") RET(opn2_setTrackOptions(D, (size_t)c.get("i"), (unsigned)c.get("opt")));
    if(e == "setChannelEnabled") RET(opn2_setChannelEnabled(D, (size_t)c.get("i"), v));
    if(e == "panic") VOID(opn2_panic(D));
    if(e == "rt_resetState") VOID(opn2_rt_resetState(D));
    const OPN2_UInt8 ch = (OPN2_UInt8)c.get("ch");
    if(e == "rt_noteOn") RET(opn2_rt_noteOn(D, ch, (OPN2_UInt8)c.get("k"), (OPN2_UInt8)c.get("v")));
    if(e == "noteBurst")      // cnt simultaneous note-ons (keys k, k+1, ... modulo 128): r = how many of them were accepted
    {
        long cnt = (long)c.get("cnt"), k0 = (long)c.get("k"), ok = 0;
        for(long i = 0; i < cnt; ++i)
            if(opn2_rt_noteOn(D, ch, (OPN2_UInt8)((k0 + i) % 128), (OPN2_UInt8)c.get("v")) != 0) ++ok;
        RET(ok);
    }
    if(e == "rt_noteOff") VOID(opn2_rt_noteOff(D, ch, (OPN2_UInt8)c.get("k")));
    if(e == "rt_noteAfterTouch") VOID(opn2_rt_noteAfterTouch(D, ch, (OPN2_UInt8)c.get("k"), (OPN2_UInt8)c.get("v")));
    if(e == "rt_channelAfterTouch") VOID(opn2_rt_channelAfterTouch(D, ch, (OPN2_UInt8)c.get("v")));
    if(e == "rt_controllerChange") VOID(opn2_rt_controllerChange(D, ch, (OPN2_UInt8)c.get("n"), (OPN2_UInt8)c.get("v")));
    if(e == "rt_patchChange") VOID(opn2_rt_patchChange(D, ch, (OPN2_UInt8)c.get("p")));
    if(e == "rt_pitchBend") VOID(opn2_rt_pitchBend(D, ch, (OPN2_UInt16)c.get("b")));
    if(e == "rt_pitchBendML") VOID(opn2_rt_pitchBendML(D, ch, (OPN2_UInt8)c.get("m"), (OPN2_UInt8)c.get("l")));
    if(e == "rt_bankChangeLSB") VOID(opn2_rt_bankChangeLSB(D, ch, (OPN2_UInt8)c.get("v")));
    if(e == "rt_bankChangeMSB") VOID(opn2_rt_bankChangeMSB(D, ch, (OPN2_UInt8)c.get("v")));
    if(e == "rt_bankChange") VOID(opn2_rt_bankChange(D, ch, (OPN2_SInt16)c.get("b")));
    if(e == "rt_systemExclusive")
    {
        const JV &x = c["bytes"]; Buf b(x.a.size());
        for(size_t i = 0; i < x.a.size(); ++i) b.p[i] = (uint8_t)x.a[i].num();
        int r = opn2_rt_systemExclusive(D, b.p, x.a.size());
        w.kv("r", r); if(!b.intact()) w.kv("guard", 1);
        return true;
    }
    const bool on = c.get("on") != 0;
    if(e == "setRawEventHook") VOID(opn2_setRawEventHook(D, on ? hkRaw : NULL, NULL));
    if(e == "setNoteHook") VOID(opn2_setNoteHook(D, on ? hkNote : NULL, NULL));
    if(e == "setDebugMessageHook") VOID(opn2_setDebugMessageHook(D, on ? hkDbg : NULL, NULL));
    if(e == "setLoopStartHook") VOID(opn2_setLoopStartHook(D, on ? hkLs : NULL, NULL));
    if(e == "setLoopEndHook") VOID(opn2_setLoopEndHook(D, on ? hkLe : NULL, NULL));
    if(e == "describeChannels")
    {
        size_t n = (size_t)c.get("size"); Buf t(n), a(n);
        int r = opn2_describeChannels(D, (char *)t.p, (char *)a.p, n);
        w.kv("r", r);
        if(r == 0 && n > 0 && D) { size_t k = 0; while(k < n && t.p[k]) ++k; w.kv("rs", (long long)(k < n ? k : -1)); }   // -1: not terminated inside the buffer
        if(!t.intact() || !a.intact()) w.kv("guard", 1);
        return true;
    }
    return false;
#undef RET
#undef VOID
}

static void termHandler()
{
    static const char m[] = "\nHARNESS: uncaught exception (std::terminate)\n";
    (void)!write(2, m, sizeof m - 1);
    // let libc++abi / libstdc++ print the exception type
    std::exception_ptr p = std::current_exception();
    if(p) { try { std::rethrow_exception(p); } catch(const std::exception &ex) { fprintf(stderr, "HARNESS: what(): %s\n", ex.what()); } catch(...) { fprintf(stderr, "HARNESS: what(): non-std exception\n"); } }
    abort();
}

static void childMain(const std::vector<std::string> &lines, size_t from, size_t to, int wfd)
{
    std::set_terminate(termHandler);
    signal(SIGPROF, SIG_DFL); signal(SIGALRM, SIG_DFL); signal(SIGXFSZ, SIG_IGN);
    rlimit fs; fs.rlim_cur = fs.rlim_max = 8 << 20; setrlimit(RLIMIT_FSIZE, &fs);
    signal(SIGVTALRM, rssWatch);
    { itimerval it; it.it_interval.tv_sec = 0; it.it_interval.tv_usec = 50000; it.it_value = it.it_interval; setitimer(ITIMER_VIRTUAL, &it, NULL); }
    if(chdir(g_scratch.c_str()) != 0) _exit(2);
    OPN2_MIDIPlayer *dev = NULL;
    for(size_t li = from; li < to; ++li)
    {
        JV c; if(!jparse(lines[li], c)) _exit(2);
        JW w; w.s = lines[li]; w.s.pop_back(); w.first = false;
        long tmo = (long)c.get("tmo", 2);
        double t0 = nowMs();
        arm(tmo);
        bool ok = execute(c, dev, w);
        arm(0);
        if(!ok) { fprintf(stderr, "INFRA: unknown command %s\n", lines[li].c_str()); _exit(2); }
        w.kv("ms", (long long)(nowMs() - t0));
        long rss = rssMb();
        if(rss > g_rssCapMb) w.kv("rssmb", rss);
        w.s += "}\n";
        size_t off = 0;
        while(off < w.s.size()) { ssize_t k = write(wfd, w.s.data() + off, w.s.size() - off); if(k <= 0) _exit(2); off += (size_t)k; }
        if(rss > g_rssCapMb) _exit(0);     // resident-set cap exceeded: stop this history (the record carries rssmb)
    }
    arm(30);
    if(dev) opn2_close(dev);              // closing a live instance is part of every history
    arm(0);
    _exit(0);
}

// ------------------------------------------------------------------ parent: classify how the child died
static std::string lastComponent(const std::string &full)
{
    std::string fn; int depth = 0;
    for(size_t i = 0; i < full.size(); ++i)          // drop template arguments
    {
        char ch = full[i];
        if(ch == '<') ++depth; else if(ch == '>') { if(depth > 0) --depth; } else if(depth == 0) fn += ch;
    }
    size_t par = fn.find('('); if(par != std::string::npos) fn = fn.substr(0, par);
    while(!fn.empty() && fn[fn.size() - 1] == ' ') fn.erase(fn.size() - 1);
    size_t sp = fn.rfind(' '); if(sp != std::string::npos) fn = fn.substr(sp + 1);
    size_t cc = fn.rfind("::"); if(cc != std::string::npos) fn = fn.substr(cc + 2);
    return fn;
}
struct Crash { std::string cls, what, fn, file, top, topfn; long line; int sig; };
static bool has(const std::string &s, const char *n) { return s.find(n) != std::string::npos; }

static Crash classify(int status, const std::string &err)
{
    Crash c; c.line = 0; c.sig = WIFSIGNALED(status) ? WTERMSIG(status) : 0;
    // first line of the report
    static const char *keys[] = {"ERROR: AddressSanitizer", "runtime error:", "HARNESS: what():", "terminate called", "Assertion", "HARNESS: uncaught", NULL};
    for(int k = 0; keys[k] && c.what.empty(); ++k)
    {
        size_t p = err.find(keys[k]);
        if(p != std::string::npos) { size_t q = err.find('\n', p); c.what = err.substr(p, (q == std::string::npos ? err.size() : q) - p); }
    }
    if(c.what.size() > 160) c.what.resize(160);
    for(size_t i = 0; i < c.what.size(); ++i) if((unsigned char)c.what[i] < 0x20 || (unsigned char)c.what[i] >= 0x7f) c.what[i] = '?';
    if(c.sig == SIGPROF || c.sig == SIGALRM) c.cls = "hang";
    else if(has(err, "HARNESS: resident set above the cap") || has(err, "allocation-size-too-big") || has(err, "out of memory") || has(err, "out-of-memory") || has(err, "exceeds maximum supported size") ||
            has(err, "bad_alloc") || has(err, "bad_array_new_length") || has(err, "calloc-overflow")) c.cls = "alloc";
    else if(has(err, "-buffer-overflow") || has(err, "container-overflow") || has(err, "out of bounds for type")) c.cls = "overflow";
    else if(has(err, "use-after-") || has(err, "double-free") || has(err, "attempting free") || has(err, "bad-free")) c.cls = "uaf";
    else if(has(err, "AddressSanitizer: SEGV") || has(err, "AddressSanitizer: BUS") || has(err, "AddressSanitizer: FPE") || has(err, "AddressSanitizer: ILL") ||
            c.sig == SIGSEGV || c.sig == SIGBUS || c.sig == SIGFPE || c.sig == SIGILL) c.cls = "segv";
    else if(has(err, "HARNESS: uncaught") || has(err, "terminate called")) c.cls = "throw";
    else if(has(err, "runtime error:")) c.cls = "ub";
    else if(c.sig == SIGABRT || has(err, "Assertion")) c.cls = "abort";
    else if(c.sig == SIGKILL) c.cls = "killed";
    else if(has(err, "AddressSanitizer")) c.cls = "asan";
    else c.cls = "exit";
    // library frames of the FIRST stack of the report:  "#3 0x... in FUNC /path/src/file.cpp:123:4".
    // site (fn, file, line) = the library frame directly below the exported opn2_* function (the call site inside the
    // library that the defect class is keyed by); top = the innermost library frame.
    size_t p = 0; bool haveSite = false; std::string prevFn, prevFile; long prevLine = 0; bool any = false;
    while((p = err.find("\n    #", p)) != std::string::npos)
    {
        size_t q = err.find('\n', p + 1); std::string ln = err.substr(p + 1, (q == std::string::npos ? err.size() : q) - p - 1);
        p = (q == std::string::npos ? err.size() : q);
        if(ln.compare(0, 7, "    #0 ") == 0 && any) break;                 // second stack (allocation / free site)
        size_t in = ln.find(" in "); if(in == std::string::npos) continue;
        size_t sl = ln.find(" /", in + 4); if(sl == std::string::npos) continue;
        std::string path = ln.substr(sl + 1), fn = lastComponent(ln.substr(in + 4, sl - in - 4));
        if(has(path, "/harness/")) break;
        if(!has(path, "/src/") || has(path, "compiler-rt") || has(path, "/include/c++")) continue;
        size_t col = path.find(':'); std::string file = path.substr(0, col);
        long line = col == std::string::npos ? 0 : atol(path.c_str() + col + 1);
        size_t bs = file.rfind('/'); file = bs == std::string::npos ? file : file.substr(bs + 1);
        if(!any) { char b[32]; snprintf(b, sizeof b, ":%ld", line); c.top = fn + " " + file + b; c.topfn = fn; }
        any = true;
        if(fn.compare(0, 5, "opn2_") == 0)
        {
            if(prevFn.empty()) { c.fn = fn; c.file = file; c.line = line; } else { c.fn = prevFn; c.file = prevFile; c.line = prevLine; }
            haveSite = true; break;
        }
        prevFn = fn; prevFile = file; prevLine = line;
    }
    if(!haveSite && !prevFn.empty()) { c.fn = prevFn; c.file = prevFile; c.line = prevLine; }
    if(c.fn.empty() && has(err, ": Assertion "))        // glibc:  prog: /path/file.cpp:658: void OPN2::reset(...): Assertion `false' failed.
    {
        size_t a = err.find(": Assertion "); size_t b = err.rfind('\n', a); b = (b == std::string::npos) ? 0 : b + 1;
        std::string ln = err.substr(b, a - b);
        size_t sl = ln.find(" /");
        if(sl != std::string::npos)
        {
            std::string rest = ln.substr(sl + 1); size_t c1 = rest.find(':'), c2 = (c1 == std::string::npos) ? c1 : rest.find(": ", c1 + 1);
            if(c1 != std::string::npos && c2 != std::string::npos)
            {
                std::string file = rest.substr(0, c1); size_t bs = file.rfind('/'); c.file = bs == std::string::npos ? file : file.substr(bs + 1);
                c.line = atol(rest.c_str() + c1 + 1); c.fn = lastComponent(rest.substr(c2 + 2));
                char nb[32]; snprintf(nb, sizeof nb, ":%ld", c.line); c.top = c.fn + " " + c.file + nb; c.topfn = c.fn;
            }
        }
    }
    if(c.fn.empty() && has(err, "runtime error:"))      // UBSan without a usable stack: take the location of the report
    {
        size_t r = err.find("runtime error:"); size_t b = err.rfind('\n', r); b = (b == std::string::npos) ? 0 : b + 1;
        std::string loc = err.substr(b, r - b); size_t col = loc.find(':');
        std::string file = loc.substr(0, col); size_t bs = file.rfind('/'); c.file = bs == std::string::npos ? file : file.substr(bs + 1);
        c.line = col == std::string::npos ? 0 : atol(loc.c_str() + col + 1);
    }
    return c;
}

static std::string slurp(const std::string &path, size_t cap)
{
    std::string s; FILE *f = fopen(path.c_str(), "rb"); if(!f) return s;
    char buf[4096]; size_t n;
    while(s.size() < cap && (n = fread(buf, 1, sizeof buf, f)) > 0) s.append(buf, n);
    fclose(f); return s;
}

int main(int argc, char **argv)
{
    if(argc < 3) return 2;
    std::vector<std::string> lines;
    {
        std::ifstream f(argv[1]); if(!f) return 2;
        std::string l; while(std::getline(f, l)) if(!l.empty()) lines.push_back(l);
    }
    const char *ap = argc > 3 ? argv[3] : getenv("VERIF_API_ASSETS");
    if(ap)
    {
        std::string txt = slurp(ap, 64u << 20); JV a;
        if(!jparse(txt, a) || a.t != JV::Obj) { fprintf(stderr, "INFRA: cannot parse assets %s\n", ap); return 2; }
        for(size_t i = 0; i < a.o.size(); ++i)
        {
            std::vector<uint8_t> &v = g_assets[a.o[i].first];
            for(size_t k = 0; k < a.o[i].second.a.size(); ++k) v.push_back((uint8_t)a.o[i].second.a[k].num());
        }
    }
    if(getenv("VERIF_API_RSS_MB")) g_rssCapMb = atol(getenv("VERIF_API_RSS_MB"));
    char tmpl[] = "/tmp/drive_api.XXXXXX";
    if(!mkdtemp(tmpl)) return 2;
    g_scratch = tmpl;
    FILE *trace = fopen(argv[2], "w"); if(!trace) return 2;
    const std::string errPath = g_scratch + "/stderr.txt";
    int infra = 0;
    size_t li = 0;
    while(li < lines.size() && !infra)
    {
        size_t to = li + 1;
        while(to < lines.size() && lines[to].compare(0, 11, "{\"e\":\"Init\"") != 0) ++to;
        int pfd[2]; if(pipe(pfd) != 0) { infra = 1; break; }
        fflush(trace);
        pid_t pid = fork();
        if(pid < 0) { infra = 1; break; }
        if(pid == 0)
        {
            close(pfd[0]);
            int efd = open(errPath.c_str(), O_WRONLY | O_CREAT | O_TRUNC, 0600);
            if(efd >= 0) { dup2(efd, 2); close(efd); }
            childMain(lines, li, to, pfd[1]);
            _exit(0);
        }
        close(pfd[1]);
        std::string got; char buf[65536]; ssize_t k;
        while((k = read(pfd[0], buf, sizeof buf)) > 0) got.append(buf, (size_t)k);
        close(pfd[0]);
        int status = 0; waitpid(pid, &status, 0);
        // complete records (one per executed command)
        std::vector<std::string> recs; size_t pos = 0, nl;
        while((nl = got.find('\n', pos)) != std::string::npos) { recs.push_back(got.substr(pos, nl - pos)); pos = nl + 1; }
        size_t done = recs.size();
        const bool clean = WIFEXITED(status) && WEXITSTATUS(status) == 0;
        if(!clean)
        {
            std::string err = slurp(errPath, 256u << 10);
            if(WIFEXITED(status) && WEXITSTATUS(status) == 2) { fprintf(stderr, "INFRA: child reported an infrastructure error: %s\n", err.substr(0, 600).c_str()); infra = 1; break; }
            Crash c = classify(status, err);
            if(getenv("VERIF_API_STDERR")) { FILE *ef = fopen(getenv("VERIF_API_STDERR"), "a"); if(ef) { fprintf(ef, "==== history at script line %zu, call %zu\n%s\n", li + 1, done, err.substr(0, 6000).c_str()); fclose(ef); } }
            JW w; w.first = false;
            w.key("crash"); w.begin_obj(); w.ks("cls", c.cls); w.kv("sig", c.sig); w.kv("exit", WIFEXITED(status) ? WEXITSTATUS(status) : -1);
            w.ks("what", c.what); w.ks("fn", c.fn); w.ks("file", c.file); w.kv("line", c.line); w.ks("top", c.top); w.ks("topfn", c.topfn); w.end_obj();
            if(li + done < to) { std::string x = lines[li + done]; x.pop_back(); recs.push_back(x + w.s + "}"); ++done; }
            else if(!recs.empty()) { recs.back().pop_back(); recs.back() += w.s + ",\"atclose\":1}"; }   // died in the implicit opn2_close that ends every history
        }
        for(size_t s = 0; s < recs.size(); ++s) { fputs(recs[s].c_str(), trace); fputc('\n', trace); }
        for(size_t s = li + done; s < to; ++s) { std::string x = lines[s]; x.pop_back(); x += ",\"skip\":1}\n"; fputs(x.c_str(), trace); }
        li = to;
    }
    if(!infra) fprintf(trace, "{\"e\":\"end\"}\n");
    fclose(trace);
    std::string cmd = "rm -rf '" + g_scratch + "'";
    (void)!system(cmd.c_str());
    return infra ? 2 : 0;
}
