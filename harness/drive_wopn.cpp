// drive_wopn <script.ndjson> <trace.ndjson>
// C15 (+ loader half of C02): drives the WOPN/OPNI serialisation of src/wopn/wopn_file.c.
// The harness only builds values, calls the library and records what it observes; every
// expectation (sizes, survival of fields, result codes) is computed by TLC (spec/WopnTrace.tla).
//
// Commands (one JSON object per line, "o" = operation):
//   init                                   new execution
//   bank  ver nm np lfo chip vm banks:[[s,b,[name],lsb,msb]..] dflt:I ins:[[s,b,i,I]..]
//                                          current value W := that bank file;   obs: v (projection of W), sz [size v1, size v2]
//   inst  ver drum I                       current value W := that instrument file; obs: v, sz
//   save  ver (-1 = W's own version) len | rel (len = calculated size + rel)  bytes(0/1)
//                                          obs: pv n r hw det [img]   (image kept when r = 0)
//   patch trunc ext extv set:[[off,val]..] bytes(0/1)      modify the kept image;  obs: n hdr [img]
//   raw   kind bytes:[..]                  image := explicit bytes;          obs: n hdr
//   load  len fill api                     load the image (first len bytes);  obs: n k hdr r ok w [cmp] [ar]
//   adopt                                  W := the value loaded last;         obs: v sz | skip (nothing loaded)
// I = [[name bytes],note_offset,velocity_offset,key,flags,fbalg,lfosens,[28 operator bytes],delay_on,delay_off]
// (trailing zero bytes of the two arrays are omitted).
#include "vh.hpp"
#include "wopn/wopn_file.h"

enum { K_NONE = 0, K_BANK = 1, K_INST = 2 };
static const size_t GUARD = 64;

static void insFromJ(const JV &j, WOPNInstrument &o)
{
    memset(&o, 0, sizeof o);
    const JV &nm = j.a[0];
    for(size_t k = 0; k < nm.a.size() && k < 32; ++k) o.inst_name[k] = (char)(unsigned char)nm.a[k].num();
    o.note_offset = (int16_t)j.a[1].num();
    o.midi_velocity_offset = (int8_t)j.a[2].num();
    o.percussion_key_number = (uint8_t)j.a[3].num();
    o.inst_flags = (uint8_t)j.a[4].num();
    o.fbalg = (uint8_t)j.a[5].num();
    o.lfosens = (uint8_t)j.a[6].num();
    const JV &ops = j.a[7];
    uint8_t raw[28]; memset(raw, 0, sizeof raw);
    for(size_t k = 0; k < ops.a.size() && k < 28; ++k) raw[k] = (uint8_t)ops.a[k].num();
    for(int l = 0; l < 4; ++l)
    {
        o.operators[l].dtfm_30 = raw[l * 7 + 0]; o.operators[l].level_40 = raw[l * 7 + 1]; o.operators[l].rsatk_50 = raw[l * 7 + 2];
        o.operators[l].amdecay1_60 = raw[l * 7 + 3]; o.operators[l].decay2_70 = raw[l * 7 + 4]; o.operators[l].susrel_80 = raw[l * 7 + 5];
        o.operators[l].ssgeg_90 = raw[l * 7 + 6];
    }
    o.delay_on_ms = (uint16_t)j.a[8].num();
    o.delay_off_ms = (uint16_t)j.a[9].num();
}

static void bytesTrimmed(JW &w, const uint8_t *p, size_t n)
{
    while(n > 0 && p[n - 1] == 0) --n;
    w.begin_arr();
    for(size_t k = 0; k < n; ++k) w.num(p[k]);
    w.end_arr();
}

static void insToJ(JW &w, const WOPNInstrument &i)
{
    w.begin_arr();
    bytesTrimmed(w, (const uint8_t *)i.inst_name, 32);
    w.num(i.note_offset); w.num(i.midi_velocity_offset); w.num(i.percussion_key_number); w.num(i.inst_flags);
    w.num(i.fbalg); w.num(i.lfosens);
    uint8_t raw[28];
    for(int l = 0; l < 4; ++l)
    {
        raw[l * 7 + 0] = i.operators[l].dtfm_30; raw[l * 7 + 1] = i.operators[l].level_40; raw[l * 7 + 2] = i.operators[l].rsatk_50;
        raw[l * 7 + 3] = i.operators[l].amdecay1_60; raw[l * 7 + 4] = i.operators[l].decay2_70; raw[l * 7 + 5] = i.operators[l].susrel_80;
        raw[l * 7 + 6] = i.operators[l].ssgeg_90;
    }
    bytesTrimmed(w, raw, 28);
    w.num(i.delay_on_ms); w.num(i.delay_off_ms);
    w.end_arr();
}
static std::string insKey(const WOPNInstrument &i) { JW w; insToJ(w, i); return w.s; }

// lossless sparse projection: every instrument that differs from `dflt` is listed
static void bankToJ(JW &w, const WOPNFile *f)
{
    w.begin_obj();
    w.kv("ver", f->version); w.kv("nm", f->banks_count_melodic); w.kv("np", f->banks_count_percussion);
    w.kv("lfo", f->lfo_freq); w.kv("chip", f->chip_type); w.kv("vm", f->volume_model);
    const WOPNBank *sl[2] = { f->banks_melodic, f->banks_percussive };
    unsigned cn[2] = { f->banks_count_melodic, f->banks_count_percussion };
    w.key("banks"); w.begin_arr();
    for(int s = 0; s < 2; ++s) for(unsigned b = 0; b < cn[s]; ++b)
    {
        w.begin_arr(); bytesTrimmed(w, (const uint8_t *)sl[s][b].bank_name, 33); w.num(sl[s][b].bank_midi_lsb); w.num(sl[s][b].bank_midi_msb); w.end_arr();
    }
    w.end_arr();
    std::map<std::string, long> freq;
    std::vector<std::string> keys;
    for(int s = 0; s < 2; ++s) for(unsigned b = 0; b < cn[s]; ++b) for(int i = 0; i < 128; ++i)
    { keys.push_back(insKey(sl[s][b].ins[i])); ++freq[keys.back()]; }
    std::string best; long bn = -1;
    for(std::map<std::string, long>::iterator it = freq.begin(); it != freq.end(); ++it) if(it->second > bn) { bn = it->second; best = it->first; }
    w.key("dflt"); w.sep(); w.s += best;
    w.key("ins"); w.begin_arr();
    size_t q = 0;
    for(int s = 0; s < 2; ++s) for(unsigned b = 0; b < cn[s]; ++b) for(int i = 0; i < 128; ++i, ++q)
        if(keys[q] != best) { w.begin_arr(); w.num(s); w.num(b); w.num(i); w.sep(); w.s += keys[q]; w.end_arr(); }
    w.end_arr();
    w.end_obj();
}
static void instToJ(JW &w, const OPNIFile &f)
{
    w.begin_obj(); w.kv("ver", f.version); w.kv("drum", f.is_drum); w.key("I"); insToJ(w, f.inst); w.end_obj();
}
static void bytesToJ(JW &w, const char *k, const uint8_t *p, size_t n)
{
    w.key(k); w.begin_arr(); for(size_t i = 0; i < n; ++i) w.num(p[i]); w.end_arr();
}

int main(int argc, char **argv)
{
    if(argc < 3) return 2;
    std::vector<std::string> lines;
    if(!readLines(argv[1], lines)) return 2;
    g_trace = fopen(argv[2], "w");
    if(!g_trace) return 2;
    installCrashHandlers();
    int kind = K_NONE;
    WOPNFile *W = NULL, *L = NULL;
    OPNIFile WI, LI; memset(&WI, 0, sizeof WI); memset(&LI, 0, sizeof LI);
    bool haveL = false;
    std::vector<uint8_t> img;
    OPN2_MIDIPlayer *dev = NULL;
    for(size_t li = 0; li < lines.size(); ++li)
    {
        JV c; if(!jparse(lines[li], c)) return 2;
        std::string o = c.gets("o");
        g_stage = "cmd";
        alarm(30);
        if(o == "init")
        {
            if(W) WOPN_Free(W); if(L) WOPN_Free(L);
            W = L = NULL; haveL = false; kind = K_NONE; img.clear();
            fprintf(g_trace, "%s\n", lines[li].c_str());
            alarm(0);
            continue;
        }
        JW w; w.s = lines[li]; w.s.pop_back(); w.first = false;
        if(o == "bank")
        {
            if(W) WOPN_Free(W);
            unsigned nm = (unsigned)c.get("nm"), np = (unsigned)c.get("np");
            if(nm < 1 || np < 1) return 2;
            W = WOPN_Init((uint16_t)nm, (uint16_t)np);
            if(!W) return 2;
            kind = K_BANK;
            W->version = (uint16_t)c.get("ver", 2); W->lfo_freq = (uint8_t)c.get("lfo"); W->chip_type = (uint8_t)c.get("chip"); W->volume_model = (uint8_t)c.get("vm");
            WOPNInstrument d; insFromJ(c["dflt"], d);
            WOPNBank *sl[2] = { W->banks_melodic, W->banks_percussive };
            unsigned cn[2] = { nm, np };
            for(int s = 0; s < 2; ++s) for(unsigned b = 0; b < cn[s]; ++b) for(int i = 0; i < 128; ++i) sl[s][b].ins[i] = d;
            const JV &bs = c["banks"];
            for(size_t k = 0; k < bs.a.size(); ++k)
            {
                unsigned s = (unsigned)bs.a[k].a[0].num(), b = (unsigned)bs.a[k].a[1].num();
                if(s > 1 || b >= cn[s]) return 2;
                const JV &nmj = bs.a[k].a[2];
                memset(sl[s][b].bank_name, 0, 33);
                for(size_t q = 0; q < nmj.a.size() && q < 33; ++q) sl[s][b].bank_name[q] = (char)(unsigned char)nmj.a[q].num();
                sl[s][b].bank_midi_lsb = (uint8_t)bs.a[k].a[3].num(); sl[s][b].bank_midi_msb = (uint8_t)bs.a[k].a[4].num();
            }
            const JV &is = c["ins"];
            for(size_t k = 0; k < is.a.size(); ++k)
            {
                unsigned s = (unsigned)is.a[k].a[0].num(), b = (unsigned)is.a[k].a[1].num(), i = (unsigned)is.a[k].a[2].num();
                if(s > 1 || b >= cn[s] || i > 127) return 2;
                insFromJ(is.a[k].a[3], sl[s][b].ins[i]);
            }
            w.key("v"); bankToJ(w, W);
            w.key("sz"); w.begin_arr(); w.num(tlcint((long long)WOPN_CalculateBankFileSize(W, 1))); w.num(tlcint((long long)WOPN_CalculateBankFileSize(W, 2))); w.end_arr();
        }
        else if(o == "inst")
        {
            kind = K_INST;
            memset(&WI, 0, sizeof WI);
            WI.version = (uint16_t)c.get("ver", 2); WI.is_drum = (uint8_t)c.get("drum");
            insFromJ(c["I"], WI.inst);
            w.key("v"); instToJ(w, WI);
            w.key("sz"); w.begin_arr(); w.num((long long)WOPN_CalculateInstFileSize(&WI, 1)); w.num((long long)WOPN_CalculateInstFileSize(&WI, 2)); w.end_arr();
        }
        else if(o == "adopt")
        {
            if(!haveL) w.kv("skip", 1);       // nothing was loaded (the image was rejected): W stays
            else if(kind == K_BANK)
            {
                if(W) WOPN_Free(W);
                W = L; L = NULL; haveL = false;
                w.key("v"); bankToJ(w, W);
                w.key("sz"); w.begin_arr(); w.num(tlcint((long long)WOPN_CalculateBankFileSize(W, 1))); w.num(tlcint((long long)WOPN_CalculateBankFileSize(W, 2))); w.end_arr();
            }
            else
            {
                WI = LI; haveL = false;
                w.key("v"); instToJ(w, WI);
                w.key("sz"); w.begin_arr(); w.num((long long)WOPN_CalculateInstFileSize(&WI, 1)); w.num((long long)WOPN_CalculateInstFileSize(&WI, 2)); w.end_arr();
            }
        }
        else if(o == "save")
        {
            if(kind == K_NONE || (kind == K_BANK && !W)) return 2;
            long long ver = c.get("ver", 2);
            uint16_t pv = (uint16_t)(ver < 0 ? (kind == K_BANK ? W->version : WI.version) : ver);
            size_t calc = kind == K_BANK ? WOPN_CalculateBankFileSize(W, pv) : WOPN_CalculateInstFileSize(&WI, pv);
            long long len = c.has("len") ? c.get("len") : (long long)calc + c.get("rel");
            if(len < 0) len = 0;
            // runs 1,2: destination followed by (calculated size + 64) guard bytes, two fill patterns -> exact footprint of the call
            size_t hw = 0; int r[3] = {0, 0, 0};
            const uint8_t fills[2] = { 0xA5, 0x5A };
            for(int run = 0; run < 2; ++run)
            {
                std::vector<uint8_t> buf((size_t)len + calc + GUARD, fills[run]);   // room for a complete image beyond the destination
                g_stage = "save-guarded";
                r[run] = kind == K_BANK ? WOPN_SaveBankToMem(W, buf.data(), (size_t)len, pv, 0) : WOPN_SaveInstToMem(&WI, buf.data(), (size_t)len, pv);
                for(size_t k = buf.size(); k > 0; --k) if(buf[k - 1] != fills[run]) { if(k > hw) hw = k; break; }
            }
            r[2] = r[0];
            if(hw <= (size_t)len && len > 0)
            {
                // run 3: heap block of exactly len bytes (the sanitizer reports any access beyond it)
                uint8_t *ex = (uint8_t *)malloc((size_t)len);
                if(!ex) return 2;
                memset(ex, 0xA5, (size_t)len);
                g_stage = "save-exact";
                r[2] = kind == K_BANK ? WOPN_SaveBankToMem(W, ex, (size_t)len, pv, 0) : WOPN_SaveInstToMem(&WI, ex, (size_t)len, pv);
                if(r[2] == 0) img.assign(ex, ex + len);
                free(ex);
            }
            w.kv("pv", pv); w.kv("n", tlcint(len)); w.kv("r", r[0]); w.kv("hw", tlcint((long long)hw));
            w.kv("det", (r[0] == r[1] && r[1] == r[2]) ? 1 : 0);
            if(r[0] == 0 && c.get("bytes")) bytesToJ(w, "img", img.data(), img.size());
        }
        else if(o == "patch" || o == "raw")
        {
            if(o == "raw")
            {
                kind = c.gets("kind") == "inst" ? K_INST : K_BANK;
                img.clear();
                const JV &bs = c["bytes"];
                for(size_t k = 0; k < bs.a.size(); ++k) img.push_back((uint8_t)bs.a[k].num());
            }
            else
            {
                if(c.has("trunc") && (size_t)c.get("trunc") < img.size()) img.resize((size_t)c.get("trunc"));
                if(c.get("ext") > 0) img.insert(img.end(), (size_t)c.get("ext"), (uint8_t)c.get("extv"));
                const JV &st = c["set"];
                for(size_t k = 0; k < st.a.size(); ++k)
                {
                    long long off = st.a[k].a[0].num();
                    if(off >= 0 && (size_t)off < img.size()) img[(size_t)off] = (uint8_t)st.a[k].a[1].num();
                }
            }
            w.kv("n", tlcint((long long)img.size()));
            bytesToJ(w, "hdr", img.data(), img.size() < 18 ? img.size() : 18);
            if(o == "patch" && c.get("bytes")) bytesToJ(w, "img", img.data(), img.size());
        }
        else if(o == "load")
        {
            if(kind == K_NONE) return 2;
            size_t len = c.has("len") ? (size_t)c.get("len") : img.size();
            if(len > img.size()) len = img.size();
            uint8_t *ex = (uint8_t *)malloc(len ? len : 1);       // exact-size block: over-reads are reported
            if(!ex) return 2;
            if(len) memcpy(ex, img.data(), len);
            int r = 0, ok = 0;
            g_stage = "load";
            if(kind == K_BANK)
            {
                if(L) { WOPN_Free(L); L = NULL; }
                int err = 0;
                L = WOPN_LoadBankFromMem(ex, len, &err);
                ok = L ? 1 : 0; r = L ? 0 : err; haveL = ok != 0;
            }
            else
            {
                memset(&LI, (int)c.get("fill"), sizeof LI);
                r = WOPN_LoadInstFromMem(&LI, ex, len);
                ok = r == 0 ? 1 : 0; haveL = ok != 0;
            }
            w.kv("n", tlcint((long long)len));
            w.ks("k", kind == K_BANK ? "bank" : "inst");
            bytesToJ(w, "hdr", ex, len < 18 ? len : 18);
            w.kv("r", r); w.kv("ok", ok);
            if(ok) { w.key("w"); if(kind == K_BANK) bankToJ(w, L); else instToJ(w, LI); }
            if(ok && kind == K_BANK && W) w.kv("cmp", WOPN_BanksCmp(W, L));
            if(c.get("api") && kind == K_BANK)
            {
                g_stage = "openBankData";
                if(!dev) dev = opn2_init(44100);
                if(!dev) return 2;
                w.kv("ar", opn2_openBankData(dev, ex, (long)len));
            }
            free(ex);
        }
        else return 2;
        alarm(0);
        w.s += "}\n";
        fputs(w.s.c_str(), g_trace);
    }
    if(dev) opn2_close(dev);
    if(W) WOPN_Free(W);
    if(L) WOPN_Free(L);
    fprintf(g_trace, "{\"o\":\"end\"}\n");
    fclose(g_trace);
    return 0;
}
