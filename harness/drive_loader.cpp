// drive_loader <script.ndjson> <trace.ndjson>
// C01: drives the REAL music loader with untrusted byte strings and a follow-up call sequence.
//
// A history is  {"e":"Init",...}  command*  {"e":"Done"} .  Every history runs in its own forked child
// (sanitizer build), so that a crash, a sanitizer report, an uncaught exception, a hang or a memory
// blow-up of one input never stops the run.  The child executes the commands on a fresh
// OPN2_MIDIPlayer and writes one observation per finished command; the parent watches the child
// (wall clock, resident set), collects exit status / rusage / the sanitizer report and writes exactly
// one trace record per command:
//     <command JSON> + "st":"ok"|"crash"|"throw"|"timeout"|"rss"|"skip"  (+ r, errlen, wms, cpu, hwm = peak resident KiB so far, ... )
// The record of the command during which the child died carries st # "ok" and the call site
// ("site" = innermost frame of the report that lies in the library's src/ directory, "kind", "file",
// "line").  The Done record carries the per-execution totals (xcpu, xwall in ms, xrss in KiB, xdied).
// The harness only drives and records; every verdict is computed by TLC (spec/LoaderTrace.tla).
//
// Input bytes of a Load command are  head ++ unit^times ++ tail  (arrays of 0..255, run-length form
// so that inputs up to 64 KiB stay small in the trace).
#include "vh.hpp"
#include <sys/wait.h>
#include <sys/resource.h>
#include <sys/time.h>
#include <sys/stat.h>
#include <fcntl.h>
#include <time.h>
#include <cmath>
#include <climits>
#include <map>

extern "C" void __sanitizer_print_stack_trace(void);
// Reports are symbolised by the parent through one persistent llvm-symbolizer (a symbolizer start per
// crashing child costs ~170 ms); options given in ASAN_OPTIONS by the pipeline still take precedence.
extern "C" const char *__asan_default_options() { return "symbolize=0"; }

static const long  RSS_KILL_KIB   = 1536L * 1024L;   // the parent kills a child above 1.5 GiB resident (verdict threshold is TLC's: 512 MiB)
static const int   CPU_LIMIT_S    = 6;               // child: SIGPROF after 6 s of CPU (verdict threshold is TLC's: 5 s)
static const int   WALL_LIMIT_S   = 45;              // child: SIGALRM backstop (loaded machine)
static const int   WALL_KILL_S    = 70;              // parent: SIGKILL backstop

static double nowMs()
{
    struct timespec ts; clock_gettime(CLOCK_MONOTONIC, &ts);
    return ts.tv_sec * 1000.0 + ts.tv_nsec / 1e6;
}
static double cpuMs()
{
    struct rusage ru; getrusage(RUSAGE_SELF, &ru);
    return (ru.ru_utime.tv_sec + ru.ru_stime.tv_sec) * 1000.0 + (ru.ru_utime.tv_usec + ru.ru_stime.tv_usec) / 1000.0;
}

// ------------------------------------------------------------------ child side
static FILE *g_obs = NULL;

static void childTimeout(int sig)
{
    const char *m = (sig == SIGALRM) ? "\nVERIF-TIMEOUT wall\n" : "\nVERIF-TIMEOUT cpu\n";
    (void)!write(2, m, strlen(m));
    __sanitizer_print_stack_trace();
    _exit(72);
}
static void childRss(int)
{
    // sent by the parent when the resident set passes RSS_KILL_KIB: show where the memory is being eaten
    const char *m = "\nVERIF-RSS\n";
    (void)!write(2, m, strlen(m));
    __sanitizer_print_stack_trace();
    _exit(73);
}
static void childAbort(int)
{
    const char *m = "\nVERIF-ABORT\n";
    (void)!write(2, m, strlen(m));
    __sanitizer_print_stack_trace();
    _exit(70);
}
static void childTerminate()
{
    // uncaught C++ exception leaving the C API: the stack is not unwound yet, so the trace shows the throw site
    const char *what = "?";
    std::string keep;
    try { std::exception_ptr p = std::current_exception(); if(p) std::rethrow_exception(p); }
    catch(const std::exception &e) { keep = e.what(); what = keep.c_str(); }
    catch(...) { what = "non-std exception"; }
    fprintf(stderr, "\nVERIF-THROW %s\n", what);
    fflush(stderr);
    __sanitizer_print_stack_trace();
    _exit(71);
}

static void makeBank(OPN2_MIDIPlayer *dev)
{
    OPN2_BankId id; id.percussive = 0; id.msb = 0; id.lsb = 0; OPN2_Bank b;
    opn2_getBank(dev, &id, OPNMIDI_Bank_Create, &b);
    for(int pgm = 0; pgm < 16; ++pgm) { OPN2_Instrument ins; InsSpec s; s.id = pgm + 1; s.kon = 40; s.koff = 20; fillInstrument(ins, s); opn2_setInstrument(dev, &b, (unsigned)pgm, &ins); }
    id.percussive = 1; opn2_getBank(dev, &id, OPNMIDI_Bank_Create, &b);
    for(int k = 35; k < 51; ++k) { OPN2_Instrument ins; InsSpec s; s.id = 100 + k - 35; s.kon = 30; s.koff = 10; s.drum = k; fillInstrument(ins, s); opn2_setInstrument(dev, &b, (unsigned)k, &ins); }
}

static long long finiteUs(double v, int &fin)
{
    fin = std::isfinite(v) ? 1 : 0;
    if(!fin) return 0;
    double us = v * 1e6;
    if(us > 2.0e9) return 2000000000LL;
    if(us < -2.0e9) return -2000000000LL;
    return (long long)llround(us);
}

static size_t idxClass(long long k, size_t count)
{
    if(k == 0) return 0;
    if(k == 1) return count;
    if(k == 2) return (size_t)-1;
    return count ? count - 1 : 0;
}

static void runChild(const std::vector<std::string> &lines, size_t from, size_t to, const char *obsPath, const char *errPath)
{
    int efd = open(errPath, O_WRONLY | O_CREAT | O_TRUNC, 0644);
    if(efd >= 0) { dup2(efd, 2); close(efd); }
    g_obs = fopen(obsPath, "w");
    if(!g_obs) _exit(2);
    std::set_terminate(childTerminate);
    signal(SIGALRM, childTimeout);
    signal(SIGPROF, childTimeout);
    signal(SIGXCPU, childTimeout);
    signal(SIGABRT, childAbort);
    signal(SIGUSR1, childRss);
    struct itimerval it; memset(&it, 0, sizeof it); it.it_value.tv_sec = CPU_LIMIT_S;
    if(getenv("VERIF_LOADER_CPU_S")) it.it_value.tv_sec = atoi(getenv("VERIF_LOADER_CPU_S"));      // diagnostics only
    setitimer(ITIMER_PROF, &it, NULL);
    alarm(WALL_LIMIT_S);

    OPN2_MIDIPlayer *dev = NULL;
    for(size_t li = from; li < to; ++li)
    {
        JV c; if(!jparse(lines[li], c)) _exit(2);
        std::string e = c.gets("e");
        fprintf(g_obs, "B %zu\n", li - from); fflush(g_obs);
        double t0 = nowMs(), c0 = cpuMs();
        JW w; w.first = false;
        if(e == "Init")
        {
            dev = opn2_init(44100);
            if(!dev) _exit(2);
            if(c.has("emu")) opn2_switchEmulator(dev, (int)c.get("emu"));
            opn2_setNumChips(dev, (int)c.get("chips", 1));
            makeBank(dev);
        }
        else if(!dev) _exit(2);
        else if(e == "Load")
        {
            const JV &h = c["head"], &u = c["unit"], &t = c["tail"];
            size_t times = u.a.empty() ? 0 : (size_t)c.get("times", 0);
            size_t n = h.a.size() + u.a.size() * times + t.a.size();
            if(n > (1u << 20)) _exit(2);
            uint8_t *buf = (uint8_t *)malloc(n ? n : 1);      // exact-size heap block: reads past the caller's buffer are seen by ASan
            size_t k = 0;
            for(size_t i = 0; i < h.a.size(); ++i) buf[k++] = (uint8_t)h.a[i].num();
            for(size_t j = 0; j < times; ++j) for(size_t i = 0; i < u.a.size(); ++i) buf[k++] = (uint8_t)u.a[i].num();
            for(size_t i = 0; i < t.a.size(); ++i) buf[k++] = (uint8_t)t.a[i].num();
            int r = opn2_openData(dev, buf, (unsigned long)n);
            free(buf);                                          // the caller's buffer is gone after the call (the loader copies what it keeps)
            const char *err = opn2_errorInfo(dev);
            w.kv("r", r); w.kv("errlen", (long long)(err ? strlen(err) : 0)); w.kv("n", (long long)n);
            w.kv("tracks", (long long)std::min<size_t>(opn2_trackCount(dev), 1000000)); w.kv("songs", opn2_getSongsCount(dev));
        }
        else if(e == "Sel") { opn2_selectSongNum(dev, (int)c.get("i")); w.kv("songs", opn2_getSongsCount(dev)); w.kv("tracks", (long long)std::min<size_t>(opn2_trackCount(dev), 1000000)); }
        else if(e == "Loop") opn2_setLoopEnabled(dev, (int)c.get("en"));
        else if(e == "LoopCount") opn2_setLoopCount(dev, (int)c.get("n"));
        else if(e == "Play")
        {
            int n = (int)c.get("n", 256);
            std::vector<short> out((size_t)n * 2 + 2);
            int r = opn2_play(dev, n * 2, out.data());
            w.kv("r", r);
        }
        else if(e == "Tick")
        {
            double s = (double)c.get("ms", 100) / 1000.0; int reps = (int)c.get("k", 1);
            double d = 0; int fin = 1;
            for(int i = 0; i < reps; ++i) d = opn2_tickEvents(dev, s, s / 10.0);
            w.kv("us", finiteUs(d, fin)); w.kv("fin", fin);
        }
        else if(e == "Seek")
        {
            double len = opn2_totalTimeLength(dev);
            if(!std::isfinite(len)) len = 1.0;
            long long k = c.get("k");
            double t = (k == 0) ? -1.0 : (k == 1) ? 0.0 : (k == 2) ? len / 2 : (k == 3) ? len : len + 2.0;
            opn2_positionSeek(dev, t);
            int fin; w.kv("tell", finiteUs(opn2_positionTell(dev), fin)); w.kv("fin", fin);
        }
        else if(e == "Rewind") opn2_positionRewind(dev);
        else if(e == "Tell") { int fin; w.kv("us", finiteUs(opn2_positionTell(dev), fin)); w.kv("fin", fin); }
        else if(e == "Total")
        {
            int f1, f2, f3;
            w.kv("us", finiteUs(opn2_totalTimeLength(dev), f1)); w.kv("ls", finiteUs(opn2_loopStartTime(dev), f2)); w.kv("le", finiteUs(opn2_loopEndTime(dev), f3));
            w.kv("fin", f1 & f2 & f3);
        }
        else if(e == "Meta")
        {
            std::string q = c.gets("q"); long long ic = c.get("i");
            long long len = -1, cnt = -1;
            if(q == "title") len = (long long)strlen(opn2_metaMusicTitle(dev));
            else if(q == "copyright") len = (long long)strlen(opn2_metaMusicCopyright(dev));
            else if(q == "tt") { cnt = (long long)opn2_metaTrackTitleCount(dev); len = (long long)strlen(opn2_metaTrackTitle(dev, idxClass(ic, (size_t)cnt))); }
            else if(q == "mk")
            {
                cnt = (long long)opn2_metaMarkerCount(dev);
                Opn2_MarkerEntry m = opn2_metaMarker(dev, idxClass(ic, (size_t)cnt));
                len = (long long)strlen(m.label);
            }
            w.kv("len", std::min(len, 100000000LL)); w.kv("cnt", std::min(cnt, 100000000LL));
        }
        else if(e == "Tracks") w.kv("r", (long long)std::min<size_t>(opn2_trackCount(dev), 1000000));
        else if(e == "TrackOpt")
        {
            size_t cnt = opn2_trackCount(dev);
            w.kv("r", opn2_setTrackOptions(dev, idxClass(c.get("t"), cnt), (unsigned)c.get("o", 1)));
        }
        else if(e == "ChanEn") w.kv("r", opn2_setChannelEnabled(dev, (size_t)c.get("c"), (int)c.get("en")));
        else if(e == "AtEnd") w.kv("r", opn2_atEnd(dev));
        else if(e == "Reset") opn2_reset(dev);
        else if(e == "Done") { }
        else _exit(2);
        double t1 = nowMs(), c1 = cpuMs();
        struct rusage ru; getrusage(RUSAGE_SELF, &ru);
        fprintf(g_obs, "R %zu ,\"st\":\"ok\"%s,\"wms\":%lld,\"cpu\":%lld,\"hwm\":%ld\n", li - from, w.s.c_str(), (long long)(t1 - t0), (long long)(c1 - c0), (long)ru.ru_maxrss);
        fflush(g_obs);
    }
    if(dev) opn2_close(dev);
    fclose(g_obs);
    _exit(0);
}

// ------------------------------------------------------------------ parent side
static std::string slurp(const char *path, size_t cap)
{
    std::string s; FILE *f = fopen(path, "r");
    if(!f) return s;
    char b[8192]; size_t n;
    while(s.size() < cap && (n = fread(b, 1, sizeof b, f)) > 0) s.append(b, n);
    fclose(f);
    return s;
}

static long rssKiB(pid_t pid)
{
    char p[64]; snprintf(p, sizeof p, "/proc/%d/statm", (int)pid);
    FILE *f = fopen(p, "r"); if(!f) return 0;
    long a = 0, r = 0; int k = fscanf(f, "%ld %ld", &a, &r); fclose(f);
    return k == 2 ? r * (sysconf(_SC_PAGESIZE) / 1024) : 0;
}

static std::string baseFunc(std::string f)
{
    // "BW_MidiSequencer::parseEvent(unsigned char const**, ...)" -> "parseEvent"
    int depth = 0; size_t cut = f.size();
    for(size_t i = 0; i < f.size(); ++i)
    {
        if(f[i] == '<') ++depth; else if(f[i] == '>') { if(depth > 0) --depth; }
        else if(f[i] == '(' && depth == 0) { cut = i; break; }
    }
    f = f.substr(0, cut);
    // drop template arguments and qualifiers
    std::string g; depth = 0;
    for(size_t i = 0; i < f.size(); ++i) { if(f[i] == '<') ++depth; else if(f[i] == '>') { if(depth > 0) --depth; } else if(!depth) g += f[i]; }
    size_t p = g.rfind("::"); if(p != std::string::npos) g = g.substr(p + 2);
    p = g.rfind(' '); if(p != std::string::npos) g = g.substr(p + 1);
    std::string o; for(size_t i = 0; i < g.size(); ++i) if(isalnum((unsigned char)g[i]) || g[i] == '_' || g[i] == '~') o += g[i];
    return o.empty() ? std::string("unknown") : o;
}

struct Site { std::string kind, func, file; long line; std::string what; Site() : line(0) {} };
struct Frame { std::string func, file; long line; };

// one llvm-symbolizer process for the whole run, answers cached by module offset
struct Symbolizer
{
    pid_t pid; int wfd; FILE *rf; std::string exe;
    std::map<std::string, std::vector<Frame> > cache;
    Symbolizer() : pid(-1), wfd(-1), rf(NULL) {}
    bool start()
    {
        if(pid > 0) return true;
        char self[4096]; ssize_t n = readlink("/proc/self/exe", self, sizeof self - 1);
        if(n <= 0) return false;
        self[n] = 0; exe = self;
        int in[2], out[2];
        if(pipe(in) || pipe(out)) return false;
        pid = fork();
        if(pid < 0) return false;
        if(pid == 0)
        {
            dup2(in[0], 0); dup2(out[1], 1); close(in[1]); close(out[0]);
            execlp("llvm-symbolizer", "llvm-symbolizer", "--inlining", "--demangle", "--obj", exe.c_str(), (char *)NULL);
            execlp("llvm-symbolizer-14", "llvm-symbolizer-14", "--inlining", "--demangle", "--obj", exe.c_str(), (char *)NULL);
            _exit(127);
        }
        close(in[0]); close(out[1]);
        wfd = in[1]; rf = fdopen(out[0], "r");
        return rf != NULL;
    }
    const std::vector<Frame> &resolve(const std::string &off)
    {
        std::map<std::string, std::vector<Frame> >::iterator it = cache.find(off);
        if(it != cache.end()) return it->second;
        std::vector<Frame> &v = cache[off];
        if(!start()) return v;
        std::string q = "0x" + off + "\n";
        if(write(wfd, q.c_str(), q.size()) != (ssize_t)q.size()) return v;
        char buf[4096]; std::string fn; bool haveFn = false;
        while(fgets(buf, sizeof buf, rf))
        {
            std::string ln(buf); while(!ln.empty() && (ln[ln.size() - 1] == '\n' || ln[ln.size() - 1] == '\r')) ln.erase(ln.size() - 1);
            if(ln.empty()) break;
            if(!haveFn) { fn = ln; haveFn = true; continue; }
            Frame f; f.func = fn; f.line = 0; f.file = ln;
            size_t c2 = ln.rfind(':'); size_t c1 = c2 == std::string::npos ? c2 : ln.rfind(':', c2 - 1);
            if(c1 != std::string::npos) { f.file = ln.substr(0, c1); f.line = atol(ln.c_str() + c1 + 1); }
            v.push_back(f); haveFn = false;
        }
        return v;
    }
    void stop() { if(pid > 0) { close(wfd); if(rf) fclose(rf); int st; waitpid(pid, &st, 0); pid = -1; } }
};
static Symbolizer g_sym;

static bool libFrame(const std::string &file)
{
    return file.find("/src/") != std::string::npos && file.find("/harness/") == std::string::npos && file.find("compiler-rt") == std::string::npos;
}

static Site parseReport(const std::string &err)
{
    Site s; s.kind = "none"; s.func = "unknown";
    size_t p;
    if((p = err.find("AddressSanitizer: ")) != std::string::npos)
    {
        size_t q = p + 18, e = q;
        while(e < err.size() && (isalnum((unsigned char)err[e]) || err[e] == '-' || err[e] == '_')) ++e;
        s.kind = err.substr(q, e - q);
        if(s.kind == "SEGV" || s.kind == "FPE" || s.kind == "BUS" || s.kind == "ILL") s.kind = "signal-" + s.kind;
        if(s.kind == "requested" || s.kind == "allocator") s.kind = "allocation-size";
    }
    else if((p = err.find("runtime error: ")) != std::string::npos) s.kind = "ubsan";
    else if(err.find("VERIF-THROW") != std::string::npos) s.kind = "throw";
    else if(err.find("VERIF-TIMEOUT") != std::string::npos) s.kind = "timeout";
    else if(err.find("VERIF-RSS") != std::string::npos) s.kind = "rss-limit";
    else if(err.find("VERIF-ABORT") != std::string::npos) s.kind = "abort";
    if((p = err.find("VERIF-THROW ")) != std::string::npos) { size_t e = err.find('\n', p); s.what = err.substr(p + 12, e == std::string::npos ? 60 : std::min<size_t>(60, e - p - 12)); }
    if((p = err.find(": Assertion `")) != std::string::npos)
    {
        // "prog: /path/src/file.hpp:137: uint32_t func(args): Assertion `...' failed."  (the failing call is often tail-merged, so
        // the stack no longer tells which inlined reader it was; the message does)
        size_t b = err.rfind('\n', p); b = (b == std::string::npos) ? 0 : b + 1;
        std::string ln = err.substr(b, p - b);
        size_t sl = ln.find("/src/");
        if(sl != std::string::npos)
        {
            size_t c1 = ln.find(':', sl), c2 = c1 == std::string::npos ? c1 : ln.find(':', c1 + 1);
            if(c2 != std::string::npos)
            {
                s.kind = "assert";
                s.file = ln.substr(sl + 5, c1 - sl - 5); s.line = atol(ln.c_str() + c1 + 1);
                size_t sl2 = s.file.rfind('/'); if(sl2 != std::string::npos) s.file = s.file.substr(sl2 + 1);
                s.func = baseFunc(ln.substr(c2 + 2));
                return s;
            }
        }
    }
    if(s.kind == "ubsan")
    {
        // "/path/src/file.hpp:123:4: runtime error: index 16 out of bounds ..."  (no stack by default)
        size_t r = err.find(": runtime error: ");
        size_t b = err.rfind('\n', r); b = (b == std::string::npos) ? 0 : b + 1;
        std::string fl = err.substr(b, r - b);
        size_t c2 = fl.rfind(':'); size_t c1 = c2 == std::string::npos ? c2 : fl.rfind(':', c2 - 1);
        if(c1 != std::string::npos) { s.file = fl.substr(0, c1); s.line = atol(fl.c_str() + c1 + 1); }
        size_t sl = s.file.rfind('/'); if(sl != std::string::npos) s.file = s.file.substr(sl + 1);
        s.func = s.file + "_" + std::to_string(s.line);
        for(size_t i = 0; i < s.func.size(); ++i) if(!isalnum((unsigned char)s.func[i])) s.func[i] = '_';
        return s;
    }
    // frames of the first stack:  "    #3 0x55d0c8  (/path/h_drive_loader+0x2a94c8)"  (or already symbolised: " in FUNC /path:1:2")
    size_t pos = 0; bool stackSeen = false; int frames = 0;
    while(pos < err.size() && frames < 64)
    {
        size_t e = err.find('\n', pos); if(e == std::string::npos) e = err.size();
        std::string ln = err.substr(pos, e - pos); pos = e + 1;
        size_t h = ln.find_first_not_of(" \t");
        bool isFrame = h != std::string::npos && ln[h] == '#' && ln.find(" 0x", h) != std::string::npos;
        if(!isFrame) { if(stackSeen && h == std::string::npos) break; continue; }      // blank line ends the first stack
        stackSeen = true; ++frames;
        std::vector<Frame> fr;
        size_t in = ln.find(" in ");
        size_t mod = ln.find("h_drive_loader+0x");
        if(in != std::string::npos)
        {
            size_t sp = ln.rfind(' ');
            if(sp != std::string::npos && sp > in + 4)
            {
                Frame f; f.func = ln.substr(in + 4, sp - in - 4); f.file = ln.substr(sp + 1); f.line = 0;
                size_t c2 = f.file.rfind(':'); size_t c1 = c2 == std::string::npos ? c2 : f.file.rfind(':', c2 - 1);
                if(c1 != std::string::npos) { f.line = atol(f.file.c_str() + c1 + 1); f.file = f.file.substr(0, c1); }
                fr.push_back(f);
            }
        }
        else if(mod != std::string::npos)
        {
            size_t q = mod + 17, e2 = q;
            while(e2 < ln.size() && isxdigit((unsigned char)ln[e2])) ++e2;
            fr = g_sym.resolve(ln.substr(q, e2 - q));
        }
        for(size_t i = 0; i < fr.size(); ++i)
            if(libFrame(fr[i].file))
            {
                s.func = baseFunc(fr[i].func); s.file = fr[i].file; s.line = fr[i].line;
                size_t sl = s.file.rfind('/'); if(sl != std::string::npos) s.file = s.file.substr(sl + 1);
                return s;
            }
    }
    return s;
}

int main(int argc, char **argv)
{
    if(argc < 3) return 2;
    std::vector<std::string> lines;
    if(!readLines(argv[1], lines)) return 2;
    FILE *tr = fopen(argv[2], "w");
    if(!tr) return 2;
    std::string obsPath = std::string(argv[2]) + ".obs", errPath = std::string(argv[2]) + ".err";
    size_t li = 0;
    while(li < lines.size())
    {
        if(lines[li].compare(0, 11, "{\"e\":\"Init\"") != 0) { fprintf(stderr, "INFRA: history must start with Init (line %zu)\n", li); return 2; }
        size_t to = li + 1;
        while(to < lines.size() && lines[to].compare(0, 11, "{\"e\":\"Init\"") != 0) ++to;
        if(lines[to - 1].compare(0, 11, "{\"e\":\"Done\"") != 0) { fprintf(stderr, "INFRA: history must end with Done (line %zu)\n", to - 1); return 2; }
        unlink(obsPath.c_str()); unlink(errPath.c_str());
        fflush(tr);
        double w0 = nowMs();
        pid_t pid = fork();
        if(pid < 0) return 2;
        if(pid == 0) { fclose(tr); runChild(lines, li, to, obsPath.c_str(), errPath.c_str()); _exit(0); }
        int status = 0; struct rusage ru; memset(&ru, 0, sizeof ru);
        long peak = 0; bool rssKilled = false, wallKilled = false; double rssAt = 0;
        useconds_t nap = 200;
        for(;;)
        {
            pid_t w = wait4(pid, &status, WNOHANG, &ru);
            if(w == pid) break;
            if(w < 0) return 2;
            long r = rssKiB(pid); if(r > peak) peak = r;
            if(r > RSS_KILL_KIB && !rssKilled) { rssKilled = true; rssAt = nowMs(); kill(pid, SIGUSR1); }
            if(rssKilled && nowMs() - rssAt > 3000.0 && !wallKilled) { wallKilled = true; kill(pid, SIGKILL); }
            if(nowMs() - w0 > WALL_KILL_S * 1000.0 && !wallKilled) { wallKilled = true; kill(pid, SIGKILL); }
            usleep(nap); if(nap < 4000) nap += 200;
        }
        double wall = nowMs() - w0;
        if(ru.ru_maxrss > peak) peak = ru.ru_maxrss;
        long long xcpu = (long long)((ru.ru_utime.tv_sec + ru.ru_stime.tv_sec) * 1000.0 + (ru.ru_utime.tv_usec + ru.ru_stime.tv_usec) / 1000.0);
        bool clean = WIFEXITED(status) && WEXITSTATUS(status) == 0;
        if(WIFEXITED(status) && WEXITSTATUS(status) == 2) { fprintf(stderr, "INFRA: child reported a script error in history at line %zu\n", li); return 2; }
        // observations
        std::vector<std::string> obs(to - li);
        long began = -1;
        {
            std::string o = slurp(obsPath.c_str(), 64u << 20);
            size_t pos = 0;
            while(pos < o.size())
            {
                size_t e = o.find('\n', pos); if(e == std::string::npos) break;   // a half-written last line is dropped
                std::string ln = o.substr(pos, e - pos); pos = e + 1;
                if(ln.size() > 2 && ln[0] == 'B') began = atol(ln.c_str() + 2);
                else if(ln.size() > 2 && ln[0] == 'R')
                {
                    char *q; long i = strtol(ln.c_str() + 2, &q, 10);
                    if(i >= 0 && (size_t)i < obs.size()) obs[(size_t)i] = std::string(q + 1);
                }
            }
        }
        std::string st = "ok"; Site site; int sig = 0, code = 0;
        if(!clean)
        {
            std::string err = slurp(errPath.c_str(), 1u << 20);
            site = parseReport(err);
            if(WIFSIGNALED(status)) sig = WTERMSIG(status); else code = WEXITSTATUS(status);
            if(rssKilled) { st = "rss"; if(site.kind == "none") site.kind = "rss-kill"; }
            else if(wallKilled || code == 72 || site.kind == "timeout") st = "timeout";
            else if(code == 71 || site.kind == "throw") st = "throw";
            else st = "crash";
            if(site.kind == "none") site.kind = sig ? ("signal-" + std::to_string(sig)) : ("exit-" + std::to_string(code));
        }
        for(size_t i = li; i < to; ++i)
        {
            size_t k = i - li;
            std::string rec = lines[i]; rec.pop_back();
            bool done = (i == to - 1);
            if(!obs[k].empty()) rec += obs[k];
            else if(!clean && (long)k == began)
            {
                JW w; w.first = false;
                w.ks("st", st); w.ks("kind", site.kind); w.ks("site", site.func); w.ks("file", site.file); w.kv("line", site.line);
                w.kv("sig", sig); w.kv("code", code); if(!site.what.empty()) w.ks("what", site.what);
                rec += w.s;
            }
            else if(!clean && began < 0 && k == 0)      // died before the first command began (never expected)
            {
                JW w; w.first = false; w.ks("st", st); w.ks("kind", site.kind); w.ks("site", "startup"); w.ks("file", ""); w.kv("line", 0); w.kv("sig", sig); w.kv("code", code);
                rec += w.s;
            }
            else rec += ",\"st\":\"skip\"";
            if(done)
            {
                JW w; w.first = false;
                w.kv("xcpu", xcpu); w.kv("xwall", (long long)wall); w.kv("xrss", (long long)peak); w.kv("xdied", clean ? 0 : 1);
                rec += w.s;
            }
            rec += "}\n";
            fputs(rec.c_str(), tr);
        }
        li = to;
    }
    g_sym.stop();
    fprintf(tr, "{\"e\":\"End\"}\n");
    fclose(tr);
    unlink(obsPath.c_str()); unlink(errPath.c_str());
    return 0;
}
