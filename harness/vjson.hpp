// Minimal JSON value, parser and writer for the conformance harnesses (no external deps).
#pragma once
#include <cstdio>
#include <cstdlib>
#include <cstring>
#include <map>
#include <string>
#include <vector>
#include <stdint.h>

struct JV
{
    enum T { Null, Bool, Int, Str, Arr, Obj } t;
    long long i; bool b; std::string s;
    std::vector<JV> a;
    std::vector<std::pair<std::string, JV> > o;
    JV() : t(Null), i(0), b(false) {}
    bool has(const char *k) const { for(size_t n = 0; n < o.size(); ++n) if(o[n].first == k) return true; return false; }
    const JV &operator[](const char *k) const
    {
        static JV nul;
        for(size_t n = 0; n < o.size(); ++n) if(o[n].first == k) return o[n].second;
        return nul;
    }
    const JV &operator[](size_t n) const { return a[n]; }
    long long num(long long d = 0) const { return t == Int ? i : (t == Bool ? (b ? 1 : 0) : d); }
    long long get(const char *k, long long d = 0) const { const JV &v = (*this)[k]; return v.t == Null ? d : v.num(d); }
    std::string gets(const char *k, const char *d = "") const { const JV &v = (*this)[k]; return v.t == Str ? v.s : std::string(d); }
    size_t size() const { return t == Arr ? a.size() : o.size(); }
};

struct JParser
{
    const char *p, *e;
    bool ok;
    JParser(const char *b, size_t n) : p(b), e(b + n), ok(true) {}
    void ws() { while(p < e && (*p == ' ' || *p == '\t' || *p == '\n' || *p == '\r')) ++p; }
    JV parse()
    {
        JV v; ws();
        if(p >= e) { ok = false; return v; }
        if(*p == '{')
        {
            v.t = JV::Obj; ++p; ws();
            if(p < e && *p == '}') { ++p; return v; }
            while(ok)
            {
                ws(); JV k = parse(); if(k.t != JV::Str) { ok = false; break; }
                ws(); if(p >= e || *p != ':') { ok = false; break; } ++p;
                JV x = parse(); v.o.push_back(std::make_pair(k.s, x)); ws();
                if(p < e && *p == ',') { ++p; continue; }
                if(p < e && *p == '}') { ++p; break; }
                ok = false;
            }
        }
        else if(*p == '[')
        {
            v.t = JV::Arr; ++p; ws();
            if(p < e && *p == ']') { ++p; return v; }
            while(ok)
            {
                v.a.push_back(parse()); ws();
                if(p < e && *p == ',') { ++p; continue; }
                if(p < e && *p == ']') { ++p; break; }
                ok = false;
            }
        }
        else if(*p == '"')
        {
            v.t = JV::Str; ++p;
            while(p < e && *p != '"')
            {
                if(*p == '\\' && p + 1 < e)
                {
                    ++p;
                    switch(*p)
                    {
                    case 'n': v.s += '\n'; break; case 't': v.s += '\t'; break;
                    case 'u': { unsigned c = 0; sscanf(p + 1, "%4x", &c); v.s += (char)c; p += 4; break; }
                    default: v.s += *p;
                    }
                    ++p;
                }
                else v.s += *p++;
            }
            if(p < e) ++p; else ok = false;
        }
        else if(!strncmp(p, "true", 4)) { v.t = JV::Bool; v.b = true; p += 4; }
        else if(!strncmp(p, "false", 5)) { v.t = JV::Bool; v.b = false; p += 5; }
        else if(!strncmp(p, "null", 4)) { p += 4; }
        else
        {
            char *q; v.t = JV::Int; v.i = strtoll(p, &q, 10);
            if(q == p) ok = false;
            if(q < e && (*q == '.' || *q == 'e' || *q == 'E')) { double d = strtod(p, &q); v.i = (long long)d; }
            p = q;
        }
        return v;
    }
};

inline bool jparse(const std::string &line, JV &out)
{
    JParser ps(line.data(), line.size());
    out = ps.parse();
    return ps.ok;
}

// ---------------------------------------------------------------- writer
struct JW
{
    std::string s;
    bool first;
    std::vector<bool> stk;
    JW() : first(true) {}
    void sep() { if(!first) s += ','; first = false; }
    JW &key(const char *k) { sep(); s += '"'; s += k; s += "\":"; first = true; return *this; }
    JW &begin_obj() { sep(); s += '{'; first = true; return *this; }
    JW &end_obj() { s += '}'; first = false; return *this; }
    JW &begin_arr() { sep(); s += '['; first = true; return *this; }
    JW &end_arr() { s += ']'; first = false; return *this; }
    JW &num(long long v) { sep(); char b[32]; snprintf(b, sizeof b, "%lld", v); s += b; return *this; }
    JW &boolean(bool v) { sep(); s += v ? "true" : "false"; return *this; }
    JW &str(const std::string &v)
    {
        sep(); s += '"';
        for(size_t i = 0; i < v.size(); ++i)
        {
            unsigned char c = (unsigned char)v[i];
            if(c == '"' || c == '\\') { s += '\\'; s += (char)c; }
            else if(c < 0x20 || c >= 0x7f) { char b[8]; snprintf(b, sizeof b, "\\u%04x", c); s += b; }
            else s += (char)c;
        }
        s += '"'; return *this;
    }
    JW &kv(const char *k, long long v) { key(k); return num(v); }
    JW &kb(const char *k, bool v) { key(k); return boolean(v); }
    JW &ks(const char *k, const std::string &v) { key(k); return str(v); }
};

// TLC integers are 32-bit: abort (infrastructure error, never a verdict) on overflow.
inline long long tlcint(long long v)
{
    if(v > 2147483647LL || v < -2147483647LL)
    {
        fprintf(stderr, "INFRA: value %lld does not fit a TLC integer\n", v);
        _Exit(97);
    }
    return v;
}
