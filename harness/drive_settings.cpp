// drive_settings <script.ndjson> <trace.ndjson>
// C18 conformance harness.  Replays histories of setter / reset / load calls on TWO real
// instances: A receives every call, the twin B receives every call except those that reported
// failure on A (so "a rejected call changes nothing" becomes "A and B stay indistinguishable").
// After every call the harness records, for both instances, all public getters plus the
// getter-less settings read from the live objects (projection), and for the probe commands
//   Probe     opn2_reset + a short real-time phrase: hash of the chip register/pan writes and of the PCM
//   PlaySong  opn2_reset + rewind + tick-driven playback of the loaded song: hook call counts, key-ons per pitch
// The harness computes no expectation: every predicate is evaluated by TLC (spec/SettingsTrace.tla).
#include <list>
#include <vector>
#include <string>
#include <map>
#include <set>
#include <cstdio>
#include <cstring>
#include <cstdarg>
#include "vh.hpp"
#include "fraction.hpp"
#include "file_reader.hpp"
// the sequencer keeps loop-hooks-only / song number / track and channel masks private and has no getter
#define private public
#include "midi_sequencer.hpp"
#undef private
#include "wopn/wopn_file.h"

extern "C" void opn2_set_vgm_out_path(const char *path);
// a rejected-but-stored chip count of 2^31 makes the next applySetup() allocate 34 GB: bound the damage
extern "C" const char *__asan_default_options() { return "hard_rss_limit_mb=4000:detect_leaks=0"; }

struct Inst
{
    OPN2_MIDIPlayer *dev;
    Tap *tap;
    long hc[5];              // hook call counters: raw, note, dbg, loop start, loop end
    uint32_t wh; long wn;    // hash / count of register+pan writes while hashing is on
    bool hashing;
    Inst() : dev(NULL), tap(NULL), wh(2166136261u), wn(0), hashing(false) { memset(hc, 0, sizeof hc); }
};
static Inst I[2];
static std::vector<short> pcm;
static std::string g_stageBuf;

static inline void fnv(uint32_t &h, uint32_t v) { for(int i = 0; i < 4; ++i) { h ^= (v >> (8 * i)) & 0xFF; h *= 16777619u; } }

static void tapCb(void *ud, int kind, size_t chip, unsigned a, unsigned b, unsigned c)
{
    Inst *in = (Inst *)ud;
    if(kind != 'G' && in->hashing) { fnv(in->wh, (uint32_t)kind); fnv(in->wh, (uint32_t)chip); fnv(in->wh, a); fnv(in->wh, b); fnv(in->wh, c); ++in->wn; }
    if(chip < 100) Tap::cb(in->tap, kind, chip, a, b, c);   // the shadow registers of the shared tap end at chip 99
}
static void hkRaw(void *u, OPN2_UInt8, OPN2_UInt8, OPN2_UInt8, const OPN2_UInt8 *, size_t) { ++((Inst *)u)->hc[0]; }
static void hkNote(void *u, int, int, int, int, double) { ++((Inst *)u)->hc[1]; }
static void hkDbg(void *u, const char *, ...) { ++((Inst *)u)->hc[2]; }
static void hkLs(void *u) { ++((Inst *)u)->hc[3]; }
static void hkLe(void *u) { ++((Inst *)u)->hc[4]; }

// ---------------------------------------------------------------- test banks and songs (fixed inputs)
static std::vector<uint8_t> bankImage(int b)
{
    // header values per bank: volume model (not carried by the format: reads back Generic), LFO byte, chip type -- mirrored by Settings!BankHdr
    static const int VM[4] = {0, 2, 1, 4}, LFO[4] = {0, 8 | 3, 5, 8 | 7}, CT[4] = {0, 1, 0, 0};
    WOPNFile *f = WOPN_Init(1, 1);
    f->version = 2; f->volume_model = (uint8_t)VM[b]; f->lfo_freq = (uint8_t)LFO[b]; f->chip_type = (uint8_t)CT[b];
    for(int i = 0; i < 128; ++i) { f->banks_melodic[0].ins[i].inst_flags = WOPN_Ins_IsBlank; f->banks_percussive[0].ins[i].inst_flags = WOPN_Ins_IsBlank; }
    f->banks_melodic[0].bank_midi_msb = 0; f->banks_melodic[0].bank_midi_lsb = 0;
    f->banks_percussive[0].bank_midi_msb = 0; f->banks_percussive[0].bank_midi_lsb = 0;
    struct { WOPNInstrument *w; int id, drum; } put[3] = {
        { &f->banks_melodic[0].ins[0], 10 + b, 0 }, { &f->banks_melodic[0].ins[1], 30 + b, 0 }, { &f->banks_percussive[0].ins[38], 20 + b, 50 } };
    for(int k = 0; k < 3; ++k)
    {
        InsSpec s; s.id = put[k].id; s.kon = 300; s.koff = 100; s.drum = put[k].drum; s.fbalg = (k == 1) ? 0x04 : 0x07; s.lfosens = 0x12;
        OPN2_Instrument o; fillInstrument(o, s);
        WOPNInstrument &wi = *put[k].w; memset(&wi, 0, sizeof wi);
        wi.note_offset = o.note_offset; wi.midi_velocity_offset = o.midi_velocity_offset; wi.percussion_key_number = o.percussion_key_number;
        wi.inst_flags = o.inst_flags; wi.fbalg = o.fbalg; wi.lfosens = o.lfosens;
        for(int op = 0; op < 4; ++op) memcpy(&wi.operators[op], &o.operators[op], 7);
        wi.delay_on_ms = o.delay_on_ms; wi.delay_off_ms = o.delay_off_ms;
    }
    size_t sz = WOPN_CalculateBankFileSize(f, 2);
    std::vector<uint8_t> out(sz + 16);
    WOPN_SaveBankToMem(f, out.data(), out.size(), 2, 0);
    out.resize(sz);
    WOPN_Free(f);
    return out;
}

static void vlq(std::vector<uint8_t> &o, unsigned v) { if(v >= 128) o.push_back((uint8_t)(0x80 | (v >> 7))); o.push_back((uint8_t)(v & 0x7F)); }
static void be(std::vector<uint8_t> &o, unsigned long v, int n) { for(int i = n - 1; i >= 0; --i) o.push_back((uint8_t)(v >> (8 * i))); }
static void meta(std::vector<uint8_t> &t, unsigned dt, int type, const char *s)
{ vlq(t, dt); t.push_back(0xFF); t.push_back((uint8_t)type); vlq(t, (unsigned)strlen(s)); t.insert(t.end(), s, s + strlen(s)); }
static void ev3(std::vector<uint8_t> &t, unsigned dt, int st, int a, int b) { vlq(t, dt); t.push_back((uint8_t)st); t.push_back((uint8_t)a); t.push_back((uint8_t)b); }
static void chunk(std::vector<uint8_t> &o, const std::vector<uint8_t> &t) { o.insert(o.end(), {'M', 'T', 'r', 'k'}); be(o, t.size(), 4); o.insert(o.end(), t.begin(), t.end()); }
// song 1: two tracks (note A = key 36 on channel 0 in track 0, note B = key 84 on channel 1 in track 1);
// song 2: the same events in one track.  Track 0 carries a device-switch meta (debug message at
// play time) and the loopStart / loopEnd markers.  Ticks: A 0..8, B 10..18, loopEnd 20, end 24.
// song 3: an EA-MUS ("RSXX") file, the only format that locks the set-up (Synth::setupLocked()): byte 0 = offset
// of the music data (93 = 0x5D, the smallest the detector accepts; odd, so the IMF detector tried first declines),
// the signature "rsxx}u" 16 bytes before it, one track without a leading delta time: note A (key 36, channel 0)
// ticks 0..16, end 24, at 60 ticks per second, no markers, no device-switch meta.
// The other containers the sequencer sniffs (mirrored by Settings!Song), each with note A (key 36, channel 0) only, one track,
// no markers:  song 4: GMF ("GMF\x01", 3 header bytes, bare SMF track events from offset 7, the loader appends the end-of-track
// event itself, so the data ends with its delta time; 192 ticks per quarter);  song 5: DMX MUS ("MUS\x1A", score of three events
// at 140 ticks per second, converted to SMF by the loader);  song 6: AIL XMIDI (FORM XDIR / CAT XMID with one sequence: note with
// duration, 120 ticks per second; played in XMIDI mode);  song 7: an id-Software IMF register dump (type 1: 16-bit length, then
// {register, value, 16-bit delay} records) -- the sniffing accepts it as IMF, the loader parses it and the player refuses it.
static void tag(std::vector<uint8_t> &o, const char *t) { o.insert(o.end(), t, t + 4); }
static std::vector<uint8_t> songImage(int s)
{
    std::vector<uint8_t> o, t0, t1;
    if(s == 3)
    {
        static const uint8_t music[] = { 0x90, 36, 100, 0x10, 0x80, 36, 0, 0x08, 0xFF, 0x2F, 0x00 };
        o.assign(93, 0); o[0] = 93; memcpy(&o[93 - 0x10], "rsxx}u", 6);
        o.insert(o.end(), music, music + sizeof music);
        return o;
    }
    if(s == 4)
    {
        static const uint8_t gmf[] = { 'G', 'M', 'F', 0x01, 0, 0, 0,  0x00, 0x90, 36, 100, 0x10, 0x80, 36, 0, 0x08 };
        o.assign(gmf, gmf + sizeof gmf);
        return o;
    }
    if(s == 5)
    {
        // play note 36 volume 100 on MUS channel 0, 16 ticks; release it, 8 ticks; end of score
        static const uint8_t score[] = { 0x90, 0x80 | 36, 100, 0x10, 0x80, 36, 0x08, 0x60 };
        tag(o, "MUS\x1A");
        o.push_back((uint8_t)sizeof score); o.push_back(0); o.push_back(18); o.push_back(0);      // score length, score start
        o.push_back(1); o.push_back(0); o.push_back(0); o.push_back(0);                          // primary / secondary channels
        o.push_back(1); o.push_back(0); o.push_back(0); o.push_back(0); o.push_back(0); o.push_back(0);   // one instrument: 0
        o.insert(o.end(), score, score + sizeof score);
        return o;
    }
    if(s == 6)
    {
        static const uint8_t evnt[] = { 0x90, 36, 100, 0x10, 0x18, 0xFF, 0x2F, 0x00 };            // note with duration 16, delay 24, end
        std::vector<uint8_t> form;
        tag(form, "FORM"); be(form, 4 + 8 + sizeof evnt, 4); tag(form, "XMID"); tag(form, "EVNT"); be(form, sizeof evnt, 4);
        form.insert(form.end(), evnt, evnt + sizeof evnt);
        tag(o, "FORM"); be(o, 4 + 8 + 2, 4); tag(o, "XDIR"); tag(o, "INFO"); be(o, 2, 4); o.push_back(1); o.push_back(0);
        tag(o, "CAT "); be(o, 4 + form.size(), 4); tag(o, "XMID"); o.insert(o.end(), form.begin(), form.end());
        return o;
    }
    if(s == 7)
    {
        o.push_back(0x10); o.push_back(0x00);
        for(int i = 0; i < 4; ++i) { o.push_back((uint8_t)(0x20 + i)); o.push_back(0x01); o.push_back(0x01); o.push_back(0x00); }
        return o;
    }
    o.insert(o.end(), {'M', 'T', 'h', 'd'}); be(o, 6, 4); be(o, s == 1 ? 1 : 0, 2); be(o, s == 1 ? 2 : 1, 2); be(o, 96, 2);
    meta(t0, 0, 9, "dev"); meta(t0, 0, 6, "loopStart");
    ev3(t0, 0, 0x90, 36, 100); ev3(t0, 8, 0x80, 36, 0);
    if(s == 1)
    {
        meta(t0, 12, 6, "loopEnd"); vlq(t0, 4); t0.push_back(0xFF); t0.push_back(0x2F); t0.push_back(0);
        ev3(t1, 10, 0x91, 84, 100); ev3(t1, 8, 0x81, 84, 0); vlq(t1, 6); t1.push_back(0xFF); t1.push_back(0x2F); t1.push_back(0);
        chunk(o, t0); chunk(o, t1);
    }
    else
    {
        ev3(t0, 2, 0x91, 84, 100); ev3(t0, 8, 0x81, 84, 0);
        meta(t0, 2, 6, "loopEnd"); vlq(t0, 4); t0.push_back(0xFF); t0.push_back(0x2F); t0.push_back(0);
        chunk(o, t0);
    }
    return o;
}

// ---------------------------------------------------------------- observation
static long long clampInt(unsigned long long v) { return v > 2147483647ULL ? 2147483647LL : (long long)v; }
static int slot(const void *fn, const void *mine) { return fn == NULL ? 0 : (fn == mine ? 1 : 2); }

static void writeObs(JW &w, Inst &in)
{
    OPN2_MIDIPlayer *dev = in.dev;
    OPNMIDIplay *p = playerOf(dev);
    OPN2 &sy = *p->m_synth;
    MidiSequencer &sq = *p->m_sequencer;
    w.begin_obj();
    // public getters
    w.kv("nc", opn2_getNumChips(dev)); w.kv("nco", opn2_getNumChipsObtained(dev));
    w.kv("gvm", opn2_getVolumeRangeModel(dev)); w.kv("al", opn2_getChannelAllocMode(dev));
    w.kv("glfo", opn2_getLfoEnabled(dev)); w.kv("glff", opn2_getLfoFrequency(dev));
    w.kv("gct", opn2_getChipType(dev)); w.kv("arp", opn2_getAutoArpeggio(dev));
    w.ks("emun", opn2_chipEmulatorName(dev));
    w.kv("nt", clampInt(opn2_trackCount(dev)));
    w.kv("er", strlen(opn2_errorInfo(dev)) > 0 ? 1 : 0);
    // settings without a getter, and the stored override values (projection of the live object)
    w.kv("emu", p->m_setup.emulator); w.kv("pcm", p->m_setup.runAtPcmRate ? 1 : 0); w.kv("vm", p->m_setup.VolumeModel);
    w.kv("lfo", p->m_setup.lfoEnable); w.kv("lff", p->m_setup.lfoFrequency); w.kv("ct", p->m_setup.chipType);
    w.kv("smod", p->m_setup.ScaleModulators); w.kv("frb", p->m_setup.fullRangeBrightnessCC74 ? 1 : 0);
    w.kv("vs", (int)sy.m_volumeScale); w.kv("smodS", sy.m_scaleModulators ? 1 : 0); w.kv("pcmS", sy.m_runAtPcmRate ? 1 : 0);
    w.kv("span", sy.m_softPanning ? 1 : 0); w.kv("mm", (int)sy.m_musicMode);
    w.kv("bvm", (int)sy.m_insBankSetup.volumeModel); w.kv("blfo", sy.m_insBankSetup.lfoEnable ? 1 : 0);
    w.kv("blff", (int)sy.m_insBankSetup.lfoFrequency); w.kv("bct", (int)sy.m_insBankSetup.chipType);
    w.kv("dev", p->m_sysExDeviceId);
    w.kv("hn", slot((const void *)p->hooks.onNote, (const void *)&hkNote)); w.kv("hd", slot((const void *)p->hooks.onDebugMessage, (const void *)&hkDbg));
    w.kv("hls", slot((const void *)p->hooks.onLoopStart, (const void *)&hkLs)); w.kv("hle", slot((const void *)p->hooks.onLoopEnd, (const void *)&hkLe));
    BW_MidiRtInterface *it = p->m_sequencerInterface.get();
    w.kv("ir", slot((const void *)it->onEvent, (const void *)&hkRaw)); w.kv("idb", slot((const void *)it->onDebugMessage, (const void *)&hkDbg));
    w.kv("ils", slot((const void *)it->onloopStart, (const void *)&hkLs)); w.kv("ile", slot((const void *)it->onloopEnd, (const void *)&hkLe));
    w.kv("loop", sq.getLoopEnabled() ? 1 : 0); w.kv("ln", sq.getLoopsCount()); w.kv("ho", sq.m_loopHooksOnly ? 1 : 0);
    w.kv("tp", tlcint((long long)llround(sq.getTempoMultiplier() * 1000.0)));
    w.kv("sg", sq.m_loadTrackNumber); w.kv("fmt", (int)sq.getFormat());
    // identity of the loaded song (compared between the instance and its twin only): its length in milliseconds
    { double tl = opn2_totalTimeLength(dev); w.kv("song", tl < 0 ? -1 : tlcint((long long)llround(tl * 1000.0))); }
    w.kv("solo", sq.m_trackSolo == ~(size_t)0 ? -1 : clampInt(sq.m_trackSolo));
    w.key("td"); w.begin_arr(); for(size_t k = 0; k < sq.m_trackDisable.size() && k < 8; ++k) w.num(sq.m_trackDisable[k] ? 1 : 0); w.end_arr();
    { long long m = 0; for(int k = 0; k < 16; ++k) if(sq.m_channelDisable[k]) m |= (1 << k); w.kv("cd", m); }
    // loaded bank: [key, id of melodic patch 0 / percussion key 38 or 0 when blank]
    w.key("bd"); w.begin_arr();
    {
        OPN2_Bank b; int rc = opn2_getFirstBank(dev, &b); int guard = 0;
        while(rc == 0 && guard++ < 64)
        {
            OPN2_BankId id; opn2_getBankId(dev, &b, &id);
            OPN2_Instrument ins; memset(&ins, 0, sizeof ins);
            opn2_getInstrument(dev, &b, id.percussive ? 38 : 0, &ins);
            int tok = (ins.inst_flags & 2) ? 0 : ((ins.operators[1].decay2_70 & 0x1F) | ((ins.operators[2].decay2_70 & 0x1F) << 5));
            w.begin_arr(); w.num((long long)id.msb * 256 + id.lsb + (id.percussive ? 32768 : 0)); w.num(tok); w.end_arr();
            rc = opn2_getNextBank(dev, &b);
        }
    }
    w.end_arr();
    w.end_obj();
}

// ---------------------------------------------------------------- probes
static void probePhrase(JW &w, Inst &in)
{
    OPN2_MIDIPlayer *dev = in.dev;
    in.wh = 2166136261u; in.wn = 0; in.hashing = true;   // the reset itself re-programs the LFO register: part of the phrase
    opn2_reset(dev);
    opn2_rt_patchChange(dev, 0, 0); opn2_rt_controllerChange(dev, 0, 7, 100); opn2_rt_controllerChange(dev, 0, 10, 30);
    opn2_rt_controllerChange(dev, 0, 74, 90);
    opn2_rt_noteOn(dev, 0, 60, 100); opn2_rt_noteOn(dev, 0, 64, 80); opn2_rt_noteOn(dev, 9, 38, 110);
    uint32_t ah = 2166136261u; long long energy = 0;
    int got = opn2_generate(dev, 2 * 384, pcm.data());
    for(int k = 0; k < got; ++k) { fnv(ah, (uint32_t)(uint16_t)pcm[(size_t)k]); energy += pcm[(size_t)k] < 0 ? -pcm[(size_t)k] : pcm[(size_t)k]; }
    opn2_rt_noteOff(dev, 0, 60); opn2_rt_noteOff(dev, 0, 64); opn2_rt_noteOff(dev, 9, 38);
    int got2 = opn2_generate(dev, 2 * 128, pcm.data());
    for(int k = 0; k < got2; ++k) { fnv(ah, (uint32_t)(uint16_t)pcm[(size_t)k]); energy += pcm[(size_t)k] < 0 ? -pcm[(size_t)k] : pcm[(size_t)k]; }
    in.hashing = false;
    w.begin_obj();
    w.kv("wh", (long long)(in.wh & 0x7FFFFFFF)); w.kv("wn", in.wn); w.kv("ah", (long long)(ah & 0x7FFFFFFF));
    w.kv("got", got + got2); w.kv("loud", energy > 2000 ? 1 : 0);
    w.end_obj();
    in.tap->clear();
}

static void probePlay(JW &w, Inst &in)
{
    OPN2_MIDIPlayer *dev = in.dev;
    w.begin_obj();
    if(opn2_trackCount(dev) == 0) { w.kv("played", 0); w.end_obj(); return; }
    opn2_reset(dev);                 // start from silent chips and default MIDI channel state
    opn2_positionRewind(dev);
    memset(in.hc, 0, sizeof in.hc);
    in.tap->clear();
    // fixed 10 ms steps (independent of what the tick function returns): 1.5 s cover the song at every tempo used
    int calls = 0, endSeen = 0;
    while(calls < 150)
    {
        opn2_tickEvents(dev, 0.010, 0.0);
        ++calls;
        if(opn2_atEnd(dev)) { if(++endSeen >= 2) break; }
        if(in.tap->ops.size() > 4000) break;
    }
    // key-ons in program order, each with the octave block last written to that chip channel
    std::map<int, int> block; std::vector<int> kons;
    for(size_t k = 0; k < in.tap->ops.size(); ++k)
    {
        const TapOp &o = in.tap->ops[k];
        if(!strcmp(o.o, "freq")) block[o.c] = o.a;
        else if(!strcmp(o.o, "kon") && kons.size() < 64) kons.push_back(block.count(o.c) ? block[o.c] : -1);
    }
    w.kv("played", 1); w.kv("calls", calls); w.kv("atend", opn2_atEnd(dev));
    w.key("hc"); w.begin_arr(); for(int k = 0; k < 5; ++k) w.num(in.hc[k] > 1000000 ? 1000000 : in.hc[k]); w.end_arr();
    w.key("kons"); w.begin_arr(); for(size_t k = 0; k < kons.size(); ++k) w.num(kons[k]); w.end_arr();
    w.end_obj();
    opn2_panic(dev);
    in.tap->clear();
}

// ---------------------------------------------------------------- one command on one instance
static long long apply(Inst &in, const std::string &e, const JV &c, bool &hasR)
{
    OPN2_MIDIPlayer *dev = in.dev;
    long long v = c.get("v", 0), r = 0;
    hasR = false;
    if(e == "SetNumChips") { r = opn2_setNumChips(dev, (int)v); hasR = true; }
    else if(e == "SwitchEmulator") { r = opn2_switchEmulator(dev, (int)v); hasR = true; }
    else if(e == "SetVolModel") opn2_setVolumeRangeModel(dev, (int)v);
    else if(e == "SetAlloc") opn2_setChannelAllocMode(dev, (int)v);
    else if(e == "SetLfo") opn2_setLfoEnabled(dev, (int)v);
    else if(e == "SetLfoFreq") opn2_setLfoFrequency(dev, (int)v);
    else if(e == "SetChipType") opn2_setChipType(dev, (int)v);
    else if(e == "SetScaleMod") opn2_setScaleModulators(dev, (int)v);
    else if(e == "SetFullBright") opn2_setFullRangeBrightness(dev, (int)v);
    else if(e == "SetArp") opn2_setAutoArpeggio(dev, (int)v);
    else if(e == "SetSoftPan") opn2_setSoftPanEnabled(dev, (int)v);
    else if(e == "SetRunAtPcm") { r = opn2_setRunAtPcmRate(dev, (int)v); hasR = true; }
    else if(e == "SetDevId") { r = opn2_setDeviceIdentifier(dev, (unsigned)(int)v); hasR = true; }
    else if(e == "SetLoop") opn2_setLoopEnabled(dev, (int)v);
    else if(e == "SetLoopCount") opn2_setLoopCount(dev, (int)v);
    else if(e == "SetHooksOnly") opn2_setLoopHooksOnly(dev, (int)v);
    else if(e == "SetTempo") opn2_setTempo(dev, (double)c.get("num") / (double)c.get("den", 1));
    else if(e == "SelectSong") opn2_selectSongNum(dev, (int)v);
    else if(e == "TrackOpt") { r = opn2_setTrackOptions(dev, (size_t)(long long)c.get("t"), (unsigned)(int)c.get("o")); hasR = true; }
    else if(e == "ChanEn") { r = opn2_setChannelEnabled(dev, (size_t)(long long)c.get("c"), (int)c.get("en")); hasR = true; }
    else if(e == "SetHook")
    {
        std::string h = c.gets("h"); bool on = c.get("on") != 0;
        if(h == "raw") opn2_setRawEventHook(dev, on ? &hkRaw : NULL, on ? &in : NULL);
        else if(h == "note") opn2_setNoteHook(dev, on ? &hkNote : NULL, on ? &in : NULL);
        else if(h == "dbg") opn2_setDebugMessageHook(dev, on ? &hkDbg : NULL, on ? &in : NULL);
        else if(h == "ls") opn2_setLoopStartHook(dev, on ? &hkLs : NULL, on ? &in : NULL);
        else if(h == "le") opn2_setLoopEndHook(dev, on ? &hkLe : NULL, on ? &in : NULL);
        else { fprintf(stderr, "INFRA: unknown hook %s\n", h.c_str()); exit(2); }
    }
    else if(e == "Reset") opn2_reset(dev);
    else if(e == "OpenBank")
    {
        std::vector<uint8_t> img = bankImage((int)c.get("b", 1));
        long long bad = c.get("bad", 0);
        if(bad == 1) img[3] ^= 0x55;                       // magic
        else if(bad == 2) img.resize(img.size() / 2);      // truncated
        else if(bad == 3) img.clear();                     // empty
        uint8_t dummy = 0;
        r = opn2_openBankData(dev, img.empty() ? &dummy : img.data(), (long)img.size()); hasR = true;
    }
    else if(e == "OpenMidi")
    {
        std::vector<uint8_t> img = songImage((int)c.get("s", 1));
        long long bad = c.get("bad", 0);
        if(bad == 1) { for(size_t k = 0; k < img.size(); ++k) img[k] = (uint8_t)(0xA5 ^ (k * 37)); }   // garbage
        else if(bad == 2) img.resize(20);                  // header + half a track header
        else if(bad == 3) img.clear();                     // empty
        else if(bad == 4) img[c.get("s", 1) == 3 ? 77 : 15] ^= 0x20;   // MTrk (song 3: rsxx) signature broken
        else if(bad == 5 && c.get("s", 1) == 7) { }          // the IMF image as it is: a well-formed song of a format the player refuses
        else if(bad == 5)                                   // a well-formed Creative CMF song: parsed, then refused ("OPNMIDI doesn't support CMF")
        {
            img.assign(40, 0);
            img[0] = 'C'; img[1] = 'T'; img[2] = 'M'; img[3] = 'F'; img[4] = 1; img[5] = 1;
            img[6] = 40; img[8] = 56;           // instruments at 40, music at 56
            img[10] = 96; img[12] = 96;         // ticks per quarter / per second
            img[36] = 1;                        // one instrument
            img.insert(img.end(), 16, 0);
            const uint8_t mus[] = { 0x00, 0x90, 0x3C, 0x64, 0x10, 0x80, 0x3C, 0x00, 0x00, 0xFF, 0x2F, 0x00 };
            img.insert(img.end(), mus, mus + sizeof mus);
        }
        uint8_t dummy = 0;
        r = opn2_openData(dev, img.empty() ? &dummy : img.data(), (unsigned long)img.size()); hasR = true;
    }
    else { fprintf(stderr, "INFRA: unknown command %s\n", e.c_str()); exit(2); }
    return r;
}

int main(int argc, char **argv)
{
    if(argc < 3) return 2;
    std::vector<std::string> lines;
    if(!readLines(argv[1], lines)) return 2;
    g_trace = fopen(argv[2], "w");
    if(!g_trace) return 2;
    installCrashHandlers();
    opn2_set_vgm_out_path("/dev/null");
    pcm.resize(4096);
    for(size_t li = 0; li < lines.size(); ++li)
    {
        JV c; if(!jparse(lines[li], c) || c.t != JV::Obj) { fprintf(stderr, "INFRA: bad line %zu\n", li); return 2; }
        std::string e = c.gets("e");
        g_stageBuf = e; g_stage = g_stageBuf.c_str();
        JW w; w.s = lines[li]; while(!w.s.empty() && w.s.back() != '}') w.s.pop_back(); w.s.pop_back(); w.first = false;
        alarm(25);
        if(e == "Init")
        {
            for(int k = 0; k < 2; ++k)
            {
                if(I[k].dev) opn2_close(I[k].dev);
                delete I[k].tap; I[k] = Inst(); I[k].tap = new Tap();
                I[k].dev = opn2_init((long)c.get("rate", 44100));
                if(!I[k].dev) return 2;
                OPNMIDIplay *p = playerOf(I[k].dev);
                p->m_synth->m_verifTap = &tapCb; p->m_synth->m_verifTapUd = &I[k];
            }
        }
        else if(!I[0].dev) { fprintf(stderr, "INFRA: command before Init\n"); return 2; }
        else if(e == "Probe") { w.key("pa"); probePhrase(w, I[0]); w.key("pb"); probePhrase(w, I[1]); }
        else if(e == "PlaySong") { w.key("pa"); probePlay(w, I[0]); w.key("pb"); probePlay(w, I[1]); }
        else
        {
            bool hasR = false, hasR2 = false;
            long long r = apply(I[0], e, c, hasR);
            if(hasR) w.kv("r", r);
            // the twin skips exactly the calls that reported failure
            if(!(hasR && r < 0)) { long long r2 = apply(I[1], e, c, hasR2); if(hasR2) w.kv("rb", r2); }
        }
        alarm(0);
        g_stageBuf = e + ":obs"; g_stage = g_stageBuf.c_str();
        w.key("oa"); writeObs(w, I[0]);
        w.key("ob"); writeObs(w, I[1]);
        w.s += "}\n";
        fputs(w.s.c_str(), g_trace);
        fflush(g_trace);
    }
    g_stage = "close";
    for(int k = 0; k < 2; ++k) if(I[k].dev) opn2_close(I[k].dev);
    fprintf(g_trace, "{\"e\":\"End\"}\n");
    fclose(g_trace);
    return 0;
}
