// drive_synth <script.ndjson> <trace.ndjson>
// Replays a call history (one JSON command per line) on real OPN2_MIDIPlayer instances and
// records, after every call, the return value, the projected state and the abstract chip
// operations the call caused.  The trace is judged by TLC against spec/SynthTrace.tla.
#include "vh.hpp"
#include "wopn/wopn_file.h"

static OPN2_MIDIPlayer *dev = NULL;
static Tap *tap = NULL;
static SnapOpts sopts;
static long rate = 44100;
static std::vector<short> pcm;

static void emitInsRec(JW &w, const JV &ij)
{
    InsSpec s = insFromJson(ij);
    w.begin_obj();
    w.kv("i", ij.get("i")); w.kv("id", s.id); w.kv("kon", s.kon); w.kv("koff", s.koff);
    w.kv("drum", s.drum); w.kb("blank", (s.flags & 2) != 0); w.kv("noff", s.noff); w.kv("veloff", s.veloff);
    w.kv("fbalg", s.fbalg);
    w.key("tl"); w.begin_arr(); for(int q = 0; q < 4; ++q) w.num(s.tl[q]); w.end_arr();
    w.key("mul"); w.begin_arr(); for(int q = 0; q < 4; ++q) w.num(s.mul[q]); w.end_arr();
    w.end_obj();
}

static void emitBanks(JW &w, const JV &layout)
{
    w.begin_arr();
    for(size_t b = 0; b < layout.a.size(); ++b)
    {
        const JV &bj = layout.a[b];
        long long key = bj.get("msb") * 256 + bj.get("lsb") + (bj.get("p") ? 32768 : 0);
        const JV &il = bj["ins"];
        w.begin_obj(); w.kv("bk", key); w.key("ins"); w.begin_arr();
        for(size_t k = 0; k < il.a.size(); ++k)
            emitInsRec(w, il.a[k]);
        w.end_arr(); w.end_obj();
    }
    w.end_arr();
}

// Build a WOPN v2 file image from a layout (uses the library's own writer).
static std::vector<uint8_t> wopnFromLayout(const JV &layout, int volModel, int lfo, int chipType)
{
    unsigned nm = 0, np = 0;
    for(size_t b = 0; b < layout.a.size(); ++b) (layout.a[b].get("p") ? np : nm)++;
    WOPNFile *f = WOPN_Init((uint16_t)(nm ? nm : 1), (uint16_t)(np ? np : 1));
    f->version = 2; f->lfo_freq = (uint8_t)lfo; f->chip_type = (uint8_t)chipType; f->volume_model = (uint8_t)volModel;
    for(unsigned s = 0; s < 2; ++s)
    {
        WOPNBank *bs = s ? f->banks_percussive : f->banks_melodic;
        unsigned cnt = s ? f->banks_count_percussion : f->banks_count_melodic;
        for(unsigned b = 0; b < cnt; ++b)
            for(int i = 0; i < 128; ++i) bs[b].ins[i].inst_flags = WOPN_Ins_IsBlank;
    }
    // a bank set with no melodic (percussion) bank still needs one: give it an id that is blank
    unsigned im = 0, ip = 0;
    for(size_t b = 0; b < layout.a.size(); ++b)
    {
        const JV &bj = layout.a[b];
        WOPNBank &bk = bj.get("p") ? f->banks_percussive[ip++] : f->banks_melodic[im++];
        bk.bank_midi_msb = (uint8_t)bj.get("msb"); bk.bank_midi_lsb = (uint8_t)bj.get("lsb");
        const JV &il = bj["ins"];
        for(size_t k = 0; k < il.a.size(); ++k)
        {
            OPN2_Instrument o; fillInstrument(o, insFromJson(il.a[k]));
            WOPNInstrument &wi = bk.ins[il.a[k].get("i")];
            memset(&wi, 0, sizeof wi);
            wi.note_offset = o.note_offset; wi.midi_velocity_offset = o.midi_velocity_offset;
            wi.percussion_key_number = o.percussion_key_number; wi.inst_flags = o.inst_flags;
            wi.fbalg = o.fbalg; wi.lfosens = o.lfosens;
            for(int op = 0; op < 4; ++op) memcpy(&wi.operators[op], &o.operators[op], 7);
            wi.delay_on_ms = o.delay_on_ms; wi.delay_off_ms = o.delay_off_ms;
        }
    }
    size_t sz = WOPN_CalculateBankFileSize(f, 2);
    std::vector<uint8_t> out(sz + 16);
    WOPN_SaveBankToMem(f, out.data(), out.size(), 2, 0);
    out.resize(sz);
    WOPN_Free(f);
    return out;
}

int main(int argc, char **argv)
{
    if(argc < 3) { fprintf(stderr, "usage: drive_synth script trace\n"); return 2; }
    std::vector<std::string> lines;
    if(!readLines(argv[1], lines)) { fprintf(stderr, "INFRA: cannot read %s\n", argv[1]); return 2; }
    g_trace = fopen(argv[2], "w");
    if(!g_trace) return 2;
    installCrashHandlers();
    pcm.resize(2 * 65536 + 16);
    JV curLayout;

    for(size_t li = 0; li < lines.size(); ++li)
    {
        JV c;
        if(!jparse(lines[li], c) || c.t != JV::Obj) { fprintf(stderr, "INFRA: bad script line %zu\n", li); return 2; }
        std::string e = c.gets("e");
        g_stage = "call";
        long long r = 0;
        bool hasR = false;
        long long genFrames = 0;
        alarm(20);
        if(e == "Init")
        {
            if(dev) { opn2_close(dev); dev = NULL; }
            delete tap; tap = new Tap();
            rate = (long)c.get("rate", 44100);
            dev = opn2_init(rate);
            OPNMIDIplay *p = playerOf(dev);
            installTap(dev, tap);
            p->m_synth->m_verifChanLimit = (uint32_t)c.get("lim", 0);
            if(c.has("emu")) opn2_switchEmulator(dev, (int)c.get("emu"));
            opn2_setNumChips(dev, (int)c.get("chips", 1));
            curLayout = c["banks"];
            installBanks(dev, curLayout);
            opn2_setAutoArpeggio(dev, (int)c.get("arp", 0));
            opn2_setChannelAllocMode(dev, (int)c.get("alloc", -1));
            if(c.has("vm")) opn2_setVolumeRangeModel(dev, (int)c.get("vm"));
            if(c.has("devid")) opn2_setDeviceIdentifier(dev, (unsigned)c.get("devid"));
            if(c.has("smod")) opn2_setScaleModulators(dev, (int)c.get("smod"));
            if(c.has("frb")) opn2_setFullRangeBrightness(dev, (int)c.get("frb"));
            if(c.has("chiptype")) { opn2_setChipType(dev, (int)c.get("chiptype")); }
            sopts.mchans.clear(); sopts.full = c.get("full", 0) != 0;
            const JV &mc = c["mch"];
            for(size_t k = 0; k < mc.a.size(); ++k) sopts.mchans.push_back((int)mc.a[k].num());
            tap->clear();
        }
        else if(!dev) { fprintf(stderr, "INFRA: command before Init\n"); return 2; }
        else if(e == "NoteOn") { r = opn2_rt_noteOn(dev, (OPN2_UInt8)c.get("ch"), (OPN2_UInt8)c.get("k"), (OPN2_UInt8)c.get("v")); hasR = true; }
        else if(e == "NoteOff") opn2_rt_noteOff(dev, (OPN2_UInt8)c.get("ch"), (OPN2_UInt8)c.get("k"));
        else if(e == "CC") opn2_rt_controllerChange(dev, (OPN2_UInt8)c.get("ch"), (OPN2_UInt8)c.get("n"), (OPN2_UInt8)c.get("v"));
        else if(e == "Patch") opn2_rt_patchChange(dev, (OPN2_UInt8)c.get("ch"), (OPN2_UInt8)c.get("p"));
        else if(e == "Bend") opn2_rt_pitchBend(dev, (OPN2_UInt8)c.get("ch"), (OPN2_UInt16)c.get("v"));
        else if(e == "BendML") opn2_rt_pitchBendML(dev, (OPN2_UInt8)c.get("ch"), (OPN2_UInt8)c.get("m"), (OPN2_UInt8)c.get("l"));
        else if(e == "NoteAT") opn2_rt_noteAfterTouch(dev, (OPN2_UInt8)c.get("ch"), (OPN2_UInt8)c.get("k"), (OPN2_UInt8)c.get("v"));
        else if(e == "ChanAT") opn2_rt_channelAfterTouch(dev, (OPN2_UInt8)c.get("ch"), (OPN2_UInt8)c.get("v"));
        else if(e == "BankMSB") opn2_rt_bankChangeMSB(dev, (OPN2_UInt8)c.get("ch"), (OPN2_UInt8)c.get("v"));
        else if(e == "BankLSB") opn2_rt_bankChangeLSB(dev, (OPN2_UInt8)c.get("ch"), (OPN2_UInt8)c.get("v"));
        else if(e == "Bank") opn2_rt_bankChange(dev, (OPN2_UInt8)c.get("ch"), (OPN2_SInt16)c.get("v"));
        else if(e == "SysEx")
        {
            const JV &b = c["b"]; std::vector<uint8_t> m;
            for(size_t k = 0; k < b.a.size(); ++k) m.push_back((uint8_t)b.a[k].num());
            uint8_t dummy = 0;
            r = opn2_rt_systemExclusive(dev, m.empty() ? &dummy : m.data(), m.size()); hasR = true;
        }
        else if(e == "Panic") opn2_panic(dev);
        else if(e == "ResetState") opn2_rt_resetState(dev);
        else if(e == "Gen")
        {
            long long fr = c.get("fr", 512);
            long long before = tap->frames;
            while(fr > 0)
            {
                long long n = fr > 65536 ? 65536 : fr;
                alarm(20); // the watchdog guards ONE library call: a minute of audio on 8 chips is 41 calls, and on a busy
                           // machine all of them together took longer than the 20 s of one call (false "Crash" records)
                r = opn2_generate(dev, (int)(n * 2), pcm.data());
                fr -= n;
            }
            hasR = true;
            genFrames = tap->frames - before;
        }
        else if(e == "SetArp") opn2_setAutoArpeggio(dev, (int)c.get("v"));
        else if(e == "SetAlloc") opn2_setChannelAllocMode(dev, (int)c.get("v"));
        else if(e == "SetNumChips") { r = opn2_setNumChips(dev, (int)c.get("v")); hasR = true; }
        else if(e == "SwitchEmu") { r = opn2_switchEmulator(dev, (int)c.get("v")); hasR = true; }
        else if(e == "SetChipType") opn2_setChipType(dev, (int)c.get("v"));
        else if(e == "SetVolModel") opn2_setVolumeRangeModel(dev, (int)c.get("v"));
        else if(e == "SetDevId") { r = opn2_setDeviceIdentifier(dev, (unsigned)c.get("v")); hasR = true; }
        else if(e == "SetScaleMod") opn2_setScaleModulators(dev, (int)c.get("v"));
        else if(e == "SetFullBright") opn2_setFullRangeBrightness(dev, (int)c.get("v"));
        else if(e == "SetSoftPan") opn2_setSoftPanEnabled(dev, (int)c.get("v"));
        else if(e == "SetRunAtPcm") { r = opn2_setRunAtPcmRate(dev, (int)c.get("v")); hasR = true; }
        else if(e == "Reset") opn2_reset(dev);
        else if(e == "OpenBank")
        {
            // load the current (or a new) layout as a WOPN file: goes through applySetup()
            if(c.has("banks")) curLayout = c["banks"];
            std::vector<uint8_t> img = wopnFromLayout(curLayout, (int)c.get("vm", 0), (int)c.get("lfo", 0), (int)c.get("ct", 0));
            if(c.get("corrupt", 0)) img[0] ^= 0xFF;
            r = opn2_openBankData(dev, img.data(), (long)img.size()); hasR = true;
        }
        else if(e == "SetIns")
        {
            OPN2_BankId id; id.percussive = (OPN2_UInt8)c.get("p"); id.msb = (OPN2_UInt8)c.get("msb"); id.lsb = (OPN2_UInt8)c.get("lsb");
            OPN2_Bank bank; r = opn2_getBank(dev, &id, OPNMIDI_Bank_Create, &bank);
            if(r == 0) { OPN2_Instrument ins; fillInstrument(ins, insFromJson(c["ins"])); r = opn2_setInstrument(dev, &bank, (unsigned)c.get("i"), &ins); }
            hasR = true;
        }
        else { fprintf(stderr, "INFRA: unknown command %s\n", e.c_str()); return 2; }
        alarm(20); // the snapshot walks the same lists: keep the watchdog armed
        g_stage = "snapshot";
        // re-install the limit/tap fields (they live in the Synth object, which survives resets)
        JW w;
        w.s = lines[li];
        while(!w.s.empty() && (w.s.back() == '\n' || w.s.back() == ' ')) w.s.pop_back();
        w.s.pop_back(); // drop closing brace
        w.first = false;
        if(hasR) w.kv("r", r);
        if(e == "Gen")
        {
            w.kv("gf", genFrames); w.kv("us", tlcint(genFrames * 1000000LL / rate));
            if(tap->pf.size() <= 64) { w.key("pf"); w.begin_arr(); for(size_t q = 0; q < tap->pf.size(); ++q) w.num(tap->pf[q]); w.end_arr(); }
        }
        if(e == "Init") { w.kv("xlim", (long long)playerOf(dev)->m_synth->m_verifChanLimit); }
        if(e == "Init" || e == "OpenBank") { w.key("bl"); emitBanks(w, curLayout); }
        if(e == "SetIns") { JV ij = c["ins"]; ij.o.push_back(std::make_pair(std::string("i"), c["i"])); w.key("insrec"); emitInsRec(w, ij); }
        w.kv("wn", tap->raw);
        w.key("w"); tap->write(w);
        w.key("s"); writeSnapshot(w, dev, *tap, sopts);
        w.s += "}\n";
        alarm(0);
        fputs(w.s.c_str(), g_trace);
        tap->clear();
    }
    g_stage = "close";
    if(dev) opn2_close(dev);
    fprintf(g_trace, "{\"e\":\"End\"}\n");
    fclose(g_trace);
    return 0;
}
