// drive_bank <script.ndjson> <trace.ndjson>
// Replays bank-API operation sequences on real instances; after every operation records the
// result, the iteration order (getFirstBank/getNextBank/getBankId), the capacity, the number of
// heap allocations the call made, lookups of the probe keys and instrument read-backs (indices 0, 1, 127 of every
// probe bank that is found, or the indices named by "rbi" of the init command).
// Instrument indices are passed as unsigned: negative numbers in the script stand for 2^32 - n (-1 = UINT_MAX).
#include "vh.hpp"
#include "wopn/wopn_file.h"
#include <new>

static volatile long g_allocs = 0;
void *operator new(size_t n) { ++g_allocs; void *p = malloc(n ? n : 1); if(!p) throw std::bad_alloc(); return p; }
void *operator new[](size_t n) { ++g_allocs; void *p = malloc(n ? n : 1); if(!p) throw std::bad_alloc(); return p; }
void *operator new(size_t n, const std::nothrow_t &) noexcept { ++g_allocs; return malloc(n ? n : 1); }
void *operator new[](size_t n, const std::nothrow_t &) noexcept { ++g_allocs; return malloc(n ? n : 1); }
void operator delete(void *p) noexcept { free(p); }
void operator delete[](void *p) noexcept { free(p); }
void operator delete(void *p, size_t) noexcept { free(p); }
void operator delete[](void *p, size_t) noexcept { free(p); }

static void keyToId(long long key, OPN2_BankId &id)
{ id.percussive = (key & 32768) ? 1 : 0; id.msb = (OPN2_UInt8)((key >> 8) & 127); id.lsb = (OPN2_UInt8)(key & 127); }
static long long idToKey(const OPN2_BankId &id) { return (long long)id.msb * 256 + id.lsb + (id.percussive ? 32768 : 0); }

static int tokOf(const OPN2_Instrument &i) { return (i.operators[1].decay2_70 & 0x1F) | ((i.operators[2].decay2_70 & 0x1F) << 5); }
static void insOfTok(OPN2_Instrument &o, int tok)
{
    InsSpec s; s.id = tok; s.kon = 100 + tok; s.koff = 50 + tok; s.noff = (tok % 25) - 12; s.drum = tok % 128; s.veloff = (tok >= 512) ? (tok % 7) - 3 : 0; // the WOPN format does not carry the velocity offset: file-loaded tokens are < 512
    s.fbalg = tok % 64; s.lfosens = tok % 48; for(int k = 0; k < 4; ++k) { s.tl[k] = (tok * (k + 3)) % 128; s.mul[k] = (tok + k) % 16; }
    fillInstrument(o, s);
}

int main(int argc, char **argv)
{
    if(argc < 3) return 2;
    std::vector<std::string> lines;
    if(!readLines(argv[1], lines)) return 2;
    g_trace = fopen(argv[2], "w");
    installCrashHandlers();
    OPN2_MIDIPlayer *dev = NULL;
    std::vector<long long> probe;
    std::vector<unsigned> rbi;
    for(size_t li = 0; li < lines.size(); ++li)
    {
        JV c; if(!jparse(lines[li], c)) return 2;
        std::string o = c.gets("o");
        long long r = 0, na = 0;
        alarm(20);
        if(o == "init")
        {
            if(dev) opn2_close(dev);
            dev = opn2_init(44100);
            probe.clear();
            for(size_t k = 0; k < c["probe"].a.size(); ++k) probe.push_back(c["probe"].a[k].num());
            rbi.clear();
            for(size_t k = 0; k < c["rbi"].a.size(); ++k) rbi.push_back((unsigned)c["rbi"].a[k].num());
            if(rbi.empty()) { rbi.push_back(0); rbi.push_back(1); rbi.push_back(127); }
            fprintf(g_trace, "%s\n", lines[li].c_str());
            continue;
        }
        if(!dev) return 2;
        long before = g_allocs;
        if(o == "reserve") r = opn2_reserveBanks(dev, (unsigned)c.get("n"));
        else if(o == "get")
        {
            OPN2_BankId id; keyToId(c.get("key"), id); OPN2_Bank b;
            std::string m = c.gets("mode");
            int flags = m == "create" ? OPNMIDI_Bank_Create : (m == "creatert" ? OPNMIDI_Bank_CreateRt : 0);
            r = opn2_getBank(dev, &id, flags, &b);
        }
        else if(o == "remove")
        {
            OPN2_BankId id; keyToId(c.get("key"), id); OPN2_Bank b;
            r = opn2_getBank(dev, &id, 0, &b);
            if(r == 0) r = opn2_removeBank(dev, &b);
        }
        else if(o == "setins")
        {
            OPN2_BankId id; keyToId(c.get("key"), id); OPN2_Bank b;
            r = opn2_getBank(dev, &id, 0, &b);
            if(r == 0) { OPN2_Instrument ins; insOfTok(ins, (int)c.get("tok")); r = opn2_setInstrument(dev, &b, (unsigned)c.get("idx"), &ins); }
        }
        else if(o == "getins")
        {
            OPN2_BankId id; keyToId(c.get("key"), id); OPN2_Bank b;
            r = opn2_getBank(dev, &id, 0, &b);
            if(r == 0) { OPN2_Instrument ins; memset(&ins, 0xEE, sizeof ins); r = opn2_getInstrument(dev, &b, (unsigned)c.get("idx"), &ins); }
        }
        else if(o == "load")
        {
            const JV &ks = c["keys"];
            unsigned nm = 0, np = 0;
            for(size_t k = 0; k < ks.a.size(); ++k) ((ks.a[k].get("key") & 32768) ? np : nm)++;
            WOPNFile *f = WOPN_Init((uint16_t)nm, (uint16_t)np);
            f->version = 2;
            unsigned im = 0, ip = 0;
            for(size_t k = 0; k < ks.a.size(); ++k)
            {
                long long key = ks.a[k].get("key");
                WOPNBank &bk = (key & 32768) ? f->banks_percussive[ip++] : f->banks_melodic[im++];
                bk.bank_midi_msb = (uint8_t)((key >> 8) & 127); bk.bank_midi_lsb = (uint8_t)(key & 127);
                for(int i = 0; i < 128; ++i) { memset(&bk.ins[i], 0, sizeof(WOPNInstrument)); bk.ins[i].inst_flags = WOPN_Ins_IsBlank; }
                int tok = (int)ks.a[k].get("tok");
                if(tok)
                {
                    OPN2_Instrument oi; insOfTok(oi, tok);
                    WOPNInstrument &wi = bk.ins[0];
                    wi.note_offset = oi.note_offset; wi.midi_velocity_offset = oi.midi_velocity_offset;
                    wi.percussion_key_number = oi.percussion_key_number; wi.inst_flags = oi.inst_flags;
                    wi.fbalg = oi.fbalg; wi.lfosens = oi.lfosens;
                    for(int op = 0; op < 4; ++op) memcpy(&wi.operators[op], &oi.operators[op], 7);
                    wi.delay_on_ms = oi.delay_on_ms; wi.delay_off_ms = oi.delay_off_ms;
                }
            }
            size_t sz = WOPN_CalculateBankFileSize(f, 2);
            std::vector<uint8_t> img(sz + 8);
            WOPN_SaveBankToMem(f, img.data(), img.size(), 2, 0);
            WOPN_Free(f);
            if(c.get("bad")) img[3] ^= 0x55;
            before = g_allocs;
            r = opn2_openBankData(dev, img.data(), (long)sz);
        }
        else return 2;
        na = g_allocs - before;
        alarm(20); // the observation below walks the same structures: keep the watchdog armed
        // observation
        JW w; w.s = lines[li]; w.s.pop_back(); w.first = false;
        w.kv("r", r); w.kv("na", na); w.kv("cap", opn2_reserveBanks(dev, 0));
        w.key("it"); w.begin_arr();
        {
            OPN2_Bank b; int rc = opn2_getFirstBank(dev, &b); int guard = 0;
            while(rc == 0 && guard++ < 100000)
            {
                OPN2_BankId id; opn2_getBankId(dev, &b, &id); w.num(idToKey(id));
                rc = opn2_getNextBank(dev, &b);
            }
        }
        w.end_arr();
        w.key("find"); w.begin_arr();
        std::vector<std::pair<long long, OPN2_Bank> > found;
        for(size_t k = 0; k < probe.size(); ++k)
        {
            OPN2_BankId id; keyToId(probe[k], id); OPN2_Bank b;
            int rc = opn2_getBank(dev, &id, 0, &b);
            w.begin_arr(); w.num(probe[k]); w.num(rc == 0 ? 1 : 0); w.end_arr();
            if(rc == 0) found.push_back(std::make_pair(probe[k], b));
        }
        w.end_arr();
        w.key("rb"); w.begin_arr();
        for(size_t k = 0; k < found.size(); ++k)
        {
            const std::vector<unsigned> &idxs = rbi;
            for(size_t q = 0; q < idxs.size(); ++q)
            {
                OPN2_Instrument ins; memset(&ins, 0xEE, sizeof ins);
                if(opn2_getInstrument(dev, &found[k].second, idxs[q], &ins) != 0) continue;
                int blank = (ins.inst_flags & 2) ? 1 : 0;
                int tok = blank ? 0 : tokOf(ins);
                int eq = 1;
                if(!blank)
                {
                    OPN2_Instrument ref; insOfTok(ref, tok); ref.version = ins.version;
                    eq = (ins.note_offset == ref.note_offset && ins.midi_velocity_offset == ref.midi_velocity_offset &&
                          ins.percussion_key_number == ref.percussion_key_number && ins.inst_flags == ref.inst_flags &&
                          ins.fbalg == ref.fbalg && ins.lfosens == ref.lfosens && !memcmp(ins.operators, ref.operators, sizeof ins.operators) &&
                          ins.delay_on_ms == ref.delay_on_ms && ins.delay_off_ms == ref.delay_off_ms) ? 1 : 0;
                }
                w.begin_arr(); w.num(found[k].first); w.num(idxs[q]); w.num(tok); w.num(eq); w.num(blank); w.end_arr();
            }
        }
        w.end_arr();
        alarm(0);
        w.s += "}\n";
        fputs(w.s.c_str(), g_trace);
    }
    if(dev) opn2_close(dev);
    fprintf(g_trace, "{\"o\":\"end\"}\n");
    fclose(g_trace);
    return 0;
}
