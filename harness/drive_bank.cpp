// drive_bank <script.ndjson> <trace.ndjson>
// Replays bank-API operation sequences on real instances; after every operation records the
// result, the iteration order (getFirstBank/getNextBank/getBankId), the capacity, the number of
// heap allocations the call made, lookups of the probe keys and instrument read-backs (indices 0, 1, 127 of every
// probe bank that is found, or the indices named by "rbi" of the init command).
// Instruments are written from and read back into the complete field tuple (spec/BankMap.tla InsFields, 36 numbers:
// note_offset, midi_velocity_offset, percussion_key_number, inst_flags, fbalg, lfosens, 4 x 7 operator bytes, delay_on_ms,
// delay_off_ms); the harness compares nothing - a read-back record is [bank key, index, [36 fields], version].
// Instrument indices are passed as unsigned: negative numbers in the script stand for 2^32 - n (-1 = UINT_MAX).
#include "vh.hpp"
#include "wopn/wopn_file.h"
#include <new>

static volatile long g_allocs = 0;
void *operator new(size_t n) { ++g_allocs; void *p = malloc(n ? n : 1); if(!p) throw std::bad_alloc(); return p; }
void *operator new[](size_t n) { ++g_allocs; void *p = malloc(n ? n : 1); if(!p) throw std::bad_alloc(); return p; }
void *operator new(size_t n, const std::nothrow_t &) noexcept { ++g_allocs; return malloc(n ? n : 1); }
void *operator new[](size_t n, const std::nothrow_t &) noexcept { ++g_allocs; return malloc(n ? n : 1); }
void operator delete(void *p) noexcept { free(p); }
void operator delete[](void *p) noexcept { free(p); }
void operator delete(void *p, size_t) noexcept { free(p); }
void operator delete[](void *p, size_t) noexcept { free(p); }

static void keyToId(long long key, OPN2_BankId &id)
{ id.percussive = (key & 32768) ? 1 : 0; id.msb = (OPN2_UInt8)((key >> 8) & 127); id.lsb = (OPN2_UInt8)(key & 127); }
static long long idToKey(const OPN2_BankId &id) { return (long long)id.msb * 256 + id.lsb + (id.percussive ? 32768 : 0); }

static void insOfTok(OPN2_Instrument &o, int tok)
{
    InsSpec s; s.id = tok; s.kon = 100 + tok; s.koff = 50 + tok; s.noff = (tok % 25) - 12; s.drum = tok % 128; s.veloff = (tok >= 512) ? (tok % 7) - 3 : 0; // the WOPN format does not carry the velocity offset: file-loaded tokens are < 512
    s.fbalg = tok % 64; s.lfosens = tok % 48; for(int k = 0; k < 4; ++k) { s.tl[k] = (tok * (k + 3)) % 128; s.mul[k] = (tok + k) % 16; }
    fillInstrument(o, s);
}

// the complete field tuple of an instrument (order of spec/BankMap.tla InsFields)
static void insToVec(const OPN2_Instrument &i, long long *v)
{
    v[0] = i.note_offset; v[1] = i.midi_velocity_offset; v[2] = i.percussion_key_number; v[3] = i.inst_flags; v[4] = i.fbalg; v[5] = i.lfosens;
    for(int op = 0; op < 4; ++op)
    {
        const OPN2_Operator &o = i.operators[op]; long long *w = v + 6 + op * 7;
        w[0] = o.dtfm_30; w[1] = o.level_40; w[2] = o.rsatk_50; w[3] = o.amdecay1_60; w[4] = o.decay2_70; w[5] = o.susrel_80; w[6] = o.ssgeg_90;
    }
    v[34] = i.delay_on_ms; v[35] = i.delay_off_ms;
}
static bool insFromJsonVec(const JV &a, OPN2_Instrument &i)
{
    if(a.a.size() != 36) return false;
    long long v[36]; for(int k = 0; k < 36; ++k) v[k] = a.a[(size_t)k].num();
    memset(&i, 0, sizeof i); i.version = 0;
    i.note_offset = (OPN2_SInt16)v[0]; i.midi_velocity_offset = (OPN2_SInt8)v[1]; i.percussion_key_number = (OPN2_UInt8)v[2];
    i.inst_flags = (OPN2_UInt8)v[3]; i.fbalg = (OPN2_UInt8)v[4]; i.lfosens = (OPN2_UInt8)v[5];
    for(int op = 0; op < 4; ++op)
    {
        OPN2_Operator &o = i.operators[op]; const long long *w = v + 6 + op * 7;
        o.dtfm_30 = (OPN2_UInt8)w[0]; o.level_40 = (OPN2_UInt8)w[1]; o.rsatk_50 = (OPN2_UInt8)w[2]; o.amdecay1_60 = (OPN2_UInt8)w[3];
        o.decay2_70 = (OPN2_UInt8)w[4]; o.susrel_80 = (OPN2_UInt8)w[5]; o.ssgeg_90 = (OPN2_UInt8)w[6];
    }
    i.delay_on_ms = (OPN2_UInt16)v[34]; i.delay_off_ms = (OPN2_UInt16)v[35];
    // the script must name representable values: the recorded input is what the model takes as "written"
    long long back[36]; insToVec(i, back);
    for(int k = 0; k < 36; ++k) if(back[k] != v[k]) return false;
    return true;
}
static void vecJson(JW &w, const OPN2_Instrument &i)
{
    long long v[36]; insToVec(i, v);
    w.begin_arr(); for(int k = 0; k < 36; ++k) w.num(v[k]); w.end_arr();
}

int main(int argc, char **argv)
{
    if(argc < 3) return 2;
    std::vector<std::string> lines;
    if(!readLines(argv[1], lines)) return 2;
    g_trace = fopen(argv[2], "w");
    installCrashHandlers();
    OPN2_MIDIPlayer *dev = NULL;
    std::vector<long long> probe;
    std::vector<unsigned> rbi;
    for(size_t li = 0; li < lines.size(); ++li)
    {
        JV c; if(!jparse(lines[li], c)) return 2;
        std::string o = c.gets("o");
        long long r = 0, na = 0;
        bool echoIns = false; OPN2_Instrument written; memset(&written, 0, sizeof written);
        alarm(20);
        if(o == "init")
        {
            if(dev) opn2_close(dev);
            dev = opn2_init(44100);
            probe.clear();
            for(size_t k = 0; k < c["probe"].a.size(); ++k) probe.push_back(c["probe"].a[k].num());
            rbi.clear();
            for(size_t k = 0; k < c["rbi"].a.size(); ++k) rbi.push_back((unsigned)c["rbi"].a[k].num());
            if(rbi.empty()) { rbi.push_back(0); rbi.push_back(1); rbi.push_back(127); }
            fprintf(g_trace, "%s\n", lines[li].c_str());
            continue;
        }
        if(!dev) return 2;
        long before = g_allocs;
        if(o == "reserve") r = opn2_reserveBanks(dev, (unsigned)c.get("n"));
        else if(o == "get")
        {
            OPN2_BankId id; keyToId(c.get("key"), id); OPN2_Bank b;
            std::string m = c.gets("mode");
            int flags = m == "create" ? OPNMIDI_Bank_Create : (m == "creatert" ? OPNMIDI_Bank_CreateRt : 0);
            r = opn2_getBank(dev, &id, flags, &b);
        }
        else if(o == "remove")
        {
            OPN2_BankId id; keyToId(c.get("key"), id); OPN2_Bank b;
            r = opn2_getBank(dev, &id, 0, &b);
            if(r == 0) r = opn2_removeBank(dev, &b);
        }
        else if(o == "setins")
        {
            OPN2_BankId id; keyToId(c.get("key"), id); OPN2_Bank b;
            r = opn2_getBank(dev, &id, 0, &b);
            // the instrument: the complete field tuple "ins"; older scripts name a token (then the tuple written is added to the record)
            OPN2_Instrument ins;
            if(c.has("ins")) { if(!insFromJsonVec(c["ins"], ins)) return 2; }
            else { insOfTok(ins, (int)c.get("tok")); echoIns = true; written = ins; }
            if(r == 0) r = opn2_setInstrument(dev, &b, (unsigned)c.get("idx"), &ins);
        }
        else if(o == "getins")
        {
            OPN2_BankId id; keyToId(c.get("key"), id); OPN2_Bank b;
            r = opn2_getBank(dev, &id, 0, &b);
            if(r == 0) { OPN2_Instrument ins; memset(&ins, 0xEE, sizeof ins); r = opn2_getInstrument(dev, &b, (unsigned)c.get("idx"), &ins); }
        }
        else if(o == "load")
        {
            const JV &ks = c["keys"];
            unsigned nm = 0, np = 0;
            for(size_t k = 0; k < ks.a.size(); ++k) ((ks.a[k].get("key") & 32768) ? np : nm)++;
            WOPNFile *f = WOPN_Init((uint16_t)nm, (uint16_t)np);
            f->version = 2;
            unsigned im = 0, ip = 0;
            for(size_t k = 0; k < ks.a.size(); ++k)
            {
                long long key = ks.a[k].get("key");
                WOPNBank &bk = (key & 32768) ? f->banks_percussive[ip++] : f->banks_melodic[im++];
                bk.bank_midi_msb = (uint8_t)((key >> 8) & 127); bk.bank_midi_lsb = (uint8_t)(key & 127);
                for(int i = 0; i < 128; ++i) { memset(&bk.ins[i], 0, sizeof(WOPNInstrument)); bk.ins[i].inst_flags = WOPN_Ins_IsBlank; }
                if(!ks.a[k].has("ins") && ks.a[k].has("tok") && ks.a[k].get("tok") != 0) return 2; // token form no longer supported in bank files
                if(ks.a[k].has("ins"))
                {
                    OPN2_Instrument oi; if(!insFromJsonVec(ks.a[k]["ins"], oi)) return 2;
                    WOPNInstrument &wi = bk.ins[0];
                    wi.note_offset = oi.note_offset; wi.midi_velocity_offset = oi.midi_velocity_offset;
                    wi.percussion_key_number = oi.percussion_key_number; wi.inst_flags = oi.inst_flags;
                    wi.fbalg = oi.fbalg; wi.lfosens = oi.lfosens;
                    for(int op = 0; op < 4; ++op) memcpy(&wi.operators[op], &oi.operators[op], 7);
                    wi.delay_on_ms = oi.delay_on_ms; wi.delay_off_ms = oi.delay_off_ms;
                }
            }
            size_t sz = WOPN_CalculateBankFileSize(f, 2);
            std::vector<uint8_t> img(sz + 8);
            WOPN_SaveBankToMem(f, img.data(), img.size(), 2, 0);
            WOPN_Free(f);
            if(c.get("bad")) img[3] ^= 0x55;
            before = g_allocs;
            r = opn2_openBankData(dev, img.data(), (long)sz);
        }
        else return 2;
        na = g_allocs - before;
        alarm(20); // the observation below walks the same structures: keep the watchdog armed
        // observation
        JW w; w.s = lines[li]; w.s.pop_back(); w.first = false;
        if(echoIns) { w.key("ins"); vecJson(w, written); }
        w.kv("r", r); w.kv("na", na); w.kv("cap", opn2_reserveBanks(dev, 0));
        w.key("it"); w.begin_arr();
        {
            OPN2_Bank b; int rc = opn2_getFirstBank(dev, &b); int guard = 0;
            while(rc == 0 && guard++ < 100000)
            {
                OPN2_BankId id; opn2_getBankId(dev, &b, &id); w.num(idToKey(id));
                rc = opn2_getNextBank(dev, &b);
            }
        }
        w.end_arr();
        w.key("find"); w.begin_arr();
        std::vector<std::pair<long long, OPN2_Bank> > found;
        for(size_t k = 0; k < probe.size(); ++k)
        {
            OPN2_BankId id; keyToId(probe[k], id); OPN2_Bank b;
            int rc = opn2_getBank(dev, &id, 0, &b);
            w.begin_arr(); w.num(probe[k]); w.num(rc == 0 ? 1 : 0); w.end_arr();
            if(rc == 0) found.push_back(std::make_pair(probe[k], b));
        }
        w.end_arr();
        w.key("rb"); w.begin_arr();
        for(size_t k = 0; k < found.size(); ++k)
        {
            const std::vector<unsigned> &idxs = rbi;
            for(size_t q = 0; q < idxs.size(); ++q)
            {
                OPN2_Instrument ins; memset(&ins, 0xEE, sizeof ins);
                if(opn2_getInstrument(dev, &found[k].second, idxs[q], &ins) != 0) continue;
                w.begin_arr(); w.num(found[k].first); w.num(idxs[q]); vecJson(w, ins); w.num(ins.version); w.end_arr();
            }
        }
        w.end_arr();
        alarm(0);
        w.s += "}\n";
        fputs(w.s.c_str(), g_trace);
    }
    if(dev) opn2_close(dev);
    fprintf(g_trace, "{\"o\":\"end\"}\n");
    fclose(g_trace);
    return 0;
}
