// drive_isolation <script.ndjson> <trace.ndjson>
// C14.  One execution = N (<= 8) instances, each with its own call history; the script gives the
// calls in the order in which they are made ("seq": all on one thread in script order; "par": one
// thread per instance, each running its own calls in their order; consecutive commands with the same
// "g" form a round whose calls run concurrently, a barrier separates the rounds).
//
// The harness process itself never touches the library.  Per execution it forks
//   * one child that runs the whole execution (the observed run), and
//   * per instance one child that runs that instance's history ALONE, twice in a row
//     (run 1 = reference in a pristine process state, run 2 = the same history repeated),
// so that every run starts from the process-global state of a fresh process.  After each call it
// records: return value, FNV-1a hash + non-zero count of the PCM the call returned, FNV-1a hash +
// count of the register-tap records (hook H1: W/P/G) the call produced, and in clear the panning decisions of
// the call (pw = values handed to writePan, lr = L/R bits of the 0xB4 write that follows).  The observed run
// recycles released C++ heap blocks unchanged (see g_recycle), solo run 2 starts from a dirty heap.
// Calls: Create On Off Ctl(ch,c,v) Bend(ch,v) Set(s,v: softpan bright smod vmodel lfofreq arp alloc) Gen Play
// Switch Chips Reset Pcm Fam Lfo Load Panic Close.  In a ThreadSanitizer
// build the observed child's report is captured and its racing locations are recorded.
// Nothing is compared here: spec/IsolationTrace.tla pairs observations with the solo runs.
//
// Trace: the Init record carries "ref" / "ref2" (per instance the solo records: call + observation),
// "races" ([kind, location, function, file] of every sanitizer report), "tsan" (detector active);
// every other record = the command + its observation in the observed run.
#include "vh.hpp"
#include <pthread.h>
#include <sys/wait.h>
#include <sys/stat.h>
#include <fcntl.h>
#include <errno.h>
#include <malloc.h>
#include <new>

#if defined(__has_feature)
#  if __has_feature(thread_sanitizer)
#    define ISO_TSAN 1
#  endif
#endif
#ifndef ISO_TSAN
#  define ISO_TSAN 0
#endif
#if defined(__has_feature)
#  if __has_feature(address_sanitizer)
#    define ISO_ASAN 1
#  endif
#endif
#ifndef ISO_ASAN
#  define ISO_ASAN 0
#endif
#if ISO_TSAN
extern "C" const char *__tsan_default_options() { return "halt_on_error=0:exitcode=0:report_signal_unsafe=0:second_deadlock_stack=0"; }
#endif

static const int MAXI = 8;
static const int MAXFR = 16384;

// Ambient garbage: every C++ allocation is filled with g_fill (and, outside AddressSanitizer, glibc's
// M_PERTURB does the same for malloc).  The observed run and solo run 1 use 0x00 (what a fresh process
// sees), solo run 2 uses a byte sequence: output that depends on uninitialised heap memory then differs between the
// two repetitions instead of depending on allocator luck.
static volatile int g_fill = 0;
// g_recycle (observed run): a block released by operator delete is handed out again AS IT IS by the next operator new of the
// same size (LIFO per size - what a plain malloc does; AddressSanitizer's quarantine never reuses a block), so that what one
// instance leaves behind on the heap is what an instance created later finds in its "fresh" objects.  Blocks that were never
// used before are filled as in the solo runs.  Every block carries a 16-byte header (size, link); cached blocks stay poisoned.
static volatile int g_recycle = 0;
#if !ISO_TSAN   // the ThreadSanitizer runtime brings its own (strong) operator new
#if ISO_ASAN
#  include <sanitizer/asan_interface.h>
#  define ISO_POISON(p, n)   ASAN_POISON_MEMORY_REGION((p), (n))
#  define ISO_UNPOISON(p, n) ASAN_UNPOISON_MEMORY_REGION((p), (n))
#else
#  define ISO_POISON(p, n)   ((void)0)
#  define ISO_UNPOISON(p, n) ((void)0)
#endif
struct IsoHdr { size_t n; IsoHdr *next; };                       // sizeof = 16: the user block keeps malloc's alignment
static const size_t ISO_BUCKETS = 1024, ISO_MAXBLOCK = 4u << 20, ISO_MAXCACHED = 512u << 20;
static IsoHdr *g_freeList[ISO_BUCKETS];
static size_t g_cached = 0;
static volatile char g_allocLock = 0;
static inline void isoLock() { while(__sync_lock_test_and_set(&g_allocLock, 1)) { } }
static inline void isoUnlock() { __sync_lock_release(&g_allocLock); }
static inline size_t isoBucket(size_t n) { return (n * 2654435761u >> 7) % ISO_BUCKETS; }
// g_fill = 0: zeros; otherwise a fixed byte SEQUENCE seeded by g_fill (a uniform byte can land where it is harmless:
// 0xA5 written to FM register 0xA5 is inaudible), the same in every process and for every allocation
static inline void *fillNew(size_t n)
{
    if(!n) n = 1;
    if(g_recycle && n <= ISO_MAXBLOCK)
    {
        isoLock();
        IsoHdr **pp = &g_freeList[isoBucket(n)];
        while(*pp && (*pp)->n != n) pp = &(*pp)->next;
        IsoHdr *h = *pp;
        if(h) { *pp = h->next; g_cached -= n; }
        isoUnlock();
        if(h) { ISO_UNPOISON(h + 1, n); return h + 1; }           // recycled: content as the previous owner left it
    }
    IsoHdr *h = (IsoHdr *)malloc(sizeof(IsoHdr) + n);
    if(!h) return NULL;
    h->n = n; h->next = NULL;
    uint8_t *p = (uint8_t *)(h + 1);
    if(g_fill == 0) memset(p, 0, n);
    else for(size_t i = 0; i < n; ++i) p[i] = (uint8_t)(g_fill + i * 0x3D + (i >> 2) * 0x11);
    return p;
}
static inline void freeNew(void *p)
{
    if(!p) return;
    IsoHdr *h = (IsoHdr *)p - 1;
    if(g_recycle && h->n <= ISO_MAXBLOCK && g_cached + h->n <= ISO_MAXCACHED)
    {
        ISO_POISON(p, h->n);
        isoLock();
        IsoHdr **pp = &g_freeList[isoBucket(h->n)];
        h->next = *pp; *pp = h; g_cached += h->n;
        isoUnlock();
        return;
    }
    free(h);
}
void *operator new(size_t n) { void *p = fillNew(n); if(!p) throw std::bad_alloc(); return p; }
void *operator new[](size_t n) { void *p = fillNew(n); if(!p) throw std::bad_alloc(); return p; }
void *operator new(size_t n, const std::nothrow_t &) noexcept { return fillNew(n); }
void *operator new[](size_t n, const std::nothrow_t &) noexcept { return fillNew(n); }
void operator delete(void *p) noexcept { freeNew(p); }
void operator delete[](void *p) noexcept { freeNew(p); }
void operator delete(void *p, size_t) noexcept { freeNew(p); }
void operator delete[](void *p, size_t) noexcept { freeNew(p); }
void operator delete(void *p, const std::nothrow_t &) noexcept { freeNew(p); }
void operator delete[](void *p, const std::nothrow_t &) noexcept { freeNew(p); }
#endif
static void setFill(int v)
{
    g_fill = v;
#if !defined(__SANITIZE_ADDRESS__) && !ISO_ASAN
    mallopt(M_PERTURB, v ? (~v & 0xFF) : 0);   // glibc stores ~value on malloc
#endif
}

// Besides the hash of the whole stream the tap keeps the first MAXPAN panning decisions of the call in clear: the value
// handed to writePan ('P': chip, channel, value) and the L/R output bits of the 0xB4..0xB6 write that OPN2::setPan makes right
// after it.  spec/Isolation.tla says what they are for the instance's own soft-pan setting and pan controllers.
static const int MAXPAN = 24;
struct ITap
{
    uint64_t h; long n;
    int npw, nlr; bool afterP; uint8_t pw[MAXPAN], lr[MAXPAN];
    void clear() { h = 1469598103934665603ULL; n = 0; npw = 0; nlr = 0; afterP = false; }
    static void cb(void *ud, int kind, size_t chip, unsigned a, unsigned b, unsigned c)
    {
        ITap *t = (ITap *)ud;
        if(kind == 'P') { if(t->npw < MAXPAN) t->pw[t->npw++] = (uint8_t)b; t->afterP = true; }
        else
        {
            if(kind == 'W' && t->afterP && (b & 0xFC) == 0xB4 && t->nlr < MAXPAN) t->lr[t->nlr++] = (uint8_t)((c >> 6) & 3);
            t->afterP = false;
        }
        const unsigned v[5] = {(unsigned)kind, (unsigned)chip, a, b, c};
        for(int i = 0; i < 5; ++i)
            for(int s = 0; s < 32; s += 8) { t->h ^= (v[i] >> s) & 0xFF; t->h *= 1099511628211ULL; }
        ++t->n;
    }
};

struct Inst
{
    OPN2_MIDIPlayer *dev; ITap tap; std::vector<short> buf;
    Inst() : dev(NULL) { tap.clear(); }
};

struct Obs
{
    long long r, tn, nz; int hasPcm; uint64_t pcm, tap;
    int npw, nlr; uint8_t pw[MAXPAN], lr[MAXPAN];
    Obs() : r(0), tn(0), nz(0), hasPcm(0), pcm(0), tap(0), npw(0), nlr(0) {}
};

static void putVlq(std::vector<uint8_t> &o, unsigned v)
{
    uint8_t tmp[5]; int n = 0;
    tmp[n++] = (uint8_t)(v & 0x7F);
    while((v >>= 7) != 0) tmp[n++] = (uint8_t)((v & 0x7F) | 0x80);
    while(n > 0) o.push_back(tmp[--n]);
}

// a small format-0 song: a chord of 4..9 notes spread over three channels (more notes than one chip has channels)
static std::vector<uint8_t> buildSong(int s)
{
    std::vector<uint8_t> t;
    putVlq(t, 0); t.push_back(0xFF); t.push_back(0x51); t.push_back(3); t.push_back(0x07); t.push_back(0xA1); t.push_back(0x20);
    // songs 6..11 name two MIDI ports (FF 09), in an order that depends on the song: the port -> channel-block map is
    // per instance and per song
    const char *ports[2] = { (s % 2) ? "Port B" : "Port A", (s % 2) ? "Port A" : "Port B" };
    if(s >= 6) { putVlq(t, 0); t.push_back(0xFF); t.push_back(0x09); t.push_back(6); for(int k = 0; k < 6; ++k) t.push_back((uint8_t)ports[0][k]); }
    for(int c = 0; c < 3; ++c) { putVlq(t, 0); t.push_back((uint8_t)(0xC0 | c)); t.push_back((uint8_t)((s + c) % 3)); }
    int nn = 4 + (s % 6);
    for(int j = 0; j < nn; ++j)
    {
        if(s >= 6 && j == nn / 2)
        {
            putVlq(t, 0); t.push_back(0xFF); t.push_back(0x09); t.push_back(6); for(int k = 0; k < 6; ++k) t.push_back((uint8_t)ports[1][k]);
            putVlq(t, 0); t.push_back(0xC0); t.push_back((uint8_t)((s + 1) % 3));      // another program on channel 0 of the second port
        }
        putVlq(t, j == 0 ? 0 : 6); t.push_back((uint8_t)(0x90 | (j % 3))); t.push_back((uint8_t)(40 + (j * 5 + s * 3) % 40)); t.push_back(100);
    }
    for(int j = 0; j < nn; ++j)
    { putVlq(t, j == 0 ? 96 : 3); t.push_back((uint8_t)(0x80 | (j % 3))); t.push_back((uint8_t)(40 + (j * 5 + s * 3) % 40)); t.push_back(0); }
    putVlq(t, 48); t.push_back(0xFF); t.push_back(0x2F); t.push_back(0);
    std::vector<uint8_t> f;
    const uint8_t hd[14] = {'M', 'T', 'h', 'd', 0, 0, 0, 6, 0, 0, 0, 1, 0, 96};
    f.insert(f.end(), hd, hd + 14);
    const uint8_t th[4] = {'M', 'T', 'r', 'k'}; f.insert(f.end(), th, th + 4);
    size_t n = t.size();
    f.push_back((uint8_t)(n >> 24)); f.push_back((uint8_t)(n >> 16)); f.push_back((uint8_t)(n >> 8)); f.push_back((uint8_t)n);
    f.insert(f.end(), t.begin(), t.end());
    return f;
}

static int installIsoBank(OPN2_MIDIPlayer *dev)
{
    OPN2_BankId id; id.percussive = 0; id.msb = 0; id.lsb = 0;
    OPN2_Bank bank;
    if(opn2_getBank(dev, &id, OPNMIDI_Bank_Create, &bank) != 0) return -1;
    for(int p = 0; p < 3; ++p)
    {
        InsSpec s; s.id = p + 1; s.kon = 400; s.koff = 200;
        if(p == 1) { s.lfosens = 0x37; s.fbalg = 0x3C; s.tl[0] = 25; s.tl[1] = 8; s.tl[2] = 30; s.tl[3] = 6; s.mul[0] = 2; s.mul[2] = 3; }
        if(p == 2) { s.fbalg = 0x2A; s.tl[0] = 35; s.tl[1] = 22; s.tl[2] = 28; s.tl[3] = 4; s.mul[1] = 4; s.lfosens = 0x03; }
        OPN2_Instrument ins; fillInstrument(ins, s);
        for(int op = 0; op < 4; ++op) { ins.operators[op].rsatk_50 = 0x1F; ins.operators[op].susrel_80 = 0x27; if(p == 1) ins.operators[op].amdecay1_60 |= 0x80; }
        if(opn2_setInstrument(dev, &bank, (unsigned)p, &ins) != 0) return -1;
    }
    return 0;
}

static uint64_t fnv(const void *p, size_t n)
{
    uint64_t h = 1469598103934665603ULL; const uint8_t *b = (const uint8_t *)p;
    for(size_t i = 0; i < n; ++i) { h ^= b[i]; h *= 1099511628211ULL; }
    return h;
}

// one call of an instance's history on the real library
static bool doCall(Inst &in, const JV &c, Obs &o)
{
    const std::string e = c.gets("e");
    in.tap.clear();
    if(e == "Create")
    {
        if(in.dev) return false;
        in.dev = opn2_init((long)c.get("rate", 44100));
        if(!in.dev) return false;
        OPNMIDIplay *p = playerOf(in.dev);
        p->m_synth->m_verifTap = &ITap::cb;
        p->m_synth->m_verifTapUd = &in.tap;
        in.buf.assign(2 * MAXFR + 16, 0);
        if(installIsoBank(in.dev) != 0) return false;
        long long r1 = opn2_switchEmulator(in.dev, (int)c.get("emu", 0));
        long long r2 = opn2_setNumChips(in.dev, (int)c.get("chips", 1));
        opn2_setLoopEnabled(in.dev, 1);
        o.r = r1 * 16 + r2;
    }
    else if(!in.dev) { o.r = -99; }
    else if(e == "On")
    {
        OPN2_UInt8 ch = (OPN2_UInt8)c.get("ch", 0);
        opn2_rt_patchChange(in.dev, ch, (OPN2_UInt8)c.get("p", 0));
        o.r = opn2_rt_noteOn(in.dev, ch, (OPN2_UInt8)c.get("k", 60), (OPN2_UInt8)c.get("vel", 100));
    }
    else if(e == "Off") opn2_rt_noteOff(in.dev, (OPN2_UInt8)c.get("ch", 0), (OPN2_UInt8)c.get("k", 60));
    else if(e == "Ctl") opn2_rt_controllerChange(in.dev, (OPN2_UInt8)c.get("ch", 0), (OPN2_UInt8)c.get("c", 10), (OPN2_UInt8)c.get("v", 64));
    else if(e == "Bend") opn2_rt_pitchBend(in.dev, (OPN2_UInt8)c.get("ch", 0), (OPN2_UInt16)c.get("v", 8192));
    else if(e == "Set")        // per-instance switches of the API; field s names the setter
    {
        const std::string sn = c.gets("s");
        int v = (int)c.get("v", 0);
        if(sn == "softpan") opn2_setSoftPanEnabled(in.dev, v);
        else if(sn == "bright") opn2_setFullRangeBrightness(in.dev, v);
        else if(sn == "smod") opn2_setScaleModulators(in.dev, v);
        else if(sn == "vmodel") opn2_setVolumeRangeModel(in.dev, v);
        else if(sn == "lfofreq") opn2_setLfoFrequency(in.dev, v);
        else if(sn == "arp") opn2_setAutoArpeggio(in.dev, v);
        else if(sn == "alloc") opn2_setChannelAllocMode(in.dev, v);
        else return false;
    }
    else if(e == "Gen" || e == "Play")
    {
        long long fr = c.get("fr", 256);
        if(fr < 0 || fr > MAXFR) return false;
        short *b = in.buf.data();
        for(long long q = 0; q < 2 * fr; ++q) b[q] = (short)0x5A5A;
        o.r = (e == "Gen") ? opn2_generate(in.dev, (int)(2 * fr), b) : opn2_play(in.dev, (int)(2 * fr), b);
        long long n = o.r > 0 ? (o.r > 2 * fr ? 2 * fr : o.r) : 0;
        o.hasPcm = 1; o.pcm = fnv(b, (size_t)n * sizeof(short));
        for(long long q = 0; q < n; ++q) if(b[q] != 0) ++o.nz;
    }
    else if(e == "Switch") o.r = opn2_switchEmulator(in.dev, (int)c.get("emu", 0));
    else if(e == "Chips") o.r = opn2_setNumChips(in.dev, (int)c.get("n", 1));
    else if(e == "Reset") opn2_reset(in.dev);
    else if(e == "Pcm") o.r = opn2_setRunAtPcmRate(in.dev, (int)c.get("v", 0));
    else if(e == "Fam") opn2_setChipType(in.dev, (int)c.get("v", 0));      // chip family: 0 = OPN2, 1 = OPNA (rebuilds the chips)
    else if(e == "Lfo") opn2_setLfoEnabled(in.dev, (int)c.get("v", 0));
    else if(e == "Load") { std::vector<uint8_t> s = buildSong((int)c.get("song", 0)); o.r = opn2_openData(in.dev, s.data(), (unsigned long)s.size()); }
    else if(e == "Panic") opn2_panic(in.dev);
    else if(e == "Close") { opn2_close(in.dev); in.dev = NULL; }
    else return false;
    o.tap = in.tap.h; o.tn = in.tap.n;
    o.npw = in.tap.npw; o.nlr = in.tap.nlr;
    memcpy(o.pw, in.tap.pw, sizeof o.pw); memcpy(o.lr, in.tap.lr, sizeof o.lr);
    return true;
}

static void obsJson(const Obs &o, std::string &s)
{
    char b[200];
    char pcm[24] = "";
    if(o.hasPcm) snprintf(pcm, sizeof pcm, "%016llx", (unsigned long long)o.pcm);
    snprintf(b, sizeof b, "\"r\":%lld,\"pcm\":\"%s\",\"nz\":%lld,\"tap\":\"%016llx\",\"tn\":%lld", o.r, pcm, o.nz, (unsigned long long)o.tap, o.tn);
    s += b;
    s += ",\"pw\":[";
    for(int q = 0; q < o.npw; ++q) { snprintf(b, sizeof b, q ? ",%d" : "%d", (int)o.pw[q]); s += b; }
    s += "],\"lr\":[";
    for(int q = 0; q < o.nlr; ++q) { snprintf(b, sizeof b, q ? ",%d" : "%d", (int)o.lr[q]); s += b; }
    s += "]}";
}

struct Exec
{
    std::vector<std::string> lines;   // commands after Init
    std::vector<JV> cmds;
    std::vector<int> slot;
    std::vector<int> round;           // "par": commands of one round (equal consecutive "g") run concurrently, a barrier separates rounds
    int n, nrounds; bool par;
};

struct ThreadArg { const Exec *ex; int slot; Inst *inst; std::vector<Obs> *obs; pthread_barrier_t *bar; int bad; };

static void *threadMain(void *p)
{
    ThreadArg *a = (ThreadArg *)p;
    pthread_barrier_wait(a->bar);
    for(int r = 0; r < a->ex->nrounds; ++r)
    {
        for(size_t k = 0; k < a->ex->cmds.size(); ++k)
            if(a->ex->round[k] == r && a->ex->slot[k] == a->slot && !doCall(*a->inst, a->ex->cmds[k], (*a->obs)[k])) a->bad = 1;
        pthread_barrier_wait(a->bar);
    }
    return NULL;
}

static bool writeAll(int fd, const std::string &s)
{
    size_t off = 0;
    while(off < s.size())
    {
        ssize_t w = write(fd, s.data() + off, s.size() - off);
        if(w < 0) { if(errno == EINTR) continue; return false; }
        off += (size_t)w;
    }
    return true;
}

// child body: which = -1: the whole execution; which >= 0: that instance's history alone, twice
static int childRun(const Exec &ex, int which, int fd)
{
    std::string out;
    alarm(120);
    setFill(0);
    if(which < 0)
    {
        g_recycle = 1;       // the instances of the observed run share one heap: released blocks come back as they were left
        std::vector<Obs> obs(ex.cmds.size());
        Inst inst[MAXI];
        if(!ex.par)
        {
            for(size_t k = 0; k < ex.cmds.size(); ++k)
                if(!doCall(inst[ex.slot[k]], ex.cmds[k], obs[k])) return 2;
        }
        else
        {
            pthread_barrier_t bar;
            if(pthread_barrier_init(&bar, NULL, (unsigned)ex.n) != 0) return 2;
            pthread_t th[MAXI]; ThreadArg ta[MAXI];
            for(int i = 0; i < ex.n; ++i)
            {
                ta[i].ex = &ex; ta[i].slot = i; ta[i].inst = &inst[i]; ta[i].obs = &obs; ta[i].bar = &bar; ta[i].bad = 0;
                if(pthread_create(&th[i], NULL, threadMain, &ta[i]) != 0) return 2;
            }
            for(int i = 0; i < ex.n; ++i) pthread_join(th[i], NULL);
            pthread_barrier_destroy(&bar);
            for(int i = 0; i < ex.n; ++i) if(ta[i].bad) return 2;
        }
        for(int i = 0; i < MAXI; ++i) if(inst[i].dev) { opn2_close(inst[i].dev); inst[i].dev = NULL; }
        for(size_t k = 0; k < ex.cmds.size(); ++k) { out += "{"; obsJson(obs[k], out); out += "\n"; }
    }
    else
    {
        for(int rep = 0; rep < 2; ++rep)
        {
            // second solo run: other garbage (a byte sequence, see fillNew)
            setFill(rep ? 0xA5 : 0);
            Inst in;
            for(size_t k = 0; k < ex.cmds.size(); ++k)
            {
                if(ex.slot[k] != which) continue;
                Obs o;
                if(!doCall(in, ex.cmds[k], o)) return 2;
                out += "{"; obsJson(o, out); out += "\n";
            }
            if(in.dev) { opn2_close(in.dev); in.dev = NULL; }
            out += "#\n";
        }
    }
    alarm(0);
    return writeAll(fd, out) ? 0 : 2;
}

// returns child's exit code (0 ok); text = what the child wrote
static int forkRun(const Exec &ex, int which, std::string &text, const char *errfile)
{
    int pfd[2];
    if(pipe(pfd) != 0) return 2;
    fflush(g_trace); fflush(stderr);
    pid_t pid = fork();
    if(pid < 0) return 2;
    if(pid == 0)
    {
        close(pfd[0]);
        g_trace = NULL;
        if(errfile)
        {
            int ef = open(errfile, O_WRONLY | O_CREAT | O_TRUNC, 0644);
            if(ef >= 0) { dup2(ef, 2); close(ef); }
        }
        int rc = childRun(ex, which, pfd[1]);
        close(pfd[1]);
        _exit(rc);
    }
    close(pfd[1]);
    char b[65536]; ssize_t r;
    while((r = read(pfd[0], b, sizeof b)) != 0)
    {
        if(r < 0) { if(errno == EINTR) continue; break; }
        text.append(b, (size_t)r);
        if(text.size() > (64u << 20)) break;
    }
    close(pfd[0]);
    int st = 0;
    while(waitpid(pid, &st, 0) < 0 && errno == EINTR) { }
    if(WIFEXITED(st)) return WEXITSTATUS(st);
    if(WIFSIGNALED(st)) return 128 + WTERMSIG(st);
    return 99;
}

static std::vector<std::string> splitLines(const std::string &t)
{
    std::vector<std::string> v; size_t p = 0;
    while(p < t.size()) { size_t q = t.find('\n', p); if(q == std::string::npos) q = t.size(); v.push_back(t.substr(p, q - p)); p = q + 1; }
    return v;
}

// command JSON without its closing brace + "," + observation (which starts after '{')
static std::string merged(const std::string &cmd, const std::string &obs)
{
    std::string s = cmd;
    while(!s.empty() && (s.back() == '\n' || s.back() == ' ')) s.pop_back();
    s.pop_back();
    s += ","; s += obs.substr(1);
    return s;
}

// sanitizer report -> [kind, location, function, file] tuples (observation only; judged by TLC)
static void parseRaces(const std::string &t, std::vector<std::vector<std::string> > &out)
{
    size_t p = 0;
    const std::string W = "WARNING: ThreadSanitizer: ";
    while((p = t.find(W, p)) != std::string::npos)
    {
        size_t e = t.find(W, p + 1); if(e == std::string::npos) e = t.size();
        std::string blk = t.substr(p, e - p);
        std::string kind = blk.substr(W.size(), blk.find_first_of("(\n", W.size()) - W.size());
        while(!kind.empty() && kind.back() == ' ') kind.pop_back();
        std::string loc = "?", fn = "?", file = "?";
        size_t g = blk.find("Location is global '");
        if(g != std::string::npos) { g += 20; loc = blk.substr(g, blk.find('\'', g) - g); }
        else if(blk.find("Location is heap block") != std::string::npos) loc = "heap";
        else if(blk.find("Location is stack") != std::string::npos) loc = "stack";
        size_t s = blk.find("SUMMARY: ThreadSanitizer:");
        if(s != std::string::npos)
        {
            size_t le = blk.find('\n', s); if(le == std::string::npos) le = blk.size();
            std::string line = blk.substr(s, le - s);
            size_t in = line.rfind(" in ");
            if(in != std::string::npos)
            {
                fn = line.substr(in + 4);
                std::string left = line.substr(0, in);
                size_t sp = left.rfind(' ');
                std::string path = sp == std::string::npos ? left : left.substr(sp + 1);
                size_t sl = path.rfind('/'); if(sl != std::string::npos) path = path.substr(sl + 1);
                size_t co = path.find(':');
                if(co != std::string::npos && co > 0 && path.find('(') == std::string::npos) file = path.substr(0, co);
            }
        }
        for(size_t i = 0; i < file.size(); ++i) if(file[i] == '"' || file[i] == '\\' || (unsigned char)file[i] < 0x20) file[i] = '_';
        for(size_t i = 0; i < fn.size(); ++i) if(fn[i] == '"' || fn[i] == '\\' || (unsigned char)fn[i] < 0x20) fn[i] = '_';
        for(size_t i = 0; i < loc.size(); ++i) if(loc[i] == '"' || loc[i] == '\\' || (unsigned char)loc[i] < 0x20) loc[i] = '_';
        bool dup = false;
        for(size_t i = 0; i < out.size(); ++i) if(out[i][0] == kind && out[i][1] == loc && out[i][3] == file) dup = true;
        if(!dup && out.size() < 24) { std::vector<std::string> r; r.push_back(kind); r.push_back(loc); r.push_back(fn); r.push_back(file); out.push_back(r); }
        p = e;
    }
}

int main(int argc, char **argv)
{
    if(argc < 3) { fprintf(stderr, "usage: drive_isolation script trace\n"); return 2; }
    std::vector<std::string> lines;
    if(!readLines(argv[1], lines)) { fprintf(stderr, "INFRA: cannot read %s\n", argv[1]); return 2; }
    g_trace = fopen(argv[2], "w");
    if(!g_trace) return 2;
    signal(SIGPIPE, SIG_IGN);
    std::string errfile = std::string(argv[2]) + ".san";
    size_t li = 0;
    while(li < lines.size())
    {
        JV c0;
        if(!jparse(lines[li], c0) || c0.t != JV::Obj || c0.gets("e") != "Init") { fprintf(stderr, "INFRA: expected Init at line %zu\n", li); return 2; }
        Exec ex; ex.n = (int)c0.get("n", 2); ex.par = c0.gets("mode", "seq") == "par";
        if(ex.n < 1 || ex.n > MAXI) { fprintf(stderr, "INFRA: bad n\n"); return 2; }
        size_t lj = li + 1;
        for(; lj < lines.size(); ++lj)
        {
            JV c;
            if(!jparse(lines[lj], c) || c.t != JV::Obj) { fprintf(stderr, "INFRA: bad script line %zu\n", lj); return 2; }
            if(c.gets("e") == "Init") break;
            int s = (int)c.get("i", -1);
            if(s < 0 || s >= ex.n) { fprintf(stderr, "INFRA: bad instance index at line %zu\n", lj); return 2; }
            long long g = c.get("g", -1);
            int rd = ex.cmds.empty() ? 0 : (g == ex.cmds.back().get("g", -1) ? ex.round.back() : ex.round.back() + 1);
            ex.lines.push_back(lines[lj]); ex.cmds.push_back(c); ex.slot.push_back(s); ex.round.push_back(rd);
        }
        ex.nrounds = ex.round.empty() ? 0 : ex.round.back() + 1;
        // observed run
        std::string tx;
        unlink(errfile.c_str());
        int rc = forkRun(ex, -1, tx, (ISO_TSAN && ex.par) ? errfile.c_str() : NULL);
        std::string santext;
        if(ISO_TSAN && ex.par)
        {
            std::ifstream f(errfile.c_str()); std::string l; size_t tot = 0;
            while(std::getline(f, l) && tot < (4u << 20)) { santext += l; santext += "\n"; tot += l.size() + 1; }
            if(!getenv("ISO_KEEP_SAN")) unlink(errfile.c_str());
        }
        std::vector<std::string> xo = splitLines(tx);
        // the Init record is written before anything can make this process leave, so that a crash is attributed to this execution
        std::string initrec = lines[li];
        while(!initrec.empty() && (initrec.back() == '\n' || initrec.back() == ' ')) initrec.pop_back();
        initrec.pop_back();
        if(rc == 2) { fprintf(stderr, "INFRA: observed run failed (bad command?) at execution starting line %zu\n", li); return 2; }
        if(rc != 0 || xo.size() != ex.cmds.size())
        {
            fprintf(g_trace, "%s,\"crash\":\"observed run\",\"rc\":%d}\n", initrec.c_str(), rc); fflush(g_trace);
            if(!santext.empty()) fprintf(stderr, "%s\n", santext.substr(0, 5000).c_str());
            fprintf(stderr, "observed run of the execution starting at script line %zu ended with status %d\n", li, rc);
            return rc ? (rc > 125 ? 70 : rc) : 70;
        }
        // solo runs
        std::vector<std::vector<std::string> > ref(ex.n), ref2(ex.n);
        for(int i = 0; i < ex.n; ++i)
        {
            std::string ts;
            int rs = forkRun(ex, i, ts, NULL);
            std::vector<std::string> so = splitLines(ts);
            size_t cnt = 0; for(size_t k = 0; k < ex.cmds.size(); ++k) if(ex.slot[k] == i) ++cnt;
            if(rs == 2) { fprintf(stderr, "INFRA: solo run failed\n"); return 2; }
            if(rs != 0 || so.size() != 2 * cnt + 2)
            {
                fprintf(g_trace, "%s,\"crash\":\"solo run %d\",\"rc\":%d}\n", initrec.c_str(), i, rs); fflush(g_trace);
                fprintf(stderr, "solo run of instance %d (execution starting at script line %zu) ended with status %d\n", i, li, rs);
                return rs ? (rs > 125 ? 70 : rs) : 70;
            }
            size_t q = 0;
            for(size_t k = 0; k < ex.cmds.size(); ++k)
                if(ex.slot[k] == i) { ref[i].push_back(merged(ex.lines[k], so[q])); ref2[i].push_back(merged(ex.lines[k], so[cnt + 1 + q])); ++q; }
        }
        std::string rec = initrec;
        for(int pass = 0; pass < 2; ++pass)
        {
            rec += pass ? ",\"ref2\":[" : ",\"ref\":[";
            for(int i = 0; i < ex.n; ++i)
            {
                if(i) rec += ",";
                rec += "[";
                const std::vector<std::string> &v = pass ? ref2[i] : ref[i];
                for(size_t k = 0; k < v.size(); ++k) { if(k) rec += ","; rec += v[k]; }
                rec += "]";
            }
            rec += "]";
        }
        std::vector<std::vector<std::string> > races;
        parseRaces(santext, races);
        rec += ",\"tsan\":"; rec += (ISO_TSAN ? "1" : "0");
        rec += ",\"races\":[";
        for(size_t k = 0; k < races.size(); ++k)
        {
            if(k) rec += ",";
            rec += "[\"" + races[k][0] + "\",\"" + races[k][1] + "\",\"" + races[k][2] + "\",\"" + races[k][3] + "\"]";
        }
        rec += "]}\n";
        fputs(rec.c_str(), g_trace);
        for(size_t k = 0; k < ex.cmds.size(); ++k) { fputs(merged(ex.lines[k], xo[k]).c_str(), g_trace); fputc('\n', g_trace); }
        fflush(g_trace);
        li = lj;
    }
    fprintf(g_trace, "{\"e\":\"End\"}\n");
    fclose(g_trace);
    return 0;
}
