// drive_level <script.ndjson> <trace.ndjson>
// C11: drives the loudness controls of the real library (NoteOn velocity, CC7, CC11, CC74, CC67,
// SysEx master volume, volume model, modulator scaling, full-range brightness) and records, for
// every call, the total-level bytes that reached the chip through the register tap (hook H1):
//   [0, chipchannel, tl40, tl44, tl48, tl4C]   one complete TL update of a chip channel
//   [1, chipchannel, instrument-id, fbalg]     an instrument (patch) upload
//   [2, chipchannel, tl40, tl44, tl48, tl4C, midichannel, key, candidates]
//                                              (executions started with "kon":1) a key-on of a chip channel: the four TL
//                                              registers in force at that moment and the note the library keyed it for - the
//                                              note hook fires right after the 0x28 write and names chip channel, tone, patch
//                                              and velocity; the MIDI channel is looked up among the active notes that hold
//                                              this chip channel (candidates = how many notes fit; 1 = unambiguous)
// Executions started with "kon":1 also carry "al": [[midichannel, key, chipchannel], ...], the sounding notes after the
// call (who is alive where: the trace specification keeps its own record of every note's loudness inputs).
// init option "rsxx":1 loads a tiny EA-MUS ("RSXX") song after the set-up calls, so that the music mode is RSXX: that mode
// locks the set-up (two chips, the Generic volume model whatever was asked for, channel volume 127 by default) and turns a
// NoteOn for a key that is sounding into a velocity update of the sounding note.  The init record reports what the library
// then says: "vmr" volume model, "nch" chips, "mm" music mode, "cv" CC7 of channel 0; every later record repeats "vmr".
// "bend" = opn2_rt_pitchBend (every note of the MIDI channel is re-pitched and re-keyed).
// "gen" lets the time pass: opn2_generate in blocks of "blk" frames until "fr" frames are rendered (arpeggio, note ends).
// A "sweep" command performs one call per value of one control and records one entry per value.
// Nothing is judged here: spec/LevelTrace.tla predicts and judges the bytes.
#include "vh.hpp"

static OPN2_MIDIPlayer *dev = NULL;
static Tap *tap = NULL;

static bool g_kon = false;          // record key-ons with their owner

// Note hook: (chip channel, tone, patch, velocity, bend) right after OPN2::noteOn keyed the chip channel.
// The hook is also called without a key-on (evacuation to another chip channel, note ends): only a call that
// directly follows the 0x28 key-on write of the same chip channel describes a key-on (every key-on is claimed at
// once, so a later call never finds an old one).  The velocity may be 0: floor(1 * 0.8) under the soft pedal.
static void noteHook(void *, int adlchn, int note, int ins, int pressure, double)
{
    if(!g_kon || !tap || adlchn < 0 || tap->ops.empty()) return;
    TapOp &last = tap->ops.back();
    if(strcmp(last.o, "kon") != 0 || last.c != adlchn) return;
    OPNMIDIplay *p = playerOf(dev);
    int cands = 0, mch = -1, key = -1;
    for(size_t c = 0; c < p->m_midiChannels.size(); ++c)
    {
        OPNMIDIplay::MIDIchannel &ch = p->m_midiChannels[c];
        for(OPNMIDIplay::MIDIchannel::notes_iterator i = ch.activenotes.begin(); !i.is_end(); ++i)
        {
            OPNMIDIplay::MIDIchannel::NoteInfo &ni = i->value;
            if(ni.isBlank || ni.noteTone != note || (int)ni.vol != pressure || (int)ni.midiins != ins) continue;
            if(!ni.phys_find((unsigned)adlchn)) continue;
            if(cands++ == 0) { mch = (int)c; key = ni.note; }
        }
    }
    size_t chip = (size_t)adlchn / 6; unsigned port = ((unsigned)adlchn % 6) / 3, cc3 = (unsigned)adlchn % 3;
    if(chip >= 100) return;
    last.o = "own";
    last.a = mch; last.b = key;
    for(int k = 0; k < 4; ++k) last.x[k] = tap->shadow[chip][port][0x40 + cc3 + 4 * k];
    // the number of candidates travels in a second op
    tap->push("ownn", adlchn, cands);
}

static void writeOps(JW &w)
{
    w.begin_arr();
    for(size_t i = 0; i < tap->ops.size(); ++i)
    {
        const TapOp &t = tap->ops[i];
        if(!strcmp(t.o, "tl"))
        { w.begin_arr(); w.num(0); w.num(t.c); for(int k = 0; k < 4; ++k) w.num(t.x[k]); w.end_arr(); }
        else if(!strcmp(t.o, "patch"))
        { w.begin_arr(); w.num(1); w.num(t.c); w.num(t.a); w.num(t.b); w.end_arr(); }
        else if(g_kon && !strcmp(t.o, "own"))
        {
            int cands = (i + 1 < tap->ops.size() && !strcmp(tap->ops[i + 1].o, "ownn")) ? tap->ops[i + 1].a : 0;
            w.begin_arr(); w.num(2); w.num(t.c); for(int k = 0; k < 4; ++k) w.num(t.x[k]); w.num(t.a); w.num(t.b); w.num(cands); w.end_arr();
        }
        else if(g_kon && !strcmp(t.o, "kon"))
        {
            // a key-on nobody claimed (no note hook call followed it): recorded with 0 candidates
            size_t chip = (size_t)t.c / 6; unsigned port = ((unsigned)t.c % 6) / 3, cc3 = (unsigned)t.c % 3;
            w.begin_arr(); w.num(2); w.num(t.c);
            for(int k = 0; k < 4; ++k) w.num(chip < 100 ? tap->shadow[chip][port][0x40 + cc3 + 4 * k] : 0);
            w.num(-1); w.num(-1); w.num(0); w.end_arr();
        }
    }
    w.end_arr();
}

// the sounding notes: [MIDI channel, key, chip channel] per voice, in the library's own order
static void writeAlive(JW &w)
{
    OPNMIDIplay *p = playerOf(dev);
    w.key("al"); w.begin_arr();
    for(size_t c = 0; c < p->m_midiChannels.size(); ++c)
    {
        OPNMIDIplay::MIDIchannel &ch = p->m_midiChannels[c];
        for(OPNMIDIplay::MIDIchannel::notes_iterator i = ch.activenotes.begin(); !i.is_end(); ++i)
        {
            OPNMIDIplay::MIDIchannel::NoteInfo &ni = i->value;
            if(ni.isBlank) continue;
            for(unsigned k = 0; k < ni.chip_channels_count; ++k)
            { w.begin_arr(); w.num((long long)c); w.num(ni.note); w.num(ni.chip_channels[k].chip_chan); w.end_arr(); }
        }
    }
    w.end_arr();
}

static long long masterVolume(int mm, int ll)
{
    uint8_t m[8] = {0xF0, 0x7F, 0x7F, 0x04, 0x01, (uint8_t)ll, (uint8_t)mm, 0xF7};
    return opn2_rt_systemExclusive(dev, m, sizeof m);
}

int main(int argc, char **argv)
{
    if(argc < 3) { fprintf(stderr, "usage: drive_level script trace\n"); return 2; }
    std::vector<std::string> lines;
    if(!readLines(argv[1], lines)) { fprintf(stderr, "INFRA: cannot read %s\n", argv[1]); return 2; }
    g_trace = fopen(argv[2], "w");
    if(!g_trace) return 2;
    installCrashHandlers();
    for(size_t li = 0; li < lines.size(); ++li)
    {
        JV c;
        if(!jparse(lines[li], c) || c.t != JV::Obj) { fprintf(stderr, "INFRA: bad script line %zu\n", li); return 2; }
        std::string o = c.gets("o");
        g_stage = "call";
        long long r = 0;
        alarm(30);
        JW w; w.s = lines[li]; w.s.pop_back(); w.first = false;
        if(o == "init")
        {
            if(dev) { opn2_close(dev); dev = NULL; }
            delete tap; tap = new Tap();
            dev = opn2_init(44100);
            if(!dev) return 2;
            installTap(dev, tap);
            playerOf(dev)->m_synth->m_verifChanLimit = (uint32_t)c.get("lim", 0);
            opn2_setNumChips(dev, 1);
            if(installBanks(dev, c["banks"]) != 0) { fprintf(stderr, "INFRA: bank installation failed\n"); return 2; }
            opn2_setAutoArpeggio(dev, (int)c.get("arp", 0));
            g_kon = c.get("kon", 0) != 0;
            opn2_setNoteHook(dev, noteHook, NULL);
            if(c.get("ports", 1) >= 2)
            {
                // two MIDI ports, as a song with FF 09 device names has them: channels 16..31 belong to the second one
                playerOf(dev)->realTime_deviceSwitch(0, "A", 1);
                playerOf(dev)->realTime_deviceSwitch(1, "B", 1);
            }
            if(c.has("vm")) opn2_setVolumeRangeModel(dev, (int)c.get("vm"));
            if(c.has("smod")) opn2_setScaleModulators(dev, (int)c.get("smod"));
            if(c.has("frb")) opn2_setFullRangeBrightness(dev, (int)c.get("frb"));
            if(c.get("rsxx", 0))
            {
                // the smallest image the detector accepts (harness/drive_settings.cpp, song 3): byte 0 = offset of the music data
                // (93, odd), "rsxx}u" 16 bytes before it, one track without a leading delta time: key 36 for 16 ticks, end after 24
                static const uint8_t music[] = { 0x90, 36, 100, 0x10, 0x80, 36, 0, 0x08, 0xFF, 0x2F, 0x00 };
                std::vector<uint8_t> img(93, 0);
                img[0] = 93; memcpy(&img[93 - 0x10], "rsxx}u", 6);
                img.insert(img.end(), music, music + sizeof music);
                if(opn2_openData(dev, img.data(), (unsigned long)img.size()) != 0)
                { fprintf(stderr, "INFRA: the EA-MUS song was rejected: %s\n", opn2_errorInfo(dev)); return 2; }
                installTap(dev, tap);
                opn2_setNoteHook(dev, noteHook, NULL);
            }
            tap->clear();
            w.kv("vmr", opn2_getVolumeRangeModel(dev));
            w.kv("nch", (long long)playerOf(dev)->m_synth->m_numChips);
            w.kv("mm", (int)playerOf(dev)->m_synth->m_musicMode);
            w.kv("cv", playerOf(dev)->m_midiChannels[0].volume);
            w.s += "}\n"; fputs(w.s.c_str(), g_trace);
            alarm(0);
            continue;
        }
        if(!dev) { fprintf(stderr, "INFRA: command before init\n"); return 2; }
        tap->clear();
        if(o == "sweep")
        {
            std::string ax = c.gets("ax");
            int ch = (int)c.get("ch"), k = (int)c.get("k"), lo = (int)c.get("lo"), hi = (int)c.get("hi"), st = (int)c.get("st", 1);
            if(st == 0 || lo < 0 || lo > 255 || hi < 0 || hi > 255) return 2;
            w.key("pts"); w.begin_arr();
            for(int x = lo; st > 0 ? x <= hi : x >= hi; x += st)
            {
                tap->clear();
                long long rr = 0;
                if(ax == "vel") rr = opn2_rt_noteOn(dev, (OPN2_UInt8)ch, (OPN2_UInt8)k, (OPN2_UInt8)x);
                else if(ax == "vol") opn2_rt_controllerChange(dev, (OPN2_UInt8)ch, 7, (OPN2_UInt8)x);
                else if(ax == "expr") opn2_rt_controllerChange(dev, (OPN2_UInt8)ch, 11, (OPN2_UInt8)x);
                else if(ax == "bright") opn2_rt_controllerChange(dev, (OPN2_UInt8)ch, 74, (OPN2_UInt8)x);
                else if(ax == "mv") rr = masterVolume(x, (int)c.get("l", 0));
                else return 2;
                w.begin_arr(); w.num(x); w.num(rr); writeOps(w); w.end_arr();
            }
            w.end_arr();
            w.s += "}\n"; fputs(w.s.c_str(), g_trace);
            alarm(0);
            continue;
        }
        if(o == "pc") opn2_rt_patchChange(dev, (OPN2_UInt8)c.get("ch"), (OPN2_UInt8)c.get("p"));
        else if(o == "cc") opn2_rt_controllerChange(dev, (OPN2_UInt8)c.get("ch"), (OPN2_UInt8)c.get("n"), (OPN2_UInt8)c.get("v"));
        else if(o == "mv") r = masterVolume((int)c.get("v"), (int)c.get("l", 0));
        else if(o == "on") r = opn2_rt_noteOn(dev, (OPN2_UInt8)c.get("ch"), (OPN2_UInt8)c.get("k"), (OPN2_UInt8)c.get("v"));
        else if(o == "off") opn2_rt_noteOff(dev, (OPN2_UInt8)c.get("ch"), (OPN2_UInt8)c.get("k"));
        else if(o == "bend") opn2_rt_pitchBend(dev, (OPN2_UInt8)c.get("ch"), (OPN2_UInt16)c.get("v"));
        else if(o == "gen")
        {
            static short pcm[2 * 4096];
            long long fr = c.get("fr", 512), blk = c.get("blk", 512);
            if(fr < 0 || fr > 400000 || blk < 1 || blk > 4096) return 2;
            alarm(120);
            while(fr > 0)
            {
                long long n = fr > blk ? blk : fr;
                r += opn2_generate(dev, (int)(n * 2), pcm);
                fr -= n;
            }
        }
        else if(o == "set")
        {
            std::string n = c.gets("s");
            if(n == "vm") opn2_setVolumeRangeModel(dev, (int)c.get("v"));
            else if(n == "smod") opn2_setScaleModulators(dev, (int)c.get("v"));
            else if(n == "frb") opn2_setFullRangeBrightness(dev, (int)c.get("v"));
            else return 2;
        }
        else { fprintf(stderr, "INFRA: unknown command %s\n", o.c_str()); return 2; }
        alarm(0);
        w.kv("r", r);
        w.kv("vmr", opn2_getVolumeRangeModel(dev));
        w.key("w"); writeOps(w);
        if(g_kon) writeAlive(w);
        w.s += "}\n"; fputs(w.s.c_str(), g_trace);
    }
    if(dev) opn2_close(dev);
    fprintf(g_trace, "{\"o\":\"end\"}\n");
    fclose(g_trace);
    return 0;
}
