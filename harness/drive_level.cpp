// drive_level <script.ndjson> <trace.ndjson>
// C11: drives the loudness controls of the real library (NoteOn velocity, CC7, CC11, CC74, CC67,
// SysEx master volume, volume model, modulator scaling, full-range brightness) and records, for
// every call, the total-level bytes that reached the chip through the register tap (hook H1):
//   [0, chipchannel, tl40, tl44, tl48, tl4C]   one complete TL update of a chip channel
//   [1, chipchannel, instrument-id, fbalg]     an instrument (patch) upload
// A "sweep" command performs one call per value of one control and records one entry per value.
// Nothing is judged here: spec/LevelTrace.tla predicts and judges the bytes.
#include "vh.hpp"

static OPN2_MIDIPlayer *dev = NULL;
static Tap *tap = NULL;

static void writeOps(JW &w)
{
    w.begin_arr();
    for(size_t i = 0; i < tap->ops.size(); ++i)
    {
        const TapOp &t = tap->ops[i];
        if(!strcmp(t.o, "tl"))
        { w.begin_arr(); w.num(0); w.num(t.c); for(int k = 0; k < 4; ++k) w.num(t.x[k]); w.end_arr(); }
        else if(!strcmp(t.o, "patch"))
        { w.begin_arr(); w.num(1); w.num(t.c); w.num(t.a); w.num(t.b); w.end_arr(); }
    }
    w.end_arr();
}

static long long masterVolume(int mm, int ll)
{
    uint8_t m[8] = {0xF0, 0x7F, 0x7F, 0x04, 0x01, (uint8_t)ll, (uint8_t)mm, 0xF7};
    return opn2_rt_systemExclusive(dev, m, sizeof m);
}

int main(int argc, char **argv)
{
    if(argc < 3) { fprintf(stderr, "usage: drive_level script trace\n"); return 2; }
    std::vector<std::string> lines;
    if(!readLines(argv[1], lines)) { fprintf(stderr, "INFRA: cannot read %s\n", argv[1]); return 2; }
    g_trace = fopen(argv[2], "w");
    if(!g_trace) return 2;
    installCrashHandlers();
    for(size_t li = 0; li < lines.size(); ++li)
    {
        JV c;
        if(!jparse(lines[li], c) || c.t != JV::Obj) { fprintf(stderr, "INFRA: bad script line %zu\n", li); return 2; }
        std::string o = c.gets("o");
        g_stage = "call";
        long long r = 0;
        alarm(30);
        JW w; w.s = lines[li]; w.s.pop_back(); w.first = false;
        if(o == "init")
        {
            if(dev) { opn2_close(dev); dev = NULL; }
            delete tap; tap = new Tap();
            dev = opn2_init(44100);
            if(!dev) return 2;
            installTap(dev, tap);
            playerOf(dev)->m_synth->m_verifChanLimit = (uint32_t)c.get("lim", 0);
            opn2_setNumChips(dev, 1);
            if(installBanks(dev, c["banks"]) != 0) { fprintf(stderr, "INFRA: bank installation failed\n"); return 2; }
            opn2_setAutoArpeggio(dev, 0);
            if(c.get("ports", 1) >= 2)
            {
                // two MIDI ports, as a song with FF 09 device names has them: channels 16..31 belong to the second one
                playerOf(dev)->realTime_deviceSwitch(0, "A", 1);
                playerOf(dev)->realTime_deviceSwitch(1, "B", 1);
            }
            if(c.has("vm")) opn2_setVolumeRangeModel(dev, (int)c.get("vm"));
            if(c.has("smod")) opn2_setScaleModulators(dev, (int)c.get("smod"));
            if(c.has("frb")) opn2_setFullRangeBrightness(dev, (int)c.get("frb"));
            tap->clear();
            w.kv("vmr", opn2_getVolumeRangeModel(dev));
            w.s += "}\n"; fputs(w.s.c_str(), g_trace);
            alarm(0);
            continue;
        }
        if(!dev) { fprintf(stderr, "INFRA: command before init\n"); return 2; }
        tap->clear();
        if(o == "sweep")
        {
            std::string ax = c.gets("ax");
            int ch = (int)c.get("ch"), k = (int)c.get("k"), lo = (int)c.get("lo"), hi = (int)c.get("hi"), st = (int)c.get("st", 1);
            if(st == 0 || lo < 0 || lo > 255 || hi < 0 || hi > 255) return 2;
            w.key("pts"); w.begin_arr();
            for(int x = lo; st > 0 ? x <= hi : x >= hi; x += st)
            {
                tap->clear();
                long long rr = 0;
                if(ax == "vel") rr = opn2_rt_noteOn(dev, (OPN2_UInt8)ch, (OPN2_UInt8)k, (OPN2_UInt8)x);
                else if(ax == "vol") opn2_rt_controllerChange(dev, (OPN2_UInt8)ch, 7, (OPN2_UInt8)x);
                else if(ax == "expr") opn2_rt_controllerChange(dev, (OPN2_UInt8)ch, 11, (OPN2_UInt8)x);
                else if(ax == "bright") opn2_rt_controllerChange(dev, (OPN2_UInt8)ch, 74, (OPN2_UInt8)x);
                else if(ax == "mv") rr = masterVolume(x, (int)c.get("l", 0));
                else return 2;
                w.begin_arr(); w.num(x); w.num(rr); writeOps(w); w.end_arr();
            }
            w.end_arr();
            w.s += "}\n"; fputs(w.s.c_str(), g_trace);
            alarm(0);
            continue;
        }
        if(o == "pc") opn2_rt_patchChange(dev, (OPN2_UInt8)c.get("ch"), (OPN2_UInt8)c.get("p"));
        else if(o == "cc") opn2_rt_controllerChange(dev, (OPN2_UInt8)c.get("ch"), (OPN2_UInt8)c.get("n"), (OPN2_UInt8)c.get("v"));
        else if(o == "mv") r = masterVolume((int)c.get("v"), (int)c.get("l", 0));
        else if(o == "on") r = opn2_rt_noteOn(dev, (OPN2_UInt8)c.get("ch"), (OPN2_UInt8)c.get("k"), (OPN2_UInt8)c.get("v"));
        else if(o == "off") opn2_rt_noteOff(dev, (OPN2_UInt8)c.get("ch"), (OPN2_UInt8)c.get("k"));
        else if(o == "set")
        {
            std::string n = c.gets("s");
            if(n == "vm") opn2_setVolumeRangeModel(dev, (int)c.get("v"));
            else if(n == "smod") opn2_setScaleModulators(dev, (int)c.get("v"));
            else if(n == "frb") opn2_setFullRangeBrightness(dev, (int)c.get("v"));
            else return 2;
        }
        else { fprintf(stderr, "INFRA: unknown command %s\n", o.c_str()); return 2; }
        alarm(0);
        w.kv("r", r);
        w.kv("vmr", opn2_getVolumeRangeModel(dev));
        w.key("w"); writeOps(w);
        w.s += "}\n"; fputs(w.s.c_str(), g_trace);
    }
    if(dev) opn2_close(dev);
    fprintf(g_trace, "{\"o\":\"end\"}\n");
    fclose(g_trace);
    return 0;
}
