// drive_audio <script.ndjson> <trace.ndjson>
// C13.  Replays one call history on K+1 identically configured real instances at once: every
// event (note on/off, controller, program) is sent to all of them, every audio call is made on
// all of them with the same request size but with a different sample format / container /
// sample offset / left-right layout per instance.  Instance 0 always renders F64 (from which the
// int32 mix x is recovered exactly: x = round(v * 32767)).  Each instance renders into its own
// freshly allocated, poison-filled buffer with a guard zone on both sides; after the call the
// harness records the return value, the set of bytes whose content changed (as strided runs),
// the number of bytes inside the reported sample slots that still hold the poison value, and
// (x, stored value) pairs: all of them for requests up to `fl` frames, otherwise edges, period
// boundaries, clipping samples, a pseudo-random sample and every slot containing an unchanged
// byte.  No expected value is computed here; spec/AudioTrace.tla judges the records.
#include "vh.hpp"
#include <cmath>

static const int GUARD = 64;
static const int MAXK = 16;
static const int MAXRUNS = 3000;

struct Fmt { int t, c, so, lb, rb, sz, pz, a; };

static OPN2_MIDIPlayer *devs[MAXK];
static int ndev = 0;
static Tap *tap = NULL;

static inline uint8_t poisonAt(size_t b, int seed)
{ return (uint8_t)(0xA5u ^ (unsigned)(b * 37u + (unsigned)seed * 11u + (b >> 8) * 3u)); }

// int32 mix recovered from the F64 rendering; false when the slot holds no finite in-range sample (e.g. still poison)
static bool refX(double v, long long &x)
{
    double s = v * 32767.0;
    if(!(s > -1.0e9 && s < 1.0e9)) { x = 0; return false; }
    x = llround(s);
    return true;
}

static void putVlq(std::vector<uint8_t> &o, unsigned v)
{
    uint8_t tmp[5]; int n = 0;
    tmp[n++] = (uint8_t)(v & 0x7F);
    while((v >>= 7) != 0) tmp[n++] = (uint8_t)((v & 0x7F) | 0x80);
    while(n > 0) o.push_back(tmp[--n]);
}

// {"div":96,"tempo":500000,"ev":[[dt,status,d1,d2],...],"tail":dt}
static std::vector<uint8_t> buildSmf(const JV &s)
{
    std::vector<uint8_t> trk;
    unsigned tempo = (unsigned)s.get("tempo", 500000);
    putVlq(trk, 0); trk.push_back(0xFF); trk.push_back(0x51); trk.push_back(3);
    trk.push_back((uint8_t)(tempo >> 16)); trk.push_back((uint8_t)(tempo >> 8)); trk.push_back((uint8_t)tempo);
    const JV &ev = s["ev"];
    for(size_t i = 0; i < ev.a.size(); ++i)
    {
        const JV &e = ev.a[i];
        putVlq(trk, (unsigned)e.a[0].num());
        uint8_t st = (uint8_t)e.a[1].num();
        trk.push_back(st); trk.push_back((uint8_t)(e.a[2].num() & 0x7F));
        if((st & 0xF0) != 0xC0 && (st & 0xF0) != 0xD0) trk.push_back((uint8_t)(e.a[3].num() & 0x7F));
    }
    putVlq(trk, (unsigned)s.get("tail", 0)); trk.push_back(0xFF); trk.push_back(0x2F); trk.push_back(0);
    std::vector<uint8_t> f;
    const char *h = "MThd"; f.insert(f.end(), h, h + 4);
    unsigned div = (unsigned)s.get("div", 96);
    const uint8_t hd[10] = {0, 0, 0, 6, 0, 0, 0, 1, (uint8_t)(div >> 8), (uint8_t)div};
    f.insert(f.end(), hd, hd + 10);
    const char *t = "MTrk"; f.insert(f.end(), t, t + 4);
    size_t n = trk.size();
    f.push_back((uint8_t)(n >> 24)); f.push_back((uint8_t)(n >> 16)); f.push_back((uint8_t)(n >> 8)); f.push_back((uint8_t)n);
    f.insert(f.end(), trk.begin(), trk.end());
    return f;
}

static void closeAll()
{
    for(int k = 0; k < ndev; ++k) if(devs[k]) { opn2_close(devs[k]); devs[k] = NULL; }
    ndev = 0;
}

static bool readFmt(const JV &j, Fmt &f)
{
    f.t = (int)j.get("t"); f.c = (int)j.get("c"); f.so = (int)j.get("so"); f.lb = (int)j.get("lb"); f.rb = (int)j.get("rb");
    f.sz = (int)j.get("sz"); f.pz = (int)j.get("pz"); f.a = (int)j.get("a", 0);
    if(f.c < 1 || f.c > 8 || f.so < 0 || f.lb < 0 || f.rb < 0 || f.sz < 0 || f.sz > (1 << 26)) return false;
    return true;
}

int main(int argc, char **argv)
{
    if(argc < 3) { fprintf(stderr, "usage: drive_audio script trace\n"); return 2; }
    std::vector<std::string> lines;
    if(!readLines(argv[1], lines)) { fprintf(stderr, "INFRA: cannot read %s\n", argv[1]); return 2; }
    g_trace = fopen(argv[2], "w");
    if(!g_trace) return 2;
    installCrashHandlers();
    long rate = 44100;

    for(size_t li = 0; li < lines.size(); ++li)
    {
        JV c;
        if(!jparse(lines[li], c) || c.t != JV::Obj) { fprintf(stderr, "INFRA: bad script line %zu\n", li); return 2; }
        std::string o = c.gets("o");
        g_stage = "call";
        alarm(120);
        JW w;
        w.s = lines[li];
        while(!w.s.empty() && (w.s.back() == '\n' || w.s.back() == ' ')) w.s.pop_back();
        w.s.pop_back();
        w.first = false;

        if(o == "init")
        {
            closeAll();
            delete tap; tap = new Tap();
            rate = (long)c.get("rate", 44100);
            int K = (int)c.get("K", 1);
            if(K < 1 || K > MAXK) { fprintf(stderr, "INFRA: bad K\n"); return 2; }
            std::vector<uint8_t> smf;
            if(c.has("song")) smf = buildSmf(c["song"]);
            long long emuok = 1, loadok = 1, chips = 0;
            for(int k = 0; k < K; ++k)
            {
                OPN2_MIDIPlayer *d = opn2_init(rate);
                if(!d) { fprintf(stderr, "INFRA: opn2_init failed\n"); return 2; }
                devs[k] = d; ndev = k + 1;
                if(c.has("emu") && opn2_switchEmulator(d, (int)c.get("emu")) != 0) emuok = 0;
                opn2_setNumChips(d, (int)c.get("chips", 1));
                if(installBanks(d, c["banks"]) != 0) { fprintf(stderr, "INFRA: bank install failed\n"); return 2; }
                if(c.has("pcm")) opn2_setRunAtPcmRate(d, (int)c.get("pcm"));
                if(c.has("vm")) opn2_setVolumeRangeModel(d, (int)c.get("vm"));
                if(c.has("softpan")) opn2_setSoftPanEnabled(d, (int)c.get("softpan"));
                opn2_setLoopEnabled(d, (int)c.get("loop", 0));
                if(!smf.empty() && opn2_openData(d, smf.data(), (unsigned long)smf.size()) != 0) loadok = 0;
                chips = opn2_getNumChipsObtained(d);
            }
            installTap(devs[0], tap);
            tap->clear();
            w.kv("emuok", emuok); w.kv("loadok", loadok); w.kv("nchips", chips);
        }
        else if(ndev == 0) { fprintf(stderr, "INFRA: command before init\n"); return 2; }
        else if(o == "on") { for(int k = 0; k < ndev; ++k) opn2_rt_noteOn(devs[k], (OPN2_UInt8)c.get("ch"), (OPN2_UInt8)c.get("k"), (OPN2_UInt8)c.get("v")); }
        else if(o == "off") { for(int k = 0; k < ndev; ++k) opn2_rt_noteOff(devs[k], (OPN2_UInt8)c.get("ch"), (OPN2_UInt8)c.get("k")); }
        else if(o == "cc") { for(int k = 0; k < ndev; ++k) opn2_rt_controllerChange(devs[k], (OPN2_UInt8)c.get("ch"), (OPN2_UInt8)c.get("n"), (OPN2_UInt8)c.get("v")); }
        else if(o == "pc") { for(int k = 0; k < ndev; ++k) opn2_rt_patchChange(devs[k], (OPN2_UInt8)c.get("ch"), (OPN2_UInt8)c.get("p")); }
        else if(o == "panic") { for(int k = 0; k < ndev; ++k) opn2_panic(devs[k]); }
        else if(o == "gen" || o == "play")
        {
            const bool isPlay = (o == "play");
            const long long n = c.get("n");
            const JV &fl = c["f"];
            const long long fullFrames = c.get("fl", 600);   // every slot is recorded up to this many frames
            const long long clipCap = c.get("cl", 150);           // clipping frames recorded in sampled mode (then one in 97)
            const unsigned sampleMod = (unsigned)c.get("sp", 256); // above: one frame in sampleMod (plus edges, boundaries, clipping, coincidences)
            if((int)fl.a.size() != ndev) { fprintf(stderr, "INFRA: format list size %zu != K %d\n", fl.a.size(), ndev); return 2; }
            std::vector<uint8_t> refbuf;     // copy of instance 0's payload (F64 interleaved)
            long long refFrames = 0;
            w.kv("g", GUARD);
            w.key("v"); w.begin_arr();
            tap->clear();
            for(int k = 0; k < ndev; ++k)
            {
                Fmt f;
                if(!readFmt(fl.a[k], f)) { fprintf(stderr, "INFRA: bad format spec\n"); return 2; }
                if(k == 0 && !(f.t == OPNMIDI_SampleType_F64 && f.c == 8 && f.so == 16 && f.lb == 0 && f.rb == 8 && f.a == 0))
                { fprintf(stderr, "INFRA: instance 0 must render F64 interleaved\n"); return 2; }
                if(f.a && !(f.t == OPNMIDI_SampleType_S16 && f.c == 2 && f.so == 4 && f.rb == f.lb + 2))
                { fprintf(stderr, "INFRA: the short* API implies S16 interleaved\n"); return 2; }
                const size_t total = (size_t)GUARD + (size_t)f.sz + (size_t)GUARD;
                uint8_t *mem = (uint8_t *)malloc(total);
                if(!mem) return 2;
                for(size_t b = 0; b < total; ++b) mem[b] = poisonAt(b, f.pz);
                uint8_t *pay = mem + GUARD;
                OPNMIDI_AudioFormat af; af.type = (OPNMIDI_SampleType)f.t; af.containerSize = (unsigned)f.c; af.sampleOffset = (unsigned)f.so;
                g_stage = isPlay ? "play" : "generate";
                long long r;
                if(f.a) r = isPlay ? opn2_play(devs[k], (int)n, (short *)(pay + f.lb)) : opn2_generate(devs[k], (int)n, (short *)(pay + f.lb));
                else r = isPlay ? opn2_playFormat(devs[k], (int)n, pay + f.lb, pay + f.rb, &af)
                                : opn2_generateFormat(devs[k], (int)n, pay + f.lb, pay + f.rb, &af);
                g_stage = "observe";
                long long ae = opn2_atEnd(devs[k]);
                // changed bytes -> runs -> strided runs
                std::vector<uint8_t> chg(total, 0);
                long long nch = 0;
                for(size_t b = 0; b < total; ++b) if(mem[b] != poisonAt(b, f.pz)) { chg[b] = 1; ++nch; }
                std::vector<std::pair<long long, long long> > runs;
                for(size_t b = 0; b < total;)
                {
                    if(!chg[b]) { ++b; continue; }
                    size_t e = b; while(e < total && chg[e]) ++e;
                    runs.push_back(std::make_pair((long long)b, (long long)(e - b)));
                    b = e;
                }
                struct SR { long long s, l, st, n; };
                std::vector<SR> sr;
                for(size_t i = 0; i < runs.size();)
                {
                    SR q; q.s = runs[i].first; q.l = runs[i].second; q.st = 0; q.n = 1;
                    size_t j = i + 1;
                    if(j < runs.size() && runs[j].second == q.l)
                    {
                        q.st = runs[j].first - runs[i].first;
                        while(j < runs.size() && runs[j].second == q.l && runs[j].first - runs[j - 1].first == q.st) { ++q.n; ++j; }
                    }
                    sr.push_back(q);
                    i = j;
                }
                // slots: frames the call reports, bounded by what fits the payload (a wrong return value must not make the harness read outside)
                long long nf = r > 0 ? r / 2 : 0;
                long long fit = 0;
                if(f.so > 0)
                {
                    long long hi = f.lb > f.rb ? f.lb : f.rb;
                    if(f.sz >= hi + f.c) fit = (f.sz - hi - f.c) / f.so + 1;
                }
                else if(f.sz >= (f.lb > f.rb ? f.lb : f.rb) + f.c) fit = nf;
                if(nf > fit) nf = fit;
                long long un = 0;
                std::vector<uint8_t> coin((size_t)nf, 0);
                for(long long i = 0; i < nf; ++i)
                    for(int ch = 0; ch < 2; ++ch)
                    {
                        size_t at = (size_t)GUARD + (size_t)(ch ? f.rb : f.lb) + (size_t)i * (size_t)f.so;
                        for(int d = 0; d < f.c; ++d) if(!chg[at + d]) { ++un; coin[(size_t)i] = 1; }
                    }
                if(k == 0) { refbuf.assign(pay, pay + f.sz); refFrames = nf; }
                // pairs
                long long m = nf < refFrames ? nf : refFrames;
                std::vector<uint8_t> pick((size_t)m, 0);
                const double *rv = (const double *)refbuf.data();
                if(m <= fullFrames) for(long long i = 0; i < m; ++i) pick[(size_t)i] = 1;
                else
                {
                    long long clipSeen = 0, coinSeen = 0;
                    unsigned lcg = 12345u + (unsigned)n * 2654435761u;
                    for(long long i = 0; i < m; ++i)
                    {
                        bool p = i < 8 || i >= m - 8 || (i % 512) <= 1 || (i % 512) == 511;
                        long long xl, xr; refX(rv[2 * i], xl); refX(rv[2 * i + 1], xr);
                        if(xl > 32767 || xl < -32768 || xr > 32767 || xr < -32768) { ++clipSeen; if(clipSeen <= clipCap || clipSeen % 97 == 0) p = true; }
                        if(coin[(size_t)i]) { ++coinSeen; if(coinSeen <= 40) p = true; }
                        lcg = lcg * 1664525u + 1013904223u;
                        if(sampleMod && (lcg >> 16) % sampleMod == 0) p = true;
                        pick[(size_t)i] = p ? 1 : 0;
                    }
                }
                w.begin_obj();
                w.kv("r", r); w.kv("ae", ae); w.kv("nch", nch); w.kv("un", un); w.kv("tot", (long long)total);
                w.kv("tr", sr.size() > (size_t)MAXRUNS ? 1 : 0);
                w.key("ch"); w.begin_arr();
                for(size_t i = 0; i < sr.size() && i < (size_t)MAXRUNS; ++i)
                { w.begin_arr(); w.num(sr[i].s); w.num(sr[i].l); w.num(sr[i].st); w.num(sr[i].n); w.end_arr(); }
                w.end_arr();
                w.key("p"); w.begin_arr();
                long long npairs = 0, xbad = 0;
                const bool asF32 = (f.t == OPNMIDI_SampleType_F32 && f.c == 4), asF64 = (f.t == OPNMIDI_SampleType_F64 && f.c == 8);
                for(long long i = 0; i < m; ++i)
                {
                    if(!pick[(size_t)i] || npairs >= 4000) continue;
                    for(int ch = 0; ch < 2; ++ch)
                    {
                        const uint8_t *at = pay + (ch ? f.rb : f.lb) + (size_t)i * (size_t)f.so;
                        long long x; if(!refX(rv[2 * i + ch], x)) ++xbad;
                        long long lo = 0, hi = 0;
                        if(asF32 || asF64)
                        {
                            double v; if(asF32) { float t; memcpy(&t, at, 4); v = t; } else memcpy(&v, at, 8);
                            double sc = ldexp(v, 21);
                            if(!(sc > -2.0e9 && sc < 2.0e9)) { lo = 2000000000; hi = 1; }   // NaN / out of range: reported as such
                            else lo = llround(sc);
                        }
                        else
                        {
                            unsigned long long u = 0;
                            for(int d = 0; d < f.c && d < 4; ++d) u |= (unsigned long long)at[d] << (8 * d);
                            lo = (long long)(u & 0xFFFFu); hi = (long long)(u >> 16);
                        }
                        w.begin_arr(); w.num(i); w.num(ch); w.num(tlcint(x)); w.num(lo); w.num(hi); w.end_arr();
                        ++npairs;
                    }
                }
                w.end_arr();
                w.kv("xb", xbad);
                w.end_obj();
                free(mem);
            }
            w.end_arr();
            w.kv("gf", tap->frames); tap->frames = 0;
            w.key("pf"); w.begin_arr(); for(size_t q = 0; q < tap->pf.size(); ++q) w.num(tap->pf[q]); w.end_arr();
        }
        else { fprintf(stderr, "INFRA: unknown command %s\n", o.c_str()); return 2; }
        alarm(0);
        tap->clear();
        w.s += "}\n";
        fputs(w.s.c_str(), g_trace);
    }
    g_stage = "close";
    closeAll();
    fprintf(g_trace, "{\"o\":\"end\"}\n");
    fclose(g_trace);
    return 0;
}
