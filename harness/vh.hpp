// Shared conformance-harness code: friend access to the private state (hook H2), the
// projection "live object -> abstract state" used by every Synth-family trace, the
// register tap (hook H1) turned into abstract chip operations, and bank construction
// from abstract layouts.
#pragma once
#include "opnmidi_midiplay.hpp"
#include "opnmidi_opn2.hpp"
#include "opnmidi_private.hpp"
#include "chips/opn_chip_base.h"
#include "vjson.hpp"
#include <unistd.h>
#include <signal.h>
#include <exception>
#include <fstream>
#include <iostream>

struct OpnVerifAccess
{
    static std::vector<OPNMIDIplay::OpnChannel> &chipChannels(OPNMIDIplay *p) { return p->m_chipChannels; }
    static std::vector<OpnTimbre> &insCache(OPN2 *s) { return s->m_insCache; }
    static std::vector<uint8_t> &regLFOSens(OPN2 *s) { return s->m_regLFOSens; }
    static size_t &arpCounter(OPNMIDIplay *p) { return p->m_arpeggioCounter; }
    static std::map<std::string, size_t> &midiDevices(OPNMIDIplay *p) { return p->m_midiDevices; }
};

static inline OPNMIDIplay *playerOf(OPN2_MIDIPlayer *d) { return reinterpret_cast<OPNMIDIplay *>(d->opn2_midiPlayer); }

// ------------------------------------------------------------------ instruments
// An abstract instrument id (0..1023) is encoded in the decay-2 bytes of operators 1 and 2 so
// that it can be recovered from a timbre copy and from the register stream.
struct InsSpec
{
    int id, kon, koff, drum, noff, flags, fbalg, veloff, lfosens;
    int tl[4], mul[4];
    int ops[4][7]; bool hasOps;
    InsSpec() : id(1), kon(500), koff(300), drum(0), noff(0), flags(0), fbalg(0x07), veloff(0), lfosens(0)
    { for(int i = 0; i < 4; ++i) { tl[i] = (i == 3) ? 0 : 127; mul[i] = 1; } tl[0] = 20; tl[1] = 30; tl[2] = 40; tl[3] = 10; hasOps = false; memset(ops, 0, sizeof ops); }
};

static inline InsSpec insFromJson(const JV &j)
{
    InsSpec s;
    s.id = (int)j.get("id", 1); s.kon = (int)j.get("kon", 500); s.koff = (int)j.get("koff", 300);
    s.drum = (int)j.get("drum", 0); s.noff = (int)j.get("noff", 0); s.flags = (int)j.get("flags", 0);
    s.fbalg = (int)j.get("fbalg", 7); s.veloff = (int)j.get("veloff", 0); s.lfosens = (int)j.get("lfosens", 0);
    if(j.has("tl")) for(int i = 0; i < 4; ++i) s.tl[i] = (int)j["tl"][i].num();
    if(j.has("mul")) for(int i = 0; i < 4; ++i) s.mul[i] = (int)j["mul"][i].num();
    if(j.has("ops")) { s.hasOps = true; for(int i = 0; i < 4; ++i) for(int k = 0; k < 7; ++k) s.ops[i][k] = (int)j["ops"].a[(size_t)i].a[(size_t)k].num(); }
    return s;
}

static inline void fillInstrument(OPN2_Instrument &o, const InsSpec &s)
{
    memset(&o, 0, sizeof(o));
    o.version = 0;
    o.note_offset = (OPN2_SInt16)s.noff;
    o.midi_velocity_offset = (OPN2_SInt8)s.veloff;
    o.percussion_key_number = (OPN2_UInt8)s.drum;
    o.inst_flags = (OPN2_UInt8)s.flags;
    o.fbalg = (OPN2_UInt8)s.fbalg;
    o.lfosens = (OPN2_UInt8)s.lfosens;
    for(int op = 0; op < 4; ++op)
    {
        o.operators[op].dtfm_30 = (OPN2_UInt8)s.mul[op];
        o.operators[op].level_40 = (OPN2_UInt8)s.tl[op];
        o.operators[op].rsatk_50 = 0x1F;
        o.operators[op].amdecay1_60 = 0x00;
        o.operators[op].decay2_70 = 0x00;
        o.operators[op].susrel_80 = 0x0F;
        o.operators[op].ssgeg_90 = 0x00;
    }
    o.operators[1].decay2_70 = (OPN2_UInt8)(s.id & 0x1F);
    o.operators[2].decay2_70 = (OPN2_UInt8)((s.id >> 5) & 0x1F);
    // raw operator bytes (extreme-value instruments of C02): no id is encoded then
    if(s.hasOps)
        for(int op = 0; op < 4; ++op)
        {
            OPN2_UInt8 *b = (OPN2_UInt8 *)&o.operators[op];
            for(int k = 0; k < 7; ++k) b[k] = (OPN2_UInt8)s.ops[op][k];
        }
    o.delay_on_ms = (OPN2_UInt16)s.kon;
    o.delay_off_ms = (OPN2_UInt16)s.koff;
}

static inline int timbreId(const OpnTimbre &t) { return (t.OPS[1].data[4] & 0x1F) | ((t.OPS[2].data[4] & 0x1F) << 5); }

// layout: [{"p":0|1,"msb":m,"lsb":l,"ins":[{"i":index, ...InsSpec fields}]}]
static inline int installBanks(OPN2_MIDIPlayer *dev, const JV &layout)
{
    for(size_t b = 0; b < layout.a.size(); ++b)
    {
        const JV &bj = layout.a[b];
        OPN2_BankId id; id.percussive = (OPN2_UInt8)bj.get("p"); id.msb = (OPN2_UInt8)bj.get("msb"); id.lsb = (OPN2_UInt8)bj.get("lsb");
        OPN2_Bank bank;
        if(opn2_getBank(dev, &id, OPNMIDI_Bank_Create, &bank) != 0) return -1;
        const JV &il = bj["ins"];
        for(size_t k = 0; k < il.a.size(); ++k)
        {
            OPN2_Instrument ins; fillInstrument(ins, insFromJson(il.a[k]));
            if(opn2_setInstrument(dev, &bank, (unsigned)il.a[k].get("i"), &ins) != 0) return -1;
        }
    }
    return 0;
}

// ------------------------------------------------------------------ register tap -> abstract ops
struct TapOp { const char *o; int c, a, b; int x[4]; };

struct Tap
{
    std::vector<TapOp> ops;
    uint8_t shadow[100][2][256];
    bool keyed[600];
    int tlcount[600];
    int raw;          // number of raw writes since last clear
    long long frames; // frames generated since creation
    long long periods;
    int maxPeriod;
    std::vector<int> pf; // frames of each period since last clear
    bool logRaw;
    std::vector<unsigned> rawlog;
    Tap() : raw(0), frames(0), periods(0), maxPeriod(0), logRaw(false) { memset(shadow, 0, sizeof shadow); memset(keyed, 0, sizeof keyed); memset(tlcount, 0, sizeof tlcount); }
    void push(const char *o, int c, int a = 0, int b = 0, int x0 = 0, int x1 = 0, int x2 = 0, int x3 = 0)
    { TapOp t; t.o = o; t.c = c; t.a = a; t.b = b; t.x[0] = x0; t.x[1] = x1; t.x[2] = x2; t.x[3] = x3; ops.push_back(t); }
    static void cb(void *ud, int kind, size_t chip, unsigned a, unsigned b, unsigned c) { ((Tap *)ud)->on(kind, chip, a, b, c); }
    void on(int kind, size_t chip, unsigned a, unsigned b, unsigned c)
    {
        if(kind == 'G') { frames += a; ++periods; if((int)a > maxPeriod) maxPeriod = (int)a; if(pf.size() < 100) pf.push_back((int)a); return; }
        ++raw;
        if(kind == 'P') { push("span", (int)(chip * 6 + a), (int)b); return; }
        unsigned port = a & 1, reg = b & 0xFF, val = c & 0xFF;
        if(logRaw) rawlog.push_back((unsigned)((chip << 24) | (port << 16) | (reg << 8) | val));
        if(chip < 100) shadow[chip][port][reg] = (uint8_t)val;
        if(reg == 0x28)
        {
            static const int cmap[8] = {0, 1, 2, -1, 3, 4, 5, -1};
            int ch4 = cmap[val & 7];
            if(ch4 < 0) { push("raw", (int)chip, (int)reg, (int)val); return; }
            int cc = (int)chip * 6 + ch4;
            bool on = (val & 0xF0) != 0;
            if(cc < 600) keyed[cc] = on;
            push(on ? "kon" : "koff", cc, (int)(val >> 4));
            return;
        }
        if(reg >= 0x30 && reg < 0xA0)
        {
            unsigned cc3 = reg & 3; if(cc3 == 3) { push("raw", (int)chip, (int)reg, (int)val); return; }
            int cc = (int)chip * 6 + (int)port * 3 + (int)cc3;
            unsigned op = (reg >> 2) & 3;
            if((reg & 0xF0) == 0x40 && op == 3)
            {
                unsigned base = 0x40 + cc3;
                push("tl", cc, 0, 0, shadow[chip][port][base], shadow[chip][port][base + 4], shadow[chip][port][base + 8], shadow[chip][port][base + 12]);
            }
            return;
        }
        if(reg >= 0xA0 && reg <= 0xA2)
        {
            int cc = (int)chip * 6 + (int)port * 3 + (int)(reg - 0xA0);
            unsigned hi = shadow[chip][port][reg + 4];
            unsigned ft = ((hi << 8) | val);
            unsigned b30 = 0x30 + (reg - 0xA0);
            push("freq", cc, (int)((ft >> 11) & 7), (int)(ft & 0x7FF), shadow[chip][port][b30] & 0x0F, shadow[chip][port][b30 + 4] & 0x0F,
                 shadow[chip][port][b30 + 8] & 0x0F, shadow[chip][port][b30 + 12] & 0x0F);
            return;
        }
        if(reg >= 0xA4 && reg <= 0xA6) return;
        if(reg >= 0xB0 && reg <= 0xB2)
        {
            unsigned cc3 = reg - 0xB0;
            int cc = (int)chip * 6 + (int)port * 3 + (int)cc3;
            int id = (shadow[chip][port][0x74 + cc3] & 0x1F) | ((shadow[chip][port][0x78 + cc3] & 0x1F) << 5);
            push("patch", cc, id, (int)val, shadow[chip][port][0x40 + cc3], shadow[chip][port][0x44 + cc3], shadow[chip][port][0x48 + cc3], shadow[chip][port][0x4C + cc3]);
            return;
        }
        if(reg >= 0xB4 && reg <= 0xB6)
        {
            int cc = (int)chip * 6 + (int)port * 3 + (int)(reg - 0xB4);
            push("pan", cc, (int)(val >> 6), (int)(val & 0x3F));
            return;
        }
        push("raw", (int)chip, (int)reg, (int)val);
    }
    void clear() { ops.clear(); raw = 0; pf.clear(); }
    void write(JW &w, size_t maxops = 400) const
    {
        w.begin_arr();
        size_t n = ops.size() > maxops ? maxops : ops.size();
        for(size_t i = 0; i < n; ++i)
        {
            const TapOp &t = ops[i];
            w.begin_obj(); w.ks("o", t.o); w.kv("c", t.c); w.kv("a", t.a); w.kv("b", t.b);
            w.key("x"); w.begin_arr(); for(int k = 0; k < 4; ++k) w.num(t.x[k]); w.end_arr();
            w.end_obj();
        }
        w.end_arr();
    }
};

static inline void installTap(OPN2_MIDIPlayer *dev, Tap *tap)
{
    OPNMIDIplay *p = playerOf(dev);
    p->m_synth->m_verifTap = &Tap::cb;
    p->m_synth->m_verifTapUd = tap;
}

// ------------------------------------------------------------------ projection
// Instrument identity of a note: (bank key, index) if `ains` points into a currently loaded bank.
static inline void insIdentity(OPNMIDIplay *p, const OpnInstMeta *ains, long long &bank, long long &idx)
{
    bank = -1; idx = -1;
    if(!ains) { bank = -2; return; }                           // blank dummy note
    if(ains == &OPN2::m_emptyInstrument) { bank = -3; return; }
    OPN2::BankMap &m = p->m_synth->m_insBanks;
    for(OPN2::BankMap::iterator it = m.begin(); it != m.end(); ++it)
    {
        const OpnInstMeta *b = &it->second.ins[0];
        if(ains >= b && ains < b + 128) { bank = (long long)it->first; idx = ains - b; return; }
    }
}

static inline long long msTrunc(int64_t us) { return (long long)(us / 1000); }

struct SnapOpts { std::vector<int> mchans; bool full; SnapOpts() : full(false) {} };

static inline void writeMidiChannel(JW &w, OPNMIDIplay *p, size_t c)
{
    OPNMIDIplay::MIDIchannel &ch = p->m_midiChannels[c];
    w.begin_obj();
    w.kv("c", (long long)c);
    w.kv("patch", ch.patch); w.kv("msb", ch.bank_msb); w.kv("lsb", ch.bank_lsb);
    w.kv("vol", ch.volume); w.kv("expr", ch.expression); w.kv("pan", ch.panning);
    w.kv("vib", ch.vibrato); w.kv("at", ch.aftertouch); w.kv("porta", ch.portamento);
    w.kb("sus", ch.sustain); w.kb("soft", ch.softPedal); w.kb("portaEn", ch.portamentoEnable);
    w.kv("psrc", ch.portamentoSource);
    w.kv("bend", ch.bend); w.kv("bsm", ch.bendsense_msb); w.kv("bsl", ch.bendsense_lsb);
    w.kv("lrpn", ch.lastlrpn); w.kv("mrpn", ch.lastmrpn); w.kb("nrpn", ch.nrpn);
    w.kv("bright", ch.brightness); w.kb("xgp", ch.is_xg_percussion);
    w.kv("glc", ch.gliding_note_count); w.kv("exc", ch.extended_note_count);
    w.key("notes"); w.begin_arr();
    for(OPNMIDIplay::MIDIchannel::notes_iterator i = ch.activenotes.begin(); !i.is_end(); ++i)
    {
        OPNMIDIplay::MIDIchannel::NoteInfo &ni = i->value;
        long long bank, idx; insIdentity(p, ni.ains, bank, idx);
        w.begin_obj();
        w.kv("n", ni.note); w.kv("v", ni.isBlank ? 0 : ni.vol); w.kv("tone", ni.isBlank ? 0 : ni.noteTone);
        w.kv("ttlus", (ni.isBlank || !(ni.ttl > 0)) ? 0 : (long long)(ni.ttl * 1e9 + 0.5));
        w.kb("gl", !ni.isBlank && ni.glideRate != HUGE_VAL); w.kb("ttl", !ni.isBlank && ni.ttl > 0); w.kb("ext", ni.isOnExtendedLifeTime);
        w.kb("perc", !ni.isBlank && ni.isPercussion); w.kb("blank", ni.isBlank);
        w.kv("ib", bank); w.kv("ii", idx); w.kv("mi", ni.isBlank ? 0 : (long long)ni.midiins);
        w.key("ph"); w.begin_arr();
        for(unsigned k = 0; k < ni.chip_channels_count; ++k)
        {
            w.begin_obj(); w.kv("c", ni.chip_channels[k].chip_chan); w.kv("id", timbreId(ni.chip_channels[k].ains)); w.end_obj();
        }
        w.end_arr();
        w.end_obj();
    }
    w.end_arr();
    w.end_obj();
}

static inline void writeSnapshot(JW &w, OPN2_MIDIPlayer *dev, const Tap &tap, const SnapOpts &o)
{
    OPNMIDIplay *p = playerOf(dev);
    OPN2 &synth = *p->m_synth;
    std::vector<OPNMIDIplay::OpnChannel> &cc = OpnVerifAccess::chipChannels(p);
    w.begin_obj();
    w.kv("nc", synth.m_numChannels);
    w.kv("ncv", (long long)cc.size());
    w.kv("nmc", (long long)p->m_midiChannels.size());
    w.kv("mode", p->m_synthMode); w.kv("master", synth.m_masterVolume); w.kv("dev", p->m_sysExDeviceId);
    w.kv("alloc", (int)synth.m_channelAlloc); w.kb("arp", p->m_setup.enableAutoArpeggio);
    w.kv("arpc", (long long)(OpnVerifAccess::arpCounter(p) % 1000000));
    w.kv("mmode", (int)synth.m_musicMode);
    w.key("ch"); w.begin_arr();
    for(size_t c = 0; c < cc.size(); ++c)
    {
        OPNMIDIplay::OpnChannel &ch = cc[c];
        w.begin_obj();
        w.kb("k", c < 600 ? tap.keyed[c] : false);
        w.kv("koff", tlcint(msTrunc(ch.koff_time_until_neglible_us)));
        w.kv("ri", timbreId(ch.recent_ins.ains));
        w.key("u"); w.begin_arr();
        for(OPNMIDIplay::OpnChannel::users_iterator j = ch.users.begin(); !j.is_end(); ++j)
        {
            OPNMIDIplay::OpnChannel::LocationData &d = j->value;
            w.begin_obj();
            w.kv("m", d.loc.MidCh); w.kv("n", d.loc.note); w.kv("s", d.sustained);
            w.kb("f", d.fixed_sustain); w.kv("kon", tlcint(msTrunc(d.kon_time_until_neglible_us)));
            w.kv("vd", tlcint(msTrunc(d.vibdelay_us))); w.kv("id", timbreId(d.ins.ains));
            w.end_obj();
        }
        w.end_arr();
        w.end_obj();
    }
    w.end_arr();
    w.key("mc"); w.begin_arr();
    if(o.full)
        for(size_t c = 0; c < p->m_midiChannels.size(); ++c) writeMidiChannel(w, p, c);
    else
        for(size_t k = 0; k < o.mchans.size(); ++k)
            if((size_t)o.mchans[k] < p->m_midiChannels.size()) writeMidiChannel(w, p, (size_t)o.mchans[k]);
    w.end_arr();
    // notes living on MIDI channels that are not individually logged (kept so that the
    // bookkeeping invariant still quantifies over every note)
    w.end_obj();
}

// ------------------------------------------------------------------ process-level robustness
static const char *g_stage = "start";
static FILE *g_trace = NULL;
static inline void crashHandler(int sig)
{
    char b[160];
    int n = snprintf(b, sizeof b, "\n{\"e\":\"Crash\",\"o\":\"crash\",\"sig\":%d,\"stage\":\"%s\"}\n", sig, g_stage);
    if(g_trace) { fflush(g_trace); (void)!write(fileno(g_trace), b, (size_t)n); }
    _exit(70);
}
static inline void terminateHandler()
{
    const char *b = "\n{\"e\":\"Crash\",\"o\":\"crash\",\"sig\":-1,\"stage\":\"terminate\"}\n";
    if(g_trace) { fflush(g_trace); (void)!write(fileno(g_trace), b, strlen(b)); }
    _exit(71);
}
static inline void installCrashHandlers()
{
    std::set_terminate(terminateHandler);
    signal(SIGALRM, crashHandler);
    signal(SIGABRT, crashHandler);
}

static inline bool readLines(const char *path, std::vector<std::string> &out)
{
    std::ifstream f(path);
    if(!f) return false;
    std::string l;
    while(std::getline(f, l)) if(!l.empty()) out.push_back(l);
    return true;
}
