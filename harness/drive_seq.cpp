// drive_seq <script.ndjson> <trace.ndjson>
// Sequencer conformance harness (C07 C08 C09, SMF part of C17): encodes abstract songs to SMF
// (optionally wrapped as RMI), loads them into the real library, plays them tick-driven or
// audio-driven and records, in program order, every event delivered to the raw-event hook, every
// loop-hook call and every key-on/off/patch operation reaching the chips.
#include "vh.hpp"

struct LogEnt { char k; long long t; int a, b, c; std::vector<uint8_t> d; long long fr; };

static OPN2_MIDIPlayer *dev = NULL;
static Tap *tap = NULL;
static std::vector<LogEnt> glog_;
static size_t g_logCap = (size_t)-1;
static int g_trunc = 0;
// deliveries (events, hook calls) and tap entries (key-on/off, patch) are capped separately per play: a vibrato re-keys
// its notes at every tick, which must not make an ordinary stepped play look like a runaway one
static size_t g_nDeliv = 0, g_nTap = 0, g_tapCap = (size_t)-1;
static int g_tapcut = 0;
struct GLog {
    void push_back(const LogEnt &e)
    {
        if(e.k == 'e' || e.k == 'h') { if(g_nDeliv >= g_logCap) { g_trunc = 1; return; } ++g_nDeliv; }
        else { if(g_nTap >= g_tapCap) { g_tapcut = 1; return; } ++g_nTap; }
        glog_.push_back(e);
    }
    size_t size() const { return glog_.size(); }
    void clear() { glog_.clear(); }
    const LogEnt &operator[](size_t i) const { return glog_[i]; }
} glog;
static std::vector<uint8_t> songBytes;
static long rate = 44100;
static bool hooksRegistered = false;
static double g_mult = 1.0;

static long long tellUs() { double t = opn2_positionTell(dev); return tlcint((long long)llround(t * 1e6)); }

static void rawHook(void *, OPN2_UInt8 type, OPN2_UInt8 subtype, OPN2_UInt8 channel, const OPN2_UInt8 *data, size_t len)
{
    LogEnt e; e.k = 'e'; e.t = tellUs(); e.a = type; e.b = subtype; e.c = channel; e.fr = tap ? tap->frames : 0;
    for(size_t i = 0; i < len && i < 64; ++i) e.d.push_back(data[i]);
    glog.push_back(e);
}
static void loopStartHook(void *) { LogEnt e; e.k = 'h'; e.t = tellUs(); e.a = 1; e.b = e.c = 0; e.fr = tap ? tap->frames : 0; glog.push_back(e); }
static void loopEndHook(void *) { LogEnt e; e.k = 'h'; e.t = tellUs(); e.a = 2; e.b = e.c = 0; e.fr = tap ? tap->frames : 0; glog.push_back(e); }

// tap ops are merged into the log in program order
static size_t tapSeen = 0;
static void drainTap()
{
    for(; tapSeen < tap->ops.size(); ++tapSeen)
    {
        const TapOp &o = tap->ops[tapSeen];
        LogEnt e; e.t = 0; e.fr = tap->frames; e.b = e.c = 0;
        if(!strcmp(o.o, "kon")) { e.k = 'k'; e.a = o.c; e.b = 1; }
        else if(!strcmp(o.o, "koff")) { e.k = 'k'; e.a = o.c; e.b = 0; }
        else if(!strcmp(o.o, "patch")) { e.k = 'p'; e.a = o.c; e.b = o.a; }
        else continue;
        glog.push_back(e);
    }
}
// hooks interleave with tap ops: wrap the tap callback so that ordering is exact
static void tapCb(void *ud, int kind, size_t chip, unsigned a, unsigned b, unsigned c)
{
    Tap::cb(ud, kind, chip, a, b, c);
    if(kind != 'G') drainTap();
}
static void rawHookOrdered(void *u, OPN2_UInt8 type, OPN2_UInt8 subtype, OPN2_UInt8 channel, const OPN2_UInt8 *data, size_t len)
{ drainTap(); rawHook(u, type, subtype, channel, data, len); }

static void writeLog(JW &w, size_t from)
{
    w.begin_arr();
    for(size_t i = from; i < glog.size(); ++i)
    {
        const LogEnt &e = glog[i];
        w.begin_arr();
        if(e.k == 'e')
        {
            w.str("e"); w.num(e.t); w.num(e.a); w.num(e.b); w.num(e.c);
            w.begin_arr(); for(size_t q = 0; q < e.d.size(); ++q) w.num(e.d[q]); w.end_arr();
            w.num(tlcint(e.fr));
        }
        else if(e.k == 'h') { w.str("h"); w.num(e.t); w.num(e.a); w.num(tlcint(e.fr)); }
        else if(e.k == 'k') { w.str("k"); w.num(e.a); w.num(e.b); w.num(tlcint(e.fr)); }
        else { w.str("p"); w.num(e.a); w.num(e.b); w.num(tlcint(e.fr)); }
        w.end_arr();
    }
    w.end_arr();
}

// ---------------------------------------------------------------- SMF encoder
static void putVlq(std::vector<uint8_t> &o, unsigned long v)
{
    uint8_t buf[8]; int n = 0;
    buf[n++] = v & 0x7F;
    while((v >>= 7)) buf[n++] = 0x80 | (v & 0x7F);
    while(n--) o.push_back(buf[n]);
}
static void putBE(std::vector<uint8_t> &o, unsigned long v, int n) { for(int i = n - 1; i >= 0; --i) o.push_back((uint8_t)(v >> (8 * i))); }
static void putMeta(std::vector<uint8_t> &o, int type, const std::string &s)
{ o.push_back(0xFF); o.push_back((uint8_t)type); putVlq(o, (unsigned long)s.size()); o.insert(o.end(), s.begin(), s.end()); }
static std::string bytesOf(const JV &b) { std::string s; for(size_t q = 0; q < b.a.size(); ++q) s.push_back((char)b.a[q].num()); return s; }

static std::vector<uint8_t> encodeSong(const JV &song)
{
    std::vector<uint8_t> out;
    const JV &tracks = song["tracks"];
    bool rs = song.get("rs", 0) != 0;
    out.insert(out.end(), {'M', 'T', 'h', 'd'}); putBE(out, 6, 4);
    putBE(out, (unsigned long)song.get("fmt", 1), 2); putBE(out, (unsigned long)tracks.a.size(), 2); putBE(out, (unsigned long)song.get("div", 96), 2);
    for(size_t t = 0; t < tracks.a.size(); ++t)
    {
        std::vector<uint8_t> tr;
        int running = -1;
        const JV &evs = tracks.a[t]["ev"];
        for(size_t i = 0; i < evs.a.size(); ++i)
        {
            putVlq(tr, (unsigned long)evs.a[i].a[0].num());
            const JV &e = evs.a[i].a[1];
            std::string k = e.gets("k");
            int ch = (int)e.get("ch", 0);
            int status = -1, d1 = 0, d2 = -1;
            if(k == "on") { status = 0x90 | ch; d1 = (int)e.get("n"); d2 = (int)e.get("v"); }
            else if(k == "off") { status = 0x80 | ch; d1 = (int)e.get("n"); d2 = (int)e.get("v", 0); }
            else if(k == "nat") { status = 0xA0 | ch; d1 = (int)e.get("n"); d2 = (int)e.get("v"); }
            else if(k == "cc") { status = 0xB0 | ch; d1 = (int)e.get("n"); d2 = (int)e.get("v"); }
            else if(k == "cc111") { status = 0xB0 | ch; d1 = 111; d2 = (int)e.get("v", 0); }
            else if(k == "pc") { status = 0xC0 | ch; d1 = (int)e.get("p"); }
            else if(k == "cat") { status = 0xD0 | ch; d1 = (int)e.get("v"); }
            else if(k == "bend") { status = 0xE0 | ch; d1 = (int)(e.get("v") & 0x7F); d2 = (int)((e.get("v") >> 7) & 0x7F); }
            if(status >= 0)
            {
                if(!(rs && running == status)) tr.push_back((uint8_t)status);
                running = status;
                tr.push_back((uint8_t)d1); if(d2 >= 0) tr.push_back((uint8_t)d2);
                continue;
            }
            running = -1;
            if(k == "tempo") { tr.push_back(0xFF); tr.push_back(0x51); tr.push_back(3); putBE(tr, (unsigned long)e.get("us"), 3); }
            else if(k == "marker") putMeta(tr, 6, bytesOf(e["b"]));
            else if(k == "loopstart") putMeta(tr, 6, "loopStart");
            else if(k == "loopend") putMeta(tr, 6, "loopEnd");
            else if(k == "text") putMeta(tr, (int)e.get("ty", 1), bytesOf(e["b"]));
            else if(k == "sysex" || k == "sysex7")      // sysex7: an F7 "escape / continuation" event (no leading F0 in the payload)
            {
                tr.push_back(k == "sysex7" ? 0xF7 : 0xF0); const JV &b = e["b"]; putVlq(tr, (unsigned long)b.a.size());
                for(size_t q = 0; q < b.a.size(); ++q) tr.push_back((uint8_t)b.a[q].num());
            }
            else if(k == "eot") { tr.push_back(0xFF); tr.push_back(0x2F); tr.push_back(0); }
        }
        if(tracks.a[t].has("eot")) { putVlq(tr, (unsigned long)tracks.a[t].get("eot")); tr.push_back(0xFF); tr.push_back(0x2F); tr.push_back(0); }
        out.insert(out.end(), {'M', 'T', 'r', 'k'}); putBE(out, (unsigned long)tr.size(), 4);
        out.insert(out.end(), tr.begin(), tr.end());
    }
    std::string cont = song.gets("container", "smf");
    if(cont == "rmi")
    {
        std::vector<uint8_t> r;
        r.insert(r.end(), {'R', 'I', 'F', 'F'});
        unsigned long sz = (unsigned long)out.size();
        unsigned long total = 4 + 8 + sz + (sz & 1);
        for(int i = 0; i < 4; ++i) r.push_back((uint8_t)(total >> (8 * i)));
        r.insert(r.end(), {'R', 'M', 'I', 'D', 'd', 'a', 't', 'a'});
        for(int i = 0; i < 4; ++i) r.push_back((uint8_t)(sz >> (8 * i)));
        r.insert(r.end(), out.begin(), out.end());
        if(sz & 1) r.push_back(0);
        return r;
    }
    return out;
}

static void registerHooks()
{
    opn2_setRawEventHook(dev, rawHookOrdered, NULL);
    opn2_setLoopStartHook(dev, loopStartHook, NULL);
    opn2_setLoopEndHook(dev, loopEndHook, NULL);
    hooksRegistered = true;
}

int main(int argc, char **argv)
{
    if(argc < 3) return 2;
    std::vector<std::string> lines;
    if(!readLines(argv[1], lines)) return 2;
    g_trace = fopen(argv[2], "w");
    installCrashHandlers();
    std::vector<short> pcm(2 * 70000 + 64);
    SnapOpts so; so.full = true;
    for(size_t li = 0; li < lines.size(); ++li)
    {
        JV c; if(!jparse(lines[li], c)) { fprintf(stderr, "INFRA: bad line %zu\n", li); return 2; }
        std::string e = c.gets("e");
        JW w; w.s = lines[li]; w.s.pop_back(); w.first = false;
        alarm(60);
        if(e == "Init")
        {
            if(dev) { opn2_close(dev); dev = NULL; }
            delete tap; tap = new Tap(); tapSeen = 0; glog.clear(); hooksRegistered = false;
            rate = (long)c.get("rate", 44100); g_mult = 1.0;
            dev = opn2_init(rate);
            OPNMIDIplay *p = playerOf(dev);
            p->m_synth->m_verifTap = &tapCb; p->m_synth->m_verifTapUd = tap;
            opn2_setNumChips(dev, (int)c.get("chips", 2));
            // bank: melodic 0:0 with programs 0..15 -> instrument ids 1..16; percussion kit 0 keys 35..50 -> ids 100..115
            OPN2_BankId id; id.percussive = 0; id.msb = 0; id.lsb = 0; OPN2_Bank b;
            opn2_getBank(dev, &id, OPNMIDI_Bank_Create, &b);
            for(int pgm = 0; pgm < 16; ++pgm) { OPN2_Instrument ins; InsSpec s; s.id = pgm + 1; s.kon = 300; s.koff = 100; fillInstrument(ins, s); opn2_setInstrument(dev, &b, (unsigned)pgm, &ins); }
            id.percussive = 1; opn2_getBank(dev, &id, OPNMIDI_Bank_Create, &b);
            for(int k = 35; k < 51; ++k) { OPN2_Instrument ins; InsSpec s; s.id = 100 + k - 35; s.kon = 100; s.koff = 50; s.drum = k; fillInstrument(ins, s); opn2_setInstrument(dev, &b, (unsigned)k, &ins); }
            songBytes.clear();
        }
        else if(!dev) return 2;
        else if(e == "Song") { songBytes = encodeSong(c); w.kv("bytes", (long long)songBytes.size()); }
        else if(e == "SetHooks") registerHooks();
        else if(e == "Load")
        {
            std::vector<uint8_t> img = songBytes;
            if(c.get("corrupt", 0) && img.size() > 4) img[1] ^= 0x40;
            int r = opn2_openData(dev, img.data(), (unsigned long)img.size());
            w.kv("r", r);
            w.kv("tracks", (long long)opn2_trackCount(dev));
            w.kv("len", tlcint((long long)llround(opn2_totalTimeLength(dev) * 1e6)));
            w.kv("ls", tlcint((long long)llround(opn2_loopStartTime(dev) * 1e6)));
            w.kv("le", tlcint((long long)llround(opn2_loopEndTime(dev) * 1e6)));
            w.kv("tell", tellUs()); w.kv("atend", opn2_atEnd(dev));
            w.kv("errlen", (long long)strlen(opn2_errorInfo(dev)));
            // the tap/limit live in the Synth object which survives; MIDI channel state was reset
        }
        else if(e == "SetLoop") opn2_setLoopEnabled(dev, (int)c.get("en"));
        else if(e == "SetLoopCount") opn2_setLoopCount(dev, (int)c.get("n"));
        else if(e == "SetTempo") { g_mult = (double)c.get("num") / (double)c.get("den", 1); opn2_setTempo(dev, g_mult); }
        else if(e == "TrackOpt") { w.kv("r", opn2_setTrackOptions(dev, (size_t)c.get("t"), (unsigned)c.get("o"))); }
        else if(e == "ChanEn") { w.kv("r", opn2_setChannelEnabled(dev, (size_t)c.get("c"), (int)c.get("en"))); }
        else if(e == "Rewind") { opn2_positionRewind(dev); w.kv("tell", tellUs()); }
        else if(e == "Reset") opn2_reset(dev);
        else if(e == "Seek")
        {
            size_t from = glog.size();
            // what sounds before the call: keyed-on chip channels, chip-channel users (a refused seek leaves them alone)
            {
                OPNMIDIplay *pp = playerOf(dev);
                std::vector<OPNMIDIplay::OpnChannel> &cc = OpnVerifAccess::chipChannels(pp);
                long long keyed = 0, users = 0;
                for(size_t q = 0; q < cc.size(); ++q) { if(q < 600 && tap->keyed[q]) ++keyed; users += (long long)cc[q].users.size(); }
                w.kv("prek", keyed); w.kv("preu", users);
            }
            opn2_positionSeek(dev, (double)c.get("us") / 1e6);
            drainTap();
            w.kv("tell", tellUs()); w.kv("atend", opn2_atEnd(dev));
            w.key("log"); writeLog(w, from);
            w.key("s"); writeSnapshot(w, dev, *tap, so);
        }
        else if(e == "Snap") { w.key("s"); writeSnapshot(w, dev, *tap, so); }
        else if(e == "PlayTicks")
        {
            // mode exact: every call advances exactly to the next event (s := previous return value)
            // otherwise the listed step sizes (microseconds) are used cyclically
            long long maxCalls = c.get("max", 2000);
            long long gran = c.get("gran", 0);    // microseconds
            const JV &steps = c["steps"];
            bool exact = steps.a.empty();
            double s = 0.0;
            long long untilUs = c.get("until", -1);
            w.key("calls"); w.begin_arr();
            long long calls = 0; int endSeen = 0; int trunc = 0; size_t playStart = glog.size();
            g_logCap = 6000; g_trunc = 0; g_nDeliv = 0; g_nTap = 0; g_tapCap = 6000; g_tapcut = 0;
            while(calls < maxCalls)
            {
                if(!exact) s = (double)steps.a[(size_t)(calls % (long long)steps.a.size())].num() / 1e6;
                size_t from = glog.size();
                long long prevTell = tellUs();
                double r = opn2_tickEvents(dev, s, (double)gran / 1e6);
                drainTap();
                int atend = opn2_atEnd(dev);
                if(glog.size() > from || atend || exact)   // calls that delivered nothing are summarised by ncalls
                {
                    w.begin_arr();
                    w.num(tlcint((long long)llround(s * 1e6))); w.num(tellUs()); w.num(tlcint((long long)llround(r * 1e6))); w.num(atend);
                    writeLog(w, from);
                    w.num(prevTell);
                    w.end_arr();
                }
                ++calls;
                if(g_trunc || g_nDeliv >= 6000) { trunc = 1; break; } // zero-length endless loops: keep the trace bounded
                if(exact) s = r;
                if(atend) { if(++endSeen >= 2) break; }
                if(untilUs >= 0 && tellUs() >= untilUs) break;
            }
            w.end_arr();
            g_logCap = (size_t)-1; g_tapCap = (size_t)-1;
            if(g_tapcut) w.kv("tapcut", 1);
            long long ne = 0;
            for(size_t q = playStart; q < glog_.size(); ++q) if(glog_[q].k == 'e') ++ne;
            w.kv("ncalls", calls); w.kv("ne", ne); w.kv("atend", opn2_atEnd(dev)); w.kv("trunc", trunc);
            // the synthesizer's state after the play (every MIDI channel of every port), on request
            if(c.get("snap", 0) && !trunc) { w.key("s"); writeSnapshot(w, dev, *tap, so); }
        }
        else if(e == "PlayAudio")
        {
            const JV &req = c["req"];
            long long maxCalls = c.get("max", 4000);
            w.key("calls"); w.begin_arr();
            long long calls = 0; int zero = 0;
            while(calls < maxCalls)
            {
                int n = (int)req.a[(size_t)(calls % (long long)req.a.size())].num();
                size_t from = glog.size();
                long long f0 = tap->frames;
                int r = opn2_play(dev, n, pcm.data());
                drainTap();
                if(glog.size() > from || r != n - (n % 2))
                {
                    w.begin_arr(); w.num(n); w.num(r); w.num(tlcint(f0)); w.num(tlcint(tap->frames)); w.num(tellUs()); w.num(opn2_atEnd(dev));
                    writeLog(w, from);
                    w.end_arr();
                }
                ++calls;
                if(r == 0 && n >= 2) { if(++zero >= 1) break; }
            }
            w.end_arr();
            w.kv("ncalls", calls); w.kv("atend", opn2_atEnd(dev)); w.kv("maxperiod", tap->maxPeriod);
        }
        else { fprintf(stderr, "INFRA: unknown command %s\n", e.c_str()); return 2; }
        alarm(0);
        w.s += "}\n";
        fputs(w.s.c_str(), g_trace);
    }
    if(dev) opn2_close(dev);
    fprintf(g_trace, "{\"e\":\"End\"}\n");
    fclose(g_trace);
    return 0;
}
