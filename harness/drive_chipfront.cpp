// drive_chipfront <script.ndjson> <trace.ndjson>
// C20: renders a pure-tone instrument through the real emulator cores of the library and records
// what came out.  Nothing is judged here: spec/ChipFrontTrace.tla computes the nominal frequency, the
// ring / resampler predictions and evaluates the life-cycle predicates on the recorded integers.
//
// commands (one JSON object per line, "init" starts a new execution = a new library instance)
//   {"o":"init","emu":e,"fam":f,"rate":r,"pcm":0|1,"chips":n,"banks":[...],"rel":ms}
//        opn2_init(r), opn2_switchEmulator(e), opn2_setNumChips(n), opn2_setChipType(f),
//        opn2_setRunAtPcmRate(pcm), bank installation.  Recorded: the core's name, the family and
//        run-at-PCM-rate state actually in force, number of chip channels.
//   {"o":"gen","ms":m,"zs":skip_ms}    renders m milliseconds with opn2_generate, one call per 5 ms window.
//        Recorded: "wf" frames per window, "w":[[lo,hi,rms],...] per window over both stereo channels
//        (rms relative to the mean of the instance's first rendering), "on": index of the first frame
//        leaving the idle band of the first rendering by more than 327 LSB (-1 = none), "zc":[n,f_mHz,amp]
//        number of rising crossings of the mean and the fundamental derived from them, measured from skip_ms.
//   {"o":"ev","evs":[[t,ch,a,b],...]}   a burst of real-time events without rendering in between:
//        t = 0 note-off(ch,key) 1 note-on(ch,key,vel) 2 controller(ch,num,val) 3 pitch bend(ch,lsb,msb) 4 program(ch,p)
//        Recorded: "nw":[writes per chip] requested through OPN2::writeReg* during the burst (hook H1),
//        "kd":[[chipchannel,block,fnum],...] the channels whose last requested key write is key-on,
//        with the last requested frequency, "rs": return values of the note-ons (1 = accepted) summed.
//   {"o":"panic"}  {"o":"reset"}        opn2_panic / opn2_reset; same record as "ev".
#include "vh.hpp"
#include <cmath>

static OPN2_MIDIPlayer *dev = NULL;

struct CFTap
{
    std::vector<int> nw;              // writes per chip since clear()
    uint8_t shadow[8][2][256];
    bool keyed[48];
    CFTap() { memset(shadow, 0, sizeof shadow); memset(keyed, 0, sizeof keyed); }
    static void cb(void *ud, int kind, size_t chip, unsigned a, unsigned b, unsigned c) { ((CFTap *)ud)->on(kind, chip, a, b, c); }
    void on(int kind, size_t chip, unsigned a, unsigned b, unsigned c)
    {
        if(kind != 'W' || chip >= 8) return;
        if(nw.size() <= chip) nw.resize(chip + 1, 0);
        ++nw[chip];
        unsigned port = a & 1, reg = b & 0xFF, val = c & 0xFF;
        shadow[chip][port][reg] = (uint8_t)val;
        if(reg == 0x28)
        {
            static const int cmap[8] = {0, 1, 2, -1, 3, 4, 5, -1};
            int ch4 = cmap[val & 7];
            if(ch4 >= 0) keyed[chip * 6 + (size_t)ch4] = (val & 0xF0) != 0;
        }
    }
    void clear() { for(size_t i = 0; i < nw.size(); ++i) nw[i] = 0; }
};

static CFTap *tap = NULL;
static int g_rate = 44100, g_chips = 1;
static bool g_haveIdle = false;
static double g_idleMean = 0.0;
static int g_idleLo = 0, g_idleHi = 0;
static std::vector<short> g_buf;

static long long isqrtll(long long v)
{
    if(v <= 0) return 0;
    long long r = (long long)std::sqrt((double)v);
    while(r * r > v) --r;
    while((r + 1) * (r + 1) <= v) ++r;
    return r;
}

static void writeChipState(JW &w, long long rs)
{
    w.key("nw"); w.begin_arr();
    for(int c = 0; c < g_chips; ++c) w.num((size_t)c < tap->nw.size() ? tap->nw[(size_t)c] : 0);
    w.end_arr();
    w.key("kd"); w.begin_arr();
    for(int cc = 0; cc < g_chips * 6 && cc < 48; ++cc)
    {
        if(!tap->keyed[cc]) continue;
        int chip = cc / 6, port = (cc % 6) / 3, c3 = cc % 3;
        unsigned hi = tap->shadow[chip][port][0xA4 + c3], lo = tap->shadow[chip][port][0xA0 + c3];
        unsigned ft = (hi << 8) | lo;
        w.begin_arr(); w.num(cc); w.num((ft >> 11) & 7); w.num(ft & 0x7FF); w.end_arr();
    }
    w.end_arr();
    w.kv("rs", rs);
}

int main(int argc, char **argv)
{
    if(argc < 3) { fprintf(stderr, "usage: drive_chipfront script trace\n"); return 2; }
    std::vector<std::string> lines;
    if(!readLines(argv[1], lines)) { fprintf(stderr, "INFRA: cannot read %s\n", argv[1]); return 2; }
    g_trace = fopen(argv[2], "w");
    if(!g_trace) return 2;
    installCrashHandlers();
    for(size_t li = 0; li < lines.size(); ++li)
    {
        JV c;
        if(!jparse(lines[li], c) || c.t != JV::Obj) { fprintf(stderr, "INFRA: bad script line %zu\n", li); return 2; }
        std::string o = c.gets("o");
        g_stage = o == "gen" ? "gen" : (o == "init" ? "init" : "call");
        JW w; w.s = lines[li];
        while(!w.s.empty() && (w.s.back() == '\n' || w.s.back() == ' ' || w.s.back() == '\r')) w.s.pop_back();
        w.s.pop_back(); w.first = false;
        alarm(120);
        if(o == "init")
        {
            if(dev) { opn2_close(dev); dev = NULL; }
            delete tap; tap = new CFTap();
            g_rate = (int)c.get("rate", 44100);
            g_chips = (int)c.get("chips", 1);
            if(g_rate < 4000 || g_rate > 400000 || g_chips < 1 || g_chips > 8) { fprintf(stderr, "INFRA: bad init\n"); return 2; }
            dev = opn2_init(g_rate);
            if(!dev) return 2;
            playerOf(dev)->m_synth->m_verifTap = &CFTap::cb;
            playerOf(dev)->m_synth->m_verifTapUd = tap;
            // "ord" rotates the order of the four calls that rebuild the chips: each of them must leave them fully set up
            long long ord = c.get("ord", 0);
            long long r1 = 0, r2 = 0, r3 = 0;
            for(int k = 0; k < 4; ++k)
            {
                int step = (int)((k + ord) % 4);
                if(step == 0) r1 = opn2_switchEmulator(dev, (int)c.get("emu", 0));
                else if(step == 1) r2 = opn2_setNumChips(dev, g_chips);
                else if(step == 2) opn2_setChipType(dev, (int)c.get("fam", 0));
                else r3 = opn2_setRunAtPcmRate(dev, (int)c.get("pcm", 0));
            }
            if(installBanks(dev, c["banks"]) != 0) { fprintf(stderr, "INFRA: bank installation failed\n"); return 2; }
            opn2_setAutoArpeggio(dev, 0);
            g_haveIdle = false; g_idleMean = 0.0; g_idleLo = g_idleHi = 0;
            OPN2 &synth = *playerOf(dev)->m_synth;
            w.kv("rc", (r1 != 0 ? 1 : 0) + (r2 != 0 ? 2 : 0) + (r3 != 0 ? 4 : 0));
            w.ks("emun", opn2_chipEmulatorName(dev));
            w.kv("famr", opn2_getChipType(dev));
            w.kv("pcmr", (!synth.m_chips.empty() && synth.m_chips[0]->isRunningAtPcmRate()) ? 1 : 0);
            w.kv("nch", synth.m_numChannels);
            w.kv("nchips", (long long)synth.m_chips.size());
            w.key("nwi"); w.begin_arr();
            for(int k = 0; k < g_chips; ++k) w.num((size_t)k < tap->nw.size() ? tap->nw[(size_t)k] : 0);
            w.end_arr();
            tap->clear();
            w.s += "}\n"; fputs(w.s.c_str(), g_trace);
            alarm(0);
            continue;
        }
        if(!dev) { fprintf(stderr, "INFRA: command before init\n"); return 2; }
        if(o == "gen")
        {
            int ms = (int)c.get("ms", 5), zs = (int)c.get("zs", 0);
            int wf = g_rate / 200;                       // frames per 5 ms window
            int nwin = ms / 5;
            if(nwin < 1 || nwin > 400) { fprintf(stderr, "INFRA: bad gen\n"); return 2; }
            size_t frames = (size_t)wf * (size_t)nwin;
            g_buf.assign(frames * 2, 0);
            long long got = 0;
            for(int k = 0; k < nwin; ++k)
                got += opn2_generate(dev, wf * 2, &g_buf[(size_t)k * (size_t)wf * 2]) / 2;
            if(!g_haveIdle)
            {
                // the instance's idle level: what it renders before any note
                double s = 0; int lo = 32767, hi = -32768;
                for(size_t i = 0; i < frames * 2; ++i) { s += g_buf[i]; if(g_buf[i] < lo) lo = g_buf[i]; if(g_buf[i] > hi) hi = g_buf[i]; }
                g_idleMean = s / (double)(frames * 2); g_idleLo = lo; g_idleHi = hi; g_haveIdle = true;
            }
            w.kv("r", got);
            w.kv("wf", wf);
            w.key("w"); w.begin_arr();
            long long onset = -1;
            for(int k = 0; k < nwin; ++k)
            {
                int lo = 32767, hi = -32768; double acc = 0;
                for(int i = 0; i < wf * 2; ++i)
                {
                    size_t fi = (size_t)k * (size_t)wf + (size_t)(i / 2);
                    int v = g_buf[fi * 2 + (size_t)(i & 1)];
                    if(v < lo) lo = v;
                    if(v > hi) hi = v;
                    double d = v - g_idleMean; acc += d * d;
                    if(onset < 0 && (v > g_idleHi + 327 || v < g_idleLo - 327)) onset = (long long)fi;
                }
                w.begin_arr(); w.num(lo); w.num(hi); w.num(isqrtll((long long)(acc / (wf * 2)))); w.end_arr();
            }
            w.end_arr();
            w.kv("on", onset);
            // zero-crossing fundamental of L+R from zs milliseconds on
            size_t z0 = (size_t)((long long)zs * g_rate / 1000);
            long long n = 0; double first = 0, last = 0, amp = 0, mean = 0;
            if(z0 + 8 < frames)
            {
                for(size_t i = z0; i < frames; ++i) mean += g_buf[2 * i] + g_buf[2 * i + 1];
                mean /= (double)(frames - z0);
                for(size_t i = z0; i < frames; ++i) { double d = std::fabs(g_buf[2 * i] + g_buf[2 * i + 1] - mean); if(d > amp) amp = d; }
                double h = amp / 4;
                bool below = false; double prev = g_buf[2 * z0] + g_buf[2 * z0 + 1] - mean;
                for(size_t i = z0 + 1; i < frames; ++i)
                {
                    double cur = g_buf[2 * i] + g_buf[2 * i + 1] - mean;
                    if(cur < -h) below = true;
                    if(below && prev < 0 && cur >= 0)
                    {
                        double t = (double)(i - 1) + (0 - prev) / (cur - prev);
                        if(n == 0) first = t;
                        last = t; ++n; below = false;
                    }
                    prev = cur;
                }
            }
            double f = (n >= 2 && last > first) ? 1000.0 * (double)(n - 1) * g_rate / (last - first) : 0.0;
            w.key("zc"); w.begin_arr(); w.num(n); w.num(tlcint((long long)(f + 0.5))); w.num((long long)(amp / 2)); w.end_arr();
            w.s += "}\n"; fputs(w.s.c_str(), g_trace);
            alarm(0);
            continue;
        }
        tap->clear();
        long long rs = 0;
        if(o == "ev")
        {
            const JV &evs = c["evs"];
            for(size_t k = 0; k < evs.a.size(); ++k)
            {
                const JV &e = evs.a[k];
                if(e.a.size() < 4) { fprintf(stderr, "INFRA: bad event\n"); return 2; }
                int t = (int)e.a[0].num(), ch = (int)e.a[1].num(), a = (int)e.a[2].num(), b = (int)e.a[3].num();
                if(t == 0) opn2_rt_noteOff(dev, (OPN2_UInt8)ch, (OPN2_UInt8)a);
                else if(t == 1) rs += opn2_rt_noteOn(dev, (OPN2_UInt8)ch, (OPN2_UInt8)a, (OPN2_UInt8)b) ? 1 : 0;
                else if(t == 2) opn2_rt_controllerChange(dev, (OPN2_UInt8)ch, (OPN2_UInt8)a, (OPN2_UInt8)b);
                else if(t == 3) opn2_rt_pitchBendML(dev, (OPN2_UInt8)ch, (OPN2_UInt8)b, (OPN2_UInt8)a);
                else if(t == 4) opn2_rt_patchChange(dev, (OPN2_UInt8)ch, (OPN2_UInt8)a);
                else { fprintf(stderr, "INFRA: unknown event type %d\n", t); return 2; }
            }
        }
        else if(o == "panic") opn2_panic(dev);
        else if(o == "reset")
        {
            opn2_reset(dev);
            memset(tap->keyed, 0, sizeof tap->keyed);      // the chips are re-created
        }
        else { fprintf(stderr, "INFRA: unknown command %s\n", o.c_str()); return 2; }
        writeChipState(w, rs);
        w.s += "}\n"; fputs(w.s.c_str(), g_trace);
        alarm(0);
    }
    if(dev) opn2_close(dev);
    fprintf(g_trace, "{\"o\":\"end\"}\n");
    fclose(g_trace);
    return 0;
}
