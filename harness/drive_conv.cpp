// drive_conv <script.ndjson> <trace.ndjson>
// Conformance harness of C17 (container / converter front-ends: RMI, GMF, MUS, XMI).
// Encodes ABSTRACT sources (DMX MUS scores, AIL XMI files with 1..n sequences, SMF songs bare or wrapped
// as RIFF/RMID or GMF) to bytes, loads them with opn2_openData, plays them tick-driven in exact stepping
// (s := previous return value of opn2_tickEvents, exactly like drive_seq) and records what the library
// delivers: every raw-event-hook call stamped with opn2_positionTell, opn2_getSongsCount, load results.
// The harness judges nothing; all expected values are computed by TLC (spec/ConvTrace.tla).
// The encoders below are the trusted part (MUS ~35 lines, XMI ~45 lines, SMF/RMI/GMF ~60 lines); the
// encoded bytes are recorded so that the trace specification can re-derive them from the format definition.
// Several sources may be loaded one after the other on the SAME player (no Init in between): the session dimension of C17.
// Command "Cvt" (leg C, refinement): calls the converter functions themselves (Convert_mus2midi / Convert_xmi2midi_multi,
// header-only C, included exactly like src/midi_sequencer_impl.hpp does, with the arguments parseMUS / parseXMI pass) on the
// encoded bytes of the preceding Mus / Xmi record and records the SMF they produce parsed into abstract form
// (format, track count, division, tempo bytes, per track: declared length, events <<delta, status, data...>>, running-status
// flags); TLC compares it with spec/Mus2Mid.tla / spec/Xmi2Mid.tla.  The SMF reader below (~45 lines) is trusted.
#include "vh.hpp"
#include "cvt_mus2mid.hpp"
#include "cvt_xmi2mid.hpp"

struct LogEnt { long long t; int a, b, c; std::vector<uint8_t> d; };
static OPN2_MIDIPlayer *dev = NULL;
static std::vector<LogEnt> glog;
static size_t g_logCap = (size_t)-1;
static int g_trunc = 0;
static std::vector<uint8_t> fileBytes;
static double g_mult = 1.0;
static std::string srcKind = "none";
typedef std::vector<uint8_t> Bytes;

// TLC integers are 32-bit: a mis-converted file may carry absurd times; saturate (a saturated value fails every time predicate)
static long long sat(double us) { return us > 2147483000.0 ? 2147483000LL : us < -2147483000.0 ? -2147483000LL : (long long)llround(us); }
static long long tellUs() { return sat(opn2_positionTell(dev) * 1e6); }
static void rawHook(void *, OPN2_UInt8 type, OPN2_UInt8 subtype, OPN2_UInt8 channel, const OPN2_UInt8 *data, size_t len)
{
    if(glog.size() >= g_logCap) { g_trunc = 1; return; }
    LogEnt e; e.t = tellUs(); e.a = type; e.b = subtype; e.c = channel;
    for(size_t i = 0; i < len && i < 64; ++i) e.d.push_back(data[i]);
    glog.push_back(e);
}
static void writeLog(JW &w, size_t from)
{
    w.begin_arr();
    for(size_t i = from; i < glog.size(); ++i)
    {
        const LogEnt &e = glog[i];
        w.begin_arr(); w.str("e"); w.num(e.t); w.num(e.a); w.num(e.b); w.num(e.c);
        w.begin_arr(); for(size_t q = 0; q < e.d.size(); ++q) w.num(e.d[q]); w.end_arr();
        w.end_arr();
    }
    w.end_arr();
}

// ---------------------------------------------------------------- byte helpers
static void putBE(Bytes &o, unsigned long v, int n) { for(int i = n - 1; i >= 0; --i) o.push_back((uint8_t)(v >> (8 * i))); }
static void putLE(Bytes &o, unsigned long v, int n) { for(int i = 0; i < n; ++i) o.push_back((uint8_t)(v >> (8 * i))); }
static void putTag(Bytes &o, const char *t) { o.insert(o.end(), t, t + 4); }
static void putVlq(Bytes &o, unsigned long v)
{
    uint8_t buf[8]; int n = 0;
    buf[n++] = v & 0x7F;
    while((v >>= 7)) buf[n++] = 0x80 | (v & 0x7F);
    while(n--) o.push_back(buf[n]);
}
static void append(Bytes &o, const Bytes &x) { o.insert(o.end(), x.begin(), x.end()); }

// ---------------------------------------------------------------- DMX MUS encoder (trusted)
// score: {"ev":[{"k":"rel|play|pitch|sys|ctl|end","ch":c, ..., "dl":ticks after the event, "lf":force the last-flag, "pad":n}],
//         "chans":primary channel count, "ins":[instrument numbers]}
static Bytes encodeMus(const JV &c)
{
    Bytes sc;
    const JV &evs = c["ev"];
    for(size_t i = 0; i < evs.a.size(); ++i)
    {
        const JV &e = evs.a[i];
        std::string k = e.gets("k");
        long long dl = e.get("dl", 0);
        bool last = dl > 0 || e.get("lf", 0) != 0;
        int ty = k == "rel" ? 0 : k == "play" ? 1 : k == "pitch" ? 2 : k == "sys" ? 3 : k == "ctl" ? 4 : 6;
        sc.push_back((uint8_t)((last ? 0x80 : 0) | (ty << 4) | (int)e.get("ch", 0)));
        if(ty == 0) sc.push_back((uint8_t)e.get("n"));
        else if(ty == 1)
        {
            long long v = e.get("v", -1);
            sc.push_back((uint8_t)(e.get("n") | (v >= 0 ? 0x80 : 0)));
            if(v >= 0) sc.push_back((uint8_t)v);
        }
        else if(ty == 2) sc.push_back((uint8_t)e.get("v"));
        else if(ty == 3) sc.push_back((uint8_t)e.get("c"));
        else if(ty == 4) { sc.push_back((uint8_t)e.get("c")); sc.push_back((uint8_t)e.get("v")); }
        if(last)
        {   // delay: base-128 digits, most significant first, bit 7 = "more follows"; "pad" leading zero digits
            for(long long p = e.get("pad", 0); p > 0; --p) sc.push_back(0x80);
            putVlq(sc, (unsigned long)dl);
        }
    }
    const JV &ins = c["ins"];
    Bytes o;
    o.insert(o.end(), {'M', 'U', 'S', 0x1A});
    putLE(o, sc.size(), 2); putLE(o, 16 + 2 * ins.a.size(), 2);
    putLE(o, (unsigned long)c.get("chans", 1), 2); putLE(o, 0, 2); putLE(o, ins.a.size(), 2); putLE(o, 0, 2);
    for(size_t i = 0; i < ins.a.size(); ++i) putLE(o, (unsigned long)ins.a[i].num(), 2);
    append(o, sc);
    // malformed variants for the refinement of the converter's bounds checks (never loaded): "cut" drops the last k bytes of
    // the score (scoreLen patched), "poke" [[r, v], ...] overwrites the score byte number r modulo the score length
    size_t cut = (size_t)c.get("cut", 0), start = 16 + 2 * ins.a.size();
    if(cut > 0 && cut <= sc.size())
    {
        o.resize(o.size() - cut);
        size_t nl = sc.size() - cut; o[4] = (uint8_t)(nl & 255); o[5] = (uint8_t)(nl >> 8);
    }
    if(c.has("poke") && o.size() > start)
    {
        const JV &pk = c["poke"];
        for(size_t i = 0; i < pk.a.size(); ++i) o[start + (size_t)pk.a[i].a[0].num() % (o.size() - start)] = (uint8_t)pk.a[i].a[1].num();
    }
    return o;
}

// ---------------------------------------------------------------- AIL XMI encoder (trusted)
// file: {"songs":[{"ev":[[dt,{event}],...],"eot":dt,"timb":[[patch,bank],...]}]}; dt = ticks BEFORE the event
static void putChunk(Bytes &o, const char *tag, const Bytes &body)
{ putTag(o, tag); putBE(o, body.size(), 4); append(o, body); if(body.size() & 1) o.push_back(0); }
static void putXmiDelay(Bytes &o, long long dt) { while(dt > 127) { o.push_back(127); dt -= 127; } if(dt > 0) o.push_back((uint8_t)dt); }
static Bytes encodeXmi(const JV &c)
{
    const JV &songs = c["songs"];
    Bytes cat; putTag(cat, "XMID");
    for(size_t s = 0; s < songs.a.size(); ++s)
    {
        const JV &sg = songs.a[s];
        Bytes ev;
        const JV &evs = sg["ev"];
        for(size_t i = 0; i < evs.a.size(); ++i)
        {
            putXmiDelay(ev, evs.a[i].a[0].num());
            const JV &e = evs.a[i].a[1];
            std::string k = e.gets("k"); int ch = (int)e.get("ch", 0);
            if(k == "on") { ev.push_back((uint8_t)(0x90 | ch)); ev.push_back((uint8_t)e.get("n")); ev.push_back((uint8_t)e.get("v")); putVlq(ev, (unsigned long)e.get("dur")); }
            else if(k == "nat") { ev.push_back((uint8_t)(0xA0 | ch)); ev.push_back((uint8_t)e.get("n")); ev.push_back((uint8_t)e.get("v")); }
            else if(k == "cc") { ev.push_back((uint8_t)(0xB0 | ch)); ev.push_back((uint8_t)e.get("n")); ev.push_back((uint8_t)e.get("v")); }
            else if(k == "pc") { ev.push_back((uint8_t)(0xC0 | ch)); ev.push_back((uint8_t)e.get("p")); }
            else if(k == "cat") { ev.push_back((uint8_t)(0xD0 | ch)); ev.push_back((uint8_t)e.get("v")); }
            else if(k == "bend") { ev.push_back((uint8_t)(0xE0 | ch)); ev.push_back((uint8_t)(e.get("v") & 0x7F)); ev.push_back((uint8_t)((e.get("v") >> 7) & 0x7F)); }
            else if(k == "tempo") { ev.push_back(0xFF); ev.push_back(0x51); ev.push_back(3); putBE(ev, (unsigned long)e.get("us"), 3); }
        }
        putXmiDelay(ev, sg.get("eot", 0));
        ev.push_back(0xFF); ev.push_back(0x2F); ev.push_back(0);
        Bytes form; putTag(form, "XMID");
        if(sg.has("timb"))
        {
            const JV &tb = sg["timb"]; Bytes t; putLE(t, tb.a.size(), 2);
            for(size_t i = 0; i < tb.a.size(); ++i) { t.push_back((uint8_t)tb.a[i].a[0].num()); t.push_back((uint8_t)tb.a[i].a[1].num()); }
            putChunk(form, "TIMB", t);
        }
        putChunk(form, "EVNT", ev);
        putChunk(cat, "FORM", form);
    }
    Bytes info; putLE(info, songs.a.size(), 2);
    Bytes xdir; putTag(xdir, "XDIR"); putChunk(xdir, "INFO", info);
    Bytes o; putChunk(o, "FORM", xdir); putChunk(o, "CAT ", cat);
    return o;
}

// ---------------------------------------------------------------- SMF encoder (as drive_seq) + RMI / GMF wrapping
static void putMeta(Bytes &o, int type, const std::string &s)
{ o.push_back(0xFF); o.push_back((uint8_t)type); putVlq(o, (unsigned long)s.size()); o.insert(o.end(), s.begin(), s.end()); }
static std::string bytesOf(const JV &b) { std::string s; for(size_t q = 0; q < b.a.size(); ++q) s.push_back((char)b.a[q].num()); return s; }
// eotMode 1: delta + FF 2F 00; 2: only the delta time of the End-of-Track (GMF as the library's own end tag expects it); 0: nothing
static Bytes encodeTrack(const JV &trk, bool rs, int eotMode)
{
    Bytes tr; int running = -1;
    const JV &evs = trk["ev"];
    for(size_t i = 0; i < evs.a.size(); ++i)
    {
        putVlq(tr, (unsigned long)evs.a[i].a[0].num());
        const JV &e = evs.a[i].a[1];
        std::string k = e.gets("k");
        int ch = (int)e.get("ch", 0);
        int status = -1, d1 = 0, d2 = -1;
        if(k == "on") { status = 0x90 | ch; d1 = (int)e.get("n"); d2 = (int)e.get("v"); }
        else if(k == "off") { status = 0x80 | ch; d1 = (int)e.get("n"); d2 = (int)e.get("v", 0); }
        else if(k == "nat") { status = 0xA0 | ch; d1 = (int)e.get("n"); d2 = (int)e.get("v"); }
        else if(k == "cc") { status = 0xB0 | ch; d1 = (int)e.get("n"); d2 = (int)e.get("v"); }
        else if(k == "pc") { status = 0xC0 | ch; d1 = (int)e.get("p"); }
        else if(k == "cat") { status = 0xD0 | ch; d1 = (int)e.get("v"); }
        else if(k == "bend") { status = 0xE0 | ch; d1 = (int)(e.get("v") & 0x7F); d2 = (int)((e.get("v") >> 7) & 0x7F); }
        if(status >= 0)
        {
            if(!(rs && running == status)) tr.push_back((uint8_t)status);
            running = status;
            tr.push_back((uint8_t)d1); if(d2 >= 0) tr.push_back((uint8_t)d2);
            continue;
        }
        running = -1;
        if(k == "tempo") { tr.push_back(0xFF); tr.push_back(0x51); tr.push_back(3); putBE(tr, (unsigned long)e.get("us"), 3); }
        else if(k == "marker") putMeta(tr, 6, bytesOf(e["b"]));
        else if(k == "text") putMeta(tr, (int)e.get("ty", 1), bytesOf(e["b"]));
        else if(k == "sysex" || k == "sysex7")      // sysex7: an F7 escape event
        {
            tr.push_back(k == "sysex7" ? 0xF7 : 0xF0); const JV &b = e["b"]; putVlq(tr, (unsigned long)b.a.size());
            for(size_t q = 0; q < b.a.size(); ++q) tr.push_back((uint8_t)b.a[q].num());
        }
    }
    if(eotMode) putVlq(tr, (unsigned long)trk.get("eot", 0));
    if(eotMode == 1) { tr.push_back(0xFF); tr.push_back(0x2F); tr.push_back(0); }
    return tr;
}
static Bytes encodeSmf(const JV &song)
{
    const JV &tracks = song["tracks"];
    bool rs = song.get("rs", 0) != 0;
    std::string cont = song.gets("container", "smf");
    if(cont == "gmf")
    {   // "GMF\1" + 3 header bytes + the body of the single track chunk; division 192 is implied by the format
        Bytes g; g.insert(g.end(), {'G', 'M', 'F', 1});
        const JV &h = song["gmfhdr"];
        for(size_t i = 0; i < 3; ++i) g.push_back((uint8_t)(i < h.a.size() ? h.a[i].num() : 0));
        append(g, encodeTrack(tracks.a[0], rs, (int)song.get("gmfeot", 1)));
        return g;
    }
    Bytes out;
    putTag(out, "MThd"); putBE(out, 6, 4);
    putBE(out, (unsigned long)song.get("fmt", 1), 2); putBE(out, tracks.a.size(), 2); putBE(out, (unsigned long)song.get("div", 96), 2);
    for(size_t t = 0; t < tracks.a.size(); ++t)
    {
        Bytes tr = encodeTrack(tracks.a[t], rs, 1);
        putTag(out, "MTrk"); putBE(out, tr.size(), 4); append(out, tr);
    }
    if(cont == "rmi")
    {   // RIFF <size> RMID data <size> <smf> [pad] [trailing LIST chunk]
        Bytes body; putTag(body, "RMID"); putTag(body, "data"); putLE(body, out.size(), 4); append(body, out);
        if(out.size() & 1) body.push_back(0);
        if(song.get("rmilist", 0))
        {
            Bytes l; putTag(l, "INFO"); putTag(l, "INAM"); putLE(l, 4, 4); l.insert(l.end(), {'s', 'o', 'n', 0});
            putTag(body, "LIST"); putLE(body, l.size(), 4); append(body, l);
        }
        Bytes r; putTag(r, "RIFF"); putLE(r, body.size(), 4); append(r, body);
        return r;
    }
    return out;
}

// ---------------------------------------------------------------- SMF -> abstract form (trusted reader of the converter output)
static const size_t CVT_MAX_EVENTS = 3000, CVT_MAX_DATA = 64;
static bool smfVlq(const uint8_t *d, size_t &p, size_t end, unsigned long &v)
{
    v = 0;
    for(int i = 0; i < 4; ++i)
    {
        if(p >= end) return false;
        uint8_t c = d[p++]; v = (v << 7) | (c & 0x7F);
        if(!(c & 0x80)) return true;
    }
    return false;
}
static void writeAbstractSmf(JW &w, const uint8_t *d, size_t n)
{
    w.begin_obj();
    bool hdr = n >= 14 && !memcmp(d, "MThd", 4) && d[4] == 0 && d[5] == 0 && d[6] == 0 && d[7] == 6;
    w.kv("fmt", hdr ? (d[8] << 8 | d[9]) : -1); w.kv("ntr", hdr ? (d[10] << 8 | d[11]) : -1); w.kv("div", hdr ? (d[12] << 8 | d[13]) : -1);
    size_t pos = hdr ? 14 : n;
    std::vector<uint8_t> tempo;
    bool tempoSeen = false;
    w.key("tracks"); w.begin_arr();
    while(hdr && pos + 8 <= n && !memcmp(d + pos, "MTrk", 4))
    {
        unsigned long len = ((unsigned long)d[pos + 4] << 24) | (d[pos + 5] << 16) | (d[pos + 6] << 8) | d[pos + 7];
        size_t p = pos + 8, end = p + len <= n ? p + len : n;
        int clean = p + len <= n ? 1 : 2;          // 2: the declared length runs past the buffer
        std::string rs;
        size_t nev = 0; int trunc = 0, running = 0;
        w.begin_obj(); w.kv("len", tlcint((long long)len));
        w.key("ev"); w.begin_arr();
        while(p < end)
        {
            unsigned long delta, mlen = 0;
            if(!smfVlq(d, p, end, delta)) { clean = 3; break; }
            if(p >= end) { clean = 3; break; }
            int st = d[p], isRs = 0;
            if(st >= 0x80) { ++p; if(st < 0xF0) running = st; }
            else { st = running; isRs = 1; if(!st) { clean = 4; break; } }
            size_t nd = 0; int type = -1;
            int hi = st >> 4;
            if(hi == 0xC || hi == 0xD) nd = 1;
            else if(hi < 0xF) nd = 2;
            else if(st == 0xFF) { if(p >= end) { clean = 3; break; } type = d[p++]; if(!smfVlq(d, p, end, mlen)) { clean = 3; break; } nd = mlen; }
            else if(st == 0xF0 || st == 0xF7) { if(!smfVlq(d, p, end, mlen)) { clean = 3; break; } nd = mlen; }
            else { clean = 5; break; }
            if(p + nd > end) { clean = 3; break; }
            if(st == 0xFF && type == 0x51 && !tempoSeen) { tempoSeen = true; tempo.assign(d + p, d + p + nd); }
            if(nev < CVT_MAX_EVENTS)
            {
                w.begin_arr(); w.num(tlcint((long long)delta)); w.num(st); if(type >= 0) w.num(type);
                for(size_t q = 0; q < nd && q < CVT_MAX_DATA; ++q) w.num(d[p + q]);
                w.end_arr();
                rs.push_back((char)isRs);
            }
            else trunc = 1;
            ++nev; p += nd;
        }
        w.end_arr();
        w.key("rs"); w.begin_arr(); for(size_t q = 0; q < rs.size(); ++q) w.num(rs[q]); w.end_arr();
        w.kv("nev", (long long)nev); w.kv("trunc", trunc); w.kv("clean", clean);
        w.end_obj();
        pos = pos + 8 + len;
        if(pos > n) pos = n;
    }
    w.end_arr();
    w.key("tempo"); w.begin_arr(); for(size_t q = 0; q < tempo.size(); ++q) w.num(tempo[q]); w.end_arr();
    w.kv("tail", (long long)(n - pos)); w.kv("size", (long long)n);
    w.end_obj();
}

int main(int argc, char **argv)
{
    if(argc < 3) return 2;
    std::vector<std::string> lines;
    if(!readLines(argv[1], lines)) return 2;
    g_trace = fopen(argv[2], "w");
    installCrashHandlers();
    for(size_t li = 0; li < lines.size(); ++li)
    {
        JV c; if(!jparse(lines[li], c)) { fprintf(stderr, "INFRA: bad line %zu\n", li); return 2; }
        std::string e = c.gets("e");
        JW w; w.s = lines[li]; w.s.pop_back(); w.first = false;
        alarm(60);
        if(e == "Init")
        {
            if(dev) { opn2_close(dev); dev = NULL; }
            glog.clear(); g_mult = 1.0; fileBytes.clear(); srcKind = "none";
            dev = opn2_init((long)c.get("rate", 44100));
            if(!dev) return 2;
            opn2_setNumChips(dev, (int)c.get("chips", 2));
            // a bank must exist before a song can be loaded: melodic 0:0 programs 0..15, percussion kit 0 keys 35..50
            OPN2_BankId id; id.percussive = 0; id.msb = 0; id.lsb = 0; OPN2_Bank b;
            opn2_getBank(dev, &id, OPNMIDI_Bank_Create, &b);
            for(int pgm = 0; pgm < 16; ++pgm) { OPN2_Instrument ins; InsSpec s; s.id = pgm + 1; s.kon = 300; s.koff = 100; fillInstrument(ins, s); opn2_setInstrument(dev, &b, (unsigned)pgm, &ins); }
            id.percussive = 1; opn2_getBank(dev, &id, OPNMIDI_Bank_Create, &b);
            for(int k = 35; k < 51; ++k) { OPN2_Instrument ins; InsSpec s; s.id = 100 + k - 35; s.kon = 100; s.koff = 50; s.drum = k; fillInstrument(ins, s); opn2_setInstrument(dev, &b, (unsigned)k, &ins); }
            opn2_setRawEventHook(dev, rawHook, NULL);
        }
        else if(!dev) return 2;
        else if(e == "Mus" || e == "Xmi" || e == "Smf")
        {
            fileBytes = e == "Mus" ? encodeMus(c) : e == "Xmi" ? encodeXmi(c) : encodeSmf(c);
            srcKind = e == "Mus" ? "mus" : e == "Xmi" ? "xmi" : "smf";
            // XMI "poke" [[p, v], ...]: the byte at position p modulo the file size is overwritten (a damaged container: the formats
            // do not define it; an overwritten chunk tag is what the converter itself rejects)
            if(e == "Xmi" && c.has("poke") && !fileBytes.empty())
            {
                const JV &pk = c["poke"];
                for(size_t i = 0; i < pk.a.size(); ++i) fileBytes[(size_t)pk.a[i].a[0].num() % fileBytes.size()] = (uint8_t)pk.a[i].a[1].num();
            }
            // "keep": only the first k bytes of the encoded file are handed to the player (a file cut short: the formats
            // do not define it, the player may reject it; below 14 bytes no header is complete)
            if(c.has("keep") && (size_t)c.get("keep", 0) < fileBytes.size()) fileBytes.resize((size_t)c.get("keep", 0));
            w.kv("nbytes", (long long)fileBytes.size());
            w.key("bytes"); w.begin_arr();
            if(fileBytes.size() <= 4096) for(size_t q = 0; q < fileBytes.size(); ++q) w.num(fileBytes[q]);
            w.end_arr();
        }
        else if(e == "Cvt")
        {   // the real converters, called the way parseMUS / parseXMI call them
            w.ks("kind", srcKind);
            w.key("songs"); 
            if(srcKind == "mus")
            {
                Bytes img = fileBytes;
                uint8_t *mid = NULL; uint32_t midLen = 0;
                int r = Convert_mus2midi(img.data(), (uint32_t)img.size(), &mid, &midLen, 0);
                w.begin_arr(); if(r >= 0 && mid) writeAbstractSmf(w, mid, midLen); w.end_arr();
                w.kv("r", r);
                free(mid);
            }
            else if(srcKind == "xmi")
            {
                Bytes img = fileBytes; img.resize(fileBytes.size() + 20, 0);
                std::vector<std::vector<uint8_t> > songs;
                int r = Convert_xmi2midi_multi(img.data(), (uint32_t)img.size(), songs, XMIDI_CONVERT_NOCONVERSION);
                w.begin_arr();
                for(size_t q = 0; r >= 0 && q < songs.size() && q < 16; ++q) writeAbstractSmf(w, songs[q].data(), songs[q].size());
                w.end_arr();
                w.kv("r", r); w.kv("nsongs", (long long)songs.size());
            }
            else { w.begin_arr(); w.end_arr(); w.kv("r", -2); }
        }
        else if(e == "Select") opn2_selectSongNum(dev, (int)c.get("n"));
        else if(e == "Load")
        {
            Bytes img = fileBytes;
            int r = opn2_openData(dev, img.data(), (unsigned long)img.size());
            opn2_setRawEventHook(dev, rawHook, NULL);
            w.kv("r", r);
            w.kv("songs", (long long)opn2_getSongsCount(dev));
            w.kv("tracks", (long long)opn2_trackCount(dev));
            w.kv("len", sat(opn2_totalTimeLength(dev) * 1e6));
            w.kv("tell", tellUs()); w.kv("atend", opn2_atEnd(dev));
            w.ks("err", r == 0 ? std::string() : std::string(opn2_errorInfo(dev)).substr(0, 80));
        }
        else if(e == "Play")
        {
            // exact stepping: every call advances exactly to the next event (s := previous return value)
            long long maxCalls = c.get("max", 3000);
            double s = 0.0;
            w.key("calls"); w.begin_arr();
            long long calls = 0; int endSeen = 0; int trunc = 0; size_t playStart = glog.size();
            g_logCap = playStart + 4000; g_trunc = 0;
            while(calls < maxCalls)
            {
                size_t from = glog.size();
                double r = opn2_tickEvents(dev, s, 0.0);
                int atend = opn2_atEnd(dev);
                w.begin_arr();
                w.num(sat(s * 1e6)); w.num(tellUs()); w.num(sat(r * 1e6)); w.num(atend);
                writeLog(w, from);
                w.end_arr();
                ++calls;
                if(g_trunc || glog.size() - playStart >= 4000) { trunc = 1; break; }
                s = r / g_mult;
                if(atend) { if(++endSeen >= 2) break; }
            }
            w.end_arr();
            g_logCap = (size_t)-1;
            w.kv("ncalls", calls); w.kv("atend", opn2_atEnd(dev)); w.kv("trunc", trunc);
        }
        else { fprintf(stderr, "INFRA: unknown command %s\n", e.c_str()); return 2; }
        alarm(0);
        w.s += "}\n";
        fputs(w.s.c_str(), g_trace);
        fflush(g_trace);            // a sanitizer abort in the next command must not lose the records written so far
    }
    if(dev) opn2_close(dev);
    fprintf(g_trace, "{\"e\":\"End\"}\n");
    fclose(g_trace);
    return 0;
}
