// drive_pitch <script.ndjson> <trace.ndjson>
// C10: drives the pitch-relevant part of the real library (NoteOn/NoteOff, pitch bend, RPN 0 bend
// range, program change, pedals, portamento, vibrato controllers, time) and records, for every call,
// the block/F-number writes that reached the chip through the register tap (hook H1):
//   [chipchannel, block, fnum, m]     one frequency write (register A4+cc then A0+cc) with the four
//                                     operator multipliers in force, m = m1 + 16 m2 + 256 m3 + 4096 m4
// A "sweep" command performs one call per value (pitch-bend values, or keys played and released) and
// records one entry [value, writes] per call.
// Nothing is judged here: spec/PitchTrace.tla computes the expected F-numbers and judges the writes.
// Every call runs under alarm(): a call that does not return (F10) ends the process with a Crash record.
#include "vh.hpp"

static OPN2_MIDIPlayer *dev = NULL;
static Tap *tap = NULL;
static char stageBuf[200];
static const size_t MaxOps = 48;        // cap of the per-call log (spec/PitchTrace.tla counts up to 63 writes per call)

static void writeOps(JW &w)
{
    w.begin_arr();
    size_t n = 0;
    for(size_t i = 0; i < tap->ops.size() && n < MaxOps; ++i)
    {
        const TapOp &t = tap->ops[i];
        if(strcmp(t.o, "freq")) continue;
        w.begin_arr(); w.num(t.c); w.num(t.a); w.num(t.b); w.num(t.x[0] + 16 * t.x[1] + 256 * t.x[2] + 4096 * t.x[3]); w.end_arr();
        ++n;
    }
    w.end_arr();
}

// ---- delivery through the sequencer (init option "seq"): the commands that follow the init line (up to the next one)
// become ONE format-1 SMF with two tracks, each routed to its own MIDI port by a port-name meta event (FF 09): MIDI channels
// 0..15 of the script go to track / port A, 16..31 to track / port B (as channels 0..15 there).  Command i stands alone at
// tick i + 1 (division 500: 1 tick = 1 ms), so every opn2_tickEvents call (s := the previous return value, like
// drive_seq) delivers exactly the event of one command, and the writes it causes are recorded for that command.
static void vlq(std::vector<uint8_t> &o, unsigned v)
{
    uint8_t b[5]; int n = 0; b[n++] = v & 0x7F; v >>= 7;
    while(v) { b[n++] = (uint8_t)((v & 0x7F) | 0x80); v >>= 7; }
    while(n) o.push_back(b[--n]);
}
static bool seqEvent(const JV &c, std::vector<uint8_t> &e, int &port)
{
    std::string o = c.gets("o");
    int ch = (int)c.get("ch", 0); port = ch >= 16 ? 1 : 0; int lc = ch & 15;
    if(o == "pc") { e.push_back((uint8_t)(0xC0 | lc)); e.push_back((uint8_t)c.get("p")); }
    else if(o == "cc") { e.push_back((uint8_t)(0xB0 | lc)); e.push_back((uint8_t)c.get("n")); e.push_back((uint8_t)c.get("v")); }
    else if(o == "on") { e.push_back((uint8_t)(0x90 | lc)); e.push_back((uint8_t)c.get("k")); e.push_back((uint8_t)c.get("v")); }
    else if(o == "off") { e.push_back((uint8_t)(0x80 | lc)); e.push_back((uint8_t)c.get("k")); e.push_back(0); }
    else if(o == "bend") { e.push_back((uint8_t)(0xE0 | lc)); e.push_back((uint8_t)(c.get("v") & 127)); e.push_back((uint8_t)((c.get("v") >> 7) & 127)); }
    else if(o == "bendml") { e.push_back((uint8_t)(0xE0 | lc)); e.push_back((uint8_t)c.get("l")); e.push_back((uint8_t)c.get("m")); }
    else if(o == "cat") { e.push_back((uint8_t)(0xD0 | lc)); e.push_back((uint8_t)c.get("v")); }
    else if(o == "nat") { e.push_back((uint8_t)(0xA0 | lc)); e.push_back((uint8_t)c.get("k")); e.push_back((uint8_t)c.get("v")); }
    else return false;
    return true;
}
static bool buildSeqSong(const std::vector<std::string> &lines, size_t from, std::vector<uint8_t> &smf)
{
    std::vector<uint8_t> trk[2]; unsigned last[2] = {0, 0};
    for(int p = 0; p < 2; ++p) { const uint8_t nm[] = {0x00, 0xFF, 0x09, 0x01, (uint8_t)('A' + p)}; trk[p].insert(trk[p].end(), nm, nm + 5); }
    unsigned tick = 0;
    for(size_t li = from; li < lines.size(); ++li)
    {
        JV c; if(!jparse(lines[li], c) || c.t != JV::Obj) return false;
        if(c.gets("o") == "init") break;
        ++tick;
        std::vector<uint8_t> e; int port = 0;
        if(!seqEvent(c, e, port)) return false;
        vlq(trk[port], tick - last[port]); last[port] = tick;
        trk[port].insert(trk[port].end(), e.begin(), e.end());
    }
    for(int p = 0; p < 2; ++p) { vlq(trk[p], tick + 1 - last[p]); const uint8_t eot[] = {0xFF, 0x2F, 0x00}; trk[p].insert(trk[p].end(), eot, eot + 3); }
    const uint8_t hd[] = {'M', 'T', 'h', 'd', 0, 0, 0, 6, 0, 1, 0, 2, 0x01, 0xF4};
    smf.assign(hd, hd + 14);
    for(int p = 0; p < 2; ++p)
    {
        const uint8_t th[] = {'M', 'T', 'r', 'k', (uint8_t)(trk[p].size() >> 24), (uint8_t)(trk[p].size() >> 16), (uint8_t)(trk[p].size() >> 8), (uint8_t)trk[p].size()};
        smf.insert(smf.end(), th, th + 8); smf.insert(smf.end(), trk[p].begin(), trk[p].end());
    }
    return true;
}

static void hangHandler(int sig)
{
    const char *m = "HANG: call did not return: ";
    (void)!write(2, m, strlen(m));
    (void)!write(2, stageBuf, strlen(stageBuf));
    (void)!write(2, "\n", 1);
    crashHandler(sig);
}

static void stage(const char *what, long long a = 0, long long b = 0, long long c = 0)
{
    snprintf(stageBuf, sizeof stageBuf, "%s %lld %lld %lld", what, a, b, c);
    g_stage = stageBuf;
}

// values of a sweep: explicit list "vals" or lo/hi/st
static bool sweepValues(const JV &c, std::vector<int> &out, int maxv)
{
    if(c.has("vals"))
    {
        const JV &v = c["vals"];
        for(size_t i = 0; i < v.a.size(); ++i) out.push_back((int)v.a[i].num());
    }
    else
    {
        int lo = (int)c.get("lo"), hi = (int)c.get("hi"), st = (int)c.get("st", 1);
        if(st == 0) return false;
        for(int x = lo; st > 0 ? x <= hi : x >= hi; x += st) out.push_back(x);
    }
    for(size_t i = 0; i < out.size(); ++i) if(out[i] < 0 || out[i] > maxv) return false;
    return out.size() <= 20000;
}

int main(int argc, char **argv)
{
    if(argc < 3) { fprintf(stderr, "usage: drive_pitch script trace\n"); return 2; }
    std::vector<std::string> lines;
    if(!readLines(argv[1], lines)) { fprintf(stderr, "INFRA: cannot read %s\n", argv[1]); return 2; }
    g_trace = fopen(argv[2], "w");
    if(!g_trace) return 2;
    installCrashHandlers();
    signal(SIGALRM, hangHandler);
    bool seqMode = false; double seqWait = 0.0;
    for(size_t li = 0; li < lines.size(); ++li)
    {
        JV c;
        if(!jparse(lines[li], c) || c.t != JV::Obj) { fprintf(stderr, "INFRA: bad script line %zu\n", li); return 2; }
        std::string o = c.gets("o");
        stage(o.c_str(), c.get("ch", -1), c.get("k", c.get("n", -1)), c.get("v", -1));
        long long r = 0;
        JW w; w.s = lines[li];
        while(!w.s.empty() && (w.s.back() == '\n' || w.s.back() == ' ' || w.s.back() == '\r')) w.s.pop_back();
        w.s.pop_back(); w.first = false;
        if(o == "init")
        {
            alarm(20);
            if(dev) { opn2_close(dev); dev = NULL; }
            delete tap; tap = new Tap();
            dev = opn2_init(44100);
            if(!dev) return 2;
            installTap(dev, tap);
            playerOf(dev)->m_synth->m_verifChanLimit = (uint32_t)c.get("lim", 0);
            opn2_setNumChips(dev, (int)c.get("chips", 1));
            opn2_setChipType(dev, (int)c.get("fam", 0));
            if(installBanks(dev, c["banks"]) != 0) { fprintf(stderr, "INFRA: bank installation failed\n"); return 2; }
            opn2_setAutoArpeggio(dev, (int)c.get("arp", 0));
            seqMode = c.get("seq", 0) != 0;
            if(seqMode)
            {
                std::vector<uint8_t> smf;
                if(!buildSeqSong(lines, li + 1, smf)) { fprintf(stderr, "INFRA: command not available through the sequencer\n"); return 2; }
                if(opn2_openData(dev, smf.data(), (unsigned long)smf.size()) != 0) { fprintf(stderr, "INFRA: generated SMF rejected: %s\n", opn2_errorInfo(dev)); return 2; }
                seqWait = opn2_tickEvents(dev, 0.0, 0.0);      // the row at tick 0: song begin, port names
            }
            tap->clear();
            w.kv("famr", opn2_getChipType(dev));
            w.kv("nch", playerOf(dev)->m_synth->m_numChannels);
            w.s += "}\n"; fputs(w.s.c_str(), g_trace);
            alarm(0);
            continue;
        }
        if(!dev) { fprintf(stderr, "INFRA: command before init\n"); return 2; }
        tap->clear();
        if(o == "sweep")
        {
            std::string ax = c.gets("ax");
            int ch = (int)c.get("ch");
            std::vector<int> vals;
            if(!sweepValues(c, vals, ax == "bend" ? 16383 : 127)) { fprintf(stderr, "INFRA: bad sweep\n"); return 2; }
            w.key("pts"); w.begin_arr();
            for(size_t i = 0; i < vals.size(); ++i)
            {
                int x = vals[i];
                tap->clear();
                alarm(5);
                if(ax == "bend") { stage("sweep-bend", ch, x); opn2_rt_pitchBend(dev, (OPN2_UInt8)ch, (OPN2_UInt16)x); }
                else if(ax == "key") { stage("sweep-key", ch, x); opn2_rt_noteOn(dev, (OPN2_UInt8)ch, (OPN2_UInt8)x, (OPN2_UInt8)c.get("v", 100)); }
                else return 2;
                alarm(0);
                w.begin_arr(); w.num(x); writeOps(w); w.end_arr();
                if(ax == "key") { alarm(5); opn2_rt_noteOff(dev, (OPN2_UInt8)ch, (OPN2_UInt8)x); alarm(0); }
            }
            w.end_arr();
            w.s += "}\n"; fputs(w.s.c_str(), g_trace);
            continue;
        }
        alarm(5);
        if(seqMode) seqWait = opn2_tickEvents(dev, seqWait, 0.0);
        else if(o == "pc") opn2_rt_patchChange(dev, (OPN2_UInt8)c.get("ch"), (OPN2_UInt8)c.get("p"));
        else if(o == "cc") opn2_rt_controllerChange(dev, (OPN2_UInt8)c.get("ch"), (OPN2_UInt8)c.get("n"), (OPN2_UInt8)c.get("v"));
        else if(o == "on") r = opn2_rt_noteOn(dev, (OPN2_UInt8)c.get("ch"), (OPN2_UInt8)c.get("k"), (OPN2_UInt8)c.get("v"));
        else if(o == "off") opn2_rt_noteOff(dev, (OPN2_UInt8)c.get("ch"), (OPN2_UInt8)c.get("k"));
        else if(o == "bend") opn2_rt_pitchBend(dev, (OPN2_UInt8)c.get("ch"), (OPN2_UInt16)c.get("v"));
        else if(o == "bendml") opn2_rt_pitchBendML(dev, (OPN2_UInt8)c.get("ch"), (OPN2_UInt8)c.get("m"), (OPN2_UInt8)c.get("l"));
        else if(o == "cat") opn2_rt_channelAfterTouch(dev, (OPN2_UInt8)c.get("ch"), (OPN2_UInt8)c.get("v"));
        else if(o == "nat") opn2_rt_noteAfterTouch(dev, (OPN2_UInt8)c.get("ch"), (OPN2_UInt8)c.get("k"), (OPN2_UInt8)c.get("v"));
        else if(o == "panic") opn2_panic(dev);
        else if(o == "emu") r = opn2_switchEmulator(dev, (int)c.get("v"));
        else if(o == "chips") r = opn2_setNumChips(dev, (int)c.get("n"));
        else if(o == "tick")
        {
            // time passes (no song is loaded): vibrato, glide and drum life times advance
            double s = (double)c.get("us") / 1e6;
            opn2_tickEvents(dev, s, s);
        }
        else { fprintf(stderr, "INFRA: unknown command %s\n", o.c_str()); return 2; }
        alarm(0);
        w.kv("r", r);
        w.key("w"); writeOps(w);
        w.s += "}\n"; fputs(w.s.c_str(), g_trace);
    }
    if(dev) opn2_close(dev);
    fprintf(g_trace, "{\"o\":\"end\"}\n");
    fclose(g_trace);
    return 0;
}
