// drive_pitch <script.ndjson> <trace.ndjson>
// C10: drives the pitch-relevant part of the real library (NoteOn/NoteOff, pitch bend, RPN 0 bend
// range, program change, pedals, portamento, vibrato controllers, time) and records, for every call,
// the block/F-number writes that reached the chip through the register tap (hook H1):
//   [chipchannel, block, fnum, m]     one frequency write (register A4+cc then A0+cc) with the four
//                                     operator multipliers in force, m = m1 + 16 m2 + 256 m3 + 4096 m4
// A "sweep" command performs one call per value (pitch-bend values, or keys played and released) and
// records one entry [value, writes] per call.
// Nothing is judged here: spec/PitchTrace.tla computes the expected F-numbers and judges the writes.
// Every call runs under alarm(): a call that does not return (F10) ends the process with a Crash record.
#include "vh.hpp"

static OPN2_MIDIPlayer *dev = NULL;
static Tap *tap = NULL;
static char stageBuf[200];
static const size_t MaxOps = 48;        // cap of the per-call log (spec/PitchTrace.tla counts up to 63 writes per call)

static void writeOps(JW &w)
{
    w.begin_arr();
    size_t n = 0;
    for(size_t i = 0; i < tap->ops.size() && n < MaxOps; ++i)
    {
        const TapOp &t = tap->ops[i];
        if(strcmp(t.o, "freq")) continue;
        w.begin_arr(); w.num(t.c); w.num(t.a); w.num(t.b); w.num(t.x[0] + 16 * t.x[1] + 256 * t.x[2] + 4096 * t.x[3]); w.end_arr();
        ++n;
    }
    w.end_arr();
}

static void hangHandler(int sig)
{
    const char *m = "HANG: call did not return: ";
    (void)!write(2, m, strlen(m));
    (void)!write(2, stageBuf, strlen(stageBuf));
    (void)!write(2, "\n", 1);
    crashHandler(sig);
}

static void stage(const char *what, long long a = 0, long long b = 0, long long c = 0)
{
    snprintf(stageBuf, sizeof stageBuf, "%s %lld %lld %lld", what, a, b, c);
    g_stage = stageBuf;
}

// values of a sweep: explicit list "vals" or lo/hi/st
static bool sweepValues(const JV &c, std::vector<int> &out, int maxv)
{
    if(c.has("vals"))
    {
        const JV &v = c["vals"];
        for(size_t i = 0; i < v.a.size(); ++i) out.push_back((int)v.a[i].num());
    }
    else
    {
        int lo = (int)c.get("lo"), hi = (int)c.get("hi"), st = (int)c.get("st", 1);
        if(st == 0) return false;
        for(int x = lo; st > 0 ? x <= hi : x >= hi; x += st) out.push_back(x);
    }
    for(size_t i = 0; i < out.size(); ++i) if(out[i] < 0 || out[i] > maxv) return false;
    return out.size() <= 20000;
}

int main(int argc, char **argv)
{
    if(argc < 3) { fprintf(stderr, "usage: drive_pitch script trace\n"); return 2; }
    std::vector<std::string> lines;
    if(!readLines(argv[1], lines)) { fprintf(stderr, "INFRA: cannot read %s\n", argv[1]); return 2; }
    g_trace = fopen(argv[2], "w");
    if(!g_trace) return 2;
    installCrashHandlers();
    signal(SIGALRM, hangHandler);
    for(size_t li = 0; li < lines.size(); ++li)
    {
        JV c;
        if(!jparse(lines[li], c) || c.t != JV::Obj) { fprintf(stderr, "INFRA: bad script line %zu\n", li); return 2; }
        std::string o = c.gets("o");
        stage(o.c_str(), c.get("ch", -1), c.get("k", c.get("n", -1)), c.get("v", -1));
        long long r = 0;
        JW w; w.s = lines[li];
        while(!w.s.empty() && (w.s.back() == '\n' || w.s.back() == ' ' || w.s.back() == '\r')) w.s.pop_back();
        w.s.pop_back(); w.first = false;
        if(o == "init")
        {
            alarm(20);
            if(dev) { opn2_close(dev); dev = NULL; }
            delete tap; tap = new Tap();
            dev = opn2_init(44100);
            if(!dev) return 2;
            installTap(dev, tap);
            playerOf(dev)->m_synth->m_verifChanLimit = (uint32_t)c.get("lim", 0);
            opn2_setNumChips(dev, (int)c.get("chips", 1));
            opn2_setChipType(dev, (int)c.get("fam", 0));
            if(installBanks(dev, c["banks"]) != 0) { fprintf(stderr, "INFRA: bank installation failed\n"); return 2; }
            opn2_setAutoArpeggio(dev, (int)c.get("arp", 0));
            tap->clear();
            w.kv("famr", opn2_getChipType(dev));
            w.kv("nch", playerOf(dev)->m_synth->m_numChannels);
            w.s += "}\n"; fputs(w.s.c_str(), g_trace);
            alarm(0);
            continue;
        }
        if(!dev) { fprintf(stderr, "INFRA: command before init\n"); return 2; }
        tap->clear();
        if(o == "sweep")
        {
            std::string ax = c.gets("ax");
            int ch = (int)c.get("ch");
            std::vector<int> vals;
            if(!sweepValues(c, vals, ax == "bend" ? 16383 : 127)) { fprintf(stderr, "INFRA: bad sweep\n"); return 2; }
            w.key("pts"); w.begin_arr();
            for(size_t i = 0; i < vals.size(); ++i)
            {
                int x = vals[i];
                tap->clear();
                alarm(5);
                if(ax == "bend") { stage("sweep-bend", ch, x); opn2_rt_pitchBend(dev, (OPN2_UInt8)ch, (OPN2_UInt16)x); }
                else if(ax == "key") { stage("sweep-key", ch, x); opn2_rt_noteOn(dev, (OPN2_UInt8)ch, (OPN2_UInt8)x, (OPN2_UInt8)c.get("v", 100)); }
                else return 2;
                alarm(0);
                w.begin_arr(); w.num(x); writeOps(w); w.end_arr();
                if(ax == "key") { alarm(5); opn2_rt_noteOff(dev, (OPN2_UInt8)ch, (OPN2_UInt8)x); alarm(0); }
            }
            w.end_arr();
            w.s += "}\n"; fputs(w.s.c_str(), g_trace);
            continue;
        }
        alarm(5);
        if(o == "pc") opn2_rt_patchChange(dev, (OPN2_UInt8)c.get("ch"), (OPN2_UInt8)c.get("p"));
        else if(o == "cc") opn2_rt_controllerChange(dev, (OPN2_UInt8)c.get("ch"), (OPN2_UInt8)c.get("n"), (OPN2_UInt8)c.get("v"));
        else if(o == "on") r = opn2_rt_noteOn(dev, (OPN2_UInt8)c.get("ch"), (OPN2_UInt8)c.get("k"), (OPN2_UInt8)c.get("v"));
        else if(o == "off") opn2_rt_noteOff(dev, (OPN2_UInt8)c.get("ch"), (OPN2_UInt8)c.get("k"));
        else if(o == "bend") opn2_rt_pitchBend(dev, (OPN2_UInt8)c.get("ch"), (OPN2_UInt16)c.get("v"));
        else if(o == "bendml") opn2_rt_pitchBendML(dev, (OPN2_UInt8)c.get("ch"), (OPN2_UInt8)c.get("m"), (OPN2_UInt8)c.get("l"));
        else if(o == "cat") opn2_rt_channelAfterTouch(dev, (OPN2_UInt8)c.get("ch"), (OPN2_UInt8)c.get("v"));
        else if(o == "nat") opn2_rt_noteAfterTouch(dev, (OPN2_UInt8)c.get("ch"), (OPN2_UInt8)c.get("k"), (OPN2_UInt8)c.get("v"));
        else if(o == "tick")
        {
            // time passes (no song is loaded): vibrato, glide and drum life times advance
            double s = (double)c.get("us") / 1e6;
            opn2_tickEvents(dev, s, s);
        }
        else { fprintf(stderr, "INFRA: unknown command %s\n", o.c_str()); return 2; }
        alarm(0);
        w.kv("r", r);
        w.key("w"); writeOps(w);
        w.s += "}\n"; fputs(w.s.c_str(), g_trace);
    }
    if(dev) opn2_close(dev);
    fprintf(g_trace, "{\"o\":\"end\"}\n");
    fclose(g_trace);
    return 0;
}
