"""C03 generators: fixed input assets (WOPN banks, SMF songs, rejected files) and call histories for
harness/drive_api.cpp.

The ALPHABET (functions x boundary classes) is owned by spec/ApiSurface.tla; this module only
  * encodes the assets named in ApiSurface!Assets into bytes (trusted encoders, ~60 lines),
  * turns TLC output (BEHAVIOUR / WITNESS / CALLS lines of spec/ApiSurfaceMC.tla) into histories,
  * builds the one-class-at-a-time sweeps from the CALLS enumeration printed by TLC."""
import json, os, random, re, struct

RATES = [8000, 44100, 53267, 192000]


# ------------------------------------------------------------------ WOPN (version 2) encoder
def _ins(tok, blank=False, noff=0, drum=0):
    name = (b"ins%d" % tok).ljust(32, b"\0")
    ops = b""
    for op in range(4):
        ops += bytes([(tok + op) % 16, [20, 30, 40, 10][op], 0x1F, 0x00, (tok >> (5 * (op == 2))) & 0x1F if op in (1, 2) else 0, 0x0F, 0x00])
    body = name + struct.pack(">h", noff) + bytes([drum, 0x07 | ((tok % 8) << 3), tok % 48]) + ops
    body += struct.pack(">HH", 0, 0) if blank else struct.pack(">HH", 400 + tok % 50, 200 + tok % 50)
    assert len(body) == 69
    return body


def wopn(banks, flags=0):
    """banks: list of (percussive, msb, lsb, blank_indices)."""
    mel = [b for b in banks if not b[0]]
    per = [b for b in banks if b[0]]
    out = b"WOPN2-B2NK\0" + struct.pack("<H", 2) + struct.pack(">HH", len(mel), len(per)) + bytes([flags])
    for b in mel + per:
        out += (b"bank%d:%d" % (b[1], b[2])).ljust(32, b"\0") + bytes([b[2], b[1]])
    for b in mel + per:
        for i in range(128):
            out += _ins(i + 1, blank=(i in b[3]), drum=(35 + i % 40 if b[0] else 0))
    return out


# ------------------------------------------------------------------ SMF encoder
def _vlq(n):
    out = [n & 0x7F]
    n >>= 7
    while n:
        out.insert(0, (n & 0x7F) | 0x80)
        n >>= 7
    return bytes(out)


def _meta(t, data):
    return bytes([0xFF, t]) + _vlq(len(data)) + data


def smf(tracks, division=96, fmt=1):
    out = b"MThd" + struct.pack(">IHHH", 6, fmt, len(tracks), division)
    for evs in tracks:
        body = b""
        for (dt, raw) in evs:
            body += _vlq(dt) + raw
        body += _vlq(0) + _meta(0x2F, b"")
        out += b"MTrk" + struct.pack(">I", len(body)) + body
    return out


def song1():
    """format 1, 3 tracks (conductor + 2), titles, 3 markers incl. loopStart/loopEnd, MIDI channels 5-7 only (the real-time
    calls of the alphabet address channels 0, 1, 9, 15), about 0.9 s."""
    t0 = [(0, _meta(0x03, b"C03 song one")), (0, _meta(0x02, b"(c) verif")), (0, _meta(0x51, bytes([0x07, 0xA1, 0x20]))),
          (0, _meta(0x06, b"intro")), (48, _meta(0x06, b"loopStart")), (96, _meta(0x06, b"loopEnd")), (24, _meta(0x01, b"text"))]
    t1 = [(0, _meta(0x03, b"lead")), (0, bytes([0xC5, 5])), (0, bytes([0xB5, 7, 100])), (0, bytes([0x95, 60, 100])), (24, bytes([0x95, 64, 90])),
          (24, bytes([0x85, 60, 0])), (0, bytes([0xE5, 0, 80])), (24, bytes([0x85, 64, 0])), (0, bytes([0x95, 67, 110])), (48, bytes([0x85, 67, 0])),
          (0, bytes([0xB5, 64, 127])), (0, bytes([0x95, 72, 100])), (24, bytes([0x85, 72, 0])), (12, bytes([0xB5, 64, 0]))]
    t2 = [(0, _meta(0x03, b"bass")), (0, bytes([0xC6, 33])), (0, bytes([0x96, 36, 100])), (0, bytes([0x97, 48, 100])), (48, bytes([0x86, 36, 0])),
          (0, bytes([0xF0]) + _vlq(4) + bytes([0x7D, 0x01, 0x02, 0xF7])), (24, bytes([0x96, 38, 100])), (24, bytes([0x87, 48, 0])),
          (48, bytes([0x86, 38, 0])), (0, bytes([0xD6, 40])), (0, bytes([0xA6, 38, 10]))]
    return smf([t0, t1, t2])


def song2():
    """format 0, one track, no loop points, no titles, about 0.15 s."""
    t = [(0, bytes([0xC5, 0])), (0, bytes([0x95, 60, 100])), (12, bytes([0x95, 62, 100])), (12, bytes([0x85, 60, 0])), (6, bytes([0x85, 62, 0]))]
    return smf([t], fmt=0)


def assets():
    rng = random.Random(3)
    b1 = wopn([(0, 0, 0, ()), (1, 0, 0, ())])
    b2 = wopn([(0, 0, 0, ()), (0, 1, 0, (1, 2, 3)), (0, 0, 1, tuple(range(128))), (1, 0, 0, ()), (1, 0, 1, (35,))], flags=0x10 | 0x08 | 3)
    s1, s2 = song1(), song2()
    good = [(0, _meta(0x03, b"ok")), (0, bytes([0x95, 60, 100])), (24, bytes([0x85, 60, 0]))]
    # rejected in the middle: a well-formed header and first track, then a track the event parser gives up on
    sbadtrk = smf([good, [(0, bytes([0xFF, 0x03, 0x7F, 0x41, 0x42]))], good])               # meta text longer than its track
    sbadvlq = smf([good, [(0, bytes([0x95, 61, 100]))]])
    k = sbadvlq.rindex(b"MTrk") + 8
    sbadvlq = sbadvlq[:k] + bytes([0xFF, 0xFF, 0xFF, 0xFF, 0xFF]) + sbadvlq[k + 5:]          # delta time that never ends
    a = {
        "b1": b1, "b2": b2, "bgarb": bytes(rng.randrange(256) for _ in range(97)), "btrunc": b1[:1000], "bempty": b"",
        "s1": s1, "s2": s2, "sgarb": bytes(rng.randrange(256) for _ in range(131)), "strunc": s1[:40], "sempty": b"",
        "sbadtrk": sbadtrk, "sbadvlq": sbadvlq,
        # EA-MUS/RSXX: first byte = offset of the music (>= 0x5D), "rsxx}u" 16 bytes before it; loading it locks the setup
        "srsxx": bytes([93]) + bytes(76) + b"rsxx}u" + bytes(10) + bytes([0x00, 0x90, 60, 100, 0x10, 0x80, 60, 0, 0x00, 0xFF, 0x2F, 0x00]),
    }
    return {k: list(v) for k, v in a.items()}


def write_assets(path):
    os.makedirs(os.path.dirname(path), exist_ok=True)
    tmp = "%s.%d.tmp" % (path, os.getpid())
    with open(tmp, "w") as f:
        json.dump(assets(), f, separators=(",", ":"))
    os.replace(tmp, path)
    return path


# ------------------------------------------------------------------ TLC output -> histories
def _unescape(s):
    return s.encode().decode("unicode_escape") if "\\" in s else s


def parse_lines(out, tag):
    """JSON payloads of lines  <<"TAG", "json">>  printed by TLC."""
    res = []
    for line in out.splitlines():
        m = re.match(r'<<"%s", "(.*)">>$' % tag, line.strip())
        if m:
            try:
                res.append(json.loads(_unescape(m.group(1))))
            except ValueError:
                pass
    return res


def init(rate=44100):
    return {"e": "Init", "rate": rate}


def norm(ev):
    """TLC prints records with sorted keys: the harness / pipeline want "e" first."""
    d = {"e": ev["e"]}
    for k, v in ev.items():
        if k != "e":
            d[k] = v
    return d


def behaviour_history(evs, rate=44100):
    evs = [norm(e) for e in evs]
    if evs and evs[0]["e"] == "Init":
        return evs
    return [init(rate)] + evs


# contexts of the sweeps: fresh instance / bank loaded / bank and song loaded / DMX volume model with a sounding note
CONTEXTS = {
    "fresh": [],
    "bank": [{"e": "openBankData", "a": "b1"}],
    "song": [{"e": "openBankData", "a": "b2"}, {"e": "openData", "a": "s1"}, {"e": "setLoopEnabled", "v": 1}],
    "note": [{"e": "openBankData", "a": "b1"}, {"e": "rt_noteOn", "ch": 0, "k": 64, "v": 127}, {"e": "rt_noteOn", "ch": 9, "k": 64, "v": 127}],
    # a burst of simultaneous drum hits that fills the chip channels of several chips (noteBurst = cnt x opn2_rt_noteOn, keys k, k+1, ...):
    # the swept call follows inside the 30 ms minimal life time of the notes; ApiSurfaceMC!Sfx appends a render and a tick
    "drums": [{"e": "openBankData", "a": "b1"}, {"e": "setNumChips", "n": 4}, {"e": "noteBurst", "ch": 9, "k": 35, "cnt": 22, "v": 127}],
}
# (the contexts actually run are ApiSurfaceMC!Ctx: TLC prints complete SWEEP histories; this table documents the first ones)


def sweep_histories(calls_by_ctx, rng, per_history=40):
    """calls_by_ctx: {context: [events with field hz = 1 if the model predicts a hazard]} as enumerated by TLC.
    Hazard-free calls are chained (per_history per history, shuffled); every hazardous call gets its own history."""
    hs = []
    for ctx, calls in sorted(calls_by_ctx.items()):
        pre = CONTEXTS[ctx]
        safe = [norm({k: v for k, v in c.items() if k != "hz"}) for c in calls if not c.get("hz")]
        haz = [norm({k: v for k, v in c.items() if k != "hz"}) for c in calls if c.get("hz")]
        rng.shuffle(safe)
        for i in range(0, len(safe), per_history):
            hs.append([init(rng.choice(RATES))] + pre + safe[i:i + per_history])
        for c in haz:
            hs.append([init(44100)] + pre + [c])
    return hs
