"""Histories for the loudness check (C11): full 0..127 sweeps of every control on grids of the other
controls, brightness sweeps, exhaustive short call sequences, boundary cases, seeded random
histories, and conversion of TLC-generated walks (spec/LevelMC.tla BEHAVIOUR lines).

A history is a list of commands for harness/drive_level; the first one is an init command.
  {"o":"init","vm":0..5,"smod":0|1,"frb":0|1,"lim":0,"banks":[...]}
  {"o":"pc","ch":c,"p":p}   {"o":"cc","ch":c,"n":7|11|74|67,"v":x}   {"o":"mv","v":mm,"l":ll}
  {"o":"on","ch":c,"k":k,"v":vel}   {"o":"off","ch":c,"k":k}   {"o":"set","s":"vm"|"smod"|"frb","v":x}
  {"o":"sweep","ax":"vel"|"vol"|"expr"|"mv"|"bright","ch":c,"k":k,"lo":a,"hi":b,"st":+-s}
  {"o":"gen","fr":frames,"blk":frames per opn2_generate call}     time passes (arpeggio turns, notes end)
  {"o":"bend","ch":c,"v":0..16383}                                pitch bend (re-keys the notes of the channel)
init options: "rsxx":1 EA-MUS music mode (a tiny song is loaded first), "arp":1 automatic arpeggio on, "lim":n only n chip channels, "kon":1 record every key-on of a chip
channel with the TL registers in force and the note that owns the channel (+ the sounding notes after every call).
"""
import itertools, random

AXES = ["vel", "vol", "expr", "mv"]
KEY = 60
DRUM0 = 35          # percussion keys DRUM0 + alg

# four TL bytes per algorithm (register order 40,44,48,4C); variants differ in the bytes
TLSETS = [
    [[20, 30, 40, 10], [25, 35, 45, 5], [33, 22, 11, 0], [40, 50, 60, 8], [18, 28, 12, 6], [30, 9, 14, 3], [45, 7, 5, 2], [12, 8, 4, 0]],
    [[0, 127, 64, 1], [127, 0, 1, 64], [1, 2, 3, 127], [126, 125, 124, 0], [63, 64, 0, 127], [127, 127, 127, 127], [0, 0, 0, 0], [100, 1, 126, 37]],
]


def ins(i, alg, tl, veloff=0, fb=5, drum=0, ident=None):
    return {"i": i, "id": (ident if ident is not None else 1 + i % 1000), "kon": 500, "koff": 300, "drum": drum, "noff": 0, "flags": 0,
            "fbalg": fb * 8 + alg, "veloff": veloff, "lfosens": 0, "tl": list(tl), "mul": [1, 1, 1, 1]}


def banks(tlset=0, veloffs=None, tls=None):
    """melodic bank 0: programs 0..7 = algorithms 0..7; percussive bank 0: keys 35..42 = algorithms 0..7"""
    tls = tls or TLSETS[tlset]
    veloffs = veloffs or [0] * 8
    mel = [ins(a, a, tls[a], veloffs[a], fb=a % 8, ident=1 + a) for a in range(8)]
    perc = [ins(DRUM0 + a, a, tls[a], veloffs[a], fb=(a + 3) % 8, drum=48 + a, ident=101 + a) for a in range(8)]
    return [{"p": 0, "msb": 0, "lsb": 0, "ins": mel}, {"p": 1, "msb": 0, "lsb": 0, "ins": perc}]


def init(vm, smod=0, frb=0, tlset=0, veloffs=None, tls=None, ports=1, arp=0, lim=0, kon=0, kon_ms=None, rsxx=0):
    d = {"o": "init", "vm": vm, "smod": smod, "frb": frb, "lim": lim, "banks": banks(tlset, veloffs, tls)}
    if ports > 1:
        d["ports"] = ports       # channels 16..31 = second MIDI port (as in a song with FF 09 device names)
    if arp:
        d["arp"] = 1
    if kon:
        d["kon"] = 1
    if rsxx:
        d["rsxx"] = 1            # an EA-MUS song is loaded first: music mode RSXX (locked set-up, re-strikes update the velocity)
    if kon_ms is not None:       # how long a held note of the bank counts as sounding (the arpeggio drops it afterwards)
        for b in d["banks"]:
            for i in b["ins"]:
                i["kon"] = kon_ms
    return d


def gen(ms, blk=128):
    return {"o": "gen", "fr": max(1, ms * 441 // 10), "blk": blk}


def set_axis(ax, ch, k, x, l=0):
    if ax == "vel": return {"o": "on", "ch": ch, "k": k, "v": x}
    if ax == "vol": return {"o": "cc", "ch": ch, "n": 7, "v": x}
    if ax == "expr": return {"o": "cc", "ch": ch, "n": 11, "v": x}
    if ax == "bright": return {"o": "cc", "ch": ch, "n": 74, "v": x}
    if ax == "mv": return {"o": "mv", "v": x, "l": l}
    raise ValueError(ax)


def sweep(ax, ch, k, lo=0, hi=127, st=1):
    return {"o": "sweep", "ax": ax, "ch": ch, "k": k, "lo": lo, "hi": hi, "st": st}


def full_sweep(ax, ch, k, down=False):
    return sweep(ax, ch, k, 127, 0, -1) if down else sweep(ax, ch, k, 0, 127, 1)


# ------------------------------------------------------------------ full sweeps on a grid
def sweep_histories(grid, variants=2, per_history=16):
    """For every volume model: every loudness axis swept 0..127 at every combination of the other
    three controls on `grid`; the work is dealt to histories that rotate algorithm (program change),
    modulator scaling, brightness setting, the percussion channel and the TL bytes.  Every history
    ends with CC74 sweeps under both settings of the full-range flag."""
    out = []
    for vm in (1, 2, 3, 4, 5):
        work = []
        for ax in AXES:
            others = [a for a in AXES if a != ax]
            for combo in itertools.product(grid, repeat=3):
                work.append((ax, dict(zip(others, combo))))
        nh = max(16 * variants, (len(work) + per_history - 1) // per_history)
        for h in range(nh):
            alg, smod, var = h % 8, (h // 8) % 2, (h // 16)
            frb = var % 2
            perc = (h % 7 == 6)
            ch, k = (9, DRUM0 + alg) if perc else (h % 3, KEY + (h % 5))
            hist = [init(vm, smod, frb, tlset=var % 2)]
            if not perc:
                hist.append({"o": "pc", "ch": ch, "p": alg})
            if var % 2 == 1:
                hist.append({"o": "cc", "ch": ch, "n": 74, "v": [40, 90, 3, 126][(h // 2) % 4]})
            cur = {"vel": None, "vol": 100, "expr": 127, "mv": 127}
            mine = work[h::nh]
            for j, (ax, oth) in enumerate(mine):
                # the note must sound before CC sweeps; velocity 0 is "no note": use 1 as the lowest fixed velocity
                order = ["vol", "expr", "mv", "vel"]
                for a in order:
                    if a == ax:
                        continue
                    x = oth[a]
                    if a == "vel" and x == 0:
                        x = 1
                    if cur[a] != x:
                        hist.append(set_axis(a, ch, k, x, l=(j * 37) % 128))
                        cur[a] = x
                down = (j + h) % 2 == 1
                hist.append(full_sweep(ax, ch, k, down))
                cur[ax] = 0 if down else 127
                if ax == "vel" and down:
                    cur["vel"] = None
            # brightness sweeps: note sounding at a moderate level, both range modes
            if cur["vel"] is None or cur["vel"] == 0:
                hist.append(set_axis("vel", ch, k, 100)); cur["vel"] = 100
            for a, x in (("vol", 100), ("expr", 127), ("mv", 127)):
                if cur[a] != x:
                    hist.append(set_axis(a, ch, k, x)); cur[a] = x
            hist.append(full_sweep("bright", ch, k, down=(h % 2 == 0)))
            hist.append({"o": "set", "s": "frb", "v": 1 - frb})
            hist.append(full_sweep("bright", ch, k, down=(h % 2 == 1)))
            out.append(hist)
    return out


# ------------------------------------------------------------------ two MIDI ports
def port_histories():
    """A note of the second port is levelled by the controls of ITS channel (16 + c), whatever channel c of the first port
    holds: sweeps and zero tests on port B while port A's same-numbered channel sits at other values."""
    out = []
    for vm in (0, 1, 2, 3, 4, 5):
        for (a, b) in ((1, 17), (9, 25), (0, 16)):
            h = [init(vm, 0, 1, tlset=0, ports=2)]
            key = KEY if b % 16 != 9 else 36
            h += [{"o": "pc", "ch": a, "p": 4}, {"o": "pc", "ch": b, "p": 4},
                  {"o": "cc", "ch": a, "n": 7, "v": 40}, {"o": "cc", "ch": a, "n": 11, "v": 30}, {"o": "cc", "ch": a, "n": 74, "v": 20},
                  {"o": "on", "ch": b, "k": key, "v": 100},
                  full_sweep("vol", b, key), full_sweep("expr", b, key, down=True), {"o": "cc", "ch": b, "n": 11, "v": 127},
                  {"o": "cc", "ch": a, "n": 7, "v": 127}, {"o": "cc", "ch": b, "n": 7, "v": 0}, {"o": "cc", "ch": b, "n": 7, "v": 100},
                  {"o": "cc", "ch": a, "n": 7, "v": 3}, {"o": "cc", "ch": b, "n": 7, "v": 120},
                  full_sweep("bright", b, key, down=True), {"o": "cc", "ch": a, "n": 74, "v": 127}, full_sweep("bright", b, key),
                  {"o": "on", "ch": a, "k": key, "v": 90}, full_sweep("vol", a, key), {"o": "off", "ch": a, "k": key}, {"o": "off", "ch": b, "k": key}]
            out.append(h)
    return out


# ------------------------------------------------------------------ congestion: notes sharing / stealing chip channels
def congestion_history(rng, arp=None, vm=None, longer=False, bends=False):
    """More simultaneous notes than chip channels.  With the automatic arpeggio the notes of one patch that were started
    within 70 ms time-share a chip channel: every tick re-levels, re-pitches and re-keys the channel for the note whose
    turn it is.  Notes of 2-3 MIDI channels with their own CC7 / CC11 / CC74 (incl. zero) and velocities, distinct keys;
    then time passes in small blocks, with controller changes in between.  Without the arpeggio (and for notes of another
    patch, or older than 70 ms) a new note steals the channel or, with the arpeggio, the old note is evacuated.
    bends = True adds pitch-bend events: a bend re-pitches AND re-keys every note of the MIDI channel (noteUpdateAll(Upd_Pitch)),
    also one that shares (or shared) its chip channel with a note of another MIDI channel."""
    arp = rng.random() < 0.7 if arp is None else arp
    vm = rng.choice([0, 1, 2, 3, 4, 5]) if vm is None else vm
    lim = rng.choice([0, 0, 0, 2, 3])
    nchan = lim or 6
    ports = 2 if rng.random() < 0.15 else 1
    tls = None if rng.random() < 0.5 else [[rng.choice([0, 1, 63, 64, 126, 127, rng.randrange(128)]) for _ in range(4)] for _ in range(8)]
    veloffs = [rng.choice([0, 0, 0, rng.randrange(-40, 40)]) for _ in range(8)]
    h = [init(vm, rng.randrange(2) if rng.random() < 0.3 else 0, rng.randrange(2), tlset=rng.randrange(2), tls=tls, veloffs=veloffs,
              ports=ports, arp=int(arp), lim=lim, kon=1, kon_ms=rng.choice([3000, 3000, 400, 40000]))]
    chans = rng.sample([0, 1, 2, 3, 4, 5, 6, 7, 8, 10, 11, 12, 13, 14, 15] + ([16, 17, 20, 31] if ports > 1 else []), rng.choice([2, 3, 3]))
    prog = rng.randrange(8)
    other = (prog + 1 + rng.randrange(7)) % 8
    mixed = rng.random() < 0.3           # one channel plays another patch: stealing / evacuation instead of sharing
    zero_ax = rng.choice([7, 7, 11, None])
    loud = {}
    for j, c in enumerate(chans):
        h.append({"o": "pc", "ch": c, "p": other if (mixed and j == len(chans) - 1) else prog})
        vol, expr = rng.choice([127, 100, 64, 20, 1]), rng.choice([127, 127, 90, 33])
        if j == 1 and zero_ax == 7: vol = 0
        if j == 1 and zero_ax == 11: expr = 0
        loud[c] = [vol, expr]
        h.append({"o": "cc", "ch": c, "n": 7, "v": vol})
        h.append({"o": "cc", "ch": c, "n": 11, "v": expr})
        if rng.random() < 0.3:
            h.append({"o": "cc", "ch": c, "n": 74, "v": rng.choice([0, 20, 63, 64, 100, 127])})
        if rng.random() < 0.15:
            h.append({"o": "cc", "ch": c, "n": 67, "v": 127})
    if rng.random() < 0.2:
        h.append({"o": "mv", "v": rng.choice([0, 1, 64, 100]), "l": 0})
    nnotes = nchan + rng.choice([1, 1, 2, 3, 4] + ([6, 9] if longer else []))
    keys = rng.sample(range(36, 96), nnotes)
    vels = [rng.choice([127, 127, 100, 64, 1, rng.randrange(1, 128)]) for _ in range(nnotes)]
    if rng.random() < 0.5:
        vels = [vels[0]] * nnotes        # equal velocities: the notes differ in CC7 / CC11 only
    order = [chans[i % len(chans)] for i in range(nnotes)]
    if rng.random() < 0.5:
        rng.shuffle(order)
    gap = rng.choice([0, 0, 0, 5, 12, 100])     # ms between note-ons (100: no sharing, the old note is killed / evacuated)
    sounding = []
    # now and then drums join in (every drum key is an instrument of its own: they steal, or make melodic notes move over)
    drums = rng.sample(range(DRUM0, DRUM0 + 8), rng.choice([1, 2, 3])) if rng.random() < 0.25 else []
    if drums:
        h.append({"o": "cc", "ch": 9, "n": 7, "v": rng.choice([127, 100, 0, 50])})
    drum_at = {rng.randrange(nnotes): d for d in drums}
    for j, (c, k, v) in enumerate(zip(order, keys, vels)):
        if j in drum_at:
            h.append({"o": "on", "ch": 9, "k": drum_at[j], "v": rng.choice([127, 80, 1])})
        h.append({"o": "on", "ch": c, "k": k, "v": v})
        sounding.append((c, k))
        if gap and rng.random() < 0.6:
            h.append(gen(gap, 64))
    total = rng.choice([200, 300, 450, 600]) * (2 if longer else 1)
    blk = rng.choice([32, 64, 128, 128, 256, 512])
    spent = 0
    while spent < total:
        ms = rng.choice([15, 30, 50, 80])
        h.append(gen(ms, blk)); spent += ms
        r = rng.random()
        c = rng.choice(chans)
        if r < 0.25:
            h.append({"o": "cc", "ch": c, "n": rng.choice([7, 7, 11]), "v": rng.choice([0, 1, 64, 127, rng.randrange(128)])})
        elif r < 0.32:
            h.append({"o": "mv", "v": rng.choice([0, 1, 64, 127, rng.randrange(128)]), "l": rng.randrange(128)})
        elif r < 0.38:
            h.append({"o": "cc", "ch": c, "n": 74, "v": rng.choice([0, 32, 63, 64, 127])})
        elif r < 0.46 and sounding:
            cc, kk = sounding.pop(rng.randrange(len(sounding)))
            h.append({"o": "off", "ch": cc, "k": kk})
        elif bends and r > 0.9:
            h.append({"o": "bend", "ch": c, "v": rng.choice([0, 4096, 8192, 9000, 16383])})
        elif r < 0.52:
            k = rng.choice([x for x in range(36, 96) if x not in keys]); keys.append(k)
            h.append({"o": "on", "ch": c, "k": k, "v": rng.choice([127, 64, 1, rng.randrange(1, 128)])}); sounding.append((c, k))
    for (c, k) in sounding:
        h.append({"o": "off", "ch": c, "k": k})
    h.append(gen(20, 128))
    return h


def congestion_histories(rng, n, longer=False, bends=False):
    out = []
    # the plain situations first, for every volume model: seven notes of one patch on six chip channels, the odd one on
    # a second MIDI channel that is silent (CC7 / CC11 = 0) or softer; then the controllers of both channels move
    for vm in (1, 2, 3, 4, 5):
        for arp in (1, 0):
            for (na, nb, va, vb, odd) in ((7, 7, 100, 0, 0), (11, 11, 100, 0, 6), (7, 7, 100, 40, 6)):
                h = [init(vm, 0, 0, tlset=0, arp=arp, kon=1, kon_ms=3000), {"o": "pc", "ch": 0, "p": 4}, {"o": "pc", "ch": 1, "p": 4},
                     {"o": "cc", "ch": 0, "n": na, "v": va}, {"o": "cc", "ch": 1, "n": nb, "v": vb}]
                keys = list(range(48, 55))
                for i, k in enumerate(keys):     # the first and the last note share a chip channel
                    h.append({"o": "on", "ch": 1 if i == odd else 0, "k": k, "v": 127})
                h += [gen(100, 128), {"o": "cc", "ch": 0, "n": na, "v": 127}, gen(100, 128), {"o": "cc", "ch": 1, "n": nb, "v": 64}, gen(100, 64),
                      {"o": "cc", "ch": 0, "n": na, "v": 0}, gen(100, 256), {"o": "mv", "v": 64, "l": 0}, gen(60, 128)]
                h += [{"o": "off", "ch": 1 if i == odd else 0, "k": k} for i, k in enumerate(keys)]
                out.append(h)
    while len(out) < n:
        out.append(congestion_history(rng, longer=longer, bends=bends))
    return out[:n]


# ------------------------------------------------------------------ EA-MUS (RSXX) mode: re-strikes
RSXX_OFFS = [-128, -20, -1, 0, 1, 127]


def ladder(off):
    """velocities around the point where velocity + offset crosses the clamps"""
    a = abs(off)
    xs = {1, 2, 64, 126, 127, a - 1, a, a + 1, a + 2, 127 - a - 1, 127 - a, 127 - a + 1}
    return sorted(x for x in xs if 1 <= x <= 127)


def rsxx_history(rng, offs=None, perc=None, vm=None):
    """Music mode RSXX: a NoteOn for a key that is sounding is a velocity update of the sounding note.  Instruments with
    velocity offsets (every program / drum key its own), a first strike, then ladders of re-strikes going down and up through
    1, |offset| - 1, |offset|, |offset| + 1, 127, full velocity sweeps, other controls in between; melodic and percussion
    channels; every volume model is asked for (the lock keeps Generic in force) and set again on the way."""
    offs = offs or [rng.choice(RSXX_OFFS + [rng.randrange(-128, 128)]) for _ in range(8)]
    vm = rng.randrange(6) if vm is None else vm
    tls = None if rng.random() < 0.6 else [[rng.choice([0, 1, 63, 64, 126, 127, rng.randrange(128)]) for _ in range(4)] for _ in range(8)]
    h = [init(vm, rng.randrange(2), rng.randrange(2), tlset=rng.randrange(2), tls=tls, veloffs=list(offs), rsxx=1)]
    algs = rng.sample(range(8), rng.choice([2, 3, 4]))
    for j, alg in enumerate(algs):
        pc_ = (rng.random() < 0.3) if perc is None else perc
        ch, k = (9, DRUM0 + alg) if pc_ else (rng.choice([0, 1, 2, 5, 15]), KEY + j)
        off = offs[alg]
        if not pc_:
            h.append({"o": "pc", "ch": ch, "p": alg})
        if rng.random() < 0.4:
            h.append({"o": "cc", "ch": ch, "n": 7, "v": rng.choice([127, 100, 64, 1])})
        if rng.random() < 0.2:
            h.append({"o": "cc", "ch": ch, "n": 67, "v": 127})       # the soft pedal acts on the first strike only
        lad = ladder(off)
        h.append({"o": "on", "ch": ch, "k": k, "v": rng.choice([127, 100, lad[len(lad) // 2]])})
        for x in reversed(lad):
            h.append({"o": "on", "ch": ch, "k": k, "v": x})
        if rng.random() < 0.3:
            h.append({"o": "set", "s": "vm", "v": rng.randrange(6)})
        for x in lad:
            h.append({"o": "on", "ch": ch, "k": k, "v": x})
        r = rng.random()
        if r < 0.4:
            h.append(sweep("vel", ch, k, 127, 1, -1) if rng.random() < 0.5 else sweep("vel", ch, k, 1, 127, 1))
        elif r < 0.7:
            a = abs(off)
            lo, hi = max(1, a - 6), min(127, a + 6)
            h += [sweep("vel", ch, k, hi, lo, -1), sweep("vel", ch, k, lo, hi, 1)]
        if rng.random() < 0.5:
            h += [{"o": "cc", "ch": ch, "n": 11, "v": rng.choice([0, 64, 127])}, {"o": "on", "ch": ch, "k": k, "v": rng.choice(lad)},
                  {"o": "cc", "ch": ch, "n": 11, "v": 127}]
        if rng.random() < 0.5:
            # released and struck again: a new note (on the percussion channel the released note lives on: still a re-strike)
            h += [{"o": "off", "ch": ch, "k": k}, {"o": "on", "ch": ch, "k": k, "v": rng.choice(lad)}, {"o": "on", "ch": ch, "k": k, "v": rng.choice(lad)}]
        if rng.random() < 0.3:
            h.append({"o": "cc", "ch": ch, "n": 67, "v": 0})
    return h


def rsxx_histories(rng, n):
    out = []
    # every offset of the list on every algorithm position, melodic and percussion, every volume model asked for
    for i in range(12):
        offs = [RSXX_OFFS[(a + i) % 6] for a in range(8)]
        out.append(rsxx_history(rng, offs=offs, perc=(i % 2 == 1), vm=i % 6))
    while len(out) < n:
        out.append(rsxx_history(rng))
    return out[:n]


# ------------------------------------------------------------------ boundary cases
def boundary_histories():
    out = []
    for vm in (0, 1, 2, 3, 4, 5):
        for smod in (0, 1):
            # velocity offsets push the effective velocity against both clamps; soft pedal; AUTO model
            h = [init(vm, smod, 0, tlset=1, veloffs=[-128, -100, -1, 0, 1, 50, 127, -64])]
            for alg in range(8):
                ch = alg % 4
                h += [{"o": "pc", "ch": ch, "p": alg}, {"o": "on", "ch": ch, "k": KEY, "v": 1}, {"o": "on", "ch": ch, "k": KEY, "v": 127},
                      {"o": "cc", "ch": ch, "n": 67, "v": 127}, {"o": "on", "ch": ch, "k": KEY, "v": 1}, {"o": "on", "ch": ch, "k": KEY, "v": 64},
                      {"o": "on", "ch": ch, "k": KEY, "v": 127}, {"o": "cc", "ch": ch, "n": 67, "v": 0}, {"o": "on", "ch": ch, "k": KEY, "v": 64},
                      sweep("vel", ch, KEY, 1, 127, 9), {"o": "off", "ch": ch, "k": KEY}]
            out.append(h)
            # zero in each control, one at a time and together, then back; master volume with every LSB
            h = [init(vm, smod, 1, tlset=0)]
            for alg in (0, 4, 5, 7):
                ch = 1
                h += [{"o": "pc", "ch": ch, "p": alg}, {"o": "on", "ch": ch, "k": KEY + alg, "v": 127}]
                for (n, zero, back) in ((7, 0, 127), (11, 0, 127)):
                    h += [{"o": "cc", "ch": ch, "n": n, "v": zero}, {"o": "cc", "ch": ch, "n": n, "v": 1}, {"o": "cc", "ch": ch, "n": n, "v": back}]
                h += [{"o": "mv", "v": 0, "l": 127}, {"o": "mv", "v": 0, "l": 0}, {"o": "mv", "v": 1, "l": 0}, {"o": "mv", "v": 126, "l": 127}, {"o": "mv", "v": 127, "l": 127}]
                h += [{"o": "cc", "ch": ch, "n": 7, "v": 0}, {"o": "cc", "ch": ch, "n": 11, "v": 0}, {"o": "mv", "v": 0, "l": 5},
                      {"o": "cc", "ch": ch, "n": 7, "v": 127}, {"o": "cc", "ch": ch, "n": 11, "v": 127}, {"o": "mv", "v": 127, "l": 5}]
                # brightness edges under both range modes
                for b in (127, 126, 64, 63, 32, 1, 0, 1, 63, 64, 127):
                    h.append({"o": "cc", "ch": ch, "n": 74, "v": b})
                h.append({"o": "set", "s": "frb", "v": 0})
                for b in (127, 126, 64, 63, 32, 1, 0, 1, 63, 64, 127):
                    h.append({"o": "cc", "ch": ch, "n": 74, "v": b})
                h.append({"o": "set", "s": "frb", "v": 1})
                h.append({"o": "off", "ch": ch, "k": KEY + alg})
            out.append(h)
    # several notes on one channel and on several channels are re-levelled together
    for vm in (1, 2, 3, 4, 5):
        h = [init(vm, 0, 1, tlset=0)]
        h += [{"o": "pc", "ch": 0, "p": 4}, {"o": "pc", "ch": 1, "p": 7}, {"o": "on", "ch": 0, "k": 60, "v": 90}, {"o": "on", "ch": 0, "k": 64, "v": 30},
              {"o": "on", "ch": 1, "k": 60, "v": 127}, {"o": "on", "ch": 9, "k": DRUM0 + 5, "v": 100}]
        h += [sweep("vol", 0, 60, 0, 127, 5), sweep("mv", 0, 60, 127, 0, -7), sweep("expr", 1, 60, 0, 127, 11), sweep("bright", 0, 60, 127, 0, -3),
              sweep("bright", 9, DRUM0 + 5, 0, 127, 16), sweep("vol", 9, DRUM0 + 5, 0, 127, 8), {"o": "mv", "v": 127, "l": 0}, sweep("vel", 0, 64, 1, 127, 6)]
        out.append(h)
    return out


# ------------------------------------------------------------------ exhaustive short sequences
def short_alphabet(ch=0, k=KEY):
    a = [{"o": "cc", "ch": ch, "n": 7, "v": v} for v in (0, 1, 127)]
    a += [{"o": "cc", "ch": ch, "n": 11, "v": v} for v in (0, 64)]
    a += [{"o": "mv", "v": v, "l": 0} for v in (0, 64)]
    a += [{"o": "cc", "ch": ch, "n": 74, "v": v} for v in (0, 63, 64)]
    a += [{"o": "on", "ch": ch, "k": k, "v": v} for v in (1, 127)]
    a += [{"o": "set", "s": "smod", "v": 1}, {"o": "set", "s": "frb", "v": 1}, {"o": "cc", "ch": ch, "n": 67, "v": 127}]
    return a


def exhaustive(depth, vms=(1, 2, 3, 4, 5), algs=(0, 4, 5, 7)):
    alpha = short_alphabet()
    for vm in vms:
        for alg in algs:
            pre = [init(vm, 0, 0, tlset=alg % 2), {"o": "pc", "ch": 0, "p": alg}, {"o": "on", "ch": 0, "k": KEY, "v": 100}]
            for seq in itertools.product(alpha, repeat=depth):
                yield pre + list(seq) + [{"o": "cc", "ch": 0, "n": 7, "v": 100}]


# ------------------------------------------------------------------ seeded random
def random_history(rng, length=50):
    tls = [[rng.choice([0, 1, 63, 64, 126, 127, rng.randrange(128)]) for _ in range(4)] for _ in range(8)]
    veloffs = [rng.choice([0, 0, 0, rng.randrange(-128, 128)]) for _ in range(8)]
    h = [init(rng.choice([0, 1, 2, 3, 4, 5, rng.randrange(1, 6)]), rng.randrange(2), rng.randrange(2), tls=tls, veloffs=veloffs)]
    chans = [0, 1, 2, 9]
    keys = {0: [60, 61], 1: [60], 2: [72], 9: [DRUM0 + rng.randrange(8), DRUM0 + rng.randrange(8)]}
    for c in chans[:3]:
        h.append({"o": "pc", "ch": c, "p": rng.randrange(8)})
    sounding = set()
    edge = [0, 1, 2, 63, 64, 65, 126, 127]

    def val():
        return rng.choice(edge) if rng.random() < 0.5 else rng.randrange(128)
    for _ in range(length):
        r = rng.random()
        ch = rng.choice(chans)
        k = rng.choice(keys[ch])
        if r < 0.22 or not sounding:
            if len(sounding) >= 4 and (ch, k) not in sounding:
                continue
            v = rng.choice([1, 127, rng.randrange(1, 128), rng.randrange(1, 128)])
            h.append({"o": "on", "ch": ch, "k": k, "v": v}); sounding.add((ch, k))
        elif r < 0.27:
            h.append({"o": "off", "ch": ch, "k": k}); sounding.discard((ch, k))
        elif r < 0.62:
            h.append({"o": "cc", "ch": ch, "n": rng.choice([7, 11, 74, 7, 11]), "v": val()})
        elif r < 0.72:
            h.append({"o": "mv", "v": val(), "l": rng.randrange(128)})
        elif r < 0.76:
            h.append({"o": "cc", "ch": ch, "n": 67, "v": rng.choice([0, 127])})
        elif r < 0.80:
            h.append({"o": "set", "s": rng.choice(["smod", "frb"]), "v": rng.randrange(2)})
        elif r < 0.82:
            h.append({"o": "set", "s": "vm", "v": rng.randrange(0, 6)})
        elif r < 0.85:
            if ch != 9 and (ch, keys[ch][0]) not in sounding:
                h.append({"o": "pc", "ch": ch, "p": rng.randrange(8)})
        else:
            ax = rng.choice(["vol", "expr", "mv", "bright", "vel"])
            if ax == "vel" and (ch, k) not in sounding and len(sounding) >= 4:
                continue
            lo, hi = sorted((val(), val()))
            st = rng.choice([1, 1, 2, 3, 5, 16])
            if ax == "vel":
                lo = max(lo, 1); hi = max(hi, lo)
                sounding.add((ch, k))
            h.append(sweep(ax, ch, k, hi, lo, -st) if rng.random() < 0.5 else sweep(ax, ch, k, lo, hi, st))
    return h


# ------------------------------------------------------------------ TLC-generated walks
def behaviour_to_history(beh, grid, mgrid, bgrid, seq):
    """beh = [vm, v, c, e, m, b, frb, move...]; move = 2*(axis-1) + (1 up | 2 down), axes v c e m b;
    a move goes to the neighbouring value of the axis' grid (exactly as LevelMC.Move)."""
    vm, v, c, e, m, b, frb = beh[:7]
    alg, smod = seq % 8, (seq // 8) % 2
    ch, k = 0, KEY
    grids = [sorted(grid), sorted(grid), sorted(grid), sorted(mgrid), sorted(bgrid)]
    cur = [v, c, e, m, b]
    h = [init(vm, smod, frb, tlset=seq % 2), {"o": "pc", "ch": ch, "p": alg},
         {"o": "cc", "ch": ch, "n": 7, "v": c}, {"o": "cc", "ch": ch, "n": 11, "v": e}, {"o": "mv", "v": m, "l": 0},
         {"o": "cc", "ch": ch, "n": 74, "v": b}, {"o": "on", "ch": ch, "k": k, "v": v}]
    names = ["vel", "vol", "expr", "mv", "bright"]
    for mv in beh[7:]:
        ax, d = (mv - 1) // 2, (mv - 1) % 2
        g = grids[ax]
        i = g.index(cur[ax]) + (1 if d == 0 else -1)
        if i < 0 or i >= len(g):
            raise ValueError("behaviour leaves the grid")
        cur[ax] = g[i]
        h.append(set_axis(names[ax], ch, k, cur[ax]))
    return h
