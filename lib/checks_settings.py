"""C18: settings are transactional -- accepted values stick, rejected calls change nothing.

leg A  spec/SettingsMC.tla     exhaustive small-scope model checking of spec/Settings.tla (repaired design: no
                               violation; code as it stands: TLC reports the defect classes the model contains)
leg B  spec/SettingsTrace.tla  property monitors evaluated by TLC on executions of the real library recorded by
                               harness/drive_settings.cpp (instance A + twin B that skips the rejected calls)
leg C  spec/SettingsTrace.tla  stateless refinement: every recorded call is a step of the model from the recorded
                               pre-state (as-is or repaired variant), otherwise MODEL-DRIFT"""
import json, os, random, re, threading, time
import checks, vcommon as vc, vtrace, gen_settings

HARNESS, TRACE = "drive_settings", "SettingsTrace"
NCHUNKS = 8

MC_CFG = """SPECIFICATION Spec
CONSTANTS
  MaxDepth = %(depth)d
  EmitDepth = %(emit)d
  Fix = %(fix)s
  WithDumper = %(dumper)s
%(extra)s
CHECK_DEADLOCK FALSE
"""
FIXED = '{"numchips", "trackopt", "dumper", "rsxxlock"}'

ASSUME = [
    "harness/drive_settings.cpp reads the getter-less settings (scale modulators, soft pan, PCM-rate mode, device id, loop/tempo/"
    "song/track/channel state, hook slots) from the live objects (m_setup, m_synth, hooks public; sequencer fields through "
    "'#define private public' around midi_sequencer.hpp); public getters are used wherever they exist",
    "the twin instance B is driven with the same calls except those whose return value on A was negative",
    "'audible behaviour' = hash of every chip register / pan write (hook H1) of opn2_reset + a fixed 3-note phrase, plus the PCM hash "
    "for the deterministic cores (GENS and the VGM dumper are compared on register writes only)",
    "test inputs are three fixed WOPN banks, two fixed SMF songs, one EA-MUS (RSXX), one GMF, one DMX MUS and one XMIDI song built by the "
    "harness (mirrored by BankHdr/BankDigest/Song in spec/Settings.tla); rejected files = wrong magic / truncated / empty / garbage / "
    "broken MTrk or rsxx signature / a well-formed CMF or IMF image (formats the player refuses)",
    "music mode (m_synth->m_musicMode) and sequencer file format (BW_MidiSequencer::getFormat()) are read from the live objects; the "
    "XMIDI song is only loaded in the mixed-format sequences, where no song number is selected",
    "set-up lock (Synth::setupLocked(), entered by loading the EA-MUS song): the documented state of the monitors takes the format's "
    "Generic volume model and two chips as in force while locked, the m_setup getters (opn2_getNumChips) and the projected m_setup "
    "fields (vm, pcm) as 'the stored request', and accepted bank loads / opn2_setChipType / ordinary music loads as the calls that end "
    "the lock; the deprecated opn2_setLogarithmicVolumes (fourth deferred setter) is not driven",
    "TLC 1.8 evaluates Settings/SettingsTrace correctly; JSON traces round-trip 32-bit integers",
]


def model_phase(q):
    runs = []
    for (depth, fix, dumper, inv) in ([(4, FIXED, "TRUE", True)] if q else [(5, FIXED, "TRUE", True)]):
        cfg = checks.write_cfg("SettingsMC_%d_%s.cfg" % (depth, dumper), MC_CFG % {
            "depth": depth, "emit": 0, "fix": fix, "dumper": dumper,
            "extra": ("INVARIANT NoBad\n" if inv else "ACTION_CONSTRAINT Report\n") + "CONSTRAINT DepthBound\nVIEW View"})
        r = vc.run_tlc("SettingsMC", cfg=cfg, timeout=2400, heap="12g", workers=min(vc.NCPU, 6), tag="SettingsMC-fixed", extra=["-noGenerateSpecTE"])
        r.scope = {"calls": depth, "alphabet": len(gen_settings.mc_ops()) - (0 if dumper == "TRUE" else 1), "model": "repaired design",
                   "dumper": dumper == "TRUE"}
        runs.append(r)
    # the code as it stands: which defect classes does the model itself exhibit within 2 calls (informational)
    cfg = checks.write_cfg("SettingsMC_asis.cfg", MC_CFG % {"depth": 3, "emit": 0, "fix": "{}", "dumper": "TRUE",
                                                            "extra": "ACTION_CONSTRAINT Report\nCONSTRAINT DepthBound\nVIEW View"})
    r = vc.run_tlc("SettingsMC", cfg=cfg, timeout=600, heap="8g", workers=min(vc.NCPU, 6), tag="SettingsMC-asis", extra=["-noGenerateSpecTE"])
    r.scope = {"calls": 3, "model": "code as it stands", "dumper": True}
    r.labels = sorted(set(x.strip().strip('"') for m in re.findall(r'"MODELBAD", \{([^}]*)\}', r.out) for x in m.split(",") if x.strip()))
    return runs, r


def model_behaviours(q):
    cfg = checks.write_cfg("SettingsMC_sim.cfg", MC_CFG % {"depth": 1000, "emit": 8, "fix": "{}", "dumper": "TRUE", "extra": "CONSTRAINT Emit"})
    r = vc.run_tlc("SettingsMC", cfg=cfg, timeout=600, heap="4g", simulate=(30 if q else 300), depth=9, workers=4, tag="SettingsMC-sim")
    return [json.loads(b) for b in re.findall(r'"BEHAVIOUR",\s*"(\[[0-9,\s]*\])"', r.out)]


def drop_consequences(failures, pid):
    """A crash that follows a step already judged broken in the same history is a consequence of that step."""
    first = {}
    for f in failures:
        if f.prop == pid:
            first[f.history] = min(first.get(f.history, 1 << 30), f.step)
    return [f for f in failures if not (f.prop == "CRASH" and first.get(f.history, 1 << 30) < f.step)]


def sample(hs, n=2, maxlen=16):
    return [h[:maxlen] for h in hs[:n]]


@checks.register("C18")
def check_c18(pid, tier, replay):
    t0 = time.time()
    q = tier == "quick"
    rng = random.Random(vc.seed() * 7919 + 18)

    def rerun(hist):
        f, _, _ = vtrace.run_histories(pid + "r", HARNESS, TRACE, [hist], nchunks=1)
        return drop_consequences(f, pid)

    if replay:
        return checks.replay_one(pid, replay, rerun)

    # leg A runs beside the trace pipeline (it only needs the specification)
    mres = {}
    mth = threading.Thread(target=lambda: mres.update(zip(("runs", "asis"), model_phase(q))))
    mth.start()
    beh = [gen_settings.behaviour_history(b) for b in model_behaviours(q)][:(60 if q else 1000)]
    parts = [
        ("model_generated_behaviours", beh),
        ("exhaustive_single_calls", gen_settings.exhaustive_singles(("bare", "tuned", "locked") if q else ("bare", "song", "tuned", "locked", "lockedplain"))),
        ("setup_locked_by_ea_mus_song", gen_settings.locked_histories(rng, 140 if q else None)),
        ("invalid_call_pairs", gen_settings.exhaustive_pairs(rng, 200 if q else 2500)),
        ("dumper_round_trips", gen_settings.dumper_histories(rng, 12 if q else 120)),
        ("mixed_format_load_sequences", gen_settings.format_sequences(rng, 1 if q else 10, 20 if q else 400)),
        ("random", [gen_settings.random_history(rng, 14 if q else 24) for _ in range(220 if q else 2500)]),
    ]
    histories = [h for (_, hs) in parts for h in hs]
    random.Random(vc.seed()).shuffle(histories)
    failures, counters, stats = vtrace.run_histories(pid, HARNESS, TRACE, histories, nchunks=NCHUNKS, tlc_timeout=1500)
    mth.join()
    if stats["infra"]:
        print("INFRA:", stats["infra"][0][:2000])
        return 3
    if "runs" not in mres:
        print("INFRA: the model phase (SettingsMC) did not finish")
        return 3
    failures = drop_consequences(failures, pid)
    mruns, asis = mres["runs"], mres["asis"]
    coverage = {
        "states": sum(r.distinct for r in mruns), "transitions": sum(r.generated for r in mruns),
        "traces_validated_against_impl": len(histories), "records_validated": stats["records"],
        "history_classes": {k: len(v) for (k, v) in parts},
        "model_generated_behaviours_replayed": len(beh),
        "refinement": {"steps_checked_against_model": counters.get("refined", 0), "steps_drifted": counters.get("drifted", 0),
                       "steps_only_the_as_is_model_explains": counters.get("asis", 0),
                       "steps_only_the_repaired_model_explains": counters.get("fixed", 0),
                       "first_drifts": stats.get("drift", [])[:5]},
        "monitor_counters": counters,
        "setup_lock": {k: counters.get(k, 0) for k in ("lockenter", "locksteps", "lockstick", "lockdefer", "lockrelease", "lockapply",
                                                        "lockreject", "lockplay")},
        "load_sequences": {k: counters.get(k, 0) for k in ("loadjudged", "loadgmf", "loadmus", "loadxmi", "refusedimf", "refusedcmf",
                                                            "loadafterlock", "loadafterrefused", "loadafterxmi", "loadthird")},
        "samples": sample(parts[6][1], 2) + sample(parts[5][1][3:], 2, 20) + sample(parts[1][1][40:], 1) + sample(parts[2][1], 1) + sample(beh, 1),
        "model_runs": [{"scope": r.scope, "ok": r.ok, "violation": r.violation, "distinct": r.distinct, "generated": r.generated,
                        "wall_s": round(r.wall, 1)} for r in mruns] +
                      [{"scope": asis.scope, "violation_labels_of_the_as_is_model": asis.labels, "distinct": asis.distinct,
                        "generated": asis.generated, "wall_s": round(asis.wall, 1)}],
        "exhaustive": False,
    }
    for r in mruns:
        if r.violation or not r.ok:
            print("MODEL-DRIFT: SettingsMC %s reports %s (model-level result; not a verdict on the code)" % (r.scope, r.violation or ("rc=%s" % r.rc)))
    if asis.labels:
        print("NOTE model of the code as it stands violates C18 within 3 calls: %s (model-level; the verdict comes from the recorded executions)"
              % ", ".join(asis.labels))
    if counters.get("drifted", 0):
        print("MODEL-DRIFT: %d of %d recorded calls are steps of neither variant of spec/Settings.tla: %s"
              % (counters["drifted"], counters.get("refined", 0), json.dumps(stats["drift"][:2])))
    return checks.conclude(pid, tier, "model_checking", histories, failures, rerun, coverage, t0, ASSUME)
