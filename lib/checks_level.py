"""C11 - loudness controls are monotone and stay within the chip's level range.

Leg A: spec/LevelMC.tla (TLC walks the control grid of the model spec/Level.tla and evaluates the
       property predicates on the model's bytes; thorough tier adds the full 0..127 resolution).
Leg B: the same predicates evaluated by TLC (spec/LevelTrace.tla) on total-level bytes recorded from
       the real library by harness/drive_level (full 128-point sweeps of every control, all five models).
       Congestion histories (more notes than chip channels, automatic arpeggio on / off, time passing): EVERY key-on of a
       chip channel is judged - the TL registers in force must be the levels of the note the channel is keyed for
       (Level.tla part 3; LevelMC scope `share` model-checks the time-shared channel with the take-over rule of /repo 5cd89c0:
       a key-on for a note the registers were not levelled for re-levels; TakeOver = FALSE, the code as written before, is refuted).
       RSXX histories (an EA-MUS song loaded first): a NoteOn for a sounding key is a velocity update of the sounding note
       (Level!RestrikeVel), judged like every re-levelling, with instruments of velocity offset -128..127; the locked
       set-up keeps the Generic model in force (taken from the record).
Leg C: recorded bytes = bytes predicted by the exact transcription (refinement, reported as MODEL-DRIFT).
Set VERIF_JOBS to limit the number of parallel workers (default: all cores)."""
import json, os, random, re, time
import concurrent.futures as cf
import checks
import vcommon as vc, vtrace, gen_level

LEVEL_CFG = """SPECIFICATION Spec
CONSTANTS
  Grid = %(grid)s
  MGrid = %(mgrid)s
  BGrid = %(bgrid)s
  VMs = %(vms)s
  FRBs = %(frbs)s
  InitAll = %(initall)s
  Dirs = %(dirs)s
  Lite = %(lite)s
  EmitDepth = %(emit)d
  MaxDepth = %(depth)d
  ShareN = %(share)d
  ArpRelevel = %(relevel)s
  TakeOver = %(takeover)s
INVARIANT NoBad
%(extra)s
CHECK_DEADLOCK FALSE
"""

GRID_Q = [0, 1, 2, 32, 63, 64, 65, 100, 126, 127]
BGRID_Q = [0, 1, 2, 31, 32, 62, 63, 64, 65, 100, 126, 127]
SIM_GRID = [0, 1, 2, 16, 32, 48, 63, 64, 65, 80, 100, 120, 126, 127]
SIM_BGRID = [0, 1, 16, 32, 48, 63, 64, 65, 100, 126, 127]
MGRID = [0, 1, 64, 127]

ASSUME = [
    "register tap hook H1 sees every chip write (OPN2::writeReg/writeRegI); harness/vh.hpp Tap reports a TL update when register 0x4C+ch is written, with the shadow of all four TL registers",
    "harness/drive_level.cpp only drives the public API (rt calls, SysEx F0 7F 7F 04 01 ll mm F7, opn2_setVolumeRangeModel/ScaleModulators/FullRangeBrightness) and echoes the commands faithfully",
    "instrument TL bytes, controller values and velocities are 7-bit (0..127) as in MIDI / the OPN2 register; the time only advances in the congestion histories (gen = opn2_generate)",
    "key-ons: the note hook (opn2_setNoteHook) fires right after OPN2::noteOn wrote 0x28 and names chip channel, tone, patch and velocity; the harness finds the MIDI channel among the active notes holding that chip channel (keys are distinct in the generated histories; an ambiguous key-on is counted, not judged) and reports the TL registers in force; the note's loudness inputs come from the specification's own record",
    "TLC 1.8 evaluates Level/LevelTrace correctly; the Generic model's 63 thresholds in Level.tla were computed off-line from the documented formula",
]


def tla_set(xs):
    return "{" + ", ".join(("TRUE" if x else "FALSE") if isinstance(x, bool) else str(x) for x in xs) + "}"


def jobs():
    try:
        return max(1, min(vc.NCPU, int(os.environ.get("VERIF_JOBS", vc.NCPU))))
    except ValueError:
        return vc.NCPU


def mc_cfg(name, grid, mgrid, bgrid, vms=(1, 2, 3, 4, 5), frbs=(False,), initall=False, dirs=(1,), lite=False, emit=0, depth=100000, sim=False, share=0, relevel=True, takeover=True):
    return checks.write_cfg(name, LEVEL_CFG % {
        "grid": tla_set(grid), "mgrid": tla_set(mgrid), "bgrid": tla_set(bgrid), "vms": tla_set(vms), "frbs": tla_set(list(frbs)),
        "initall": "TRUE" if initall else "FALSE", "dirs": tla_set(dirs), "lite": "TRUE" if lite else "FALSE", "emit": emit, "depth": depth,
        "share": share, "relevel": "TRUE" if relevel else "FALSE", "takeover": "TRUE" if takeover else "FALSE",
        "extra": "CONSTRAINT Emit" if sim else "CONSTRAINT DepthBound\nVIEW View"})


def model_phase(tier):
    q = tier == "quick"
    runs = []
    scopes = [
        # every loudness control on a boundary grid, brightness at 127, all models, all algorithms (end to end)
        ("loud", dict(grid=GRID_Q if q else SIM_GRID + [3, 4, 7, 8, 15, 31, 33, 96, 125], mgrid=MGRID, bgrid=[127]), 1200),
        # brightness axis (both range modes) against a coarse loudness grid
        ("bright", dict(grid=[0, 1, 64, 127], mgrid=[0, 127], bgrid=BGRID_Q if q else list(range(128)), frbs=(False, True)), 1200),
    ]
    if not q:
        # full resolution of the property's quantifier: v, c, e in 0..127, master volume in {0,1,64,127}, per model
        for vm in (1, 2, 3, 4, 5):
            scopes.append(("full-vm%d" % vm, dict(grid=list(range(128)), mgrid=MGRID, bgrid=[127], vms=(vm,), lite=True), 2400))
    # one chip channel held by up to `share` notes of one patch (Level.tla part 3): joins, CC7 / CC11 / master volume changes,
    # releases and arpeggio ticks; every key-on finds the owner's levels.  A small model: it runs beside the grid walks.
    skw = dict(grid=[0, 127] if q else [0, 64, 127], mgrid=[0, 127], bgrid=[127], share=3)
    share_cfg = mc_cfg("LevelMC_%s_share.cfg" % tier, **skw)
    with cf.ThreadPoolExecutor(max_workers=1) as pool:
        fut = pool.submit(vc.run_tlc, "LevelMC", cfg=share_cfg, timeout=2400, heap="8g", workers=max(1, min(4, jobs() // 4)), tag="LevelMC-share")
        for (name, kw, to) in scopes:
            cfg = mc_cfg("LevelMC_%s_%s.cfg" % (tier, name), **kw)
            r = vc.run_tlc("LevelMC", cfg=cfg, timeout=to, heap="16g", workers=jobs(), tag="LevelMC-" + name)
            r.scope = {"name": name, "grid": len(kw["grid"]), "mgrid": kw["mgrid"], "bgrid": len(kw["bgrid"]), "lite": bool(kw.get("lite")),
                       "vms": list(kw.get("vms", (1, 2, 3, 4, 5)))}
            runs.append(r)
        r = fut.result()
    r.scope = {"name": "share", "grid": len(skw["grid"]), "mgrid": skw["mgrid"], "bgrid": 1, "lite": False, "vms": [1, 2, 3, 4, 5], "holders": skw["share"]}
    runs.append(r)
    return runs


def model_behaviours(n, depth):
    """Random up/down walks chosen by TLC (simulation of LevelMC) -> histories for the real library."""
    cfg = mc_cfg("LevelMC_sim.cfg", SIM_GRID, MGRID, SIM_BGRID, frbs=(False, True), initall=True, dirs=(1, 2), emit=depth, sim=True)
    r = vc.run_tlc("LevelMC", cfg=cfg, timeout=600, heap="8g", simulate=max(1, n // 4), depth=depth + 1, workers=min(4, jobs()), tag="LevelSim")
    hs = []
    for i, b in enumerate(re.findall(r'"BEHAVIOUR",\s*"(\[[0-9,\s]*\])"', r.out)[:n]):
        hs.append(gen_level.behaviour_to_history(json.loads(b), SIM_GRID, MGRID, SIM_BGRID, i))
    return hs, r


@checks.register("C11")
def check_c11(pid, tier, replay):
    t0 = time.time()
    q = tier == "quick"
    rng = random.Random(vc.seed() * 7919 + 11)
    marker = '{"o":"init"'

    def rerun(hist):
        f, _, _ = vtrace.run_histories(pid + "r", "drive_level", "LevelTrace", [hist], nchunks=1, marker=marker)
        return f

    if replay and hasattr(checks, "replay_one"):
        return checks.replay_one(pid, replay, rerun)
    if replay:
        hist = [json.loads(l) for l in open(replay) if l.strip()]
        firsts = vtrace.first_failures(rerun(hist), pid)
        if firsts:
            f = list(firsts.values())[0]
            print("VIOLATION property=%s replay=%s" % (pid, replay))
            print("  what=%s at step %d (%s) %s" % (f.what, f.step, f.event, f.detail[:400]))
            return 1
        print("OK replay holds")
        return 0

    # leg A
    mruns = model_phase(tier)
    vc.log("[C11] model runs done %.0fs: %s" % (time.time() - t0, [(r.scope["name"], r.distinct, round(r.wall)) for r in mruns]))
    beh, simr = model_behaviours(200 if q else 2000, 30 if q else 60)
    vc.log("[C11] %d TLC-generated walks %.0fs" % (len(beh), time.time() - t0))
    # legs B and C
    sweeps = gen_level.sweep_histories([0, 1, 64, 100, 126, 127] if q else [0, 1, 2, 32, 63, 64, 65, 100, 126, 127], variants=2 if q else 4)
    bound = gen_level.boundary_histories() + gen_level.port_histories()
    ex = list(gen_level.exhaustive(2, algs=(4, 7) if q else (0, 4, 5, 7)))
    if not q:
        ex += list(gen_level.exhaustive(3, vms=(1, 3), algs=(4,)))
    rnd = [gen_level.random_history(rng, 50 if q else 90) for _ in range(400 if q else 4000)]
    # more notes than chip channels (automatic arpeggio on / off), time passing: every key-on judged for the note that owns the channel
    cong = gen_level.congestion_histories(random.Random(vc.seed() * 104729 + 11), 240 if q else 2400, longer=not q, bends=True)
    # interleave the expensive sweep histories with the cheap ones so that the chunks are balanced
    # EA-MUS (RSXX) music mode: a NoteOn for a sounding key is a velocity update; instruments with velocity offsets
    rsxx = gen_level.rsxx_histories(random.Random(vc.seed() * 1299709 + 11), 60 if q else 600)
    cheap = beh + bound + ex + rnd + cong + rsxx
    random.Random(vc.seed() * 31 + 11).shuffle(cheap)
    histories = []
    step = max(1, len(cheap) // max(1, len(sweeps)))
    ci = 0
    for s in sweeps:
        histories.append(s)
        histories += cheap[ci:ci + step]; ci += step
    histories += cheap[ci:]
    failures, counters, stats = vtrace.run_histories(pid, "drive_level", "LevelTrace", histories, nchunks=jobs(), marker=marker,
                                                     htimeout=1500, tlc_timeout=2400)
    vc.log("[C11] %d histories, %d records validated %.0fs (TLC cpu %.0fs)" % (len(histories), stats["records"], time.time() - t0, stats["tlc_wall"]))
    if stats["infra"]:
        print("INFRA:", stats["infra"][0][:2000])
        return 3
    cov = {
        "states": sum(r.distinct for r in mruns), "transitions": sum(r.generated for r in mruns),
        "traces_validated_against_impl": len(histories), "records_validated": stats["records"],
        "sweep_histories": len(sweeps), "boundary_histories": len(bound), "exhaustive_short_histories": len(ex), "random_histories": len(rnd),
        "congestion_histories": len(cong),
        "rsxx_histories": len(rsxx), "rsxx_restrikes_judged": counters.get("restrikes", 0),
        "key_ons": {"judged": counters.get("kon_judged", 0), "not_attributed": counters.get("kon_skipped", 0),
                    "on_shared_chip_channels": counters.get("kon_shared", 0), "hand_overs_between_notes": counters.get("kon_turns", 0),
                    "owner_with_a_zero_control": counters.get("kon_zero", 0), "monotone_comparisons": counters.get("kon_pairs", 0),
                    "monotone_comparisons_with_different_bytes": counters.get("kon_strict", 0), "differ_from_model": counters.get("kon_drifted", 0),
                    "executions_with_automatic_arpeggio": counters.get("arp_execs", 0), "time_passing_calls": counters.get("gens", 0)},
        "model_generated_behaviours_replayed": len(beh),
        "recorded_sweeps": counters.get("sweeps", 0), "recorded_full_128_point_sweeps": counters.get("sweeps128", 0),
        "recorded_sweep_points": counters.get("points", 0),
        "refinement": {"note_levellings_checked_against_model": counters.get("refined", 0), "drifted": counters.get("drifted", 0),
                       "first_drifts": stats.get("drift", [])[:5]},
        "monitor_counters": counters,
        "evaluations": counters.get("touches", 0), "distinct_nontrivial": counters.get("mono_strict", 0) + counters.get("bright_strict", 0),
        "rule": "one evaluation = one note re-levelled by one call (4 TL bytes) judged by range/zero/modulator and, against the previous "
                "levelling of the same note, by the monotone/brightness predicates; distinct_nontrivial = comparisons where the bytes changed",
        "samples": checks.sample_histories(rnd, 1, 12) + checks.sample_histories(sweeps, 1, 10) + checks.sample_histories(beh, 1, 12)
                   + checks.sample_histories(cong, 1, 40) + checks.sample_histories(rsxx, 1, 30),
        "model_runs": [{"scope": r.scope, "ok": r.ok, "violation": r.violation, "distinct": r.distinct, "generated": r.generated,
                        "depth": r.depth, "wall_s": round(r.wall, 1)} for r in mruns],
        "exhaustive": False,
    }
    for r in mruns:
        if r.violation or not r.ok:
            print("MODEL-DRIFT: LevelMC %s reports %s (model-level result; not a verdict on the code)" % (r.scope, r.violation or ("rc=%s" % r.rc)))
    if counters.get("drifted", 0) or stats.get("drift"):
        print("MODEL-DRIFT: %d of %d recorded note levellings differ from spec/Level.tla (refinement leg C); first: %s"
              % (counters.get("drifted", 0), counters.get("refined", 0), json.dumps(stats.get("drift", [])[:2])[:1500]))
    level = "model_checking" if cov["states"] > 0 and all(r.ok for r in mruns) else "exploration"
    return checks.conclude(pid, tier, level, histories, failures, rerun, cov, t0, ASSUME)
