#!/usr/bin/env python3
"""Shared machinery of the /verif checks: building /repo's working tree, running TLC,
known-findings handling, evidence writing.  Everything is offline and deterministic
given VERIF_SEED."""
import hashlib, json, os, re, shutil, subprocess, sys, time, glob

VERIF = os.path.dirname(os.path.dirname(os.path.abspath(__file__)))
REPO = os.environ.get("VERIF_REPO", "/repo")
CACHE = os.path.join(VERIF, ".cache")
SPEC = os.path.join(VERIF, "spec")
HARNESS = os.path.join(VERIF, "harness")
OUT = os.path.join(VERIF, ".out")
TLA_JAR = "/opt/veriftools/tla/tla2tools.jar"
NCPU = os.cpu_count() or 4

FLAGS = {
    "asan":  "-O1 -g -fno-omit-frame-pointer -fsanitize=address,bounds -fno-sanitize-recover=bounds -DOPNMIDI_VERIF",
    "plain": "-O2 -g0 -DOPNMIDI_VERIF",
    "tsan":  "-O1 -g -fsanitize=thread -DOPNMIDI_VERIF",
}


def seed():
    try:
        return int(os.environ.get("VERIF_SEED", "1"))
    except ValueError:
        return 1


def log(*a):
    print(*a, file=sys.stderr, flush=True)


def tree_hash():
    h = hashlib.sha256()
    roots = ["src", "include", "cmake", "CMakeLists.txt"]
    files = []
    for r in roots:
        p = os.path.join(REPO, r)
        if os.path.isfile(p):
            files.append(p)
        else:
            for d, _, fs in os.walk(p):
                for f in fs:
                    files.append(os.path.join(d, f))
    for f in sorted(files):
        h.update(f.encode())
        try:
            with open(f, "rb") as fh:
                h.update(fh.read())
        except OSError:
            pass
    return h.hexdigest()[:16]


def _prune(keep):
    if not os.path.isdir(CACHE):
        return
    ents = sorted((os.path.getmtime(os.path.join(CACHE, e)), e) for e in os.listdir(CACHE))
    hashes = []
    for _, e in reversed(ents):
        hh = e.split("-")[0]
        if hh not in hashes:
            hashes.append(hh)
    for _, e in ents:
        if e.split("-")[0] not in hashes[:keep]:
            shutil.rmtree(os.path.join(CACHE, e), ignore_errors=True)


def build_lib(variant="asan"):
    """Build /repo's current working tree (hooks on) and return the build dir."""
    th = tree_hash()
    bdir = os.path.join(CACHE, "%s-%s" % (th, variant))
    lib = os.path.join(bdir, "libOPNMIDI.a")
    if os.path.exists(lib) and os.path.exists(os.path.join(bdir, ".ok")):
        os.utime(bdir)
        return bdir
    os.makedirs(bdir, exist_ok=True)
    _prune(8)
    flags = FLAGS[variant]
    t0 = time.time()
    cmd = ["cmake", "-G", "Ninja", "-S", REPO, "-B", bdir,
           "-DCMAKE_C_COMPILER=clang", "-DCMAKE_CXX_COMPILER=clang++",
           "-DCMAKE_BUILD_TYPE=None",
           "-DCMAKE_C_FLAGS=" + flags, "-DCMAKE_CXX_FLAGS=" + flags,
           "-DWITH_UNIT_TESTS=OFF", "-DlibOPNMIDI_SHARED=OFF", "-DlibOPNMIDI_STATIC=ON"]
    r = subprocess.run(cmd, stdout=subprocess.PIPE, stderr=subprocess.STDOUT, text=True)
    if r.returncode != 0:
        log(r.stdout[-4000:])
        raise SystemExit("INFRA: cmake configure failed")
    r = subprocess.run(["cmake", "--build", bdir, "-j", str(NCPU), "--target", "OPNMIDI_static"],
                       stdout=subprocess.PIPE, stderr=subprocess.STDOUT, text=True)
    if r.returncode != 0:
        log(r.stdout[-6000:])
        raise SystemExit("INFRA: library build failed (does /repo compile?)")
    open(os.path.join(bdir, ".ok"), "w").write("ok")
    log("[build] %s built in %.1fs" % (os.path.basename(bdir), time.time() - t0))
    return bdir


def build_harness(name, variant="asan", extra_flags="", libs=""):
    """Compile harness/<name>.cpp against the library of the current tree."""
    bdir = build_lib(variant)
    src = os.path.join(HARNESS, name + ".cpp")
    exe = os.path.join(bdir, "h_" + name)
    deps = [src] + glob.glob(os.path.join(HARNESS, "*.hpp"))
    if os.path.exists(exe) and all(os.path.getmtime(exe) >= os.path.getmtime(d) for d in deps):
        return exe
    flags = FLAGS[variant].split()
    defs = ["-DOPNMIDI_MIDI2VGM", "-DENABLE_END_SILENCE_SKIPPING", "-DBWMIDI_DISABLE_MUS_SUPPORT_NO", "-DOPNMIDI_USE_LEGACY_EMULATOR_NO"]
    # mirror the definitions the library is compiled with (read from the cmake flags file)
    fl = glob.glob(os.path.join(bdir, "CMakeFiles", "OPNMIDI_static.dir", "flags.make"))
    cxxdefs = []
    ninja = os.path.join(bdir, "build.ninja")
    if os.path.exists(ninja):
        txt = open(ninja).read()
        m = re.search(r"build CMakeFiles/OPNMIDI_static\.dir/src/opnmidi\.cpp\.o:.*?\n((?:  .*\n)+)", txt)
        if m:
            mm = re.search(r"DEFINES = (.*)", m.group(1))
            if mm:
                cxxdefs = mm.group(1).split()
    cmd = ["clang++", "-std=c++14"] + flags + cxxdefs + extra_flags.split() + [
        "-I", os.path.join(REPO, "include"), "-I", os.path.join(REPO, "src"), "-I", HARNESS,
        src, "-o", exe, os.path.join(bdir, "libOPNMIDI.a"), "-lm", "-lpthread"] + libs.split()
    r = subprocess.run(cmd, stdout=subprocess.PIPE, stderr=subprocess.STDOUT, text=True)
    if r.returncode != 0:
        log(r.stdout[-8000:])
        raise SystemExit("INFRA: harness %s failed to compile (a change of /repo that breaks the hook interface?)" % name)
    return exe


# ------------------------------------------------------------------ TLC

class TlcResult:
    def __init__(self):
        self.rc = None; self.out = ""; self.states = 0; self.distinct = 0
        self.generated = 0; self.ok = False; self.violation = None
        self.results = []; self.coverage = {}; self.depth = 0; self.wall = 0.0

    def __repr__(self):
        return "TlcResult(rc=%s ok=%s distinct=%s generated=%s viol=%s)" % (
            self.rc, self.ok, self.distinct, self.generated, self.violation)


def run_tlc(module, cfg=None, env=None, workers=None, timeout=1100, simulate=None, depth=None,
            coverage=False, heap="8g", extra=None, deadlock=False, dfs=False, tag=None):
    """Run TLC on spec/<module>.tla. Returns TlcResult. RESULT lines printed by the spec with
    PrintT(<<"RESULT", json>>) are collected in .results (parsed JSON)."""
    os.makedirs(OUT, exist_ok=True)
    tag = tag or module
    meta = os.path.join(OUT, "tlc-%s-%d" % (tag, os.getpid()))
    shutil.rmtree(meta, ignore_errors=True)
    cfg = cfg or (module + ".cfg")
    jopts = ["-XX:+UseParallelGC", "-Xss128m", "-Xmx" + heap]
    if dfs:
        jopts.append("-Dtlc2.tool.queue.IStateQueue=StateDeque")
    cmd = ["java"] + jopts + ["-cp", TLA_JAR + ":/opt/veriftools/tla/CommunityModules-deps.jar", "tlc2.TLC",
           "-metadir", meta, "-config", cfg, "-workers", str(workers or NCPU)]
    if not deadlock:
        cmd.append("-deadlock")
    if simulate:
        cmd += ["-simulate", "num=%d" % simulate, "-seed", str(seed())]
    if depth:
        cmd += ["-depth", str(depth)]
    if coverage:
        cmd += ["-coverage", "1"]
    cmd += (extra or [])
    cmd.append(module + ".tla")
    e = dict(os.environ)
    e.update(env or {})
    t0 = time.time()
    res = TlcResult()
    try:
        r = subprocess.run(cmd, cwd=SPEC, env=e, stdout=subprocess.PIPE, stderr=subprocess.STDOUT,
                           text=True, timeout=timeout)
        res.rc = r.returncode; res.out = r.stdout
    except subprocess.TimeoutExpired as ex:
        res.rc = 124
        res.out = (ex.stdout or b"").decode(errors="replace") if isinstance(ex.stdout, bytes) else (ex.stdout or "")
    res.wall = time.time() - t0
    shutil.rmtree(meta, ignore_errors=True)
    out = res.out
    m = re.findall(r"(\d+) states generated, (\d+) distinct states found", out)
    if m:
        res.generated, res.distinct = int(m[-1][0]), int(m[-1][1])
    m = re.search(r"The depth of the complete state graph search is (\d+)", out)
    if m:
        res.depth = int(m.group(1))
    for line in out.splitlines():
        if line.startswith('<<"RESULT"'):
            mm = re.match(r'<<"RESULT", "(.*)">>$', line)
            if mm:
                s = mm.group(1).encode().decode("unicode_escape") if "\\" in mm.group(1) else mm.group(1)
                try:
                    res.results.append(json.loads(s))
                except Exception:
                    res.results.append({"unparsed": line})
    if "Model checking completed. No error has been found." in out or (simulate and res.rc in (0,) ):
        res.ok = True
    mv = re.search(r"Error: Invariant (\S+) is violated", out) or re.search(r"Error: Action property (\S+) is violated", out) \
        or re.search(r"Error: Temporal properties were violated", out) or re.search(r"Error: The postcondition (\S+)", out)
    if mv:
        res.ok = False
        res.violation = mv.group(0)
    if coverage:
        for mm in re.finditer(r"<(\w+) line \d+, col \d+ to line \d+, col \d+ of module (\w+)>: (\d+):(\d+)", out):
            res.coverage[mm.group(2) + "." + mm.group(1)] = [int(mm.group(3)), int(mm.group(4))]
    return res


def classpath_check():
    return os.path.exists(TLA_JAR)


# ------------------------------------------------------------------ findings / evidence

def load_known():
    p = os.path.join(VERIF, "known_findings.json")
    if not os.path.exists(p):
        return {"known": [], "fixed": []}
    return json.load(open(p))


def write_evidence(pid, tier, level, coverage, wall, violations=0, assumptions=None):
    os.makedirs(os.path.join(VERIF, "evidence"), exist_ok=True)
    ev = {"property_id": pid, "tier": tier, "seed": seed(), "level": level,
          "coverage": coverage, "assumptions": assumptions or [], "wall_s": round(wall, 2),
          "violations": violations}
    p = os.path.join(VERIF, "evidence", pid + ".json")
    with open(p + ".tmp", "w") as f:
        json.dump(ev, f, indent=1)
    os.replace(p + ".tmp", p)
    return p
