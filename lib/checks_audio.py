"""C13 - audio calls fill exactly what they report, in the requested sample format.
Leg A: TLC explores spec/AudioMC.tla (the two rendering loops, SendStereoAudio, the footprint) exhaustively
for a small scope.  Legs B/C: harness/drive_audio.cpp renders identical call histories on the real library in
every format into poison-filled, guard-fenced buffers; TLC (spec/AudioTrace.tla) judges return value,
footprint and every recorded (x, stored value) pair against the conversions written in spec/Audio.tla."""
import json, os, random, re, time
import checks
import vcommon as vc, vtrace
import gen_audio

AUDIO_CFG = """SPECIFICATION Spec
CONSTANTS
  MaxDepth = %(depth)d
  EmitDepth = %(emit)d
  Cap = %(cap)d
  D = %(d)d
INVARIANT NoBad
%(extra)s
CHECK_DEADLOCK FALSE
"""

NCHUNKS = 8
MARKER = '{"o":"init"'


def _short(h, maxlen=10):
    out = []
    for c in h[:maxlen]:
        c = dict(c)
        if "banks" in c:
            c["banks"] = "<%d banks>" % len(c["banks"])
        if "f" in c:
            c["f"] = ["t%d/c%d/so%d/L%d/R%d%s" % (f["t"], f["c"], f["so"], f["lb"], f["rb"], "/short*" if f.get("a") else "") for f in c["f"]]
        out.append(c)
    return out


@checks.register("C13")
def check_c13(pid, tier, replay):
    t0 = time.time()
    q = tier == "quick"
    rng = random.Random(vc.seed() * 7919 + 13)

    def rerun(hist, last_only=True):
        """Confirmation run.  conclude() passes the prefix that ends with the rejected call, so only a rejection of
        that last call (or a crash) confirms it: a different, earlier failure must not confirm a flaky one."""
        f, _, _ = vtrace.run_histories(pid + "r", "drive_audio", "AudioTrace", [hist], nchunks=1, marker=MARKER)
        if last_only:
            f = [x for x in f if x.prop == "CRASH" or x.step == len(hist) - 1]
        return f

    if replay:
        hist = [json.loads(l) for l in open(replay) if l.strip()]
        firsts = vtrace.first_failures(rerun(hist, last_only=False), pid)
        if firsts:
            f = list(firsts.values())[0]
            print("VIOLATION property=%s replay=%s" % (pid, replay))
            print("  what=%s at step %d (%s) %s" % (f.what, f.step, f.event, f.detail[:300]))
            return 1
        print("OK replay holds")
        return 0

    # ---- leg A: the model
    mruns = []
    for (cap, d, depth) in ([(2, 2, 10), (3, 2, 10)] if q else [(2, 2, 16), (3, 2, 16), (2, 3, 16), (4, 1, 16), (3, 3, 16)]):
        cfg = checks.write_cfg("AudioMC_%d_%d_%d.cfg" % (cap, d, depth),
                               AUDIO_CFG % {"depth": depth, "emit": 0, "cap": cap, "d": d, "extra": "CONSTRAINT DepthBound\nVIEW View"})
        r = vc.run_tlc("AudioMC", cfg=cfg, timeout=1500, heap="8g", workers=NCHUNKS)
        r.scope = {"period_buffer_frames": cap, "time_units_per_frame": d, "depth": depth}
        mruns.append(r)
    # behaviours chosen by TLC, replayed on the real library
    cfg = checks.write_cfg("AudioMC_sim.cfg", AUDIO_CFG % {"depth": 1000, "emit": 10, "cap": gen_audio.MC_CAP, "d": gen_audio.MC_D,
                                                          "extra": "CONSTRAINT Emit"})
    sim = vc.run_tlc("AudioMC", cfg=cfg, timeout=600, heap="4g", simulate=(40 if q else 100), depth=11, workers=4)
    beh = [gen_audio.from_behaviour(json.loads(b)) for b in re.findall(r'"BEHAVIOUR",\s*"(\[[0-9,\s]*\])"', sim.out)]

    # ---- histories
    # fl: every sample slot is recorded and judged up to this many frames; above: edges, period boundaries,
    # clipping samples (cap), coincidence slots and one frame in sp
    fl, sp = (48, 16) if q else (128, 8)
    gen_audio.CLIP_CAP = 40 if q else 150
    gen_audio.U2_MAX = 200 if q else 2100
    ex = gen_audio.exhaustive_short(rng, emus=(0, 2) if q else (0, 2, 3, 4, 5, 6))
    sw = gen_audio.sweep(rng, fl=fl, sp=sp, K=5 if q else 6)
    if not q:
        sw += gen_audio.sweep(rng, fl=fl, sp=sp, per=13, emus=gen_audio.EMULATORS[3:] + gen_audio.EMULATORS[:3])
    bd = gen_audio.boundary(rng, sizes=gen_audio.BOUNDARY if not q else gen_audio.BOUNDARY[:10] + [32767, 65536, 69999, 70000])
    us = gen_audio.ustride_grid(rng, fl=fl, sp=sp) if q else \
        gen_audio.ustride_grid(rng, emus=(0, 2, 3, 4, 5, 6, 1, 8), calls=36, fl=fl, sp=sp,
                               sizes=(4, 6, 2, 10, 1030, 7, 64, 3, 16, 200, 5, 1026, 12, 2050, 8, 333, 4096, 14, 2, 9000, 20, 1024, 70000, 100))
    pl = gen_audio.play_histories(rng, 24 if q else 100, fl=fl, sp=sp * 2)
    rd = [gen_audio.random_history(rng, 14 if q else 24, fl=fl, sp=sp * 2) for _ in range(60 if q else 250)]
    groups = [("model_generated", beh), ("exhaustive_short", ex), ("size_sweep", sw), ("boundary", bd), ("unaligned_stride_grid", us), ("play", pl), ("random", rd)]
    histories = []
    for _, g in groups:
        histories += g
    order = list(range(len(histories)))
    random.Random(vc.seed()).shuffle(order)            # balance the chunks
    histories = [histories[i] for i in order]
    # batches keep the trace a single TLC instance has to hold in memory small
    failures, counters, stats = [], {}, {"records": 0, "infra": [], "drift": [], "tlc_wall": 0.0}
    BATCH = 450
    for b0 in range(0, len(histories), BATCH):
        f, c, st = vtrace.run_histories(pid, "drive_audio", "AudioTrace", histories[b0:b0 + BATCH], nchunks=NCHUNKS, marker=MARKER,
                                        htimeout=1500, tlc_timeout=1500)
        for x in f:
            x.history += b0
        failures += f
        for k, v in c.items():
            counters[k] = counters.get(k, 0) + v
        stats["records"] += st["records"]; stats["infra"] += st["infra"]; stats["drift"] += st["drift"]; stats["tlc_wall"] += st["tlc_wall"]
    if stats["infra"]:
        print("INFRA:", stats["infra"][0][:2000])
        return 3
    # Confirmation by signature.  conclude() re-runs a rejected prefix and accepts any rejection as confirmation; here a
    # rejection must come back with the same label (type / container), otherwise a flaky one (two instances of one
    # execution are not bit-identical in rare runs, see the assumptions) would be confirmed by an unrelated real one.
    by_what = {}
    for f in failures:
        if f.prop != "CRASH":
            by_what.setdefault(f.what, []).append(f)
    unconfirmed = {}
    for what, fs in sorted(by_what.items()):
        fs.sort(key=lambda f: f.step)
        ok = False
        for f in fs[:3]:
            again = rerun(histories[f.history][:f.step + 1], last_only=False)
            if any(a.prop != "CRASH" and a.what == what for a in again):
                ok = True
                break
        if not ok:
            unconfirmed[what] = len(fs)
    failures = [f for f in failures if f.prop == "CRASH" or f.what not in unconfirmed]
    coverage = {
        "states": sum(r.distinct for r in mruns), "transitions": sum(r.generated for r in mruns),
        "traces_validated_against_impl": len(histories), "records_validated": stats["records"],
        "history_groups": {name: len(g) for name, g in groups},
        "model_generated_behaviours_replayed": len(beh), "exhaustive_short_histories": len(ex),
        "refinement": {"steps_checked_against_model": counters.get("refined", 0), "steps_drifted": counters.get("drifted", 0),
                       "period_sequences_exact": counters.get("pf_exact", 0), "period_sequences_within_one_frame": counters.get("pf_fuzzy", 0),
                       "first_drifts": stats.get("drift", [])[:5]},
        "monitor_counters": counters,
        "samples": [_short(h) for h in (sw[:1] + pl[:1] + beh[:1])],
        "model_runs": [{"scope": r.scope, "ok": r.ok, "violation": r.violation, "distinct": r.distinct, "generated": r.generated,
                        "wall_s": round(r.wall, 1)} for r in mruns],
        "exhaustive": False,
        "rejections_not_reproduced_with_the_same_label": unconfirmed,
    }
    for r in mruns:
        if r.violation or not r.ok:
            print("MODEL-DRIFT: AudioMC %s reports %s" % (r.scope, r.violation or ("rc=%s %s" % (r.rc, r.out[-300:]))))
    if counters.get("drifted", 0):
        print("MODEL-DRIFT: %d recorded audio calls differ from spec/Audio.tla (return value / period sequence): %s"
              % (counters["drifted"], json.dumps(stats["drift"][:2])))
    return checks.conclude(pid, tier, "model_checking", histories, failures, rerun, coverage, t0,
                           ["harness/drive_audio.cpp: poison fill, changed-byte scan, slot read-out and the recovery x = round(F64 * 32767) are faithful",
                            "all instances of one execution are configured identically and the emulators are deterministic, so instance 0 (F64) carries the signal of the others",
                            "a store that writes the poison value back is indistinguishable from no store (the slot value is still checked)",
                            "writes far outside the buffer are caught by AddressSanitizer (crash = violation), near ones by the guard zones",
                            "TLC 1.8 evaluates Audio/AudioTrace correctly; JSON trace round-trips integers < 2^31"])
