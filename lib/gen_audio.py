"""Call histories for the audio interface (C13): harness/drive_audio.cpp replays them on K identically
configured instances (instance 0 renders F64, the others one format each per call).

 init   {"o":"init","rate","emu","chips","K","banks",["song"],["loop"],["pcm"]}
 events {"o":"on"|"off"|"cc"|"pc"|"panic", ...}                 (sent to every instance)
 audio  {"o":"gen"|"play","n":request,"fl":full-logging limit (frames),"sp":sampling modulus,
         "f":[format per instance]}   format = {"t","c","so","lb","rb","sz","pz","a"}
   t sample type, c container size, so sample offset, lb/rb byte position of the left/right pointer in
   the caller's memory of sz bytes, pz poison seed, a=1: the short* API (opn2_generate / opn2_play).
"""
import itertools, random

S16, S8, F32, F64, S24, S32, U8, U16, U24, U32 = range(10)
NATURAL = {S8: 1, U8: 1, S16: 2, U16: 2, S24: 3, U24: 3, S32: 4, U32: 4, F32: 4, F64: 8}
EMULATORS = [0, 1, 2, 3, 4, 5, 6, 8]      # 7 is the VGM dumper (no audio)
FAST_EMUS = [0, 2, 4, 5, 3, 6]
RATES = [44100, 44100, 48000, 22050, 8000, 96000]
STYLES = ["inter", "interR", "wide", "wide2", "planar", "planarR", "planarG"]
DENSE_STYLES = ["inter", "interR", "planar", "planarR"]
# byte-granular layouts: the record stride (sampleOffset) is NOT a multiple of the container size and / or the
# left / right pointers are not aligned to it (the documented API allows any sampleOffset and any pointer);
# the sample slots stay disjoint
USTYLES = ["planarU", "planarUR", "interU", "interU2", "interO", "planarO"]
ALL_STYLES = STYLES + USTYLES
U2_MAX = 200        # largest request rendered as "interU2" outside ustride_grid (checks_audio raises it in the thorough tier)


def supported(t, c):
    if t not in NATURAL:
        return False
    if t in (F32, F64):
        return c == NATURAL[t]
    return c in (1, 2, 4) and c >= NATURAL[t]


PAIRS_OK = [(t, c) for t in range(10) for c in (1, 2, 4, 8) if supported(t, c)]
PAIRS_BAD = [(t, c) for t in range(10) for c in (1, 2, 4, 8) if not supported(t, c)] + [(10, 2), (11, 4)]

LOUD = {"i": 0, "id": 1, "kon": 40000, "koff": 1000, "fbalg": 7, "tl": [0, 0, 0, 0], "mul": [1, 2, 3, 4]}
QUIET = {"i": 1, "id": 2, "kon": 40000, "koff": 1000, "fbalg": 7, "tl": [127, 127, 127, 60], "mul": [1, 1, 1, 1]}
SOFT = {"i": 2, "id": 3, "kon": 40000, "koff": 1000, "fbalg": 0x3C, "tl": [30, 20, 25, 8], "mul": [1, 3, 1, 2]}
BANKS = [{"p": 0, "msb": 0, "lsb": 0, "ins": [LOUD, QUIET, SOFT]}]


def even(n):
    return 0 if n <= 0 else n - (n % 2)


def ref_fmt(n):
    return {"t": F64, "c": 8, "so": 16, "lb": 0, "rb": 8, "sz": max(1, even(n) // 2) * 16 + 16, "pz": 1, "a": 0}


def odd_stride(c, so):
    """The smallest stride >= so that is not a multiple of the container (c = 1: every stride is a multiple)."""
    return so + 1 if (c > 1 and so % c == 0) else so


def fmt(t, c, n, style, lead=0, tail=0, gap=1, pz=7, a=0):
    """Geometry of one rendering: disjoint sample slots; naturally aligned for STYLES, byte-granular for USTYLES
    (gap 1 gives the smallest legal stride of the style: container + 1 resp. 2 * container + 1)."""
    nf = max(1, even(n) // 2)
    if a:
        t, c, style = S16, 2, "inter"
    if style in USTYLES:
        if style == "planarU":       # planar, gap bytes (not containers) between the samples of a plane
            so, lb = odd_stride(c, c + gap), 0
            rb = nf * so + gap
        elif style == "planarUR":    # the same, right plane first
            so, rb = odd_stride(c, c + gap), 0
            lb = nf * so + gap
        elif style == "interU":      # interleaved records of 2 containers + gap bytes
            so, lb, rb = odd_stride(c, 2 * c + gap), 0, c
        elif style == "interU2":     # gap bytes between left and right too: right = left + container + gap
            so, lb, rb = odd_stride(c, 2 * c + 2 * gap), 0, c + gap
        elif style == "interO":      # ordinary interleaved frames at an unaligned address
            so, lb, rb = 2 * c, 0, c
            lead = lead or 1
        else:                        # "planarO": dense planes at unaligned addresses
            so, lb = c, 0
            rb = nf * c + gap
            lead = lead or 1
        # the leading / trailing unused room is counted in bytes: lead 1 or 3 makes both pointers unaligned
        lb += lead
        rb += lead
        sz = max(lb, rb) + (nf - 1) * so + c + tail
        return {"t": t, "c": c, "so": so, "lb": lb, "rb": rb, "sz": sz, "pz": pz, "a": a}
    if style == "inter":
        so, lb, rb = 2 * c, 0, c
    elif style == "interR":
        so, lb, rb = 2 * c, c, 0
    elif style == "wide":          # interleaved, unused bytes after each frame
        so, lb, rb = 2 * c + c * gap, 0, c
    elif style == "wide2":         # unused bytes between left and right too
        so, lb, rb = 4 * c, 0, 2 * c
    elif style == "planar":
        so, lb = c, 0
        rb = nf * c + c * gap
    elif style == "planarR":
        so, rb = c, 0
        lb = nf * c + c * gap
    elif style == "planarG":       # planar with unused bytes between the samples of a plane
        so, lb = (1 + gap) * c, 0
        rb = nf * so + c * gap
    else:
        raise ValueError(style)
    lb += lead * c
    rb += lead * c
    sz = max(lb, rb) + (nf - 1) * so + c + tail * c
    return {"t": t, "c": c, "so": so, "lb": lb, "rb": rb, "sz": sz, "pz": pz, "a": a}


class Plan:
    """Cycles deterministically through every supported / refused pair and every layout style."""

    def __init__(self, rng, styles=ALL_STYLES):
        ok = [(p, s) for s in styles for p in PAIRS_OK]
        rng.shuffle(ok)
        self.ok = itertools.cycle(ok)
        bad = [(p, s) for s in styles[:3] for p in PAIRS_BAD]
        rng.shuffle(bad)
        self.bad = itertools.cycle(bad)
        self.rng = rng

    def formats(self, n, nok, nbad, api16=False):
        fs = [ref_fmt(n)]
        r = self.rng
        for k in range(nok):
            (t, c), s = next(self.ok)
            if s == "interU2" and n > U2_MAX:
                s = "interU"          # left / right distances alternate: one recorded run per sample, kept for small requests
            fs.append(fmt(t, c, n, s, lead=r.choice([0, 0, 1, 3]), tail=r.choice([0, 0, 1, 2]), gap=r.choice([1, 1, 2, 3]),
                          pz=r.randrange(1, 200), a=1 if (api16 and k == 0) else 0))
        for _ in range(nbad):
            (t, c), s = next(self.bad)
            fs.append(fmt(t, c, n, s, lead=r.choice([0, 1]), tail=r.choice([0, 1]), gap=1, pz=r.randrange(1, 200)))
        return fs


def init_cmd(emu, chips, K, rate=44100, song=None, loop=0, pcm=None):
    c = {"o": "init", "rate": rate, "emu": emu, "chips": chips, "K": K, "banks": BANKS, "loop": loop}
    if song is not None:
        c["song"] = song
    if pcm is not None:
        c["pcm"] = pcm
    return c


def prelude(material, chips):
    """Events that set up loud (clipping with several chips), quiet or no material."""
    h = []
    if material == "loud":
        for ch in range(min(16, 6 * chips)):
            h.append({"o": "cc", "ch": ch, "n": 7, "v": 127})
        for k in range(6 * chips):
            h.append({"o": "on", "ch": k % 16, "k": 36 + (k * 5) % 48, "v": 127})
    elif material == "quiet":
        h.append({"o": "pc", "ch": 0, "p": 1})
        h.append({"o": "on", "ch": 0, "k": 60, "v": 30})
        h.append({"o": "on", "ch": 0, "k": 67, "v": 20})
    elif material == "mixed":
        h.append({"o": "pc", "ch": 1, "p": 2})
        for k in range(4):
            h.append({"o": "on", "ch": k % 2, "k": 50 + 7 * k, "v": 100})
    return h


CLIP_CAP = 150


def audio(o, n, fs, fl, sp):
    return {"o": o, "n": n, "fl": fl, "sp": sp, "cl": CLIP_CAP, "f": fs}


# ------------------------------------------------------------------ exhaustive-short
def exhaustive_short(rng, emus=(0, 2), sizes=range(-4, 10)):
    """Every type x container pair (supported and refused) for every tiny request size, all layouts in rotation."""
    hs = []
    for emu in emus:
        plan = Plan(rng)
        for n in sizes:
            K = 12
            h = [init_cmd(emu, 2, K)] + prelude("loud", 2)
            h.append(audio("gen", 400, [ref_fmt(400)] + [fmt(S16, 2, 400, "inter") for _ in range(K - 1)], 16, 64))
            for call in range(9):
                h.append(audio("gen" if call % 3 else "play", n, plan.formats(n, 8, 3, api16=(call % 4 == 1)), 600, 8))
            hs.append(h)
    return hs


# ------------------------------------------------------------------ all request sizes
def sweep(rng, lo=-4, hi=1100, per=17, fl=96, sp=8, K=6, emus=EMULATORS):
    hs = []
    plan = Plan(rng)
    sizes = list(range(lo, hi + 1))
    mats = ["loud", "loud", "quiet", "mixed", "silent"]
    for i in range(0, len(sizes), per):
        q = i // per
        emu = emus[q % len(emus)]
        chips = 1 + (q // len(emus)) % 4
        if emu in (1, 8) and chips > 2:
            chips = 2                 # the cycle-accurate cores are slow
        rate = RATES[q % len(RATES)]
        h = [init_cmd(emu, chips, K, rate=rate, pcm=(1 if q % 7 == 3 else None))] + prelude(mats[q % len(mats)], chips)
        for n in sizes[i:i + per]:
            h.append(audio("gen", n, plan.formats(n, K - 2, 1, api16=(n % 5 == 0)), fl, sp))
            if n % 6 == 0:
                h.append({"o": "on", "ch": 2, "k": 40 + n % 40, "v": 127})
        hs.append(h)
    return hs


# ------------------------------------------------------------------ boundary sizes
BOUNDARY = [1022, 1023, 1024, 1025, 1026, 2046, 2047, 2048, 2049, 2050, 4095, 4096, 8191, 16384, 32767, 32768, 65535, 65536, 69999, 70000]


def boundary(rng, sizes=BOUNDARY, emus=(0, 2, 4), fl=64, sp=64):
    hs = []
    plan = Plan(rng, styles=["inter", "planar", "wide", "planarR", "interR", "planarG", "wide2", "planarU", "interU", "interO"])
    for i, n in enumerate(sizes):
        emu = emus[i % len(emus)]
        chips = 2 + i % 3
        h = [init_cmd(emu, chips, 5)] + prelude("loud", chips)
        h.append(audio("gen", 512, plan.formats(512, 3, 1), fl, sp))
        h.append(audio("gen", n, plan.formats(n, 3, 1), fl, sp))
        h.append(audio("gen", 7, plan.formats(7, 3, 1), fl, sp))
        hs.append(h)
    return hs


# ------------------------------------------------------------------ byte-granular strides and pointers
def ustride_combos():
    """Every supported pair with a container of 2, 4 or 8 bytes x every byte-granular layout: planar strides
    container + 1 .. 2 * container + 1, interleaved record strides 2 * container + 1 .. 3 * container + 1 (multiples of the
    container skipped), a separated right slot, ordinary layouts at unaligned addresses; lead 0 / 1 / container - 1 bytes."""
    cs = []
    for (t, c) in PAIRS_OK:
        if c == 1:
            continue
        for gap in range(1, c + 2):
            if (c + gap) % c:
                cs.append((t, c, "planarU" if gap % 2 else "planarUR", gap))
            if (2 * c + gap) % c:
                cs.append((t, c, "interU", gap))
        for gap in (1, 2, 3):
            cs.append((t, c, "interU2", gap))
        cs.append((t, c, "interO", 1))
        cs.append((t, c, "planarO", 1))
    return cs


def ustride_grid(rng, emus=(0, 2), calls=8, K=16, fl=48, sp=16, sizes=(4, 6, 10, 1030, 7, 64, 5, 16)):
    """The combinations of ustride_combos() in rotation (one rotation for all histories: emus x calls x (K - 1) >= 174
    renders every combination at least once), K - 1 per call; the request sizes include 2 and 3 frames (the smallest
    that show a stride), odd requests, and sizes that need two and three periods of the 512-frame buffer (the position
    of a later period inside the caller's memory is a multiple of the stride too)."""
    hs = []
    cyc = ustride_combos()
    rng.shuffle(cyc)
    cyc = itertools.cycle(cyc)
    for hi, emu in enumerate(emus):
        h = [init_cmd(emu, 2, K, rate=RATES[hi % len(RATES)])] + prelude("loud" if hi % 2 == 0 else "mixed", 2)
        h.append(audio("gen", 300, [ref_fmt(300)] + [fmt(S16, 2, 300, "inter") for _ in range(K - 1)], 16, 64))
        for ci in range(calls):
            n = sizes[(ci + 3 * hi) % len(sizes)]
            fs = [ref_fmt(n)]
            for k in range(K - 1):
                t, c, s, gap = next(cyc)
                fs.append(fmt(t, c, n, s, lead=(0, 1, c - 1, 3)[(ci + k) % 4], tail=(0, 1, 2)[k % 3], gap=gap, pz=rng.randrange(1, 200)))
            h.append(audio("gen", n, fs, fl, sp))
            if ci % 4 == 3:
                h.append({"o": "on", "ch": 3, "k": 45 + ci, "v": 127})
        hs.append(h)
    return hs


# ------------------------------------------------------------------ opn2_play / opn2_playFormat with a generated SMF
def make_song(rng, notes=6, div=96, tempo=500000, maxgap=30, tail=10):
    ev = [[0, 0xC0, 0, 0], [0, 0xB0, 7, 127]]
    on = []
    for _ in range(notes):
        k = 40 + rng.randrange(40)
        ev.append([rng.randrange(maxgap), 0x90, k, 127])
        on.append(k)
        if rng.random() < 0.5 and on:
            ev.append([rng.randrange(maxgap), 0x80, on.pop(0), 0])
    for k in on:
        ev.append([rng.randrange(maxgap), 0x80, k, 0])
    return {"div": div, "tempo": tempo, "ev": ev, "tail": tail}


def play_history(rng, emu, chips, K=5, fl=96, sp=16, loop=0, big=False):
    plan = Plan(rng)
    song = make_song(rng, notes=rng.choice([2, 5, 9]), maxgap=rng.choice([2, 6, 16]), tail=rng.choice([0, 5, 40]))
    h = [init_cmd(emu, chips, K, rate=rng.choice(RATES), song=song, loop=loop)]
    ncalls = rng.choice([6, 10, 14])
    for i in range(ncalls):
        if big and i == 1:
            n = rng.choice([40000, 70000])
        else:
            n = rng.choice([-2, 0, 1, 2, 3, 64, 333, 512, 1024, 1025, 1500, 2048, 3001, 4096, 9000])
        h.append(audio("play", n, plan.formats(n, K - 2, 1, api16=(i % 3 == 0)), fl, sp))
        if rng.random() < 0.2:
            m = rng.choice([2, 100, 777])
            h.append(audio("gen", m, plan.formats(m, K - 2, 1), fl, sp))
    # far past the end of the song: must keep returning 0 and touch nothing
    for n in (70000, 512, 2):
        h.append(audio("play", n, plan.formats(n, K - 2, 1), fl, sp))
    return h


def play_histories(rng, count, emus=FAST_EMUS, fl=96, sp=16):
    hs = []
    for i in range(count):
        hs.append(play_history(rng, emus[i % len(emus)], 1 + i % 3, fl=fl, sp=sp, loop=1 if i % 5 == 4 else 0, big=(i % 4 == 1)))
    return hs


# ------------------------------------------------------------------ seeded random
def random_history(rng, length=14, fl=96, sp=16):
    emu = rng.choice(EMULATORS)
    chips = rng.choice([1, 2, 3, 4])
    if emu in (1, 8):
        chips = min(chips, 2)
    K = rng.choice([4, 6, 8])
    song = make_song(rng) if rng.random() < 0.4 else None
    plan = Plan(rng)
    h = [init_cmd(emu, chips, K, rate=rng.choice(RATES), song=song, loop=1 if rng.random() < 0.15 else 0,
                  pcm=rng.choice([None, None, 0, 1]))]
    h += prelude(rng.choice(["loud", "loud", "quiet", "mixed", "silent"]), chips)
    for _ in range(length):
        r = rng.random()
        if r < 0.15:
            h.append({"o": "on", "ch": rng.randrange(4), "k": 30 + rng.randrange(60), "v": rng.choice([40, 100, 127])})
        elif r < 0.22:
            h.append({"o": "off", "ch": rng.randrange(4), "k": 30 + rng.randrange(60)})
        elif r < 0.26:
            h.append({"o": "cc", "ch": rng.randrange(4), "n": rng.choice([7, 10, 11]), "v": rng.randrange(128)})
        elif r < 0.28:
            h.append({"o": "panic"})
        else:
            q = rng.random()
            if q < 0.45:
                n = rng.randrange(-4, 200)
            elif q < 0.85:
                n = rng.randrange(200, 2400)
            elif q < 0.97:
                n = rng.choice([1023, 1024, 1025, 2047, 2048, 2049, 4096, 5000, 10001])
            else:
                n = rng.choice([30000, 65536, 70000])
            o = "play" if (song is not None and rng.random() < 0.6) or rng.random() < 0.05 else "gen"
            h.append(audio(o, n, plan.formats(n, K - 2, 1, api16=rng.random() < 0.2), fl, sp))
    return h


# ------------------------------------------------------------------ behaviours chosen by TLC (spec/AudioMC.tla)
MC_FMTS = [(S16, 2, "inter"), (U8, 1, "planar"), (S24, 4, "wide"), (F32, 4, "planarR"), (U16, 4, "inter"), (F64, 8, "inter"),
           (S16, 2, "planarU", 1), (S32, 4, "interU", 1), (U16, 4, "planarU", 2), (S24, 4, "interU2", 1),
           (S16, 1, "inter"), (S32, 8, "inter"), (F64, 4, "inter"), (10, 2, "inter")]
MC_SIZES = [-3, -2, -1, 0, 1, 2, 3, 4, 5, 6, 7, 9, 12]
MC_CAP, MC_D = 2, 2


def mc_ops():
    ops = []
    for o in ("gen", "play"):
        for n in MC_SIZES:
            for fi in range(len(MC_FMTS)):
                ops.append({"o": o, "n": n, "fi": fi})
    return ops


def mc_songs():
    D, Cap = MC_D, MC_CAP
    return [[], [1, 1, 3], [D * Cap * 2 + 1], [0, D, 2 * D + 1, D * Cap + D], [3, 3, 3, 3],
            [2, 5, 1, 7, 0, 3, 9, 2, 2], [D * Cap + 1, 1, D * Cap * 3, 2]]


def from_behaviour(idx, scale=256, fl=96, sp=16):
    """idx[0] = song index (1-based), idx[1:] = indices into mc_ops() (1-based).  A model period buffer of
    MC_CAP frames stands for the real one of 512: request sizes and event gaps are scaled by 512 / MC_CAP."""
    ops = mc_ops()
    gaps = mc_songs()[idx[0] - 1]
    song = None
    if gaps:
        # one time unit = 512 / (Cap * D) frames at 44100 Hz = 128 frames = 2902.49 us; div 100 => tempo 290249
        ev = []
        for i, g in enumerate(gaps):
            ev.append([g, 0x90 if i % 2 == 0 else 0x80, 60, 127 if i % 2 == 0 else 0])
        song = {"div": 100, "tempo": 290249, "ev": ev, "tail": 0}
    h = [init_cmd(0, 2, 2, song=song)] + prelude("loud", 2)
    for i in idx[1:]:
        op = ops[i - 1]
        n = op["n"]
        if n > 0:
            n = scale * (n - n % 2) + n % 2
        mf = MC_FMTS[op["fi"]]
        t, c, s = mf[:3]
        if s == "interU2" and n > U2_MAX:
            s = "interU"
        h.append(audio(op["o"], n, [ref_fmt(n), fmt(t, c, n, s, lead=1 if s in USTYLES else 0, gap=mf[3] if len(mf) > 3 else 1, pz=9)], fl, sp))
    return h
