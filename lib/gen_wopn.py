"""Histories for the WOPN/OPNI serialisation check (C15, loader half of C02).

A history = [init, value command (bank | inst | raw), save/load/patch/adopt ...]; see
harness/drive_wopn.cpp for the command set.  Nothing here is an oracle: the generator only
chooses inputs (values, versions, destination sizes, byte patches)."""
import itertools, random

INIT = {"o": "init"}


def trim(b):
    b = list(b)
    while b and b[-1] == 0:
        b.pop()
    return b


def ins(name=(), noff=0, vel=0, key=0, flags=0, fbalg=0, lfosens=0, ops=(), don=0, doff=0):
    return [trim(name), noff, vel, key, flags, fbalg, lfosens, trim(ops), don, doff]


BLANK0 = ins(flags=2)
ZERO = ins()
SOUNDING = ins(don=1, doff=1)
EXTREME = ins([120] * 31, -1, 0, 255, 0, 255, 255, [255] * 28, 65535, 65535)


def bank_cmd(nm=1, np=1, ver=2, lfo=0, chip=0, vm=0, banks=(), dflt=BLANK0, inss=()):
    return {"o": "bank", "ver": ver, "nm": nm, "np": np, "lfo": lfo, "chip": chip, "vm": vm,
            "banks": [[s, b, trim(n), l, m] for (s, b, n, l, m) in banks], "dflt": dflt,
            "ins": [[s, b, i, I] for (s, b, i, I) in inss]}


def inst_cmd(I, ver=2, drum=0):
    return {"o": "inst", "ver": ver, "drum": drum, "I": I}


# ------------------------------------------------------------------ layout (to choose destination sizes only)
def bank_blocks(nm, np, ver):
    isz = 69 if ver >= 2 else 65
    return [11] + ([2] if ver > 1 else []) + [2, 2, 1] + ([34] * (nm + np) if ver >= 2 else []) + [isz * 128 * nm, isz * 128 * np]


def inst_blocks(ver):
    return [11] + ([2] if ver > 1 else []) + [1, 65]


def boundaries(blocks):
    out, s = [0], 0
    for b in blocks:
        s += b
        out.append(s)
    return out


def boundary_lens(blocks, extra=0):
    enc = sum(blocks)
    s = set()
    for b in boundaries(blocks):
        for d in (-1, 0, 1):
            if 0 <= b + d <= enc + extra + 1:
                s.add(b + d)
    s.update([0, 1, enc + extra])
    return sorted(s)


def calc_slack(kind, ver):
    return 2 if (kind == "bank" and ver == 1) else 0   # the v1 bank size calculator counts a version field


# ------------------------------------------------------------------ building blocks
def roundtrip(vers=(1, 2), bytes_=0, fill=238):
    h = []
    for v in vers:
        h.append({"o": "save", "ver": v, "rel": 0, "bytes": bytes_})
        h.append({"o": "load", "fill": fill})
    return h


def dest_sizes(kind, nm, np, vers=(1, 2), all_upto=0):
    """saves into undersized / exact destinations: every block boundary -1/0/+1 (+ all sizes below all_upto)"""
    h = []
    for v in vers:
        blocks = bank_blocks(nm, np, v) if kind == "bank" else inst_blocks(v)
        lens = set(boundary_lens(blocks, calc_slack(kind, v)))
        lens.update(range(0, min(all_upto, sum(blocks)) + 1))
        for n in sorted(lens):
            h.append({"o": "save", "ver": v, "len": n})
    return h


def identity_tail(fill=238):
    """load the current image; if accepted adopt the value, save it with its own version, load again"""
    return [{"o": "load", "fill": fill}, {"o": "adopt"}, {"o": "save", "ver": -1, "rel": 0}, {"o": "load", "fill": fill}]


def hdr_off(ver):
    return 13 if ver > 1 else 11


def ins_off(nm, np, ver, q):
    """byte offset of the q-th instrument entry of a saved bank image"""
    isz = 69 if ver >= 2 else 65
    return hdr_off(ver) + 5 + (34 * (nm + np) if ver >= 2 else 0) + isz * q


def byte_string_cases(nm, np, ver, rng=None):
    """patch lists turning a saved image into other accepted (or rejected) byte strings"""
    h = hdr_off(ver)
    last = (nm + np) * 128 - 1
    cases = [
        ("zero-mel", [[h, 0], [h + 1, 0]]),
        ("zero-perc", [[h + 2, 0], [h + 3, 0]]),
        ("zero-both", [[h, 0], [h + 1, 0], [h + 2, 0], [h + 3, 0]]),
        ("unterminated-ins-first", [[ins_off(nm, np, ver, 0) + k, 65 + k % 26] for k in range(32)]),
        ("unterminated-ins-last", [[ins_off(nm, np, ver, last) + k, 255] for k in range(32)]),
        ("flags-ff", [[h + 4, 255]]),
        ("extreme-entry", [[ins_off(nm, np, ver, 1) + k, 255] for k in range(69 if ver >= 2 else 65)]),
        ("null-delays", [[ins_off(nm, np, ver, 0) + k, 0] for k in range(65, 69)] if ver >= 2 else []),
    ]
    if ver >= 2:
        cases += [("unterminated-bankname", [[h + 5 + k, 66] for k in range(32)]),
                  ("bank-lsb-msb", [[h + 5 + 32, 255], [h + 5 + 33, 255]]),
                  ("version-1-b2nk", [[11, 1], [12, 0]])]
    if rng:
        enc = sum(bank_blocks(nm, np, ver))
        for _ in range(3):
            cases.append(("random", [[rng.randrange(h + 5, enc), rng.randrange(256)] for _ in range(rng.choice([1, 4, 32]))]))
    return cases


def rejected_cases(ver):
    c = [("bad-magic", [[7, 66]]), ("bad-magic0", [[0, 0]]), ("magic-nul", [[10, 1]])]
    if ver >= 2:
        c += [("version-3", [[11, 3], [12, 0]]), ("version-256", [[11, 0], [12, 1]]), ("version-ffff", [[11, 255], [12, 255]])]
    return c


# ------------------------------------------------------------------ random values
def rand_name(rng, maxlen, in_domain=True):
    r = rng.random()
    if r < 0.25:
        return []
    if r < 0.45:
        return [rng.randrange(1, 256) for _ in range(maxlen)]                     # longest NUL-terminated name
    if r < 0.6 and not in_domain:
        return [rng.randrange(1, 256) for _ in range(maxlen + 1)]                 # fills the whole field: unterminated
    if r < 0.7:
        n = rng.randrange(1, maxlen)
        return [rng.randrange(1, 256) for _ in range(n)] + [0] + [rng.randrange(256) for _ in range(maxlen - n - 1)]   # bytes after the NUL
    return [rng.randrange(1, 256) for _ in range(rng.randrange(1, maxlen + 1))]


def pick16(rng):
    return rng.choice([0, 1, 2, 255, 256, 257, 32767, 32768, 40000, 65534, 65535, rng.randrange(65536)])


def rand_ins(rng, in_domain=True, survivable=True):
    blank = rng.random() < 0.3
    if blank and survivable:
        don = doff = 0
    else:
        don, doff = pick16(rng), pick16(rng)
        if survivable and don == 0 and doff == 0:
            don = 1 + rng.randrange(65535)
    return ins(rand_name(rng, 31, in_domain),
               rng.choice([-32768, -32767, -129, -128, -12, -1, 0, 1, 12, 127, 128, 255, 256, 32767, rng.randrange(-32768, 32768)]),
               0 if in_domain else rng.choice([0, -128, 127, 5]),
               rng.choice([0, 1, 35, 127, 128, 255, rng.randrange(256)]),
               (2 if blank else 0) | (0 if in_domain else rng.choice([0, 1, 0xFC])),
               rng.choice([0, 7, 0x3F, 255, rng.randrange(256)]), rng.choice([0, 0x37, 255, rng.randrange(256)]),
               [rng.choice([0, 255, rng.randrange(256)]) for _ in range(28)], don, doff)


def rand_bank(rng, in_domain=True, survivable=True, big=False):
    nm = rng.choice([1, 1, 1, 2, 2, 3, 5]) if not big else rng.choice([64, 17, 33])
    np = rng.choice([1, 1, 1, 2, 2, 3, 4]) if not big else rng.choice([64, 1, 20])
    cn = [nm, np]
    banks = []
    seen = set()
    for _ in range(rng.choice([0, 1, 2, 4, nm + np])):
        s = rng.randrange(2); b = rng.randrange(cn[s])
        if (s, b) in seen:
            continue
        seen.add((s, b))
        banks.append((s, b, rand_name(rng, 32, True), rng.choice([0, 1, 127, 128, 255, rng.randrange(256)]), rng.choice([0, 1, 127, 128, 255, rng.randrange(256)])))
    dflt = rng.choice([BLANK0, BLANK0, SOUNDING, rand_ins(rng, in_domain, survivable)])
    inss, pos = [], set()
    corners = [(0, 0, 0), (0, nm - 1, 127), (1, 0, 0), (1, np - 1, 127), (0, 0, 127), (1, np - 1, 0)]
    for _ in range(rng.choice([0, 1, 3, 8, 20, 128])):
        p = rng.choice(corners) if rng.random() < 0.3 else None
        if p is None:
            s = rng.randrange(2); p = (s, rng.randrange(cn[s]), rng.randrange(128))
        if p in pos:
            continue
        pos.add(p)
        inss.append((p[0], p[1], p[2], rand_ins(rng, in_domain, survivable)))
    return bank_cmd(nm, np, rng.choice([1, 2, 2]) if in_domain else rng.choice([0, 1, 2, 7]),
                    rng.randrange(16) if in_domain else rng.choice([15, 16, 255]),
                    rng.randrange(2) if in_domain else rng.choice([1, 2, 255]),
                    0 if in_domain else rng.choice([0, 1, 255]), banks, dflt, inss)


def random_bank_history(rng, quick=True):
    r = rng.random()
    big = r < 0.04
    c = rand_bank(rng, in_domain=(r < 0.9), survivable=True, big=big)
    nm, np = c["nm"], c["np"]
    small = nm == 1 and np == 1
    h = [INIT, c]
    h += roundtrip((1, 2), bytes_=1 if (small and rng.random() < 0.4) else 0)
    if not big:
        h += dest_sizes("bank", nm, np, (rng.choice([1, 2]),), all_upto=rng.choice([0, 0, 60]))
        # byte strings derived from the image: identity leg
        ver = rng.choice([1, 2])
        name, patch = rng.choice(byte_string_cases(nm, np, ver, rng))
        if not name.startswith("zero-") or ver == 2:      # (version 1 + zero bank count: separate limit history)
            h += [{"o": "save", "ver": ver, "rel": 0}, {"o": "patch", "set": patch, "bytes": 1 if small and rng.random() < 0.5 else 0}] + identity_tail()
    else:
        h += [{"o": "save", "ver": 2, "rel": -1}, {"o": "save", "ver": 1, "rel": -3}, {"o": "save", "ver": 2, "len": 0}]
    return h


def random_inst_history(rng):
    r = rng.random()
    I = rand_ins(rng, in_domain=(r < 0.8), survivable=False)
    if r > 0.9:
        I[0] = [rng.randrange(1, 256) for _ in range(32)]     # unterminated name in memory
    fill = rng.choice([0, 238])
    h = [INIT, inst_cmd(I, rng.choice([1, 2]), rng.choice([0, 1, 255]))]
    h += roundtrip((1, 2), bytes_=1, fill=fill)
    ver = rng.choice([1, 2])
    h += [{"o": "save", "ver": ver, "len": n} for n in rng.sample(range(0, 80), 6)]
    off = 14 if ver > 1 else 12
    patch = rng.choice([[[off + k, 200 + k] for k in range(32)], [[off - 1, 255]], [[rng.randrange(off, off + 65), rng.randrange(256)] for _ in range(8)],
                        [[11, 1], [12, 0]] if ver > 1 else [[off + 33, 128]]])
    h += [{"o": "save", "ver": ver, "rel": 0}, {"o": "patch", "set": patch, "bytes": 1}] + identity_tail(fill)
    return h


# ------------------------------------------------------------------ exhaustive-short
INST_AXES = dict(
    name=[[], [65], [120] * 31, [65, 0, 66, 67]],
    noff=[-32768, -1, 0, 32767], key=[0, 255], flags=[0, 2], fbalg=[0, 255], lfosens=[0, 255],
    ops=[[], [255] * 28], don=[0, 65535], doff=[0, 1], drum=[0, 1, 255])


def exhaustive_inst(stride=1, offset=0):
    """every combination of the per-field extremes of an instrument file x both versions"""
    keys = list(INST_AXES.keys())
    for n, combo in enumerate(itertools.product(*[INST_AXES[k] for k in keys])):
        if n % stride != offset % stride:
            continue
        d = dict(zip(keys, combo))
        I = ins(d["name"], d["noff"], 0, d["key"], d["flags"], d["fbalg"], d["lfosens"], d["ops"], d["don"], d["doff"])
        yield [INIT, inst_cmd(I, 2, d["drum"])] + roundtrip((1, 2), bytes_=1, fill=0)


def exhaustive_inst_sizes():
    """OPNI: every destination size 0..needed+1 for both versions, and every truncation of the image on load"""
    I = ins([72, 105], -12, 0, 35, 0, 0x3C, 0x31, list(range(1, 29)), 0, 0)
    h = [INIT, inst_cmd(I, 2, 1)]
    for v in (1, 2):
        n = sum(inst_blocks(v))
        h += [{"o": "save", "ver": v, "len": k} for k in range(0, n + 2)]
        h += [{"o": "save", "ver": v, "rel": 0, "bytes": 1}]
        h += [{"o": "load", "len": k, "fill": 238} for k in range(0, n + 1)]
    return h


def exhaustive_bank_sizes(nm=1, np=1, step=1, ver=None):
    """bank: every destination size 0..calculated size (step > 1: a stride, plus all block boundaries)"""
    c = bank_cmd(nm, np, 2, 9, 1, 0, [(0, 0, [66, 97, 110, 107], 1, 2)], BLANK0,
                 [(0, 0, 0, EXTREME), (1, np - 1, 127, ins([80], 1, 0, 40, 0, 1, 2, [3, 4, 5], 7, 9))])
    h = [INIT, c]
    for v in ((1, 2) if ver is None else (ver,)):
        blocks = bank_blocks(nm, np, v)
        n = sum(blocks) + calc_slack("bank", v)
        lens = set(range(0, n + 2, step)) | set(boundary_lens(blocks, calc_slack("bank", v))) | set(range(0, 120))
        h += [{"o": "save", "ver": v, "len": k} for k in sorted(lens)]
    return h


def boundary_histories():
    """hand-picked boundary values of the property statement (all survivable)"""
    hs = []
    n31, n32 = [110] * 31, [78] * 32
    # names filling the fields, maximal counts, extreme fields, v1/v2, 64+64 banks
    hs.append([INIT, bank_cmd(1, 1, 2, 15, 1, 0, [(0, 0, n32, 255, 255), (1, 0, [65, 0, 66], 127, 128)], BLANK0,
                              [(0, 0, 0, EXTREME), (0, 0, 127, ins(n31, -32768, 0, 0, 0, 0, 0, [], 0, 1)),
                               (1, 0, 0, ins([1], 32767, 0, 255, 0, 255, 255, [255] * 28, 65535, 0)), (1, 0, 127, BLANK0)])]
              + roundtrip((1, 2), 1) + dest_sizes("bank", 1, 1, (1, 2), all_upto=100))
    hs.append([INIT, bank_cmd(64, 64, 2, 8, 0, 0, [(0, 63, n32, 63, 127), (1, 63, n32, 0, 1), (0, 0, [77], 0, 0)], SOUNDING,
                              [(0, 63, 127, EXTREME), (1, 63, 127, EXTREME), (1, 0, 0, BLANK0), (0, 31, 64, ins([9], 5, 0, 6, 0, 7, 8, [9], 10, 11))])]
              + roundtrip((1, 2), 0) + dest_sizes("bank", 64, 64, (1, 2)))
    hs.append([INIT, bank_cmd(64, 1, 1, 0, 0, 0, [], BLANK0, [(0, 40, 3, SOUNDING)])] + roundtrip((2, 1), 0) + dest_sizes("bank", 64, 1, (2,)))
    hs.append([INIT, bank_cmd(2, 3, 2, 7, 1, 0, [(1, 2, n32, 9, 9)], SOUNDING, [(1, 2, 5, EXTREME)])] + roundtrip((1, 2), 0) + dest_sizes("bank", 2, 3, (1, 2)))
    # in-memory values outside the documented domain: unterminated instrument name, reserved fields
    hs.append([INIT, bank_cmd(1, 1, 2, 255, 255, 3, [], BLANK0, [(0, 0, 0, ins([121] * 32, 0, -5, 0, 1, 0, 0, [], 3, 4)), (1, 0, 9, ins([1], 0, 127, 0, 0xFF, 0, 0, [], 0, 0))])]
              + roundtrip((1, 2), 1))
    # instrument files
    for I in (EXTREME, ins(n31, -32768, 0, 255, 2, 255, 255, [255] * 28, 0, 0), ins([121] * 32, 1, 9, 1, 3, 1, 1, [1], 65535, 65535), ZERO):
        hs.append([INIT, inst_cmd(I, 2, 1)] + roundtrip((1, 2), 1, 238) + roundtrip((1, 2), 1, 0) + dest_sizes("inst", 0, 0, (1, 2)))
    return hs


def byte_string_histories(rng=None):
    """accepted byte strings (unterminated names, zero counts, ...): load, adopt, save, load"""
    hs = []
    base = bank_cmd(2, 1, 2, 5, 1, 0, [(0, 1, [88] * 20, 3, 4)], SOUNDING, [(0, 0, 0, EXTREME), (0, 1, 7, BLANK0), (1, 0, 127, ins([70], -3, 0, 60, 0, 9, 9, [9] * 28, 300, 20))])
    small = bank_cmd(1, 1, 2, 5, 1, 0, [(0, 0, [88] * 20, 3, 4)], SOUNDING, [(0, 0, 0, EXTREME), (1, 0, 127, BLANK0)])
    for (c, nm, np, by) in ((base, 2, 1, 0), (small, 1, 1, 1)):
        for ver in (1, 2):
            for name, patch in byte_string_cases(nm, np, ver, rng):
                if ver == 1 and name in ("zero-mel", "zero-perc", "zero-both"):
                    continue
                hs.append([INIT, c, {"o": "save", "ver": ver, "rel": 0}, {"o": "patch", "set": patch, "bytes": by}] + identity_tail())
            for name, patch in rejected_cases(ver):
                hs.append([INIT, c, {"o": "save", "ver": ver, "rel": 0}, {"o": "patch", "set": patch}] + identity_tail())
            # trailing bytes, truncations of the image at every block boundary
            hs.append([INIT, c, {"o": "save", "ver": ver, "rel": 0}, {"o": "patch", "ext": 7, "extv": 255, "set": []}] + identity_tail())
            hs.append([INIT, c, {"o": "save", "ver": ver, "rel": 0}] + [{"o": "load", "len": n} for n in boundary_lens(bank_blocks(nm, np, ver)) + list(range(2, 25))])
    # raw strings: header-only files with zero counts, tiny files
    for ver in (1, 2):
        magic = [87, 79, 80, 78, 50, 45, 66, 50 if ver > 1 else 65, 78, 75, 0] + ([2, 0] if ver > 1 else [])
        hs.append([INIT, {"o": "raw", "kind": "bank", "bytes": magic + [0, 0, 0, 0, 11]}] + (identity_tail() if ver == 2 else [{"o": "load"}]))
        hs.append([INIT, {"o": "raw", "kind": "bank", "bytes": magic + [0, 0, 0, 0]}, {"o": "load"}])
        hs.append([INIT, {"o": "raw", "kind": "bank", "bytes": magic + [255, 255, 255, 255, 0] + [0] * 64}, {"o": "load"}])
        hs.append([INIT, {"o": "raw", "kind": "bank", "bytes": magic[:rng.randrange(0, len(magic)) if rng else 5]}, {"o": "load"}])
    hs.append([INIT, {"o": "raw", "kind": "bank", "bytes": []}, {"o": "load"}])
    hs.append([INIT, {"o": "raw", "kind": "inst", "bytes": []}, {"o": "load"}])
    for ver in (1, 2):
        magic = [87, 79, 80, 78, 50, 45, 73, 78, 50 if ver > 1 else 83, 84, 0] + ([2, 0] if ver > 1 else [])
        hs.append([INIT, {"o": "raw", "kind": "inst", "bytes": magic + [1] + [255] * 65}] + identity_tail(0))
        hs.append([INIT, {"o": "raw", "kind": "inst", "bytes": magic + [0] + [65] * 32 + [0] * 33 + [7, 7]}] + identity_tail(238))
        hs.append([INIT, {"o": "raw", "kind": "inst", "bytes": magic + [0] + [0] * 64}, {"o": "load"}])
    return hs


def limit_histories():
    """The value classes / byte strings for which the literal property is known not to hold (each in
    its own history so that a known-findings matcher never hides anything else)."""
    hs = []
    # version 2 encodes 'blank' as 'both delays zero'
    hs.append([INIT, bank_cmd(1, 1, 2, 0, 0, 0, [], BLANK0, [(0, 0, 3, ins([66], 0, 0, 0, 2, 0, 0, [], 120, 0))])] + roundtrip((2,), 1))
    hs.append([INIT, bank_cmd(1, 1, 2, 0, 0, 0, [], BLANK0, [(1, 0, 127, ins([], 0, 0, 0, 2, 0, 0, [], 0, 65535))])] + roundtrip((2,), 0))
    hs.append([INIT, bank_cmd(1, 1, 2, 0, 0, 0, [], BLANK0, [(0, 0, 3, ins([67], 0, 0, 0, 0, 7, 0, [1, 2], 0, 0))])] + roundtrip((2,), 1))
    hs.append([INIT, bank_cmd(2, 2, 2, 0, 0, 0, [], ZERO, [])] + roundtrip((2,), 0))          # the value WOPN_Init(2, 2) returns
    # version 1 file with a zero bank count: the substituted blank bank loses its blank flags
    v1 = bank_cmd(1, 1, 1, 3, 0, 0, [], SOUNDING, [])
    for patch in ([[11, 0], [12, 0]], [[13, 0], [14, 0]], [[11, 0], [12, 0], [13, 0], [14, 0]]):
        hs.append([INIT, v1, {"o": "save", "ver": 1, "rel": 0}, {"o": "patch", "set": patch, "bytes": 1}] + identity_tail())
    hs.append([INIT, {"o": "raw", "kind": "bank", "bytes": [87, 79, 80, 78, 50, 45, 66, 65, 78, 75, 0, 0, 0, 0, 0, 9]}] + identity_tail())
    # version field 0 under the version-2 magic is accepted and parsed with the version-1 layout
    v2 = bank_cmd(1, 1, 2, 3, 1, 0, [(0, 0, [90], 1, 1)], SOUNDING, [])
    hs.append([INIT, v2, {"o": "save", "ver": 2, "rel": 0}, {"o": "patch", "set": [[11, 0], [12, 0]], "bytes": 1}] + identity_tail())
    hs.append([INIT, {"o": "raw", "kind": "bank", "bytes": [87, 79, 80, 78, 50, 45, 66, 50, 78, 75, 0, 0, 0, 0, 0, 0, 0, 9]}] + identity_tail())
    hs.append([INIT, inst_cmd(EXTREME, 2, 1), {"o": "save", "ver": 2, "rel": 0}, {"o": "patch", "set": [[11, 0], [12, 0]], "bytes": 1}] + identity_tail())
    return hs


# ------------------------------------------------------------------ TLC-generated behaviours (spec/WopnMC.tla Apply)
def apply_mc(idx):
    """Mirror of WopnMC!Apply on the command representation; instrument index NINS-1 -> 127."""
    v = {"nm": 1, "np": 1, "lfo": 0, "chip": 0, "banks": {(0, 0): [[], 0, 0], (1, 0): [[], 0, 0]}, "dflt": list(BLANK0), "ins": {}}

    def upd(key, f):
        cur = v["ins"].get(key, list(v["dflt"]))
        v["ins"][key] = f(list(cur))

    def setf(k, x):
        def f(I):
            I[k] = x
            return I
        upd((0, 0, 0), f)
    for op in idx:
        if op == 1 and v["nm"] == 1: v["nm"] = 2; v["banks"][(0, 1)] = [[], 0, 0]
        elif op == 2 and v["np"] == 1: v["np"] = 2; v["banks"][(1, 1)] = [[], 0, 0]
        elif op == 3: v["banks"][(0, 0)][0] = [78] * 32
        elif op == 4: v["banks"][(0, 0)][0] = [65, 0, 66]
        elif op == 5: v["banks"][(1, 0)][1] = 255; v["banks"][(1, 0)][2] = 255
        elif op == 6: v["lfo"] = 15
        elif op == 7: v["chip"] = 1
        elif op == 8: setf(0, [120] * 31)
        elif op == 9: setf(0, [121] * 32)
        elif op == 10: setf(0, [65, 0, 66])
        elif op == 11: setf(1, -32768)
        elif op == 12: setf(1, 32767)
        elif op == 13: setf(3, 255)
        elif op == 14: setf(5, 255)
        elif op == 15: setf(6, 255)
        elif op == 16: setf(7, [255] * 28)
        elif op == 17: setf(4, 2)
        elif op == 18: setf(4, 0)
        elif op == 19: setf(8, 65535)
        elif op == 20: setf(8, 0)
        elif op == 21: setf(9, 1)
        elif op == 22: setf(9, 0)
        elif op == 23: upd((1, v["np"] - 1, 127), lambda I: list(EXTREME))
        elif op == 24: upd((1, v["np"] - 1, 127), lambda I: list(BLANK0))
        elif op == 25: v["dflt"] = list(SOUNDING)
        elif op == 26: v["dflt"] = list(BLANK0)
    # the percussion corner follows the last percussion bank at the time of the mutation, as in the model
    return bank_cmd(v["nm"], v["np"], 2, v["lfo"], v["chip"], 0,
                    [(s, b, n, l, m) for ((s, b), (n, l, m)) in sorted(v["banks"].items())], v["dflt"],
                    [(s, b, i, I) for ((s, b, i), I) in sorted(v["ins"].items())])


def survivable(c):
    def ok(I):
        blank = (I[4] & 2) != 0
        return (blank and I[8] == 0 and I[9] == 0) or (not blank and (I[8] != 0 or I[9] != 0))
    n = (c["nm"] + c["np"]) * 128
    return all(ok(x[3]) for x in c["ins"]) and (len(c["ins"]) >= n or ok(c["dflt"]))


def behaviour_history(idx):
    c = apply_mc(idx)
    h = [INIT, c] + roundtrip((1, 2), 1 if c["nm"] == 1 and c["np"] == 1 else 0)
    if survivable(c):
        h += dest_sizes("bank", c["nm"], c["np"], (1, 2))
    return h


# ------------------------------------------------------------------ loader half of C02
def c02_histories(rng):
    hs = []
    ext = ins([255] * 32, 32767, 0, 255, 0, 255, 255, [255] * 28, 65535, 65535)
    vals = [bank_cmd(1, 1, 2, 15, 1, 0, [(0, 0, [255] * 32, 255, 255)], ext, []),
            bank_cmd(2, 1, 2, 0, 0, 0, [(0, 1, [1], 127, 127), (1, 0, [1], 127, 127)], SOUNDING, [(0, 1, 127, ext), (1, 0, 0, ins([], -32768, 0, 0, 0, 0, 0, [], 1, 0))]),
            bank_cmd(1, 2, 2, 8, 0, 0, [(1, 0, [1], 0, 0), (1, 1, [2], 0, 0)], BLANK0, [])]     # two banks with the same MSB/LSB
    for c in vals:
        nm, np = c["nm"], c["np"]
        for ver in (1, 2):
            blocks = bank_blocks(nm, np, ver)
            lens = boundary_lens(blocks) + list(range(2, 22))
            hs.append([INIT, c, {"o": "save", "ver": ver, "rel": 0}] + [{"o": "load", "len": n, "api": 1} for n in lens])
            h = hdr_off(ver)
            for patch in ([[h, 0], [h + 1, 0]], [[h + 2, 0], [h + 3, 0]], [[h, 0], [h + 1, 0], [h + 2, 0], [h + 3, 0]],
                          [[h, 255], [h + 1, 255]], [[h + 2, 255], [h + 3, 255]], [[h, 0], [h + 1, nm + 1]], [[h + 2, 0], [h + 3, np + 1]],
                          [[h + 4, 255]], [[7, 66]], [[11, 3]] if ver > 1 else [[10, 7]], [[11, 0], [12, 0]] if ver > 1 else [[0, 0]]):
                hs.append([INIT, c, {"o": "save", "ver": ver, "rel": 0}, {"o": "patch", "set": patch}, {"o": "load", "api": 1}]
                          + [{"o": "load", "len": n, "api": 1} for n in (h + 4, h + 5, h + 6, sum(blocks) - 1)])
            for _ in range(6):
                enc = sum(blocks)
                patch = [[rng.randrange(0, enc) if rng.random() < 0.5 else rng.randrange(0, 120), rng.randrange(256)] for _ in range(rng.choice([1, 2, 8, 64]))]
                hs.append([INIT, c, {"o": "save", "ver": ver, "rel": 0}, {"o": "patch", "set": patch, "trunc": rng.choice([enc, enc, rng.randrange(enc + 1)])}, {"o": "load", "api": 1}])
    for _ in range(30):
        n = rng.choice([0, 1, 10, 11, 12, 13, 17, 18, 19, 40, 200])
        head = rng.choice([[87, 79, 80, 78, 50, 45, 66, 50, 78, 75, 0, 2, 0], [87, 79, 80, 78, 50, 45, 66, 65, 78, 75, 0], []])
        hs.append([INIT, {"o": "raw", "kind": "bank", "bytes": (head + [rng.choice([0, 0, 1, 255, rng.randrange(256)]) for _ in range(n)])[:max(n, len(head) if rng.random() < 0.7 else n)]}, {"o": "load", "api": 1}])
    # instrument files: every truncation, random corruptions
    hs.append(exhaustive_inst_sizes())
    for _ in range(20):
        ver = rng.choice([1, 2])
        patch = [[rng.randrange(0, 79), rng.randrange(256)] for _ in range(rng.choice([1, 3, 20]))]
        hs.append([INIT, inst_cmd(ext, 2, 1), {"o": "save", "ver": ver, "rel": 0}, {"o": "patch", "set": patch, "bytes": 1}, {"o": "load", "fill": 238}])
    return hs
