"""C15: WOPN/OPNI serialisation round-trips and never writes past its buffer
(+ the loader half of C02 exercised as a side run; only C15 is registered).

leg A  spec/WopnMC.tla     exhaustive small-scope model checking of spec/Wopn.tla
leg B  spec/WopnTrace.tla  property monitors evaluated by TLC on executions of the real
                           WOPN_* functions recorded by harness/drive_wopn.cpp
leg C  spec/WopnTrace.tla  refinement: result codes, bytes written, calculated sizes, and for small
                           images the exact bytes / exact decoded value predicted by the model"""
import json, os, random, re, time
import checks, vcommon as vc, vtrace, gen_wopn

MARK = '{"o":"init"'
HARNESS, TRACE = "drive_wopn", "WopnTrace"

MC_CFG = """SPECIFICATION Spec
CONSTANTS
  NINS = %(nins)d
  MaxDepth = %(depth)d
  EmitDepth = %(emit)d
%(extra)s
CHECK_DEADLOCK FALSE
"""

ASSUME = [
    "harness/drive_wopn.cpp builds the in-memory value from the command faithfully (re-checked by TLC: the recorded projection of the built value must equal the command, label 'build') and its sparse projection of WOPNFile/OPNIFile is lossless",
    "bytes written are observed as the union of the bytes changed under two different fill patterns (plus a heap block of exactly the destination size under AddressSanitizer)",
    "TLC 1.8 evaluates Wopn/WopnTrace correctly; JSON traces round-trip integers < 2^31",
    "expectations for in-memory values outside the documented field ranges (reserved velocity offset / pseudo-8-op flag / volume model, LFO > 15, chip type > 1) follow the format document: not carried",
]


def jobs():
    try:
        return max(1, int(os.environ.get("VERIF_JOBS", str(vc.NCPU))))
    except ValueError:
        return vc.NCPU


def sample(hs, n=2, maxlen=8):
    out = []
    for h in hs[:n]:
        hh = []
        for c in h[:maxlen]:
            c = dict(c)
            for k in ("ins", "banks", "bytes", "set"):
                if isinstance(c.get(k), list) and len(c[k]) > 3:
                    c[k] = c[k][:3] + ["... %d more" % (len(c[k]) - 3)]
            hh.append(c)
        out.append(hh)
    return out


def model_phase(q):
    runs = []
    for (nins, depth) in ([(2, 4)] if q else [(2, 5), (1, 6)]):
        cfg = checks.write_cfg("WopnMC_%d_%d.cfg" % (nins, depth),
                               MC_CFG % {"nins": nins, "depth": depth, "emit": 0, "extra": "INVARIANT NoBad\nCONSTRAINT DepthBound\nVIEW View"})
        r = vc.run_tlc("WopnMC", cfg=cfg, timeout=2400, heap="8g", workers=jobs())
        r.scope = {"NINS": nins, "mutations": depth - 1, "versions": [1, 2], "dest_sizes": "0..calculated", "byte_patches": 9}
        runs.append(r)
    return runs


def model_behaviours(q):
    cfg = checks.write_cfg("WopnMC_sim.cfg", MC_CFG % {"nins": 2, "depth": 1000, "emit": 7, "extra": "CONSTRAINT Emit"})
    r = vc.run_tlc("WopnMC", cfg=cfg, timeout=600, heap="4g", simulate=(40 if q else 400), depth=8, workers=4)
    return [json.loads(b) for b in re.findall(r'"BEHAVIOUR",\s*"(\[[0-9,\s]*\])"', r.out)]


@checks.register("C15")
def check_c15(pid, tier, replay):
    t0 = time.time()
    q = tier == "quick"
    rng = random.Random(vc.seed() * 7919 + 15)

    def rerun(hist):
        f, _, _ = vtrace.run_histories(pid + "r", HARNESS, TRACE, [hist], nchunks=1, marker=MARK)
        return f

    if replay:
        hist = [json.loads(l) for l in open(replay) if l.strip()]
        firsts = vtrace.first_failures(rerun(hist), pid)
        if firsts:
            f = list(firsts.values())[0]
            print("VIOLATION property=%s replay=%s" % (pid, replay))
            print("  what=%s at step %d (%s) %s" % (f.what, f.step, f.event, f.detail[:300]))
            return 1
        print("OK replay holds")
        return 0

    # histories
    beh = [gen_wopn.behaviour_history(b) for b in model_behaviours(q)]
    parts = [
        ("model_generated_behaviours", beh),
        ("boundary_values", gen_wopn.boundary_histories()),
        ("byte_strings", gen_wopn.byte_string_histories(rng)),
        ("limit_classes", gen_wopn.limit_histories()),
        ("exhaustive_inst_field_extremes", list(gen_wopn.exhaustive_inst(8 if q else 1, vc.seed()))),
        ("exhaustive_dest_sizes", [gen_wopn.exhaustive_inst_sizes()]
            + ([gen_wopn.exhaustive_bank_sizes(1, 1, 89)] if q else [gen_wopn.exhaustive_bank_sizes(1, 1, 1, v) for v in (1, 2)] + [gen_wopn.exhaustive_bank_sizes(2, 2, 53)])),
        ("random_banks", [gen_wopn.random_bank_history(rng, q) for _ in range(220 if q else 3000)]),
        ("random_insts", [gen_wopn.random_inst_history(rng) for _ in range(300 if q else 4000)]),
    ]
    histories = [h for (_, hs) in parts for h in hs]
    samples = sample(parts[6][1], 2) + sample(parts[2][1][3:], 1) + sample(parts[7][1], 1) + sample(beh, 1)
    random.Random(vc.seed()).shuffle(histories)        # balance the chunks (big banks are expensive)
    failures, counters, stats = vtrace.run_histories(pid, HARNESS, TRACE, histories, nchunks=jobs(), marker=MARK)
    if stats["infra"]:
        print("INFRA:", stats["infra"][0][:2000])
        return 3

    # loader half of C02 (side run: reported, never part of the C15 verdict)
    c02h = gen_wopn.c02_histories(rng)
    f2, c2, s2 = vtrace.run_histories("C02w", HARNESS, TRACE, c02h, nchunks=min(jobs(), 8), marker=MARK)
    c02_bad = [f for f in f2 if f.prop in ("C02", "CRASH")]
    c02 = {"histories": len(c02h), "records": s2["records"], "loads": c2.get("c02_loads", 0), "api_loads": c2.get("c02_api", 0),
           "rejected": c2.get("loads_rejected", 0), "accepted": c2.get("loads_ok", 0),
           "result_code_mismatches_vs_model": [d for d in s2.get("drift", []) if "loadcode" in d.get("d", "")][:3],
           "failures": [repr(f) for f in c02_bad[:5]], "infra": s2["infra"][:1]}
    print("NOTE C02 (loader half, not a verdict): %d loads (%d through opn2_openBankData), %d rejected, %d failures%s"
          % (c02["loads"], c02["api_loads"], c02["rejected"], len(c02_bad), (": " + c02["failures"][0][:300]) if c02_bad else ""))
    other = [f for f in failures if f.prop not in (pid, "CRASH")]
    if other:
        print("NOTE C02 monitor failures inside the C15 histories: %s" % repr(other[0])[:300])

    mruns = model_phase(q)
    coverage = {
        "states": sum(r.distinct for r in mruns), "transitions": sum(r.generated for r in mruns),
        "traces_validated_against_impl": len(histories), "records_validated": stats["records"],
        "history_classes": {k: len(v) for (k, v) in parts},
        "model_generated_behaviours_replayed": len(beh),
        "refinement": {"steps_checked_against_model": counters.get("refined", 0), "steps_drifted": counters.get("drifted", 0),
                       "byte_exact_encodings": counters.get("enc_bytes", 0), "byte_exact_decodings": counters.get("dec_bytes", 0),
                       "first_drifts": stats.get("drift", [])[:5]},
        "monitor_counters": counters,
        "c02_loader_half": c02,
        "samples": samples,
        "model_runs": [{"scope": r.scope, "ok": r.ok, "violation": r.violation, "distinct": r.distinct, "generated": r.generated,
                        "wall_s": round(r.wall, 1)} for r in mruns],
        "exhaustive": False,
    }
    for r in mruns:
        if r.violation or not r.ok:
            print("MODEL-DRIFT: WopnMC %s reports %s (model-level result; not a verdict on the code)" % (r.scope, r.violation or ("rc=%s" % r.rc)))
    if counters.get("drifted", 0):
        print("MODEL-DRIFT: %d of %d recorded steps differ from spec/Wopn.tla (result code / bytes written / size / bytes): %s"
              % (counters["drifted"], counters.get("refined", 0), json.dumps(stats["drift"][:2])))
    return checks.conclude(pid, tier, "model_checking", histories, failures, rerun, coverage, t0, ASSUME)
