"""Operation sequences for the bank API (C16)."""
import itertools, random

UNIVERSE = [0, 32768, 512, 1, 256, 33280]   # same as spec/BankMapMC.tla Keys

# instrument indices (unsigned in the API; negative = 2^32 - n): the valid corners, the first indices past the 128 entries of a
# bank, byte / word / sign boundaries, UINT_MAX.  spec/BankMap.tla InsIdxOk: only 0..127 exist
IDX_OK = [0, 1, 2, 63, 126, 127]
IDX_BAD = [128, 129, 255, 256, 1000, 65536, 2147483647, -2147483647, -1]

def mc_ops():
    ops = [{"o": "get", "key": k, "mode": "create"} for k in UNIVERSE]
    ops += [{"o": "get", "key": k, "mode": "creatert"} for k in UNIVERSE]
    ops += [{"o": "remove", "key": k} for k in UNIVERSE]
    ops += [{"o": "setins", "key": UNIVERSE[i], "idx": 0, "tok": i + 1} for i in range(3)]
    ops += [{"o": "reserve", "n": 5}, {"o": "reserve", "n": 9}, {"o": "clear"}, {"o": "get", "key": 0, "mode": "find"}]
    ops += [{"o": "setins", "key": UNIVERSE[0], "idx": 128, "tok": 9}]
    return ops

def key(p, msb, lsb):
    return msb * 256 + lsb + (32768 if p else 0)

def random_history(rng, length=40):
    # a pool of keys biased to collide in hash (same lsb, msb of equal parity, melodic/percussive twins)
    base_lsb = rng.randrange(128)
    pool = set()
    while len(pool) < rng.choice([4, 8, 16, 40]):
        r = rng.random()
        if r < 0.6:
            pool.add(key(rng.randrange(2), rng.choice([0, 2, 4, 6, 126]) + rng.choice([0, 0, 1]), base_lsb))
        elif r < 0.8:
            pool.add(key(rng.randrange(2), rng.randrange(128), rng.randrange(128)))
        else:
            pool.add(key(rng.randrange(2), rng.choice([0, 1, 127]), rng.choice([0, 1, 127])))
    pool = sorted(pool)
    h = [{"o": "init", "probe": pool[:24]}]
    if rng.random() < 0.5:
        h.append({"o": "reserve", "n": rng.choice([0, 1, 4, 5, 8, 9, 17])})
    present = set()
    for _ in range(length):
        r = rng.random()
        k = rng.choice(pool)
        if r < 0.25: h.append({"o": "get", "key": k, "mode": "create"}); present.add(k)
        elif r < 0.45: h.append({"o": "get", "key": k, "mode": "creatert"})
        elif r < 0.55: h.append({"o": "get", "key": k, "mode": "find"})
        elif r < 0.75:
            h.append({"o": "remove", "key": k})
        elif r < 0.90:
            # mostly valid indices; a quarter of the writes / reads address an instrument beyond the end of the bank
            idx = rng.choice([0, 1, 127]) if rng.random() < 0.75 else rng.choice(IDX_BAD)
            h.append({"o": "setins" if rng.random() < 0.85 else "getins", "key": k, "idx": idx, "tok": rng.randrange(1, 1000)})
        elif r < 0.95: h.append({"o": "reserve", "n": rng.choice([0, 3, 6, 12, 30, 64])})
        else:
            ks = rng.sample(pool, min(len(pool), rng.choice([2, 3, 6])))
            if not any(x & 32768 for x in ks): ks.append(key(1, 0, 0))
            if all(x & 32768 for x in ks): ks.append(key(0, 0, 0))
            ks = sorted(set(ks), key=lambda x: (x >= 32768, x))
            h.append({"o": "load", "keys": [{"key": x, "tok": rng.choice([0, rng.randrange(1, 512)])} for x in ks], "bad": 1 if rng.random() < 0.2 else 0})
    return h

def exhaustive(depth, initcap=0):
    ops = [o for o in mc_ops() if o["o"] != "clear"]
    init = [{"o": "init", "probe": UNIVERSE}] + ([{"o": "reserve", "n": initcap}] if initcap else [])
    for seq in itertools.product(ops, repeat=depth):
        yield init + list(seq)


def edge_index_history(rng, length=40):
    """Instrument API at and beyond the end of a bank (C02 / C16): a handful of banks created one after the other (so that they
    lie in neighbouring slots of one allocation block of the map), filled through opn2_setInstrument at the valid corner indices,
    then writes and reads at the indices around and beyond the end of EVERY bank - also the bank created last and, after a
    removal, banks whose neighbour slot is free - mixed with valid writes.  Every step is followed by the look-up, iteration and
    read-back of all banks (probe = all keys, read-back indices = IDX_OK), so both the return value (-1, model: InsIdxOk) and a
    change of any bank are visible to the BankTrace monitors."""
    nb = rng.choice([2, 2, 3, 4, 5, 8])
    keys = []
    while len(keys) < nb:
        r = rng.random()
        k = key(rng.randrange(2), rng.choice([0, 1, 2, 127]), rng.choice([0, 1, 127])) if r < 0.7 else key(rng.randrange(2), rng.randrange(128), rng.randrange(128))
        if k not in keys:
            keys.append(k)
    h = [{"o": "init", "probe": sorted(keys), "rbi": IDX_OK}]
    if rng.random() < 0.4:
        h.append({"o": "reserve", "n": rng.choice([nb, nb + 1, 4, 9])})
    for k in keys:
        h.append({"o": "get", "key": k, "mode": rng.choice(["create", "create", "creatert"])})
    present = list(keys)
    for k in keys:
        for idx in rng.sample(IDX_OK, rng.choice([1, 2, 3])):
            h.append({"o": "setins", "key": k, "idx": idx, "tok": rng.randrange(1, 1000)})
    bad = list(IDX_BAD) + [128, 128, 129]
    while len(h) < length:
        r = rng.random()
        k = rng.choice(keys)
        if r < 0.55:
            h.append({"o": "setins", "key": k, "idx": rng.choice(bad), "tok": rng.randrange(1, 1000)})
        elif r < 0.65:
            h.append({"o": "getins", "key": k, "idx": rng.choice(bad + [127, 0])})
        elif r < 0.85:
            h.append({"o": "setins", "key": k, "idx": rng.choice(IDX_OK), "tok": rng.randrange(1, 1000)})
        elif r < 0.92:
            h.append({"o": "remove", "key": k})
        else:
            h.append({"o": "get", "key": k, "mode": "create"})
    # every bank once more at the first index past its end, first to last and last to first
    for k in keys + keys[::-1]:
        h.append({"o": "setins", "key": k, "idx": 128, "tok": rng.randrange(1, 1000)})
    return h
