"""Operation sequences for the bank API (C16)."""
import itertools, random

UNIVERSE = [0, 32768, 512, 1, 256, 33280]   # same as spec/BankMapMC.tla Keys

def mc_ops():
    ops = [{"o": "get", "key": k, "mode": "create"} for k in UNIVERSE]
    ops += [{"o": "get", "key": k, "mode": "creatert"} for k in UNIVERSE]
    ops += [{"o": "remove", "key": k} for k in UNIVERSE]
    ops += [{"o": "setins", "key": UNIVERSE[i], "idx": 0, "tok": i + 1} for i in range(3)]
    ops += [{"o": "reserve", "n": 5}, {"o": "reserve", "n": 9}, {"o": "clear"}, {"o": "get", "key": 0, "mode": "find"}]
    return ops

def key(p, msb, lsb):
    return msb * 256 + lsb + (32768 if p else 0)

def random_history(rng, length=40):
    # a pool of keys biased to collide in hash (same lsb, msb of equal parity, melodic/percussive twins)
    base_lsb = rng.randrange(128)
    pool = set()
    while len(pool) < rng.choice([4, 8, 16, 40]):
        r = rng.random()
        if r < 0.6:
            pool.add(key(rng.randrange(2), rng.choice([0, 2, 4, 6, 126]) + rng.choice([0, 0, 1]), base_lsb))
        elif r < 0.8:
            pool.add(key(rng.randrange(2), rng.randrange(128), rng.randrange(128)))
        else:
            pool.add(key(rng.randrange(2), rng.choice([0, 1, 127]), rng.choice([0, 1, 127])))
    pool = sorted(pool)
    h = [{"o": "init", "probe": pool[:24]}]
    if rng.random() < 0.5:
        h.append({"o": "reserve", "n": rng.choice([0, 1, 4, 5, 8, 9, 17])})
    present = set()
    for _ in range(length):
        r = rng.random()
        k = rng.choice(pool)
        if r < 0.25: h.append({"o": "get", "key": k, "mode": "create"}); present.add(k)
        elif r < 0.45: h.append({"o": "get", "key": k, "mode": "creatert"})
        elif r < 0.55: h.append({"o": "get", "key": k, "mode": "find"})
        elif r < 0.75:
            h.append({"o": "remove", "key": k})
        elif r < 0.90: h.append({"o": "setins", "key": k, "idx": rng.choice([0, 1, 127]), "tok": rng.randrange(1, 1000)})
        elif r < 0.95: h.append({"o": "reserve", "n": rng.choice([0, 3, 6, 12, 30, 64])})
        else:
            ks = rng.sample(pool, min(len(pool), rng.choice([2, 3, 6])))
            if not any(x & 32768 for x in ks): ks.append(key(1, 0, 0))
            if all(x & 32768 for x in ks): ks.append(key(0, 0, 0))
            ks = sorted(set(ks), key=lambda x: (x >= 32768, x))
            h.append({"o": "load", "keys": [{"key": x, "tok": rng.choice([0, rng.randrange(1, 512)])} for x in ks], "bad": 1 if rng.random() < 0.2 else 0})
    return h

def exhaustive(depth, initcap=0):
    ops = [o for o in mc_ops() if o["o"] != "clear"]
    init = [{"o": "init", "probe": UNIVERSE}] + ([{"o": "reserve", "n": initcap}] if initcap else [])
    for seq in itertools.product(ops, repeat=depth):
        yield init + list(seq)
