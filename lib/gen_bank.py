"""Operation sequences for the bank API (C16)."""
import itertools, random

UNIVERSE = [0, 32768, 512, 1, 256, 33280]   # same as spec/BankMapMC.tla Keys

# instrument indices (unsigned in the API; negative = 2^32 - n): the valid corners, the first indices past the 128 entries of a
# bank, byte / word / sign boundaries, UINT_MAX.  spec/BankMap.tla InsIdxOk: only 0..127 exist
IDX_OK = [0, 1, 2, 63, 126, 127]
IDX_BAD = [128, 129, 255, 256, 1000, 65536, 2147483647, -2147483647, -1]

# ---------------------------------------------------------------------------------------------------------------------
# Instrument values.  An instrument is the tuple of the 36 fields of OPN2_Instrument in the order of spec/BankMap.tla InsFields:
# note_offset (int16), midi_velocity_offset (int8), percussion_key_number, inst_flags, fbalg, lfosens, 4 x 7 operator bytes,
# delay_on_ms, delay_off_ms (uint16).  The flag byte is a dimension of its own: blank (2), pseudo-8op (1), both, reserved bits -
# combined with every kind of voice data (none, ordinary, extreme) and written over every kind of earlier slot content.
INS_LEN = 36
FLAGS = [0, 0, 0, 2, 2, 2, 1, 3, 3, 4, 0x80, 0xFD, 0xFF]
BLANK_INS = [0, 0, 0, 2, 0, 0] + [0] * 28 + [0, 0]

def mk_ins(fl, d):
    """spec/BankMapMC.tla MkIns"""
    if d == 0:
        return [0, 0, 0, fl, 0, 0] + [0] * 28 + [0, 0]
    return [d * 5 - 12, d - 2, 35 + d, fl, (d * 9) % 64, (d * 5) % 48] + [(d * 11 + i * 7) % 128 for i in range(1, 29)] + [100 + d, 50 + d]

def tok_ins(tok, fl=0):
    """the ordinary instrument of a token (the shape harness/drive_bank.cpp insOfTok writes), with any flag byte"""
    ops = []
    for k in range(4):
        ops += [(tok + k) % 16, (tok * (k + 3)) % 128, 0x1F, 0, (tok & 0x1F) if k == 1 else ((tok >> 5) & 0x1F) if k == 2 else 0, 0x0F, 0]
    return [(tok % 25) - 12, (tok % 7) - 3 if tok >= 512 else 0, tok % 128, fl, tok % 64, tok % 48] + ops + [100 + tok, 50 + tok]

def rand_ins(rng, fl=None):
    """flag byte x voice data: no data / ordinary / random bytes / field extremes"""
    if fl is None:
        fl = rng.choice(FLAGS)
    r = rng.random()
    if r < 0.12:
        v = mk_ins(fl, 0)
        if rng.random() < 0.5: v[2] = rng.randrange(256)
        return v
    if r < 0.55:
        return tok_ins(rng.randrange(1, 1000), fl)
    if r < 0.8:
        return [rng.randrange(-32768, 32768), rng.randrange(-128, 128), rng.randrange(256), fl, rng.randrange(256), rng.randrange(256)] + \
               [rng.randrange(256) for _ in range(28)] + [rng.randrange(65536), rng.randrange(65536)]
    b = lambda: rng.choice([0, 1, 0x7F, 0x80, 0xFF])
    return [rng.choice([-32768, -1, 0, 1, 32767]), rng.choice([-128, -1, 0, 127]), b(), fl, b(), b()] + [b() for _ in range(28)] + \
           [rng.choice([0, 1, 0x7FFF, 0x8000, 0xFFFF]), rng.choice([0, 1, 0x7FFF, 0x8000, 0xFFFF])]

def mc_ops():
    ops = [{"o": "get", "key": k, "mode": "create"} for k in UNIVERSE]
    ops += [{"o": "get", "key": k, "mode": "creatert"} for k in UNIVERSE]
    ops += [{"o": "remove", "key": k} for k in UNIVERSE]
    ops += [{"o": "setins", "key": UNIVERSE[0], "idx": 0, "ins": mk_ins(0, 1)}, {"o": "setins", "key": UNIVERSE[0], "idx": 0, "ins": mk_ins(2, 2)},
            {"o": "setins", "key": UNIVERSE[1], "idx": 0, "ins": mk_ins(3, 3)}]
    ops += [{"o": "reserve", "n": 5}, {"o": "reserve", "n": 9}, {"o": "clear"}, {"o": "get", "key": 0, "mode": "find"}]
    ops += [{"o": "setins", "key": UNIVERSE[0], "idx": 128, "ins": mk_ins(0, 9)}]
    ops += [{"o": "setins", "key": UNIVERSE[2], "idx": 0, "ins": mk_ins(255, 0)}]
    return ops

def key(p, msb, lsb):
    return msb * 256 + lsb + (32768 if p else 0)

def random_history(rng, length=40):
    # a pool of keys biased to collide in hash (same lsb, msb of equal parity, melodic/percussive twins)
    base_lsb = rng.randrange(128)
    pool = set()
    while len(pool) < rng.choice([4, 8, 16, 40]):
        r = rng.random()
        if r < 0.6:
            pool.add(key(rng.randrange(2), rng.choice([0, 2, 4, 6, 126]) + rng.choice([0, 0, 1]), base_lsb))
        elif r < 0.8:
            pool.add(key(rng.randrange(2), rng.randrange(128), rng.randrange(128)))
        else:
            pool.add(key(rng.randrange(2), rng.choice([0, 1, 127]), rng.choice([0, 1, 127])))
    pool = sorted(pool)
    h = [{"o": "init", "probe": pool[:24]}]
    if rng.random() < 0.5:
        h.append({"o": "reserve", "n": rng.choice([0, 1, 4, 5, 8, 9, 17])})
    present = set()
    for _ in range(length):
        r = rng.random()
        k = rng.choice(pool)
        if r < 0.25: h.append({"o": "get", "key": k, "mode": "create"}); present.add(k)
        elif r < 0.45: h.append({"o": "get", "key": k, "mode": "creatert"})
        elif r < 0.55: h.append({"o": "get", "key": k, "mode": "find"})
        elif r < 0.75:
            h.append({"o": "remove", "key": k})
        elif r < 0.90:
            # mostly valid indices; a quarter of the writes / reads address an instrument beyond the end of the bank
            idx = rng.choice([0, 1, 127]) if rng.random() < 0.75 else rng.choice(IDX_BAD)
            h.append({"o": "setins", "key": k, "idx": idx, "ins": rand_ins(rng)} if rng.random() < 0.85 else {"o": "getins", "key": k, "idx": idx})
        elif r < 0.95: h.append({"o": "reserve", "n": rng.choice([0, 3, 6, 12, 30, 64])})
        else:
            ks = rng.sample(pool, min(len(pool), rng.choice([2, 3, 6])))
            if not any(x & 32768 for x in ks): ks.append(key(1, 0, 0))
            if all(x & 32768 for x in ks): ks.append(key(0, 0, 0))
            ks = sorted(set(ks), key=lambda x: (x >= 32768, x))
            # instrument 0 of every bank of the file: none (all blank) or any instrument - the model (WopnV2Ins) says what the
            # version-2 file format keeps of it
            h.append({"o": "load", "keys": [({"key": x} if rng.random() < 0.4 else {"key": x, "ins": rand_ins(rng)}) for x in ks], "bad": 1 if rng.random() < 0.2 else 0})
    return h

def exhaustive(depth, initcap=0):
    ops = [o for o in mc_ops() if o["o"] != "clear"]
    init = [{"o": "init", "probe": UNIVERSE}] + ([{"o": "reserve", "n": initcap}] if initcap else [])
    for seq in itertools.product(ops, repeat=depth):
        yield init + list(seq)


def edge_index_history(rng, length=40):
    """Instrument API at and beyond the end of a bank (C02 / C16): a handful of banks created one after the other (so that they
    lie in neighbouring slots of one allocation block of the map), filled through opn2_setInstrument at the valid corner indices,
    then writes and reads at the indices around and beyond the end of EVERY bank - also the bank created last and, after a
    removal, banks whose neighbour slot is free - mixed with valid writes.  Every step is followed by the look-up, iteration and
    read-back of all banks (probe = all keys, read-back indices = IDX_OK), so both the return value (-1, model: InsIdxOk) and a
    change of any bank are visible to the BankTrace monitors."""
    nb = rng.choice([2, 2, 3, 4, 5, 8])
    keys = []
    while len(keys) < nb:
        r = rng.random()
        k = key(rng.randrange(2), rng.choice([0, 1, 2, 127]), rng.choice([0, 1, 127])) if r < 0.7 else key(rng.randrange(2), rng.randrange(128), rng.randrange(128))
        if k not in keys:
            keys.append(k)
    h = [{"o": "init", "probe": sorted(keys), "rbi": IDX_OK}]
    if rng.random() < 0.4:
        h.append({"o": "reserve", "n": rng.choice([nb, nb + 1, 4, 9])})
    for k in keys:
        h.append({"o": "get", "key": k, "mode": rng.choice(["create", "create", "creatert"])})
    present = list(keys)
    for k in keys:
        for idx in rng.sample(IDX_OK, rng.choice([1, 2, 3])):
            h.append({"o": "setins", "key": k, "idx": idx, "ins": rand_ins(rng)})
    bad = list(IDX_BAD) + [128, 128, 129]
    while len(h) < length:
        r = rng.random()
        k = rng.choice(keys)
        if r < 0.55:
            h.append({"o": "setins", "key": k, "idx": rng.choice(bad), "ins": rand_ins(rng)})
        elif r < 0.65:
            h.append({"o": "getins", "key": k, "idx": rng.choice(bad + [127, 0])})
        elif r < 0.85:
            h.append({"o": "setins", "key": k, "idx": rng.choice(IDX_OK), "ins": rand_ins(rng)})
        elif r < 0.92:
            h.append({"o": "remove", "key": k})
        else:
            h.append({"o": "get", "key": k, "mode": "create"})
    # every bank once more at the first index past its end, first to last and last to first
    for k in keys + keys[::-1]:
        h.append({"o": "setins", "key": k, "idx": 128, "ins": rand_ins(rng)})
    return h


def flag_data_history(rng, length=30):
    """Read-back = last written, over the dimension flags x data x previous slot content (C16): a few banks (created, created
    in real time, or loaded from a bank file), and a few instrument indices that are written again and again - a sounding
    instrument, then a blank-flagged one that carries voice data, pseudo-8op, reserved flag bits, extreme field values, the
    all-zero instrument, the same value twice - so that every write lands on a slot whose content is untouched / sounding /
    blank-with-data / loaded from a file.  Removal and re-creation of a bank (the slot is recycled: the new bank must be
    blank whatever the old one held) and bank-file loads in between.  All banks x all used indices are read back after each call."""
    nb = rng.choice([1, 2, 3])
    keys = []
    while len(keys) < nb:
        k = key(rng.randrange(2), rng.choice([0, 1, 2, 127]), rng.choice([0, 1, 127]))
        if k not in keys:
            keys.append(k)
    idxs = [0] + rng.sample(IDX_OK[1:], 2)
    h = [{"o": "init", "probe": sorted(keys), "rbi": sorted(idxs)}]
    if rng.random() < 0.3:
        mel = [k for k in keys if not k & 32768] or [key(0, 0, 0)]
        per = [k for k in keys if k & 32768] or [key(1, 0, 0)]
        h.append({"o": "load", "keys": [{"key": x, "ins": rand_ins(rng)} for x in mel + per], "bad": 0})
    for k in keys:
        h.append({"o": "get", "key": k, "mode": rng.choice(["create", "create", "creatert"])})
    while len(h) < length:
        r = rng.random()
        k = rng.choice(keys)
        i = rng.choice(idxs)
        if r < 0.30:      # sounding instrument, then a flagged instrument with other data on the same slot
            h.append({"o": "setins", "key": k, "idx": i, "ins": rand_ins(rng, 0)})
            h.append({"o": "setins", "key": k, "idx": i, "ins": rand_ins(rng, rng.choice([2, 2, 3, 1, 0xFF, 0x82]))})
        elif r < 0.75:
            h.append({"o": "setins", "key": k, "idx": i, "ins": rand_ins(rng)})
        elif r < 0.80 and len(h) > 3:
            prev = [o for o in h if o["o"] == "setins"]
            if prev: h.append(dict(rng.choice(prev)))        # the same value once more (possibly on top of another one)
        elif r < 0.85:
            h.append({"o": "setins", "key": k, "idx": i, "ins": list(BLANK_INS)})
        elif r < 0.92:
            h.append({"o": "remove", "key": k})
            h.append({"o": "get", "key": k, "mode": rng.choice(["create", "creatert"])})
        elif r < 0.96:
            h.append({"o": "getins", "key": k, "idx": i})
        else:
            ks = sorted(set(keys + [key(0, 0, 0), key(1, 0, 0)]), key=lambda x: (x >= 32768, x))
            h.append({"o": "load", "keys": [({"key": x} if rng.random() < 0.3 else {"key": x, "ins": rand_ins(rng)}) for x in ks], "bad": 0})
    return h
