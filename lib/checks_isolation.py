"""C14: instances are deterministic and isolated, also across threads.

leg A  spec/IsolationMC.tla     N instances + the process-global cells of the code (spec/Isolation.tla):
                                as the code is  -> TLC finds the interference counterexamples (F12 ...),
                                repairs on      -> P1 and P2 hold on the whole reachable state space
leg B  spec/IsolationTrace.tla  monitors evaluated by TLC on executions of the real library recorded by
                                harness/drive_isolation.cpp: observation of every call = observation of the
                                same call in the solo run of the instance's own history (fresh process),
                                solo run repeated = solo run, no sanitizer race report (thorough: tsan build)
leg C  spec/IsolationTrace.tla  the model runs in lock step: it must name the foreign cell behind every observed
                                interference and predict the cells ThreadSanitizer reports"""
import json, os, random, re, time, concurrent.futures as cf
import checks, vcommon as vc, vtrace, gen_isolation as gi

HARNESS, TRACE = "drive_isolation", "IsolationTrace"
NCHUNKS = 8

MC_CFG = """SPECIFICATION Spec
CONSTANTS
  N = %(n)d
  MaxDepth = %(depth)d
  EmitDepth = %(emit)d
  PruneBad = %(prune)s
  PanOps = %(pan)s
  FixChipType = %(fct)s
  FixLfoTable = %(flt)s
  FixTables = %(ftab)s
%(extra)s
CHECK_DEADLOCK FALSE
"""

ASSUME = [
    "harness/drive_isolation.cpp: the observed run and the solo runs of an execution each start in a fresh forked child of a process that never called the library; hook H1 (per-instance tap) sees every register write / period",
    "PCM and tap streams are compared through 64-bit FNV-1a hashes (a collision would hide a difference)",
    "freshly allocated C++ memory is filled with 0x00 (observed run, solo run 1) / a fixed varying byte sequence (solo run 2) by the harness's operator new (glibc M_PERTURB for malloc outside AddressSanitizer): dependence on uninitialised heap memory shows as a determinism failure; uninitialised stack reads are not provoked",
    "observed run: the harness's operator new hands a block released by operator delete out again unchanged to the next request of the same size (LIFO per size, as a plain malloc does; AddressSanitizer alone never reuses a block): what a closed instance leaves in its objects is what an instance created later finds - dependence on it shows as an isolation failure; memory obtained with malloc directly is not recycled",
    "panning decisions (value handed to writePan, L/R bits of the 0xB4 write that follows it) are recorded in clear for the first 24 decisions of a call; the rest is covered by the hash only",
    "thorough tier: ThreadSanitizer (clang 14) is the race oracle; calls of one round run concurrently, a barrier separates rounds, so only same-round accesses can be reported",
    "TLC 1.8 evaluates Isolation/IsolationTrace correctly",
]


def bools(b):
    return "TRUE" if b else "FALSE"


def mc_cfg(name, n, depth, emit, prune, fix, extra, pan=False):
    return checks.write_cfg(name, MC_CFG % {"n": n, "depth": depth, "emit": emit, "prune": bools(prune), "fct": bools(fix[0]),
                                            "flt": bools(fix[1]), "ftab": bools(fix[2]), "extra": extra, "pan": bools(pan)})


def model_emit(q):
    """TLC-chosen executions: every first P1 violation of the as-is model within the scope (CEX) and simulated behaviours."""
    out = {"cex": [], "beh": [], "ops": {}, "runs": []}
    # counterexample enumeration: one worker (TLCGet("level") is exact only then)
    for (n, depth) in ([(2, 7)] if q else [(2, 8), (3, 6)]):
        cfg = mc_cfg("IsolationMC_cex_%d_%d.cfg" % (n, depth), n, depth, 0, True, (False, False, True),
                     "CONSTRAINT DepthBound\nACTION_CONSTRAINT CexEmit\nVIEW View")
        r = vc.run_tlc("IsolationMC", cfg=cfg, timeout=900, heap="8g", workers=1, tag="IsoCex%d" % n, extra=["-noGenerateSpecTE"])
        r.scope = {"what": "every first P1 violation (design before the repairs 39fd106 157e30a, table races masked)", "N": n, "calls": depth - 2}
        ops = gi.mc_ops(r.out)
        if ops:
            out["ops"][n] = ops
            for c in gi.tlc_lists(r.out, "CEX"):
                out["cex"].append((n, c["h"], c["b1"]))
        out["runs"].append(r)
    for (n, emit, num) in ([(2, 10, 40), (3, 12, 25)] if q else [(2, 12, 400), (3, 14, 250)]):
        cfg = mc_cfg("IsolationMC_sim_%d.cfg" % n, n, 1000, emit, False, (False, False, False), "CONSTRAINT Emit", pan=True)
        r = vc.run_tlc("IsolationMC", cfg=cfg, timeout=600, heap="4g", simulate=num, depth=emit + 1, workers=4, tag="IsoSim%d" % n,
                       extra=["-noGenerateSpecTE"])
        ops = gi.mc_ops(r.out)
        if ops:
            out["ops"][n] = ops
            for b in gi.tlc_lists(r.out, "BEHAVIOUR"):
                out["beh"].append((n, b))
    return out


def model_verify(q):
    """Leg A proper: the as-is model (expected: counterexample) and the repaired designs (expected: no violation)."""
    runs = []
    cfg = mc_cfg("IsolationMC_asis.cfg", 2, 8, 0, False, (False, False, False), "INVARIANT NoBadP1\nCONSTRAINT DepthBound\nVIEW View")
    r = vc.run_tlc("IsolationMC", cfg=cfg, timeout=900, heap="8g", workers=1, tag="IsoAsIs", extra=["-noGenerateSpecTE"])
    r.scope = {"model": "design before the repairs 39fd106 157e30a (chip_type and lfotable shared)", "N": 2, "invariant": "P1", "expected": "violated"}
    m = re.findall(r"hist = <<([0-9, ]*)>>", r.out)
    r.cex = [int(x) for x in m[-1].split(",")] if (m and r.violation) else None
    runs.append(r)
    variants = [("all repairs", (True, True, True), "NoBad", 2)]
    if not q:
        variants.append(("chip_type + lfotable per instance (P1 repaired, tables still shared)", (True, True, False), "NoBadP1", 2))
        variants.append(("all repairs", (True, True, True), "NoBad", 3))
    # the same design with the calls on the instances' own settings / controllers: P1 covers the panning decision (eff.pan)
    pd = 6 if q else 8
    cfg = mc_cfg("IsolationMC_pan_%d.cfg" % pd, 2, pd, 0, False, (True, True, True), "INVARIANT NoBad\nCONSTRAINT DepthBound\nVIEW View", pan=True)
    r = vc.run_tlc("IsolationMC", cfg=cfg, timeout=2400, heap="8g", workers=1, tag="IsoPan", extra=["-noGenerateSpecTE"])
    r.scope = {"model": "all repairs, with soft-pan switch / pan and volume controllers / volume model calls of either instance", "N": 2,
               "calls": pd - 1, "invariant": "NoBad", "expected": "holds", "complete": False}
    r.cex = None
    runs.append(r)
    for (name, fix, inv, n) in variants:
        cfg = mc_cfg("IsolationMC_fix_%s_%d.cfg" % ("".join("1" if f else "0" for f in fix), n), n, 1000 if n == 2 else 8, 0, False, fix,
                     "INVARIANT %s\nCONSTRAINT DepthBound\nVIEW View" % inv)
        r = vc.run_tlc("IsolationMC", cfg=cfg, timeout=2400, heap="16g", workers=(8 if n == 2 else 1), tag="IsoFix%d" % n, extra=["-noGenerateSpecTE"])
        r.scope = {"model": name, "N": n, "invariant": inv, "expected": "holds", "complete": n == 2}
        r.cex = None
        runs.append(r)
    return runs


def variant_of(hist):
    return "tsan" if hist and hist[0].get("mode") == "par" and hist[0].get("tsan_build") else "asan"




@checks.register("C14")
def check_c14(pid, tier, replay):
    t0 = time.time()
    q = tier == "quick"
    rng = random.Random(vc.seed() * 7919 + 14)

    def rerun(hist):
        # a threaded execution that differed from its solo runs is a schedule-dependent outcome: it is confirmed when it shows
        # again within a few repetitions of the same execution (a single-threaded one must show again at once)
        tries = 5 if hist and hist[0].get("mode") == "par" else 1
        f = []
        for _ in range(tries):
            f, _, _ = vtrace.run_histories(pid + "r", HARNESS, TRACE, [hist], variant=variant_of(hist), nchunks=1)
            if vtrace.first_failures(f, pid):
                break
        return f

    if replay:
        return checks.replay_one(pid, replay, rerun)

    # ---- executions chosen by TLC from the model
    em = model_emit(q)
    if not em["ops"]:
        print("INFRA: spec/IsolationMC.tla did not print its operation table:", em["runs"][0].out[-1500:] if em["runs"] else "")
        return 3
    cex_h = [gi.behaviour_history(em["ops"][n], h, n) for (n, h, _) in em["cex"]]
    if q and len(cex_h) > 600:
        cex_h = sorted(cex_h, key=len)[:600]
    beh_h = [gi.behaviour_history(em["ops"][n], b, n) for (n, b) in em["beh"]]
    # leg A runs in the background while the library is driven
    pool = cf.ThreadPoolExecutor(max_workers=1)
    fut = pool.submit(model_verify, q)

    parts = [
        ("model_counterexamples", cex_h),
        ("model_generated_behaviours", beh_h),
        ("exhaustive_interleavings", gi.exhaustive_executions(q, vc.seed()) if q else
            [h for a in gi.EMUS for b in gi.EMUS for h in gi.pair_executions(a, b)] +
            [h for (a, b) in [(4, 4), (4, 5), (5, 4), (4, 2), (0, 4), (2, 2), (5, 5), (4, 0), (2, 4)] for h in gi.lfo_pair_executions(a, b)] +
            [h for (a, b, c) in [(1, 8, 4), (8, 4, 1), (4, 1, 8), (0, 2, 5), (3, 6, 2), (2, 5, 0)] for h in gi.triple_executions(a, b, c, 8, vc.seed())] +
            [h for (a, b) in [(0, 0), (0, 2), (2, 0), (4, 5), (3, 6), (1, 1), (5, 4), (6, 3)] for h in gi.family_pair_executions(a, b)] +
            [h for (a, b) in [(0, 0), (0, 2), (4, 5), (1, 8), (3, 6)] for h in gi.port_pair_executions(a, b)] +
            [h for e in gi.EMUS for h in gi.burst_executions(e)]),
        ("determinism_probes", gi.determinism_probes()),
        ("own_settings_and_controllers", gi.settings_executions(q, vc.seed()) + gi.controller_probes()),
        ("random_interleavings", [gi.random_execution(rng) for _ in range(260 if q else 4000)]),
        ("threaded_no_detector", [gi.par_pair(a, a) for a in gi.EMUS] + [gi.par_many(rng, n) for n in (2, 3, 5, 8)]),
    ]
    histories = [h for (_, hs) in parts for h in hs]
    nseq = len(histories)
    order = list(range(nseq))
    random.Random(vc.seed()).shuffle(order)            # balance the chunks
    shuffled = [histories[j] for j in order]
    failures, counters, stats = vtrace.run_histories(pid, HARNESS, TRACE, shuffled, nchunks=NCHUNKS)
    histories = shuffled
    if stats["infra"]:
        print("INFRA:", stats["infra"][0][:2000])
        return 3

    # ---- thorough: the same kind of histories on 2..8 threads under ThreadSanitizer
    tstats = None
    if not q:
        par = [gi.par_pair(a, b) for a in gi.EMUS for b in gi.EMUS]
        par += [gi.par_many(rng, n) for n in (2, 3, 4, 5, 6, 7, 8) for _ in range(6)]
        par += [gi.par_free(rng, n) for n in (2, 3, 4) for _ in range(10)]
        for h in par:
            h[0]["tsan_build"] = 1
        random.Random(vc.seed() + 1).shuffle(par)
        f2, c2, s2 = vtrace.run_histories(pid + "t", HARNESS, TRACE, par, variant="tsan", nchunks=NCHUNKS, htimeout=2400)
        if s2["infra"]:
            print("INFRA:", s2["infra"][0][:2000])
            return 3
        for f in f2:
            f.history += len(histories)
        failures += f2
        histories = histories + par
        for kk, v in c2.items():
            counters[kk] = counters.get(kk, 0) + v
        stats["records"] += s2["records"]
        stats["drift"] += s2["drift"]
        tstats = {"executions": len(par), "records": s2["records"], "race_evaluations": c2.get("race_evals", 0), "race_reports": c2.get("race_reports", 0)}

    mruns = fut.result()
    pool.shutdown()
    allruns = em["runs"] + mruns
    labels = {}
    for f in failures:
        labels[f.what] = labels.get(f.what, 0) + 1
    coverage = {
        "states": sum(r.distinct for r in allruns), "transitions": sum(r.generated for r in allruns),
        "traces_validated_against_impl": len(histories), "records_validated": stats["records"],
        "history_classes": {k: len(v) for (k, v) in parts},
        "model_counterexamples_replayed": len(cex_h), "model_generated_behaviours_replayed": len(beh_h),
        "emulator_pairs": "all 64 (observed core, interfering core) pairs over ids 0,1,2,3,4,5,6,8",
        "threaded": tstats,
        "refinement": {"steps_checked_against_model": counters.get("refined", 0), "steps_drifted": counters.get("drifted", 0),
                       "interference_predicted_by_model": counters.get("predicted", 0), "confirmed_on_library": counters.get("confirmed", 0),
                       "predicted_but_not_audible": counters.get("masked", 0), "observed_but_unmodelled": counters.get("unmodelled", 0),
                       "first_drifts": stats.get("drift", [])[:5]},
        "monitor_counters": counters,
        "failure_labels_seen": labels,
        "samples": checks.sample_histories([h for h in histories if len(h) > 6][:2], 2, 14) + checks.sample_histories(cex_h[:1], 1, 10),
        "model_runs": [{"scope": getattr(r, "scope", {}), "ok": r.ok, "violation": r.violation, "distinct": r.distinct, "generated": r.generated,
                        "counterexample": getattr(r, "cex", None), "wall_s": round(r.wall, 1)} for r in allruns],
        "exhaustive": False,
    }
    # ---- model-level results (never a verdict on the code by themselves)
    asis = mruns[0]
    if asis.violation:
        ops2 = em["ops"].get(2)
        cx = [ops2[j - 1] for j in asis.cex] if (asis.cex and ops2) else asis.cex
        print("MODEL: spec/IsolationMC with the chip_type and lfotable repairs switched off (the design before 39fd106 157e30a) violates P1 as expected; shortest counterexample %s; replayed on the library with %d further model counterexamples: %d calls with predicted interference, %d confirmed"
              % (json.dumps(cx, separators=(",", ":")), len(cex_h), counters.get("predicted", 0), counters.get("confirmed", 0)))
        if counters.get("predicted", 0) and not counters.get("confirmed", 0):
            print("MODEL-DRIFT: the unrepaired model predicts interference through nuked.chip_type / np2.lfotable but no execution of the library shows it (repaired tree? flip FixChipType / FixLfoTable in spec/IsolationTrace.cfg)")
    elif not asis.ok:
        print("MODEL-DRIFT: IsolationMC as-is run failed: rc=%s %s" % (asis.rc, asis.out[-400:]))
    for r in mruns[1:]:
        if r.violation or not r.ok:
            print("MODEL-DRIFT: IsolationMC %s reports %s (model-level result; not a verdict on the code)" % (r.scope, r.violation or ("rc=%s" % r.rc)))
    if counters.get("drifted", 0):
        print("MODEL-DRIFT: %d of %d recorded calls are not explained by spec/Isolation.tla (unmodelled global / call not enabled): %s"
              % (counters["drifted"], counters.get("refined", 0), json.dumps(stats.get("drift", [])[:2])))
    return checks.conclude(pid, tier, "model_checking", histories, failures, rerun, coverage, t0, ASSUME, max_report=(10 if q else 30))
