"""Generators of abstract songs and playback scripts for the sequencer checks (C07 C08 C09, SMF part of C17)."""
import random

def tagbytes(trk, i, prefix=b"T"):
    return list(prefix + bytes([48 + trk, 58, 97 + (i % 26), 97 + ((i // 26) % 26)]))

def random_song(rng, ntracks=None, maxev=10, loops="none", tempo_changes=True, fmt=1, tempo_rich=False, ports=False):
    """tempo_rich: several tempo changes in track 0 and mostly NO tempo event at tick 0 (the default tempo is in force until
    the first change): what a rewind / seek / loop jump has to restore then differs from what any later point holds"""
    ntracks = ntracks or rng.choice([1, 1, 2, 2, 3, 4])
    if fmt == 0: ntracks = 1
    div = rng.choice([100, 250]) if tempo_rich and rng.random() < 0.7 else rng.choice([96, 100, 250, 120])
    need_tempo0 = (500000 % div) != 0
    qs = [2500, 5000, 10000]
    tracks = []
    vid = [1]
    for k in range(ntracks):
        ev = []
        if k == 0 and (need_tempo0 or rng.random() < (0.15 if tempo_rich else 0.5)):
            ev.append([0, {"k": "tempo", "us": div * rng.choice(qs)}])
        ev.append([0, {"k": "pc", "ch": k, "p": k}])
        sounding = []
        # a track may own a second MIDI channel (k + 10): same keys on both channels at one tick exercise the row sorting
        two = k < 6 and rng.random() < 0.4
        if two:
            ev.append([0, {"k": "pc", "ch": k + 10, "p": k}])
        n = rng.randrange(2, maxev + 1)
        for i in range(n):
            dt = rng.choice([0, 0, 0, 1, 10, 48, 96, 96, 200, 300])
            r = rng.random()
            if tempo_rich and k == 0 and tempo_changes and rng.random() < 0.22:
                ev.append([dt, {"k": "tempo", "us": div * rng.choice(qs)}])
            elif r < 0.35:
                note = rng.choice([48, 50, 52, 53, 55, 57, 59, 60]) if not two else rng.choice([48, 50, 52])
                chn = k + 10 if two and rng.random() < 0.5 else k
                v = vid[0]; vid[0] = vid[0] % 126 + 1
                ev.append([dt, {"k": "on", "ch": chn, "n": note, "v": v}]); sounding.append((chn, note))
            elif r < 0.60 and sounding:
                (chn, note) = sounding.pop(rng.randrange(len(sounding)))
                if rng.random() < 0.3: ev.append([dt, {"k": "on", "ch": chn, "n": note, "v": 0}])
                else: ev.append([dt, {"k": "off", "ch": chn, "n": note, "v": rng.choice([0, 64])}])
            elif r < 0.72: ev.append([dt, {"k": "cc", "ch": k, "n": rng.choice([7, 10, 11, 64, 1, 91]), "v": rng.randrange(128)}])
            elif r < 0.77: ev.append([dt, {"k": "pc", "ch": k, "p": rng.randrange(16)}])
            elif r < 0.82: ev.append([dt, {"k": "bend", "ch": k, "v": rng.randrange(16384)}])
            elif r < 0.85: ev.append([dt, {"k": "cat", "ch": k, "v": rng.randrange(128)}])
            elif r < 0.88: ev.append([dt, {"k": "nat", "ch": k, "n": 60, "v": rng.randrange(128)}])
            elif r < 0.92: ev.append([dt, {"k": "marker", "b": tagbytes(k, i)}])
            elif r < 0.95: ev.append([dt, {"k": "text", "ty": rng.choice([1, 5, 7]), "b": tagbytes(k, i, b"X")}])
            elif r < 0.97: ev.append([dt, {"k": rng.choice(["sysex", "sysex", "sysex7"]), "b": [0x7D, k, i % 128, 0xF7]}])
            elif k == 0 and tempo_changes: ev.append([dt, {"k": "tempo", "us": div * rng.choice(qs)}])
            else: ev.append([dt, {"k": "cc", "ch": k, "n": 11, "v": rng.randrange(128)}])
        for (chn, note) in sounding:
            ev.append([rng.choice([0, 10, 96]), {"k": "off", "ch": chn, "n": note, "v": 0}])
        if ports and rng.random() < 0.75:
            # a port-name meta event (FF 09) first in the track routes it to a MIDI port: synthesizer channel = 16 * port + channel
            ev.insert(0, [0, {"k": "text", "ty": 9, "b": [rng.choice([65, 66, 66, 67])]}])
        tracks.append({"ev": ev, "eot": rng.choice([0, 0, 0, 96, 400])})
    song = {"e": "Song", "div": div, "fmt": fmt if ntracks > 1 or fmt == 0 else rng.choice([0, 1]), "rs": rng.choice([0, 1]), "tracks": tracks}
    if loops != "none":
        place_loops(rng, song, loops)
    return song

def place_loops(rng, song, mode, force_cc=False):
    """mode: valid | startonly | endonly | invalid | hmi | emidi | random"""
    if mode == "random":
        mode = rng.choice(["valid", "valid", "valid", "startonly", "endonly", "invalid", "hmi", "emidi"])
    ti = rng.randrange(len(song["tracks"]))
    tr = song["tracks"][ti]["ev"]
    use_cc = force_cc or rng.random() < 0.25
    def ins(pos, kind, dt):
        if kind == "loopstart" and use_cc:
            tr.insert(pos, [dt, {"k": "cc111", "ch": 0, "v": 0}])     # CC111 = loop start (RPG Maker convention)
        else:
            tr.insert(pos, [dt, {"k": kind}])
    n = len(tr)
    if mode == "valid":
        a = rng.randrange(1, max(2, n - 1)); b = rng.randrange(a + 1, n + 1)
        ins(b, "loopend", rng.choice([1, 48, 96]))
        ins(a, "loopstart", rng.choice([0, 1, 48]))
    elif mode == "startonly":
        ins(rng.randrange(1, n + 1), "loopstart", rng.choice([0, 1, 48]))
    elif mode == "endonly":
        ins(rng.randrange(1, n + 1), "loopend", rng.choice([1, 48]))
    elif mode == "hmi":
        # HMI style: CC110 = loop start, the CC111 that FOLLOWS it in the file = loop end
        a = rng.randrange(1, max(2, n - 1)); b = rng.randrange(a + 1, n + 1)
        tr.insert(b, [rng.choice([1, 48, 96]), {"k": "cc111", "ch": 0, "v": 0}])
        tr.insert(a, [rng.choice([0, 1, 48]), {"k": "cc", "ch": 0, "n": 110, "v": 0}])
    elif mode == "emidi":
        # a second CC110 makes the file EMIDI style: later CC110 / CC111 are plain controllers, CC113 is the volume (CC7);
        # the first CC110 stays the loop start, a CC111 met before the second CC110 stays the loop end
        a = rng.randrange(1, max(2, n - 1)); b = rng.randrange(a + 1, n + 1)
        # (CC113 acts on a channel: it goes to the track's own channel - the reference folds channel state per track)
        tr.insert(b, [rng.choice([1, 48]), {"k": "cc", "ch": ti, "n": 113, "v": rng.choice([0, 64, 127])}])
        tr.insert(b, [rng.choice([0, 10]), {"k": "cc111", "ch": 0, "v": 0}])
        tr.insert(b, [rng.choice([1, 48]), {"k": "cc", "ch": 0, "n": 110, "v": 0}])
        if rng.random() < 0.5: tr.insert(b, [rng.choice([1, 48]), {"k": "cc111", "ch": 0, "v": 0}])
        tr.insert(a, [rng.choice([0, 1, 48]), {"k": "cc", "ch": 0, "n": 110, "v": 0}])
    else:
        k = rng.randrange(4)
        a = rng.randrange(1, max(2, n - 1)); b = rng.randrange(a + 1, n + 1)
        if k == 0:   # end before start
            ins(b, "loopstart", 48); ins(a, "loopend", 48)
        elif k == 1: # same tick
            ins(a, "loopend", 0); ins(a, "loopstart", 48)
        elif k == 2: # duplicate start
            ins(b, "loopend", 48); ins(a, "loopstart", 48); ins(a, "loopstart", 10)
        else:        # duplicate end
            ins(b, "loopend", 48); ins(b, "loopend", 10); ins(a, "loopstart", 48)
    song["loopmode"] = mode

def rewind_prelude(rng):
    """nothing (mostly) | rewind straight after the load | play a few calls, then rewind: the play that follows is a
    complete one from the start in every case"""
    r = rng.random()
    if r < 0.7: return []
    if r < 0.85: return [{"e": "Rewind"}]
    return [{"e": "PlayTicks", "steps": [], "max": rng.choice([1, 2, 3, 5, 8]), "partial": 1}, {"e": "Rewind"}]


def play_history(rng, song, kind="plain"):
    """kind: plain (loop off, exact or stepped) | loop | gating | audio"""
    if kind == "audio":
        rate = rng.choice([44100, 44100, 22050, 48000, 8000])
        h = [{"e": "Init", "rate": rate, "chips": 1}, song, {"e": "SetHooks"}]
        if rng.random() < 0.3:
            m = rng.choice([(1, 2), (2, 1)]); h.append({"e": "SetTempo", "num": m[0], "den": m[1]})
        h.append({"e": "Load"})
        req = rng.choice([[2], [100], [1024], [1026], [70000], [2, 100, 1024, 1026, 70000], [4096], [6, 1022, 300]])
        h.append({"e": "PlayAudio", "req": req, "max": 2000000})
        return h
    h = [{"e": "Init", "rate": 44100, "chips": 2}, song]
    hooks_when = rng.choice(["before", "after", "both", "reload"])
    if kind == "loop":
        n = rng.choice([-1, 0, 1, 2, 2, 3, 4])
        if hooks_when in ("before", "both"): h.append({"e": "SetHooks"})
        h += [{"e": "SetLoop", "en": 1}, {"e": "SetLoopCount", "n": n}]
        if hooks_when == "reload":
            h += [{"e": "SetHooks"}, {"e": "Load"}, {"e": "Reset"}]
        h.append({"e": "Load"})
        if hooks_when in ("after",): h.append({"e": "SetHooks"})
        if rng.random() < 0.15:
            h.append({"e": "Reset"})          # opn2_reset between load and play: hooks, loop settings and the song stay as they are
        if rng.random() < 0.2:
            # the count is changed on the loaded song and brought into force by a rewind (possibly after some playing)
            n = rng.choice([-1, 0, 1, 2, 3, 4])
            if rng.random() < 0.4: h.append({"e": "PlayTicks", "steps": [], "max": rng.choice([1, 3, 6]), "partial": 1})
            h += [{"e": "SetLoopCount", "n": n}, {"e": "Rewind"}]
        else:
            h += rewind_prelude(rng)
        h.append({"e": "PlayTicks", "steps": [], "max": 150 if n < 0 else 3000})
        return h
    h.append({"e": "SetHooks"})
    if rng.random() < 0.3:
        m = rng.choice([(1, 2), (2, 1), (1, 1)]); h.append({"e": "SetTempo", "num": m[0], "den": m[1]})
    h.append({"e": "Load"})
    if kind == "gating":
        nt = len(song["tracks"])
        # a channel of a track that plays on a further MIDI port is switched off: the mask addresses synthesizer channels
        # 0..15 only, so those notes must still sound (input selection only; the routing is judged by the specification)
        names = []
        for tr in song["tracks"]:
            e0 = tr["ev"][0][1] if tr["ev"] else {}
            nm = tuple(e0["b"]) if e0.get("k") == "text" and e0.get("ty") == 9 else None
            if nm is not None and nm not in names: names.append(nm)
        far = [k for k, tr in enumerate(song["tracks"]) if tr["ev"] and tr["ev"][0][1].get("k") == "text" and tr["ev"][0][1].get("ty") == 9
               and names.index(tuple(tr["ev"][0][1]["b"])) >= 1]
        if far and rng.random() < 0.8:
            h.append({"e": "ChanEn", "c": rng.choice(far), "en": 0})
            if rng.random() < 0.6:
                h += rewind_prelude(rng)
                h.append({"e": "PlayTicks", "steps": [], "max": 3000, "snap": 1})
                return h
        for _ in range(rng.choice([1, 2])):
            r = rng.random()
            if r < 0.5: h.append({"e": "TrackOpt", "t": rng.randrange(nt + 1), "o": rng.choice([1, 2, 2])})
            elif r < 0.8: h.append({"e": "TrackOpt", "t": rng.randrange(nt), "o": 3})
            else: h.append({"e": "ChanEn", "c": rng.randrange(nt + 1), "en": 0})
    h += rewind_prelude(rng)
    if rng.random() < 0.5:
        h.append({"e": "PlayTicks", "steps": [], "max": 3000, "snap": 1})
    else:
        h.append({"e": "PlayTicks", "steps": [rng.choice([1000, 7000, 33000, 120000, 250000, 1000000]) for _ in range(5)],
                  "gran": rng.choice([0, 0, 2000]), "max": 20000})
    return h


def reload_history(rng, song_a, song_b):
    """one instance, two songs: what was switched off, soloed or masked for the first song must not outlive the load of the
    second (the per-song reset), whatever was played or sought in between; the second song is then played completely"""
    h = [{"e": "Init", "rate": 44100, "chips": 2}, song_a, {"e": "SetHooks"}]
    if rng.random() < 0.25:
        m = rng.choice([(1, 2), (2, 1)]); h.append({"e": "SetTempo", "num": m[0], "den": m[1]})
    h.append({"e": "Load"})
    nt = len(song_a["tracks"])
    for _ in range(rng.choice([1, 1, 2, 3])):
        r = rng.random()
        if r < 0.55: h.append({"e": "TrackOpt", "t": rng.randrange(nt), "o": 2})                      # off
        elif r < 0.75: h.append({"e": "TrackOpt", "t": rng.randrange(nt), "o": 3})                    # solo
        else: h.append({"e": "ChanEn", "c": rng.randrange(max(nt, len(song_b["tracks"])) + 1), "en": 0})
    r = rng.random()
    if r < 0.3: h.append({"e": "PlayTicks", "steps": [], "max": rng.choice([2, 5, 9]), "partial": 1})
    elif r < 0.5: h.append({"e": "PlayTicks", "steps": [], "max": 3000})
    elif r < 0.6: h.append({"e": "Seek", "us": rng.choice([0, 100000, 700000])})
    h += [song_b, {"e": "Load"}]
    h += rewind_prelude(rng)
    h.append({"e": "PlayTicks", "steps": [], "max": 3000})
    return h


def loop_reload_history(rng, song_a, song_b):
    """two looping songs in a row on one instance: what the first file made of its loop controllers (CC110 / CC111 styles,
    markers) must not outlive the load of the second"""
    h = [{"e": "Init", "rate": 44100, "chips": 2}, song_a, {"e": "SetHooks"}, {"e": "SetLoop", "en": 1},
         {"e": "SetLoopCount", "n": rng.choice([2, 2, 3])}, {"e": "Load"}]
    r = rng.random()
    if r < 0.3: h.append({"e": "PlayTicks", "steps": [], "max": rng.choice([2, 5, 9]), "partial": 1})
    elif r < 0.5: h.append({"e": "PlayTicks", "steps": [], "max": 3000})
    h += [song_b, {"e": "Load"}, {"e": "PlayTicks", "steps": [], "max": 3000}]
    return h


def ref_times(song):
    """event times (us) of a song from the integral-tempo family (python twin used only to pick seek targets)"""
    tempi = []
    for k, tr in enumerate(song["tracks"]):
        t = 0
        for i, (dt, e) in enumerate(tr["ev"]):
            t += dt
            if e["k"] == "tempo": tempi.append((t, k, i, e["us"]))
    tempi.sort()
    def time_of(T):
        us = 0; cur = 0; tempo = 500000
        for (tk, _, _, u) in tempi:
            if tk >= T: break
            if tk > cur:
                us += (tk - cur) * (tempo // song["div"]); cur = tk
            tempo = u
        # tempo events at tick <= cur apply from their tick on
        tempo_eff = 500000
        for (tk, _, _, u) in tempi:
            if tk <= cur: tempo_eff = u
        seg = []
        last = cur
        for (tk, _, _, u) in tempi:
            if cur < tk < T: seg.append(tk)
        # simple piecewise sum
        us = 0; pos = 0
        pts = sorted(set([0] + [tk for (tk, _, _, _) in tempi if tk < T] + [T]))
        for a, b in zip(pts, pts[1:]):
            te = 500000
            for (tk, _, _, u) in tempi:
                if tk <= a: te = u
            us += (b - a) * (te // song["div"])
        return us
    times = set()
    for tr in song["tracks"]:
        t = 0
        for (dt, e) in tr["ev"]:
            t += dt; times.add(time_of(t))
    return sorted(times)

def seek_history(rng, song, loop=False, loop_p=0.5):
    h = [{"e": "Init", "rate": 44100, "chips": 2}, song, {"e": "SetHooks"}]
    if rng.random() < 0.3:
        # a tempo multiplier: seek targets, reported positions and delivery times stay in song time
        m = rng.choice([(2, 1), (1, 2), (3, 2), (4, 5)]); h.append({"e": "SetTempo", "num": m[0], "den": m[1]})
    looped = loop and rng.random() < loop_p
    loopcfg = [{"e": "SetLoop", "en": 1}, {"e": "SetLoopCount", "n": rng.choice([1, 2, 2, 3])}]
    late = looped and rng.random() < 0.4
    if looped and not late:
        # looping on, finite count: the target lies before the loop end in most cases; what follows the seek is then what
        # a linear looping playback delivers after the target (rest of this pass, the remaining passes, the tail)
        h += loopcfg
    h.append({"e": "Load"})
    if late:
        # looping switched on only AFTER the file was loaded (the loop points are found at load time whatever the switch says)
        h += loopcfg
    ts = ref_times(song)
    last = ts[-1] if ts else 0
    cands = [0] + ts + [(a + b) // 2 for a, b in zip(ts, ts[1:])] + [last + 500000, last + 1000000]
    if rng.random() < 0.4:
        h.append({"e": "PlayTicks", "steps": [], "max": 3000, "until": rng.choice(cands)})
        if rng.random() < 0.25:
            # a refused target in the middle of the song: position, sounding notes and what follows stay as they are
            h.append({"e": "Seek", "us": rng.choice([-1, -1000000])})
    for _ in range(rng.choice([1, 1, 2, 3])):
        r = rng.random()
        if r < 0.08: h.append({"e": "Seek", "us": -1000000})
        elif r < 0.16: h.append({"e": "Seek", "us": last + 5000000})
        else: h.append({"e": "Seek", "us": rng.choice(cands)})
    h.append({"e": "PlayTicks", "steps": [], "max": 3000})
    return h
