"""C10 - programmed pitch = key + bend * range + instrument offset (in tune).

Leg A: spec/PitchMC.tla - TLC walks (1) the pitch grid of the model of OPN2::noteOn against the fixed-point
       reference of spec/Pitch.tla (in tune within one F-number step, monotone), (2) the octave/multiplier
       search loops over magnitude classes (termination; without the cap of `hertz` the machine does not
       terminate for +inf), (3) the re-pitch rule of one MIDI channel with both pedals (the variant that skips
       notes tagged by sostenuto, as in "Don't bend a sustained note", violates the rule).  Each machine has a
       variant with and without the defect; the recorded executions tell which variant the library is.
Leg B: the same predicates evaluated by TLC (spec/PitchTrace.tla) on block/F-number writes recorded from the
       real library by harness/drive_pitch (keys x bend values x RPN-0 ranges x note offsets x chip family,
       fine bend sweeps, exhaustive short pedal/bend sequences, portamento, TLC-generated behaviours).
Leg C: recorded writes = writes of the model (block, F-number +-1, multipliers); reported as MODEL-DRIFT.
Instruments whose note offset overflows the frequency computation run under alarm(): a call that does not
return is reported with the label hang-noteon-inf."""
import json, os, random, re, time, concurrent.futures as cf
import checks
import vcommon as vc, vtrace, gen_pitch

MARKER = '{"o":"init"'
NCHUNKS = 8

MC_CFG = """SPECIFICATION Spec
CONSTANTS
  Part = %(part)d
  TGrid = %(tgrid)s
  BGrid = %(bgrid)s
  Ranges = %(ranges)s
  Fams = {0, 1}
  EMax = %(emax)d
  WithInf = %(inf)s
  InfGuard = %(guard)s
  SostSkip = %(sost)s
  MaxDepth = %(depth)d
  EmitDepth = %(emit)d
INVARIANT NoBad
%(extra)s
CHECK_DEADLOCK FALSE
"""

ASSUME = [
    "register tap hook H1 sees every chip write (OPN2::writeReg/writeRegI); harness/vh.hpp Tap reports block/F-number when register A0+ch is written (after A4+ch), with the shadow of the four multiplier registers",
    "harness/drive_pitch.cpp only drives the public real-time API (+ opn2_tickEvents for time) and echoes the commands faithfully",
    "reference: f = 440 * 2^((p - 69) / 12) Hz, F-number * 2^block = f * 2^21 * 144 / clock, clock 7670454 Hz (OPN2) / 7987200 Hz (OPNA); fixed-point table of spec/Pitch.tla (regenerated and compared by lib/gen_pitch.py), reference error < 2/256 F-number step",
    "bend range = RPN 0 with CC6 in semitones and CC38 in 1/128 semitone (the library's reading; 14-bit value / 128); a channel is judged only after both were set",
    "native range = reference below 2036.75 * 2^7 (6.62 kHz on the OPN2 clock), one F-number step around that limit unjudged; above it only model agreement (drift) is reported",
    "a portamento glide is complete after a tick of 100 s; writes during a glide are only required to lie between its end points; writes under active vibrato sources are not judged (drift only)",
    "tracked key-down notes come from the commands; the chip channel of a note is the channel of the frequency write of its NoteOn",
]


def tla_set(xs):
    return "{" + ", ".join(("TRUE" if x else "FALSE") if isinstance(x, bool) else str(x) for x in xs) + "}"


def mc_cfg(name, part, tgrid=(48,), bgrid=(8192,), ranges=(256,), emax=12, inf=False, guard=False, sost=False, depth=100000, emit=0, sim=False):
    return checks.write_cfg(name, MC_CFG % {
        "part": part, "tgrid": tla_set(tgrid), "bgrid": tla_set(bgrid), "ranges": tla_set(ranges), "emax": emax,
        "inf": "TRUE" if inf else "FALSE", "guard": "TRUE" if guard else "FALSE", "sost": "TRUE" if sost else "FALSE",
        "depth": depth, "emit": emit, "extra": "CONSTRAINT Emit" if sim else "CONSTRAINT DepthBound\nVIEW View"})


def table_selfcheck():
    """the table and the clock constants in spec/Pitch.tla are the ones lib/gen_pitch.py computes exactly"""
    txt = open(os.path.join(vc.SPEC, "Pitch.tla")).read()
    m = re.search(r"Tab == <<(.*?)>>", txt, re.S)
    if not m:
        return "no table in spec/Pitch.tla"
    tab = [int(x) for x in re.findall(r"\d+", m.group(1))]
    if tab != gen_pitch.table():
        return "table of spec/Pitch.tla differs from gen_pitch.table()"
    k = gen_pitch.k_constants()
    mk = re.search(r"KFam\(fam\) == IF fam = 1 THEN (\d+) ELSE (\d+)", txt)
    if not mk or int(mk.group(1)) != k[1] or int(mk.group(2)) != k[0]:
        return "clock constants of spec/Pitch.tla differ from gen_pitch.k_constants()"
    return None


def model_phase(tier):
    q = tier == "quick"
    tgrid = list(range(12, 209))                 # tones -36 .. 160 (keys 0..127, offsets -12..+7, bends up to 24.5 semitones)
    bgrid = sorted(set(gen_pitch.bend_grid(17 if q else 65)))
    ranges = [m * 128 + l for (m, l) in (gen_pitch.RANGES[::2] if q else gen_pitch.RANGES)]
    specs = [
        ("grid", dict(part=1, tgrid=tgrid, bgrid=bgrid, ranges=ranges), True),
        ("loops-finite", dict(part=2, emax=12 if q else 40), True),
        # two variants of each machine: the conformance leg tells which one the library is
        ("loops-inf-unguarded", dict(part=2, emax=20, inf=True), False),
        ("loops-inf-guarded", dict(part=2, emax=20, inf=True, guard=True), True),
        ("repitch", dict(part=3, depth=8 if q else 12), True),
        ("repitch-sostenuto-skip", dict(part=3, depth=8, sost=True), False),
    ]

    def one(sp):
        name, kw, expect_ok = sp
        cfg = mc_cfg("PitchMC_%s_%s.cfg" % (tier, name), **kw)
        # (the machines as written violate NoBad by design: no trace-explorer files into spec/)
        r = vc.run_tlc("PitchMC", cfg=cfg, timeout=1500, heap="4g", workers=(2 if q else 4) if name == "grid" else 1, tag="PitchMC-" + name,
                       extra=["-noGenerateSpecTE"])
        r.scope = {"name": name, "expect_ok": expect_ok}
        mm = re.findall(r'/\\ bad = (\{"[^}]*\})', r.out)
        r.bad = mm[-1] if (r.violation and mm) else ""
        return r

    with cf.ThreadPoolExecutor(max_workers=len(specs)) as ex:
        return list(ex.map(one, specs))


def model_behaviours(n, depth):
    cfg = mc_cfg("PitchMC_sim.cfg", 3, depth=1000, emit=depth, sim=True)
    r = vc.run_tlc("PitchMC", cfg=cfg, timeout=600, heap="4g", simulate=max(1, n // 2), depth=depth + 1, workers=2, tag="PitchSim")
    hs = []
    for i, b in enumerate(re.findall(r'"BEHAVIOUR",\s*"(\[[0-9,\s]*\])"', r.out)[:n]):
        hs.append(gen_pitch.behaviour_to_history(json.loads(b), i))
    return hs, r


def relabel(failures, histories):
    """a call that did not return (alarm in harness/drive_pitch) gets its own label"""
    for f in failures:
        if f.prop == "CRASH" and "HANG:" in (f.detail or ""):
            m = re.search(r"HANG: call did not return: (\S+) (-?\d+) (-?\d+) (-?\d+)", f.detail)
            stage = m.group(1) if m else "?"
            f.step = max(0, f.step - 1)                 # the Crash record is not a command
            hist = histories[f.history] if 0 <= f.history < len(histories) else []
            noffs = sorted({i.get("noff", 0) for b in (hist[0].get("banks", []) if hist else []) for i in b.get("ins", [])})
            f.prop = "C10"
            f.what = "hang-noteon-inf" if stage in ("on", "sweep-key") else "hang-" + stage
            f.event = stage
            f.detail = "call did not return within the alarm: %s; note offsets of the installed instruments: %s" % (m.group(0) if m else "?", noffs)
    return failures


@checks.register("C10")
def check_c10(pid, tier, replay):
    t0 = time.time()
    q = tier == "quick"
    rng = random.Random(vc.seed() * 7919 + 10)

    def rerun(hist):
        f, _, _ = vtrace.run_histories(pid + "r", "drive_pitch", "PitchTrace", [hist], nchunks=1, marker=MARKER)
        return relabel(f, [hist])

    if replay:
        return checks.replay_one(pid, replay, rerun)

    err = table_selfcheck()
    if err:
        print("INFRA:", err)
        return 3

    # leg A runs in the background while the executions are recorded and validated; TLC-chosen behaviours first
    bg = cf.ThreadPoolExecutor(max_workers=1)
    mfuture = bg.submit(model_phase, tier)
    beh, simr = model_behaviours(120 if q else 1500, 10 if q else 16)

    # legs B and C
    if q:
        sweeps = gen_pitch.sweep_histories(gen_pitch.bend_grid(65), split=2)
        fine = gen_pitch.fine_histories(256)
    else:
        # every one of the 16384 bend values: for 12 keys spread over the keyboard per (range, offset, family) ...
        sweeps = gen_pitch.sweep_histories(all_bends=True, keys=[0, 9, 20, 32, 45, 57, 69, 81, 93, 104, 115, 127], chips=1, split=1,
                                           ranges=gen_pitch.RANGES, progs=(0, 1, 2))
        # ... and all 128 keys on a 257-point bend grid
        sweeps += gen_pitch.sweep_histories(gen_pitch.bend_grid(257), split=4)
        fine = gen_pitch.fine_histories(4096)
    keysw = gen_pitch.key_sweep_histories()
    porta = gen_pitch.porta_histories()
    rule = list(gen_pitch.exhaustive_rule(3)) + list(gen_pitch.exhaustive_rule(2, ch=9, fam=1))
    if not q:
        rule += list(gen_pitch.exhaustive_rule(4))
    rnd = [gen_pitch.random_history(rng, 50 if q else 90) for _ in range(250 if q else 3000)]
    hang = gen_pitch.hang_histories()
    # the same rules with the sequencer as the deliverer, two MIDI ports
    rnd += [gen_pitch.seq_history(rng, 50 if q else 90) for _ in range(80 if q else 1000)]
    # interleave the expensive sweep histories with the cheap ones so that the chunks are balanced
    heavy = sweeps + fine + keysw
    cheap = beh + porta + rule + rnd + gen_pitch.reset_histories() + gen_pitch.cut_histories()
    random.Random(vc.seed() * 31 + 10).shuffle(cheap)
    random.Random(vc.seed() * 37 + 10).shuffle(heavy)
    histories = []
    step = max(1, len(cheap) // max(1, len(heavy)))
    ci = 0
    for s in heavy:
        histories.append(s)
        histories += cheap[ci:ci + step]; ci += step
    histories += cheap[ci:]
    # a hanging call costs its alarm: spread them over the chunks
    for i, h in enumerate(hang):
        histories.insert(((i + 1) * len(histories)) // (len(hang) + 1), h)
    failures, counters, stats = vtrace.run_histories(pid, "drive_pitch", "PitchTrace", histories, nchunks=NCHUNKS, marker=MARKER,
                                                     htimeout=1500, tlc_timeout=1200 if q else 3400)
    relabel(failures, histories)
    mruns = mfuture.result()
    bg.shutdown()
    vc.log("[C10] model runs: %s" % [(r.scope["name"], r.distinct, r.violation and r.bad, round(r.wall)) for r in mruns])
    vc.log("[C10] %d histories, %d records validated %.0fs (TLC cpu %.0fs)" % (len(histories), stats["records"], time.time() - t0, stats["tlc_wall"]))
    if stats["infra"]:
        print("INFRA:", stats["infra"][0][:2000])
        return 3

    labels = sorted({f.what for f in failures})
    code_hang = any(f.what == "hang-noteon-inf" for f in failures)
    code_sost = any(f.what == "bend-skips-sostenuto-keydown" for f in failures)
    for r in mruns:
        nm = r.scope["name"]
        if r.scope["expect_ok"]:
            if r.violation or not r.ok:
                print("MODEL-DRIFT: PitchMC %s reports %s %s (model-level result; not a verdict on the code)" % (nm, r.violation or ("rc=%s" % r.rc), r.bad))
        else:
            # the variant with the defect: its counterexample is a model-level result; the recorded executions decide
            # whether the library is this variant (then the defect is reported above as a VIOLATION) or the other one
            seen = code_hang if nm.startswith("loops") else code_sost
            if not r.violation:
                print("MODEL-DRIFT: PitchMC %s found no counterexample (the variant is expected to have one)" % nm)
            else:
                vc.log("[C10] PitchMC %s: counterexample %s; the real library %s" % (nm, r.bad, "shows it: the library is this variant" if seen
                       else "does not show it: the library is the other variant"))
    if code_hang and not any(r.scope["name"] == "loops-inf-unguarded" and r.violation for r in mruns):
        print("MODEL-DRIFT: the library hangs but no model variant does")
    if counters.get("drifted", 0) or stats.get("drift"):
        print("MODEL-DRIFT: %d of %d recorded frequency writes differ from the model of OPN2::noteOn in spec/Pitch.tla, %d other refinement notes "
              "(leg C); first: %s" % (counters.get("drifted", 0), counters.get("refined", 0), max(0, len(stats.get("drift", [])) - counters.get("drifted", 0)),
                                      json.dumps(stats.get("drift", [])[:2])[:1500]))
    okruns = [r for r in mruns if r.scope["expect_ok"]]
    cov = {
        "states": sum(r.distinct for r in mruns), "transitions": sum(r.generated for r in mruns),
        "traces_validated_against_impl": len(histories), "records_validated": stats["records"],
        "sweep_histories": len(sweeps), "fine_bend_histories": len(fine), "key_sweep_histories": len(keysw), "portamento_histories": len(porta),
        "exhaustive_short_histories": len(rule), "random_histories": len(rnd), "overflow_offset_histories": len(hang),
        "model_generated_behaviours_replayed": len(beh),
        "frequency_writes_judged_in_tune": counters.get("eval", 0), "frequency_writes_judged_by_range": counters.get("evalrange", 0),
        "monotone_pairs": counters.get("mono", 0), "bend_calls_judged_for_repitch": counters.get("repitch", 0),
        "refinement": {"writes_checked_against_model": counters.get("refined", 0), "drifted": counters.get("drifted", 0),
                       "first_drifts": stats.get("drift", [])[:5]},
        "monitor_counters": counters,
        "failure_labels_seen": labels,
        "evaluations": counters.get("eval", 0) + counters.get("evalrange", 0) + counters.get("repitch", 0),
        "distinct_nontrivial": counters.get("mono_strict", 0),
        "rule": "one evaluation = one recorded block/F-number write judged against the TLC-computed reference, or one pitch-bend call judged "
                "for the set of re-pitched notes; distinct_nontrivial = consecutive judged writes with different F-number * 2^block",
        "samples": checks.sample_histories(rnd, 1, 14) + [[{k: v for k, v in c.items() if k != "banks"} for c in sweeps[0][:22]]]
                   + checks.sample_histories(rule, 1, 12) + checks.sample_histories(porta, 1, 20),
        "model_runs": [{"scope": r.scope, "ok": r.ok, "violation": r.violation, "bad": r.bad, "distinct": r.distinct, "generated": r.generated,
                        "depth": r.depth, "wall_s": round(r.wall, 1)} for r in mruns],
        "exhaustive": False,
    }
    level = "model_checking" if cov["states"] > 0 and all(r.ok for r in okruns) else "exploration"
    return checks.conclude(pid, tier, level, histories, failures, rerun, cov, t0, ASSUME)
