"""C01: untrusted music data never crashes, corrupts memory or hangs the player.

leg A  spec/LoaderMC.tla    TLC enumerates input shapes (container x items x finisher x song number) of the loader
                            model spec/Loader.tla: (i) the model WITH the suggested guards (Repaired = TRUE) is
                            checked against SafeInv, (ii) the model of the code as it is emits every shape with the
                            outcome it predicts; the shapes become inputs of the real library
leg B  spec/LoaderTrace.tla property monitors evaluated by TLC on executions of the real library recorded by
                            harness/drive_loader.cpp (sanitizer build, one forked child per input): no crash /
                            exception / abort / hang, defined result, <= 5 s CPU and <= 512 MiB per call
leg C  spec/LoaderTrace.tla refinement: predicted outcome class (accept / reject / crash at site / resource)
                            of spec/Loader.tla for the recorded bytes against the observed one (MODEL-DRIFT only)"""
import json, os, random, re, time
import checks, vcommon as vc, vtrace, gen_loader

HARNESS, TRACE = "drive_loader", "LoaderTrace"
NCHUNKS = 8

MC_CFG = """SPECIFICATION Spec
CONSTANTS
  Repaired = %(rep)s
  Fams = {"misc", "trk", "mus", "xmi"}
  DepthTrk = %(dtrk)d
  DepthMus = %(dmus)d
  DepthXmi = %(dxmi)d
  Wide = %(wide)s
  EmitOn = %(emit)s
%(extra)s
CHECK_DEADLOCK FALSE
"""

ASSUME = [
    "memory-safety oracle = AddressSanitizer + bounds checks of the verification build (asserts on); a defect that corrupts memory without touching a redzone is not seen",
    "harness/drive_loader.cpp reports status, CPU time, peak resident set and the innermost library frame faithfully (fork per input, llvm-symbolizer for the frame)",
    "the caller's buffer is freed right after opn2_openData returns (the loader is expected to copy what it keeps)",
    "the byte strings come from TLC-enumerated shapes, seeded mutations and scaled run-length families; byte-level universality is not claimed",
    "TLC 1.8 evaluates Loader/LoaderTrace correctly; JSON traces round-trip integers < 2^31",
]


def jobs():
    try:
        return max(1, int(os.environ.get("VERIF_JOBS", str(vc.NCPU))))
    except ValueError:
        return vc.NCPU


def parse_shapes(out):
    shapes = []
    for m in re.finditer(r'^<<"SHAPE", "(.*)">>$', out, re.M):
        try:
            shapes.append(json.loads(json.loads('"' + m.group(1) + '"')))
        except ValueError:
            pass
    return shapes


def model_runs(q):
    """(shapes emitted by the as-is model, [emit run, invariant run of the repaired model])"""
    scope = {"dtrk": 2 if q else 3, "dmus": 2 if q else 3, "dxmi": 2 if q else 3, "wide": "FALSE"}
    cfg = checks.write_cfg("LoaderMC_emit.cfg", MC_CFG % dict(scope, rep="FALSE", emit="TRUE", extra="INVARIANT EmitInv"))
    r = vc.run_tlc("LoaderMC", cfg=cfg, timeout=3000, heap="12g", workers=jobs(), tag="LoaderMC-emit")
    r.scope = dict(scope, model="as-is (emits shapes)")
    shapes = parse_shapes(r.out)
    r.out = r.out[-3000:] if not shapes else ""
    cfg = checks.write_cfg("LoaderMC_rep.cfg", MC_CFG % dict(scope, rep="TRUE", emit="FALSE", extra="INVARIANT SafeInv"))
    r2 = vc.run_tlc("LoaderMC", cfg=cfg, timeout=3000, heap="12g", workers=jobs(), tag="LoaderMC-rep")
    r2.scope = dict(scope, model="repaired (INVARIANT SafeInv)")
    r2.out = r2.out[-3000:]
    return shapes, [r], [r2]


def brief(h, maxlen=10):
    out = []
    for c in h[:maxlen]:
        c = dict(c)
        for k in ("head", "tail"):
            if isinstance(c.get(k), list) and len(c[k]) > 48:
                c[k] = c[k][:48] + ["... %d more" % (len(c[k]) - 48)]
        out.append(c)
    return out


@checks.register("C01")
def check_c01(pid, tier, replay):
    t0 = time.time()
    q = tier == "quick"
    rng = random.Random(vc.seed() * 7919 + 1)

    def rerun(hist):
        hist = list(hist)
        if not hist or hist[-1].get("e") != "Done":        # conclude() re-runs the prefix up to the failing call
            hist.append({"e": "Done"})
        f, _, st = vtrace.run_histories(pid + "r", HARNESS, TRACE, [hist], nchunks=1, htimeout=300, tlc_timeout=300)
        if st["infra"]:
            print("INFRA (re-run):", st["infra"][0][:600])
        return f

    if replay:
        return checks.replay_one(pid, replay, rerun)

    # ---- leg A
    shapes, emit, inv = model_runs(q)
    if not shapes:
        print("INFRA: LoaderMC produced no shapes: %s" % (emit[0].out[-1500:] if emit else ""))
        return 3
    model_haz = {}
    uniq = {}
    for s in shapes:
        uniq[(bytes(s["b"]), s["sel"])] = s
    for s in uniq.values():
        if s["o"]["res"] in ("crash", "resource"):
            k = "%s@%s" % (s["o"]["res"], s["o"]["site"])
            model_haz[k] = model_haz.get(k, 0) + 1

    # ---- histories
    nshape = 2400 if q else 40000
    hs_shape, nuniq = gen_loader.shape_histories(shapes, rng, nshape, 0)
    hs_mut = gen_loader.mutation_histories(list(uniq.values()), rng, 800 if q else 20000, 100000)
    scaled = gen_loader.scaled_loads()
    hs_scaled = [gen_loader.with_followups(rng, ld, 200000 + i, k=(1, 3, 2)[i % 3]) for i, ld in enumerate(scaled)]
    hs_hand = []
    for i, (ld, sel) in enumerate(gen_loader.handwritten_loads()):
        for k in ((1, 2, 6, 9) if q else range(len(gen_loader.FOLLOW))):
            hs_hand.append(gen_loader.with_followups(rng, dict(ld), 300000 + i * 16 + k, sel=sel, k=k + len(gen_loader.FOLLOW) * (i % len(gen_loader.PRE))))
    parts = [("model_shapes", hs_shape), ("mutations", hs_mut), ("scaled_run_length", hs_scaled), ("hand_written", hs_hand)]
    histories = [h for (_, hs) in parts for h in hs]
    random.Random(vc.seed()).shuffle(histories)         # balance the chunks
    failures, counters, stats = vtrace.run_histories(pid, HARNESS, TRACE, histories, nchunks=NCHUNKS, htimeout=1500 if q else 6000,
                                                     tlc_timeout=1500 if q else 6000)
    if stats["infra"]:
        print("INFRA:", stats["infra"][0][:2000])
        return 3

    for r in inv:
        if r.violation or not r.ok:
            print("MODEL-DRIFT: LoaderMC %s: the repaired model still has a hazard: %s" % (r.scope, r.violation or ("rc=%s %s" % (r.rc, r.out[-400:]))))
    if model_haz:
        print("NOTE model (code as it is): %d of %d shapes end in a hazard: %s" % (sum(model_haz.values()), len(uniq),
              ", ".join("%s x%d" % kv for kv in sorted(model_haz.items()))))
    if counters.get("drifted", 0):
        print("MODEL-DRIFT: %d of %d predicted outcomes differ from the observed ones (refinement leg C): %s"
              % (counters["drifted"], counters.get("refined", 0), json.dumps(stats.get("drift", [])[:3])))
    coverage = {
        "states": sum(r.distinct for r in emit + inv), "transitions": sum(r.generated for r in emit + inv),
        "model_shapes_enumerated": nuniq, "model_hazards_as_is": model_haz,
        "traces_validated_against_impl": len(histories), "records_validated": stats["records"],
        "history_classes": {k: len(v) for (k, v) in parts},
        "refinement": {"outcomes_checked_against_model": counters.get("refined", 0), "outcomes_drifted": counters.get("drifted", 0),
                       "first_drifts": stats.get("drift", [])[:5]},
        "monitor_counters": counters,
        "evaluations": counters.get("st_evals", 0), "distinct_nontrivial": counters.get("loads", 0),
        "rule": "one evaluation per executed API call (status monitor); distinct = loads of distinct byte strings (TLC shapes, seeded mutations, scaled families, corner files), each with a follow-up call sequence",
        "samples": [brief(h) for h in (hs_shape[:2] + hs_mut[:1] + hs_scaled[:1] + hs_hand[:1])],
        "model_runs": [{"scope": r.scope, "ok": r.ok, "violation": r.violation, "distinct": r.distinct, "generated": r.generated,
                        "wall_s": round(r.wall, 1)} for r in emit + inv],
        "exhaustive": False,
    }
    return checks.conclude(pid, tier, "exploration", histories, failures, rerun, coverage, t0, ASSUME, max_report=12)
