"""C17: container / converter front-ends preserve the music (RMI, GMF, MUS, XMI).

leg A  spec/ConvImplMC.tla for EVERY score of <= MaxLen events over an alphabet with every event type TLC checks that
                           play(Mus2Mid(encode(score))) conforms to MusRef(score) and play(Xmi2Mid(encode(file))) to
                           XmiRef(file): spec/Mus2Mid.tla and spec/Xmi2Mid.tla are implementation-shaped models of
                           src/cvt_mus2mid.hpp / src/cvt_xmi2mid.hpp, play is the reference SMF semantics (SmfRef) with exact
                           times, the judges are the monitors of leg B; the listed findings F16c / F16d are reproduced by
                           the model and classified `known`, anything else violates INVARIANT NoBad
       spec/ConvMC.tla     self-consistency of the reference interpreters spec/MusRef.tla and spec/XmiRef.tla over the same
                           enumerations: channel-map injectivity, one event per score event, remembered volume, note-off
                           pairing, schedule monotone, byte layout decodes back to the score
leg B  spec/ConvTrace.tla  property monitors evaluated by TLC on executions of the real library recorded by
                           harness/drive_conv.cpp: abstract MUS scores / XMI files / SMF songs are encoded to bytes, loaded
                           with opn2_openData, played tick-driven in exact stepping; the raw-event-hook deliveries are judged
                           against MusRef / XmiRef / SmfRef (events per tick group, times, selected song, songs count,
                           wrapped = bare)
leg C  spec/ConvTrace.tla  refinement (drift only, never a verdict): the harness command Cvt calls Convert_mus2midi /
                           Convert_xmi2midi_multi directly on the encoded bytes and records the produced SMF in abstract form;
                           TLC compares it with Mus2Mid / Xmi2Mid applied to the same bytes (first differing event)."""
import json, os, random, re, time
import checks, vcommon as vc, vtrace, gen_conv

HARNESS, TRACE = "drive_conv", "ConvTrace"

MC_CFG = """SPECIFICATION Spec
CONSTANTS
  Fmt = "%(fmt)s"
  MaxLen = %(n)d
INVARIANT NoBad
CHECK_DEADLOCK FALSE
"""

ASSUME = [
    "harness/drive_conv.cpp encodes the abstract MUS score / XMI file / SMF song to bytes; for MUS and XMI the recorded bytes are re-derived by TLC from the format layout in MusRef!MusBytes / XmiRef!XmiBytes (label 'harness-encoder' = infrastructure error), the SMF/RMI/GMF encoder (~60 lines, shared with drive_seq) is trusted",
    "the raw-event hook shows every event the sequencer hands to the synthesizer, stamped with opn2_positionTell (song time); playback is driven by opn2_tickEvents in exact stepping",
    "tolerated converter artefacts in MUS playback: tempo metas of any content, one CC7=100 for the percussion channel at time 0 and one per melodic MUS channel at its first use; the time of the End-of-Track record is not constrained (at-end must be reached)",
    "release velocities and the value byte of MUS channel-mode messages (CC120-127) are not defined by the source formats and are not compared",
    "GMF is generated in two shapes (track body with its End-of-Track; track body ending with the End-of-Track's delta time only, the shape the library's own end tag completes); RMI as RIFF/RMID/data (+ optional trailing LIST chunk)",
    "TLC 1.8 evaluates MusRef/XmiRef/SmfRef/ConvTrace correctly; JSON traces round-trip integers < 2^31 (times saturate at 2147 s)",
    "leg C: the harness calls the converter functions with the arguments parseMUS / parseXMI pass (frequency 0; image + 20 zero bytes, XMIDI_CONVERT_NOCONVERSION) and its SMF reader (~45 lines) turns their output into <<delta, status, data...>> lists",
    "leg A plays the model's SMF with the reference SMF semantics (SmfRef) and exact rational times, not with the sequencer model Seq.tla: ordering inside a tick and the lone-End-of-Track rule are C07's subject",
]


def jobs():
    """parallel chunks: at most 8 (the machine is shared: default 6)"""
    try:
        return max(1, min(8, int(os.environ.get("VERIF_JOBS", "6"))))
    except ValueError:
        return 6


def model_phase(q):
    runs = []
    # implementation models against the references (the leg-A result proper)
    for fmt in ("mus", "xmi"):
        tier = "quick" if q else "thorough"
        r = vc.run_tlc("ConvImplMC", cfg="ConvImplMC_%s_%s.cfg" % (fmt, tier), timeout=300 if q else 3000, heap="8g", workers=jobs(),
                       tag="ConvImplMC-" + fmt, extra=["-noGenerateSpecTE"])
        r.scope = {"module": "ConvImplMC", "format": fmt,
                   "alphabet_1": {"what": "ConvMC enumeration", "symbols": 42 if fmt == "mus" else 33, "max_events": (3 if fmt == "mus" else 2) if q else 3},
                   "alphabet_2": {"what": "controller / status table, range extremes, multi-byte delays", "symbols": 92 if fmt == "mus" else 78,
                                  "max_events": 2 if q else 3},
                   "tempi": [500000, 480000] if fmt == "xmi" else None}
        r.witnesses = [ln.strip().strip('"').replace('\\"', '"') for ln in r.out.splitlines() if "WITNESS" in ln and ln.lstrip().startswith('"')]
        runs.append(r)
    # self-consistency of the reference interpreters
    for fmt in ("mus", "xmi", "session"):
        n = (4 if q else 5) if fmt == "session" else (3 if q else 4)
        cfg = checks.write_cfg("ConvMC_%s_%d.cfg" % (fmt, n), MC_CFG % {"fmt": fmt, "n": n})
        r = vc.run_tlc("ConvMC", cfg=cfg, timeout=3000, heap="8g", workers=jobs(), tag="ConvMC-" + fmt)
        r.scope = {"module": "ConvMC", "format": fmt, "max_events": n, "alphabet": 42 if fmt == "mus" else 12 if fmt == "session" else 30}
        r.witnesses = []
        runs.append(r)
    return runs


def model_counterexample(out):
    """the state TLC prints for a violated NoBad: the score prefix and the labels"""
    a = re.findall(r"Assumption line \d+.*? is false", out)
    if a:
        return a[0] + " (a pinned witness of the converter model no longer evaluates as recorded)"
    m = re.findall(r"/\\ bad = (\{[^\n]*\})", out)
    sc = re.findall(r"/\\ sc = (<<.*?>>)\n/\\", out, re.S)
    return "bad = %s for sc = %s" % (m[-1] if m else "?", re.sub(r"\s+", " ", sc[-1])[:400] if sc else "?")


def make_histories(rng, q):
    parts = []
    # the ConvMC alphabets replayed on the real library (defect-triggering shapes separately, so that they stay few)
    parts.append(("mus_exhaustive_short", [gen_conv.mus_history(s) for s in gen_conv.mus_exhaustive(2)]))
    parts.append(("mus_exhaustive_all_shapes", [gen_conv.mus_history(s) for s in gen_conv.mus_exhaustive(1, skip=(), pitch_even=False)]))
    parts.append(("xmi_exhaustive_short", [[gen_conv.INIT, f, gen_conv.CVT, {"e": "Load"}, {"e": "Play"}] for f in gen_conv.xmi_exhaustive(2)]))
    mus = []
    for i in range(260 if q else 4000):
        nev = rng.choice([1, 3, 8, 20, 40] if q else [1, 3, 8, 20, 40, 80, 150])
        mus.append(gen_conv.mus_history(gen_conv.mus_score(rng, nev, allow_sys=rng.random() < 0.12, allow_odd=rng.random() < 0.3)))
    # the full channel range: 15 melodic channels + percussion
    for i in range(12 if q else 120):
        mus.append(gen_conv.mus_history(gen_conv.mus_score(rng, 60, nchan=15, perc=True)))
    parts.append(("mus_random", mus))
    # delays at the limit of an SMF delta time (convert only: 2^28 ticks are 22 days): 2^28 - 1 must convert, 2^28 is the
    # smallest delay for which the model predicts the crash of mus2mid_writevarlen
    parts.append(("mus_delay_limit", [[gen_conv.INIT, {"e": "Mus", "chans": 1, "ins": [], "ev": [
        {"k": "rel", "ch": 0, "n": 60, "dl": d}, {"k": "end", "ch": 0, "dl": 0}]}, gen_conv.CVT] for d in (2097152, 268435455, 268435456)]))
    parts.append(("mus_malformed_convert_only", [gen_conv.mus_malformed_history(rng, rng.choice([1, 3, 8, 20])) for _ in range(300 if q else 3000)]))
    xmi = []
    for i in range(200 if q else 3000):
        odd = rng.random() < 0.08
        f = gen_conv.xmi_file(rng, nev=rng.choice([2, 6, 14, 30] if q else [2, 6, 14, 30, 80]), bank127=rng.random() < 0.08,
                              tempo=rng.choice([480000, 545454, 428571, 300001]) if odd else None)
        xmi.append(gen_conv.xmi_history(rng, f))
    parts.append(("xmi_random", xmi))
    parts.append(("rmi_gmf_wrappings", [gen_conv.container_history(rng, maxev=10 if q else 24) for _ in range(140 if q else 2000)]))
    # several files in a row on ONE player: every load is judged like a single load (own generator stream: the classes above stay as they were)
    srng = random.Random(vc.seed() * 104729 + 171)
    sess = gen_conv.session_pairs(srng) if q else [h for _ in range(8) for h in gen_conv.session_pairs(srng)]
    for i in range(30 if q else 1200):
        sess.append(gen_conv.session_history(srng, nfiles=srng.choice([2, 3, 3, 4] if q else [2, 3, 4, 5, 6, 8]), nev=srng.choice([3, 6] if q else [3, 6, 14, 30])))
    parts.append(("sessions_several_files_on_one_player", sess))
    return parts


def relabel_crashes(failures, histories):
    """A crash / sanitizer report while loading a MUS score that contains a system event is a consequence of the converter
    losing byte synchronisation there (garbage delays): its own defect class, so that a matcher can target it."""
    for f in failures:
        if f.prop == "CRASH" and "mus2mid_writevarlen" in (f.detail or ""):
            # a MUS delay of five or more base-128 digits (>= 2^28 ticks): the int32 scratch value of mus2mid_writevarlen turns
            # negative, its output loop never terminates inside temp_buffer[32] (cvt_mus2mid.hpp:211 from :337);
            # spec/Mus2Mid.tla predicts it (result `crash`)
            f.what = "mus-delay-overflow-crash"
            f.event = "Cvt" if any(c.get("e") == "Cvt" for c in histories[f.history][:f.step + 1]) else "Load"
            f.detail = ("stack-buffer-overflow in mus2mid_writevarlen (src/cvt_mus2mid.hpp:211 called from Convert_mus2midi :337): a MUS delay of "
                        ">= 2^28 ticks (five base-128 digits) makes its int32 scratch value negative and the output loop runs past temp_buffer[32] | "
                        + (f.detail or "")[-400:])
        elif f.prop == "CRASH" and 0 <= f.history < len(histories):
            h = histories[f.history]
            if any(c.get("e") == "Mus" and any(e.get("k") == "sys" for e in c.get("ev", [])) for c in h):
                f.what = "mus-system-event-crash"
    return failures


def sample(hs, n=2):
    out = []
    for h in hs[:n]:
        hh = []
        for c in h:
            c = dict(c)
            if "tracks" in c: c["tracks"] = "<%d tracks>" % len(c["tracks"])
            hh.append(c)
        out.append(hh)
    return out


@checks.register("C17")
def check_c17(pid, tier, replay):
    t0 = time.time()
    q = tier == "quick"
    rng = random.Random(vc.seed() * 7919 + 17)

    def rerun(hist):
        f, _, _ = vtrace.run_histories(pid + "r", HARNESS, TRACE, [hist], nchunks=1)
        return relabel_crashes(f, [hist])

    if replay:
        return checks.replay_one(pid, replay, rerun)

    parts = make_histories(rng, q)
    histories = [h for (_, hs) in parts for h in hs]
    byname = dict(parts)
    samples = sample(byname["mus_random"], 1) + sample(byname["xmi_random"], 1) + sample(byname["rmi_gmf_wrappings"], 1) + \
        sample(byname["mus_exhaustive_short"][40:], 1) + sample(byname["mus_malformed_convert_only"], 1) + \
        sample(byname["sessions_several_files_on_one_player"][1:], 1)
    random.Random(vc.seed()).shuffle(histories)       # balance the chunks
    failures, counters, stats = vtrace.run_histories(pid, HARNESS, TRACE, histories, nchunks=jobs(), tlc_timeout=2400)
    if stats["infra"]:
        print("INFRA:", stats["infra"][0][:2000])
        return 3
    relabel_crashes(failures, histories)
    enc = [f for f in failures if f.what == "harness-encoder"]
    if enc:
        print("INFRA: the harness encoder disagrees with the byte layout of the reference: %r" % enc[0])
        return 3

    mruns = model_phase(q)
    c = counters
    coverage = {
        "states": sum(r.distinct for r in mruns), "transitions": sum(r.generated for r in mruns),
        "traces_validated_against_impl": len(histories), "records_validated": stats["records"],
        "history_classes": {k: len(v) for (k, v) in parts},
        "monitor_counters": counters,
        "evaluations": c.get("musGroups", 0) + c.get("xmiGroups", 0) + c.get("contPlays", 0),
        "distinct_nontrivial": c.get("musPlays", 0) + c.get("xmiPlays", 0) + c.get("contPlays", 0),
        "rule": "one evaluation per tick group of a played MUS score / XMI sequence (delivered events of the group against the reference "
                "events of the tick, and its time) and per wrapped-song play; every history is a distinct generated source",
        "samples": samples,
        "model_runs": [{"scope": r.scope, "ok": r.ok, "violation": r.violation, "distinct": r.distinct, "generated": r.generated,
                        "wall_s": round(r.wall, 1)} for r in mruns],
        "model_known_witnesses": [w for r in mruns for w in r.witnesses],
        "refinement": {"converter_outputs_checked_against_model": c.get("refined", 0), "mus": c.get("refMus", 0), "xmi": c.get("refXmi", 0),
                       "songs": c.get("refSongs", 0), "smf_events_compared": c.get("refEvents", 0), "skipped": c.get("refskip", 0),
                       "rejections_agreed": c.get("refRejected", 0), "drifted": c.get("drifted", 0), "first_drifts": stats.get("drift", [])[:5]},
        "sessions": {"what": "several files in a row on ONE player, each load judged like a single load (spec/XmiRef.tla Sess*, model-checked by ConvMC Fmt=session)",
                     "loads_after_an_earlier_load": c.get("sessLoads", 0), "xmi_after_xmi": c.get("sessXmiAfterXmi", 0),
                     "xmi_after_mus_or_smf": c.get("sessXmiAfterOther", 0), "mus_or_smf_after_xmi": c.get("sessOtherAfterXmi", 0),
                     "accepted_after_a_rejected_file": c.get("sessAfterRejected", 0), "files_cut_short": c.get("sessCutShort", 0),
                     "song_counts_judged": c.get("sessCounts", 0), "plays_judged": c.get("sessPlays", 0), "xmi_plays_judged": c.get("sessXmiPlays", 0),
                     "xmi_plays_of_a_song_other_than_0": c.get("sessSelPlays", 0), "plays_with_more_than_one_reading_of_the_selection": c.get("sessOpenSel", 0)},
        "exhaustive": False,
    }
    for r in mruns:
        if r.violation or not r.ok:
            if r.scope["module"] == "ConvImplMC":
                print("MODEL-DRIFT: ConvImplMC %s reports %s: %s (the converter MODEL does not conform to the reference; not a verdict on the code)"
                      % (r.scope, r.violation or ("rc=%s" % r.rc), model_counterexample(r.out) if (r.violation or "Assumption line" in r.out) else r.out[-300:].replace("\n", " ")))
            else:
                print("MODEL-DRIFT: ConvMC %s reports %s (the reference interpreter is inconsistent with itself; not a verdict on the code)"
                      % (r.scope, r.violation or ("rc=%s" % r.rc)))
    ncrash = len({f.history for f in failures if f.what == "mus-delay-overflow-crash"})
    coverage["refinement"]["crashes_predicted_by_model"] = c.get("refCrashPredicted", 0)
    coverage["refinement"]["crashes_observed_in_mus2mid_writevarlen"] = ncrash
    # scores whose delay arithmetic overflows int32 (undefined in C, `unmodelled` in the model) may or may not crash
    coverage["refinement"]["scores_with_undefined_delay_arithmetic"] = c.get("refUndefined", 0)
    if not (c.get("refCrashPredicted", 0) <= ncrash <= c.get("refCrashPredicted", 0) + c.get("refUndefined", 0)):
        print("MODEL-DRIFT: spec/Mus2Mid.tla predicts a crash of mus2mid_writevarlen for %d recorded scores (+ %d with undefined int32 overflow), %d were observed (refinement leg C)"
              % (c.get("refCrashPredicted", 0), c.get("refUndefined", 0), ncrash))
    if c.get("drifted", 0):
        print("MODEL-DRIFT: %d of %d recorded converter outputs differ from spec/Mus2Mid.tla / spec/Xmi2Mid.tla (refinement leg C); first: %s"
              % (c["drifted"], c.get("refined", 0), json.dumps(stats.get("drift", [])[:2])))
    level = "model_checking" if coverage["states"] > 0 else "exploration"
    return checks.conclude(pid, tier, level, histories, failures, rerun, coverage, t0, ASSUME, max_report=8)
