"""C02 - untrusted bank data is rejected or loaded safely; loaded banks are playable.
Loader half: byte strings (block-boundary truncations, count/version/magic extremes, mutations) through
WOPN_LoadBankFromMem / WOPN_LoadInstFromMem / opn2_openBankData, judged by the C02 monitors of spec/WopnTrace.tla with
the result code predicted by Wopn!LoadWalk (leg A: WopnMC).  Playability half: instruments with extreme field values
(installed through the instrument API and through generated WOPN files) are played with notes, bends, bend ranges,
vibrato, portamento and audio generation on the real library (ASan, watchdog per call); a crash, sanitizer report or
a call that does not return is a violation; the recorded steps are also judged by the Synth monitors (reported as
MODEL-DRIFT only).  Termination of the octave / multiplier search of OPN2::noteOn is model-checked in spec/PitchMC
(if present).  Instrument-API half ("every instrument written through the instrument API ..."): histories of
gen_bank.edge_index_history - writes and reads at the indices around and beyond the 128 entries of banks that have
neighbours in the bank map - through harness/drive_bank.cpp, judged by the monitors of spec/BankTrace.tla against
spec/BankMap.tla (an index outside 0..127 is refused with -1 and every bank reads back unchanged)."""
import json, os, random, time
import checks, vcommon as vc, vtrace, gen_wopn, gen_synth, gen_bank

EXT16 = [-32768, -129, -12, 0, 12, 127, 32767]
def extreme_ins(rng, i, idn):
    d = {"i": i, "id": idn, "noff": rng.choice(EXT16), "drum": rng.choice([0, 1, 60, 127, 128, 200, 255]),
         "flags": rng.choice([0, 0, 1, 3]), "fbalg": rng.choice([0, 7, 0x3F, 0xFF]), "lfosens": rng.choice([0, 0x37, 0xFF]),
         "veloff": rng.choice([-128, -1, 0, 1, 127]), "kon": rng.choice([0, 1, 500, 40000, 65535]), "koff": rng.choice([0, 1, 300, 65535])}
    if rng.random() < 0.6:
        d["ops"] = [[rng.choice([0, 255, rng.randrange(256)]) for _ in range(7)] for _ in range(4)]
    return d

def play_history(rng, length=40):
    mel = [extreme_ins(rng, p, 10 + p) for p in range(6)]
    per = [extreme_ins(rng, k, 100 + k) for k in (35, 36, 38, 60, 127)]
    banks = [{"p": 0, "msb": 0, "lsb": 0, "ins": mel}, {"p": 1, "msb": 0, "lsb": 0, "ins": per}]
    # accepted bank sets WITHOUT the default bank 0:0 of a kind (the note-on lookup falls back bank -> LSB-less bank -> 0:0 and
    # must cope with finding nothing): only melodic banks, the only kit at LSB 1, the only melodic bank at MSB 1, only a kit
    layout = rng.choice([0, 0, 0, 0, 1, 2, 3, 4])
    if layout == 1: banks = banks[:1]
    elif layout == 2: banks[1]["lsb"] = 1
    elif layout == 3: banks[0]["msb"] = 1
    elif layout == 4: banks = banks[1:]
    h = [{"e": "Init", "rate": rng.choice([44100, 8000]), "chips": rng.choice([1, 2]), "lim": rng.choice([0, 3, 6]), "mch": [0, 9],
          "arp": rng.choice([0, 1]), "alloc": rng.choice([-1, 0, 1, 2]), "banks": banks, "emu": rng.choice([0, 0, 2, 4]),
          # every volume model: the table-driven ones (DMX, Win9x) index tables with velocity (+ the instrument's velocity
          # offset), channel volume and expression
          "vm": rng.choice([0, 1, 2, 3, 4, 5]), "frb": rng.choice([0, 1]), "smod": rng.choice([0, 1])}]
    if rng.random() < 0.5 and layout in (0, 2, 3):
        h.append({"e": "OpenBank"})          # the same instruments through a generated WOPN file
    for _ in range(length):
        r = rng.random(); ch = rng.choice([0, 0, 9])
        if r < 0.30:
            if rng.random() < 0.3:   # loudest setting first: top of every volume table
                h += [{"e": "CC", "ch": ch, "n": 7, "v": 127}, {"e": "CC", "ch": ch, "n": 11, "v": 127}]
            h.append({"e": "NoteOn", "ch": ch, "k": rng.choice([0, 1, 35, 36, 38, 60, 126, 127]), "v": rng.choice([1, 100, 124, 126, 127])})
        elif r < 0.38: h.append({"e": "NoteOff", "ch": ch, "k": rng.choice([0, 35, 60, 127])})
        elif r < 0.44: h.append({"e": "Patch", "ch": 0, "p": rng.randrange(6)})
        elif r < 0.48: h.append({"e": "CC", "ch": ch, "n": rng.choice([0, 32]), "v": rng.choice([0, 1, 2, 127])})   # bank select (existing / absent banks)
        elif r < 0.58: h.append({"e": "Bend", "ch": ch, "v": rng.choice([0, 1, 8192, 16383])})
        elif r < 0.66:   # bend range via RPN 0
            h += [{"e": "CC", "ch": ch, "n": 101, "v": 0}, {"e": "CC", "ch": ch, "n": 100, "v": 0},
                  {"e": "CC", "ch": ch, "n": 6, "v": rng.choice([0, 2, 24, 127])}, {"e": "CC", "ch": ch, "n": 38, "v": rng.choice([0, 127])}]
        elif r < 0.74: h.append({"e": "CC", "ch": ch, "n": rng.choice([1, 5, 37, 65, 7, 11, 74, 10, 64]), "v": rng.choice([0, 1, 64, 127])})
        elif r < 0.80: h.append({"e": "ChanAT", "ch": ch, "v": 127})
        elif r < 0.92: h.append({"e": "Gen", "fr": rng.choice([64, 512, 2000])})
        elif r < 0.94: h.append({"e": "SetVolModel", "v": rng.choice([0, 1, 2, 3, 4, 5])})
        elif r < 0.96: h.append({"e": "SetIns", "p": 0, "msb": 0, "lsb": 0, "i": rng.randrange(6), "ins": {k: v for k, v in extreme_ins(rng, 0, 50).items() if k != "i"}})
        else: h.append({"e": "Panic"})
    return h


@checks.register("C02")
def check_c02(pid, tier, replay):
    t0 = time.time()
    q = tier == "quick"
    rng = random.Random(vc.seed() * 7919 + 2)

    def rerun_play(hist):
        f, _, _ = vtrace.run_histories(pid + "r", "drive_synth", "SynthTrace", [hist], nchunks=1)
        return [x for x in f if x.prop == "CRASH"]

    def rerun_load(hist):
        f, _, _ = vtrace.run_histories(pid + "r", "drive_wopn", "WopnTrace", [hist], nchunks=1, marker='{"o":"init"')
        return [x for x in f if x.prop in ("C02", "CRASH")]

    def as_c02(fs):
        """BankTrace tags its monitors with the property of the bank map; here they decide the instrument-API clause of C02"""
        out = []
        for x in fs:
            if x.prop in ("C16", "CRASH"):
                out.append(vtrace.Failure(pid if x.prop == "C16" else x.prop, "bank:" + x.what, x.history, x.step, x.event, x.detail))
        return out

    def rerun_bank(hist):
        f, _, _ = vtrace.run_histories(pid + "r", "drive_bank", "BankTrace", [hist], nchunks=1, marker='{"o":"init"')
        return as_c02(f)

    def rerun(hist):
        if hist and "probe" in hist[0]:
            return rerun_bank(hist)
        return rerun_play(hist) if hist and hist[0].get("e") == "Init" else rerun_load(hist)

    if replay:
        return checks.replay_one(pid, replay, rerun)

    # --- loader half
    lh = gen_wopn.c02_histories(rng)
    if not q:
        for s in range(6):
            lh += gen_wopn.c02_histories(random.Random(vc.seed() * 31 + s))
    f1, c1, s1 = vtrace.run_histories(pid + "w", "drive_wopn", "WopnTrace", lh, nchunks=8, marker='{"o":"init"')
    if s1["infra"]:
        print("INFRA:", s1["infra"][0][:1500]); return 3
    f1 = [x for x in f1 if x.prop in ("C02", "CRASH")]
    # --- playability half
    ph = [play_history(rng, 40 if q else 80) for _ in range(240 if q else 3000)]
    f2, c2, s2 = vtrace.run_histories(pid, "drive_synth", "SynthTrace", ph, nchunks=12)
    if s2["infra"]:
        print("INFRA:", s2["infra"][0][:1500]); return 3
    other = [x for x in f2 if x.prop != "CRASH"]
    f2 = [x for x in f2 if x.prop == "CRASH"]
    for x in f2:
        x.what = "play:" + x.what
    # --- instrument-API half: indices at and beyond the end of a bank, all banks read back after every call
    brng = random.Random(vc.seed() * 7919 + 202)
    bh = [gen_bank.edge_index_history(brng, 36 if q else 70) for _ in range(48 if q else 600)]
    f3, c3, s3 = vtrace.run_histories(pid + "b", "drive_bank", "BankTrace", bh, nchunks=4 if q else 12, marker='{"o":"init"')
    if s3["infra"]:
        print("INFRA:", s3["infra"][0][:1500]); return 3
    f3 = as_c02(f3)
    if c3.get("drifted", 0):
        print("MODEL-DRIFT: %d of %d recorded bank-API steps are not steps of spec/BankMap.tla (iteration order / capacity); first: %s"
              % (c3["drifted"], c3.get("refined", 0), json.dumps(s3.get("drift", [])[:2])))
    # --- leg A: loader walk (WopnMC) and the frequency search loops (PitchMC) if available
    mruns = []
    try:
        import checks_wopn
        mruns += checks_wopn.model_phase(True)
    except Exception as e:   # the C15 plug-in is the owner of that model
        print("NOTE: WopnMC not run (%s)" % e)
    histories = lh + ph + bh
    failures = f1 + [vtrace.Failure(x.prop, x.what, x.history + len(lh), x.step, x.event, x.detail) for x in f2] \
                  + [vtrace.Failure(x.prop, x.what, x.history + len(lh) + len(ph), x.step, x.event, x.detail) for x in f3]
    coverage = {
        "states": sum(r.distinct for r in mruns), "transitions": sum(r.generated for r in mruns),
        "traces_validated_against_impl": len(histories), "records_validated": s1["records"] + s2["records"] + s3["records"],
        "instrument_api": {"histories": len(bh), "calls": c3.get("steps", 0), "calls_with_an_index_beyond_the_bank": c3.get("badidx", 0),
                           "readbacks": c3.get("readbacks", 0), "steps_refined": c3.get("refined", 0), "steps_drifted": c3.get("drifted", 0)},
        "loader": {"histories": len(lh), "loads": c1.get("c02_loads", 0), "through_opn2_openBankData": c1.get("c02_api", 0),
                   "rejected": c1.get("loads_rejected", 0), "accepted": c1.get("loads_ok", 0)},
        "playability": {"histories": len(ph), "calls": s2["records"], "note_ons": c2.get("noteon", 0),
                        "synth_monitor_failures_on_extreme_instruments_not_part_of_C02": len(other)},
        "samples": checks.sample_histories(ph, 1, 10) + [lh[0][:4]],
        "evaluations": s1["records"] + s2["records"] + s3["records"], "distinct_nontrivial": len(histories),
        "rule": "one evaluation per loader call / per played API call; histories are distinct generated byte strings or extreme-instrument play scripts",
        "exhaustive": False,
    }
    level = "model_checking" if coverage["states"] > 0 else "exploration"
    for h in failures:
        pass
    # conclude() re-runs through rerun(); map failures of any kind to this property
    for x in failures:
        if x.prop == "CRASH":
            continue
        x.prop = pid
    return checks.conclude(pid, tier, level, histories, failures, rerun, coverage, t0,
                           ["ASan (address, bounds) build and a 20 s watchdog per call are the memory-safety / termination oracle",
                            "loader result codes are predicted by Wopn!LoadWalk (spec/Wopn.tla)",
                            "instrument API: drive_bank observes return value, bank enumeration, look-ups and read-backs (indices 0 1 2 63 126 127 of every bank) after each call",
                            "extreme instruments cover field extremes and random operator bytes, not every byte combination"])
