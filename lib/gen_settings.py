"""Call histories for C18 (settings are transactional): sequences of setter / getter / reset / load calls
with in-range, boundary (0, 1, 100, 101, -1, INT_MIN, INT_MAX) and invalid arguments, each followed by
probes (opn2_reset + rendered phrase, playback of the loaded song with hooks).  Commands are consumed
by harness/drive_settings.cpp; the expectations live in spec/Settings.tla."""
import itertools, random

INT_MAX = 2147483647
INT_MIN = -2147483648
BOUNDARY = [0, 1, 100, 101, -1, INT_MIN, INT_MAX]
INIT = {"e": "Init", "rate": 44100}
PROBE = {"e": "Probe"}
PLAY = {"e": "PlaySong"}


def V(e, v):
    return {"e": e, "v": v}


def mc_ops():
    """Same list, same order as Ops in spec/SettingsMC.tla (BEHAVIOUR lines are indices into it)."""
    return [
        V("SetNumChips", 0), V("SetNumChips", 1), V("SetNumChips", 100), V("SetNumChips", 101), V("SetNumChips", -1), V("SetNumChips", 3),
        V("SwitchEmulator", 1), V("SwitchEmulator", 5), V("SwitchEmulator", 9), V("SwitchEmulator", -1), V("SwitchEmulator", INT_MAX),
        V("SetVolModel", 0), V("SetVolModel", 3), V("SetVolModel", 100),
        V("SetAlloc", 1), V("SetAlloc", 101),
        V("SetLfo", 1), V("SetLfo", -1), V("SetLfoFreq", 6), V("SetLfoFreq", -1),
        V("SetChipType", 1), V("SetChipType", -1),
        V("SetScaleMod", 1), V("SetFullBright", 1), V("SetArp", 1), V("SetSoftPan", 1), V("SetRunAtPcm", 1),
        V("SetDevId", 15), V("SetDevId", 16), V("SetDevId", -1),
        V("SetLoop", 1), V("SetLoopCount", 2), V("SetHooksOnly", 1), V("SetHooksOnly", 0), V("SelectSong", 1),
        {"e": "SetTempo", "num": 2, "den": 1}, {"e": "SetTempo", "num": 0, "den": 1},
        {"e": "TrackOpt", "t": 1, "o": 2}, {"e": "TrackOpt", "t": 2, "o": 2}, {"e": "TrackOpt", "t": 0, "o": 3}, {"e": "TrackOpt", "t": 1, "o": 6},
        {"e": "ChanEn", "c": 1, "en": 0}, {"e": "ChanEn", "c": 16, "en": 0},
        {"e": "SetHook", "h": "raw", "on": 1}, {"e": "SetHook", "h": "ls", "on": 1}, {"e": "SetHook", "h": "ls", "on": 0},
        {"e": "Reset"},
        {"e": "OpenBank", "b": 1, "bad": 0}, {"e": "OpenBank", "b": 2, "bad": 0}, {"e": "OpenBank", "b": 1, "bad": 1},
        {"e": "OpenMidi", "s": 1, "bad": 0}, {"e": "OpenMidi", "s": 2, "bad": 0}, {"e": "OpenMidi", "s": 1, "bad": 1},
        {"e": "OpenMidi", "s": 3, "bad": 0},
        {"e": "OpenMidi", "s": 4, "bad": 0}, {"e": "OpenMidi", "s": 7, "bad": 5},
        V("SwitchEmulator", 7),
    ]


# argument pools: documented values first, then the boundary / invalid classes
POOLS = {
    "SetNumChips": [1, 2, 3, 4, 100] + [0, 101, -1, INT_MIN, INT_MAX],
    "SwitchEmulator": [0, 1, 2, 3, 4, 5, 6, 8] + [9, 31, 32, 100, 101, -1, INT_MIN, INT_MAX],
    "SetVolModel": [0, 1, 2, 3, 4, 5] + [6, 100, 101, -1, INT_MIN, INT_MAX],
    "SetAlloc": [-1, 0, 1, 2] + [3, 100, 101, INT_MIN, INT_MAX],
    "SetLfo": [-1, 0, 1] + [100, 101, INT_MIN, INT_MAX],
    "SetLfoFreq": [-1, 0, 1, 3, 7] + [8, 100, 101, INT_MIN, INT_MAX],
    "SetChipType": [-1, 0, 1] + [2, 100, 101, INT_MIN, INT_MAX],
    "SetScaleMod": [0, 1] + [100, 101, -1, INT_MIN, INT_MAX],
    "SetFullBright": [0, 1] + [100, 101, -1, INT_MIN, INT_MAX],
    "SetArp": [0, 1] + [100, 101, -1, INT_MIN, INT_MAX],
    "SetSoftPan": [0, 1] + [100, 101, -1, INT_MIN, INT_MAX],
    "SetRunAtPcm": [0, 1] + [100, 101, -1, INT_MIN, INT_MAX],
    "SetDevId": [0, 1, 7, 15] + [16, 100, 101, -1, INT_MIN, INT_MAX],
    "SetLoop": [0, 1] + [100, 101, -1, INT_MIN, INT_MAX],
    "SetLoopCount": [-1, 1, 2, 3] + [0, 100, 101, INT_MIN, INT_MAX],
    "SetHooksOnly": [0, 1] + [100, 101, -1, INT_MIN, INT_MAX],
    "SelectSong": [0, 1] + [100, 101, -1, INT_MIN, INT_MAX],
}
NVALID = {"SetNumChips": 5, "SwitchEmulator": 8, "SetVolModel": 6, "SetAlloc": 4, "SetLfo": 3, "SetLfoFreq": 5, "SetChipType": 3,
          "SetScaleMod": 2, "SetFullBright": 2, "SetArp": 2, "SetSoftPan": 2, "SetRunAtPcm": 2, "SetDevId": 4, "SetLoop": 2,
          "SetLoopCount": 4, "SetHooksOnly": 2, "SelectSong": 2}
TEMPOS = [(1, 2), (1, 1), (2, 1), (3, 1)] + [(0, 1), (-1, 1)]
TRACKS = [0, 1] + [2, 100, 101, -1, INT_MIN, INT_MAX]
TOPTS = [1, 2, 3, 0] + [4, 5, 6, 7, -1]
CHANS = [0, 1, 9, 15] + [16, 100, 101, -1, INT_MAX]
HOOKS = ["raw", "note", "dbg", "ls", "le"]
# calls that re-create the chips / re-apply the stored setup (where a latent change surfaces)
APPLY = [V("SetChipType", -1), {"e": "OpenBank", "b": 2, "bad": 0}, {"e": "OpenMidi", "s": 1, "bad": 0}, {"e": "Reset"},
         V("SwitchEmulator", 0), V("SetRunAtPcm", 0)]


def all_single_calls(dumper=True):
    """Every call of the alphabet with every argument class (the exhaustive-short generator draws from it)."""
    out = []
    for e, pool in POOLS.items():
        out += [V(e, v) for v in pool]
    if dumper:
        out.append(V("SwitchEmulator", 7))
    out += [{"e": "SetTempo", "num": n, "den": d} for (n, d) in TEMPOS]
    out += [{"e": "TrackOpt", "t": t, "o": o} for t in TRACKS for o in TOPTS if t in (0, 1, 2, -1) or o in (1, 3, 6)]
    out += [{"e": "ChanEn", "c": c, "en": en} for c in CHANS for en in (0, 1)] + [{"e": "ChanEn", "c": 1, "en": 100}, {"e": "ChanEn", "c": 1, "en": -1}]
    out += [{"e": "SetHook", "h": h, "on": on} for h in HOOKS for on in (1, 0)]
    out.append({"e": "Reset"})
    out += [{"e": "OpenBank", "b": b, "bad": bad} for b in (1, 2, 3) for bad in (0, 1, 2, 3) if b == 1 or bad == 0]
    out += [{"e": "OpenMidi", "s": s, "bad": bad} for s in (1, 2) for bad in (0, 1, 2, 3, 4, 5) if s == 1 or bad == 0]
    out += [{"e": "OpenMidi", "s": 3, "bad": bad} for bad in (0, 4)]      # the EA-MUS song (locks the set-up) / its signature broken
    # the other containers: GMF and DMX MUS songs (plain MIDI mode), the IMF image (sniffed, parsed, refused like the CMF one);
    # the XMIDI song (s = 6) only appears in format_sequences (selecting a song number while it is loaded re-parses the file)
    out += [GMF, MUS, IMF_REFUSED]
    return out


def is_invalid(c):
    e = c["e"]
    if e in POOLS:
        return c["v"] not in POOLS[e][:NVALID[e]] and not (e == "SwitchEmulator" and c["v"] == 7)
    if e == "SetTempo":
        return c["num"] <= 0
    if e == "TrackOpt":
        return c["t"] not in (0, 1) or c["o"] not in (0, 1, 2, 3)
    if e == "ChanEn":
        return c["c"] not in range(16)
    if e in ("OpenBank", "OpenMidi"):
        return c["bad"] != 0
    return False


# music files by container (Settings!Song): 1, 2 SMF, 3 EA-MUS, 4 GMF, 5 DMX MUS, 6 XMIDI, 7 IMF (refused: bad = 5)
SMF1, SMF2 = {"e": "OpenMidi", "s": 1, "bad": 0}, {"e": "OpenMidi", "s": 2, "bad": 0}
GMF, MUS, XMI = {"e": "OpenMidi", "s": 4, "bad": 0}, {"e": "OpenMidi", "s": 5, "bad": 0}, {"e": "OpenMidi", "s": 6, "bad": 0}
IMF_REFUSED, CMF_REFUSED = {"e": "OpenMidi", "s": 7, "bad": 5}, {"e": "OpenMidi", "s": 1, "bad": 5}

PRELUDES = {
    "bare": [],
    "bank": [{"e": "OpenBank", "b": 1, "bad": 0}],
    "song": [{"e": "OpenBank", "b": 1, "bad": 0}, {"e": "OpenMidi", "s": 1, "bad": 0}],
    "tuned": [{"e": "OpenBank", "b": 3, "bad": 0}, V("SetNumChips", 3), V("SwitchEmulator", 5), V("SetVolModel", 3), V("SetLfo", 0),
              V("SetLfoFreq", 6), V("SetChipType", 0), V("SetDevId", 9), V("SetScaleMod", 1), V("SetSoftPan", 1), V("SetArp", 1),
              {"e": "OpenMidi", "s": 1, "bad": 0}, V("SetLoop", 1), V("SetLoopCount", 2), {"e": "SetTempo", "num": 2, "den": 1},
              {"e": "SetHook", "h": "raw", "on": 1}, {"e": "SetHook", "h": "ls", "on": 1}, {"e": "SetHook", "h": "le", "on": 1},
              {"e": "SetHook", "h": "note", "on": 1}, {"e": "SetHook", "h": "dbg", "on": 1}, {"e": "TrackOpt", "t": 1, "o": 2}],
    # set-up locked by the EA-MUS song (song 3) with requests that differ from what the format imposes (2 chips, Generic)
    "locked": [{"e": "OpenBank", "b": 3, "bad": 0}, V("SetNumChips", 3), V("SetVolModel", 3), V("SetLoop", 1), V("SetLoopCount", 2),
               {"e": "SetHook", "h": "raw", "on": 1}, {"e": "SetHook", "h": "note", "on": 1}, {"e": "SetHook", "h": "le", "on": 1},
               {"e": "OpenMidi", "s": 3, "bad": 0}],
    "lockedplain": [{"e": "OpenBank", "b": 1, "bad": 0}, {"e": "OpenMidi", "s": 3, "bad": 0}],
}
RSXX = {"e": "OpenMidi", "s": 3, "bad": 0}
# calls that end the lock (applySetup) / keep it (partialReset only)
UNLOCK = [{"e": "OpenMidi", "s": 1, "bad": 0}, {"e": "OpenMidi", "s": 2, "bad": 0}, {"e": "OpenBank", "b": 2, "bad": 0}, V("SetChipType", 1)]
KEEP = [{"e": "Reset"}, V("SwitchEmulator", 1), V("SwitchEmulator", 7), RSXX]
LOCKED_SETTERS = ([V("SetNumChips", v) for v in (1, 2, 3, 4, 100, 0, 101, -1, INT_MIN, INT_MAX)] +
                  [V("SetVolModel", v) for v in (0, 1, 2, 3, 4, 5, 6, -1, INT_MAX)] +
                  [V("SetRunAtPcm", v) for v in (0, 1, 100, -1)])


def tail(song=True):
    return [PROBE] + ([PLAY] if song else [])


def exhaustive_singles(preludes=("bare", "song", "tuned"), dumper=True):
    """Every single call after each prelude, sandwiched between two probes (rejected call => identical phrase),
    followed by a call that re-applies the stored setup and a final probe."""
    hs = []
    calls = all_single_calls(dumper)
    for pname in preludes:
        for i, c in enumerate(calls):
            pre = PRELUDES[pname]
            h = [INIT] + pre + [PROBE, c, PROBE]
            # a latent change shows at the next applySetup; a rejected music file must be followed by a valid one
            h += [APPLY[i % len(APPLY)]]
            if pname != "bare" or c["e"] == "OpenBank":
                h += [{"e": "OpenMidi", "s": 2 if i % 2 else 1, "bad": 0}]
            h += [PROBE, PLAY]
            hs.append(h)
    return hs


def locked_histories(rng=None, n=None):
    """Every deferred setter (chip count, volume model, PCM-rate mode; in-range, boundary, invalid) issued while the EA-MUS
    song locks the set-up: setter, getters, probe, optionally a call that keeps the lock, then a call that ends it
    (ordinary song, bank, chip type), getters, probes.  Also: two setters while locked, the lock entered twice, and a
    rejected file while locked followed by a valid one.  n: a sample of that size (quick tier)."""
    hs = []
    k = 0
    for pname in ("locked", "lockedplain"):
        for c in LOCKED_SETTERS:
            for u in UNLOCK:
                k += 1
                mid = [KEEP[k % len(KEEP)]] if k % 3 == 0 else []
                h = [INIT] + PRELUDES[pname] + [PROBE, c, PROBE] + mid + [u]
                if u["e"] != "OpenMidi":
                    h += [PLAY, {"e": "OpenMidi", "s": 1 + k % 2, "bad": 0}]
                hs.append(h + [PROBE, PLAY])
    for (a, b) in itertools.product(LOCKED_SETTERS[:5] + LOCKED_SETTERS[10:16] + LOCKED_SETTERS[19:21], repeat=2):
        if a["e"] != b["e"]:
            k += 1
            hs.append([INIT] + PRELUDES["lockedplain"] + [a, b, PLAY, UNLOCK[k % len(UNLOCK)], PROBE, {"e": "OpenMidi", "s": 1, "bad": 0}, PLAY])
    for c in LOCKED_SETTERS:
        for bad in (1, 2, 3, 4):
            k += 1
            if k % 4 == bad - 1:
                hs.append([INIT] + PRELUDES["lockedplain" if k % 8 < 4 else "locked"] +
                          [c, PROBE, {"e": "OpenMidi", "s": 1, "bad": bad}, PROBE, PLAY, {"e": "OpenMidi", "s": 2, "bad": 0}, PROBE, PLAY])
    if n is not None and len(hs) > n:
        rng.shuffle(hs)
        hs = hs[:n]
    return hs


FIRST_FILES = [{"e": "OpenMidi", "s": 3, "bad": 0}, IMF_REFUSED, CMF_REFUSED, XMI, SMF1, SMF2, GMF, MUS, {"e": "OpenMidi", "s": 1, "bad": 1}]
LATER_FILES = [GMF, MUS, XMI, SMF1, {"e": "OpenMidi", "s": 3, "bad": 0}]
SEQ_SETUPS = [[{"e": "OpenBank", "b": 1, "bad": 0}, V("SetNumChips", 4)],
              [{"e": "OpenBank", "b": 3, "bad": 0}, V("SetNumChips", 3), V("SetVolModel", 3)],
              [{"e": "OpenBank", "b": 2, "bad": 0}, V("SetVolModel", 5), V("SetRunAtPcm", 1)],
              [{"e": "OpenBank", "b": 1, "bad": 0}, V("SetNumChips", 1), V("SetLoop", 1), V("SetLoopCount", 2), {"e": "SetHook", "h": "note", "on": 1}]]
SEQ_BETWEEN = [V("SetNumChips", 3), V("SetNumChips", 4), V("SetNumChips", 1), V("SetNumChips", 0), V("SetVolModel", 2), V("SetVolModel", 4),
               V("SetVolModel", 0), V("SetRunAtPcm", 1), V("SetRunAtPcm", 0), V("SetLfo", 0), V("SetLfoFreq", 5), V("SetSoftPan", 1),
               V("SetDevId", 7), V("SetLoop", 1), V("SetHooksOnly", 0), {"e": "Reset"}, V("SwitchEmulator", 1),
               {"e": "SetHook", "h": "raw", "on": 1}, {"e": "TrackOpt", "t": 0, "o": 1}, {"e": "ChanEn", "c": 0, "en": 1},
               {"e": "SetTempo", "num": 2, "den": 1}]
# the setters whose effect the EA-MUS lock defers: made right after the later file they must be in force at once
SEQ_AFTER = [[V("SetVolModel", 3), V("SetNumChips", 3)], [V("SetNumChips", 2), V("SetVolModel", 0)], [V("SetVolModel", 2), V("SetRunAtPcm", 1)],
             [V("SetNumChips", 4)], [V("SetVolModel", 5), V("SetNumChips", 1)], []]


def format_sequences(rng, variants=1, triples=20):
    """Two or three music files of different containers handed to ONE instance: every (first, later) pair of
    {EA-MUS, refused IMF, refused CMF, XMIDI, SMF, GMF, MUS, garbage} x {GMF, MUS, XMIDI, SMF, EA-MUS}, setters and getters
    (every call is followed by the observation of all getters) before, between and after the loads, probes and playback of
    the later song; `triples` sequences go on to a third file.  variants: histories per pair (different set-up, calls between)."""
    hs = []
    k = 0

    def between(n):
        return [rng.choice(SEQ_BETWEEN) for _ in range(n)]

    def after(second):
        # opn2_setRunAtPcmRate etc. are judged by stick / locked-stick according to the lock the LATER file dictates
        return list(SEQ_AFTER[rng.randrange(len(SEQ_AFTER))])
    for v in range(variants):
        for f1 in FIRST_FILES:
            for f2 in LATER_FILES:
                k += 1
                h = [INIT] + SEQ_SETUPS[(k + v) % len(SEQ_SETUPS)] + [f1] + between((k + v) % 3)
                if k % 4 == 0:
                    h.append(PROBE)
                h += [f2] + after(f2) + [PROBE, PLAY]
                hs.append(h)
    pool3 = [(a, b, c) for a in FIRST_FILES for b in LATER_FILES + [IMF_REFUSED, CMF_REFUSED] for c in LATER_FILES[:4]]
    rng.shuffle(pool3)
    for (a, b, c) in pool3[:triples]:
        k += 1
        hs.append([INIT] + SEQ_SETUPS[k % len(SEQ_SETUPS)] + [a] + between(k % 2) + [b] + between((k + 1) % 2) + after(b) +
                  [c] + after(c) + [PROBE, PLAY])
    return hs


def exhaustive_pairs(rng, n):
    """Pairs (invalid call, second call) after the 'song' prelude (one in five: with the set-up locked by the EA-MUS song):
    sampled without replacement from the full product."""
    calls = all_single_calls(True)
    bad = [c for c in calls if is_invalid(c)]
    prod = [(a, b) for a in bad for b in calls]
    rng.shuffle(prod)
    hs = []
    for (a, b) in prod[:n]:
        first, second = (a, b) if rng.random() < 0.5 else (b, a)
        hs.append([INIT] + PRELUDES["locked" if len(hs) % 5 == 4 else "song"] + [first, second, PROBE, {"e": "OpenMidi", "s": 1, "bad": 0}, PLAY])
    return hs


def random_call(rng, p_invalid=0.35):
    r = rng.random()
    if r < 0.55:
        e = rng.choice(list(POOLS.keys()))
        pool = POOLS[e]
        nv = NVALID[e]
        if e == "SwitchEmulator" and rng.random() < 0.06:
            return V(e, 7)
        return V(e, rng.choice(pool[nv:]) if rng.random() < p_invalid else rng.choice(pool[:nv]))
    if r < 0.60:
        n, d = rng.choice(TEMPOS[4:]) if rng.random() < p_invalid else rng.choice(TEMPOS[:4])
        return {"e": "SetTempo", "num": n, "den": d}
    if r < 0.68:
        inv = rng.random() < p_invalid
        return {"e": "TrackOpt", "t": rng.choice(TRACKS[2:] if inv and rng.random() < 0.6 else TRACKS[:2]),
                "o": rng.choice(TOPTS[4:] if inv and rng.random() < 0.6 else TOPTS[:4])}
    if r < 0.74:
        return {"e": "ChanEn", "c": rng.choice(CHANS[4:]) if rng.random() < p_invalid else rng.choice(CHANS[:4]), "en": rng.choice([0, 0, 1, 1, 100, -1])}
    if r < 0.84:
        return {"e": "SetHook", "h": rng.choice(HOOKS), "on": 1 if rng.random() < 0.7 else 0}
    if r < 0.88:
        return {"e": "Reset"}
    if r < 0.94:
        return {"e": "OpenBank", "b": rng.choice([1, 2, 3]), "bad": rng.choice([1, 2, 3]) if rng.random() < p_invalid else 0}
    if rng.random() < p_invalid:
        return dict(IMF_REFUSED) if rng.random() < 0.2 else {"e": "OpenMidi", "s": rng.choice([1, 2, 3, 3]), "bad": rng.choice([1, 2, 3, 4, 5, 5])}
    return {"e": "OpenMidi", "s": rng.choice([1, 2, 3, 3, 4, 5]), "bad": 0}


def random_history(rng, length=14):
    h = [INIT]
    pre = rng.choice(["bare", "bank", "song", "song", "tuned", "locked", "lockedplain"])
    h += PRELUDES[pre]
    have_bank = pre != "bare"
    pending_reload = False
    n = 0
    while n < length:
        c = random_call(rng)
        if c["e"] == "OpenBank" and c["bad"] == 0:
            have_bank = True
        if c["e"] == "OpenMidi":
            pending_reload = c["bad"] != 0
        if is_invalid(c) and rng.random() < 0.3:
            h += [PROBE, c, PROBE]; n += 3          # sandwich
        else:
            h.append(c); n += 1
        if rng.random() < 0.10:
            h.append(PROBE if rng.random() < 0.5 else PLAY); n += 1
    if not have_bank:
        h.append({"e": "OpenBank", "b": rng.choice([1, 2, 3]), "bad": 0})
    if pending_reload or rng.random() < 0.5:
        h.append({"e": "OpenMidi", "s": rng.choice([1, 2, 1, 2, 4, 5]), "bad": 0})
    h += [PROBE, PLAY]
    return h


def dumper_histories(rng, n):
    """Round trips through the VGM-dumper pseudo-emulator (it takes the loop hooks and caps the chip count while active)."""
    hs = []
    for k in range(n):
        pre = PRELUDES["tuned" if k % 3 == 2 else "song"]
        mid = [random_call(rng, 0.2) for _ in range(k % 3)]
        mid = [c for c in mid if c["e"] != "SwitchEmulator"]
        hs.append([INIT] + pre + [V("SetNumChips", rng.choice([1, 2, 3, 4])), V("SetLoop", 1), V("SetLoopCount", rng.choice([-1, 2, 3])),
                                  V("SetHooksOnly", k % 2 if k % 4 == 3 else 0), V("SwitchEmulator", 7)] + mid +
                  [PLAY, V("SwitchEmulator", rng.choice([0, 1, 3, 5])), PROBE, PLAY])
    return hs


def behaviour_history(idx, ops=None):
    ops = ops or mc_ops()
    return [INIT] + [ops[i - 1] for i in idx] + [{"e": "OpenBank", "b": 3, "bad": 0}, {"e": "OpenMidi", "s": 1, "bad": 0}, PROBE, PLAY]
