"""Inputs and call histories for C01 (untrusted music data never crashes, corrupts memory or hangs).

Sources of inputs
  * shapes enumerated by TLC from spec/LoaderMC.tla (SHAPE lines: bytes + the model's predicted outcome),
  * seeded byte mutations of those (bit flips, boundary bytes, 32-bit length extremes, cuts, splices),
  * scaled families up to 64 KiB in run-length form  head ++ unit^times ++ tail  (big payloads, event floods,
    long variable-length quantities, many tracks),
  * a short list of hand-written corner files (loop markers, zero-length songs, known candidates).
Every input becomes one history:  Init, [pre-load calls], Load, follow-up calls, Done.
The expected values are NOT computed here: TLC evaluates spec/Loader.tla on the recorded bytes."""
import json, random, struct

MAXLEN = 65536

# ------------------------------------------------------------------ commands
def load_cmd(head, unit=(), times=0, tail=(), **tags):
    c = {"e": "Load", "head": list(head), "unit": list(unit), "times": int(times) if unit else 0, "tail": list(tail)}
    c.update(tags)
    return c


def total_len(c):
    return len(c["head"]) + len(c["unit"]) * c["times"] + len(c["tail"])


def materialise(c):
    return list(c["head"]) + list(c["unit"]) * c["times"] + list(c["tail"])


META = [{"e": "Meta", "q": "title"}, {"e": "Meta", "q": "copyright"}] + \
       [{"e": "Meta", "q": q, "i": i} for q in ("tt", "mk") for i in (0, 1, 2)]
FOLLOW = [
    [],
    [{"e": "Total"}, {"e": "Tracks"}] + META + [{"e": "AtEnd"}],
    [{"e": "Loop", "en": 1}, {"e": "Tick", "ms": 100, "k": 20}, {"e": "Tell"}, {"e": "Seek", "k": 2}, {"e": "Tick", "ms": 50, "k": 4},
     {"e": "Seek", "k": 3}, {"e": "Tick", "ms": 50, "k": 4}, {"e": "Seek", "k": 4}, {"e": "Rewind"}, {"e": "Tick", "ms": 200, "k": 10}, {"e": "AtEnd"}],
    [{"e": "Play", "n": 512}, {"e": "Seek", "k": 0}, {"e": "Seek", "k": 1}, {"e": "Play", "n": 256}, {"e": "Tell"}, {"e": "AtEnd"}],
    [{"e": "LoopCount", "n": 2}, {"e": "Loop", "en": 1}, {"e": "Tick", "ms": 500, "k": 30}, {"e": "AtEnd"}, {"e": "Total"}],
    [{"e": "TrackOpt", "t": 0, "o": 2}, {"e": "TrackOpt", "t": 1, "o": 1}, {"e": "TrackOpt", "t": 2, "o": 3}, {"e": "TrackOpt", "t": 3, "o": 3},
     {"e": "Tick", "ms": 100, "k": 10}, {"e": "ChanEn", "c": 0, "en": 0}, {"e": "ChanEn", "c": 16, "en": 0}, {"e": "Tick", "ms": 100, "k": 5}],
    [{"e": "Sel", "i": 0}, {"e": "Tick", "ms": 100, "k": 3}, {"e": "Sel", "i": 5}, {"e": "Total"}, {"e": "Sel", "i": 2147483647}, {"e": "Tick", "ms": 100, "k": 3},
     {"e": "Sel", "i": -1}, {"e": "Tick", "ms": 100, "k": 3}],
    [{"e": "Tick", "ms": 1000, "k": 5}, {"e": "Reset"}, {"e": "Tick", "ms": 100, "k": 3}, {"e": "Rewind"}, {"e": "Total"}, {"e": "Play", "n": 128}],
    [{"e": "LoopCount", "n": -1}, {"e": "Loop", "en": 1}, {"e": "Play", "n": 1024}, {"e": "Seek", "k": 3}, {"e": "Play", "n": 256}, {"e": "Seek", "k": 2}, {"e": "Tell"}],
    # seek into the middle with looping on, then play on for a long while (loop state entered "from the side")
    [{"e": "Loop", "en": 1}, {"e": "Seek", "k": 2}, {"e": "Tick", "ms": 500, "k": 14}, {"e": "AtEnd"}, {"e": "Seek", "k": 2}, {"e": "Tick", "ms": 250, "k": 8}],
]
PRE = [[], [], [], [{"e": "Loop", "en": 1}], [{"e": "LoopCount", "n": 2}, {"e": "Loop", "en": 1}], [{"e": "LoopCount", "n": -1}]]


def history(load, follow=(), pre=(), reload=False, hid=0):
    h = [{"e": "Init", "id": hid}] + [dict(c) for c in pre] + [load] + [dict(c) for c in follow]
    if reload:
        h += [dict(load), {"e": "Tick", "ms": 100, "k": 3}, {"e": "Total"}]
    h.append({"e": "Done"})
    return h


def with_followups(rng, load, hid, sel=0, k=None):
    """A history around one Load; the follow-up template rotates with hid so that every template meets every input class."""
    k = hid if k is None else k
    pre = list(PRE[(k // len(FOLLOW)) % len(PRE)])
    if sel != 0:
        pre = [{"e": "Sel", "i": sel}] + pre
    return history(load, FOLLOW[k % len(FOLLOW)], pre, reload=(k % 11 == 7), hid=hid)


# ------------------------------------------------------------------ TLC shapes
def shape_histories(shapes, rng, budget, start_id=0, max_costly=8):
    """shapes: list of dicts from LoaderMC SHAPE lines (c, items, fin, sel, b, o).  Deduplicated by bytes+sel; when there
    are more than `budget`, a stratified sample: every (container, finisher, predicted outcome) class first."""
    seen = {}
    for s in shapes:
        key = (bytes(s["b"]), s["sel"])
        if key not in seen:
            seen[key] = s
    uniq = list(seen.values())
    rng.shuffle(uniq)
    chosen = uniq
    if budget and len(uniq) > budget:
        def fam(s):
            c = s["c"]
            return "mus" if c.startswith("mus") else "xmi" if c.startswith("xmi") else "misc" if c == "misc" else "trk"
        chosen, used, costly = [], set(), 0

        def take(s):
            chosen.append(s)
            used.add(id(s))
        # (1) every (family, last item, finisher) pair twice (different containers when possible): a wrong bound of one
        #     event class is only visible on shapes that end in that event
        byitem = {}
        for s in uniq:
            if s["o"]["res"] != "resource":
                byitem.setdefault((fam(s), s["items"][-1] if s["items"] else 0, s["fin"]), []).append(s)
        for g in sorted(byitem):
            seen_c = set()
            for s in byitem[g]:
                if s["c"] not in seen_c and len(seen_c) < 2:
                    seen_c.add(s["c"])
                    take(s)
        # (2) every (container, finisher, predicted outcome) class once; predicted blow-ups cost seconds each: a few only
        groups = {}
        for s in uniq:
            groups.setdefault((s["c"], s["fin"], s["o"]["res"], s["o"]["site"]), []).append(s)
        for g in sorted(groups):
            if g[2] == "resource":
                if costly < max_costly:
                    take(groups[g][0])
                    costly += 1
            elif not any(id(s) in used for s in groups[g][:1]):
                take(groups[g][0])
        # (3) the rest at random
        rest = [s for s in uniq if id(s) not in used and s["o"]["res"] != "resource"]
        rng.shuffle(rest)
        chosen += rest[:max(0, budget - len(chosen))]
    hs = []
    for i, s in enumerate(chosen):
        ld = load_cmd(s["b"], src="shape", c=s["c"], items=s["items"], fin=s["fin"])
        hs.append(with_followups(rng, ld, start_id + i, sel=s["sel"]))
    return hs, len(uniq)


# ------------------------------------------------------------------ mutations
BOUNDARY = [0, 1, 0x2F, 0x51, 0x7F, 0x80, 0x81, 0xF0, 0xF7, 0xFE, 0xFF, 0xE4]
LEN32 = [[0, 0, 0, 0], [0xFF, 0xFF, 0xFF, 0xFF], [0x7F, 0xFF, 0xFF, 0xFF], [0x80, 0, 0, 0], [0xFF, 0xFF, 0xFF, 0xF0], [0, 0, 0xFF, 0xFF], [0, 1, 0, 0]]


def mutate(rng, b, nmax=3):
    b = list(b)
    for _ in range(rng.randint(1, nmax)):
        if not b:
            b = [rng.choice(BOUNDARY)]
            continue
        op = rng.random()
        p = rng.randrange(len(b))
        if op < 0.25:
            b[p] ^= 1 << rng.randrange(8)
        elif op < 0.50:
            b[p] = rng.choice(BOUNDARY)
        elif op < 0.60:
            del b[p]
        elif op < 0.70:
            b.insert(p, rng.choice(BOUNDARY))
        elif op < 0.80:
            b = b[:p]
        elif op < 0.90 and len(b) >= 4:
            q = rng.randrange(len(b) - 3)
            b[q:q + 4] = rng.choice(LEN32)
        else:
            q = rng.randrange(len(b))
            lo, hi = min(p, q), max(p, q)
            b[lo:lo] = b[lo:hi][:64]
    return b[:MAXLEN]


def mutation_histories(shapes, rng, n, start_id=0):
    hs = []
    # mutants of predicted blow-ups mostly blow up again (seconds each): keep them out of the pool
    pool = [s for s in shapes if len(s["b"]) >= 14 and s["o"]["res"] != "resource"] or shapes
    for i in range(n):
        s = rng.choice(pool)
        ld = load_cmd(mutate(rng, s["b"]), src="mut", c=s["c"])
        hs.append(with_followups(rng, ld, start_id + i, sel=s["sel"] if rng.random() < 0.8 else rng.choice([-1, 1, 7])))
    return hs


# ------------------------------------------------------------------ byte builders
def vlq(v):
    out = [v & 0x7F]
    v >>= 7
    while v:
        out.insert(0, (v & 0x7F) | 0x80)
        v >>= 7
    return out


def be32(v): return list(struct.pack(">I", v & 0xFFFFFFFF))
def be16(v): return list(struct.pack(">H", v & 0xFFFF))
def le16(v): return list(struct.pack("<H", v & 0xFFFF))


def smf_header(fmt=0, ntr=1, div=96): return list(b"MThd") + [0, 0, 0, 6] + be16(fmt) + be16(ntr) + be16(div)
def mtrk(n): return list(b"MTrk") + be32(n)
EOT = [0, 0xFF, 0x2F, 0]


def smf(tracks, fmt=None, div=96):
    b = smf_header(1 if len(tracks) > 1 else 0 if fmt is None else fmt, len(tracks), div)
    for t in tracks:
        b += mtrk(len(t)) + list(t)
    return b


def marker(text): return [0xFF, 6] + vlq(len(text)) + list(text.encode())


def mus_file(score, channels=2):
    return list(b"MUS\x1a") + le16(len(score)) + le16(16) + le16(channels) + le16(0) + le16(1) + [0, 0] + list(score)


def xmi_file(events, ntracks=1):
    def ch(tag, data):
        return list(tag) + be32(len(data)) + list(data) + ([0] if len(data) % 2 else [])
    info = ch(b"INFO", le16(ntracks))
    song = ch(b"EVNT", events)
    form = list(b"FORM") + be32(4 + len(song)) + list(b"XMID") + song
    cat = list(b"CAT ") + be32(4 + len(form) * ntracks) + list(b"XMID") + form * ntracks
    return list(b"FORM") + be32(4 + len(info)) + list(b"XDIR") + info + cat


# ------------------------------------------------------------------ scaled families (run-length form, <= 64 KiB)
def scaled_loads():
    out = []

    def smf_rep(pre, unit, times, post, tag, decl_adj=0):
        n = len(pre) + len(unit) * times + len(post)
        head = smf_header() + mtrk(n + decl_adj) + list(pre)
        out.append(load_cmd(head, unit, times, post, src="scaled", c=tag))
    for size in (127, 128, 16383, 16384, 60000):
        smf_rep([0, 0xFF, 1] + vlq(size), [0x41], size, EOT, "meta-payload-%d" % size)
        smf_rep([0, 0xFF, 1] + vlq(size + 1), [0x41], size, [], "meta-payload-short-%d" % size)
        smf_rep([0, 0xF0] + vlq(size), [0x41], size, EOT, "sysex-payload-%d" % size)
    smf_rep([0, 0xFF, 3] + vlq(60000), [0xE9], 60000, EOT, "title-60000-high-bytes")
    smf_rep([], [0, 0x90, 60, 100], 15000, EOT, "flood-noteon-one-row")
    smf_rep([], [0, 0x90, 60, 100, 0, 0x80, 60, 0], 7500, EOT, "flood-onoff-one-row")
    smf_rep([], [0, 0x90, 60, 100, 0, 0x90, 60, 0], 7500, EOT, "flood-on-on0-one-row")
    smf_rep([], [1, 0x90, 60, 100], 15000, EOT, "flood-noteon-rows")
    smf_rep([0, 0x90], [60, 100, 0], 20000, EOT, "flood-running-status")
    smf_rep([], [0x80], 60000, [0] + EOT[1:], "delta-60000-groups")
    smf_rep([0, 0xF0], [0x80], 60000, [0] + EOT, "sysex-length-60000-groups")
    smf_rep([], [0, 0xFF, 0x51, 3, 7, 0xA1, 0x20], 9000, EOT, "flood-tempo-one-row")
    smf_rep([], [1, 0xFF, 0x51, 3, 7, 0xA1, 0x20], 9000, EOT, "flood-tempo-rows")
    smf_rep([], [1, 0xFF, 6, 1, 0x41], 12000, EOT, "flood-markers")
    smf_rep([], [0, 0xFF, 3, 1, 0x54], 12000, EOT, "flood-track-titles")
    smf_rep([], [0] + marker("loopStart") + [0] + marker("loopEnd"), 2500, EOT, "flood-loop-markers")
    smf_rep([], [0] + marker("loopstart=2") + [1, 0x90, 60, 100, 0] + marker("loopend=0"), 2000, EOT, "flood-loop-stack")
    smf_rep([], [0, 0xFF, 0xE4, 1, 3], 12000, EOT, "flood-loopstack-begin")
    smf_rep([], [0, 0xB0, 111, 0], 15000, EOT, "flood-cc111")
    smf_rep([], [0, 0xFF, 9, 1, 0x41], 12000, EOT, "flood-device-switch")
    smf_rep([], [0, 0xF1], 30000, EOT, "flood-f1")
    smf_rep([], [0, 0x99, 36, 127], 15000, EOT, "flood-drums-one-row")
    # many tracks
    trk = mtrk(4) + EOT
    out.append(load_cmd(smf_header(1, 5000), trk, 5000, [], src="scaled", c="tracks-5000"))
    out.append(load_cmd(smf_header(1, 5400), mtrk(4) + [0, 0xFF, 0x2F, 0], 5400, [], src="scaled", c="tracks-5400"))
    out.append(load_cmd(smf_header(1, 65535), trk, 5000, [], src="scaled", c="tracks-declared-65535"))
    out.append(load_cmd(smf_header(1, 8000), mtrk(0), 8000, [], src="scaled", c="tracks-8000-empty"))
    # MUS / XMI / IMF / GMF / RSXX scaled
    n = 30000
    out.append(load_cmd(list(b"MUS\x1a") + le16(2 * n + 1) + le16(16) + le16(2) + le16(0) + le16(1) + [0, 0], [0x10, 60], n, [0x60], src="scaled", c="mus-keyon-30000"))
    out.append(load_cmd(list(b"MUS\x1a") + le16(3 * 20000) + le16(16) + le16(2) + le16(0) + le16(1) + [0, 0], [0x90, 60, 1], 20000, [], src="scaled", c="mus-delays-20000"))
    out.append(load_cmd(list(b"MUS\x1a") + le16(60001) + le16(16) + le16(2) + le16(0) + le16(1) + [0, 0, 0x80, 60], [0x81], 59998, [0], src="scaled", c="mus-delay-59998-groups"))
    ev = [0x90, 60, 100, 10]
    for nn in (15000,):
        body_len = 4 * nn + 3
        info = list(b"INFO") + be32(2) + le16(1)
        song_len = 8 + body_len + (body_len % 2)
        head = list(b"FORM") + be32(4 + len(info)) + list(b"XDIR") + info + list(b"CAT ") + be32(4 + 12 + song_len) + list(b"XMID") + \
            list(b"FORM") + be32(4 + song_len) + list(b"XMID") + list(b"EVNT") + be32(body_len)
        out.append(load_cmd(head, ev, nn, [0xFF, 0x2F, 0, 0], src="scaled", c="xmi-noteon-%d" % nn))
        out.append(load_cmd(head, [0x90, 60, 100, 0xFF, 0xFF, 0xFF, 0x7F], nn * 4 // 7, [0xFF, 0x2F, 0, 0], src="scaled", c="xmi-long-durations"))
    out.append(load_cmd([0, 0], [1, 1, 0, 0], 16000, [], src="scaled", c="imf-16000"))
    out.append(load_cmd([4, 0], [1, 1, 0, 0], 16383, [9, 9], src="scaled", c="imf-type1-16383"))
    out.append(load_cmd(list(b"GMF\x01") + [0, 0, 0], [0, 0x90, 60, 100], 15000, [], src="scaled", c="gmf-flood"))
    out.append(load_cmd([93] + [0] * 76 + list(b"rsxx}u") + [0] * 10, [0x90, 60, 100, 0], 15000, [], src="scaled", c="rsxx-flood"))
    out.append(load_cmd([], [0xFF], 65536, [], src="scaled", c="ff-65536"))
    out.append(load_cmd([], [0x00], 65536, [], src="scaled", c="zero-65536"))
    out.append(load_cmd(list(b"RIFF"), [0x41], 60000, [], src="scaled", c="riff-junk-60000"))
    for c in out:
        assert total_len(c) <= MAXLEN, (c["c"], total_len(c))
    return out


# ------------------------------------------------------------------ hand-written corner files
def handwritten_loads():
    W = lambda k: [0x81] + [0xFF] * 8 + [0x80 - k]       # variable-length quantity 2^64 - k
    on, off = [0, 0x90, 60, 100], [0x60, 0x80, 60, 0]
    L = []

    def add(tag, b, sel=0): L.append((load_cmd(b, src="hand", c=tag), sel))
    add("plain", smf([on + off + EOT]))
    add("ff-last-byte", smf([on + [0, 0xFF]]))
    add("meta-len-2^64-1", smf([[0, 0xFF, 1] + W(1) + EOT]))
    add("declared-4GiB", smf_header() + list(b"MTrk") + [0xFF, 0xFF, 0xFF, 0xF0] + EOT)
    add("declared-1GiB", smf_header() + list(b"MTrk") + [0x40, 0, 0, 0] + EOT)
    add("sysex-back-12", smf([[0, 0xF0] + W(12) + EOT]))
    add("sysex-back-61", smf([[0, 0xF0] + W(61) + EOT]))
    add("loopstack-begin-empty", smf([[0, 0xFF, 0xE4, 0] + EOT]))
    add("division-0", smf([on + off + EOT], div=0))
    # the division word at its other extremes: 1 tick per quarter note, the largest PPQN value, words with bit 15 set (SMPTE
    # notation in the SMF standard: frames per second x ticks per frame, incl. zero ticks per frame and -1 x 1)
    for dv in (0x0001, 0x7FFF, 0x8000, 0xE200, 0xE700, 0xE728, 0xFF01, 0xFFFF):
        add("division-%04x" % dv, smf([on + off + EOT], div=dv))
    add("rawopl-1-byte", smf([[0, 0xFF, 0xE3, 1, 5] + off + EOT]))
    add("callback-empty", smf([[0, 0xFF, 0xE7, 0] + off + EOT]))
    add("loop-same-tick", smf([[0] + marker("loopStart") + [0] + marker("loopEnd") + on + off + EOT]))
    add("loop-zero-length-song", smf([[0] + marker("loopStart") + EOT]))
    add("loop-end-before-start", smf([[0] + marker("loopEnd") + on + off + [0] + marker("loopStart") + off + EOT]))
    add("loop-body", smf([on + [0x10] + marker("loopStart") + off + [0x10] + marker("loopEnd") + off + EOT]))
    add("loopstack-nested", smf([[0] + marker("loopstart=2") + on + [1] + marker("loopstart=0") + off + [1] + marker("loopend=1") + [1] + marker("loopend=1") + EOT]))
    add("loopstack-end-only", smf([[0] + marker("loopend=1") + on + off + EOT]))
    # several stack-loop begins in one row, several ends in a later row (the play-time stack must grow by as many
    # levels as the row opens), with finite and infinite counts
    for b in (1, 2, 3):
        for e in (1, 2, 3):
            for n in (1, 0, 2):
                add("loopstack-b%d-e%d-n%d" % (b, e, n),
                    smf([on + sum([[0] + marker("loopstart=%d" % n) for _ in range(b)], []) + off +
                         sum([[0] + marker("loopend=0") for _ in range(e)], []) + on + off + EOT]))
    add("tempo-0", smf([[0, 0xFF, 0x51, 3, 0, 0, 0] + on + off + EOT]))
    add("tempo-max-delta-max", smf([[0, 0xFF, 0x51, 3, 0xFF, 0xFF, 0xFF, 0xFF, 0xFF, 0xFF, 0x7F, 0x90, 60, 100] + off + EOT]))
    add("tempo-8-bytes", smf([[0, 0xFF, 0x51, 8, 255, 255, 255, 255, 255, 255, 255, 255] + on + off + EOT]))
    add("delta-2^64-1", smf([W(1) + [0x90, 60, 100] + W(1) + [0x80, 60, 0] + EOT]))
    add("no-eot", smf([on + off]))
    add("only-delta", smf([[0]]))
    add("device-switch", smf([[0, 0xFF, 9, 1, 0x41] + on + [0, 0xFF, 9, 1, 0x42, 0, 0x9F, 60, 100] + off + EOT]))
    add("16-tracks-device", smf([[0, 0xFF, 9, 1, 0x41 + i, 0, 0x90 + i, 60, 100] + off + EOT for i in range(16)]))
    add("fmt2-3-tracks", smf_header(2, 3) + sum([mtrk(len(on + off + EOT)) + on + off + EOT for _ in range(3)], []))
    add("rmi-plain", list(b"RIFF") + [0] * 4 + list(b"RMIDdata") + [0] * 4 + smf([on + off + EOT]))
    add("gmf-plain", list(b"GMF\x01") + [0, 0, 0] + on + off)
    add("mus-plain", mus_file([0x10, 60, 0x90, 62, 5, 0x00, 60, 0x60]))
    add("mus-keyoff-last-byte", mus_file([0x10, 60, 0x00]))
    add("mus-delay-runs-out", mus_file([0x90, 60, 0x81]))
    add("mus-sysevent-1-byte", mus_file([0x30, 10, 0x60]))
    add("xmi-plain", xmi_file([0x90, 60, 100, 10, 20, 0xFF, 0x2F, 0]))
    add("xmi-sel-1", xmi_file([0x90, 60, 100, 10, 20, 0xFF, 0x2F, 0]), -1)
    add("xmi-sel-max", xmi_file([0x90, 60, 100, 10, 20, 0xFF, 0x2F, 0]), 2147483647)
    add("xmi-2-songs", xmi_file([0x90, 60, 100, 10, 20, 0xFF, 0x2F, 0], 2), 1)
    add("xmi-no-eot", xmi_file([0x90, 60, 100, 10, 20]))
    add("xmi-for-loop", xmi_file([0xB0, 116, 2, 0x90, 60, 100, 10, 20, 0xB0, 117, 127, 0xFF, 0x2F, 0]))
    add("xmi-for-loop-infinite", xmi_file([0xB0, 116, 0, 0x90, 60, 100, 10, 20, 0xB0, 117, 127, 0xFF, 0x2F, 0]))
    add("xmi-break-without-for", xmi_file([0xB0, 117, 0, 0x90, 60, 100, 10, 0xFF, 0x2F, 0]))
    # FOR ... BREAK ... FOR ... NEXT with a long first body: a seek to the middle lands inside the first body
    add("xmi-for-break-for", xmi_file([0xB0, 116, 2, 0x90, 60, 100, 10, 127, 127, 127, 0xB0, 117, 0, 20, 0xB0, 116, 2, 0x90, 62, 100, 10, 20,
                                       0xB0, 117, 127, 0xFF, 0x2F, 0]))
    add("xmi-for-next-nested-long", xmi_file([0xB0, 116, 2, 0x90, 60, 100, 10, 127, 0xB0, 116, 3, 0x90, 64, 100, 5, 127, 127, 0xB0, 117, 127, 20,
                                              0xB0, 117, 127, 0xFF, 0x2F, 0]))
    add("imf-small", [4, 0, 1, 1, 0, 0] + [0] * 8)
    add("rsxx-small", [93] + [0] * 76 + list(b"rsxx}u") + [0] * 10 + [0x90, 60, 100, 0x10, 0x80, 60, 0])
    return L
