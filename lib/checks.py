"""Property checks.  Each function decides one property for /repo's current working tree:
model checking of the TLA+ specification (leg A), property monitors evaluated by TLC on
executions recorded from the real library (leg B) and refinement of the recorded steps (leg C)."""
import json, os, random, re, sys, time
import vcommon as vc, vtrace

REGISTRY = {}
REPLAY_DIR = os.path.join(vc.VERIF, ".out", "replay")


def register(*pids):
    def deco(fn):
        for p in pids:
            REGISTRY[p] = fn
        return fn
    return deco


# ------------------------------------------------------------------ verdict helpers
def match_known(pid, failure, cmd, known):
    for k in known.get("known", []):
        if k.get("property") != pid:
            continue
        m = k.get("match", {})
        if "what" in m and not re.search(m["what"], failure.what):
            continue
        if "event" in m and not re.search(m["event"], failure.event or ""):
            continue
        if "detail" in m and not re.search(m["detail"], failure.detail or ""):
            continue
        ok = True
        for f, v in (m.get("cmd") or {}).items():
            if cmd is None or cmd.get(f) != v:
                ok = False
        if ok:
            return k
    return None


def save_replay(pid, history, step=None, tag=""):
    os.makedirs(REPLAY_DIR, exist_ok=True)
    p = os.path.join(REPLAY_DIR, "%s-%d-%s%d.ndjson" % (pid, vc.seed(), tag, int(time.time() * 1000) % 100000000))
    h = history if step is None else history[:step + 1]
    with open(p, "w") as f:
        for c in h:
            f.write(json.dumps(c, separators=(",", ":")) + "\n")
    return p


def conclude(pid, tier, level, histories, failures, rerun, coverage, t0, assumptions, max_report=6):
    """failures: list of vtrace.Failure.  rerun(history) -> list of Failure for that single history."""
    known = vc.load_known()
    # per history: the failures of this property at its first failing step whose failures are not ALL listed as known
    # findings (later steps may be consequences of an unlisted failure - but a listed finding must not hide what follows it)
    by_hist = {}
    for f in failures:
        if f.prop in (pid, "CRASH"):
            by_hist.setdefault(f.history, {}).setdefault(f.step, []).append(f)
    known_hits = {}
    # every single failure is matched against the known findings on its own (what + detail + command): a listed finding
    # never hides a different failure that merely shares its label; representatives are chosen among the unlisted ones
    reps = {}
    for hi, steps in by_hist.items():
        hist = histories[hi]
        for st in sorted(steps):
            unknown = []
            for f in steps[st]:
                cmd = hist[f.step] if 0 <= f.step < len(hist) else None
                kf = match_known(pid, f, cmd, known)
                if kf:
                    known_hits[kf["id"]] = kf
                else:
                    unknown.append(f)
            if unknown:
                for f in unknown:
                    k = f.key()
                    if k not in reps or f.step < reps[k].step:
                        reps[k] = f
                break
    violations = []
    flaky = 0
    unconfirmed_budget = max_report * 3
    for k, f in sorted(reps.items(), key=lambda kv: kv[1].step):
        hist = histories[f.history]
        # only the re-runs are budgeted
        if unconfirmed_budget <= 0:
            violations.append((f, save_replay(pid, hist, f.step if f.prop != "CRASH" else None)))
            continue
        unconfirmed_budget -= 1
        # confirm on an immediate re-run of the same history (a flaky rejection is not reported)
        # (a threaded execution is re-run whole: cutting it at the failing call would remove the calls that ran beside it)
        whole = f.prop == "CRASH" or (hist and isinstance(hist[0], dict) and hist[0].get("mode") == "par")
        again = rerun(hist if whole else hist[:f.step + 1])
        again_first = vtrace.first_failures(again, pid)
        replay_hist, replay_step = hist, (None if whole else f.step)
        if not again_first:
            # not reproduced on its own: the histories of one chunk run in ONE process, so state that the library keeps per
            # process (statics, tables initialised on first use) can reach it from the histories before it - run them again
            # together, exactly as they ran
            c0 = getattr(f, "chunk0", f.history)
            pre = histories[c0:f.history]
            if pre and sum(len(h) for h in pre) <= 60000:
                joined = [c for h in pre for c in h] + (hist[:f.step + 1] if f.prop != "CRASH" else hist)
                again_first = vtrace.first_failures(rerun(joined), pid)
                if again_first:
                    replay_hist, replay_step = joined, None
        if not again_first:
            flaky += 1
            continue
        path = save_replay(pid, replay_hist, replay_step)
        violations.append((f, path))
        if len(violations) >= max_report:
            break
    for kid, kf in known_hits.items():
        print("KNOWN-FINDING: property=%s %s: %s" % (pid, kid, kf.get("desc", "")))
    for f, path in violations:
        print("VIOLATION property=%s replay=%s" % (pid, path))
        print("  what=%s at step %d (%s) %s" % (f.what, f.step, f.event, f.detail[:300].replace("\n", " ")))
    coverage = dict(coverage)
    coverage["known_findings_seen"] = sorted(known_hits.keys())
    coverage["flaky_unconfirmed"] = flaky
    vc.write_evidence(pid, tier, level, coverage, time.time() - t0, violations=len(violations), assumptions=assumptions)
    if violations:
        return 1
    print("OK property=%s tier=%s (%.1fs)" % (pid, tier, time.time() - t0))
    return 0


def replay_one(pid, replay, rerun):
    """--replay: run one recorded history again; known findings are reported as such."""
    hist = [json.loads(l) for l in open(replay) if l.strip()]
    fails = rerun(hist)
    known = vc.load_known()
    mine = [f for f in fails if f.prop in (pid, "CRASH")]
    step0 = min([f.step for f in mine]) if mine else -1
    rc = 0
    for f in [f for f in mine if f.step == step0]:
        cmd = hist[f.step] if 0 <= f.step < len(hist) else None
        kf = match_known(pid, f, cmd, known)
        if kf:
            print("KNOWN-FINDING: property=%s %s: %s" % (pid, kf["id"], kf.get("desc", "")))
        else:
            print("VIOLATION property=%s replay=%s" % (pid, replay))
            print("  what=%s at step %d (%s)" % (f.what, f.step, f.event))
            rc = 1
    if rc == 0:
        print("OK replay holds")
    return rc


def sample_histories(histories, n=3, maxlen=14):
    out = []
    for h in histories[:n]:
        hh = []
        for c in h[:maxlen]:
            c = dict(c)
            if "banks" in c:
                c["banks"] = "<%d banks>" % len(c["banks"])
            hh.append(c)
        out.append(hh)
    return out


# ------------------------------------------------------------------ Synth family
import gen_synth

SYNTH_ASSUME = [
    "projection harness/vh.hpp (snapshot of MIDI channels 0,1,9 and all chip channels) is faithful",
    "register tap hook H1 sees every chip write (OPN2::writeReg/writeRegI/writePan)",
    "TLC 1.8 evaluates SynthProps/SynthTrace correctly; JSON trace round-trips integers < 2^31",
]


MC_CFG = """SPECIFICATION Spec
CONSTANTS
  NC = %(nc)d
  MaxDepth = %(depth)d
  ArpOn = %(arp)s
  AllocMode = %(alloc)d
  EmitDepth = %(emit)d
INVARIANT NoBad
%(extra)s
CHECK_DEADLOCK FALSE
"""


def write_cfg(name, text):
    os.makedirs(vc.OUT, exist_ok=True)
    p = os.path.join(vc.OUT, name)
    open(p, "w").write(text)
    return p


def synth_model_phase(pid, tier):
    """Leg (A): exhaustive model checking of spec/SynthMC for a small scope.  Returns list of TlcResult."""
    runs = []
    scopes = [(3, 7, "FALSE", 3)] if tier == "quick" else [(3, 8, "FALSE", 3), (2, 8, "TRUE", 3), (3, 7, "TRUE", 1), (2, 8, "FALSE", 2)]
    for (nc, depth, arp, alloc) in scopes:
        cfg = write_cfg("SynthMC_%s_%d_%d_%s_%d.cfg" % (pid, nc, depth, arp, alloc),
                        MC_CFG % {"nc": nc, "depth": depth, "arp": arp, "alloc": alloc, "emit": 0,
                                  "extra": "CONSTRAINT DepthBound\nVIEW View"})
        # (measured: depth 7 = 17 k distinct states in 20 s, each further level about 8 times as many)
        r = vc.run_tlc("SynthMC", cfg=cfg, timeout=2400, heap="24g", tag="SynthMC-" + pid)
        r.scope = {"NC": nc, "depth": depth, "arp": arp, "alloc": alloc}
        runs.append(r)
    return runs


def synth_model_behaviours(pid, n, depth, nc=3, arp="FALSE", alloc=3):
    """Behaviours generated by TLC (simulation of SynthMC) to be replayed on the real library."""
    cfg = write_cfg("SynthMC_sim_%s.cfg" % pid, MC_CFG % {"nc": nc, "depth": 1000, "arp": arp, "alloc": alloc, "emit": depth,
                                                          "extra": "CONSTRAINT Emit"})
    r = vc.run_tlc("SynthMC", cfg=cfg, timeout=600, heap="8g", simulate=max(1, n // 4), depth=depth + 1, workers=4, tag="SynthSim-" + pid)
    beh = re.findall(r'"BEHAVIOUR",\s*"(\[[0-9,\s]*\])"', r.out)
    init = {"e": "Init", "rate": 44100, "chips": 1, "lim": nc, "mch": [0, 9], "arp": 1 if arp == "TRUE" else 0,
            "alloc": -1 if alloc == 3 else alloc, "banks": gen_synth.ALLOC_BANKS}
    hs = []
    for b in beh[:n]:
        idx = json.loads(b)
        hs.append([init] + [gen_synth.SMALL_ALPHABET[i - 1] for i in idx])
    return hs, r


def run_synth_family(pid, tier, replay, profile, nhist, length, exhaustive_depth=0, drums=None):
    """drums (C05): the input dimension "short percussion hits" - dict(exh=depth of the exhaustive drum histories on channel 9,
    exh_x=depth on an XG / GS drum channel, sim=(behaviours, depth) simulated by TLC over SynthMC!DrumAlphabet,
    rnd=(histories, length) of gen_synth.drum_history, mc=depth of the exhaustive model run over DrumAlphabet); with drums
    every history is finished by gen_synth.settle(): all keys / pedals released + a final Drain step of >= 60 ms."""
    t0 = time.time()
    rng = random.Random(vc.seed() * 7919 + hash(pid) % 1000)
    rng = random.Random(vc.seed() * 7919 + sum(map(ord, pid)))

    def rerun(hist):
        f, _, _ = vtrace.run_histories(pid + "r", "drive_synth", "SynthTrace", [hist], nchunks=1)
        return f

    if replay:
        hist = [json.loads(l) for l in open(replay) if l.strip()]
        fails = rerun(hist)
        firsts = vtrace.first_failures(fails, pid)
        if firsts:
            f = list(firsts.values())[0]
            print("VIOLATION property=%s replay=%s" % (pid, replay))
            print("  what=%s at step %d (%s)" % (f.what, f.step, f.event))
            return 1
        print("OK replay holds")
        return 0

    histories = []
    if exhaustive_depth:
        for lim in (2, 3):
            histories += list(gen_synth.exhaustive_histories(exhaustive_depth, lim=lim))
    nex = len(histories)
    # behaviours chosen by TLC from the model (direction model -> code)
    nbeh = 300 if tier == "quick" else 3000
    mb, simr = synth_model_behaviours(pid, nbeh, 24 if tier == "quick" else 40, nc=3)
    mb2, _ = synth_model_behaviours(pid + "a", nbeh // 2, 24, nc=2, arp="TRUE", alloc=1)
    histories += mb + mb2
    nmb = len(mb) + len(mb2)
    histories += [gen_synth.random_history(rng, profile, length) for _ in range(nhist)]
    ndrum = {}
    drum_mc = []
    if drums:
        import threading
        drum_extra = "CONSTANT Alphabet <- DrumAlphabet\n"
        # leg (A) over the drum alphabet (runs beside the trace phase): the model keeps C05 under every short-hit history
        def drum_model_run():
            cfg = write_cfg("SynthMC_%s_drum.cfg" % pid, MC_CFG % {"nc": 3, "depth": drums["mc"], "arp": "FALSE", "alloc": 3, "emit": 0,
                                                                  "extra": drum_extra + "CONSTRAINT DepthBound\nVIEW View"})
            # (a single worker keeps the TLCGet("level") bound exact; 5 steps = 10 k transitions, 10 s)
            r = vc.run_tlc("SynthMC", cfg=cfg, timeout=2400, heap="8g", workers=1 if drums["mc"] <= 6 else 8, tag="SynthMCdrum-" + pid)
            r.scope = {"NC": 3, "depth": drums["mc"], "arp": "FALSE", "alloc": 3, "alphabet": "DrumAlphabet"}
            drum_mc.append(r)
        th = threading.Thread(target=drum_model_run)
        th.start()
        h0 = len(histories)
        histories += list(gen_synth.exhaustive_drum_histories(drums["exh"], ch=9))
        for kind in (0, 2):      # MIDI channel 1 as XG (bank MSB 127) and as GS (drum part SysEx) percussion channel
            histories += list(gen_synth.exhaustive_drum_histories(drums["exh_x"], ch=1, setup=gen_synth.perc_channel_setup(rng, 1, 0, kind)))
        ndrum["exhaustive"] = len(histories) - h0
        nsim, dsim = drums["sim"]
        cfg = write_cfg("SynthMC_sim_%s_drum.cfg" % pid, MC_CFG % {"nc": 3, "depth": 1000, "arp": "FALSE", "alloc": 3, "emit": dsim,
                                                                  "extra": drum_extra + "CONSTRAINT Emit"})
        sr = vc.run_tlc("SynthMC", cfg=cfg, timeout=600, heap="4g", simulate=max(1, nsim // 4), depth=dsim + 1, workers=4, tag="SynthSimDrum-" + pid)
        dinit = {"e": "Init", "rate": 44100, "chips": 1, "lim": 3, "mch": [0, 9], "arp": 0, "alloc": -1, "banks": gen_synth.ALLOC_BANKS}
        beh = re.findall(r'"BEHAVIOUR",\s*"(\[[0-9,\s]*\])"', sr.out)[:nsim]
        histories += [[dinit] + [gen_synth.MC_DRUM_ALPHABET[i - 1] for i in json.loads(b)] for b in beh]
        ndrum["model_generated"] = len(beh)
        nrnd, lrnd = drums["rnd"]
        histories += [gen_synth.drum_history(rng, lrnd) for _ in range(nrnd)]
        ndrum["random"] = nrnd
        histories = [gen_synth.settle(h) for h in histories]
    samples = sample_histories(histories[nex + nmb:], 2) + sample_histories(histories[nex:nex + 1], 1)
    if drums:
        samples += sample_histories(histories[-1:], 1, maxlen=40)
        # the chunks of run_histories are contiguous: mix the kinds of histories (the random ones with their minute-long Gen
        # steps cost most) so that every chunk gets the same share of each
        rng.shuffle(histories)
    failures, counters, stats = vtrace.run_histories(pid, "drive_synth", "SynthTrace", histories)
    if drums:
        th.join()
    if stats["infra"]:
        print("INFRA:", stats["infra"][0][:2000])
        return 3
    mruns = synth_model_phase(pid, tier) + drum_mc
    mstates = sum(r.distinct for r in mruns)
    mtrans = sum(r.generated for r in mruns)
    coverage = {
        "states": mstates, "transitions": mtrans,
        "traces_validated_against_impl": len(histories),
        "records_validated": stats["records"],
        "exhaustive_short_histories": nex,
        "model_generated_behaviours_replayed": nmb,
        "short_percussion_hit_histories": ndrum,
        "refinement": {"steps_checked_against_model": counters.get("refined", 0), "steps_skipped": counters.get("refskip", 0),
                       "steps_drifted": counters.get("drifted", 0), "first_drifts": stats.get("drift", [])[:5]},
        "monitor_counters": counters,
        "samples": samples,
        "evaluations": stats["records"], "distinct_nontrivial": len(histories),
        "rule": "every recorded API call is one evaluation; histories are distinct random / exhaustive / TLC-generated call sequences",
        "model_runs": [{"scope": r.scope, "ok": r.ok, "violation": r.violation, "distinct": r.distinct, "generated": r.generated,
                        "depth": r.depth, "wall_s": round(r.wall, 1)} for r in mruns],
        "exhaustive": False,
    }
    for r in mruns:
        if r.violation or not r.ok:
            print("MODEL-DRIFT: SynthMC %s reports %s (model-level result; not a verdict on the code)" % (r.scope, r.violation or ("rc=%s" % r.rc)))
    if counters.get("drifted", 0):
        print("MODEL-DRIFT: %d of %d recorded steps are not steps of spec/Synth.tla (refinement leg C); first: %s"
              % (counters["drifted"], counters.get("refined", 0), json.dumps(stats.get("drift", [])[:2])))
    level = "model_checking" if mstates > 0 else "exploration"
    return conclude(pid, tier, level, histories, failures, rerun, coverage, t0, SYNTH_ASSUME)


@register("C04")
def check_c04(pid, tier, replay):
    q = tier == "quick"
    return run_synth_family(pid, tier, replay, "alloc", 700 if q else 6000, 40 if q else 60, exhaustive_depth=2 if q else 3)


@register("C05")
def check_c05(pid, tier, replay):
    q = tier == "quick"
    drums = dict(exh=5, exh_x=4, sim=(80, 14), rnd=(80, 8), mc=6) if q else dict(exh=6, exh_x=5, sim=(800, 24), rnd=(1500, 16), mc=8)
    return run_synth_family(pid, tier, replay, "alloc", 700 if q else 6000, 40 if q else 60, exhaustive_depth=2 if q else 3, drums=drums)


@register("C06")
def check_c06(pid, tier, replay):
    q = tier == "quick"
    return run_synth_family(pid, tier, replay, "alloc", 700 if q else 6000, 50 if q else 80)


@register("C12")
def check_c12(pid, tier, replay):
    q = tier == "quick"
    return run_synth_family(pid, tier, replay, "bank", 600 if q else 5000, 40 if q else 60)


@register("C19")
def check_c19(pid, tier, replay):
    q = tier == "quick"
    return run_synth_family(pid, tier, replay, "sysex", 600 if q else 5000, 40 if q else 60)


# ------------------------------------------------------------------ C16 bank map
import gen_bank

BANK_CFG = """SPECIFICATION Spec
CONSTANTS
  MaxDepth = %(depth)d
  InitCap = %(cap)d
  EmitDepth = %(emit)d
INVARIANT NoBad
%(extra)s
CHECK_DEADLOCK FALSE
"""


@register("C16")
def check_c16(pid, tier, replay):
    t0 = time.time()
    q = tier == "quick"
    rng = random.Random(vc.seed() * 7919 + 16)

    def rerun(hist):
        f, _, _ = vtrace.run_histories(pid + "r", "drive_bank", "BankTrace", [hist], nchunks=1, marker='{"o":"init"')
        return f

    if replay:
        hist = [json.loads(l) for l in open(replay) if l.strip()]
        firsts = vtrace.first_failures(rerun(hist), pid)
        if firsts:
            f = list(firsts.values())[0]
            print("VIOLATION property=%s replay=%s" % (pid, replay))
            print("  what=%s at step %d (%s)" % (f.what, f.step, f.event))
            return 1
        print("OK replay holds")
        return 0

    # leg A: exhaustive model checking of the concrete map against the abstract map
    mruns = []
    for (depth, cap) in ([(6, 0), (6, 5)] if q else [(8, 0), (7, 4), (7, 5)]):
        cfg = write_cfg("BankMapMC_%d_%d.cfg" % (depth, cap), BANK_CFG % {"depth": depth, "cap": cap, "emit": 0, "extra": "CONSTRAINT DepthBound\nVIEW View"})
        r = vc.run_tlc("BankMapMC", cfg=cfg, timeout=2400, heap="16g")
        r.scope = {"depth": depth, "initcap": cap}
        mruns.append(r)
    # TLC-generated behaviours (simulation) replayed on the real map
    ops = gen_bank.mc_ops()
    beh_hist = []
    for cap in (0, 5):
        cfg = write_cfg("BankMapMC_sim_%d.cfg" % cap, BANK_CFG % {"depth": 1000, "cap": cap, "emit": 20, "extra": "CONSTRAINT Emit"})
        r = vc.run_tlc("BankMapMC", cfg=cfg, timeout=600, heap="4g", simulate=(40 if q else 400), depth=21, workers=4)
        for b in re.findall(r'"BEHAVIOUR",\s*"(\[[0-9,\s]*\])"', r.out):
            h = [{"o": "init", "probe": gen_bank.UNIVERSE}] + ([{"o": "reserve", "n": cap}] if cap else [])
            for i in json.loads(b):
                op = ops[i - 1]
                if op["o"] == "clear":
                    op = {"o": "load", "keys": [{"key": 0, "ins": gen_bank.mk_ins(0, 7)}, {"key": 32768}], "bad": 1}  # a rejected load = no-op
                h.append(op)
            beh_hist.append(h)
    histories = list(beh_hist)
    nmb = len(histories)
    ex = list(gen_bank.exhaustive(2 if q else 3)) + list(gen_bank.exhaustive(2, initcap=5))
    histories += ex
    histories += [gen_bank.random_history(rng, 40 if q else 80) for _ in range(300 if q else 3000)]
    # flags x voice data x previous slot content of the instruments written (read-back = last written, every field)
    histories += [gen_bank.flag_data_history(rng, 30 if q else 60) for _ in range(60 if q else 1200)]
    failures, counters, stats = vtrace.run_histories(pid, "drive_bank", "BankTrace", histories, marker='{"o":"init"')
    if stats["infra"]:
        print("INFRA:", stats["infra"][0][:2000])
        return 3
    coverage = {
        "states": sum(r.distinct for r in mruns), "transitions": sum(r.generated for r in mruns),
        "traces_validated_against_impl": len(histories), "records_validated": stats["records"],
        "model_generated_behaviours_replayed": nmb, "exhaustive_short_histories": len(ex),
        "refinement": {"steps_checked_against_model": counters.get("refined", 0), "steps_drifted": counters.get("drifted", 0),
                       "first_drifts": stats.get("drift", [])[:5]},
        "monitor_counters": counters,
        "samples": sample_histories(histories[nmb + len(ex):], 2, 12) + sample_histories(histories[:1], 1, 12),
        "model_runs": [{"scope": r.scope, "ok": r.ok, "violation": r.violation, "distinct": r.distinct, "generated": r.generated,
                        "wall_s": round(r.wall, 1)} for r in mruns],
        "exhaustive": False,
    }
    for r in mruns:
        if r.violation or not r.ok:
            print("MODEL-DRIFT: BankMapMC %s reports %s" % (r.scope, r.violation or ("rc=%s" % r.rc)))
    if counters.get("drifted", 0):
        print("MODEL-DRIFT: %d recorded steps differ from spec/BankMap.tla (iteration order / capacity): %s" % (counters["drifted"], json.dumps(stats["drift"][:2])))
    return conclude(pid, tier, "model_checking", histories, failures, rerun, coverage, t0,
                    ["harness/drive_bank.cpp observes the map only through the public bank API",
                     "allocation counting by a harness-side operator new override",
                     "a stale OPN2_Bank handle is never passed (API contract): remove/set use a fresh lookup"])


# ------------------------------------------------------------------ plug-in check modules (lib/checks_*.py)
def _load_plugins():
    import glob, importlib
    for p in sorted(glob.glob(os.path.join(os.path.dirname(os.path.abspath(__file__)), "checks_*.py"))):
        importlib.import_module(os.path.basename(p)[:-3])


# ------------------------------------------------------------------ Sequencer family (C07 C08 C09)
import gen_seq

SEQ_ASSUME = ["songs are generated from the integral-tempo family (one tick = whole microseconds) so reference times are exact",
              "track attribution of delivered events through channel = track number and tagged meta/sysex payloads",
              "harness/drive_seq.cpp encodes abstract songs to SMF bytes (trusted encoder, ~60 lines)"]


def run_seq_family(pid, tier, replay, make_histories, model=True, mc="SeqMC_%s.cfg"):
    t0 = time.time()
    rng = random.Random(vc.seed() * 7919 + sum(map(ord, pid)))

    def rerun(hist):
        f, _, _ = vtrace.run_histories(pid + "r", "drive_seq", "SeqTrace", [hist], nchunks=1, tlc_env={"SEQ_REFINE": "0"})
        return f

    if replay:
        return replay_one(pid, replay, rerun)
    histories = make_histories(rng, tier)
    # leg A (single-threaded for most of its run) goes on in the background while the executions are recorded and validated
    import concurrent.futures as _cf
    bg = _cf.ThreadPoolExecutor(max_workers=1)
    mfuture = bg.submit(seq_model_phase, pid, tier, mc) if model else None
    failures, counters, stats = vtrace.run_histories(pid, "drive_seq", "SeqTrace", histories, tlc_timeout=1500,
                                                     tlc_env={"SEQ_REFINE": "1" if model else "0"})
    if stats["infra"]:
        print("INFRA:", stats["infra"][0][:2000])
        bg.shutdown(wait=False)
        return 3
    mruns = mfuture.result() if mfuture else []
    bg.shutdown()
    coverage = {
        "states": sum(r.distinct for r in mruns), "transitions": sum(r.generated for r in mruns),
        "traces_validated_against_impl": len(histories), "records_validated": stats["records"],
        "monitor_counters": counters,
        "refinement": {"plays_checked_against_model": counters.get("refined", 0), "plays_drifted": counters.get("drifted", 0),
                       "first_drifts": stats.get("drift", [])[:4]},
        "samples": [[{k: v for k, v in c.items() if k != "tracks"} if c.get("e") == "Song" else c for c in h] for h in histories[:2]] +
                   [h[1] for h in histories[:1]],
        "evaluations": counters.get("events", 0), "distinct_nontrivial": len(histories),
        "rule": "one evaluation per delivered event; every history is a distinct generated song with its own playback configuration",
        "model_runs": [{"scope": getattr(r, "scope", {}), "ok": r.ok, "violation": r.violation, "distinct": r.distinct,
                        "generated": r.generated, "wall_s": round(r.wall, 1)} for r in mruns],
        "exhaustive": False,
    }
    for r in mruns:
        if r.violation or not r.ok:
            print("MODEL-DRIFT: %s reports %s" % (getattr(r, "scope", {}), r.violation or ("rc=%s" % r.rc)))
    if counters.get("drifted", 0):
        print("MODEL-DRIFT: %d recorded plays differ from the delivery predicted by spec/Seq.tla: %s" % (counters["drifted"], json.dumps(stats.get("drift", [])[:2])))
    level = "model_checking" if coverage["states"] > 0 else "exploration"
    return conclude(pid, tier, level, histories, failures, rerun, coverage, t0, SEQ_ASSUME)


def seq_model_phase(pid, tier, mc="SeqMC_%s.cfg"):
    """Leg (A): exhaustive model checking of spec/SeqMC (if present)."""
    if not os.path.exists(os.path.join(vc.SPEC, "SeqMC.tla")):
        return []
    runs = []
    for name in (["quick"] if tier == "quick" else ["quick", "thorough"]):
        cfg = os.path.join(vc.SPEC, mc % name)
        if os.path.exists(cfg):
            r = vc.run_tlc("SeqMC", cfg=os.path.basename(cfg), timeout=2400, heap="16g", tag="SeqMC-" + pid)
            r.scope = {"cfg": name}
            runs.append(r)
    return runs


@register("C07")
def check_c07(pid, tier, replay):
    def mk(rng, tier):
        n = 260 if tier == "quick" else 3000
        hs = []
        for i in range(n):
            song = gen_seq.random_song(rng, maxev=10 if tier == "quick" else 24,
                                       ntracks=None if tier == "quick" else rng.choice([1, 2, 3, 4, 6, 8]), tempo_rich=rng.random() < 0.3,
                                       ports=i % 4 == 3)
            hs.append(gen_seq.play_history(rng, song, "gating" if i % 4 == 3 else rng.choice(["plain", "plain", "gating"])))
        # audio-driven playback (short songs: rendering is real)
        for i in range(40 if tier == "quick" else 400):
            song = gen_seq.random_song(rng, maxev=6, ntracks=rng.choice([1, 2]))
            hs.append(gen_seq.play_history(rng, song, "audio"))
        # one instance, two songs in a row
        for i in range(50 if tier == "quick" else 500):
            a = gen_seq.random_song(rng, maxev=6, ntracks=rng.choice([2, 3, 4]))
            b = gen_seq.random_song(rng, maxev=8, ntracks=rng.choice([1, 2, 3, 4, 5]))
            hs.append(gen_seq.reload_history(rng, a, b))
        return hs
    return run_seq_family(pid, tier, replay, mk)


@register("C09")
def check_c09(pid, tier, replay):
    def mk(rng, tier):
        n = 220 if tier == "quick" else 2500
        hs = []
        for i in range(n):
            song = gen_seq.random_song(rng, maxev=8 if tier == "quick" else 16, loops="random" if rng.random() < 0.85 else "none",
                                       tempo_rich=rng.random() < 0.35)
            hs.append(gen_seq.play_history(rng, song, "loop" if rng.random() < 0.9 else "plain"))
        # a seek into a looping song: the rest of the pass, then the remaining passes (counted from the start of the song)
        for i in range(60 if tier == "quick" else 600):
            song = gen_seq.random_song(rng, maxev=8, loops=rng.choice(["valid", "valid", "random", "none"]), tempo_rich=rng.random() < 0.3)
            hs.append(gen_seq.seek_history(rng, song, loop=True, loop_p=1.0))
        # two looping songs in a row: the loop-controller style of the first file (CC110 HMI / EMIDI) ends with it
        for i in range(40 if tier == "quick" else 400):
            a = gen_seq.random_song(rng, maxev=6, loops=rng.choice(["hmi", "emidi", "hmi", "valid"]))
            b = gen_seq.random_song(rng, maxev=8, loops="none")
            gen_seq.place_loops(rng, b, rng.choice(["valid", "startonly", "valid", "hmi"]), force_cc=True)
            hs.append(gen_seq.loop_reload_history(rng, a, b))
        return hs
    return run_seq_family(pid, tier, replay, mk)


@register("C08")
def check_c08(pid, tier, replay):
    def mk(rng, tier):
        n = 300 if tier == "quick" else 3000
        hs = []
        for i in range(n):
            song = gen_seq.random_song(rng, maxev=10 if tier == "quick" else 20, loops=rng.choice(["none", "none", "random"]),
                                       tempo_rich=rng.random() < 0.5)
            # melodic channels only: no percussion minimum-life residue after the seek
            hs.append(gen_seq.seek_history(rng, song, loop=i % 3 == 2))
        return hs
    return run_seq_family(pid, tier, replay, mk, mc="SeqMC_seek_%s.cfg")
