"""Histories for the pitch check (C10) and the reference table of spec/Pitch.tla.

A history is a list of commands for harness/drive_pitch; the first one is an init command.
  {"o":"init","fam":0|1,"chips":n,"banks":[...]}            fam: opn2_setChipType (0 = OPN2, 1 = OPNA)
      with "seq":1 the commands up to the next init line are delivered by the sequencer from a two-port song (channels 16..31 =
      second port); only pc / cc / on / off / bend / bendml / cat / nat are available then
  {"o":"pc","ch":c,"p":p}   {"o":"cc","ch":c,"n":n,"v":x}   {"o":"on","ch":c,"k":k,"v":vel}   {"o":"off","ch":c,"k":k}
  {"o":"bend","ch":c,"v":0..16383}   {"o":"bendml","ch":c,"m":msb,"l":lsb}   {"o":"tick","us":microseconds}
  {"o":"cat","ch":c,"v":x} (channel aftertouch)   {"o":"nat","ch":c,"k":k,"v":x} (key aftertouch)
  {"o":"sweep","ax":"bend","ch":c,"vals":[...] | "lo":a,"hi":b,"st":s}     one opn2_rt_pitchBend per value
  {"o":"sweep","ax":"key","ch":c,"vals":[...] | "lo":a,"hi":b,"st":s}      NoteOn + NoteOff per key

Generators: the property's quantifier as sweeps (keys x bend values x RPN-0 ranges x instrument
offsets x chip family), fine single-step bend sweeps across block boundaries, exhaustive short
sequences for the re-pitch rule, portamento start/end points, instruments whose offset overflows the
frequency computation (run under alarm), seeded random histories and conversion of TLC-generated
behaviours (spec/PitchMC.tla Part 3 BEHAVIOUR lines)."""
import itertools, random

# ------------------------------------------------------------------ reference table of spec/Pitch.tla
TAB_N = 768
TAB_SCALE = 20


def _iroot(n, k):
    lo, hi = 0, 1 << (n.bit_length() // k + 1)
    while lo < hi:
        mid = (lo + hi + 1) >> 1
        if mid ** k <= n:
            lo = mid
        else:
            hi = mid - 1
    return lo


def table():
    """Tab[i] = round(2^(i/768) * 2^20), i = 0..768, by exact integer arithmetic (integer 768th root)."""
    return [(_iroot((1 << i) << ((TAB_SCALE + 1) * TAB_N), TAB_N) + 1) >> 1 for i in range(TAB_N + 1)]


def tla_table_text(per_line=12):
    t = table()
    return ",\n".join("  " + ", ".join(str(x) for x in t[i:i + per_line]) for i in range(0, len(t), per_line)) + "\n"


def k_constants():
    """K[fam] = round(12 * 2^20 * log2(440 * 2^21 * 144 / clock) - 69 * 2^20) (50-digit decimal arithmetic)."""
    from decimal import Decimal, getcontext
    getcontext().prec = 50
    ln2 = Decimal(2).ln()
    out = {}
    for fam, clock in ((0, 7670454), (1, 7987200)):
        c = Decimal(440) * Decimal(2 ** 21 * 144) / Decimal(clock)
        out[fam] = int((Decimal(12 * 2 ** 20) * c.ln() / ln2 - 69 * 2 ** 20).to_integral_value())
    return out


# ------------------------------------------------------------------ instruments
RANGES = [(2, 0), (2, 64), (12, 0), (12, 64), (24, 0), (24, 64)]
# program -> (note offset, operator multipliers)
PROGS = {0: (0, [1, 1, 1, 1]), 1: (-12, [1, 1, 1, 1]), 2: (7, [1, 1, 1, 1]), 3: (0, [0, 1, 2, 14]), 4: (12, [2, 1, 4, 1]),
         5: (-24, [1, 1, 1, 1]), 6: (24, [1, 3, 1, 15]), 7: (1, [1, 1, 1, 1]), 8: (-60, [1, 1, 1, 1]), 9: (100, [1, 2, 3, 4])}
# percussion key -> (drum key byte, note offset): 0 = the key itself, >= 128 = byte - 128
DRUMS = {35: (48, 0), 36: (200, 5), 37: (0, -12), 38: (127, 7), 39: (128, 0), 40: (255, 7), 41: (60, 0), 42: (1, 24)}


def ins(i, noff=0, drum=0, mul=(1, 1, 1, 1), ident=None):
    return {"i": i, "id": (ident if ident is not None else 1 + i % 1000), "kon": 500, "koff": 300, "drum": drum, "noff": noff, "flags": 0,
            "fbalg": 7, "veloff": 0, "lfosens": 0, "tl": [20, 30, 40, 10], "mul": list(mul)}


def banks(progs=None, drums=None):
    progs = PROGS if progs is None else progs
    drums = DRUMS if drums is None else drums
    mel = [ins(p, noff, 0, mul, ident=1 + p) for p, (noff, mul) in sorted(progs.items())]
    perc = [ins(k, noff, drum, ident=101 + k) for k, (drum, noff) in sorted(drums.items())]
    return [{"p": 0, "msb": 0, "lsb": 0, "ins": mel}, {"p": 1, "msb": 0, "lsb": 0, "ins": perc}]


def init(fam=0, chips=1, bk=None):
    return {"o": "init", "fam": fam, "chips": chips, "banks": bk if bk is not None else banks()}


def cc(ch, n, v):
    return {"o": "cc", "ch": ch, "n": n, "v": v}


def rpn_range(ch, msb, lsb):
    """bend range through RPN 0: CC101 = 0, CC100 = 0, CC6 = msb, CC38 = lsb"""
    return [cc(ch, 101, 0), cc(ch, 100, 0), cc(ch, 6, msb), cc(ch, 38, lsb)]


def on(ch, k, v=100): return {"o": "on", "ch": ch, "k": k, "v": v}
def off(ch, k): return {"o": "off", "ch": ch, "k": k}
def bend(ch, v): return {"o": "bend", "ch": ch, "v": v}
def tick(us): return {"o": "tick", "us": us}


def bend_grid(n=65):
    """n bend message values: both ends, the centre and its neighbours, and an even spread"""
    must = [0, 1, 4096, 8191, 8192, 8193, 12288, 16382, 16383]
    m = max(2, n - len(must) + 2)
    vals = set(must) | {round(i * 16383 / (m - 1)) for i in range(m)}
    return sorted(vals)


# ------------------------------------------------------------------ the quantifier as sweeps
def sweep_histories(bend_vals=None, all_bends=False, keys=None, chips=2, split=2, progs=(0, 1, 2), ranges=None, fams=(0, 1)):
    """every key x bend value x RPN-0 range x instrument offset x chip family: the keys are held in groups that
    fill the chip channels, the bend values are sent to the whole group (so every bend call must re-pitch the
    whole group at once)."""
    keys = list(range(128)) if keys is None else list(keys)
    ranges = RANGES if ranges is None else ranges
    bend_vals = bend_vals or bend_grid()
    group = 6 * chips
    out = []
    for fam in fams:
        for (msb, lsb) in ranges:
            for p in progs:
                for part in range(split):
                    ks = keys[part::split] if split > 1 else keys
                    h = [init(fam, chips)]
                    ch = (p + part) % 9                       # melodic channels 0..8
                    h += rpn_range(ch, msb, lsb)
                    h.append({"o": "pc", "ch": ch, "p": p})
                    for g in range(0, len(ks), group):
                        grp = ks[g:g + group]
                        h.append(bend(ch, 8192))
                        h += [on(ch, k) for k in grp]
                        if all_bends:
                            h.append({"o": "sweep", "ax": "bend", "ch": ch, "lo": 0, "hi": 16383, "st": 1})
                        else:
                            vals = bend_vals if (g // group) % 2 == 0 else bend_vals[::-1]
                            h.append({"o": "sweep", "ax": "bend", "ch": ch, "vals": vals})
                        h += [off(ch, k) for k in grp]
                    out.append(h)
    return out


def fine_histories(width=1024, fams=(0, 1)):
    """single-step bend sweeps (range 2 semitones: 1/4096 semitone per step) of keys that sit at the block
    boundaries (F-number 1023.75 -> 512) and at the end of the native range, up and down; one note per chip
    channel so that consecutive writes of a channel are neighbouring pitches"""
    out = []
    for fam in fams:
        for (msb, lsb, keys, centre) in ((2, 0, [20, 32, 44, 56, 68, 80], 8192 + 120), (2, 0, [8, 92, 104, 115, 116, 0], 8192),
                                         (12, 64, [21, 45, 69, 93, 105, 116], 8192 - 300), (24, 64, [10, 34, 58, 82, 106, 127], 8192)):
            h = [init(fam, 1)]
            h += rpn_range(0, msb, lsb)
            for k in keys:
                # one MIDI channel per key: every bend call re-pitches exactly one note, neighbours in pitch follow each other
                ch = keys.index(k)
                h += rpn_range(ch, msb, lsb)
                h.append(on(ch, k))
                lo, hi = max(0, centre - width // 2), min(16383, centre + width // 2)
                h.append({"o": "sweep", "ax": "bend", "ch": ch, "lo": lo, "hi": hi, "st": 1})
                h.append({"o": "sweep", "ax": "bend", "ch": ch, "lo": hi, "hi": lo, "st": -1})
            out.append(h)
    return out


def key_sweep_histories(fams=(0, 1)):
    """every key of every program (note offsets, operator multipliers incl. the extended range) and the
    percussion keys (drum key bytes), at three bend positions"""
    out = []
    for fam in fams:
        for (msb, lsb), bv in zip(RANGES[::2] + RANGES[1::2], [8192, 0, 16383, 8192, 1, 16382]):
            h = [init(fam, 1)]
            for p in sorted(PROGS):
                ch = p % 9
                h += rpn_range(ch, msb, lsb)
                h += [{"o": "pc", "ch": ch, "p": p}, bend(ch, bv)]
                h.append({"o": "sweep", "ax": "key", "ch": ch, "lo": 0, "hi": 127, "st": 1} if p % 2 == 0 else
                         {"o": "sweep", "ax": "key", "ch": ch, "lo": 127, "hi": 0, "st": -1})
            h += rpn_range(9, msb, lsb)
            h.append(bend(9, bv))
            for k in sorted(DRUMS):
                h += [on(9, k), bend(9, 8192 + (k - 38) * 1000), tick(40000), off(9, k), tick(40000)]
            out.append(h)
    return out


# ------------------------------------------------------------------ re-pitch rule
RULE_ALPHABET = [on(0, 60), on(0, 64), off(0, 60), off(0, 64), cc(0, 64, 127), cc(0, 64, 0), cc(0, 66, 127), cc(0, 66, 0),
                 bend(0, 0), bend(0, 8192), bend(0, 16383)]


def rule_prelude(fam=0, ch=0, msb=2, lsb=0):
    return [init(fam, 1)] + rpn_range(ch, msb, lsb)


def on_channel(c, ch):
    c = dict(c)
    c["ch"] = ch
    if ch == 9 and "k" in c:
        c["k"] = 35 if c["k"] == 60 else 36
    return c


def exhaustive_rule(depth, ch=0, fam=0):
    """every sequence of `depth` calls over RULE_ALPHABET that ends with a pitch bend"""
    n = len(RULE_ALPHABET)
    for idx in itertools.product(range(n), repeat=depth):
        if RULE_ALPHABET[idx[-1]]["o"] != "bend":
            continue
        if not any(RULE_ALPHABET[i]["o"] == "on" for i in idx):
            continue
        yield rule_prelude(fam, ch) + [on_channel(RULE_ALPHABET[i], ch) for i in idx]


def behaviour_to_history(idx, i=0):
    """TLC-chosen behaviour of PitchMC Part 3 (indices into Alphabet = RULE_ALPHABET, 1-based)"""
    ch = [0, 3, 9][i % 3]
    msb, lsb = RANGES[i % len(RANGES)]
    return rule_prelude(i % 2, ch, msb, lsb) + [on_channel(RULE_ALPHABET[j - 1], ch) for j in idx]


# ------------------------------------------------------------------ portamento
def porta_histories(fams=(0, 1)):
    """glide start point = key of the previous NoteOn, end point = the note's own tone (after a long tick);
    legato and detached, up and down, pitch bends during the glide, several portamento times"""
    out = []
    pairs = [(40, 52), (72, 60), (0, 127), (127, 0), (60, 61), (64, 64), (30, 100)]
    for fam in fams:
        for i, (a, b) in enumerate(pairs):
            for legato in (0, 1):
                ch = (i + legato) % 9
                msb, lsb = RANGES[(i + fam) % len(RANGES)]
                p = [0, 1, 2][(i + legato) % 3]
                h = [init(fam, 1)] + rpn_range(ch, msb, lsb) + [{"o": "pc", "ch": ch, "p": p}]
                h += [cc(ch, 5, [1, 10, 64, 127][i % 4]), cc(ch, 37, [0, 127][legato]), cc(ch, 65, 127)]
                h.append(on(ch, a))
                if not legato:
                    h.append(off(ch, a))
                h.append(on(ch, b))
                h += [tick(10000), tick(20000), bend(ch, 8192 + 2000 * (1 if i % 2 else -1)), tick(5000), tick(100000000), bend(ch, 8192), tick(10000)]
                # portamento switched off: the next note starts at its own pitch
                h += [cc(ch, 65, 0), on(ch, (a + 7) % 128), cc(ch, 65, 127), cc(ch, 5, 0), cc(ch, 37, 0), on(ch, (b + 5) % 128), tick(100000000)]
                out.append(h)
    return out


# ------------------------------------------------------------------ instruments that overflow the frequency computation (F10)
def hang_histories():
    out = []
    for (noff, perc) in ((32767, 0), (32767, 1), (12300, 0)):
        bk = banks(progs={0: (noff, [1, 1, 1, 1]), 1: (0, [1, 1, 1, 1])}, drums={35: (48, noff), 36: (48, 0)})
        ch, k = (9, 35) if perc else (0, 60)
        out.append([init(0, 1, bk)] + rpn_range(ch, 2, 0) + [on(ch, k), bend(ch, 9000), off(ch, k)])
    # the largest offsets that still give a finite frequency: must terminate (about 1000 loop iterations)
    bk = banks(progs={0: (12000, [1, 1, 1, 1]), 1: (-32768, [1, 1, 1, 1]), 2: (2000, [1, 1, 1, 1])}, drums={35: (48, 0)})
    out.append([init(1, 1, bk)] + sum([rpn_range(c, 2, 0) + [{"o": "pc", "ch": c, "p": c}, on(c, 60), bend(c, 9000), off(c, 60)] for c in (0, 1, 2)], []))
    return out


# ------------------------------------------------------------------ random
def random_history(rng, length=40):
    fam = rng.randrange(2)
    chans = [0, 1, 9]
    # three chips = 18 chip channels and at most 16 NoteOn calls: a note never has to share or steal a chip channel
    h = [init(fam, 3)]
    ons = 0
    for ch in chans:
        h += rpn_range(ch, *rng.choice(RANGES + [(0, 0), (1, 0), (0, 127), (48, 0), (96, 127)]))
    held = {c: [] for c in chans}
    vib = False
    for _ in range(length):
        ch = rng.choice(chans)
        r = rng.random()
        keys = sorted(DRUMS) if ch == 9 else [0, 12, 20, 33, 47, 60, 61, 69, 72, 90, 104, 115, 116, 120, 127]
        if r < 0.22 and ons < 16:
            k = rng.choice(keys); h.append(on(ch, k, rng.choice([1, 64, 100, 127]))); held[ch].append(k); ons += 1
        elif r < 0.32 and held[ch]:
            k = rng.choice(held[ch]); h.append(off(ch, k)); held[ch].remove(k)
        elif r < 0.55:
            h.append(bend(ch, rng.choice([0, 1, 8191, 8192, 8193, 16383, rng.randrange(16384), rng.randrange(16384)])))
        elif r < 0.60:
            v = rng.randrange(16384); h.append({"o": "bendml", "ch": ch, "m": v >> 7, "l": v & 127})
        elif r < 0.66:
            h += rpn_range(ch, *rng.choice(RANGES + [(0, 0), (5, 100), (96, 0)]))
        elif r < 0.70:
            # data entry for another parameter (fine tuning, null, NRPN) must not change the bend range
            sel = rng.choice([(101, 0, 100, 1), (101, 127, 100, 127), (99, 1, 98, 8)])
            h += [cc(ch, sel[0], sel[1]), cc(ch, sel[2], sel[3]), cc(ch, 6, rng.randrange(128)), cc(ch, 38, rng.randrange(128))]
        elif r < 0.75 and ch != 9:
            h.append({"o": "pc", "ch": ch, "p": rng.choice(sorted(PROGS))})
        elif r < 0.80:
            h.append(cc(ch, 64, rng.choice([0, 127])))
        elif r < 0.84:
            h.append(cc(ch, 66, rng.choice([0, 127])))
        elif r < 0.88:
            h += [cc(ch, 65, rng.choice([0, 127])), cc(ch, 5, rng.choice([0, 1, 40, 127]))]
        elif r < 0.94:
            h.append(tick(rng.choice([1000, 10000, 40000, 1000000, 100000000])))
        elif r < 0.96:
            h.append(cc(ch, rng.choice([7, 10, 11, 74, 91]), rng.randrange(128)))
        elif r < 0.98 and not vib and rng.random() < 0.3:
            vib = True; h.append(cc(ch, 1, rng.choice([1, 64, 127])))
        elif r < 0.985:
            h.append(bend(ch, 8192))
        elif r < 0.993:
            # every note is cut, the channels keep wheel / range / program: what is played afterwards is pitched as before
            h.append(rng.choice([{"o": "panic"}, {"o": "panic"}, {"o": "emu", "v": rng.choice([0, 2, 3])}, {"o": "chips", "n": rng.choice([3, 4])}]))
            held = {c: [] for c in chans}; ons = 0
        else:
            # reset all controllers: the bend range falls back to 2 semitones, the wheel is centred
            h += [cc(ch, 121, 0), bend(ch, rng.choice([0, 16383, rng.randrange(16384)]))]
    return h


def seq_history(rng, length=40):
    """the same commands delivered by the SEQUENCER from a two-port song (init option "seq", see harness/drive_pitch.cpp):
    channels 16..31 are channels 0..15 of the second MIDI port.  The same channel numbers are in use on both ports at the
    same time, so an event routed to the wrong port re-pitches (or fails to re-pitch) the other port's notes.  No time
    commands, portamento or vibrato: a millisecond passes between two commands here."""
    fam = rng.randrange(2)
    base = rng.choice([[0, 1, 9], [0, 3, 9], [2, 9]])
    chans = base + [16 + c for c in base]
    h = [dict(init(fam, 3), seq=1)]
    ons = 0
    for ch in chans:
        h += rpn_range(ch, *rng.choice(RANGES + [(1, 0), (48, 0)]))
    held = {c: [] for c in chans}
    for _ in range(length):
        ch = rng.choice(chans)
        r = rng.random()
        keys = sorted(DRUMS) if ch % 16 == 9 else [12, 20, 33, 47, 60, 61, 69, 72, 90, 104]
        if r < 0.28 and ons < 16:
            k = rng.choice(keys); h.append(on(ch, k, rng.choice([1, 64, 100, 127]))); held[ch].append(k); ons += 1
        elif r < 0.36 and held[ch]:
            k = rng.choice(held[ch]); h.append(off(ch, k)); held[ch].remove(k)
        elif r < 0.68:
            h.append(bend(ch, rng.choice([0, 8191, 8192, 8193, 16383, rng.randrange(16384), rng.randrange(16384)])))
        elif r < 0.72:
            v = rng.randrange(16384); h.append({"o": "bendml", "ch": ch, "m": v >> 7, "l": v & 127})
        elif r < 0.80:
            h += rpn_range(ch, *rng.choice(RANGES + [(0, 0), (5, 100)]))
        elif r < 0.86 and ch % 16 != 9:
            h.append({"o": "pc", "ch": ch, "p": rng.choice(sorted(PROGS))})
        elif r < 0.91:
            h.append(cc(ch, 64, rng.choice([0, 127])))
        elif r < 0.94:
            h.append(cc(ch, 66, rng.choice([0, 127])))
        elif r < 0.97:
            h.append(cc(ch, rng.choice([7, 10, 11, 74, 91]), rng.randrange(128)))
        else:
            h += [cc(ch, 121, 0), bend(ch, rng.choice([0, 16383, rng.randrange(16384)]))]
    return h


def cut_histories(fams=(0, 1)):
    """opn2_panic / emulator switch / chip count in the middle of a stream: notes end, wheel and bend range stay in force for
    the notes that follow (nothing re-sends them), on melodic and percussion channels"""
    out = []
    for fam in fams:
        for ch in (0, 9):
            key = 40 if ch == 9 else 60
            for cut in ({"o": "panic"}, {"o": "emu", "v": 2}, {"o": "chips", "n": 2}):
                for (msb, lsb) in [(12, 0), (7, 64)]:
                    h = [init(fam, 2)] + rpn_range(ch, msb, lsb) + [bend(ch, 16383), on(ch, key), dict(cut), on(ch, key), bend(ch, 0),
                         off(ch, key), on(ch, key + 1), dict(cut), bend(ch, 12000), on(ch, key), off(ch, key)]
                    out.append(h)
    return out


def reset_histories(fams=(0, 1)):
    """CC121 after a non-default bend range: later bends and notes use the default range again (until the next RPN 0
    data entry), on every channel kind"""
    out = []
    for fam in fams:
        for ch in (0, 1, 9):
            key = 40 if ch == 9 else 60
            for (msb, lsb) in [(12, 0), (0, 64), (24, 0), (2, 0), (1, 100)]:
                h = [init(fam, 1)] + rpn_range(ch, msb, lsb) + [on(ch, key), bend(ch, 16383), cc(ch, 121, 0),
                     bend(ch, 16383), bend(ch, 0), off(ch, key), bend(ch, 12000), on(ch, key), off(ch, key),
                     cc(ch, 38, 64), bend(ch, 1000), on(ch, key), cc(ch, 6, 7), bend(ch, 15000), cc(ch, 121, 0), bend(ch, 15000), off(ch, key)]
                out.append(h)
    return out
