"""Executions for C14 (harness/drive_isolation.cpp): interleavings of 2-3 per-instance call histories
(single-threaded), solo histories (determinism) and round-structured threaded executions.

A history handed to vtrace is one execution: an Init command followed by the calls in the order in
which they are made; field i = instance (0-based).  Per-instance histories are plain lists of calls
without the i field."""
import itertools, json, random, re

EMUS = [0, 1, 2, 3, 4, 5, 6, 8]          # every audio core (7 = VGM dumper)
NAMES = {0: "mame", 1: "nuked3438", 2: "gens", 3: "ymfm-opn2", 4: "np2", 5: "mame2608", 6: "ymfm-opna", 8: "nuked2612"}
RATES = [44100, 48000, 22050]


def init(n, mode="seq"):
    return {"e": "Init", "n": n, "mode": mode}


def create(emu, rate=44100, chips=1):
    return {"e": "Create", "emu": emu, "rate": rate, "chips": chips}


def on(k=60, p=1):
    return {"e": "On", "k": k, "p": p}


def gen(fr=384):
    return {"e": "Gen", "fr": fr}


def tag(i, call, g=None):
    c = dict(call)
    c["i"] = i
    if g is not None:
        c["g"] = g
    return c


# ------------------------------------------------------------------ TLC -> executions
def mc_ops(tlc_out):
    """The operation table printed by spec/IsolationMC.tla (single source of truth for the index lists)."""
    m = re.search(r'<<"OPS", "(.*)">>', tlc_out)
    if not m:
        return None
    return json.loads(m.group(1).encode().decode("unicode_escape"))


def tlc_lists(tlc_out, marker):
    out = []
    for m in re.finditer(r'<<"%s", "(.*?)">>' % marker, tlc_out):
        s = m.group(1)
        out.append(json.loads(s.encode().decode("unicode_escape") if "\\" in s else s))
    return out


def behaviour_history(ops, idx, n):
    """TLC index list -> execution.  A note-on (LFO-sensitive patch) is put in front of every Gen so that the
    PCM carries a signal; it is a call of the same instance, so it is part of that instance's own history."""
    h = [init(n)]
    for j in idx:
        op = dict(ops[j - 1])
        i = op.pop("i") - 1
        if op["e"] == "Gen":
            h.append(tag(i, on(57 + 5 * i, 1)))
        h.append(tag(i, op))
    return h


# ------------------------------------------------------------------ exhaustive interleavings
def interleavings(hists):
    """All interleavings of the given per-instance histories (lists of calls)."""
    lens = [len(h) for h in hists]
    for perm in _multiset_perms(lens):
        pos = [0] * len(hists)
        out = []
        for i in perm:
            out.append(tag(i, hists[i][pos[i]]))
            pos[i] += 1
        yield out


def _multiset_perms(lens):
    def rec(rem, acc):
        if not any(rem):
            yield tuple(acc)
            return
        for i, r in enumerate(rem):
            if r:
                rem[i] -= 1
                acc.append(i)
                yield from rec(rem, acc)
                acc.pop()
                rem[i] += 1
    yield from rec(list(lens), [])


def solo_a(emu, rate=44100, chips=1):
    return [create(emu, rate, chips), on(60, 0), gen(384), gen(256), {"e": "Close"}]


def solo_b(emu, rate=44100, chips=1):
    return [create(emu, rate, chips), on(67, 2), gen(300), {"e": "Close"}]


def pair_executions(a, b, every=1, offset=0):
    """Interleavings of solo_a(a) and solo_b(b) (126 in total); every-th one starting at offset."""
    for q, il in enumerate(interleavings([solo_a(a), solo_b(b)])):
        if q % every == offset % every:
            yield [init(2)] + il


def triple_executions(a, b, c, every=1, offset=0):
    hs = [[create(a), on(60, 0), gen(256)], [create(b), on(64, 1), gen(256)], [create(c), gen(256), {"e": "Close"}]]
    for q, il in enumerate(interleavings(hs)):
        if q % every == offset % every:
            yield [init(3)] + il


def lfo_pair_executions(a, b, every=1, offset=0):
    """The LFO step is latched when register 0x22 is written: one instance switches its LFO on and plays an
    LFO-sensitive patch while the other one changes its chip rate (run-at-PCM-rate, other sample rate)."""
    ha = [create(a, 44100), {"e": "Lfo", "v": 1}, on(60, 1), gen(1024), gen(1024)]
    hb = [create(b, 48000), {"e": "Pcm", "v": 1}, gen(128)]
    for q, il in enumerate(interleavings([ha, hb])):
        if q % every == offset % every:
            yield [init(2)] + il


def family_pair_executions(a, b, every=1, offset=0):
    """Two instances of different chip families (OPN2 / OPNA clocks): anything cached per process on first use (clock
    dependent coefficients, tables) by one of them must not reach the other; all interleavings, so either plays first."""
    ha = [create(a, 44100), {"e": "Fam", "v": 1}, on(60, 0), gen(512)]
    hb = [create(b, 44100), on(64, 0), gen(512)]
    for q, il in enumerate(interleavings([ha, hb])):
        if q % every == offset % every:
            yield [init(2)] + il


def burst_executions(emu, every=1, offset=0):
    """Dense bursts on a FRESH chip object (6 notes, then `extra` off/on pairs at the same instant: a few hundred to
    about 700 register writes on one chip before any audio is rendered; the sizes step through the capacity of the
    cores' write queues), after another instance has created, played and closed a chip of the same core: what the
    cores keep in write queues must not let heap left behind by anybody reach the chip."""
    hb = [create(emu, 44100, 1), on(64, 1), gen(300), {"e": "Close"}]
    for q, extra in enumerate(list(range(0, 16)) + list(range(16, 64, 6))):      # one pair costs about 42 writes: step 1 near the queue limits
        if q % every != offset % every:
            continue
        ha = [create(emu, 44100, 1)] + [on(40 + 3 * i, i % 3) for i in range(6)]
        for r in range(extra):
            k = 40 + 3 * (r % 6)
            ha += [{"e": "Off", "k": k}, on(k, (r + r // 6) % 3)]
        ha += [gen(600), gen(600)]
        yield [init(2)] + [tag(1, c) for c in hb] + [tag(0, c) for c in ha]


def port_pair_executions(a, b, every=1, offset=0):
    """Two instances play songs that name the same two MIDI ports (FF 09) in opposite order: the port -> channel block
    map belongs to one instance and one song; all interleavings of load / play / play."""
    ha = [create(a, 44100), {"e": "Load", "song": 7}, {"e": "Play", "fr": 3000}, {"e": "Play", "fr": 3000}]
    hb = [create(b, 44100), {"e": "Load", "song": 6}, {"e": "Play", "fr": 3000}, {"e": "Play", "fr": 3000}]
    for q, il in enumerate(interleavings([ha, hb])):
        if q % every == offset % every:
            yield [init(2)] + il


CRITICAL_PAIRS = [(1, 8), (8, 1), (4, 4), (2, 2), (0, 5), (1, 1), (8, 8)]


def exhaustive_executions(quick, seed):
    hs = []
    for a in EMUS:
        for b in EMUS:
            if (a, b) in CRITICAL_PAIRS:
                hs += list(pair_executions(a, b, 1 if not quick else 3, seed))
            else:
                hs += list(pair_executions(a, b, 9 if not quick else 42, seed + a * 8 + b))
    for (a, b) in [(4, 4), (4, 5), (5, 4), (4, 2), (0, 4), (2, 2), (5, 5)]:
        hs += list(lfo_pair_executions(a, b, 1 if not quick else 4, seed))
    for (a, b) in [(0, 0), (0, 2), (2, 0), (4, 5), (3, 6), (1, 1)]:
        hs += list(family_pair_executions(a, b, 1 if not quick else 5, seed + a))
    for (a, b) in [(0, 0), (0, 2), (4, 5)]:
        hs += list(port_pair_executions(a, b, 1 if not quick else 3, seed + b))
    for e in EMUS:
        hs += list(burst_executions(e, 1, seed + e))
    trip = [(1, 8, 4), (8, 4, 1), (4, 1, 8), (0, 2, 5), (3, 6, 2), (2, 5, 0)]
    for (a, b, c) in trip:
        hs += list(triple_executions(a, b, c, 40 if not quick else 240, seed + a))
    return hs


# ------------------------------------------------------------------ random executions
def random_solo(rng, length, emus=EMUS):
    """One instance's call history over the whole alphabet (always starts with Create; may close and re-create)."""
    h = []
    alive = False
    while len(h) < length:
        if not alive:
            h.append(create(rng.choice(emus), rng.choice(RATES), rng.choice([1, 1, 2, 2, 3])))
            alive = True
            continue
        r = rng.random()
        if r < 0.30: h.append(gen(rng.choice([64, 256, 384, 1000, 2048])))
        elif r < 0.48: h.append(on(rng.choice([36, 48, 60, 64, 72, 84]), rng.choice([0, 1, 1, 2])))
        elif r < 0.53: h.append({"e": "Off", "k": rng.choice([36, 48, 60, 64, 72, 84])})
        elif r < 0.60: h.append({"e": "Switch", "emu": rng.choice(emus)})
        elif r < 0.65: h.append({"e": "Chips", "n": rng.choice([1, 2, 3, 4])})
        elif r < 0.69: h.append({"e": "Pcm", "v": rng.choice([0, 1, 1])})
        elif r < 0.71: h.append({"e": "Fam", "v": rng.choice([0, 1, 1])})
        elif r < 0.78: h.append({"e": "Lfo", "v": rng.choice([0, 1, 1])})
        elif r < 0.82: h.append({"e": "Reset"})
        elif r < 0.88: h.append({"e": "Load", "song": rng.randrange(12)})
        elif r < 0.95: h.append({"e": "Play", "fr": rng.choice([256, 1000, 3000])})
        elif r < 0.97: h.append({"e": "Panic"})
        else:
            h.append({"e": "Close"})
            alive = False
    return h


def random_execution(rng, n=None, length=None, emus=EMUS):
    n = n or rng.choice([1, 2, 2, 2, 3])
    hists = [random_solo(rng, length or rng.choice([4, 6, 9, 12]), emus) for _ in range(n)]
    pos = [0] * n
    out = [init(n)]
    # bursty interleaving: stay on an instance for a while, then move on
    cur = rng.randrange(n)
    while any(pos[i] < len(hists[i]) for i in range(n)):
        if pos[cur] >= len(hists[cur]) or rng.random() < 0.45:
            cur = rng.choice([i for i in range(n) if pos[i] < len(hists[i])])
        out.append(tag(cur, hists[cur][pos[cur]]))
        pos[cur] += 1
    return out


def determinism_probes():
    """Solo histories around silence / re-creation (a silent first period is where stale core state shows)."""
    hs = []
    for emu in EMUS:
        for chips in (1, 2):
            for pcm in (0, 1):
                hs.append([init(1), tag(0, create(emu, 44100, chips)), tag(0, {"e": "Pcm", "v": pcm}), tag(0, gen(300)), tag(0, on(60, 1)),
                           tag(0, gen(1200)), tag(0, {"e": "Lfo", "v": 1}), tag(0, gen(1200)), tag(0, {"e": "Reset"}), tag(0, gen(200)),
                           tag(0, on(50, 2)), tag(0, gen(800)), tag(0, {"e": "Load", "song": 3 + chips}), tag(0, {"e": "Play", "fr": 3000}),
                           tag(0, {"e": "Play", "fr": 3000}), tag(0, {"e": "Close"})])
    return hs


# ------------------------------------------------------------------ threaded executions (rounds)
def par_execution(calls_per_round, n):
    """calls_per_round: list of rounds, each a list of (instance, call)."""
    h = [init(n, "par")]
    for g, rd in enumerate(calls_per_round):
        for (i, c) in rd:
            h.append(tag(i, c, g))
    return h


def par_pair(a, b):
    """Two instances; every kind of call of one runs against every kind of call of the other in some round."""
    A, B = 0, 1
    rounds = [
        [(A, create(a)), (B, create(b))],
        [(A, on(60, 1)), (B, on(64, 2))],
        [(A, gen(300)), (B, gen(300))],
        [(A, {"e": "Lfo", "v": 1}), (B, gen(200))],
        [(A, gen(200)), (B, {"e": "Lfo", "v": 1})],
        [(A, {"e": "Reset"}), (B, gen(200))],
        [(A, on(60, 1)), (B, {"e": "Pcm", "v": 1})],
        [(A, gen(200)), (B, {"e": "Reset"})],
        [(A, {"e": "Switch", "emu": b}), (B, {"e": "Switch", "emu": a})],
        [(A, on(62, 0)), (B, on(65, 0))],
        [(A, gen(200)), (B, gen(200))],
        [(A, {"e": "Close"}), (B, gen(100))],
        [(A, create(a)), (B, {"e": "Close"})],
        [(A, {"e": "Close"})],
    ]
    return par_execution(rounds, 2)


def par_many(rng, n):
    """n threads (2..8): create together, play together, re-create while others play, close together."""
    emus = [rng.choice(EMUS) for _ in range(n)]
    rounds = [[(i, create(emus[i], rng.choice(RATES))) for i in range(n)],
              [(i, on(48 + 3 * i, i % 3)) for i in range(n)],
              [(i, gen(200)) for i in range(n)],
              [(i, {"e": "Reset"} if i % 2 == 0 else gen(150)) for i in range(n)],
              [(i, gen(150) if i % 2 == 0 else {"e": "Switch", "emu": rng.choice(EMUS)}) for i in range(n)],
              [(i, gen(100)) for i in range(n)],
              [(i, {"e": "Close"}) for i in range(n)]]
    return par_execution(rounds, n)


def par_free(rng, n):
    """No rounds at all: every thread runs its whole history unsynchronised (one round)."""
    hists = [random_solo(rng, 5) for _ in range(n)]
    h = [init(n, "par")]
    for i, hh in enumerate(hists):
        for c in hh:
            h.append(tag(i, c, 0))
    return h
