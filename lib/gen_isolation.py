"""Executions for C14 (harness/drive_isolation.cpp): interleavings of 2-3 per-instance call histories
(single-threaded), solo histories (determinism) and round-structured threaded executions.

A history handed to vtrace is one execution: an Init command followed by the calls in the order in
which they are made; field i = instance (0-based).  Per-instance histories are plain lists of calls
without the i field."""
import itertools, json, random, re

EMUS = [0, 1, 2, 3, 4, 5, 6, 8]          # every audio core (7 = VGM dumper)
NAMES = {0: "mame", 1: "nuked3438", 2: "gens", 3: "ymfm-opn2", 4: "np2", 5: "mame2608", 6: "ymfm-opna", 8: "nuked2612"}
RATES = [44100, 48000, 22050]


def init(n, mode="seq"):
    return {"e": "Init", "n": n, "mode": mode}


def create(emu, rate=44100, chips=1):
    return {"e": "Create", "emu": emu, "rate": rate, "chips": chips}


def on(k=60, p=1, ch=None, vel=None):
    c = {"e": "On", "k": k, "p": p}
    if ch is not None:
        c["ch"] = ch          # real-time MIDI channel (default 0)
    if vel is not None:
        c["vel"] = vel
    return c


def off(k=60, ch=None):
    c = {"e": "Off", "k": k}
    if ch is not None:
        c["ch"] = ch
    return c


def ctl(c, v, ch=0):
    """MIDI controller c := v on real-time channel ch (10 pan, 7 volume, 11 expression, 74 brightness, 1 modulation, 121 reset ...)."""
    return {"e": "Ctl", "ch": ch, "c": c, "v": v}


def bend(v, ch=0):
    return {"e": "Bend", "ch": ch, "v": v}


def setting(s, v):
    """A per-instance switch of the API (spec/Isolation.tla Settings): softpan bright smod vmodel lfofreq arp alloc."""
    return {"e": "Set", "s": s, "v": v}


CLOSE = {"e": "Close"}
PANS = [0, 20, 64, 105, 127]                 # hard panning: left third / centre / right third; soft panning: the pan law
SETTINGS = [("softpan", [0, 1, 1]), ("bright", [0, 1, 1]), ("smod", [0, 1, 1]), ("vmodel", [0, 1, 2, 3, 4, 5]), ("lfofreq", [-1, 0, 3, 7]),
            ("arp", [0, 1]), ("alloc", [-1, 0, 1, 2])]


def gen(fr=384):
    return {"e": "Gen", "fr": fr}


def tag(i, call, g=None):
    c = dict(call)
    c["i"] = i
    if g is not None:
        c["g"] = g
    return c


# ------------------------------------------------------------------ TLC -> executions
def mc_ops(tlc_out):
    """The operation table printed by spec/IsolationMC.tla (single source of truth for the index lists)."""
    m = re.search(r'<<"OPS", "(.*)">>', tlc_out)
    if not m:
        return None
    return json.loads(m.group(1).encode().decode("unicode_escape"))


def tlc_lists(tlc_out, marker):
    out = []
    for m in re.finditer(r'<<"%s", "(.*?)">>' % marker, tlc_out):
        s = m.group(1)
        out.append(json.loads(s.encode().decode("unicode_escape") if "\\" in s else s))
    return out


def behaviour_history(ops, idx, n):
    """TLC index list -> execution.  A note-on (LFO-sensitive patch) is put in front of every Gen so that the
    PCM carries a signal; it is a call of the same instance, so it is part of that instance's own history."""
    h = [init(n)]
    for j in idx:
        op = dict(ops[j - 1])
        i = op.pop("i") - 1
        if op["e"] == "Gen":
            h.append(tag(i, on(57 + 5 * i, 1)))
        h.append(tag(i, op))
    return h


# ------------------------------------------------------------------ exhaustive interleavings
def interleavings(hists):
    """All interleavings of the given per-instance histories (lists of calls)."""
    lens = [len(h) for h in hists]
    for perm in _multiset_perms(lens):
        pos = [0] * len(hists)
        out = []
        for i in perm:
            out.append(tag(i, hists[i][pos[i]]))
            pos[i] += 1
        yield out


def _multiset_perms(lens):
    def rec(rem, acc):
        if not any(rem):
            yield tuple(acc)
            return
        for i, r in enumerate(rem):
            if r:
                rem[i] -= 1
                acc.append(i)
                yield from rec(rem, acc)
                acc.pop()
                rem[i] += 1
    yield from rec(list(lens), [])


def solo_a(emu, rate=44100, chips=1):
    return [create(emu, rate, chips), on(60, 0), gen(384), gen(256), {"e": "Close"}]


def solo_b(emu, rate=44100, chips=1):
    return [create(emu, rate, chips), on(67, 2), gen(300), {"e": "Close"}]


def pair_executions(a, b, every=1, offset=0):
    """Interleavings of solo_a(a) and solo_b(b) (126 in total); every-th one starting at offset."""
    for q, il in enumerate(interleavings([solo_a(a), solo_b(b)])):
        if q % every == offset % every:
            yield [init(2)] + il


def triple_executions(a, b, c, every=1, offset=0):
    hs = [[create(a), on(60, 0), gen(256)], [create(b), on(64, 1), gen(256)], [create(c), gen(256), {"e": "Close"}]]
    for q, il in enumerate(interleavings(hs)):
        if q % every == offset % every:
            yield [init(3)] + il


def lfo_pair_executions(a, b, every=1, offset=0):
    """The LFO step is latched when register 0x22 is written: one instance switches its LFO on and plays an
    LFO-sensitive patch while the other one changes its chip rate (run-at-PCM-rate, other sample rate)."""
    ha = [create(a, 44100), {"e": "Lfo", "v": 1}, on(60, 1), gen(1024), gen(1024)]
    hb = [create(b, 48000), {"e": "Pcm", "v": 1}, gen(128)]
    for q, il in enumerate(interleavings([ha, hb])):
        if q % every == offset % every:
            yield [init(2)] + il


def family_pair_executions(a, b, every=1, offset=0):
    """Two instances of different chip families (OPN2 / OPNA clocks): anything cached per process on first use (clock
    dependent coefficients, tables) by one of them must not reach the other; all interleavings, so either plays first."""
    ha = [create(a, 44100), {"e": "Fam", "v": 1}, on(60, 0), gen(512)]
    hb = [create(b, 44100), on(64, 0), gen(512)]
    for q, il in enumerate(interleavings([ha, hb])):
        if q % every == offset % every:
            yield [init(2)] + il


def burst_executions(emu, every=1, offset=0):
    """Dense bursts on a FRESH chip object (6 notes, then `extra` off/on pairs at the same instant: a few hundred to
    about 700 register writes on one chip before any audio is rendered; the sizes step through the capacity of the
    cores' write queues), after another instance has created, played and closed a chip of the same core: what the
    cores keep in write queues must not let heap left behind by anybody reach the chip."""
    hb = [create(emu, 44100, 1), on(64, 1), gen(300), {"e": "Close"}]
    for q, extra in enumerate(list(range(0, 16)) + list(range(16, 64, 6))):      # one pair costs about 42 writes: step 1 near the queue limits
        if q % every != offset % every:
            continue
        ha = [create(emu, 44100, 1)] + [on(40 + 3 * i, i % 3) for i in range(6)]
        for r in range(extra):
            k = 40 + 3 * (r % 6)
            ha += [{"e": "Off", "k": k}, on(k, (r + r // 6) % 3)]
        ha += [gen(600), gen(600)]
        yield [init(2)] + [tag(1, c) for c in hb] + [tag(0, c) for c in ha]


def port_pair_executions(a, b, every=1, offset=0):
    """Two instances play songs that name the same two MIDI ports (FF 09) in opposite order: the port -> channel block
    map belongs to one instance and one song; all interleavings of load / play / play."""
    ha = [create(a, 44100), {"e": "Load", "song": 7}, {"e": "Play", "fr": 3000}, {"e": "Play", "fr": 3000}]
    hb = [create(b, 44100), {"e": "Load", "song": 6}, {"e": "Play", "fr": 3000}, {"e": "Play", "fr": 3000}]
    for q, il in enumerate(interleavings([ha, hb])):
        if q % every == offset % every:
            yield [init(2)] + il


# ------------------------------------------------------------------ own settings / controllers against somebody else's
def pan_pair_executions(a, b, every=1, offset=0):
    """The observed instance pans two channels away from the centre and never touches its soft-pan switch; the other one
    switches soft panning on, pans, plays and closes.  3003 interleavings: every order of create / set / pan / note / close,
    incl. 'the other one is gone before the observed one is created' and the reverse."""
    ha = [create(a), ctl(10, 20, 0), ctl(10, 105, 1), on(60, 1, 0), on(67, 2, 1), gen(384), ctl(10, 127, 0), gen(256)]
    hb = [create(b), setting("softpan", 1), ctl(10, 0, 0), on(64, 1), gen(300), CLOSE]
    for q, il in enumerate(interleavings([ha, hb])):
        if q % every == offset % every:
            yield [init(2)] + il


def controlled_history(emu, pans, own=(), rate=44100, chips=1):
    """One instance that uses the controllers: pan on channels 0.., volume / expression / brightness / modulation / pitch bend,
    notes started under them, controllers moved while the notes sound.  own = the setter calls it makes itself (none: every switch
    keeps the value opn2_init gave it)."""
    h = [create(emu, rate, chips)] + [setting(s, v) for (s, v) in own]
    for ch, v in enumerate(pans):
        h.append(ctl(10, v, ch))
    h += [ctl(7, 90, 0), ctl(11, 100, 1), ctl(74, 40, 0), ctl(1, 60, 1), bend(9000, 0)]
    for ch, v in enumerate(pans):
        h.append(on(52 + 4 * ch, ch % 3, ch, 90 + ch))
    h += [gen(400), ctl(10, pans[-1], 0), ctl(7, 50, 0), ctl(74, 100, 0), ctl(11, 60, 1), gen(300), ctl(121, 0, 0), ctl(10, 64, 1), gen(200)]
    return h


def other_history(emu, sets, close=True):
    """The other instance: sets its switches (soft panning on, full-range brightness, scale modulators, volume model, LFO ...),
    plays under its own controllers and (close) goes away, leaving its objects on the heap."""
    h = [create(emu)] + [setting(s, v) for (s, v) in sets] + [ctl(10, 127, 0), ctl(74, 20, 0), ctl(7, 60, 0), on(64, 1), gen(300)]
    return h + ([CLOSE] if close else [])


OTHER_SETS = [[("softpan", 1)],
              [("softpan", 1), ("bright", 1), ("smod", 1), ("vmodel", 3), ("lfofreq", 5), ("arp", 1), ("alloc", 1)],
              [("bright", 1), ("smod", 1), ("vmodel", 4)],
              [("softpan", 1), ("softpan", 0), ("vmodel", 2)]]


def recycle_executions(a, b, every=1, offset=0, pans=(20, 105, 64)):
    """Create / close ORDER on one heap: the observed instance (never calls a setter) is created before the other one exists,
    while it lives (after each of its calls) and after it was closed; then the observed instance runs.  Second family: two
    others come and go first (n = 3).  Third: the observed instance is its own predecessor (sets soft panning, closes, is created
    again: the new incarnation starts from the defaults)."""
    q = 0
    for sets in OTHER_SETS:
        hb = other_history(b, sets)
        ha = controlled_history(a, pans)
        for pos in range(len(hb) + 1):
            q += 1
            if q % every != offset % every:
                continue
            yield [init(2)] + [tag(1, c) for c in hb[:pos]] + [tag(0, ha[0])] + [tag(1, c) for c in hb[pos:]] + [tag(0, c) for c in ha[1:]]
    for sets in OTHER_SETS[:2]:
        q += 1
        if q % every == offset % every:
            yield ([init(3)] + [tag(1, c) for c in other_history(b, sets)] + [tag(2, c) for c in other_history(a, OTHER_SETS[2])]
                   + [tag(0, c) for c in controlled_history(a, pans)])
    for sets in OTHER_SETS[:2]:
        q += 1
        if q % every == offset % every:
            first = controlled_history(a, pans, own=sets)
            yield [init(1)] + [tag(0, c) for c in first + [CLOSE] + controlled_history(a, pans)]


def controller_probes(emus=None):
    """Solo histories over the controllers for every core: without any setter call (what opn2_init leaves in the switches decides)
    and with each switch set by the instance itself."""
    hs = []
    owns = [(), (("softpan", 1),), (("bright", 1), ("smod", 1)), (("vmodel", 3), ("lfofreq", 6)), (("softpan", 1), ("softpan", 0))]
    for e, emu in enumerate(emus or EMUS):
        for o, own in enumerate(owns):
            pans = [PANS[(e + o + j) % 5] for j in range(3)] + [20, 105]
            h = controlled_history(emu, pans, own, RATES[(e + o) % 3], 1 + (e + o) % 2)
            hs.append([init(1)] + [tag(0, c) for c in h + [CLOSE]])
    return hs


def arp_pair_executions(a, b, every=1, offset=0):
    """Both instances run with the automatic arpeggio on; the observed one has more simultaneous notes of one instrument than
    chip channels (1 chip, 8 notes struck together: notes share chip channels and the arpeggio rotates them as time passes),
    the other one merely lets time pass in between.  When a note takes its turn depends on the observed instance's own clock only."""
    ha = [create(a, chips=1), setting("arp", 1)] + [on(60 + k, 1, 0) for k in range(8)] + [gen(1800), gen(2600), gen(1500), gen(3100)]
    hb = [create(b), setting("arp", 1), gen(700), gen(1300), gen(2100), gen(900), CLOSE]
    for q, il in enumerate(interleavings([ha, hb])):
        if q % every == offset % every:
            yield [init(2)] + il


def settings_executions(quick, seed):
    hs = []
    pairs = [(0, 0), (0, 2), (2, 4), (4, 5), (5, 1), (1, 8), (3, 6), (6, 3), (8, 0)] if quick else [(a, b) for a in EMUS for b in EMUS]
    for (a, b) in pairs:
        hs += list(pan_pair_executions(a, b, 200 if quick else 120, seed + 7 * a + b))
    for (a, b) in pairs:
        hs += list(arp_pair_executions(a, b, 9000 if quick else 1500, seed + 11 * a + b))
    rp = [(e, EMUS[(j + 3) % len(EMUS)]) for j, e in enumerate(EMUS)] if quick else [(a, b) for a in EMUS for b in EMUS]
    for (a, b) in rp:
        hs += list(recycle_executions(a, b, 4 if quick else 1, seed + a + b, pans=(PANS[(a + 1) % 5], PANS[(b + 3) % 5], 64)))
    return hs


CRITICAL_PAIRS = [(1, 8), (8, 1), (4, 4), (2, 2), (0, 5), (1, 1), (8, 8)]


def exhaustive_executions(quick, seed):
    hs = []
    for a in EMUS:
        for b in EMUS:
            if (a, b) in CRITICAL_PAIRS:
                hs += list(pair_executions(a, b, 1 if not quick else 3, seed))
            else:
                hs += list(pair_executions(a, b, 9 if not quick else 42, seed + a * 8 + b))
    for (a, b) in [(4, 4), (4, 5), (5, 4), (4, 2), (0, 4), (2, 2), (5, 5)]:
        hs += list(lfo_pair_executions(a, b, 1 if not quick else 4, seed))
    for (a, b) in [(0, 0), (0, 2), (2, 0), (4, 5), (3, 6), (1, 1)]:
        hs += list(family_pair_executions(a, b, 1 if not quick else 5, seed + a))
    for (a, b) in [(0, 0), (0, 2), (4, 5)]:
        hs += list(port_pair_executions(a, b, 1 if not quick else 3, seed + b))
    for e in EMUS:
        hs += list(burst_executions(e, 1, seed + e))
    trip = [(1, 8, 4), (8, 4, 1), (4, 1, 8), (0, 2, 5), (3, 6, 2), (2, 5, 0)]
    for (a, b, c) in trip:
        hs += list(triple_executions(a, b, c, 40 if not quick else 240, seed + a))
    return hs


# ------------------------------------------------------------------ random executions
def random_solo(rng, length, emus=EMUS):
    """One instance's call history over the whole alphabet (always starts with Create; may close and re-create)."""
    h = []
    alive = False
    while len(h) < length:
        if not alive:
            h.append(create(rng.choice(emus), rng.choice(RATES), rng.choice([1, 1, 2, 2, 3])))
            alive = True
            continue
        if rng.random() < 0.28:         # own controllers and switches
            r = rng.random()
            ch = rng.choice([0, 0, 0, 1, 2])
            if r < 0.30: h.append(ctl(10, rng.choice(PANS), ch))
            elif r < 0.50: h.append(ctl(rng.choice([7, 11, 74, 1, 64, 121]), rng.choice([0, 40, 100, 127]), ch))
            elif r < 0.58: h.append(bend(rng.choice([0, 4096, 8192, 12000, 16383]), ch))
            elif r < 0.72: h.append(setting("softpan", rng.choice([0, 1, 1])))
            elif r < 0.86:
                s, vs = rng.choice(SETTINGS)
                h.append(setting(s, rng.choice(vs)))
            else: h.append(on(rng.choice([36, 48, 60, 64, 72, 84]), rng.choice([0, 1, 1, 2]), ch, rng.choice([40, 100, 127])))
            continue
        r = rng.random()
        if r < 0.30: h.append(gen(rng.choice([64, 256, 384, 1000, 2048])))
        elif r < 0.48: h.append(on(rng.choice([36, 48, 60, 64, 72, 84]), rng.choice([0, 1, 1, 2])))
        elif r < 0.53: h.append({"e": "Off", "k": rng.choice([36, 48, 60, 64, 72, 84])})
        elif r < 0.60: h.append({"e": "Switch", "emu": rng.choice(emus)})
        elif r < 0.65: h.append({"e": "Chips", "n": rng.choice([1, 2, 3, 4])})
        elif r < 0.69: h.append({"e": "Pcm", "v": rng.choice([0, 1, 1])})
        elif r < 0.71: h.append({"e": "Fam", "v": rng.choice([0, 1, 1])})
        elif r < 0.78: h.append({"e": "Lfo", "v": rng.choice([0, 1, 1])})
        elif r < 0.82: h.append({"e": "Reset"})
        elif r < 0.88: h.append({"e": "Load", "song": rng.randrange(12)})
        elif r < 0.95: h.append({"e": "Play", "fr": rng.choice([256, 1000, 3000])})
        elif r < 0.97: h.append({"e": "Panic"})
        else:
            h.append({"e": "Close"})
            alive = False
    return h


def random_execution(rng, n=None, length=None, emus=EMUS):
    n = n or rng.choice([1, 2, 2, 2, 3])
    hists = [random_solo(rng, length or rng.choice([4, 6, 9, 12]), emus) for _ in range(n)]
    pos = [0] * n
    out = [init(n)]
    # bursty interleaving: stay on an instance for a while, then move on
    cur = rng.randrange(n)
    while any(pos[i] < len(hists[i]) for i in range(n)):
        if pos[cur] >= len(hists[cur]) or rng.random() < 0.45:
            cur = rng.choice([i for i in range(n) if pos[i] < len(hists[i])])
        out.append(tag(cur, hists[cur][pos[cur]]))
        pos[cur] += 1
    return out


def determinism_probes():
    """Solo histories around silence / re-creation (a silent first period is where stale core state shows)."""
    hs = []
    for emu in EMUS:
        for chips in (1, 2):
            for pcm in (0, 1):
                hs.append([init(1), tag(0, create(emu, 44100, chips)), tag(0, {"e": "Pcm", "v": pcm}), tag(0, gen(300)), tag(0, on(60, 1)),
                           tag(0, gen(1200)), tag(0, {"e": "Lfo", "v": 1}), tag(0, gen(1200)), tag(0, {"e": "Reset"}), tag(0, gen(200)),
                           tag(0, on(50, 2)), tag(0, gen(800)), tag(0, {"e": "Load", "song": 3 + chips}), tag(0, {"e": "Play", "fr": 3000}),
                           tag(0, {"e": "Play", "fr": 3000}), tag(0, {"e": "Close"})])
    return hs


# ------------------------------------------------------------------ threaded executions (rounds)
def par_execution(calls_per_round, n):
    """calls_per_round: list of rounds, each a list of (instance, call)."""
    h = [init(n, "par")]
    for g, rd in enumerate(calls_per_round):
        for (i, c) in rd:
            h.append(tag(i, c, g))
    return h


def par_pair(a, b):
    """Two instances; every kind of call of one runs against every kind of call of the other in some round."""
    A, B = 0, 1
    rounds = [
        [(A, create(a)), (B, create(b))],
        [(A, setting("softpan", 1)), (B, ctl(10, 20))],           # a switch of one instance against the controller that reads it in the other
        [(A, ctl(10, 105)), (B, setting("vmodel", 3))],
        [(A, on(60, 1)), (B, on(64, 2))],
        # long enough (milliseconds of CPU on every core) that the two calls really overlap after the barrier: scratch state
        # shared by all chips of one core (a static buffer) only shows while both render
        [(A, gen(6000)), (B, gen(6000))],
        [(A, gen(5000)), (B, gen(7000))],
        [(A, {"e": "Lfo", "v": 1}), (B, gen(200))],
        [(A, gen(200)), (B, {"e": "Lfo", "v": 1})],
        [(A, {"e": "Reset"}), (B, gen(200))],
        [(A, on(60, 1)), (B, {"e": "Pcm", "v": 1})],
        [(A, gen(200)), (B, {"e": "Reset"})],
        [(A, {"e": "Switch", "emu": b}), (B, {"e": "Switch", "emu": a})],
        [(A, on(62, 0)), (B, on(65, 0))],
        [(A, gen(200)), (B, gen(200))],
        [(A, {"e": "Close"}), (B, gen(100))],
        [(A, create(a)), (B, {"e": "Close"})],
        [(A, {"e": "Close"})],
    ]
    return par_execution(rounds, 2)


def par_many(rng, n):
    """n threads (2..8): create together, play together, re-create while others play, close together."""
    emus = [rng.choice(EMUS) for _ in range(n)]
    rounds = [[(i, create(emus[i], rng.choice(RATES))) for i in range(n)],
              [(i, on(48 + 3 * i, i % 3)) for i in range(n)],
              [(i, gen(5000)) for i in range(n)],
              [(i, {"e": "Reset"} if i % 2 == 0 else gen(150)) for i in range(n)],
              [(i, gen(150) if i % 2 == 0 else {"e": "Switch", "emu": rng.choice(EMUS)}) for i in range(n)],
              [(i, gen(100)) for i in range(n)],
              [(i, {"e": "Close"}) for i in range(n)]]
    return par_execution(rounds, n)


def par_free(rng, n):
    """No rounds at all: every thread runs its whole history unsynchronised (one round)."""
    hists = [random_solo(rng, 5) for _ in range(n)]
    h = [init(n, "par")]
    for i, hh in enumerate(hists):
        for c in hh:
            h.append(tag(i, c, 0))
    return h
