"""C03: any sequence of API calls on a live instance is memory-safe and terminates; calls documented to
fail return their error value.

leg A  spec/ApiSurfaceMC.tla     exhaustive model checking of spec/ApiSurface.tla over a reduced alphabet:
                                 repaired guards -> no invalid table index, documented failures returned (INVARIANT NoBad);
                                 guards as written -> TLC lists the defect classes with a shortest witness each (WITNESS)
       TLC-generated inputs      WITNESS sequences, SWEEP histories (every function, one parameter at a time over its
                                 boundary classes - dependent parameters such as the instrument index of getBank-then-setIns
                                 under each selector value - in the contexts of ApiSurfaceMC!Ctx, each followed by the
                                 context's suffix: after a burst of simultaneous drum hits on several chips the swept call is
                                 followed by a render and a tick) and BEHAVIOUR lines of -simulate runs over the full
                                 alphabet (hazard-free deep behaviours; hazard-seeking short ones)
leg B  spec/ApiSurfaceTrace.tla  monitors evaluated by TLC on executions of the real library recorded by
                                 harness/drive_api.cpp (ASan build, one forked child per history): no crash / abort / throw /
                                 allocation blow-up / hang, documented failures return their error value
       second build              the witnesses and the short sweep histories are also executed on an unoptimised ASan build
                                 (-O0): defect classes that rest on undefined behaviour (1u << 32) depend on the code generator
leg C  spec/ApiSurfaceTrace.tla  refinement: recorded return values against Ret(S, ev) of the model, sure hazards that do
                                 not materialise (MODEL-DRIFT, never a verdict)"""
import concurrent.futures as cf
import json, os, random, re, time
import checks, vcommon as vc, vtrace, gen_api

HARNESS, TRACE = "drive_api", "ApiSurfaceTrace"
# the same sanitizers without optimisation (a variant added here, lib/vcommon.py builds and caches it like the others)
vc.FLAGS.setdefault("asan0", vc.FLAGS["asan"].replace("-O1", "-O0"))

MC_CFG = """SPECIFICATION %(spec)s
CONSTANTS
  Repaired = %(rep)s
  MaxDepth = %(depth)d
  EmitDepth = %(emit)d
  Mode = "%(mode)s"
  Avoid = %(avoid)s
  FuelCap = %(fuel)d
  Salt = %(salt)d
%(extra)s
CHECK_DEADLOCK FALSE
"""

ASSUME = [
    "harness/drive_api.cpp drives the library through include/opnmidi.h only; every pointer argument is a valid, exactly sized heap block "
    "(AddressSanitizer red zones; canaries without ASan); bank handles are used right after the lookup that produced them",
    "a crash is attributed to the call that was executing when the forked child died; its class (overflow / uaf / segv / alloc / abort / "
    "throw / hang) and top library frame are parsed from the sanitizer / libc++abi text (observation, no expectation in the harness)",
    "termination = the call returns within Tmo(S, ev) = 2 s + (frames x chips x core cost)/100 ms of CPU time (ITIMER_PROF), 10x that of wall time",
    "fixed inputs: banks b1 b2, songs s1 s2 and rejected files encoded by lib/gen_api.py, mirrored by ApiSurface!Assets",
    "two builds of the same tree: ASan+bounds at -O1 (all histories) and at -O0 (witnesses, emulator-switch sweeps, a ninth of the other sweeps): "
    "a defect class that rests on undefined behaviour is reported when either build exhibits it (the replay names the build)",
    "the sample rate of opn2_init is drawn from {8000, 44100, 53267, 192000}; the VGM dumper core (id 7) is selected but never rendered with",
    "TLC 1.8 evaluates ApiSurface/ApiSurfaceTrace correctly; JSON traces round-trip 32-bit integers (INT_MIN is the token -2147483647)",
]


def jobs():
    try:
        return max(1, min(8, int(os.environ.get("VERIF_JOBS", "6"))))
    except ValueError:
        return 6


def cfg(name, **kw):
    d = {"spec": "Spec", "rep": "FALSE", "depth": 1000, "emit": 0, "mode": "mc", "avoid": "FALSE", "fuel": 3000000, "salt": 0, "extra": ""}
    d.update(kw)
    return checks.write_cfg(name, MC_CFG % d)


def build_o0():
    try:
        return vc.build_harness(HARNESS, "asan0")
    except SystemExit as e:
        return "FAILED: %s" % (e.code,)


# ------------------------------------------------------------------ leg A and input generation (all TLC)
def run_models(q):
    """Returns dict of results.  All runs are independent: they share the machine through a small thread pool."""
    depth = 3 if q else 4
    fuel = 3000000 if q else 6000000
    salt0 = (vc.seed() * 7919) % 1000000
    tasks = {}

    def mc(rep):
        c = cfg("ApiSurfaceMC_%s_%d.cfg" % ("rep" if rep else "asis", depth), rep="TRUE" if rep else "FALSE", depth=depth, fuel=fuel,
                extra=("INVARIANT NoBad\n" if rep else "ACTION_CONSTRAINT Report\n") + "CONSTRAINT DepthBound\nVIEW View")
        r = vc.run_tlc("ApiSurfaceMC", cfg=c, timeout=2400, heap="8g", workers=2 if q else 6, tag="ApiMC-" + ("rep" if rep else "asis"),
                       extra=["-noGenerateSpecTE"])
        r.scope = {"calls": depth, "alphabet": 64, "model": "repaired guards" if rep else "guards as written"}
        return r

    def sweep():
        # thorough: the sweeps also run in the contexts "drums8s" / "drums100" (more chips, more simultaneous drum hits, a loaded song)
        c = cfg("ApiSurfaceMC_sweep.cfg", spec="SweepSpec", mode="sweep" if q else "sweepall", fuel=fuel)
        return vc.run_tlc("ApiSurfaceMC", cfg=c, timeout=900, heap="4g", workers=1, tag="ApiMC-sweep", extra=["-noGenerateSpecTE"])

    def sim(tag, n, length, avoid, salt):
        c = cfg("ApiSurfaceMC_sim_%s.cfg" % tag, mode="sim", emit=length + 1, avoid="TRUE" if avoid else "FALSE", fuel=fuel, salt=(salt0 + salt) % 1000000,
                extra="CONSTRAINT Emit")
        return vc.run_tlc("ApiSurfaceMC", cfg=c, timeout=1200, heap="4g", simulate=n, depth=length + 2, workers=1, tag="ApiSim-" + tag,
                          extra=["-noGenerateSpecTE"])

    sims = [("a60", 60, 60, True, 11), ("a150", 50, 150, True, 23), ("a400", 24, 400, True, 37), ("h40", 80, 40, False, 41)] if q else \
           [("a60", 600, 60, True, 11), ("a150", 500, 150, True, 23), ("a400", 300, 400, True, 37), ("h40", 800, 40, False, 41), ("h120", 300, 120, False, 43)]
    with cf.ThreadPoolExecutor(max_workers=min(4, jobs())) as ex:
        tasks["rep"] = ex.submit(mc, True)
        tasks["asis"] = ex.submit(mc, False)
        tasks["sweep"] = ex.submit(sweep)
        for s in sims:
            tasks["sim:" + s[0]] = ex.submit(sim, *s)
        return {k: t.result() for k, t in tasks.items()}


def witnesses(r):
    """label -> (sure, shortest call sequence) from the WITNESS lines of the as-written model."""
    best = {}
    for w in gen_api.parse_lines(r.out, "WITNESS"):
        for (label, sure) in w["labels"]:
            cur = best.get(label)
            if cur is None or (sure and not cur[0]) or (sure == cur[0] and len(w["path"]) < len(cur[1])):
                best[label] = (sure, w["path"])
    return best


# ------------------------------------------------------------------ verdict (one batched confirmation run)
def conclude(pid, tier, histories, variants, failures, rerun_many, coverage, t0, max_report=40):
    """histories[i] ran on build variants[i]; a candidate is confirmed by re-running its prefix on the same build."""
    known = vc.load_known()
    firsts = vtrace.first_failures(failures, pid)
    reps = {}
    for hi, f in firsts.items():
        k = f.what                      # one representative (shortest prefix) per defect class, whatever call triggers it
        if k not in reps or f.step < reps[k].step:
            reps[k] = f
    cands, known_hits = [], {}
    for k, f in sorted(reps.items(), key=lambda kv: (kv[1].step, kv[0])):
        hist = histories[f.history]
        cmd = hist[f.step] if 0 <= f.step < len(hist) else None
        kf = checks.match_known(pid, f, cmd, known)
        if kf:
            known_hits[kf["id"]] = kf
        elif len(cands) < max_report:
            cands.append(f)
    # confirm every candidate by an immediate re-run of the same history prefix (all of them in one harness + TLC pass)
    violations, flaky = [], 0
    if cands:
        seen = {}
        for var in sorted(set(variants[f.history] for f in cands)):
            idx = [i for i, f in enumerate(cands) if variants[f.history] == var]
            again = rerun_many([histories[cands[i].history][:cands[i].step + 1] for i in idx], variant=var)
            for g in again:
                if g.prop in (pid, "CRASH"):
                    seen.setdefault(idx[g.history], set()).add(g.what)
        for i, f in enumerate(cands):
            if f.what in seen.get(i, set()):
                violations.append((f, checks.save_replay(pid, histories[f.history], f.step, tag="%02d-" % i), variants[f.history]))
            else:
                flaky += 1
    for kid, kf in sorted(known_hits.items()):
        print("KNOWN-FINDING: property=%s %s: %s" % (pid, kid, kf.get("desc", "")))
    for f, path, var in violations:
        print("VIOLATION property=%s replay=%s" % (pid, path))
        print("  what=%s at step %d (%s)%s %s" % (f.what, f.step, f.event, "" if var == "asan" else " [only on the unoptimised build: VERIF_API_VARIANT=%s]" % var,
                                               f.detail[:400].replace("\n", " ")))
    coverage = dict(coverage)
    coverage["known_findings_seen"] = sorted(known_hits.keys())
    coverage["flaky_unconfirmed"] = flaky
    coverage["violation_labels"] = sorted(set(f.what for f, _, _ in violations))
    vc.write_evidence(pid, tier, "model_checking", coverage, time.time() - t0, violations=len(violations), assumptions=ASSUME)
    if violations:
        return 1
    print("OK property=%s tier=%s (%.1fs)" % (pid, tier, time.time() - t0))
    return 0


def strip(h, n=12):
    out = []
    for c in h[:n]:
        c = dict(c)
        if isinstance(c.get("bytes"), list) and len(c["bytes"]) > 12:
            c["bytes"] = c["bytes"][:12] + ["... %d more" % (len(c["bytes"]) - 12)]
        out.append(c)
    return out


@checks.register("C03")
def check_c03(pid, tier, replay):
    t0 = time.time()
    q = tier == "quick"
    assets = gen_api.write_assets(os.path.join(vc.OUT, "C03-assets.json"))

    def rerun_many(hists, variant="asan"):
        f, _, _ = vtrace.run_histories(pid + "r" + variant, HARNESS, TRACE, hists, variant=variant, nchunks=min(jobs(), max(1, len(hists) // 4)),
                                       extra_args=(assets,), tlc_timeout=1500)
        return f

    if replay:
        return checks.replay_one(pid, replay, lambda h: rerun_many([h], os.environ.get("VERIF_API_VARIANT", "asan")))
    o0 = cf.ThreadPoolExecutor(max_workers=1).submit(build_o0)          # overlaps with the TLC runs

    # ---- leg A + inputs
    res = run_models(q)
    vc.log("[C03] model phase %.1fs: %s" % (time.time() - t0, ", ".join("%s %.1fs" % (k, r.wall) for k, r in sorted(res.items()))))
    for k, r in res.items():
        if not r.ok and not r.violation:
            print("INFRA: TLC run %s failed (rc=%s): %s" % (k, r.rc, r.out[-1500:]))
            return 3
    mrep, masis = res["rep"], res["asis"]
    wit = witnesses(masis)
    parts = []
    parts.append(("model_witnesses", [gen_api.behaviour_history(p) for (_, p) in (wit[k] for k in sorted(wit))]))
    sw = gen_api.parse_lines(res["sweep"].out, "SWEEP")
    parts.append(("class_sweeps", [gen_api.behaviour_history(s["h"]) for s in sw]))
    for k in sorted(res):
        if k.startswith("sim:"):
            seen, hs = set(), []
            for b in gen_api.parse_lines(res[k].out, "BEHAVIOUR"):
                key = json.dumps(b, sort_keys=True)
                if key not in seen:
                    seen.add(key)
                    hs.append(gen_api.behaviour_history(b))
            parts.append(("simulated_" + k[4:], hs))
    if not sw or not wit or not any(hs for (n, hs) in parts if n.startswith("simulated_a")):
        print("INFRA: TLC produced no sweeps / witnesses / behaviours: %s" % res["sweep"].out[-800:])
        return 3
    histories = [h for (_, hs) in parts for h in hs]
    order = list(range(len(histories)))
    random.Random(vc.seed()).shuffle(order)                 # balance the chunks (long behaviours are expensive)
    shuffled = [histories[i] for i in order]

    # ---- legs B and C
    failures, counters, stats = vtrace.run_histories(pid, HARNESS, TRACE, shuffled, nchunks=jobs(), extra_args=(assets,), tlc_timeout=1500, htimeout=1500)
    vc.log("[C03] main pass done at %.1fs (TLC %.1fs summed over chunks)" % (time.time() - t0, stats["tlc_wall"]))
    if stats["infra"]:
        print("INFRA:", stats["infra"][0][:2000])
        return 3
    # second build: witnesses + short sweep histories on the unoptimised library
    small = [h for h in parts[0][1]] + [h for i, h in enumerate(parts[1][1]) if h[-1]["e"] == "switchEmulator" or i % 9 == 0]
    o0exe = o0.result()
    if str(o0exe).startswith("FAILED"):
        print("NOTE the unoptimised build is not available (%s): second pass skipped" % o0exe)
        small, f2, c2, s2 = [], [], {}, {"records": 0, "infra": []}
    else:
        f2, c2, s2 = vtrace.run_histories(pid + "o0", HARNESS, TRACE, small, variant="asan0", nchunks=min(jobs(), 4), extra_args=(assets,), tlc_timeout=1500)
        if s2["infra"]:
            print("INFRA:", s2["infra"][0][:2000])
            return 3
    vc.log("[C03] second pass done at %.1fs" % (time.time() - t0))
    for f in f2:
        f.history += len(shuffled)
    all_hist = shuffled + small
    variants = ["asan"] * len(shuffled) + ["asan0"] * len(small)
    failures = failures + f2
    crashes = [f for f in failures if f.prop == "CRASH"]
    if crashes:
        print("INFRA: the harness itself died (it forks one child per history and should survive): %s" % crashes[0].detail[-800:])
        return 3

    fns = {k[3:]: v for k, v in counters.items() if k.startswith("fn_")}
    base = {k: v for k, v in counters.items() if not k.startswith("fn_")}
    labels_model = {k: {"sure": v[0], "witness_calls": len(v[1]) - 1} for k, v in sorted(wit.items())}
    labels_real = sorted(set(f.what for f in failures if f.prop == pid))
    coverage = {
        "states": mrep.distinct + masis.distinct, "transitions": mrep.generated + masis.generated,
        "traces_validated_against_impl": len(histories) + len(small), "records_validated": stats["records"] + s2["records"],
        "history_classes": dict([(k, len(v)) for (k, v) in parts] + [("second_build_O0", len(small))]),
        "second_build": {"flags": vc.FLAGS["asan0"], "histories": len(small), "records": s2["records"], "crashes": c2.get("crashes", 0),
                         "labels": sorted(set(f.what for f in f2 if f.prop == pid))},
        "calls_executed": base.get("calls", 0), "functions_exercised": sum(1 for v in fns.values() if v > 0), "calls_per_function": fns,
        "monitor_counters": base,
        "refinement": {"returns_checked_against_model": base.get("retpred", 0), "steps_checked": base.get("refined", 0),
                       "steps_of_the_model_as_written": base.get("asis", 0), "steps_of_the_repaired_model": base.get("fixed", 0),
                       "sure_hazards_not_materialised": base.get("hazard_unconfirmed", 0),
                       "steps_drifted": base.get("drifted", 0), "first_drifts": stats.get("drift", [])[:6]},
        "model_defect_classes": labels_model,
        "model_classes_confirmed_on_library": sorted(k for k in labels_model if k in labels_real),
        "model_classes_not_reproduced": sorted(k for k in labels_model if k not in labels_real and not k.startswith("doc@")),
        "library_classes_outside_model": sorted(k for k in labels_real if k not in labels_model),
        "samples": [strip(parts[0][1][0])] + [strip(hs[0]) for (n, hs) in parts[1:4] if hs],
        "model_runs": [{"scope": r.scope, "ok": r.ok, "violation": r.violation, "distinct": r.distinct, "generated": r.generated, "wall_s": round(r.wall, 1)}
                       for r in (mrep, masis)],
        "exhaustive": False,
    }
    if mrep.violation or not mrep.ok:
        print("MODEL-DRIFT: ApiSurfaceMC %s reports %s (the repaired design still has a hazard; model-level result)" % (mrep.scope, mrep.violation or ("rc=%s" % mrep.rc)))
    nsure = sum(1 for v in labels_model.values() if v["sure"])
    print("NOTE leg A (guards as written, <= %d calls): %d defect classes (%d sure, %d may): %s"
          % (masis.scope["calls"], len(labels_model), nsure, len(labels_model) - nsure, "; ".join(sorted(labels_model))))
    for k in coverage["model_classes_not_reproduced"]:
        if labels_model[k]["sure"]:
            print("NOTE defect class '%s' of the as-written model is not present in this tree (witness replayed without a crash)" % k)
    maynot = [k for k in coverage["model_classes_not_reproduced"] if not labels_model[k]["sure"]]
    if maynot:
        print("NOTE may-classes of the model whose witness did not crash on this build (undefined shift / no sounding note in the witness): %s" % "; ".join(maynot))
    if base.get("drifted", 0):
        print("MODEL-DRIFT: %d of %d recorded calls are steps neither of spec/ApiSurface.tla as written nor of its repaired variant (return value / sure hazard / bank count): %s"
              % (base["drifted"], base.get("refined", 0), json.dumps(stats.get("drift", [])[:2])))
    # map history indices back (failures refer to the shuffled list)
    return conclude(pid, tier, all_hist, variants, failures, rerun_many, coverage, t0)
