"""Generators of call histories for the real-time synthesizer (Synth family: C04 C05 C06 C12 C19,
also used by C10/C11).  A history is a list of command dicts; the first is always Init."""
import itertools, json, random

# ---------------------------------------------------------------- bank layouts
def ins(i, id, **kw):
    d = {"i": i, "id": id}
    d.update(kw)
    return d

ALLOC_BANKS = [
    {"p": 0, "msb": 0, "lsb": 0, "ins": [ins(0, 1, kon=500, koff=300), ins(1, 9, flags=2), ins(2, 2, kon=40000, koff=1000),
                                          ins(3, 3, kon=50, koff=20)]},
    {"p": 1, "msb": 0, "lsb": 0, "ins": [ins(35, 10, drum=40, kon=100, koff=50), ins(36, 11, kon=200, koff=100),
                                          ins(37, 12, flags=2), ins(38, 13, drum=45, kon=40000, koff=500)]},
]

def random_layout(rng):
    """Random subset of melodic / percussion banks with random blank entries (C12)."""
    cand = [(0, 0, 0), (0, 0, 1), (0, 1, 0), (0, 1, 1), (0, 2, 0), (1, 0, 0), (1, 0, 1), (1, 0, 2), (1, 1, 0), (1, 1, 1),
            (0, 126, 0), (0, 127, 0), (0, 0, 127), (1, 0, 127)]
    banks = []
    nid = 1
    chosen = [c for c in cand if rng.random() < 0.5]
    if rng.random() < 0.85 and (0, 0, 0) not in chosen:
        chosen.append((0, 0, 0))
    if rng.random() < 0.7 and (1, 0, 0) not in chosen:
        chosen.append((1, 0, 0))
    for (p, msb, lsb) in chosen:
        il = []
        idxs = [0, 1, 2, 5] if not p else [35, 36, 40, 1, 2]
        for i in idxs:
            r = rng.random()
            if r < 0.3:
                continue               # absent = blank
            if r < 0.45:
                il.append(ins(i, nid, flags=2))   # explicit blank with data
            else:
                kw = {"kon": rng.choice([50, 500, 40000]), "koff": rng.choice([20, 300])}
                if p or rng.random() < 0.15:
                    kw["drum"] = rng.choice([0, 40, 60, 127, 128 + 30, 255]) if p else rng.choice([0, 50])
                il.append(ins(i, nid, **kw))
            nid += 1
        banks.append({"p": p, "msb": msb, "lsb": lsb, "ins": il})
    return banks

# ---------------------------------------------------------------- SysEx
def roland_sum(bs):
    return (128 - (sum(bs) % 128)) % 128

def sysex_valid(rng, dev):
    k = rng.randrange(7)
    d1 = rng.choice([dev, 0x7F])
    dr = rng.choice([0x10 + dev, 0x7F])
    if k == 0: return [0xF0, 0x7E, d1, 0x09, 0x01, 0xF7]
    if k == 1: return [0xF0, 0x7E, d1, 0x09, 0x02, 0xF7]
    if k == 2: return [0xF0, 0x7F, d1, 0x04, 0x01, rng.randrange(128), rng.choice([0, 1, 64, 100, 127]), 0xF7]
    if k == 3:
        body = [0x40, 0x00, 0x7F, 0x00]
        return [0xF0, 0x41, dr, 0x42, 0x12] + body + [roland_sum(body), 0xF7]
    if k == 4:
        body = [0x00, 0x00, 0x7F, rng.choice([0, 1])]
        return [0xF0, 0x41, dr, 0x42, 0x12] + body + [roland_sum(body), 0xF7]
    if k == 5:
        body = [0x40, 0x10 + rng.randrange(16), 0x15, rng.choice([0, 1, 2, 3])]
        return [0xF0, 0x41, dr, 0x42, 0x12] + body + [roland_sum(body), 0xF7]
    return [0xF0, 0x43, dr, 0x4C, 0x00, 0x00, 0x7E, 0x00, 0xF7]

def sysex_mutant(rng, dev):
    m = sysex_valid(rng, dev)
    k = rng.randrange(8)
    if k == 0:   # substitute one byte
        i = rng.randrange(len(m)); m[i] = rng.choice([0, 1, 0x10, 0x41, 0x7E, 0x7F, 0x80, 0xF0, 0xF7, 0xFF, (m[i] + 1) & 0xFF, m[i] ^ 0x80, rng.randrange(256)])
    elif k == 1: # drop one byte
        del m[rng.randrange(len(m))]
    elif k == 2: # insert a byte
        m.insert(rng.randrange(1, len(m)), rng.choice([0, 1, 0x7F, rng.randrange(128)]))
    elif k == 3: # other device id
        other = [x for x in range(16) if x != dev]
        o = rng.choice(other)
        m[2] = o if m[1] in (0x7E, 0x7F) else rng.choice([0x10 + o, o, 0x20 + dev, dev])
    elif k == 4: # checksum off by one (Roland) or truncate
        if m[1] == 0x41: m[-2] = (m[-2] + rng.choice([1, 127])) % 128
        else: m = m[:rng.randrange(len(m))]
    elif k == 5: # random string
        m = [rng.randrange(256) for _ in range(rng.randrange(0, 20))]
    elif k == 6: # framing
        if rng.random() < 0.5: m[0] = rng.choice([0xF7, 0x00, 0xF1])
        else: m[-1] = rng.choice([0xF0, 0x00, 0x7F])
    else:        # extra trailing data byte before F7
        m.insert(len(m) - 1, rng.randrange(128))
    return m

# ---------------------------------------------------------------- histories
def init_cmd(rng, profile):
    lim = rng.choice([2, 3, 3, 4, 6, 12]) if profile != "bank" else rng.choice([3, 6])
    chips = 1 if lim <= 6 else 2
    if profile == "alloc" and rng.random() < 0.15:
        chips = rng.choice([1, 2, 3, 8]); lim = 0
    c = {"e": "Init", "rate": 44100, "chips": chips, "lim": lim, "mch": [0, 1, 9],
         "arp": 1 if rng.random() < 0.3 else 0, "alloc": rng.choice([-1, 0, 1, 2]),
         "banks": ALLOC_BANKS if profile in ("alloc", "sysex") else random_layout(rng)}
    if profile == "sysex" or rng.random() < 0.2:
        c["devid"] = rng.randrange(16)
    return c

def random_history(rng, profile="alloc", length=40):
    init = init_cmd(rng, profile)
    dev = init.get("devid", 0)
    h = [init]
    chans = init["mch"]
    mel_keys = [60, 61, 62, 64]
    perc_keys = [35, 36, 37, 38]
    total_us = 0
    perc_chans = [9]
    def key_for(ch):
        if profile == "bank":
            return rng.choice([0, 1, 2, 5, 35, 36, 40, 127])
        return rng.choice(perc_keys if ch in perc_chans else mel_keys)
    # input dimension "short percussion hits": about a third of the allocator histories contain bursts of drum notes
    # released 0..29 ms after their note-on (see drum_burst), some of them with MIDI channel 1 as XG / GS drum channel
    drummy = profile == "alloc" and rng.random() < 0.3
    if drummy and rng.random() < 0.5:
        h += perc_channel_setup(rng, 1, dev)
        perc_chans.append(1)
    if profile == "bank" and rng.random() < 0.4:
        # XG SFX kits are percussion banks 128 + program: only a WOPN file can carry them (the bank API stops at LSB 127).
        # SFX kit 0 is the fallback of a missing / blank SFX kit; drum kit 0 only comes after it.
        lay = random_layout(rng)
        nid = 700
        for lsb in [128] + [l for l in (129, 130, 133) if rng.random() < 0.5]:
            il = []
            for i in [35, 36, 40, 1, 2, 0]:
                if lsb != 128 and rng.random() < 0.45:
                    continue
                il.append(ins(i, nid, drum=rng.choice([0, 40, 70, 127]), kon=rng.choice([50, 500]), koff=rng.choice([20, 300]))); nid += 1
            lay.append({"p": 1, "msb": 0, "lsb": lsb, "ins": il})
        h.append({"e": "OpenBank", "banks": lay})
        ch = rng.choice(chans)
        h += [{"e": "CC", "ch": ch, "n": 0, "v": 126}, {"e": "Patch", "ch": ch, "p": rng.choice([0, 1, 2, 5])}]
    if profile == "alloc":
        # prelude: controller set-ups that change how later notes behave (portamento, vibrato, soft pedal, ...)
        for _ in range(rng.choice([0, 0, 1, 2, 4])):
            ch = rng.choice(chans)
            k = rng.randrange(8)
            if k == 0: h += [{"e": "CC", "ch": ch, "n": 65, "v": 127}, {"e": "CC", "ch": ch, "n": 5, "v": rng.choice([1, 1, 20, 127])}]
            elif k == 1: h.append({"e": "CC", "ch": ch, "n": 1, "v": rng.choice([64, 127])})
            elif k == 2: h.append({"e": "CC", "ch": ch, "n": 67, "v": 127})
            elif k == 3: h.append({"e": "ChanAT", "ch": ch, "v": 100})
            elif k == 4: h.append({"e": "CC", "ch": ch, "n": 37, "v": rng.choice([1, 64])})
            elif k == 5: h.append({"e": "NoteAT", "ch": ch, "k": key_for(ch), "v": 90})
            elif k == 6: h.append({"e": "CC", "ch": ch, "n": 7, "v": rng.choice([0, 1, 127])})
            else: h.append({"e": "CC", "ch": ch, "n": 74, "v": rng.choice([0, 63, 64])})
    for _ in range(length):
        ch = rng.choice(chans)
        r = rng.random()
        if profile == "alloc" and drummy and rng.random() < 0.08:
            h += drum_burst(rng, rng.choice(perc_chans), perc_keys)
        elif profile == "alloc":
            if r < 0.30: h.append({"e": "NoteOn", "ch": ch, "k": key_for(ch), "v": rng.choice([100, 100, 100, 1, 127, 0])})
            elif r < 0.45: h.append({"e": "NoteOff", "ch": ch, "k": key_for(ch)})
            elif r < 0.55: h.append({"e": "CC", "ch": ch, "n": 64, "v": rng.choice([0, 127, 63, 64])})
            elif r < 0.63: h.append({"e": "CC", "ch": ch, "n": 66, "v": rng.choice([0, 127])})
            elif r < 0.68: h.append({"e": "CC", "ch": ch, "n": rng.choice([120, 121, 123]), "v": 0})
            elif r < 0.80:
                fr = rng.choice([64, 512, 1500, 4000, 4000, 50000])
                if total_us < 500_000_000:
                    if rng.random() < 0.03: fr = 44100 * 60
                    h.append({"e": "Gen", "fr": fr}); total_us += fr * 1000000 // 44100
            elif r < 0.84: h.append({"e": "Patch", "ch": ch, "p": rng.choice([0, 1, 2, 3])})
            elif r < 0.86: h.append({"e": "Panic"})
            elif r < 0.88: h.append({"e": "ResetState"})
            elif r < 0.90: h.append({"e": "CC", "ch": ch, "n": rng.choice([1, 7, 10, 11, 65, 65, 5, 5, 37, 67, 74, 6, 38, 100, 101, 98, 99]), "v": rng.choice([0, 1, 64, 127])})
            elif r < 0.92: h.append({"e": "Bend", "ch": ch, "v": rng.choice([0, 8192, 16383])})
            elif r < 0.935: h.append({"e": "SetArp", "v": rng.choice([0, 1])})
            elif r < 0.95: h.append({"e": "SetAlloc", "v": rng.choice([-1, 0, 1, 2])})
            elif r < 0.96: h.append({"e": "SysEx", "b": sysex_valid(rng, dev)})
            elif r < 0.97: h.append({"e": "ChanAT", "ch": ch, "v": rng.choice([0, 100])})
            else:
                k = rng.randrange(6)
                if k == 0: h.append({"e": "SetNumChips", "v": rng.choice([1, 2])})
                elif k == 1: h.append({"e": "SwitchEmu", "v": rng.choice([0, 2, 4])})
                elif k == 2: h.append({"e": "SetChipType", "v": rng.choice([-1, 0, 1])})
                elif k == 3: h.append({"e": "OpenBank"})
                elif k == 4: h.append({"e": "Reset"})
                else: h.append({"e": "SetRunAtPcm", "v": rng.choice([0, 1])})
        elif profile == "bank":
            if r < 0.40: h.append({"e": "NoteOn", "ch": ch, "k": key_for(ch), "v": rng.choice([100, 100, 1, 0])})
            elif r < 0.48: h.append({"e": "NoteOff", "ch": ch, "k": key_for(ch)})
            elif r < 0.60: h.append({"e": "CC", "ch": ch, "n": 0, "v": rng.choice([0, 0, 1, 2, 126, 127])})
            elif r < 0.72: h.append({"e": "CC", "ch": ch, "n": 32, "v": rng.choice([0, 0, 1, 2, 127])})
            elif r < 0.84: h.append({"e": "Patch", "ch": ch, "p": rng.choice([0, 1, 2, 5, 35])})
            elif r < 0.90: h.append({"e": "SysEx", "b": sysex_valid(rng, dev)})
            elif r < 0.93: h.append({"e": "Gen", "fr": rng.choice([512, 4000])})
            elif r < 0.96:
                p = rng.choice([0, 1])
                h.append({"e": "SetIns", "p": p, "msb": rng.choice([0, 1]) if not p else 0, "lsb": rng.choice([0, 1]),
                          "i": rng.choice([0, 1, 35, 36]), "ins": {"id": 500 + rng.randrange(400), "flags": rng.choice([0, 0, 2]),
                                                                  "drum": rng.choice([0, 50]) if p else 0}})
            elif r < 0.98: h.append({"e": "Bank", "ch": ch, "v": rng.choice([0, 1, 256, 257])})
            else: h.append({"e": "ResetState"})
        elif profile == "sysex":
            if r < 0.30: h.append({"e": "SysEx", "b": sysex_mutant(rng, dev)})
            elif r < 0.50: h.append({"e": "SysEx", "b": sysex_valid(rng, dev)})
            elif r < 0.62: h.append({"e": "NoteOn", "ch": ch, "k": key_for(ch), "v": 100})
            elif r < 0.68: h.append({"e": "NoteOff", "ch": ch, "k": key_for(ch)})
            elif r < 0.74: h.append({"e": "CC", "ch": ch, "n": rng.choice([64, 7, 11, 10, 1, 0, 32]), "v": rng.choice([0, 100, 127])})
            elif r < 0.80: h.append({"e": "Gen", "fr": rng.choice([512, 4000])})
            elif r < 0.84: h.append({"e": "Patch", "ch": ch, "p": rng.choice([0, 2])})
            elif r < 0.88: h.append({"e": "Bend", "ch": ch, "v": rng.choice([0, 16383])})
            elif r < 0.92:
                dev = rng.randrange(16); h.append({"e": "SetDevId", "v": dev})
            elif r < 0.94: h.append({"e": "SetDevId", "v": rng.choice([16, 127, 255])})
            elif r < 0.97: h.append({"e": "Reset"})
            else: h.append({"e": "CC", "ch": ch, "n": 66, "v": rng.choice([0, 127])})
    return avoid_life_boundary(h) if drummy else h

# ---------------------------------------------------------------- short percussion hits (C05: 30 ms minimum life)
def ms_frames(ms, rate=44100):
    """Frames of `ms` milliseconds of audio (at least one)."""
    return max(1, (ms * rate) // 1000)

def gs_reset(dev):
    body = [0x40, 0x00, 0x7F, 0x00]
    return [0xF0, 0x41, 0x10 + dev, 0x42, 0x12] + body + [roland_sum(body), 0xF7]

GS_PART_OF_CHANNEL = {9: 0, 0: 1, 1: 2, 2: 3, 3: 4, 4: 5, 5: 6, 6: 7, 7: 8, 8: 9, 10: 10, 11: 11, 12: 12, 13: 13, 14: 14, 15: 15}
def gs_drum_part(dev, ch, v=1):
    body = [0x40, 0x10 + GS_PART_OF_CHANNEL[ch], 0x15, v]
    return [0xF0, 0x41, 0x10 + dev, 0x42, 0x12] + body + [roland_sum(body), 0xF7]

def perc_channel_setup(rng, ch, dev=0, kind=None):
    """Commands that turn MIDI channel `ch` into a percussion channel: XG (bank MSB 127 / 126) or GS (drum part SysEx)."""
    kind = rng.randrange(4) if kind is None else kind
    if kind == 0: return [{"e": "CC", "ch": ch, "n": 0, "v": 127}]
    if kind == 1: return [{"e": "CC", "ch": ch, "n": 0, "v": 126}]                       # SFX kit: falls back to drum kit 0
    if kind == 2: return [{"e": "SysEx", "b": gs_reset(dev)}, {"e": "SysEx", "b": gs_drum_part(dev, ch, rng.choice([1, 2]))}]
    return [{"e": "CC", "ch": ch, "n": 0, "v": 127}, {"e": "CC", "ch": ch, "n": 32, "v": 0}]

def drum_burst(rng, ch, keys):
    """One burst of short percussion hits on MIDI channel ch: every note is released after 0..29 ms of generated audio
    (0 = no Gen step between note-on and note-off), alone, in sequence, overlapping or re-struck during its extended life;
    Gen steps of 1..40 ms in between and after."""
    def on(k): return {"e": "NoteOn", "ch": ch, "k": k, "v": rng.choice([100, 100, 127, 1])}
    def off(k): return {"e": "NoteOff", "ch": ch, "k": k} if rng.random() < 0.85 else {"e": "NoteOn", "ch": ch, "k": k, "v": 0}
    def gen(lo, hi): return [{"e": "Gen", "fr": ms_frames(rng.randint(lo, hi))}]
    def hold(): return gen(1, 29) if rng.random() < 0.55 else []
    k1, k2 = rng.sample(keys, 2)
    kind = rng.randrange(5)
    if kind == 0:                                    # one hit
        b = [on(k1)] + hold() + [off(k1)]
    elif kind == 1:                                  # two hits in sequence (same or other key), 1..40 ms apart
        k = rng.choice([k1, k2])
        b = [on(k1)] + hold() + [off(k1)] + gen(1, 40) + [on(k)] + hold() + [off(k)]
    elif kind == 2:                                  # two overlapping hits a few ms apart
        b = [on(k1)] + gen(1, 12) + [on(k2)] + hold() + [off(k1)] + (gen(1, 12) if rng.random() < 0.5 else []) + [off(k2)]
    elif kind == 3:                                  # re-struck while the first instance is on its extended life time
        b = [on(k1), off(k1)] + (gen(1, 25) if rng.random() < 0.7 else []) + [on(k1)] + hold() + [off(k1)]
    else:                                            # a roll: 3..5 hits, each released at once, a few ms apart
        b = []
        for _ in range(rng.randint(3, 5)):
            k = rng.choice(keys)
            b += [on(k), off(k)] + gen(1, 15)
    if rng.random() < 0.8:
        b += gen(1, 40)
    return b

def drum_history(rng, length=8):
    """History made mostly of short percussion hits on channel 9 and on an XG / GS percussion channel (MIDI channel 1),
    interleaved with Gen steps of 1..40 ms, a melodic note, pedals and the all-notes-off controllers."""
    dev = rng.randrange(16) if rng.random() < 0.2 else 0
    init = {"e": "Init", "rate": 44100, "chips": 1, "lim": rng.choice([2, 3, 3, 4, 6]), "mch": [0, 1, 9],
            "arp": 1 if rng.random() < 0.2 else 0, "alloc": rng.choice([-1, 0, 1, 2]), "banks": ALLOC_BANKS, "devid": dev}
    h = [init]
    pcs = [9]
    if rng.random() < 0.6:
        h += perc_channel_setup(rng, 1, dev)
        pcs = [9, 1, 1]
    keys = [35, 36, 38]           # 37 is blank in ALLOC_BANKS
    for _ in range(length):
        r = rng.random()
        pc = rng.choice(pcs)
        if r < 0.55: h += drum_burst(rng, pc, keys)
        elif r < 0.67: h.append({"e": "Gen", "fr": ms_frames(rng.randint(1, 40))})
        elif r < 0.74: h.append({"e": "NoteOn", "ch": 0, "k": rng.choice([60, 61]), "v": 100})
        elif r < 0.79: h.append({"e": "NoteOff", "ch": 0, "k": rng.choice([60, 61])})
        elif r < 0.85: h.append({"e": "CC", "ch": rng.choice([0, pc]), "n": rng.choice([64, 64, 66]), "v": rng.choice([0, 127])})
        elif r < 0.89: h.append({"e": "CC", "ch": pc, "n": rng.choice([120, 123, 121]), "v": 0})
        elif r < 0.92: h.append({"e": "NoteOn", "ch": pc, "k": rng.choice(keys + [37]), "v": 100})      # a drum key that stays down
        elif r < 0.94: h.append({"e": "Panic"})
        elif r < 0.96: h.append({"e": "ResetState"})
        elif r < 0.98: h.append({"e": "Patch", "ch": pc, "p": rng.choice([0, 1])})
        else: h.append({"e": "Gen", "fr": rng.choice([4000, 50000])})
    return h

# exhaustive short drum histories: every sequence over two drum keys (on / off) and a short and a long Gen step
def drum_alphabet(ch):
    return ([{"e": "NoteOn", "ch": ch, "k": 35, "v": 100}, {"e": "NoteOff", "ch": ch, "k": 35},
             {"e": "NoteOn", "ch": ch, "k": 36, "v": 100}, {"e": "NoteOff", "ch": ch, "k": 36},
             {"e": "Gen", "fr": 220}, {"e": "Gen", "fr": 1400}])

def exhaustive_drum_histories(depth, ch=9, setup=None, lim=3):
    """All sequences of exactly `depth` letters of drum_alphabet(ch) that start with the note-on of key 35 (the two keys are
    interchangeable up to their instrument), release only keys struck before, have no two Gen steps in a row and do not end
    with a Gen step (settle() appends the final one)."""
    al = drum_alphabet(ch)
    init = {"e": "Init", "rate": 44100, "chips": 1, "lim": lim, "mch": [0, 1, 9], "arp": 0, "alloc": -1, "banks": ALLOC_BANKS}
    pre = [init] + (setup or [])
    def rec(seq, struck):
        if len(seq) == depth:
            yield pre + [al[i] for i in seq]
            return
        for i in range(len(al)):
            if not seq and i != 0: continue
            if i in (1, 3) and (i - 1) not in struck: continue
            if i >= 4 and (len(seq) == depth - 1 or (seq and seq[-1] >= 4)): continue
            yield from rec(seq + [i], struck | {i})
    yield from rec([], frozenset())

# the drum alphabet of spec/SynthMC.tla (DrumAlphabet, same order): behaviours simulated by TLC are mapped through this
MC_DRUM_ALPHABET = (
    [{"e": "NoteOn", "ch": 9, "k": 35, "v": 100}, {"e": "NoteOff", "ch": 9, "k": 35},
     {"e": "NoteOn", "ch": 9, "k": 36, "v": 100}, {"e": "NoteOff", "ch": 9, "k": 36},
     {"e": "Gen", "fr": 220}, {"e": "Gen", "fr": 660}, {"e": "Gen", "fr": 1400},
     {"e": "CC", "ch": 0, "n": 0, "v": 127}, {"e": "NoteOn", "ch": 0, "k": 35, "v": 100}, {"e": "NoteOff", "ch": 0, "k": 35}]
)

LIFE_MARGIN = 4     # frames

def avoid_life_boundary(h):
    """The library counts the 30 ms life of a percussion note down in doubles, once per period of opn2_generate(), and the
    time it hands to TickIterators() can run a frame ahead of the audio it generated (setup.carry: 308 / 44100.0 * 44100.0 is
    below 308, so one more period of 1 / 44100 s is ticked); the models count frames in ns / us.  A history in which the audio
    generated since some note-on adds up to 30 ms +- LIFE_MARGIN frames at the end of a Gen step would be decided by that
    rounding, not by the property: such a Gen step is made a few frames longer."""
    rate = h[0].get("rate", 44100)
    life = (30 * rate + 999) // 1000
    out = []
    ages = []
    for c in h:
        if c["e"] == "NoteOn" and c["v"] > 0:
            ages.append(0)
        elif c["e"] == "Gen":
            fr = c["fr"]
            while any(life - LIFE_MARGIN <= a + fr <= life + LIFE_MARGIN for a in ages):
                fr += 1
            if fr != c["fr"]:
                c = dict(c); c["fr"] = fr
            ages = [a + fr for a in ages if a + fr < life]
        out.append(c)
    return out

def drain(h, drain_frames=3000):
    """Drain: every key that may still be down is released, the pedals are lifted and >= 60 ms are generated (the last command
    carries "drain":1), so that the no-stuck-note clause of C05 is evaluated at the end of the history."""
    out = list(h)
    down = []
    ped, sos = set(), set()
    for c in h:
        e = c["e"]
        if e == "NoteOn" and c["v"] > 0:
            if (c["ch"], c["k"]) not in down: down.append((c["ch"], c["k"]))
        elif e == "NoteOff" or e == "NoteOn":
            if (c["ch"], c["k"]) in down: down.remove((c["ch"], c["k"]))
        elif e == "CC" and c["n"] == 64:
            (ped.add if c["v"] >= 64 else ped.discard)(c["ch"])
        elif e == "CC" and c["n"] == 66:
            (sos.add if c["v"] >= 64 else sos.discard)(c["ch"])
    for (ch, k) in down:
        out.append({"e": "NoteOff", "ch": ch, "k": k})
    for ch in sorted(ped):
        out.append({"e": "CC", "ch": ch, "n": 64, "v": 0})
    for ch in sorted(sos):
        out.append({"e": "CC", "ch": ch, "n": 66, "v": 0})
    out.append({"e": "Gen", "fr": drain_frames, "drain": 1})
    return out

def settle(h):
    """Finish a history so that the end-of-history clauses of C05 are decided on it (boundary-free Gen steps + Drain)."""
    return drain(avoid_life_boundary(h))

# small alphabet of the exhaustive enumeration (2 MIDI channels, 3 keys, small chip)
SMALL_ALPHABET = (
    [{"e": "NoteOn", "ch": 0, "k": k, "v": 100} for k in (60, 61)] +
    [{"e": "NoteOn", "ch": 9, "k": 35, "v": 100}] +
    [{"e": "NoteOff", "ch": 0, "k": k} for k in (60, 61)] +
    [{"e": "NoteOff", "ch": 9, "k": 35}] +
    [{"e": "NoteOn", "ch": 0, "k": 60, "v": 0}] +
    [{"e": "CC", "ch": 0, "n": 64, "v": v} for v in (127, 0)] +
    [{"e": "CC", "ch": 0, "n": 66, "v": v} for v in (127, 0)] +
    [{"e": "CC", "ch": 0, "n": n, "v": 0} for n in (120, 121, 123)] +
    [{"e": "Panic"}, {"e": "ResetState"}, {"e": "Patch", "ch": 0, "p": 1}, {"e": "Patch", "ch": 0, "p": 2},
     {"e": "Gen", "fr": 512}, {"e": "Gen", "fr": 4000},
     {"e": "CC", "ch": 0, "n": 65, "v": 127}, {"e": "CC", "ch": 0, "n": 5, "v": 1}]
)

def exhaustive_histories(depth, lim=2, arp=0, alloc=-1, alphabet=None):
    alphabet = alphabet or SMALL_ALPHABET
    init = {"e": "Init", "rate": 44100, "chips": 1, "lim": lim, "mch": [0, 9], "arp": arp, "alloc": alloc, "banks": ALLOC_BANKS}
    for seq in itertools.product(range(len(alphabet)), repeat=depth):
        yield [init] + [alphabet[i] for i in seq]

def write_script(path, histories):
    n = 0
    with open(path, "w") as f:
        for h in histories:
            for c in h:
                f.write(json.dumps(c, separators=(",", ":")) + "\n")
                n += 1
    return n
