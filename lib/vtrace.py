"""Generic 'histories -> real executions -> TLC trace validation' pipeline shared by the checks.

A history is a list of JSON command dicts starting with an Init command.  The harness replays
histories on the real library and writes one trace record per command; TLC evaluates the
property monitors of the trace specification on every record and prints a RESULT line."""
import json, os, re, shutil, subprocess, sys, time, concurrent.futures as cf
import vcommon as vc


class Failure:
    def __init__(self, prop, what, history, step, event, detail=""):
        self.prop, self.what, self.history, self.step, self.event, self.detail = prop, what, history, step, event, detail

    def key(self):
        return (self.prop, self.what, self.event)

    def __repr__(self):
        return "Failure(%s %s at step %d %s %s)" % (self.prop, self.what, self.step, self.event, self.detail[:80])


def _run_harness(exe, script, trace, timeout, extra_args=()):
    try:
        r = subprocess.run([exe, script, trace] + list(extra_args), stdout=subprocess.PIPE, stderr=subprocess.PIPE,
                           timeout=timeout, env=dict(os.environ, ASAN_OPTIONS="detect_leaks=0:abort_on_error=0:exitcode=66:allocator_may_return_null=1:malloc_limit_mb=2048"))
        return r.returncode, r.stderr.decode(errors="replace")[-6000:]
    except subprocess.TimeoutExpired:
        return 124, "harness timeout"


def _count_execs(trace, marker='{"e":"Init"'):
    n = 0; lines = 0; last_init_line = 0
    try:
        with open(trace) as f:
            for line in f:
                lines += 1
                if line.startswith(marker):
                    n += 1; last_init_line = lines
    except OSError:
        pass
    return n, lines, last_init_line


def _chunk_job(args):
    (exe, module, workdir, k, hists, htimeout, tlc_timeout, extra_args, tlc_env, marker) = args
    """Run one chunk: harness (restarting after a crash) then TLC.  Returns dict."""
    out = {"k": k, "crashes": [], "results": [], "lines": 0, "tlc_wall": 0.0, "infra": None, "offsets": []}
    pos = 0
    part = 0
    traces = []
    while pos < len(hists):
        script = os.path.join(workdir, "s%d_%d.ndjson" % (k, part))
        trace = os.path.join(workdir, "t%d_%d.ndjson" % (k, part))
        with open(script, "w") as f:
            for h in hists[pos:]:
                for c in h:
                    f.write(json.dumps(c, separators=(",", ":")) + "\n")
        rc, err = _run_harness(exe, script, trace, htimeout, extra_args)
        nexec, nlines, _ = _count_execs(trace, marker)
        traces.append((trace, pos))
        if rc == 0:
            pos = len(hists)
        elif rc == 2:
            out["infra"] = "harness infrastructure error: " + err[-500:]
            break
        else:
            # crash / sanitizer report / hang inside execution number nexec (1-based) of this part
            idx = pos + max(nexec, 1) - 1
            # step inside the failing history = number of records written for it
            step = 0
            try:
                with open(trace) as f:
                    ls = f.readlines()
                cnt = 0
                for ln in ls:
                    if ln.startswith(marker):
                        cnt = 0
                    if ln.strip():
                        cnt += 1
                step = cnt
                # keep only complete records (a crash can leave a half-written line anywhere near the end)
                good = []
                for ln in ls:
                    if not ln.strip():
                        continue
                    try:
                        json.loads(ln)
                        good.append(ln if ln.endswith("\n") else ln + "\n")
                    except ValueError:
                        pass
                with open(trace, "w") as f:
                    f.writelines(good)
            except OSError:
                pass
            out["crashes"].append({"history": idx, "rc": rc, "stderr": err, "step": step})
            pos = idx + 1
        part += 1
    # TLC on every part
    for (trace, base) in traces:
        if not os.path.exists(trace) or os.path.getsize(trace) == 0:
            continue
        env = {"TRACE": trace}
        env.update(tlc_env or {})
        r = vc.run_tlc(module, env=env, workers=1, timeout=tlc_timeout, heap="3g", tag="%s-%d-%d" % (module, k, base))
        out["tlc_wall"] += r.wall
        if not r.results:
            # a trace cut short by a crash that TLC cannot digest is not an infrastructure problem of its own:
            # the crash itself is already reported from the harness exit status
            if not any(c["history"] >= base for c in out["crashes"]):
                out["infra"] = "TLC produced no RESULT for %s (rc=%s): %s" % (trace, r.rc, r.out[-1500:])
            continue
        res = r.results[-1]
        res["_base"] = base
        res["_trace"] = trace
        # map trace line -> (history index in chunk, step in history); one record per command
        cum = []
        tot = 0
        for hi in range(base, len(hists)):
            cum.append((tot + 1, hi)); tot += len(hists[hi])
        for f in res.get("fails", []):
            hi, st = base, f["l"]
            for (start, idx) in cum:
                if f["l"] >= start:
                    hi, st = idx, f["l"] - start
            f["_h"] = hi; f["_step"] = st
        out["results"].append(res)
        out["lines"] += res.get("n", 0)
    return out


def run_histories(pid, harness, module, histories, variant="asan", nchunks=None, htimeout=900, tlc_timeout=1000,
                  extra_args=(), tlc_env=None, keep=False, marker='{"e":"Init"'):
    """Returns (failures, counters, stats).  failures: list of Failure (history = index into histories)."""
    exe = vc.build_harness(harness, variant)
    workdir = os.path.join(vc.OUT, pid + "-" + str(os.getpid()))
    shutil.rmtree(workdir, ignore_errors=True)
    os.makedirs(workdir, exist_ok=True)
    histories = list(histories)
    n = len(histories)
    nchunks = max(1, min(nchunks or vc.NCPU, n))
    # contiguous chunks
    bounds = [(i * n) // nchunks for i in range(nchunks + 1)]
    jobs = []
    for k in range(nchunks):
        hs = histories[bounds[k]:bounds[k + 1]]
        if hs:
            jobs.append((exe, module, workdir, k, hs, htimeout, tlc_timeout, extra_args, tlc_env, marker))
    failures = []
    counters = {}
    stats = {"histories": n, "records": 0, "tlc_wall": 0.0, "infra": [], "drift": []}
    with cf.ThreadPoolExecutor(max_workers=nchunks) as ex:
        for out in ex.map(_chunk_job, jobs):
            k = out["k"]; base0 = bounds[k]
            if out["infra"]:
                stats["infra"].append(out["infra"])
            for c in out["crashes"]:
                fl = Failure("CRASH", "crash rc=%d" % c["rc"], base0 + c["history"], c["step"], "?", c["stderr"])
                fl.chunk0 = base0
                failures.append(fl)
            for res in out["results"]:
                stats["records"] += res.get("n", 0)
                stats["drift"] += res.get("drift", [])
                for kk, v in (res.get("cnt") or {}).items():
                    counters[kk] = counters.get(kk, 0) + v
                # map exec index -> history
                for f in res.get("fails", []):
                    hidx = base0 + f["_h"]
                    fl = Failure(f["p"], f["w"], hidx, f["_step"], f.get("e", "?"), json.dumps(f))
                    fl.chunk0 = base0          # first history of the process this one ran in (state may leak between them)
                    failures.append(fl)
            stats["tlc_wall"] += out["tlc_wall"]
    if not keep:
        shutil.rmtree(workdir, ignore_errors=True)
    # a re-run (pid "Cxxr...") whose harness or TLC run failed has not confirmed or refuted anything: never read it as "holds"
    if stats["infra"] and re.match(r"^C\d\dr", pid):
        raise SystemExit("INFRA: re-run failed: %s" % str(stats["infra"][0])[:1500])
    return failures, counters, stats


def first_failures(failures, prop):
    """First failure per history for property `prop` (crashes count for every property)."""
    best = {}
    for f in failures:
        if f.prop not in (prop, "CRASH"):
            continue
        if f.history not in best or f.step < best[f.history].step:
            best[f.history] = f
    return best
