"""Generators of abstract sources for C17 (container / converter front-ends): DMX MUS scores, AIL XMI files,
SMF songs wrapped as RMI / GMF.  Histories are lists of commands for harness/drive_conv.cpp."""
import itertools, random
import gen_seq

INIT = {"e": "Init", "rate": 44100, "chips": 2}
# leg C: the real converter functions are called directly on the encoded bytes of the preceding Mus / Xmi record and their
# output is compared by TLC with spec/Mus2Mid.tla / spec/Xmi2Mid.tla
CVT = {"e": "Cvt"}

# ------------------------------------------------------------------ MUS
MUS_DELAYS = [0, 0, 0, 0, 1, 1, 2, 5, 10, 35, 70, 127, 128, 129, 300, 1000]


def mus_wellformed(ev):
    """python twin of MusRef!WellFormed (only used to avoid generating scores the check would skip)"""
    vol = set()
    for i, e in enumerate(ev):
        if e["k"] == "play":
            if e["v"] >= 0: vol.add(e["ch"])
            elif e["ch"] not in vol: return False
        if e["k"] == "end" and i != len(ev) - 1: return False
    return bool(ev) and ev[-1]["k"] == "end" and len({e["ch"] for e in ev} - {15}) <= 15


def mus_score(rng, nev=20, allow_sys=False, allow_odd=False, nchan=None, perc=None):
    nchan = nchan if nchan is not None else rng.choice([1, 1, 2, 2, 3, 4, 6, 9, 10, 15])
    perc = rng.random() < 0.6 if perc is None else perc
    mel = rng.sample(range(15), nchan)
    chans = mel + ([15] if perc else [])
    if not chans: chans = [15]
    sounding = {c: [] for c in chans}
    hasvol = set()
    ev = []
    total = 0
    big = rng.random() < 0.04            # one three-byte delay (>= 16384 ticks) in a few scores
    for i in range(nev):
        c = rng.choice(chans)
        r = rng.random()
        dl = rng.choice(MUS_DELAYS)
        if big and i == nev // 2: dl = rng.choice([16384, 16385, 20000]); big = False
        if total + dl > 38000: dl = 0
        e = None
        if r < 0.34:
            n = rng.randrange(35, 51) if c == 15 else rng.choice([48, 50, 52, 53, 55, 57, 59, 60, 64, 67, 72, 0, 127])
            if c in hasvol and rng.random() < 0.5: v = -1
            else: v = rng.choice([1, 40, 64, 90, 100, 127, rng.randrange(1, 128)]); hasvol.add(c)
            e = {"k": "play", "ch": c, "n": n, "v": v}; sounding[c].append(n)
        elif r < 0.58 and sounding[c]:
            e = {"k": "rel", "ch": c, "n": sounding[c].pop(rng.randrange(len(sounding[c])))}
        elif r < 0.70:
            v = rng.choice([0, 64, 128, 192, 254, rng.randrange(256)])
            if not allow_odd: v &= ~1
            elif rng.random() < 0.5: v |= 1
            e = {"k": "pitch", "ch": c, "v": v}
        elif r < 0.76 and allow_sys:
            e = {"k": "sys", "ch": c, "c": rng.randrange(10, 15)}
        elif r < 0.80:
            e = {"k": "ctl", "ch": c, "c": 0, "v": rng.randrange(16) if rng.random() < 0.7 else rng.randrange(128)}
        else:
            e = {"k": "ctl", "ch": c, "c": rng.randrange(1, 10), "v": rng.choice([0, 1, 64, 100, 127, rng.randrange(128)])}
        e["dl"] = dl
        if dl == 0 and rng.random() < 0.08: e["lf"] = 1
        if dl > 0 and rng.random() < 0.05: e["pad"] = 1
        total += dl
        ev.append(e)
    for c in chans:
        for n in sounding[c]:
            ev.append({"k": "rel", "ch": c, "n": n, "dl": rng.choice([0, 0, 3])})
    if allow_sys and not any(e["k"] == "sys" for e in ev):
        ev.insert(rng.randrange(len(ev) + 1), {"k": "sys", "ch": rng.choice(chans), "c": rng.randrange(10, 15), "dl": rng.choice([0, 4])})
    ev[-1]["dl"] = rng.choice([0, 0, 10, 140])
    # score end: channel nibble 0 as DMX writes it, sometimes another (possibly otherwise unused) channel
    endch = 0 if rng.random() < 0.6 else rng.choice(chans + [rng.randrange(15)])
    if len(set(mel) | {endch} - {15}) > 15: endch = mel[0]
    ev.append({"k": "end", "ch": endch, "dl": 0})
    return {"e": "Mus", "chans": min(15, nchan), "ins": sorted(rng.sample(range(1, 175), rng.choice([0, 1, 3, 8]))), "ev": ev}


def mus_history(score):
    return [INIT, score, CVT, {"e": "Load"}, {"e": "Play"}]


def mus_malformed_history(rng, nev=8):
    """leg C only: a generated score whose bytes are cut short and / or overwritten, converted but never loaded: binds the
    bounds checks, the unknown event types and the controller range checks of the converter model (goto _end -> rejected)"""
    sc = dict(mus_score(rng, nev, allow_sys=rng.random() < 0.3, allow_odd=True))
    r = rng.random()
    if r < 0.55: sc["cut"] = rng.choice([1, 1, 2, 3, 4, 5, 7])
    if r > 0.4:
        pk = []
        for _ in range(rng.choice([1, 1, 2])):
            v = rng.choice([rng.randrange(256), 0x50 | rng.randrange(16), 0x70 | rng.randrange(16), 0xD0 | rng.randrange(16), 0x80, 0xFF,
                            0x30 | rng.randrange(16), 0x40 | rng.randrange(16), 15, 14, 0x60, 0xE0])
            pk.append([rng.randrange(4000), v])
        sc["poke"] = pk
    return [INIT, sc, CVT]


def mc_mus_alphabet():
    """the alphabet of spec/ConvMC.tla (MUS): 7 event shapes x channels {3, 0, 15} x delays {0, 200}"""
    out = []
    for ch in (3, 0, 15):
        for dl in (0, 200):
            n = 40 if ch == 15 else 60
            out += [{"k": "rel", "ch": ch, "n": n, "dl": dl}, {"k": "play", "ch": ch, "n": n, "v": 100, "dl": dl},
                    {"k": "play", "ch": ch, "n": n, "v": -1, "dl": dl}, {"k": "pitch", "ch": ch, "v": 129, "dl": dl},
                    {"k": "sys", "ch": ch, "c": 12, "dl": dl}, {"k": "ctl", "ch": ch, "c": 0, "v": 7, "dl": dl},
                    {"k": "ctl", "ch": ch, "c": 3, "v": 90, "dl": dl}]
    return out


def mus_exhaustive(maxlen, skip=("sys",), pitch_even=True):
    """every score of <= maxlen events over the ConvMC alphabet (defect-triggering shapes filtered unless asked for)"""
    alpha = [dict(e) for e in mc_mus_alphabet() if e["k"] not in skip]
    if pitch_even:
        for e in alpha:
            if e["k"] == "pitch": e["v"] = 130
    for n in range(0, maxlen + 1):
        for seq in itertools.product(alpha, repeat=n):
            ev = [dict(e) for e in seq] + [{"k": "end", "ch": 0, "dl": 0}]
            if mus_wellformed(ev):
                yield {"e": "Mus", "chans": 2, "ins": [], "ev": ev}


# ------------------------------------------------------------------ XMI
XMI_DTS = [0, 0, 0, 1, 2, 5, 30, 60, 127, 128, 254, 255, 400]
XMI_DURS = [1, 2, 5, 20, 60, 100, 127, 128, 300, 2000]
XMI_TEMPI = [500000, 500000, 250000, 400000, 600000, 1000000, 125000]      # multiples of 25000 us: 120 Hz is met exactly


def xmi_song(rng, idx, nev=14, bank127=False, tempo=None, with_tempo=True):
    ev = []
    if with_tempo:
        ev.append([0, {"k": "tempo", "us": tempo or rng.choice(XMI_TEMPI)}])
    chans = rng.sample(range(16), rng.choice([1, 2, 3, 5]))
    for c in chans:
        ev.append([0, {"k": "pc", "ch": c, "p": (idx * 4 + c) % 16}])
    tick = 0
    ends = {}                    # (ch, key) -> tick at which the note ends
    last_end = 0
    for i in range(nev):
        dt = rng.choice(XMI_DTS)
        now = tick + dt
        c = rng.choice(chans)
        r = rng.random()
        if r < 0.5:
            keys = [k for k in ([36, 38, 40, 42, 46] if c == 9 else [48 + idx, 52 + idx, 55 + idx, 60 + idx, 64 + idx, 72 + idx, 0, 127])
                    if ends.get((c, k), -1) <= now]
            if not keys: continue
            k = rng.choice(keys); dur = rng.choice(XMI_DURS)
            ends[(c, k)] = now + dur; last_end = max(last_end, now + dur)
            ev.append([dt, {"k": "on", "ch": c, "n": k, "v": rng.choice([1, 64, 100, 127, rng.randrange(1, 128)]), "dur": dur}])
        elif r < 0.72:
            # 110 / 111: AIL channel lock / lock protect - plain controllers in an XMI sequence (loop markers only in SMF)
            n = rng.choice([1, 7, 10, 11, 64, 91, 93, 32, 0, 110, 111])
            v = rng.randrange(128)
            if n == 0: v = rng.choice([0, 1, 5, 126] + ([127, 127] if bank127 else []))
            ev.append([dt, {"k": "cc", "ch": c, "n": n, "v": v}])
        elif r < 0.80: ev.append([dt, {"k": "pc", "ch": c, "p": rng.randrange(16)}])
        elif r < 0.90: ev.append([dt, {"k": "bend", "ch": c, "v": rng.choice([0, 8192, 16383, rng.randrange(16384)])}])
        elif r < 0.95: ev.append([dt, {"k": "cat", "ch": c, "v": rng.randrange(128)}])
        else: ev.append([dt, {"k": "nat", "ch": c, "n": 60, "v": rng.randrange(128)}])
        tick = now
    sg = {"ev": ev, "eot": max(0, last_end - tick) + rng.choice([0, 0, 10, 120])}
    if rng.random() < 0.5:
        sg["timb"] = [[rng.randrange(128), rng.choice([0, 1, 127])] for _ in range(rng.choice([0, 1, 3]))]
    return sg


def xmi_file(rng, nsongs=None, nev=14, bank127=False, tempo=None, with_tempo=True):
    nsongs = nsongs or rng.choice([1, 1, 2, 3, 4])
    return {"e": "Xmi", "songs": [xmi_song(rng, i, nev, bank127, tempo, with_tempo) for i in range(nsongs)]}


def xmi_history(rng, f):
    n = len(f["songs"])
    h = [INIT, f, CVT]
    s = rng.randrange(n)
    if s or rng.random() < 0.5: h.append({"e": "Select", "n": s})
    h += [{"e": "Load"}, {"e": "Play"}]
    if n > 1 and rng.random() < 0.5:          # choose another song of the loaded file
        h += [{"e": "Select", "n": rng.choice([i for i in range(n) if i != s])}, {"e": "Play"}]
    return h


def mc_xmi_alphabet():
    out = []
    for ch in (0, 9):
        for dt in (0, 5, 200):
            out += [[dt, {"k": "on", "ch": ch, "n": 60, "v": 100, "dur": 1}], [dt, {"k": "on", "ch": ch, "n": 62, "v": 90, "dur": 130}],
                    [dt, {"k": "cc", "ch": ch, "n": 7, "v": 90}], [dt, {"k": "pc", "ch": ch, "p": 5}], [dt, {"k": "bend", "ch": ch, "v": 8193}]]
    return out


def xmi_exhaustive(maxlen):
    alpha = mc_xmi_alphabet()
    for n in range(0, maxlen + 1):
        for seq in itertools.product(alpha, repeat=n):
            ev = [[0, {"k": "tempo", "us": 500000}]] + [[d, dict(e)] for d, e in seq]
            yield {"e": "Xmi", "songs": [{"ev": ev, "eot": 130}]}


# ------------------------------------------------------------------ RMI / GMF wrappings of generated SMFs
def as_smf(song, container, **kw):
    s = {k: v for k, v in song.items() if k not in ("e", "loopmode")}
    s["e"] = "Smf"; s["container"] = container
    s.update(kw)
    return s


def to_div192(song):
    """GMF implies division 192: rescale the tempo events so that one tick stays a whole number of microseconds"""
    old = song["div"]
    tr = song["tracks"][0]["ev"]
    for _, e in tr:
        if e["k"] == "tempo": e["us"] = (e["us"] // old) * 192
    if not (tr and tr[0][0] == 0 and tr[0][1]["k"] == "tempo"):
        tr.insert(0, [0, {"k": "tempo", "us": 192 * 2500}])
    song["div"] = 192
    return song


def container_history(rng, maxev=10):
    gmf = rng.random() < 0.45
    if gmf:
        song = to_div192(gen_seq.random_song(rng, ntracks=1, maxev=maxev, fmt=0))
        song["fmt"] = 0
    else:
        song = gen_seq.random_song(rng, maxev=maxev)
    h = [INIT, as_smf(song, "smf"), {"e": "Load"}, {"e": "Play"}]
    h += [as_smf(song, "rmi", rmilist=rng.choice([0, 1])), {"e": "Load"}, {"e": "Play"}]
    if gmf:
        h += [as_smf(song, "gmf", gmfeot=rng.choice([1, 2]), gmfhdr=[rng.randrange(256) for _ in range(3)]), {"e": "Load"}, {"e": "Play"}]
    return h


# ------------------------------------------------------------------ sessions: several files in a row on ONE player
def container_source(rng, maxev=6):
    """one SMF source record: bare, RMI or GMF"""
    c = rng.choice(["smf", "rmi", "rmi", "gmf"])
    if c == "gmf":
        song = to_div192(gen_seq.random_song(rng, ntracks=1, maxev=maxev, fmt=0))
        song["fmt"] = 0
        return as_smf(song, "gmf", gmfeot=rng.choice([1, 2]), gmfhdr=[rng.randrange(256) for _ in range(3)])
    song = gen_seq.random_song(rng, maxev=maxev)
    return as_smf(song, c, rmilist=rng.choice([0, 1])) if c == "rmi" else as_smf(song, "smf")


def undefined_source(rng, nev=4):
    """a file the formats do not define (the player may reject it): any source cut short below 14 bytes (no header is
    complete), an XMI file with an overwritten chunk tag, or a MUS score with overwritten bytes"""
    r = rng.random()
    if r < 0.3:
        src = dict(rng.choice([xmi_file(rng, nev=nev), mus_score(rng, nev), container_source(rng, 4)]))
        src["keep"] = rng.randrange(1, 14)
    elif r < 0.75:
        # an XMI file with a damaged chunk tag ("CAT " at 22..25, its "XMID" at 30..33): the converter's own rejection.  (An XMI
        # file cut short inside a chunk is C01's subject: the converter's readers only assert their bounds, known finding there.)
        src = dict(xmi_file(rng, nsongs=rng.choice([1, 2, 3]), nev=nev))
        src["poke"] = [[rng.choice([22, 23, 24, 25, 30, 31, 32, 33]), rng.choice([0, 0x20, 0x58, 0xFF])]]
    else:
        src = dict(mus_score(rng, nev, allow_odd=True))
        src["poke"] = [[rng.randrange(4000), rng.choice([0x50 | rng.randrange(16), 0x70 | rng.randrange(16), 0xFF, rng.randrange(256)])]
                       for _ in range(rng.choice([1, 2, 3]))]
    return src


def session_history(rng, nfiles=3, nev=6, weights=(0.5, 0.17, 0.15, 0.18)):
    """<source> [Select] Load [Select] Play groups WITHOUT an Init in between: every file is judged like a single load (events per
    tick group of THAT file and THAT selected song, song count of THAT file).  XMI files of one session differ in their number of
    songs and in their songs; selections are made before a load, after it, or are left over from an earlier file (also out of
    the range of the file at hand); MUS / SMF / RMI / GMF and undefined (possibly rejected) files stand in between."""
    h = [INIT]
    wx, wm, ws, wu = weights
    last_n = 0
    for i in range(nfiles):
        r = rng.random()
        if r < wx:
            n = rng.choice([k for k in (1, 2, 2, 3, 3, 4) if k != last_n])
            f = xmi_file(rng, nsongs=n, nev=rng.choice([2, nev]), tempo=None)
            last_n = n
            h.append(f)
            q = rng.random()
            if q < 0.45: h.append({"e": "Select", "n": rng.randrange(n)})
            elif q < 0.55: h.append({"e": "Select", "n": rng.randrange(n, 6)})          # beyond the file: its last song
            h += [{"e": "Load"}, {"e": "Play"}]                                            # else: the selection left by the files before
            if rng.random() < 0.4:
                h += [{"e": "Select", "n": rng.randrange(n + 1)}, {"e": "Play"}]
        elif r < wx + wm:
            h.append(mus_score(rng, nev))
            if rng.random() < 0.3: h.append({"e": "Select", "n": rng.randrange(4)})
            h += [{"e": "Load"}, {"e": "Play"}]
        elif r < wx + wm + ws:
            h.append(container_source(rng))
            h += [{"e": "Load"}]
            if rng.random() < 0.3: h.append({"e": "Select", "n": rng.randrange(4)})
            h += [{"e": "Play"}]
        else:
            h.append(undefined_source(rng))
            h += [{"e": "Load"}]
            if rng.random() < 0.3: h.append({"e": "Play", "max": 200})
    return h


def session_pairs(rng):
    """the systematic part: every ordered pair of kinds (XMI with 1 / 3 songs, MUS, wrapped SMF, undefined), then an XMI file"""
    kinds = ["xmi1", "xmi3", "mus", "smf", "undef"]
    out = []
    for a in kinds:
        for b in kinds:
            h = [INIT]
            for k in (a, b, "xmi2"):
                if k.startswith("xmi"):
                    n = int(k[3])
                    h += [xmi_file(rng, nsongs=n, nev=3)]
                    if n > 1: h.append({"e": "Select", "n": rng.randrange(n)})
                    h += [{"e": "Load"}, {"e": "Play"}]
                elif k == "mus": h += [mus_score(rng, 3), {"e": "Load"}, {"e": "Play"}]
                elif k == "smf": h += [container_source(rng, 4), {"e": "Load"}, {"e": "Play"}]
                else: h += [undefined_source(rng, 3), {"e": "Load"}]
            out.append(h)
    return out
