-------------------------------- MODULE Wopn --------------------------------
(* C15 (and the loader half of C02).  Model of the WOPN bank / OPNI instrument serialisation of
   src/wopn/wopn_file.c, written after the C functions (same names), plus the property-level
   field-survival rule written after docs/wopn specification.txt.

   Values (the JSON projection of harness/drive_wopn.cpp uses the same shapes):
     instrument I = << name, note_offset, midi_velocity_offset, percussion_key_number, inst_flags,
                       fbalg, lfosens, ops, delay_on_ms, delay_off_ms >>
        name : the 32 bytes of inst_name as numbers 0..255 with trailing zero bytes stripped
        ops  : the 4 x 7 operator bytes with trailing zero bytes stripped
     bank file V = [ver, nm, np, lfo, chip, vm, banks, dflt, ins]
        banks : sequence (melodic banks first, then percussion) of << name (33 bytes, stripped), lsb, msb >>
        ins   : sequence of << s, b, i, I >> (section 0/1, bank, index); every other instrument is dflt
     instrument file V = [ver, drum, I]
   NINS = instruments per bank (128 in the real format, smaller in the model-checking instance). *)
EXTENDS Common, TLC
CONSTANT NINS

ErrOK == 0  ErrMagic == 1  ErrEnd == 2  ErrCount == 3  ErrNewer == 4  ErrMem == 5  ErrNull == 6
Latest == 2
MagicBank1 == <<87,79,80,78,50,45,66,65,78,75,0>>      \* "WOPN2-BANK\0"
MagicBank2 == <<87,79,80,78,50,45,66,50,78,75,0>>      \* "WOPN2-B2NK\0"
MagicInst1 == <<87,79,80,78,50,45,73,78,83,84,0>>      \* "WOPN2-INST\0"
MagicInst2 == <<87,79,80,78,50,45,73,78,50,84,0>>      \* "WOPN2-IN2T\0"

---------------------------------------------------------------------------
(* bytes and C strings *)
SetMax(S) == CHOOSE x \in S : \A y \in S : y <= x
SetMin(S) == CHOOSE x \in S : \A y \in S : y >= x
Trim(s) == LET nz == { i \in DOMAIN s : s[i] # 0 } IN IF nz = {} THEN <<>> ELSE SubSeq(s, 1, SetMax(nz))
Pad(s, n) == [i \in 1..n |-> IF i <= Len(s) THEN s[i] ELSE 0]
CStr(s) == LET z == { i \in DOMAIN s : s[i] = 0 } IN IF z = {} THEN s ELSE SubSeq(s, 1, SetMin(z) - 1)
\* strncpy(dst, src, n): characters up to the first NUL, then NUL padding
StrnCpy(src, n) == Pad(CStr(Pad(src, n)), n)
U16BE(x) == << (x \div 256) % 256, x % 256 >>
U16LE(x) == << x % 256, (x \div 256) % 256 >>
S16BE(x) == U16BE(IF x < 0 THEN x + 65536 ELSE x)
ToU16BE(hi, lo) == hi * 256 + lo
ToS16BE(hi, lo) == LET u == hi * 256 + lo IN IF u >= 32768 THEN u - 65536 ELSE u
RECURSIVE Rep(_, _)
Rep(x, n) == IF n <= 0 THEN <<>> ELSE <<x>> \o Rep(x, n - 1)
RECURSIVE Concat(_)
Concat(ss) == IF ss = <<>> THEN <<>> ELSE Head(ss) \o Concat(Tail(ss))

IsBlank(I) == (I[5] \div 2) % 2 = 1
ZeroIns  == << <<>>, 0, 0, 0, 0, 0, 0, <<>>, 0, 0 >>       \* calloc'ed instrument
BlankIns == << <<>>, 0, 0, 0, 2, 0, 0, <<>>, 0, 0 >>       \* WOPN_Init for a zero bank count

---------------------------------------------------------------------------
(* WOPN_writeInstrument / WOPN_parseInstrument *)
InsSize(ver, hd) == IF ver >= 2 /\ hd THEN 69 ELSE 65
WriteInst(I, ver, hd) ==
  StrnCpy(I[1], 32) \o S16BE(I[2]) \o << I[4], I[6], I[7] >> \o Pad(I[8], 28)
  \o (IF ver >= 2 /\ hd
      THEN (IF ver < 3 /\ IsBlank(I) THEN <<0, 0, 0, 0>> ELSE U16BE(I[9]) \o U16BE(I[10]))
      ELSE <<>>)
\* c = bytes from the start of the entry; pd = delays the destination held before (left untouched
\* when the format carries none)
ParseInst(c, ver, hd, pd) ==
  LET don  == IF ver >= 2 /\ hd THEN ToU16BE(c[66], c[67]) ELSE pd[1]
      doff == IF ver >= 2 /\ hd THEN ToU16BE(c[68], c[69]) ELSE pd[2]
      flg  == IF ver >= 2 /\ hd /\ ver < 3 /\ don = 0 /\ doff = 0 THEN 2 ELSE 0
  IN << Trim(SubSeq(StrnCpy(SubSeq(c, 1, 32), 32), 1, 31)), ToS16BE(c[33], c[34]), 0, c[35], flg, c[36], c[37],
        Trim(SubSeq(c, 38, 65)), don, doff >>

---------------------------------------------------------------------------
(* bank values *)
PosOf(V, s, b, i) == (IF s = 0 THEN 0 ELSE V.nm) * NINS + b * NINS + i         \* 0-based linear position
Listed(V) == { PosOf(V, V.ins[k][1], V.ins[k][2], V.ins[k][3]) : k \in DOMAIN V.ins }
AtPos(V, p) ==
  LET ks == { k \in DOMAIN V.ins : PosOf(V, V.ins[k][1], V.ins[k][2], V.ins[k][3]) = p } IN
  IF ks = {} THEN V.dflt ELSE V.ins[SetMin(ks)][4]
NPos(V) == (V.nm + V.np) * NINS
HeadEq(A, B) == A.ver = B.ver /\ A.nm = B.nm /\ A.np = B.np /\ A.lfo = B.lfo /\ A.chip = B.chip /\ A.vm = B.vm /\ A.banks = B.banks
\* equality of two sparse values (exact: every position is either listed in one of them or default in both)
InsDiff(A, B) == { p \in Listed(A) \cup Listed(B) : AtPos(A, p) # AtPos(B, p) }
DfltUsed(A, B) == Cardinality(Listed(A) \cup Listed(B)) < NPos(A)
ValEq(A, B) == HeadEq(A, B) /\ InsDiff(A, B) = {} /\ (DfltUsed(A, B) => A.dflt = B.dflt)
\* D lists every position in position order (result of DecodeBank)
DenseEq(D, B) == HeadEq(D, B) /\ \A p \in 0..(NPos(D) - 1) : D.ins[p + 1][4] = AtPos(B, p)

---------------------------------------------------------------------------
(* sizes and the block walks with their length checks *)
SaveBlocks(nm, np, ver) ==
  <<11>> \o (IF ver > 1 THEN <<2>> ELSE <<>>) \o <<2, 2, 1>>
  \o (IF ver >= 2 THEN Rep(34, nm + np) ELSE <<>>)
  \o << InsSize(ver, TRUE) * NINS * nm, InsSize(ver, TRUE) * NINS * np >>
SaveInstBlocks(ver) == <<11>> \o (IF ver > 1 THEN <<2>> ELSE <<>>) \o <<1, 65>>
RECURSIVE Walk(_, _, _)
Walk(blocks, rem, done) ==
  IF blocks = <<>> THEN [r |-> ErrOK, hw |-> done]
  ELSE IF rem < Head(blocks) THEN [r |-> ErrEnd, hw |-> done]
  ELSE Walk(Tail(blocks), rem - Head(blocks), done + Head(blocks))
Eff(ver) == IF ver = 0 THEN Latest ELSE ver
\* WOPN_SaveBankToMem / WOPN_SaveInstToMem: result code and number of bytes written
SaveWalk(nm, np, ver, len) == Walk(SaveBlocks(nm, np, Eff(ver)), len, 0)
SaveInstWalk(ver, len) == Walk(SaveInstBlocks(Eff(ver)), len, 0)
EncLen(nm, np, ver) == SumSeq(SaveBlocks(nm, np, Eff(ver)))
EncInstLen(ver) == SumSeq(SaveInstBlocks(Eff(ver)))
\* WOPN_CalculateBankFileSize / WOPN_CalculateInstFileSize (the bank calculator counts the
\* version field for version 1 as well)
CalcSize(nm, np, ver) ==
  18 + (IF Eff(ver) >= 2 THEN 34 * (nm + np) ELSE 0) + InsSize(Eff(ver), TRUE) * NINS * (nm + np)
CalcInstSize(ver) == 12 + (IF Eff(ver) > 1 THEN 2 ELSE 0) + 65

\* header walk of WOPN_LoadBankFromMem: hdr = the first bytes (at least min(len, 18)), len = given length
LoadWalk(hdr, len) ==
  IF len < 11 THEN [r |-> ErrEnd]
  ELSE LET m == SubSeq(hdr, 1, 11) IN
  IF m # MagicBank1 /\ m # MagicBank2 THEN [r |-> ErrMagic]
  ELSE LET v1 == (m = MagicBank1)
           p == IF v1 THEN 11 ELSE 13 IN
  IF ~v1 /\ len - 11 < 2 THEN [r |-> ErrEnd]
  ELSE LET ver == IF v1 THEN 1 ELSE hdr[12] + 256 * hdr[13] IN
  IF ver > Latest THEN [r |-> ErrNewer]
  ELSE IF len - p < 5 THEN [r |-> ErrEnd]
  ELSE LET cm == ToU16BE(hdr[p + 1], hdr[p + 2])
           cp == ToU16BE(hdr[p + 3], hdr[p + 4])
           fl == hdr[p + 5]
           meta == IF ver >= 2 THEN 34 * (cm + cp) ELSE 0
           isz == IF ver > 1 THEN 69 ELSE 65
           r1 == len - p - 5 IN
  IF r1 < meta THEN [r |-> ErrEnd]
  ELSE IF r1 - meta < isz * NINS * cm THEN [r |-> ErrEnd]
  ELSE IF r1 - meta - isz * NINS * cm < isz * NINS * cp THEN [r |-> ErrEnd]
  ELSE [r |-> ErrOK, ver |-> ver, cm |-> cm, cp |-> cp, fl |-> fl, meta0 |-> p + 5, ins0 |-> p + 5 + meta, isz |-> isz]
\* WOPN_LoadInstFromMem
LoadInstWalk(hdr, len) ==
  IF len < 11 THEN [r |-> ErrEnd]
  ELSE LET m == SubSeq(hdr, 1, 11) IN
  IF m # MagicInst1 /\ m # MagicInst2 THEN [r |-> ErrMagic]
  ELSE LET v1 == (m = MagicInst1)
           p == IF v1 THEN 11 ELSE 13 IN
  IF ~v1 /\ len - 11 < 2 THEN [r |-> ErrEnd]
  ELSE LET ver == IF v1 THEN 1 ELSE hdr[12] + 256 * hdr[13] IN
  IF ver > Latest THEN [r |-> ErrNewer]
  ELSE IF len - p < 1 THEN [r |-> ErrEnd]
  ELSE IF len - p - 1 < 65 THEN [r |-> ErrEnd]
  ELSE [r |-> ErrOK, ver |-> ver, drum |-> hdr[p + 1], ins0 |-> p + 1]

---------------------------------------------------------------------------
(* byte-exact encoder / decoder (used for small values: leg A and the byte-level refinement) *)
BankRec(V, s, b) == V.banks[(IF s = 0 THEN 0 ELSE V.nm) + b + 1]
EncodeBank(V, ver0) ==
  LET ver == Eff(ver0) IN
  (IF ver > 1 THEN MagicBank2 \o U16LE(ver) ELSE MagicBank1)
  \o U16BE(V.nm) \o U16BE(V.np) \o << (V.lfo % 16) + (IF ver >= 2 THEN (V.chip % 2) * 16 ELSE 0) >>
  \o (IF ver >= 2 THEN Concat([k \in 1..(V.nm + V.np) |-> SubSeq(Pad(V.banks[k][1], 33), 1, 32) \o << V.banks[k][2], V.banks[k][3] >>]) ELSE <<>>)
  \o Concat([p \in 1..NPos(V) |-> WriteInst(AtPos(V, p - 1), ver, TRUE)])
EncodeInst(V, ver0) ==
  LET ver == Eff(ver0) IN
  (IF ver > 1 THEN MagicInst2 \o U16LE(ver) ELSE MagicInst1) \o << V.drum >> \o WriteInst(V.I, ver, FALSE)

\* WOPN_LoadBankFromMem on the byte string b with the given length (len <= Len(b))
DecodeBank(b, len) ==
  LET w == LoadWalk(b, len) IN
  IF w.r # ErrOK THEN [r |-> w.r]
  ELSE LET nm == Max(w.cm, 1)  np == Max(w.cp, 1)
           meta(k) == SubSeq(b, w.meta0 + 34 * (k - 1) + 1, w.meta0 + 34 * k)
           bk(k) == IF w.ver >= 2 THEN << Trim(StrnCpy(SubSeq(meta(k), 1, 32), 32)), meta(k)[33], meta(k)[34] >> ELSE << <<>>, 0, 0 >>
           mel == IF w.cm = 0 THEN << << <<>>, 0, 0 >> >> ELSE [k \in 1..w.cm |-> bk(k)]
           per == IF w.cp = 0 THEN << << <<>>, 0, 0 >> >> ELSE [k \in 1..w.cp |-> bk(w.cm + k)]
           ent(q) == ParseInst(SubSeq(b, w.ins0 + w.isz * q + 1, w.ins0 + w.isz * (q + 1)), w.ver, TRUE, <<0, 0>>)   \* q-th entry of the file
           V0 == [ver |-> w.ver, nm |-> nm, np |-> np, lfo |-> w.fl % 16, chip |-> IF w.ver >= 2 THEN (w.fl \div 16) % 2 ELSE 0,
                  vm |-> 0, banks |-> mel \o per, dflt |-> ZeroIns, ins |-> <<>>]
           melI == IF w.cm = 0 THEN [i \in 1..NINS |-> << 0, 0, i - 1, BlankIns >>]
                   ELSE [q \in 1..(w.cm * NINS) |-> << 0, (q - 1) \div NINS, (q - 1) % NINS, ent(q - 1) >>]
           perI == IF w.cp = 0 THEN [i \in 1..NINS |-> << 1, 0, i - 1, BlankIns >>]
                   ELSE [q \in 1..(w.cp * NINS) |-> << 1, (q - 1) \div NINS, (q - 1) % NINS, ent(w.cm * NINS + q - 1) >>]
       IN [r |-> ErrOK, v |-> [V0 EXCEPT !.ins = melI \o perI]]
DecodeInst(b, len, pd) ==
  LET w == LoadInstWalk(b, len) IN
  IF w.r # ErrOK THEN [r |-> w.r]
  ELSE [r |-> ErrOK, v |-> [ver |-> w.ver, drum |-> w.drum, I |-> ParseInst(SubSeq(b, w.ins0 + 1, w.ins0 + 65), w.ver, FALSE, pd)]]

---------------------------------------------------------------------------
(* The property-level expectation, after the format document: what a value looks like after being
   written as version `ver` and read back.  Names are C strings (cut at the first NUL, at most 31
   resp. 32 characters); the reserved fields (velocity offset, pseudo-8-op flag, volume model) are
   carried by no version; version 1 carries no bank names/numbers, no delays, no blank flag and no
   chip type; an instrument file carries neither delays nor the blank flag. *)
CStrN(name, n) == LET c == CStr(name) IN IF Len(c) > n THEN SubSeq(c, 1, n) ELSE c
ExpIns(I, ver, hd) ==
  LET full == ver >= 2 /\ hd IN
  << CStrN(I[1], 31), I[2], 0, I[4], IF full /\ IsBlank(I) THEN 2 ELSE 0, I[6], I[7], I[8],
     IF full THEN I[9] ELSE 0, IF full THEN I[10] ELSE 0 >>
ExpBank(V, ver0) ==
  LET ver == Eff(ver0) IN
  [ver |-> ver, nm |-> V.nm, np |-> V.np, lfo |-> V.lfo % 16, chip |-> IF ver >= 2 THEN V.chip % 2 ELSE 0, vm |-> 0,
   banks |-> [k \in DOMAIN V.banks |-> IF ver >= 2 THEN << CStrN(V.banks[k][1], 32), V.banks[k][2], V.banks[k][3] >> ELSE << <<>>, 0, 0 >>],
   dflt |-> ExpIns(V.dflt, ver, TRUE),
   ins |-> [k \in DOMAIN V.ins |-> << V.ins[k][1], V.ins[k][2], V.ins[k][3], ExpIns(V.ins[k][4], ver, TRUE) >>]]
ExpInst(V, ver0) == [ver |-> Eff(ver0), drum |-> V.drum, I |-> ExpIns(V.I, Eff(ver0), FALSE)]
\* an instrument file carries no delays: the loader leaves those two fields of the destination alone
InstEq(A, B) == A.ver = B.ver /\ A.drum = B.drum /\ SubSeq(A.I, 1, 8) = SubSeq(B.I, 1, 8)

(* The two value classes version 2 cannot represent (blank is ENCODED as "both delays zero"):
   I = source instrument, J = what was read back, E = ExpIns(I). *)
LimBlankDelay(I, J, E, ver) == ver = 2 /\ IsBlank(I) /\ (I[9] # 0 \/ I[10] # 0) /\ J = [E EXCEPT ![9] = 0, ![10] = 0]
LimZeroDelay(I, J, E, ver)  == ver = 2 /\ ~IsBlank(I) /\ I[9] = 0 /\ I[10] = 0 /\ J = [E EXCEPT ![5] = 2]

\* labels of the round-trip clause for a bank: src saved as ver, got read back
RtBankLabels(src, ver0, got) ==
  LET ver == Eff(ver0)
      exp == ExpBank(src, ver)
      ps == Listed(src) \cup Listed(got)
      tri == { << AtPos(src, p), AtPos(got, p), AtPos(exp, p) >> : p \in ps }
             \cup (IF Cardinality(ps) < NPos(src) THEN { << src.dflt, got.dflt, exp.dflt >> } ELSE {})
      dif == { t \in tri : t[2] # t[3] }
  IN IF ~HeadEq(got, exp) THEN {"roundtrip"}
     ELSE (IF \E t \in dif : ~LimBlankDelay(t[1], t[2], t[3], ver) /\ ~LimZeroDelay(t[1], t[2], t[3], ver) THEN {"roundtrip"} ELSE {})
          \cup (IF \E t \in dif : LimBlankDelay(t[1], t[2], t[3], ver) THEN {"rt-blank-delay"} ELSE {})
          \cup (IF \E t \in dif : LimZeroDelay(t[1], t[2], t[3], ver) THEN {"rt-zero-delay"} ELSE {})
\* labels of the identity clause: v1 was produced by the loader, saved with its own version, read back
IdBankLabels(v1, got) ==
  IF ValEq(got, v1) THEN {}
  ELSE IF v1.ver = 0 THEN {"id-version0"}
  \* (the version-1 blank-flag finding concerns instrument entries only: a header field that comes back different is not it)
  ELSE IF v1.ver = 1 /\ ValEq(got, ExpBank(v1, 1)) /\ got.lfo = v1.lfo /\ got.chip = v1.chip /\ got.vm = v1.vm /\ got.nm = v1.nm /\ got.np = v1.np
       THEN {"id-v1-blank-flag"}
  ELSE {"identity"}
=============================================================================
