------------------------------- MODULE Loader -------------------------------
(* C01: the music loaders of libOPNMIDI as cursor/length machines over untrusted input.

   The model is a transcription of the case analysis of
     BW_MidiSequencer::loadMIDI / parseSMF / parseRMI / parseGMF / parseCMF / parseRSXX /
     detectIMF / detectRSXX / buildSmfTrackData / parseEvent / readVarLenEx   (midi_sequencer_impl.hpp)
     Convert_mus2midi                                                         (cvt_mus2mid.hpp)
     xmi2mid_ParseXMI / ExtractTracksFromXmi / ConvertFiletoList / GetVLQ(2)  (cvt_xmi2mid.hpp)
     OPNMIDIplay::LoadMIDI_post                                               (opnmidi_load.cpp)
   Every read is an explicit cursor comparison; nothing but cursor movement, accept/reject and the
   hazards is modelled (no event semantics).  The outcome of a load is
       [res |-> "acc" | "rej" | "crash" | "resource" | "unk", site |-> function name, why |-> missing guard]
   "crash"    = a read outside the buffer, a null dereference, a division by zero, an exception or an
                abort leaves the C API (sanitizer build, asserts on) -- site is the innermost library frame;
   "resource" = time or memory not proportional to the input (unbounded loop / growth, allocation of a
                declared size);
   "unk"      = outside what the model decides (stated where it is returned).

   Repaired = FALSE is the code as it is.  Repaired = TRUE adds, at every hazard site, the guard of the
   suggested minimal repair; LoaderMC checks that the repaired machine has no hazard left.

   Input  I = [head, unit, times, tail] stands for the byte string  head ++ unit^times ++ tail
   (run-length form: inputs up to 64 KiB stay small); offsets are 0-based as in the C code.
   TLC integers are 32 bit: 64-bit variable-length quantities are kept as three limbs (8 + 28 + 28
   bits), 32-bit chunk lengths as two 16-bit halves. *)
EXTENDS Common
CONSTANT Repaired

---------------------------------------------------------------------------
(* outcomes *)
Out(res, site, why) == [res |-> res, site |-> site, why |-> why, asite |-> "", awhy |-> ""]
Acc == Out("acc", "", "")
Rej == Out("rej", "", "")
Unk == Out("unk", "", "")
UnkW(site, why) == Out("unk", site, why)             \* undecided, but IF it crashes (at site, "?" = anywhere) this is why
Crash(site, why) == Out("crash", site, why)          \* why names the missing guard
Hog(site, why)   == Out("resource", site, why)
(* an earlier event may already have crashed at (asite, awhy): the outcome is no longer decided, both explanations are kept *)
Maybe(o, asite, awhy) == IF o.res \in {"acc", "rej"} \/ (o.res = "unk" /\ o.why = "") THEN UnkW(asite, awhy)
                         ELSE [o EXCEPT !.res = "unk", !.asite = asite, !.awhy = awhy]
\* families of hazard sites already repaired in the tree (known_findings.json, "fixed:" entries for C01/C17): the as-is
\* machine is the tree as it stands, i.e. with these guards; the XMI converter's readers are not repaired (F15b, F15c)
TreeFixed == {"smf", "mus", "sel"}
R(f) == Repaired \/ f \in TreeFixed
FixF(f, asis, repaired) == IF R(f) THEN repaired ELSE asis
Fix(asis, repaired) == IF Repaired THEN repaired ELSE asis
Safe(o) == o.res \in {"acc", "rej", "unk"}

---------------------------------------------------------------------------
(* input access *)
HL(I) == Len(I.head)
UL(I) == Len(I.unit) * I.times
N(I)  == HL(I) + UL(I) + Len(I.tail)
At(I, i) == IF i < HL(I) THEN I.head[i + 1]
            ELSE IF i < HL(I) + UL(I) THEN I.unit[((i - HL(I)) % Len(I.unit)) + 1]
            ELSE I.tail[i - HL(I) - UL(I) + 1]
RepWalkMax == 96       \* a repeat region longer than this is only skipped over (payloads, VLQ runs), never walked event by event
InLongRep(I, i) == UL(I) > RepWalkMax /\ i >= HL(I) /\ i < HL(I) + UL(I)
UnitAllHigh(I) == \A k \in DOMAIN I.unit : I.unit[k] >= 128
UnitAllLow(I)  == \A k \in DOMAIN I.unit : I.unit[k] < 128
BE16(I, p) == At(I, p) * 256 + At(I, p + 1)
LE16(I, p) == At(I, p) + At(I, p + 1) * 256
Match(I, p, s) == p >= 0 /\ p + Len(s) <= N(I) /\ \A k \in DOMAIN s : At(I, p + k - 1) = s[k]

MThd6 == <<77, 84, 104, 100, 0, 0, 0, 6>>
MTrk  == <<77, 84, 114, 107>>
RIFF  == <<82, 73, 70, 70>>
GMF1  == <<71, 77, 70, 1>>
MUS1A == <<77, 85, 83, 26>>
FORM  == <<70, 79, 82, 77>>
XDIR  == <<88, 68, 73, 82>>
XMID  == <<88, 77, 73, 68>>
INFO  == <<73, 78, 70, 79>>
CAT   == <<67, 65, 84, 32>>
RBRN  == <<82, 66, 82, 78>>
EVNT  == <<69, 86, 78, 84>>
CTMF  == <<67, 84, 77, 70>>
RSXXU == <<114, 115, 120, 120, 125, 117>>
EndTag == <<255, 47, 0, 0>>

(* a track buffer: bytes s..e-1 of the input followed by the bytes x the parser appends *)
View(I, s, e, x) == [I |-> I, s |-> s, e |-> e, x |-> x]
VLen(V) == V.e - V.s + Len(V.x)
VAt(V, i) == IF i < V.e - V.s THEN At(V.I, V.s + i) ELSE V.x[i - (V.e - V.s) + 1]
VInLongRep(V, i) == i < V.e - V.s /\ InLongRep(V.I, V.s + i)
VRepEnd(V) == Min(HL(V.I) + UL(V.I), V.e) - V.s          \* first view offset behind the repeat region

---------------------------------------------------------------------------
(* readVarLenEx: unbounded number of 7-bit groups shifted into a uint64 *)
RECURSIVE VlqEnd(_, _)
VlqEnd(V, p) ==                       \* offset of the terminating byte, -1 if the buffer ends first
  IF p >= VLen(V) THEN -1
  ELSE IF VAt(V, p) < 128 THEN p
  ELSE IF VInLongRep(V, p) /\ UnitAllHigh(V.I) THEN VlqEnd(V, VRepEnd(V))
  ELSE VlqEnd(V, p + 1)

P28 == 268435456
VlqVal(V, p, t) ==
  LET g(j) == LET q == t - (10 - j) IN IF q < p THEN 0 ELSE VAt(V, q) % 128
      c == g(7) * 2097152 + g(8) * 16384 + g(9) * 128 + g(10)          \* bits 27..0
      b == g(3) * 2097152 + g(4) * 16384 + g(5) * 128 + g(6)           \* bits 55..28
      a == (g(1) % 2) * 128 + g(2)                                     \* bits 63..56
  IN IF a = 0 /\ b = 0 THEN [cls |-> "small", v |-> c]
     ELSE IF a = 255 /\ b = P28 - 1 THEN [cls |-> "neg", v |-> P28 - c]     \* 2^64 - v: pointer + length wraps to pointer - v
     ELSE IF a = 255 /\ b >= P28 - 262144 THEN [cls |-> "negfar", v |-> 0]  \* wraps to far below the buffer
     ELSE IF a < 255 \/ b < P28 - 524288 THEN [cls |-> "big", v |-> 0]      \* no wrap: beyond any buffer
     ELSE [cls |-> "amb", v |-> 0]                                          \* wraps or not depending on the heap address
Vlq(V, p) ==
  LET t == VlqEnd(V, p) IN
  IF t < 0 THEN [ok |-> FALSE, np |-> VLen(V), cls |-> "none", v |-> 0]
  ELSE LET x == VlqVal(V, p, t) IN [ok |-> TRUE, np |-> t + 1, cls |-> x.cls, v |-> x.v]

---------------------------------------------------------------------------
(* parseEvent: one event at offset p; status = running status; lev = a loop-related event was seen *)
Ev(p, status, lev, hd) == [k |-> "ev", p |-> p, status |-> status, lev |-> lev, hd |-> hd, alt |-> FALSE, o |-> Acc]     \* hd: the event carries data bytes
EvEot(lev) == [k |-> "eot", p |-> 0, status |-> 0, lev |-> lev, hd |-> FALSE, alt |-> FALSE, o |-> Acc]
EvOut(o) == [k |-> "out", p |-> 0, status |-> 0, lev |-> FALSE, hd |-> FALSE, alt |-> FALSE, o |-> o]
LoopMeta == {6, 225, 226, 228, 229, 230}          \* marker (loopStart/loopEnd texts), raw loop subtypes E1 E2 E4 E5 E6
IsLoopCC(fmt, cc) == (fmt = "midi" /\ cc \in {110, 111}) \/ (fmt = "xmidi" /\ cc \in {116, 117})

ParseEvent(V, fmt, p, status, lev, had) ==        \* had: an earlier event of this track carried data (the event object keeps that buffer)
  LET L == VLen(V) IN
  IF p + 1 > L THEN EvEot(lev)                    \* nothing left: an implicit end of track
  ELSE LET b0 == VAt(V, p) IN
  IF b0 = 240 \/ b0 = 247 THEN                    \* SysEx: length, then "ptr + length > end"
    LET q == Vlq(V, p + 1) IN
    IF ~q.ok THEN EvOut(Rej)
    ELSE CASE q.cls = "small"  -> IF q.np + q.v > L THEN EvOut(Rej) ELSE Ev(q.np + q.v, status, lev, TRUE)
           [] q.cls = "big"    -> EvOut(Rej)
           [] q.cls = "neg"    -> IF R("smf") THEN EvOut(Rej)          \* repair: compare length with end - ptr
                                  ELSE IF q.np - q.v < 0 THEN          \* the next read is below the buffer:
                                         (IF q.v - q.np <= 16 THEN EvOut(Crash("readVarLenEx", "sysex-length-wrap"))   \* inside the allocator's red zone
                                          ELSE EvOut(UnkW("?", "sysex-length-wrap")))               \* somewhere in the heap: undefined from here on
                                  ELSE Ev(q.np - q.v, status, lev, TRUE)     \* the cursor moves BACK: events are parsed again
           [] q.cls = "negfar" -> EvOut(FixF("smf", Crash("readVarLenEx", "sysex-length-wrap"), Rej))
           [] OTHER            -> EvOut(FixF("smf", Unk, Rej))
  ELSE IF b0 = 255 THEN                           \* meta: type byte read without a bound check
    IF p + 1 >= L THEN EvOut(FixF("smf", Crash("parseEvent", "meta-type-read"), Rej))
    ELSE LET ty == VAt(V, p + 1)
             q == Vlq(V, p + 2) IN
      IF ~q.ok THEN EvOut(Rej)
      ELSE CASE q.cls = "small" ->
                  IF q.np + q.v > L THEN EvOut(Rej)
                  ELSE IF ty = 47 THEN EvEot(lev)
                  ELSE IF ty = 228 /\ q.v = 0 /\ ~R("smf") /\ (lev \/ ~had)     \* FF E4 00 = internal "loop stack begin" subtype without its data byte:
                       THEN (IF lev THEN [Ev(q.np + q.v, status, TRUE, FALSE) EXCEPT !.alt = TRUE]       \* loop state not modelled: may crash here, may go on
                             ELSE EvOut(Crash("buildSmfTrackData", "loopstack-no-data")))                  \* data[0] of a vector that never held anything (null)
                  ELSE Ev(q.np + q.v, status, lev \/ ty \in LoopMeta, q.v > 0 /\ ty # 6)
             [] q.cls = "big" -> EvOut(Rej)
             [] q.cls \in {"neg", "negfar"} -> EvOut(FixF("smf", Crash("parseEvent", "meta-length-wrap"), Rej))   \* check wraps, std::string(ptr, 2^64-k) throws
             [] OTHER -> EvOut(FixF("smf", Unk, Rej))
  ELSE
    LET run == b0 < 128
        b == IF run THEN (IF status = 0 THEN 128 ELSE status) ELSE b0
        q == IF run THEN p ELSE p + 1
        hi == b \div 16 IN
    IF b = 243 THEN (IF q + 1 > L THEN EvOut(Rej) ELSE Ev(q + 1, status, lev, TRUE))
    ELSE IF b = 242 THEN (IF q + 2 > L THEN EvOut(Rej) ELSE Ev(q + 2, status, lev, TRUE))
    ELSE IF hi \in {8, 9, 10, 11, 14} THEN
      (IF q + 2 > L THEN EvOut(Rej)
       ELSE LET lc == hi = 11 /\ IsLoopCC(fmt, VAt(V, q)) IN Ev(q + 2, b, lev \/ lc, ~lc))
    ELSE IF hi \in {12, 13} THEN (IF q + 1 > L THEN EvOut(Rej) ELSE Ev(q + 1, b, lev, TRUE))
    ELSE Ev(q, b, lev, FALSE)                     \* F1 F4..F6 F8..FE: no data bytes

(* buildSmfTrackData for one track: first delta, then event / delta pairs *)
RECURSIVE WalkFrom(_, _, _, _, _, _, _, _)
WalkFrom(V, fmt, p, status, lev, had, alt, steps) ==
  LET Fin(o) == IF alt THEN Maybe(o, "buildSmfTrackData", "loopstack-no-data") ELSE o IN
  IF steps > 2 * VLen(V) + 8 THEN [o |-> Fin(Hog("buildSmfTrackData", "sysex-length-wrap")), lev |-> lev]     \* only reachable through the backward move
  ELSE IF VInLongRep(V, p) THEN [o |-> Fin(Unk), lev |-> lev]
  ELSE LET ev == ParseEvent(V, fmt, p, status, lev, had) IN
    IF ev.k = "eot" THEN [o |-> Fin(Acc), lev |-> ev.lev]
    ELSE IF ev.k = "out" THEN [o |-> Fin(ev.o), lev |-> lev]
    ELSE LET d == Vlq(V, ev.p) IN
      IF ~d.ok THEN [o |-> IF alt \/ ev.alt THEN Maybe(Acc, "buildSmfTrackData", "loopstack-no-data") ELSE Acc, lev |-> ev.lev]       \* no delta left: treated as end of track
      ELSE WalkFrom(V, fmt, d.np, ev.status, ev.lev, had \/ ev.hd, alt \/ ev.alt, steps + 1)
Walk(V, fmt, lev) ==
  IF fmt = "rsxx" THEN WalkFrom(V, fmt, 0, 0, lev, FALSE, FALSE, 0)
  ELSE LET d == Vlq(V, 0) IN
       IF ~d.ok THEN [o |-> Rej, lev |-> lev] ELSE WalkFrom(V, fmt, d.np, 0, lev, FALSE, FALSE, 0)
RECURSIVE WalkTracks(_, _, _, _)
WalkTracks(views, fmt, i, lev) ==
  IF i > Len(views) THEN Acc
  ELSE LET w == Walk(views[i], fmt, lev) IN
       IF w.o.res # "acc" THEN w.o ELSE WalkTracks(views, fmt, i + 1, w.lev)

---------------------------------------------------------------------------
(* parseSMF at offset off (0 for SMF, 20 for RMI, 0 for the converters' output) *)
MaxTracksWalked == 48         \* files with more track chunks than this are not decided by the model
RECURSIVE Chunks(_, _, _, _)
Chunks(I, p, k, acc) ==
  IF k = 0 THEN [k |-> "ok", t |-> acc, o |-> Acc]
  ELSE IF Len(acc) >= MaxTracksWalked THEN [k |-> "out", t |-> <<>>, o |-> Unk]
  ELSE IF N(I) - p < 8 \/ ~Match(I, p, MTrk) THEN [k |-> "out", t |-> <<>>, o |-> Rej]
  ELSE LET hi == BE16(I, p + 4)
           lo == BE16(I, p + 6)
           av == N(I) - (p + 8) IN
    \* rawTrackData[tk].resize(declared length) happens before the length is compared with what the file has
    IF hi >= 8192 THEN [k |-> "out", t |-> <<>>, o |-> FixF("smf", Hog("parseSMF", "declared-track-length"), Rej)]          \* >= 512 MiB zero-filled
    ELSE IF hi >= 2048 THEN [k |-> "out", t |-> <<>>, o |-> FixF("smf", Unk, Rej)]                 \* 128..512 MiB: depends on the allocator
    ELSE IF hi > 0 \/ lo > av THEN [k |-> "out", t |-> <<>>, o |-> Rej]
    ELSE Chunks(I, p + 8 + lo, k - 1, Append(acc, <<p + 8, p + 8 + lo>>))

ParseSMF(I, off, fmt) ==
  IF N(I) - off < 14 THEN Rej
  ELSE IF ~Match(I, off, MThd6) THEN Rej
  ELSE IF BE16(I, off + 12) = 0 /\ R("smf") THEN Rej              \* repair: refuse a division of 0
  ELSE LET ch == Chunks(I, off + 14, BE16(I, off + 10), <<>>) IN
    IF ch.k = "out" THEN ch.o
    ELSE IF \A i \in DOMAIN ch.t : ch.t[i][1] = ch.t[i][2] THEN Rej     \* "Empty track data" (also no track at all)
    ELSE LET w == WalkTracks([i \in DOMAIN ch.t |-> View(I, ch.t[i][1], ch.t[i][2], <<>>)], fmt, 1, FALSE) IN
         \* division 0: the tick length is the fraction 1/0; the first product with a non-zero delay or tempo divides by
         \* zero (fraction::Optim) while the time line is built or later while playing -- not decided by this model
         IF BE16(I, off + 12) = 0 /\ (w.res = "acc" \/ (w.res = "unk" /\ w.why = "")) THEN UnkW("Optim", "division-zero") ELSE w

ParseGMF(I) == Walk(View(I, 7, N(I), EndTag), "midi", FALSE).o
ParseRSXX(I) == Walk(View(I, At(I, 0), N(I), <<0>>), "rsxx", FALSE).o

ParseCMF(I) ==
  LET n == N(I) IN
  IF n < 20 THEN Rej
  ELSE IF n < 40 THEN Rej
  ELSE LET insStart == LE16(I, 6)
           musStart == LE16(I, 8)
           ticks == LE16(I, 12)
           insCount == LE16(I, 36) IN
    IF insCount > 0 /\ Min(insStart, n) + 16 * insCount > n THEN Rej
    ELSE IF ticks = 0 /\ R("smf") THEN Rej
    ELSE IF musStart >= n THEN Rej
    ELSE LET w == Walk(View(I, musStart, n, <<>>), "cmf", FALSE).o IN
         IF w.res = "acc" THEN (IF ticks = 0 THEN UnkW("Optim", "division-zero") ELSE Rej)    \* parsed, then refused by LoadMIDI_post ("doesn't support CMF"); ticks 0: see ParseSMF
         ELSE w

---------------------------------------------------------------------------
(* detectIMF: sums of the first and second 16-bit words of up to 16383 4-byte records *)
RECURSIVE ImfDiff(_, _, _)
ImfDiff(I, p, k) ==                  \* [ok, d]: d = sum1 - sum2
  IF k = 0 \/ p + 4 > N(I) THEN [ok |-> TRUE, d |-> 0]
  ELSE IF InLongRep(I, p) /\ p + 4 <= HL(I) + UL(I) THEN
    (IF Len(I.unit) = 1 \/ (Len(I.unit) = 2 /\ (p - HL(I)) % 2 = 0)
     THEN LET m == Min(k, (HL(I) + UL(I) - p) \div 4) IN ImfDiff(I, p + 4 * m, k - m)     \* such records add the same to both sums
     ELSE [ok |-> FALSE, d |-> 0])
  ELSE LET r == ImfDiff(I, p + 4, k - 1) IN
       [ok |-> r.ok, d |-> r.d + LE16(I, p) - LE16(I, p + 2)]
DetectIMF(I) ==                      \* "yes" | "no" | "unk"
  IF At(I, 0) % 4 # 0 THEN "no"
  ELSE LET r == ImfDiff(I, IF At(I, 0) = 0 /\ At(I, 1) = 0 THEN 0 ELSE 2, 16383) IN
       IF ~r.ok THEN "unk" ELSE IF r.d > 0 THEN "yes" ELSE "no"
DetectRSXX(I) == At(I, 0) >= 93 /\ At(I, 0) < 128 /\ N(I) > At(I, 0) /\ Match(I, At(I, 0) - 16, RSXXU)

---------------------------------------------------------------------------
(* Convert_mus2midi: the score walk; operands and delay bytes are read without comparing with the score end *)
MusView(I) == View(I, 0, N(I), <<>>)
MusOob == FixF("mus", Crash("Convert_mus2midi", "read-past-score"), Rej)
RECURSIVE MusWalk(_, _, _, _)
RECURSIVE MusDelay(_, _, _, _, _)
MusWalk(I, cur, end, steps) ==
  IF cur >= end THEN Acc                              \* converted: a well-formed one-track SMF, accepted by parseSMF
  ELSE IF InLongRep(I, cur) THEN Unk
  ELSE LET ev == At(I, cur)
           ty == (ev \div 16) % 8
           c1 == cur + 1
           lim == IF R("mus") THEN end ELSE N(I)      \* what a read is allowed to touch
           Rd(q) == q < lim IN
    CASE ty \in {0, 2} -> IF ~Rd(c1) THEN MusOob ELSE MusDelay(I, c1 + 1, end, ev, steps)
      [] ty = 1 -> IF ~Rd(c1) THEN MusOob
                   ELSE IF At(I, c1) >= 128 THEN (IF ~Rd(c1 + 1) THEN MusOob ELSE MusDelay(I, c1 + 2, end, ev, steps))
                   ELSE MusDelay(I, c1 + 1, end, ev, steps)
      [] ty = 3 -> IF ~Rd(c1) THEN MusOob
                   ELSE IF At(I, c1) >= 15 THEN Rej
                   ELSE IF R("mus") THEN MusDelay(I, c1 + 1, end, ev, steps)         \* a system event is one byte (repaired: c1fac2f)
                   ELSE IF ~Rd(c1 + 1) THEN MusOob ELSE MusDelay(I, c1 + 2, end, ev, steps)
      [] ty = 4 -> IF ~Rd(c1) THEN MusOob
                   ELSE IF At(I, c1) # 0 /\ At(I, c1) >= 15 THEN Rej
                   ELSE IF ~Rd(c1 + 1) THEN MusOob ELSE MusDelay(I, c1 + 2, end, ev, steps)
      [] ty = 6 -> MusDelay(I, c1, end, ev, steps)
      [] OTHER -> Rej
MusDelay(I, cur, end, ev, steps) ==
  IF ev < 128 THEN MusWalk(I, cur, end, steps + 1)
  ELSE LET V == View(I, 0, IF R("mus") THEN end ELSE N(I), <<>>)
           t == VlqEnd(V, cur) IN                     \* do ... while(*cur++ & 128)
       IF t < 0 THEN MusOob
       \* repaired (dd349fa): a delay that leaves the 28 bits of a variable-length quantity ends the conversion, i.e. any
       \* non-zero digit in front of the last four; beyond ten digits the model does not look at the digits
       ELSE IF R("mus") /\ VlqVal(V, cur, t).cls # "small" THEN Rej
       ELSE IF R("mus") /\ t - cur >= 10 THEN Unk
       ELSE MusWalk(I, t + 1, end, steps + 1)
ParseMUS(I) ==
  LET sl == LE16(I, 4)
      ss == LE16(I, 6) IN
  IF N(I) < sl + ss THEN Rej
  ELSE IF LE16(I, 8) > 15 THEN Rej
  ELSE MusWalk(I, ss, ss + sl, 0)

---------------------------------------------------------------------------
(* XMI.  The converter works on a copy of the file followed by 20 zero bytes: S = N + 20.
   Readers assert "ptr + n < end" (asserts are on in the verification build; without them the same
   reads run past the block).  32-bit quantities are pairs <<hi16, lo16>>. *)
Far == 16777216
XS(I) == N(I) + 20
XAt(I, i) == IF i < N(I) THEN At(I, i) ELSE 0
XMatch(I, p, s) == \A k \in DOMAIN s : XAt(I, p + k - 1) = s[k]
U32At(I, p) == << XAt(I, p) * 256 + XAt(I, p + 1), XAt(I, p + 2) * 256 + XAt(I, p + 3) >>
UAdd(u, k) == LET lo == u[2] + k IN << (u[1] + lo \div 65536) % 65536, lo % 65536 >>       \* 0 <= k < 2^24
UAddU(u, v) == LET lo == u[2] + v[2] IN << (u[1] + v[1] + lo \div 65536) % 65536, lo % 65536 >>
UEven(u) == LET w == UAdd(u, 1) IN << w[1], w[2] - (w[2] % 2) >>                           \* (len + 1) & ~1
ULt(u, v) == u[1] < v[1] \/ (u[1] = v[1] /\ u[2] < v[2])
ToInt(u) == IF u[1] < 256 THEN u[1] * 65536 + u[2] ELSE Far
AsI32(u) == IF u[1] < 32768 THEN ToInt(u)
            ELSE LET mh == 65535 - u[1]
                     ml == 65536 - u[2] IN
                 IF mh >= 256 THEN 0 - Far ELSE 0 - Min(Far, mh * 65536 + ml)
Sat(x) == IF x > Far THEN Far ELSE IF x < 0 - Far THEN 0 - Far ELSE x
(* "getsrcpos() + k > file_size" in uint32 arithmetic, pos possibly negative (pointer below the block) *)
XChk(pos, k, S) == IF pos + k >= 0 THEN pos + k > S ELSE TRUE
XPosLt(pos, S) == pos >= 0 /\ pos < S
XCanRead(pos, n, S) == pos >= 0 /\ pos + n < S
XCrash(site) == FixF("xmi", Crash(site, "unchecked-read"), Rej)
XOut(o) == [k |-> "out", o |-> o, tracks |-> 0, pos |-> 0, num |-> 0, clean |-> TRUE, ppqn |-> 0]

RECURSIVE XInfoLoop(_, _, _, _, _)
XInfoLoop(I, pos, i, len, steps) ==           \* for (i = 4; i < len; i++) over the chunks of FORM XDIR
  LET S == XS(I) IN
  IF ~ULt(i, len) \/ XChk(pos, 10, S) THEN [XOut(Acc) EXCEPT !.k = "ok"]
  ELSE IF steps > S \div 8 + 64 THEN XOut(FixF("xmi", Unk, Rej))
  ELSE IF pos < 0 THEN XOut(XCrash("xmi2mid_copy"))
  ELSE LET cl == U32At(I, pos + 4)
           i1 == UAdd(i, 8) IN
    IF ~XMatch(I, pos, INFO) THEN
      LET sk == UEven(cl) IN
      IF AsI32(sk) = 0 - 8 THEN
        \* skipsrc(-8): the cursor is back on the same chunk and i advances by 1 per round: len - i rounds
        (IF len[1] - i[1] >= 4096 THEN XOut(FixF("xmi", Hog("xmi2mid_ParseXMI", "chunk-length-loop"), Rej))       \* >= 2^28 rounds
         ELSE IF len[1] - i[1] >= 16 THEN XOut(FixF("xmi", Unk, Rej))                        \* 2^20 .. 2^28 rounds: seconds, not decided here
         ELSE [XOut(Acc) EXCEPT !.k = "ok"])
      ELSE XInfoLoop(I, Sat(pos + 8 + AsI32(sk)), UAdd(UAddU(i1, sk), 1), len, steps + 1)
    ELSE IF cl[1] = 0 /\ cl[2] < 2 THEN [XOut(Acc) EXCEPT !.k = "ok"]
    ELSE IF ~XCanRead(pos + 8, 2, S) THEN XOut(XCrash("xmi2mid_read2"))
    ELSE [XOut(Acc) EXCEPT !.k = "ok", !.tracks = XAt(I, pos + 8) + 256 * XAt(I, pos + 9)]

XHeader(I) ==                                 \* xmi2mid_ParseXMI; FORM at 0 and XDIR at 8 are known from loadMIDI
  LET S == XS(I)
      len == U32At(I, 4)
      r == XInfoLoop(I, 12, <<0, 4>>, len, 0) IN
  IF r.k = "out" THEN r
  ELSE IF r.tracks = 0 THEN XOut(Rej)
  ELSE LET P == UAdd(UEven(len), 8)           \* seeksrc(start + ((len + 1) & ~1)), 32-bit
           pos == ToInt(P) IN
    IF ToInt(UAdd(P, 12)) > S THEN XOut(Rej)
    ELSE IF pos = Far THEN XOut(XCrash("xmi2mid_copy"))        \* pos + 12 wrapped around 2^32
    ELSE IF ~XMatch(I, pos, CAT) THEN XOut(Rej)
    ELSE IF ~XCanRead(pos + 8, 4, S) THEN XOut(XCrash("xmi2mid_copy"))
    ELSE IF ~XMatch(I, pos + 8, XMID) THEN XOut(Rej)
    ELSE [XOut(Acc) EXCEPT !.k = "ok", !.tracks = r.tracks, !.pos = pos + 12]

(* xmi2mid_GetVLQ: at most 4 bytes, guarded *)
RECURSIVE XGetVLQ(_, _, _, _)
XGetVLQ(I, pos, v, i) ==
  IF i = 4 \/ pos + 1 >= XS(I) \/ pos < 0 THEN [v |-> v, np |-> pos]
  ELSE LET d == XAt(I, pos) IN
       IF d < 128 THEN [v |-> v * 128 + d, np |-> pos + 1] ELSE XGetVLQ(I, pos + 1, v * 128 + (d % 128), i + 1)

(* xmi2mid_GetVLQ2: sums bytes < 128; offset of the first byte >= 128, -1 if the read hits the end *)
RECURSIVE XDeltaEnd(_, _)
XDeltaEnd(I, pos) ==
  IF pos + 1 >= XS(I) THEN -1
  ELSE IF XAt(I, pos) >= 128 THEN pos
  ELSE IF pos < N(I) /\ InLongRep(I, pos) /\ UnitAllLow(I) THEN XDeltaEnd(I, HL(I) + UL(I))
  ELSE XDeltaEnd(I, pos + 1)

(* xmi2mid_ConvertFiletoList: the event cursor of one EVNT chunk *)
RECURSIVE XEvents(_, _, _, _, _, _)
XEvents(I, pos, tset, tempo, clean, steps) ==
  LET S == XS(I)
      Done(p) == [XOut(Acc) EXCEPT !.k = "ok", !.pos = p, !.clean = clean, !.ppqn = (tempo * 3) \div 25000] IN
  IF ~XPosLt(pos, S) THEN Done(pos)
  ELSE IF steps > S + 8 THEN XOut(FixF("xmi", Unk, Rej))
  ELSE IF pos < N(I) /\ InLongRep(I, pos) /\ ~UnitAllLow(I) THEN XOut(Unk)
  ELSE LET q == XDeltaEnd(I, pos) IN
    IF q < 0 THEN XOut(XCrash("xmi2mid_read1"))          \* no end-of-track: the delta reader runs into the end of the block
    ELSE LET st == XAt(I, q)
             hi == st \div 16
             p1 == q + 1
             R1(p) == XCanRead(p, 1, S) IN
      IF hi = 9 THEN
        (IF ~R1(p1) \/ ~R1(p1 + 1) THEN XOut(XCrash("xmi2mid_read1"))
         ELSE LET v == XGetVLQ(I, p1 + 2, 0, 0) IN XEvents(I, v.np, tset, tempo, clean /\ XAt(I, p1) < 128, steps + 1))
      ELSE IF hi \in {8, 10, 11, 14} THEN
        (IF ~R1(p1) \/ ~R1(p1 + 1) THEN XOut(XCrash("xmi2mid_read1"))
         ELSE XEvents(I, p1 + 2, tset, tempo, clean /\ XAt(I, p1) < 128, steps + 1))
      ELSE IF hi \in {12, 13} THEN
        (IF ~R1(p1) THEN XOut(XCrash("xmi2mid_read1"))
         ELSE XEvents(I, p1 + 1, tset, tempo, clean /\ XAt(I, p1) < 128, steps + 1))
      ELSE \* F0..FF
        IF st = 255 /\ ~R1(p1) THEN XOut(XCrash("xmi2mid_read1"))
        ELSE LET dat == IF st = 255 THEN XAt(I, p1) ELSE 0
                 isEnd == st = 255 /\ dat = 47
                 first == st = 255 /\ dat = 81 /\ ~tset
                 again == st = 255 /\ dat = 81 /\ tset IN
          IF again THEN                                    \* a second tempo: GetVLQ, skip, no event
            LET v == XGetVLQ(I, p1 + 1, 0, 0) IN XEvents(I, Sat(v.np + v.v), tset, tempo, clean, steps + 1)
          ELSE IF first /\ (~R1(p1 + 2) \/ ~R1(p1 + 3) \/ ~R1(p1 + 4)) THEN XOut(XCrash("xmi2mid_read1"))
          ELSE LET tempo1 == IF first THEN (XAt(I, p1 + 2) * 65536 + XAt(I, p1 + 3) * 256 + XAt(I, p1 + 4)) * 3 ELSE tempo
                   \* ConvertSystemMessage from p1: [type byte if FF] VLQ length, copy(length)
                   p2 == IF st = 255 THEN p1 + 1 ELSE p1
                   v == XGetVLQ(I, p2, 0, 0)
                   cl1 == clean /\ st \in {240, 247, 255} IN
            IF v.v # 0 /\ ~XCanRead(v.np, v.v, S) THEN XOut(XCrash("xmi2mid_copy"))
            ELSE IF isEnd THEN [XOut(Acc) EXCEPT !.k = "ok", !.pos = v.np + v.v, !.clean = cl1, !.ppqn = (tempo1 * 3) \div 25000]
            ELSE XEvents(I, v.np + v.v, tset \/ first, tempo1, cl1, steps + 1)

(* xmi2mid_ExtractTracksFromXmi: the chunk walk of CAT XMID *)
RECURSIVE XTracks(_, _, _, _, _, _)
XTracks(I, pos, num, tracks, clean, steps) ==
  LET S == XS(I)
      Fin == [XOut(Acc) EXCEPT !.k = "ok", !.num = num, !.clean = clean] IN
  IF num = tracks \/ ~XPosLt(pos, S) THEN Fin
  ELSE IF steps > S \div 8 + 64 THEN XOut(FixF("xmi", Unk, Rej))
  ELSE IF ~XCanRead(pos, 4, S) THEN XOut(XCrash("xmi2mid_copy"))
  ELSE IF ~XCanRead(pos + 4, 4, S) THEN XOut(XCrash("xmi2mid_read4"))
  ELSE LET form == XMatch(I, pos, FORM)
           b == IF form THEN pos + 12 ELSE pos            \* FORM: skip its type, read the next name and length
       IN
    IF form /\ ~XCanRead(b, 4, S) THEN XOut(XCrash("xmi2mid_copy"))
    ELSE IF form /\ ~XCanRead(b + 4, 4, S) THEN XOut(XCrash("xmi2mid_read4"))
    ELSE LET len == U32At(I, b + 4)
             p == b + 8
             nxt == ToInt(UAdd(UEven(len), p)) IN          \* seeksrc(begin + ((len + 1) & ~1))
      IF XMatch(I, b, RBRN) THEN
        (IF len[1] = 0 /\ len[2] < 2 THEN XTracks(I, nxt, num, tracks, clean, steps + 1)
         ELSE IF ~XCanRead(p, 2, S) THEN XOut(XCrash("xmi2mid_read2"))
         ELSE LET cnt == XAt(I, p) + 256 * XAt(I, p + 1) IN
           IF len[1] < 16 /\ len[1] * 65536 + len[2] - 2 < 6 * cnt THEN XTracks(I, nxt, num, tracks, clean, steps + 1)
           ELSE IF cnt > 0 /\ ~XCanRead(p + 2 + 6 * (cnt - 1), 6, S) THEN
                  \* the first entry that does not fit: its id (read2) or its offset (read4le)
                  LET j == IF S - p - 8 <= 0 THEN 0 ELSE (S - p - 8 + 5) \div 6 IN
                  XOut(XCrash(IF XCanRead(p + 2 + 6 * j, 2, S) THEN "xmi2mid_read4le" ELSE "xmi2mid_read2"))
           ELSE XTracks(I, nxt, num, tracks, clean, steps + 1))
      ELSE IF ~XMatch(I, b, EVNT) THEN
        (IF Sat(p + AsI32(UEven(len))) = pos THEN XOut(FixF("xmi", Hog("xmi2mid_ExtractTracksFromXmi", "chunk-length-loop"), Rej))    \* skipsrc(-(8 or 20)): same chunk for ever, the loop has no counter
         ELSE XTracks(I, Sat(p + AsI32(UEven(len))), num, tracks, clean, steps + 1))
      ELSE LET e == XEvents(I, p, FALSE, 500000, TRUE, 0) IN
        IF e.k = "out" THEN e
        ELSE IF e.ppqn = 0 THEN Fin
        ELSE XTracks(I, nxt, num + 1, tracks, clean /\ e.clean, steps + 1)

ParseXMI(I, sel) ==
  LET h == XHeader(I) IN
  IF h.k = "out" THEN h.o
  ELSE LET t == XTracks(I, h.pos, 0, h.tracks, TRUE, 0) IN
    IF t.k = "out" THEN t.o
    ELSE IF t.num # h.tracks THEN Rej
    ELSE IF sel < 0 /\ ~R("sel") THEN Crash("parseXMI", "song-index")       \* m_rawSongsData[-1]: only ">= size" is clamped
    ELSE IF ~t.clean THEN Unk                                 \* converted data bytes >= 0x80 / system statuses: re-parse not modelled
    ELSE Acc

---------------------------------------------------------------------------
(* BW_MidiSequencer::loadMIDI + OPNMIDIplay::LoadMIDI_post; sel = the value given to opn2_selectSongNum (0 if never called) *)
Kind(I) ==
  IF N(I) < 14 THEN "short"
  ELSE IF Match(I, 0, MThd6) THEN "smf"
  ELSE IF Match(I, 0, RIFF) THEN "rmi"
  ELSE IF Match(I, 0, GMF1) THEN "gmf"
  ELSE IF Match(I, 0, MUS1A) THEN "mus"
  ELSE IF Match(I, 0, FORM) /\ Match(I, 8, XDIR) THEN "xmi"
  ELSE IF Match(I, 0, CTMF) THEN "cmf"
  ELSE LET d == DetectIMF(I) IN
       IF d = "unk" THEN "unk" ELSE IF d = "yes" THEN "imf" ELSE IF DetectRSXX(I) THEN "rsxx" ELSE "junk"

Load(I, sel) ==
  LET k == Kind(I) IN
  CASE k = "short" -> Rej
    [] k = "smf"   -> ParseSMF(I, 0, "midi")
    [] k = "rmi"   -> ParseSMF(I, 20, "midi")
    [] k = "gmf"   -> ParseGMF(I)
    [] k = "mus"   -> ParseMUS(I)
    [] k = "xmi"   -> ParseXMI(I, sel)
    [] k = "cmf"   -> ParseCMF(I)
    [] k = "imf"   -> Rej                  \* parsed (cannot fail), then refused by LoadMIDI_post
    [] k = "rsxx"  -> ParseRSXX(I)
    [] k = "junk"  -> Rej
    [] OTHER       -> Unk

(* the property at model level: every load ends in accept or reject -- no crash, no unbounded resource *)
LoadSafe(I, sel) == Safe(Load(I, sel))
=============================================================================
