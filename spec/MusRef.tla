------------------------------- MODULE MusRef -------------------------------
(* Reference interpreter of the DMX MUS score format (oracle of the MUS clause of C17), written from the
   format definition (V. Arnost, "MUS file format description"), NOT from src/cvt_mus2mid.hpp.

   Abstract score = sequence of events, the last one being the score end:
     [k |-> "rel",   ch, n, dl]            release note
     [k |-> "play",  ch, n, v, dl]         play note; v = -1: no volume byte, the channel's last volume is used
     [k |-> "pitch", ch, v, dl]            pitch wheel, v in 0..255, 128 = centre  (MIDI bend = v * 64)
     [k |-> "sys",   ch, c, dl]            system event, c in 10..14, NO value byte
     [k |-> "ctl",   ch, c, v, dl]         change controller c in 0..9 (0 = instrument/program), value v
     [k |-> "end",   ch, dl]               score end
   ch in 0..15 (15 = percussion), dl = delay in ticks (1/140 s) that FOLLOWS the event.
   Encoding-only fields: lf = 1 forces the "last" flag with a zero delay, pad = number of leading zero digits of the delay.

   Reference item = what must reach the synthesizer:  [tick, key |-> <<type, midi channel, data>>]  with data normalised
   (release velocity and the value of a channel-mode message are not defined by the format).                           *)
EXTENDS Common, TLC

Has(r, f) == f \in DOMAIN r
\* MUS controller number -> MIDI controller (index c + 1); controller 0 is the program change
MusCtl == << -1, 0, 1, 7, 10, 11, 91, 93, 64, 67, 120, 123, 126, 127, 121 >>
ModeCCs == {120, 121, 123, 126, 127}
MusTickUs(k) == (k * 50000) \div 7          \* 1/140 s per tick, microseconds (k < 42949 for 32-bit integers)

\* ---- well-formedness (the quantifier of the property) ----
IsByte7(x) == x \in 0..127
EvOK(e) ==
  /\ e.ch \in 0..15 /\ e.dl >= 0
  /\ CASE e.k = "rel"   -> IsByte7(e.n)
       [] e.k = "play"  -> IsByte7(e.n) /\ e.v \in -1..127
       [] e.k = "pitch" -> e.v \in 0..255
       [] e.k = "sys"   -> e.c \in 10..14
       [] e.k = "ctl"   -> e.c \in 0..9 /\ IsByte7(e.v)
       [] e.k = "end"   -> TRUE
       [] OTHER -> FALSE
Melodic(sc) == { sc[i].ch : i \in DOMAIN sc } \ {15}
WellFormed(sc) ==
  /\ Len(sc) >= 1 /\ sc[Len(sc)].k = "end"
  /\ \A i \in DOMAIN sc : EvOK(sc[i]) /\ (sc[i].k = "end" => i = Len(sc))
  \* a note without a volume byte needs an earlier note of its channel that carried one
  /\ \A i \in DOMAIN sc : (sc[i].k = "play" /\ sc[i].v = -1) => \E j \in 1..(i - 1) : sc[j].k = "play" /\ sc[j].ch = sc[i].ch /\ sc[j].v >= 0
  /\ Cardinality(Melodic(sc)) <= 15

\* ---- channel assignment: percussion -> MIDI channel 9; melodic channels in order of first use, skipping 9 ----
RECURSIVE UsedOrder(_, _, _)
UsedOrder(sc, i, acc) ==
  IF i > Len(sc) THEN acc
  ELSE LET c == sc[i].ch IN UsedOrder(sc, i + 1, IF c = 15 \/ c \in SeqToSet(acc) THEN acc ELSE Append(acc, c))
ChanMap(sc) ==
  LET ord == UsedOrder(sc, 1, <<>>) IN
  [c \in SeqToSet(ord) \cup {15} |->
     IF c = 15 THEN 9 ELSE LET k == (CHOOSE i \in DOMAIN ord : ord[i] = c) - 1 IN IF k < 9 THEN k ELSE k + 1]

\* ---- ticks ----
RECURSIVE TickAt(_, _)
TickAt(sc, i) == IF i <= 1 THEN 0 ELSE TickAt(sc, i - 1) + sc[i - 1].dl      \* tick of event i = delays of the events before it
EndTick(sc) == TickAt(sc, Len(sc))
FirstUse(sc, c) == CHOOSE i \in DOMAIN sc : sc[i].ch = c /\ \A j \in 1..(i - 1) : sc[j].ch # c

\* ---- the events the score defines ----
RECURSIVE Fold(_, _, _, _, _, _)
Fold(sc, m, i, tick, vol, acc) ==
  IF i > Len(sc) THEN acc
  ELSE LET e == sc[i]
           mc == m[e.ch]
           v1 == IF e.k = "play" /\ e.v >= 0 THEN [vol EXCEPT ![e.ch] = e.v] ELSE vol
           key == CASE e.k = "rel"   -> << <<8, mc, <<e.n>>>> >>
                    [] e.k = "play"  -> << <<9, mc, <<e.n, v1[e.ch]>>>> >>
                    [] e.k = "pitch" -> << <<14, mc, <<(e.v * 64) % 128, (e.v * 64) \div 128>>>> >>
                    [] e.k = "sys"   -> << <<11, mc, <<MusCtl[e.c + 1]>>>> >>
                    [] e.k = "ctl"   -> IF e.c = 0 THEN << <<12, mc, <<e.v>>>> >> ELSE << <<11, mc, <<MusCtl[e.c + 1], e.v>>>> >>
                    [] OTHER -> <<>>
           its == [j \in DOMAIN key |-> [tick |-> tick, key |-> key[j], src |-> i]]
       IN Fold(sc, m, i + 1, tick + e.dl, v1, acc \o its)
MusItems(sc) == Fold(sc, ChanMap(sc), 1, 0, [c \in 0..15 |-> -1], <<>>)
\* independent formulation of "remembered volume": the volume byte of the latest earlier-or-same note of the channel that has one
VolumeAt(sc, i) ==
  LET S == { j \in 1..i : sc[j].k = "play" /\ sc[j].ch = sc[i].ch /\ sc[j].v >= 0 } IN
  IF S = {} THEN -1 ELSE sc[CHOOSE j \in S : \A q \in S : q <= j].v

\* converter artefacts that the check tolerates (and nothing else): channel volume 100 for the percussion channel at time 0 and
\* for every melodic MUS channel at its first use
MusExtras(sc) ==
  LET m == ChanMap(sc)  ord == UsedOrder(sc, 1, <<>>) IN
  << [tick |-> 0, key |-> <<11, 9, <<7, 100>>>>] >> \o
  [i \in DOMAIN ord |-> [tick |-> TickAt(sc, FirstUse(sc, ord[i])), key |-> <<11, m[ord[i]], <<7, 100>>>>]]
HasSys(sc) == \E i \in DOMAIN sc : sc[i].k = "sys"
HasOddPitch(sc) == \E i \in DOMAIN sc : sc[i].k = "pitch" /\ sc[i].v % 2 = 1

\* ---- byte layout of the format (used to re-derive the harness encoder's output and, in ConvMC, decoded back) ----
RECURSIVE Dig128(_)
Dig128(v) == IF v < 128 THEN <<v>> ELSE Dig128(v \div 128) \o <<v % 128>>
DelayBytes(dl, pad) == LET d == Dig128(dl) IN [i \in 1..pad |-> 128] \o [i \in DOMAIN d |-> IF i < Len(d) THEN d[i] + 128 ELSE d[i]]
LE16(v) == <<v % 256, v \div 256>>
TypeNo(k) == CASE k = "rel" -> 0 [] k = "play" -> 1 [] k = "pitch" -> 2 [] k = "sys" -> 3 [] k = "ctl" -> 4 [] OTHER -> 6
EvBytes(e) ==
  LET last == e.dl > 0 \/ (Has(e, "lf") /\ e.lf # 0)
      body == CASE e.k = "rel"   -> <<e.n>>
                [] e.k = "play"  -> IF e.v >= 0 THEN <<e.n + 128, e.v>> ELSE <<e.n>>
                [] e.k = "pitch" -> <<e.v>>
                [] e.k = "sys"   -> <<e.c>>
                [] e.k = "ctl"   -> <<e.c, e.v>>
                [] OTHER -> <<>>
  IN << (IF last THEN 128 ELSE 0) + TypeNo(e.k) * 16 + e.ch >> \o body \o
     (IF last THEN DelayBytes(e.dl, IF Has(e, "pad") THEN e.pad ELSE 0) ELSE <<>>)
ScoreBytes(sc) == FlattenSeq([i \in DOMAIN sc |-> EvBytes(sc[i])])
MusBytes(sc, chans, ins) ==
  LET body == ScoreBytes(sc) IN
  <<77, 85, 83, 26>> \o LE16(Len(body)) \o LE16(16 + 2 * Len(ins)) \o LE16(chans) \o LE16(0) \o LE16(Len(ins)) \o LE16(0) \o
  FlattenSeq([i \in DOMAIN ins |-> LE16(ins[i])]) \o body

\* decoder of the score bytes (format definition read in the other direction); returns events without the encoding-only fields
RECURSIVE DecDelay(_, _, _)
DecDelay(b, p, acc) == IF b[p] >= 128 THEN DecDelay(b, p + 1, acc * 128 + (b[p] - 128)) ELSE <<acc * 128 + b[p], p + 1>>
RECURSIVE DecScore(_, _, _)
DecScore(b, p, acc) ==
  IF p > Len(b) THEN acc
  ELSE LET h == b[p]  last == h >= 128  ty == (h % 128) \div 16  ch == h % 16
           r == CASE ty = 0 -> <<[k |-> "rel", ch |-> ch, n |-> b[p + 1]], p + 2>>
                  [] ty = 1 -> IF b[p + 1] >= 128 THEN <<[k |-> "play", ch |-> ch, n |-> b[p + 1] - 128, v |-> b[p + 2]], p + 3>>
                                                  ELSE <<[k |-> "play", ch |-> ch, n |-> b[p + 1], v |-> -1], p + 2>>
                  [] ty = 2 -> <<[k |-> "pitch", ch |-> ch, v |-> b[p + 1]], p + 2>>
                  [] ty = 3 -> <<[k |-> "sys", ch |-> ch, c |-> b[p + 1]], p + 2>>
                  [] ty = 4 -> <<[k |-> "ctl", ch |-> ch, c |-> b[p + 1], v |-> b[p + 2]], p + 3>>
                  [] OTHER  -> <<[k |-> "end", ch |-> ch], p + 1>>
           d == IF last THEN DecDelay(b, r[2], 0) ELSE <<0, r[2]>>
       IN DecScore(b, d[2], Append(acc, r[1] @@ [dl |-> d[1]]))
Plain(e) == [f \in DOMAIN e \ {"lf", "pad"} |-> e[f]]
=============================================================================
