-------------------------------- MODULE SeqMC --------------------------------
(* Leg (A) for C07 / C09: every small song x loop configuration is played by the sequencer model
   (Seq.tla) and the delivered log is judged by the same monitors that judge real executions
   (PlayFullFails / WindowFails of SeqTrace, oracle SmfRef).  One TLC state per (song, configuration).
   Known findings of the real sequencer that the model reproduces (F23 loop-start hook without a usable
   start marker, F26 events after loopEnd in the marker's row) are reported in `known`, everything
   else in `bad`. *)
EXTENDS SeqTrace
CONSTANTS MaxLen, TwoTracks, SeekMode

\* one tick = 1 us at the default tempo; 100 us in seek mode, where the 11 us look-ahead of a seek must not swallow the song
Div == IF SeekMode THEN 5000 ELSE 500000
Evs == << [k |-> "on", ch |-> 0, n |-> 60, v |-> 1], [k |-> "off", ch |-> 0, n |-> 60, v |-> 0], [k |-> "cc", ch |-> 0, n |-> 7, v |-> 5],
          [k |-> "loopstart"], [k |-> "loopend"], [k |-> "tempo", us |-> 1000000] >>
Evs2 == << [k |-> "on", ch |-> 1, n |-> 50, v |-> 2], [k |-> "off", ch |-> 1, n |-> 50, v |-> 0], [k |-> "cc", ch |-> 1, n |-> 10, v |-> 9] >>
Dts == {0, 3}
Sym(E) == { <<dt, E[i]>> : dt \in Dts, i \in DOMAIN E }
RECURSIVE SeqsUpTo(_, _)
SeqsUpTo(S, n) == IF n = 0 THEN {<<>>} ELSE LET r == SeqsUpTo(S, n - 1) IN r \cup { Append(q, x) : q \in { z \in r : Len(z) = n - 1 }, x \in S }
Track1 == { [ev |-> s, eot |-> e] : s \in SeqsUpTo(Sym(Evs), MaxLen) \ {<<>>}, e \in {0, 5} }
Track2 == { [ev |-> s, eot |-> e] : s \in SeqsUpTo(Sym(Evs2), 2), e \in {0, 4} }
Songs == IF TwoTracks THEN { [div |-> Div, fmt |-> 1, tracks |-> <<a, b>>] : a \in { t \in Track1 : Len(t.ev) <= 2 }, b \in Track2 }
         ELSE { [div |-> Div, fmt |-> 0, tracks |-> <<a>>] : a \in Track1 }
Cfgs == { [Cfg0 EXCEPT !.loopEn = en, !.loopN = n, !.hooks = TRUE] : en \in BOOLEAN, n \in {1, 2, 3} } 

VARIABLES bad, known
mvars == <<l, song, cfg, pos, fails, cnt, exec, drift, bad, known>>
Judge(sg, c) ==
  LET ev == PlayModel(sg, c.loopEn, c.loopN)
      c1 == [c EXCEPT !.enabled = [i \in DOMAIN sg.tracks |-> TRUE]]
      f  == (IF ev.trunc = 0 THEN PlayFullFails(ev, sg, c1) ELSE {"model-truncated"}) \cup (IF ~c.loopEn /\ ev.trunc = 0 THEN WindowFails(ev, sg, c1) ELSE {})
      li == LoopInfo(sg)
      isKnown(x) == x = "delivery-count@loopend-row" \/ (x = "loopstart-hook-count" /\ (~li.hasS \/ ~li.valid))
  IN [bad |-> { x \in f : ~isKnown(x) }, known |-> { x \in f : isKnown(x) }]
(* seek mode (C08): every song x looping on/off x every target at an event time, 5 us after it (inside the look-ahead of
   the seek), in the gap behind it, at 0, at the last event and beyond the end: the model's seek is judged by the seek
   monitors (position, delivered prefix without note-ons), and the playback that follows by the suffix monitor (looping off)
   or by the looped suffix monitor PASLF (looping on, target before the loop end) *)
Targets(sg) == {0, sg.len + 1} \cup UNION { {sg.its[i].t, sg.its[i].t + 5, sg.its[i].t + 50} : i \in DOMAIN sg.its }
JudgeSeek(sg, c, tgt) ==
  LET c1 == [c EXCEPT !.enabled = [i \in DOMAIN sg.tracks |-> TRUE]]
      m  == SeekModel(sg, c.loopEn, c.loopN, tgt, 11)
      ev == [e |-> "Seek", us |-> tgt, tell |-> m.tell, log |-> m.log]
      pl == PlayAfterSeekModel(sg, c.loopEn, c.loopN, tgt, 11)
      f  == SeekCoreFails(ev, sg, c1, 0) \cup
            (IF ~c.loopEn /\ pl.trunc = 0 /\ tgt <= sg.len THEN PlayAfterSeekFails(pl, sg, c1, m.tell)
             \* looping on (finite count): what a linear looping playback still owes after the target (PASLF)
             ELSE IF c.loopEn /\ c.loopN >= 0 /\ pl.trunc = 0 /\ tgt <= sg.len THEN PlayAfterSeekLoopFails(pl, sg, c1, m.tell)
             ELSE {})
  IN [bad |-> f, known |-> {}]
VARIABLE target
MCInitSeek == /\ song \in { MkSong([div |-> s.div, fmt |-> s.fmt, tracks |-> s.tracks]) : s \in Songs }
              /\ cfg \in { [Cfg0 EXCEPT !.loopEn = en, !.loopN = 2, !.hooks = TRUE] : en \in BOOLEAN }
              /\ target \in Targets(song)
              /\ l = 1 /\ pos = Pos0 /\ fails = <<>> /\ cnt = Cnt0 /\ exec = 0 /\ drift = <<>>
              /\ LET j == JudgeSeek(song, cfg, target) IN bad = j.bad /\ known = j.known
MCSeekSpec == MCInitSeek /\ [][UNCHANGED <<mvars, target>>]_<<mvars, target>>

MCInit == /\ song \in { MkSong([div |-> s.div, fmt |-> s.fmt, tracks |-> s.tracks]) : s \in Songs }
          /\ cfg \in Cfgs
          /\ l = 1 /\ pos = Pos0 /\ fails = <<>> /\ cnt = Cnt0 /\ exec = 0 /\ drift = <<>>
          /\ LET j == Judge(song, cfg) IN bad = j.bad /\ known = j.known
          /\ target = 0
MCNext == UNCHANGED <<mvars, target>>
MCSpec == MCInit /\ [][MCNext]_<<mvars, target>>
NoBad == bad = {}
=============================================================================
