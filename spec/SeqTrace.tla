------------------------------- MODULE SeqTrace -------------------------------
(* Trace validation for the sequencer properties C07 (delivery: once, ordered, on time, gating,
   length), C08 (seek) and C09 (loops, hooks), on executions recorded by harness/drive_seq.
   The oracle is SmfRef (reference semantics of SMF) plus the controller semantics of Synth for
   the seek clause.  Per execution: Init, Song, configuration calls, Load, then Play/Seek records. *)
EXTENDS SmfRef, Synth, Seq, Json, IOUtils, Sequences

T == ndJsonDeserialize(IOEnv.TRACE)
MaxFails == 60
VARIABLES l, song, cfg, pos, fails, cnt, exec, drift
vars == <<l, song, cfg, pos, fails, cnt, exec, drift>>

Cfg0 == [loopEn |-> FALSE, loopN |-> -1, tnum |-> 1, tden |-> 1, enabled |-> <<>>, solo |-> -1, chdis |-> {},
         hooks |-> FALSE, loaded |-> FALSE, len |-> 0, ls |-> -1, le |-> -1, rate |-> 44100]
Pos0 == [t |-> 0, moved |-> FALSE, stgt |-> -1]    \* stgt: target of the seek that immediately precedes, else -1
Cnt0 == [steps |-> 0, execs |-> 0, plays |-> 0, events |-> 0, sameTickGroups |-> 0, tempoSongs |-> 0, multiTrack |-> 0,
         loopPlays |-> 0, jumps |-> 0, hookcalls |-> 0, seeks |-> 0, gated |-> 0, windows |-> 0, audio |-> 0, invalidLoops |-> 0,
         refined |-> 0, drifted |-> 0]
Init == l = 1 /\ song = [none |-> TRUE] /\ cfg = Cfg0 /\ pos = Pos0 /\ fails = <<>> /\ cnt = Cnt0 /\ exec = 0 /\ drift = <<>>

Tag(p, S, ev, d) == { [p |-> p, w |-> x, l |-> l, x |-> exec, e |-> ev.e, d |-> d] : x \in S }
\* capped per (property, label), never in total: failures of another property's monitors or instances of a listed finding must
\* not use up the room of a different failure of the same chunk
AddFails(S) == LET keep == { x \in S : Cardinality({ i \in DOMAIN fails : fails[i].p = x.p /\ fails[i].w = x.w }) < MaxFails } IN
               IF keep = {} THEN fails ELSE fails \o SetToSeq(keep)
Lbl(c, s) == IF c THEN {} ELSE {s}

---------------------------------------------------------------------------
(* helpers over the recorded calls *)
EntriesOf(calls, kind) == FlattenSeq([i \in DOMAIN calls |-> SelectSeq(calls[i][5], LAMBDA x : x[1] = kind)])
AllLog(calls) == FlattenSeq([i \in DOMAIN calls |-> calls[i][5]])
Near(a, b) == Abs(a - b) <= 2

\* loop analysis of the song (reference): positions of the markers
MarkerItems(its, k) == SelectSeq(its, LAMBDA it : it.k = k)
LoopInfo(sg) ==
  LET its == sg.its
      ss == SelectSeq(its, LAMBDA it : it.k \in {"loopstart", "cc111"})  es == MarkerItems(its, "loopend")
      hasS == Len(ss) >= 1  hasE == Len(es) >= 1
      sT == IF hasS THEN ss[1].tick ELSE 0
      endTick == CHOOSE m \in { its[i].tick : i \in DOMAIN its } : \A i \in DOMAIN its : its[i].tick <= m
      eT == IF hasE THEN es[1].tick ELSE endTick
      endTime == CHOOSE m \in { its[i].t : i \in DOMAIN its } : \A i \in DOMAIN its : its[i].t <= m
      \* invalid: duplicates, end not after start
      valid == Len(ss) <= 1 /\ Len(es) <= 1 /\ sT < eT
  IN [hasS |-> hasS, hasE |-> hasE, valid |-> valid, st |-> TimeOf(sg, sT), et |-> IF hasE THEN TimeOf(sg, eT) ELSE endTime,
      stick |-> sT, etick |-> eT, etrk |-> IF hasE THEN es[1].trk ELSE -1, eidx |-> IF hasE THEN es[1].idx ELSE -1, any |-> hasS \/ hasE]
\* number of passes of the loop body for API count n (0 is read as "no extra repeat")
PassCount(n) == IF n < 0 THEN -1 ELSE IF n <= 1 THEN 1 ELSE n

---------------------------------------------------------------------------
(* C07 / C09: a complete play from the start of the song *)
\* the per-track order constraint at one time point (entries of one channel = one track)
RECURSIVE SoundingBefore(_, _, _, _)
\* is note (ch, n) sounding just before reference item index i of the gated list?  (reference note state)
SoundingBefore(its, i, ch, n) ==
  IF i <= 1 THEN FALSE
  ELSE LET p == its[i - 1] IN
       IF p.ty = 9 /\ p.ch = ch /\ p.d[1] = n THEN TRUE
       ELSE IF p.ty = 8 /\ p.ch = ch /\ p.d[1] = n THEN FALSE
       ELSE SoundingBefore(its, i - 1, ch, n)

OrderOK1(D) ==
  \* D: "e" entries delivered by ONE call, in order.  For entries with equal time and equal channel (= same track for channel
  \* events): every controller/program/wheel/pressure before every note-on
  \A i, j \in DOMAIN D :
    (i < j /\ D[i][2] = D[j][2] /\ D[i][5] = D[j][5] /\ D[i][3] = 9 /\ D[j][3] \in {11, 12, 13, 14}) => FALSE
\* note-offs of notes that were already sounding before this tick precede the note-ons of the tick (per track; a track
\* owns the channels k and k + 10)
TrkOfCh(ch) == IF ch >= 10 THEN ch - 10 ELSE ch
SoundingBeforeTime(its, ch, n, t) ==
  LET idx == { i \in DOMAIN its : its[i].ch = ch /\ its[i].ty \in {8, 9} /\ its[i].d[1] = n /\ its[i].t < t } IN
  idx # {} /\ its[CHOOSE i \in idx : \A j \in idx : j <= i].ty = 9
OffOn1(D, its) ==
  \* only the FIRST note-off of a sounding (channel, key) at this time releases the old note; later ones belong to
  \* notes struck at this very tick and legitimately follow their note-on
  \A i, j \in DOMAIN D :
    (i < j /\ D[i][3] = 9 /\ D[j][3] = 8 /\ D[i][2] = D[j][2] /\ TrkOfCh(D[i][5]) = TrkOfCh(D[j][5])
       /\ SoundingBeforeTime(its, D[j][5], D[j][6][1], D[j][2])
       /\ ~\E q \in 1..(j - 1) : D[q][3] = 8 /\ D[q][2] = D[j][2] /\ D[q][5] = D[j][5] /\ D[q][6][1] = D[j][6][1]) => FALSE
OffBeforeOnCalls(calls, its) == \A ci \in DOMAIN calls : OffOn1(SelectSeq(calls[ci][5], LAMBDA x : x[1] = "e"), its)
OrderOKCalls(calls) == \A ci \in DOMAIN calls : OrderOK1(SelectSeq(calls[ci][5], LAMBDA x : x[1] = "e"))
FileOrderOK(D, its) ==
  \* channel events of one track (channel) appear in file order unless they share a time
  \A i, j \in DOMAIN D :
    (i < j /\ D[i][3] \in 8..14 /\ D[j][3] \in 8..14 /\ D[i][5] = D[j][5] /\ D[i][2] # D[j][2]) => D[i][2] < D[j][2]

\* (D, H, its, li are parameters, not LET definitions: TLC evaluates an argument once, but re-evaluates a LET-bound value
\*  every time it is used under a quantifier or function constructor)
PFF(ev, sg, c, D, H, its, li) ==
  LET calls == ev.calls
      looping == c.loopEn /\ li.valid /\ li.any
      wholeLoop == c.loopEn /\ ~looping            \* invalid or absent markers: the whole song is the loop body
      n     == PassCount(c.loopN)
      exact == ev.steps = <<>>
      \* in stepped mode an entry is stamped with the time of the call, not of the event: compare without time there
      Dk    == [i \in DOMAIN D |-> IF exact THEN KeyOfEntry(D[i]) ELSE [KeyOfEntry(D[i]) EXCEPT ![1] = 0]]
      Rk    == [i \in DOMAIN its |-> IF exact THEN KeyOfItem(its[i]) ELSE [KeyOfItem(its[i]) EXCEPT ![1] = 0]]
      \* allowed delivery count of a reference item
      inside(it)  == it.t > li.st /\ it.t < li.et
      atEdge(it)  == it.t = li.st \/ it.t = li.et
      lo(it) == IF ~c.loopEn THEN 1 ELSE IF wholeLoop THEN n ELSE IF inside(it) THEN n ELSE 1
      \* an event written BEHIND the loopEnd marker in the marker's own track lies after the loop end even when it shares the
      \* marker's tick: at most once (the tree delivers it never while looping: F26)
      \* (note-offs and SysEx events are sorted to the front of their row, ahead of the marker: for them the same-tick
      \*  membership stays open, like for the events written in front of the marker)
      behind(it) == li.hasE /\ it.tick = li.etick /\ it.trk = li.etrk /\ it.idx > li.eidx /\ it.cls # "off" /\ it.k \notin {"sysex", "sysex7"}
      hi(it) == IF ~c.loopEn THEN 1 ELSE IF wholeLoop THEN n ELSE IF behind(it) THEN 1 ELSE IF inside(it) \/ atEdge(it) THEN n ELSE 1
      keys  == { Rk[i] : i \in DOMAIN Rk } \cup { Dk[i] : i \in DOMAIN Dk }
      cntD(k) == Count(Dk, LAMBDA y : y = k)
      loK(k) == SumSeq([i \in DOMAIN its |-> IF Rk[i] = k THEN lo(its[i]) ELSE 0])
      hiK(k) == SumSeq([i \in DOMAIN its |-> IF Rk[i] = k THEN hi(its[i]) ELSE 0])
      cand(it) == it.tick = li.etick /\ it.trk = li.etrk /\ it.k \notin {"sysex", "sysex7", "loopend"}
      finite == ~c.loopEn \/ n >= 0
      times == [i \in DOMAIN D |-> D[i][2]]
      drops == { i \in 2..Len(times) : times[i] < times[i - 1] }
      expJumps == IF ~c.loopEn \/ n < 0 THEN 0 ELSE n - 1
      lastCall == calls[Len(calls)]
      nLS == Count(H, LAMBDA x : x[3] = 1)
      nLE == Count(H, LAMBDA x : x[3] = 2)
  IN IF finite /\ Len(D) > Max(n, 1) * Len(its) + 8 THEN
       \* far more deliveries than the requested passes can produce (a loop that does not end): decided without the
       \* per-key counting, which is quadratic in the length of the log
       {IF c.loopEn THEN "delivery-count" ELSE "delivery-count"} \cup Lbl(ev.atend = 1, "not-at-end")
     ELSE IF ~finite THEN
       \* endless loop: never at end, keeps jumping (at least one jump observed), nothing delivered that the song does not contain
       Lbl(ev.atend = 0, "infinite-ended") \cup Lbl(drops # {}, "infinite-nojump") \cup
       Lbl(\A i \in DOMAIN Dk : \E j \in DOMAIN Rk : Rk[j] = Dk[i], "alien-event")
     ELSE
       (IF \A k \in keys : cntD(k) >= loK(k) /\ cntD(k) <= hiK(k) THEN {}
        \* the shortfall is fully explained by items of the loopEnd marker's own row that follow the marker (finding F26)
        ELSE IF looping /\ li.hasE /\ \A k \in keys : cntD(k) <= hiK(k) /\
                   cntD(k) >= SumSeq([i \in DOMAIN its |-> IF Rk[i] = k /\ ~cand(its[i]) THEN lo(its[i]) ELSE 0])
             THEN {"delivery-count@loopend-row"}
        \* a tempo event among the items lost in the loopEnd row shifts every later time: compare the rest without times
        ELSE IF looping /\ li.hasE /\ (\E i \in DOMAIN its : cand(its[i]) /\ its[i].k = "tempo") /\
                \A k \in { [x EXCEPT ![1] = 0] : x \in keys } :
                   LET c0 == Count(Dk, LAMBDA y : [y EXCEPT ![1] = 0] = k)
                       l0 == SumSeq([i \in DOMAIN its |-> IF [Rk[i] EXCEPT ![1] = 0] = k /\ ~cand(its[i]) THEN lo(its[i]) ELSE 0])
                       h0 == SumSeq([i \in DOMAIN its |-> IF [Rk[i] EXCEPT ![1] = 0] = k THEN hi(its[i]) ELSE 0])
                   IN c0 >= l0 /\ c0 <= h0
             THEN {"delivery-count@loopend-row"}
        ELSE {"delivery-count"}) \cup
       Lbl((looping /\ li.st = li.et) \/ (wholeLoop /\ sg.len = 1000000) \/ Cardinality(drops) = expJumps, "jump-count") \cup
       Lbl(\A i \in drops : looping => (Near(times[i - 1], li.et) /\ Near(times[i], li.st)), "jump-target") \cup
       Lbl(\A i \in drops : wholeLoop => times[i] = 0, "jump-target0") \cup
       Lbl(~exact \/ c.loopEn \/ OrderOKCalls(calls), "ctl-before-noteon") \cup
       Lbl(~exact \/ c.loopEn \/ FileOrderOK(D, its), "file-order") \cup
       Lbl(~exact \/ c.loopEn \/ OffBeforeOnCalls(calls, its), "sounding-noteoff-after-noteon") \cup
       Lbl(ev.atend = 1, "not-at-end") \cup
       Lbl(~c.hooks \/ ~c.loopEn \/ nLE = (IF looping /\ li.hasE THEN n + 1 ELSE n), "loopend-hook-count") \cup
       Lbl(~c.hooks \/ ~c.loopEn \/ nLS = n, "loopstart-hook-count") \cup
       Lbl(~c.hooks \/ c.loopEn \/ nLE = 1, "songend-hook")

\* ---- C07: "disabled channels contribute no notes", judged at the synthesizer side -------------------------------------
\* MIDI port of a track: a port-name meta event (FF 09) standing first in the track routes the whole track; distinct names
\* get the ports 0, 1, ... in the order in which the tracks deliver them at tick 0; a track without one plays on port 0.
\* The synthesizer channel of a file channel c of that track is 16 * port + c; opn2_setChannelEnabled addresses 0..15, so
\* only notes of port 0 can be masked.
PortNameOf(trk) == IF Len(trk.ev) >= 1 /\ trk.ev[1][1] = 0 /\ trk.ev[1][2].k = "text" /\ trk.ev[1][2].ty = 9 THEN trk.ev[1][2].b ELSE <<>>
\* (a name is numbered when it is DELIVERED: the port-name events of switched-off / non-solo tracks never are; the track
\*  options are taken as constant since the load, which holds for the generated histories)
TrackPlays(c, ti) == (c.solo = -1 \/ c.solo = ti - 1) /\ (ti \notin DOMAIN c.enabled \/ c.enabled[ti])
RECURSIVE DistinctNames(_, _, _, _)
DistinctNames(tracks, c, ti, acc) ==
  IF ti > Len(tracks) THEN acc
  ELSE LET nm == PortNameOf(tracks[ti]) IN
       DistinctNames(tracks, c, ti + 1, IF nm = <<>> \/ ~TrackPlays(c, ti) \/ (\E q \in DOMAIN acc : acc[q] = nm) THEN acc ELSE Append(acc, nm))
PortOfTrack(sg, c, ti) ==
  LET nm == PortNameOf(sg.tracks[ti])  names == DistinctNames(sg.tracks, c, 1, <<>>) IN
  IF nm = <<>> \/ ~TrackPlays(c, ti) THEN 0 ELSE (CHOOSE q \in DOMAIN names : names[q] = nm) - 1
\* the generated songs give track k (0-based) the file channels k and k + 10
PortOfFileChannel(sg, c, ch) == LET ti == TrkOfCh(ch) + 1 IN IF ti \in DOMAIN sg.tracks THEN PortOfTrack(sg, c, ti) ELSE 0
\* the synth-side response to entry j of a call's log: the tap entries up to the next delivered event / hook call.  A note that
\* STARTS uploads its patch to the chip channel and keys it on; a key-on alone is a re-key of a sounding note (vibrato, glide: they
\* follow the events of the same tick call) and says nothing about the note-on in front of it
RECURSIVE RespKeyed(_, _)
RespKeyed(L, j) == IF j > Len(L) \/ L[j][1] \in {"e", "h"} THEN FALSE
                   ELSE IF L[j][1] = "p" /\ j + 1 <= Len(L) /\ L[j + 1][1] = "k" /\ L[j + 1][3] = 1 /\ L[j + 1][2] = L[j][2] THEN TRUE
                   ELSE RespKeyed(L, j + 1)
\* every note-on shown to the raw-event hook (velocity > 0; melodic channels with instruments 0..15 only in these songs) keys a
\* chip channel on unless its synthesizer channel is switched off, and never when it is
ChanMaskCall(L, sg, c) ==
  { IF PortOfFileChannel(sg, c, L[j][5]) = 0 /\ L[j][5] \in c.chdis
    THEN (IF RespKeyed(L, j + 1) THEN "masked-channel-note-keyed" ELSE "ok")
    ELSE (IF RespKeyed(L, j + 1) THEN "ok" ELSE "unmasked-note-not-keyed")
    : j \in { q \in DOMAIN L : L[q][1] = "e" /\ L[q][3] = 9 /\ L[q][6][2] > 0 } } \ {"ok"}
ChanMaskFails(ev, sg, c) == UNION { ChanMaskCall(ev.calls[i][5], sg, c) : i \in DOMAIN ev.calls }

PlayFullFails(ev, sg, c) == PFF(ev, sg, c, EntriesOf(ev.calls, "e"), EntriesOf(ev.calls, "h"), Gated(sg, sg.its, c.enabled, c.solo), LoopInfo(sg))

\* timing of a play in "exact" mode: every entry is stamped with the reference time of some matching item (keys carry t)
\* timing in "steps" mode: delivered in the call whose interval covers the reference time
WindowFails(ev, sg, c) ==
  LET calls == ev.calls
      g2 == (IF "gran" \in DOMAIN ev THEN ev.gran ELSE 0) \div 2
      its == Gated(sg, sg.its, c.enabled, c.solo)
      \* song time before call i
      tb(i) == calls[i][6]
      ok(i) == LET es == SelectSeq(calls[i][5], LAMBDA x : x[1] = "e") IN
               \A j \in DOMAIN es :
                 \E q \in DOMAIN its : its[q].ty = es[j][3] /\ its[q].st = es[j][4] /\ its[q].ch = es[j][5] /\ its[q].d = es[j][6]
                                      /\ its[q].t <= calls[i][2] + g2 + 2 /\ (tb(i) = 0 \/ its[q].t > tb(i) + g2 - 2)
  IN Lbl(\A i \in DOMAIN calls : ok(i), "late-or-early")

---------------------------------------------------------------------------
\* ---- C08: seek -------------------------------------------------------------------------
SeekSlackUs == 12            \* half of the 1/44100 s granularity opn2_positionSeek uses
\* controller state reached by playing the reference prefix linearly (Synth controller semantics on 16 channels)
RECURSIVE FoldCtl(_, _, _)
FoldCtl(S, its, i) ==
  IF i > Len(its) THEN S
  ELSE LET it == its[i]
           \* the song-begin hook: controller reset, and (since the repair of the stale programs after a backward seek)
           \* program 0, bank 0:0 and no XG percussion flag on every channel
           S1 == CASE it.k = "begin" -> LET R == ResetState(S) IN
                                         [R EXCEPT !.mc = [q \in DOMAIN R.mc |-> [R.mc[q] EXCEPT !.patch = 0, !.msb = 0, !.lsb = 0, !.xgp = FALSE]]]
                   [] it.k = "cc"    -> Controller(S, it.ch, it.d[1], it.d[2])
                   [] it.k = "pc"    -> [S EXCEPT !.mc[it.ch + 1].patch = it.d[1]]
                   [] it.k = "bend"  -> [S EXCEPT !.mc[it.ch + 1].bend = it.d[1] + it.d[2] * 128 - 8192]
                   [] it.k = "cat"   -> [S EXCEPT !.mc[it.ch + 1].at = it.d[1]]
                   [] OTHER -> S
       IN FoldCtl(S1, its, i + 1)
CtlView(m) == <<m.patch, m.msb, m.lsb, m.vol, m.expr, m.pan, m.bend, m.bsm, m.bsl, m.sus, m.soft, m.lrpn, m.mrpn, m.nrpn,
                m.vib, m.at, m.bright, m.porta, m.portaEn>>
\* the clauses that need only the delivered log and the reported position (judged on model runs too) ...
SeekCoreFails(ev, sg, c, wasT) ==
  LET its == Gated(sg, sg.its, c.enabled, c.solo)
      tgt == ev.us
      lastT == sg.len - 1000000
      inside == tgt >= 0 /\ tgt < lastT - SeekSlackUs
      tail == tgt >= lastT - SeekSlackUs /\ tgt <= sg.len
      beyond == tgt > sg.len
      pre  == SelectSeq(its, LAMBDA it : it.t <= tgt - SeekSlackUs)
      amb  == SelectSeq(its, LAMBDA it : it.t > tgt - SeekSlackUs /\ it.t <= tgt + SeekSlackUs)
      D    == SelectSeq(ev.log, LAMBDA x : x[1] = "e")
      Dk   == [i \in DOMAIN D |-> [KeyOfEntry(D[i]) EXCEPT ![1] = 0]]
      key0(it) == [KeyOfItem(it) EXCEPT ![1] = 0]
      need == SelectSeq(pre, LAMBDA it : it.cls # "on")
      may  == SelectSeq(pre \o amb, LAMBDA it : it.cls # "on")
  IN IF inside
     THEN Lbl(Abs(ev.tell - tgt) <= 1, "tell") \cup
          Lbl(\A i \in DOMAIN need : Count(Dk, LAMBDA y : y = key0(need[i])) >= Count(need, LAMBDA it : key0(it) = key0(need[i])), "prefix-missing") \cup
          Lbl(\A i \in DOMAIN Dk : Count(Dk, LAMBDA y : y = Dk[i]) <= Count(may, LAMBDA it : key0(it) = Dk[i]), "prefix-extra") \cup
          Lbl(\A i \in DOMAIN D : D[i][3] # 9, "noteon-during-seek")
     ELSE IF tail THEN Lbl(ev.tell = 0 \/ Abs(ev.tell - tgt) <= 1, "tell")
     ELSE IF beyond THEN Lbl(ev.tell = 0, "beyond-end-not-rewound")
     ELSE Lbl(ev.tell = wasT, "negative-seek-moved")
\* ... and the whole of it, with the clauses over the synthesizer snapshot
SeekFails(ev, sg, c) ==
  LET its == Gated(sg, sg.its, c.enabled, c.solo)
      tgt == ev.us
      lastT == sg.len - 1000000
      inside == tgt >= 0 /\ tgt < lastT - SeekSlackUs   \* strictly before the final event: afterwards the song is over (see tail)
      tail == tgt >= lastT - SeekSlackUs /\ tgt <= sg.len  \* at/after the last event the sequencer is at its end and may rewind
      beyond == tgt > sg.len
      \* items surely before / surely after the target (those within the slack may fall on either side)
      pre  == SelectSeq(its, LAMBDA it : it.t <= tgt - SeekSlackUs)
      amb  == SelectSeq(its, LAMBDA it : it.t > tgt - SeekSlackUs /\ it.t <= tgt + SeekSlackUs)
      D    == SelectSeq(ev.log, LAMBDA x : x[1] = "e")
      Dk   == [i \in DOMAIN D |-> [KeyOfEntry(D[i]) EXCEPT ![1] = 0]]
      key0(it) == [KeyOfItem(it) EXCEPT ![1] = 0]
      need == SelectSeq(pre, LAMBDA it : it.cls # "on")
      may  == SelectSeq(pre \o amb, LAMBDA it : it.cls # "on")
      S0   == Init0([i \in 1..16 |-> i - 1], 12, 0, <<>>, 44100, FALSE, -1, 0)
      exp  == FoldCtl(S0, pre \o amb, 1)
      expLo == FoldCtl(S0, pre, 1)
      snap == ev.s
      ctlOK == \A ch \in 1..16 : CtlView(snap.mc[ch]) = CtlView(exp.mc[ch]) \/ CtlView(snap.mc[ch]) = CtlView(expLo.mc[ch])
      silent == (\A ci \in DOMAIN snap.ch : ~snap.ch[ci].k /\ snap.ch[ci].u = <<>>) /\ \A mi \in DOMAIN snap.mc : snap.mc[mi].notes = <<>>
      \* a refused (negative) target is IGNORED: what sounded before the call still sounds (keyed-on chip channels and
      \* chip-channel users counted by the harness right before the call)
      keyedNow == Cardinality({ ci \in DOMAIN snap.ch : snap.ch[ci].k })
      usersNow == SumSeq([ci \in DOMAIN snap.ch |-> Len(snap.ch[ci].u)])
      untouched == "prek" \notin DOMAIN ev \/ (ev.prek = keyedNow /\ ev.preu = usersNow)
  IN SeekCoreFails(ev, sg, c, pos.t) \cup
     (IF inside THEN Lbl(tgt <= SeekSlackUs \/ ctlOK, "controller-state") \cup Lbl(silent, "sounding-after-seek")
      ELSE IF tail \/ beyond THEN Lbl(silent, "sounding-after-seek")
      ELSE Lbl(untouched, "negative-seek-touched-notes"))
Ungated(c) == c.solo = -1 /\ \A i \in DOMAIN c.enabled : c.enabled[i]
StripLog(L) == LET K == SelectSeq(L, LAMBDA x : x[1] \in {"e", "h"}) IN
               [i \in DOMAIN K |-> IF K[i][1] = "e" THEN <<"e", K[i][2], K[i][3], K[i][4], K[i][5], K[i][6]>> ELSE <<"h", K[i][2], K[i][3]>>]
\* which channels differ after a seek, with the observed and the two expected views (detail of `controller-state`)
SeekCtlDiff(ev, sg, c) ==
  LET its == Gated(sg, sg.its, c.enabled, c.solo)
      pre  == SelectSeq(its, LAMBDA it : it.t <= ev.us - SeekSlackUs)
      amb  == SelectSeq(its, LAMBDA it : it.t > ev.us - SeekSlackUs /\ it.t <= ev.us + SeekSlackUs)
      S0   == Init0([i \in 1..16 |-> i - 1], 12, 0, <<>>, 44100, FALSE, -1, 0)
      exp  == FoldCtl(S0, pre \o amb, 1)
      expLo == FoldCtl(S0, pre, 1)
  IN { <<ch - 1, CtlView(ev.s.mc[ch]), CtlView(exp.mc[ch])>> : ch \in { q \in 1..16 : CtlView(ev.s.mc[q]) # CtlView(exp.mc[q]) /\ CtlView(ev.s.mc[q]) # CtlView(expLo.mc[q]) } }
StepSeek(ev) ==
  LET f == SeekFails(ev, song, cfg)
      tgt == ev.tell
      \* leg (C): the seek of the sequencer model delivers the same log and reports the same position
      \* (a target equal to the song length sits on a floating-point edge of the implementation: not compared)
      doRef == IOEnv.SEQ_REFINE = "1" /\ Ungated(cfg) /\ ev.us >= 0 /\ ev.us # song.len /\ Len(ev.log) <= 150
      m == IF doRef THEN SeekModel(song, cfg.loopEn, cfg.loopN, ev.us, 500000 \div cfg.rate) ELSE [log |-> <<>>, tell |-> 0]
      dr == doRef /\ (m.tell # ev.tell \/ StripLog(m.log) # StripLog(SelectSeq(ev.log, LAMBDA x : x[1] = "e" \/ cfg.hooks)))
  IN /\ fails' = AddFails(Tag("C08", f, ev, ToString(<<"target", ev.us, "len", song.len, "tell", ev.tell, "was", pos.t>>)
                                              \o (IF "controller-state" \in f THEN ToString(SeekCtlDiff(ev, song, cfg)) ELSE "")))
     /\ pos' = [t |-> tgt, moved |-> TRUE, stgt |-> IF ev.us >= 0 THEN ev.us ELSE -1]
     /\ drift' = IF dr /\ Len(drift) < 4 THEN Append(drift, [l |-> l, x |-> exec, e |-> "Seek",
                      d |-> ToString(<<"target", ev.us, "model-tell", m.tell, "real-tell", ev.tell, "model-log", Len(m.log), "real-log", Len(ev.log)>>)]) ELSE drift
     /\ UNCHANGED <<song, cfg, exec>>
     /\ cnt' = [cnt EXCEPT !.steps = @ + 1, !.seeks = @ + 1, !.refined = @ + (IF doRef THEN 1 ELSE 0), !.drifted = @ + (IF dr THEN 1 ELSE 0)]
\* playback after a seek: exactly the reference items after the target, at their song times
PlayAfterSeekFails(ev, sg, c, from) ==
  LET its == Gated(sg, sg.its, c.enabled, c.solo)
      D   == EntriesOf(ev.calls, "e")
      Dk  == [i \in DOMAIN D |-> KeyOfEntry(D[i])]
      post == SelectSeq(its, LAMBDA it : it.t > from + SeekSlackUs)
      amb  == SelectSeq(its, LAMBDA it : it.t > from - SeekSlackUs /\ it.t <= from + SeekSlackUs)
  IN Lbl(\A i \in DOMAIN post : Count(Dk, LAMBDA y : y = KeyOfItem(post[i])) >= Count(post, LAMBDA it : KeyOfItem(it) = KeyOfItem(post[i])), "suffix-missing") \cup
     Lbl(\A i \in DOMAIN Dk : Count(Dk, LAMBDA y : y = Dk[i]) <= Count(post \o amb, LAMBDA it : KeyOfItem(it) = Dk[i]), "suffix-extra-or-mistimed") \cup
     Lbl(ev.atend = 1, "not-at-end")

\* ... with looping on and a finite count, for a target before the loop end (C08's quantifier): what follows is what a
\* linear looping playback delivers after the target - the rest of this pass, the remaining passes, then the tail.  Counted per
\* item: an item of the loop body after the target still comes n times, one before it n - 1 times, an item in front of the loop
\* that lies before the target never again, the tail once.  Items at the loop edges may fall on either side; items of the
\* loopEnd marker's own row that follow the marker are exempt from the lower bound (finding F26).
\* (D, its, li are parameters: see PFF)
PASLF(ev, c, from, D, its, li) ==
  LET looping == li.valid /\ li.any
      n == PassCount(c.loopN)
      Dk == [i \in DOMAIN D |-> KeyOfEntry(D[i])]
      Rk == [i \in DOMAIN its |-> KeyOfItem(its[i])]
      st == IF looping THEN li.st ELSE -1
      et == IF looping THEN li.et ELSE 2000000000
      inside(it) == it.t > st /\ it.t < et
      atEdge(it) == looping /\ (it.t = li.st \/ it.t = li.et)
      cand(it) == looping /\ li.hasE /\ it.tick = li.etick /\ it.trk = li.etrk /\ it.k \notin {"sysex", "sysex7", "loopend"}
      loAfter(it)  == IF cand(it) THEN 0 ELSE IF inside(it) THEN n ELSE 1
      hiAfter(it)  == IF inside(it) \/ atEdge(it) THEN n ELSE 1
      loBefore(it) == IF cand(it) \/ atEdge(it) THEN 0 ELSE IF inside(it) THEN n - 1 ELSE 0
      hiBefore(it) == IF atEdge(it) THEN n ELSE IF inside(it) THEN n - 1 ELSE 0
      lo(it) == IF it.t > from + SeekSlackUs THEN loAfter(it) ELSE IF it.t <= from - SeekSlackUs THEN loBefore(it) ELSE Min(loAfter(it), loBefore(it))
      hi(it) == IF it.t > from + SeekSlackUs THEN hiAfter(it) ELSE IF it.t <= from - SeekSlackUs THEN hiBefore(it) ELSE Max(hiAfter(it), hiBefore(it))
      keys == { Rk[i] : i \in DOMAIN Rk } \cup { Dk[i] : i \in DOMAIN Dk }
      cntD(k) == Count(Dk, LAMBDA y : y = k)
      loK(k) == SumSeq([i \in DOMAIN its |-> IF Rk[i] = k THEN lo(its[i]) ELSE 0])
      hiK(k) == SumSeq([i \in DOMAIN its |-> IF Rk[i] = k THEN hi(its[i]) ELSE 0])
  IN IF Len(D) > (n + 1) * Len(its) + 8 THEN {"suffix-extra-or-mistimed"} \cup Lbl(ev.atend = 1, "not-at-end")
     ELSE Lbl(\A k \in keys : cntD(k) >= loK(k), "suffix-missing") \cup
          Lbl(\A k \in keys : cntD(k) <= hiK(k), "suffix-extra-or-mistimed") \cup
          Lbl(ev.atend = 1, "not-at-end")
PlayAfterSeekLoopFails(ev, sg, c, from) ==
  LET li == LoopInfo(sg) IN
  \* a target at or behind the loop end is outside the property's quantifier; a degenerate loop (start = end) is judged by C09 only
  IF (li.valid /\ li.any /\ (from + SeekSlackUs >= li.et \/ li.st = li.et)) THEN {}
  \* a tempo event among the items lost in the loopEnd row (F26) shifts every later time: left to the C09 monitors of complete plays
  ELSE IF li.valid /\ li.any /\ li.hasE /\ (\E i \in DOMAIN sg.its : sg.its[i].tick = li.etick /\ sg.its[i].trk = li.etrk /\ sg.its[i].k = "tempo") THEN {}
  ELSE PASLF(ev, c, from, EntriesOf(ev.calls, "e"), Gated(sg, sg.its, c.enabled, c.solo), li)

\* ---- C07 at the synthesizer side: the channel events reach the channel they are meant for.  After a complete play with
\* looping off the controller state of EVERY synthesizer channel (all ports) is the fold of the delivered channel events, each
\* applied to channel 16 * port(track) + file channel (Synth controller semantics, as for a seek)
RouteItems(sg, c, its) ==
  [i \in DOMAIN its |-> IF its[i].ty \in 8..14 THEN [its[i] EXCEPT !.ch = 16 * PortOfFileChannel(sg, c, its[i].ch) + its[i].ch] ELSE its[i]]
PlayCtlFails(ev, sg, c) ==
  LET its  == RouteItems(sg, c, Gated(sg, sg.its, c.enabled, c.solo))
      S0   == Init0([i \in 1..48 |-> i - 1], 12, 0, <<>>, 44100, FALSE, -1, 0)
      exp  == FoldCtl(S0, its, 1)
      snap == ev.s
  IN Lbl(\A ch \in DOMAIN snap.mc : ch > 48 \/ CtlView(snap.mc[ch]) = CtlView(exp.mc[ch]), "controller-state-after-play")

StepInit(ev) == /\ song' = [none |-> TRUE] /\ cfg' = [Cfg0 EXCEPT !.rate = ev.rate] /\ pos' = Pos0 /\ exec' = exec + 1 /\ fails' = fails /\ drift' = drift
                /\ cnt' = [cnt EXCEPT !.execs = @ + 1]
\* everything derived from the song is computed once here (TLC does not memoise operator applications)
MkSong(ev) ==
  LET s0 == [div |-> ev.div, fmt |-> ev.fmt, tracks |-> NormTracks(ev.tracks)]      \* loop controllers get their roles (SmfRef)
      s1 == s0 @@ [tempi |-> TempoEvents(s0)]
      its == AllItems(s1)
  IN s1 @@ [its |-> its, len |-> (CHOOSE m \in { its[i].t : i \in DOMAIN its } : \A i \in DOMAIN its : its[i].t <= m) + 1000000]
StepSong(ev) == /\ song' = MkSong(ev) /\ UNCHANGED <<cfg, pos, exec, fails, drift>>
                /\ cnt' = [cnt EXCEPT !.tempoSongs = @ + (IF \E k \in DOMAIN ev.tracks : \E i \in DOMAIN ev.tracks[k].ev : ev.tracks[k].ev[i][2].k = "tempo" THEN 1 ELSE 0),
                                      !.multiTrack = @ + (IF Len(ev.tracks) > 1 THEN 1 ELSE 0)]
StepLoad(ev) ==
  LET ok == ev.r = 0
      f == Lbl(ok, "load-failed") \cup
           Lbl(~ok \/ ev.len = song.len, "length") \cup
           Lbl(~ok \/ ev.tracks = Len(song.tracks), "track-count") \cup
           Lbl(~ok \/ ev.tell = 0, "tell-after-load")
  IN /\ cfg' = [cfg EXCEPT !.loaded = ok, !.enabled = [i \in DOMAIN song.tracks |-> TRUE], !.solo = -1, !.chdis = {},
                           !.len = ev.len, !.ls = ev.ls, !.le = ev.le]
     /\ pos' = Pos0 /\ UNCHANGED <<song, exec>>
     /\ LET doRef == IOEnv.SEQ_REFINE = "1" /\ ok
            rows == Rows(song)  lt == LoopTicks(song)
            us(x) == IF x = -1 THEN -1000000 ELSE x
            mls == us(LoopTimeUs(song, rows, lt.st, lt.invalid))  mle == us(LoopEndTimeUs(song, rows, lt))
            dr == doRef /\ (mls # ev.ls \/ mle # ev.le)
        IN drift' = IF dr /\ Len(drift) < 4 THEN Append(drift, [l |-> l, x |-> exec, e |-> "Load", d |-> ToString(<<"model-ls-le", mls, mle, "real", ev.ls, ev.le>>)]) ELSE drift
     /\ fails' = AddFails(Tag("C07", f, ev, ""))
     /\ cnt' = [cnt EXCEPT !.steps = @ + 1]
StepCfg(ev) ==
  /\ cfg' = CASE ev.e = "SetLoop" -> [cfg EXCEPT !.loopEn = ev.en # 0]
              [] ev.e = "SetLoopCount" -> [cfg EXCEPT !.loopN = ev.n]
              [] ev.e = "SetTempo" -> [cfg EXCEPT !.tnum = ev.num, !.tden = ev.den]
              [] ev.e = "SetHooks" -> [cfg EXCEPT !.hooks = TRUE]
              [] ev.e = "TrackOpt" -> IF ev.r # 0 THEN cfg
                                      ELSE IF ev.o = 3 THEN [cfg EXCEPT !.solo = ev.t]
                                      ELSE [cfg EXCEPT !.enabled[ev.t + 1] = (ev.o = 1)]
              [] ev.e = "ChanEn" -> IF ev.r # 0 THEN cfg ELSE [cfg EXCEPT !.chdis = IF ev.en = 0 THEN @ \cup {ev.c} ELSE @ \ {ev.c}]
              [] OTHER -> cfg
  /\ UNCHANGED <<song, pos, exec, fails, drift>>
  /\ cnt' = [cnt EXCEPT !.steps = @ + 1]
\* index of the first difference of two sequences (0: equal).  A recursive operator on purpose: its arguments are values;
\* a CHOOSE with a nested quantifier over LET-bound logs made TLC recompute the model run for every index pair
RECURSIVE FirstDiff(_, _, _)
FirstDiff(a, b, i) == IF i > Len(a) \/ i > Len(b) THEN (IF Len(a) = Len(b) THEN 0 ELSE i)
                      ELSE IF a[i] # b[i] THEN i ELSE FirstDiff(a, b, i + 1)
ModelVsReal(mr, real, hooks) ==
  IF mr.trunc # 0 THEN 0
  ELSE FirstDiff(StripLog(SelectSeq(AllLog(mr.calls), LAMBDA x : x[1] = "e" \/ hooks)), real, 1)
\* a runaway play (log cut at 6000 entries, or thousands of calls): everything derived from the log is quadratic in its
\* length for TLC, so it is judged from the scalars only: a play that was expected to end did not
\* (ne = number of delivered events, counted by the harness; calls are no measure: a stepped play makes thousands of them)
BigPlay(ev) == ev.trunc = 1 \/ ("ne" \in DOMAIN ev /\ ev.ne > 3000)
StepPlayBig(ev) ==
  LET expectedToEnd == ~cfg.loopEn \/ cfg.loopN >= 0
      judged == ~pos.moved /\ "partial" \notin DOMAIN ev /\ "until" \notin DOMAIN ev /\ expectedToEnd
      f == IF judged THEN {"delivery-count"} \cup Lbl(ev.atend = 1, "not-at-end") ELSE {}
  IN /\ fails' = AddFails(Tag(IF cfg.loopEn THEN "C09" ELSE "C07", f, ev, ToString(<<"runaway play: events", IF "ne" \in DOMAIN ev THEN ev.ne ELSE -1, "log cut", ev.trunc, "n", cfg.loopN>>)))
     /\ pos' = [pos EXCEPT !.moved = TRUE, !.stgt = -1, !.t = IF ev.calls = <<>> THEN @ ELSE ev.calls[Len(ev.calls)][2]]
     /\ UNCHANGED <<song, cfg, exec, drift>>
     /\ cnt' = [cnt EXCEPT !.steps = @ + 1, !.plays = @ + 1, !.loopPlays = @ + (IF cfg.loopEn THEN 1 ELSE 0)]
StepPlayNormal(ev) ==
  LET \* partial: deliberately stopped after a few calls; trunc: the harness cut the log at 6000 entries, which a play that
      \* is expected to end never reaches (then it is judged: it did not end)
      full == ~pos.moved /\ "partial" \notin DOMAIN ev /\ "until" \notin DOMAIN ev /\ (ev.trunc = 0 \/ ~cfg.loopEn \/ cfg.loopN >= 0)
      li == LoopInfo(song)
      f7 == IF full THEN PlayFullFails(ev, song, cfg) ELSE {}
      fw == IF full /\ ~cfg.loopEn /\ ev.trunc = 0 THEN WindowFails(ev, song, cfg) ELSE {}
      is9(x) == x \in {"delivery-count@loopend-row", "jump-count", "jump-target", "jump-target0", "loopend-hook-count", "loopstart-hook-count", "songend-hook",
                       "infinite-ended", "infinite-nojump"} \/ (cfg.loopEn /\ x = "delivery-count")
      D == EntriesOf(ev.calls, "e")
      \* leg (C): the recorded delivery (events and loop hooks, in order, with their song times) is the model's delivery
      ungated == Ungated(cfg)
      afterSeek == pos.stgt >= 0
      \* (a target equal to the loop end time sits on a floating-point edge of `seconds >= m_loopEndTime`: not compared)
      doRef == IOEnv.SEQ_REFINE = "1" /\ ~(afterSeek /\ pos.stgt = li.et) /\ (full \/ (afterSeek /\ ev.trunc = 0)) /\ ev.atend = 1 /\ ev.steps = <<>> /\ ungated /\ (cfg.loopEn => cfg.loopN >= 0) /\ Len(D) <= 150
      realLog == StripLog(AllLog(ev.calls))
      mrun == IF ~doRef THEN [calls |-> <<>>, trunc |-> 1]
              ELSE IF afterSeek THEN PlayAfterSeekModel(song, cfg.loopEn, cfg.loopN, pos.stgt, 500000 \div cfg.rate)
              ELSE PlayModel(song, cfg.loopEn, cfg.loopN)
      \* 0 = the logs agree (or nothing was compared); operators with value arguments, see FirstDiff
      fd == IF doRef THEN ModelVsReal(mrun, realLog, cfg.hooks) ELSE 0
      dr == fd # 0
      det == ToString(<<"loop", li, "n", cfg.loopN, "hooks", EntriesOf(ev.calls, "h"), "nLS", Count(EntriesOf(ev.calls, "h"), LAMBDA x : x[3] = 1), "times", [i \in DOMAIN D |-> D[i][2]]>>)
      \* (tapcut: the harness stopped recording tap entries of this play after 6000 of them)
      fm == (IF ev.trunc = 0 /\ "tapcut" \notin DOMAIN ev THEN ChanMaskFails(ev, song, cfg) ELSE {}) \cup
            (IF full /\ ~cfg.loopEn /\ ev.trunc = 0 /\ ev.atend = 1 /\ "s" \in DOMAIN ev THEN PlayCtlFails(ev, song, cfg) ELSE {})
      f8 == IF pos.moved /\ ~cfg.loopEn /\ ev.trunc = 0 /\ ev.steps = <<>> THEN PlayAfterSeekFails(ev, song, cfg, pos.t)
            ELSE IF afterSeek /\ cfg.loopEn /\ cfg.loopN >= 0 /\ ev.trunc = 0 /\ ev.steps = <<>> /\ "partial" \notin DOMAIN ev
                 THEN PlayAfterSeekLoopFails(ev, song, cfg, pos.t) ELSE {}
  IN /\ fails' = AddFails(Tag("C07", { x \in f7 \cup fw : ~is9(x) } \cup fm, ev, "") \cup Tag("C09", { x \in f7 : is9(x) }, ev, det)
                          \cup Tag("C08", f8, ev, ToString(<<"from", pos.t>>))
                          \* the pass count after a seek is a loop-count matter as well
                          \cup (IF cfg.loopEn THEN Tag("C09", f8, ev, ToString(<<"from", pos.t>>)) ELSE {}))
     /\ pos' = [pos EXCEPT !.moved = TRUE, !.stgt = -1, !.t = IF ev.calls = <<>> THEN @ ELSE ev.calls[Len(ev.calls)][2]]
     /\ drift' = IF dr /\ Len(drift) < 4 THEN Append(drift, [l |-> l, x |-> exec, e |-> IF afterSeek THEN "PlayTicks-after-seek" ELSE "PlayTicks",
                      d |-> ToString(<<"first-difference-at", fd>>)]) ELSE drift
     /\ UNCHANGED <<song, cfg, exec>>
     /\ cnt' = [cnt EXCEPT !.steps = @ + 1, !.plays = @ + 1, !.events = @ + Len(D),
                           !.sameTickGroups = @ + Cardinality({ i \in 2..Len(D) : D[i][2] = D[i - 1][2] /\ D[i][5] = D[i - 1][5] }),
                           !.loopPlays = @ + (IF cfg.loopEn THEN 1 ELSE 0),
                           !.invalidLoops = @ + (IF cfg.loopEn /\ li.any /\ ~li.valid THEN 1 ELSE 0),
                           !.jumps = @ + Cardinality({ i \in 2..Len(D) : D[i][2] < D[i - 1][2] }),
                           !.hookcalls = @ + Len(EntriesOf(ev.calls, "h")),
                           !.gated = @ + (IF cfg.solo # -1 \/ \E i \in DOMAIN cfg.enabled : ~cfg.enabled[i] THEN 1 ELSE 0),
                           !.windows = @ + (IF "steps" \in DOMAIN ev /\ ev.steps # <<>> THEN 1 ELSE 0),
                           !.refined = @ + (IF doRef /\ mrun.trunc = 0 THEN 1 ELSE 0), !.drifted = @ + (IF dr THEN 1 ELSE 0)]
\* ---- C07, audio-driven clause: an event takes effect at most one 512-frame period early and never late ------------
FramesAt(t, rate) == (t \div 100000) * (rate \div 10) + ((t % 100000) * (rate \div 10)) \div 100000
AudioFails(ev, sg, c, rate) ==
  LET calls == ev.calls
      D   == FlattenSeq([i \in DOMAIN calls |-> SelectSeq(calls[i][7], LAMBDA x : x[1] = "e")])
      its == Gated(sg, sg.its, c.enabled, c.solo)
      key0(k) == [k EXCEPT ![1] = 0]
      Dk  == [i \in DOMAIN D |-> key0(KeyOfEntry(D[i]))]
      Rk  == [i \in DOMAIN its |-> key0(KeyOfItem(its[i]))]
      \* wall-clock microseconds of song time t under the tempo multiplier num/den
      wall(t) == (t \div c.tnum) * c.tden + ((t % c.tnum) * c.tden) \div c.tnum
      okEntry(x) == \E q \in DOMAIN its : Rk[q] = key0(KeyOfEntry(x)) /\ Abs(its[q].t - x[2]) <= 60 * c.tnum
                        /\ x[7] >= FramesAt(wall(its[q].t), rate) - 512 - 3 /\ x[7] <= FramesAt(wall(its[q].t), rate) + 3
      lastc == calls[Len(calls)]
  IN Lbl(\A i \in DOMAIN Dk : Count(Dk, LAMBDA y : y = Dk[i]) = Count(Rk, LAMBDA y : y = Dk[i]) /\ Len(Dk) = Len(Rk), "audio-delivery-count") \cup
     Lbl(\A i \in DOMAIN D : okEntry(D[i]), "audio-early-or-late") \cup
     Lbl(ev.atend = 1, "not-at-end") \cup
     Lbl(ev.maxperiod <= 512, "period-over-512")
StepPlayAudio(ev) ==
  LET f == IF ~pos.moved /\ ~cfg.loopEn THEN AudioFails(ev, song, cfg, cfg.rate) ELSE {} IN
  /\ fails' = AddFails(Tag("C07", f, ev, ""))
  /\ pos' = [pos EXCEPT !.moved = TRUE, !.stgt = -1]
  /\ UNCHANGED <<song, cfg, exec, drift>>
  /\ cnt' = [cnt EXCEPT !.steps = @ + 1, !.audio = @ + 1, !.events = @ + Len(FlattenSeq([i \in DOMAIN ev.calls |-> SelectSeq(ev.calls[i][7], LAMBDA x : x[1] = "e")]))]

\* opn2_positionRewind: back at the start, the play that follows is a complete one
StepRewind(ev) == /\ pos' = Pos0 /\ UNCHANGED <<song, cfg, exec, drift>>
                  /\ fails' = AddFails(Tag("C08", Lbl(ev.tell = 0, "rewind-tell"), ev, ""))
                  /\ cnt' = [cnt EXCEPT !.steps = @ + 1]
StepOther(ev) == UNCHANGED <<song, cfg, pos, exec, fails, drift>> /\ cnt' = [cnt EXCEPT !.steps = @ + 1]

Next ==
  \/ /\ l <= Len(T) /\ l' = l + 1
     /\ LET ev == T[l] IN
        CASE ev.e = "Init" -> StepInit(ev)
          [] ev.e = "Song" -> StepSong(ev)
          [] ev.e = "Load" -> StepLoad(ev)
          [] ev.e \in {"SetLoop", "SetLoopCount", "SetTempo", "SetHooks", "TrackOpt", "ChanEn"} -> StepCfg(ev)
          [] ev.e = "PlayTicks" -> IF BigPlay(ev) THEN StepPlayBig(ev) ELSE StepPlayNormal(ev)
          [] ev.e = "Seek" -> StepSeek(ev)
          [] ev.e = "Rewind" -> StepRewind(ev)
          [] ev.e = "PlayAudio" -> StepPlayAudio(ev)
          [] ev.e = "End" -> UNCHANGED <<song, cfg, pos, exec, fails, cnt, drift>>
          [] OTHER -> StepOther(ev)
  \/ /\ l = Len(T) + 1 /\ l' = l + 1
     /\ PrintT(<<"RESULT", ToJson([n |-> Len(T), fails |-> fails, cnt |-> cnt, drift |-> drift])>>)
     /\ UNCHANGED <<song, cfg, pos, exec, fails, cnt, drift>>
Spec == Init /\ [][Next]_vars
=============================================================================
