------------------------------ MODULE ChipFront ------------------------------
(* C20 - every emulator core sounds the programmed pitch and goes silent on release.

   What is a state machine in front of the emulator cores (the DSP inside them is NOT modelled):

   (1) the register write path        src/chips/ymfm_opn2.cpp, ymfm_opna.cpp  (500-entry ring, writeReg
                                      enqueues WITHOUT a capacity check, one dequeue per native sample),
                                      src/chips/nuked/ym3438.c OPN2_WriteBuffered (2048-entry delay queue,
                                      15 chip cycles per entry, overflow flushes the oldest entry),
                                      all other cores write directly.
   (2) the resampler phase machine    src/chips/opn_chip_base.tcc  resampledGenerate / setupResampler
   (3) the note life-cycle observation automaton  Idle -> Attack(<= 10 ms) -> Sounding -> Release -> Idle
                                      over 5 ms windows of measured integers.

   The property predicates (pitch, onset, audible, idle) are operators over measured integers only;
   they are evaluated by TLC on model runs (ChipFrontMC) and on recorded executions (ChipFrontTrace). *)
EXTENDS Common, TLC

(* ------------------------------------------------------------------ chip families, cores *)
Clock(fam)      == IF fam = 0 THEN 7670454 ELSE 7987200       \* opn_chip_family.h nativeClockRate
NativeRate(fam) == IF fam = 0 THEN 53267 ELSE 55466           \* opn_chip_family.h nativeRate
Emus == {0, 1, 2, 3, 4, 5, 6, 8}                              \* Opn2_Emulator without 7 (VGM dumper)
CanPcm(emu)  == emu \in {0, 2, 4, 5}                          \* canRunAtPcmRate() of the core classes
IsYmfm(emu)  == emu \in {3, 6}                                \* YmFmOPN2 / YmFmOPNA : unchecked ring
IsNuked(emu) == emu \in {1, 8}                                \* NukedOPN2 (YM3438 / YM2612 mode): delay queue
RingCap  == 500                                               \* YmFmOPN2::c_queueSize
NukedCap == 1024                                              \* OPN_WRITEBUF_SIZE / 2 entries per register write
NukedCyclesPerWrite == 30                                     \* 2 entries * OPN_WRITEBUF_DELAY (15)
NukedCyclesPerSample == 24                                    \* OPN2_Clock calls per native sample
FullScale1 == 327                                             \* 1 % of full scale in LSB
CeilDiv(a, b) == (a + b - 1) \div b

(* ------------------------------------------------------------------ nominal frequency of a key
   NomMilliHz[k + 1] = round(440000 * 2^((k - 69) / 12)) mHz, k = 0..127 (constant table; regenerated
   and compared by lib/gen_chipfront.py table()). *)
NomMilliHz == <<
  8176, 8662, 9177, 9723, 10301, 10913, 11562, 12250,
  12978, 13750, 14568, 15434, 16352, 17324, 18354, 19445,
  20602, 21827, 23125, 24500, 25957, 27500, 29135, 30868,
  32703, 34648, 36708, 38891, 41203, 43654, 46249, 48999,
  51913, 55000, 58270, 61735, 65406, 69296, 73416, 77782,
  82407, 87307, 92499, 97999, 103826, 110000, 116541, 123471,
  130813, 138591, 146832, 155563, 164814, 174614, 184997, 195998,
  207652, 220000, 233082, 246942, 261626, 277183, 293665, 311127,
  329628, 349228, 369994, 391995, 415305, 440000, 466164, 493883,
  523251, 554365, 587330, 622254, 659255, 698456, 739989, 783991,
  830609, 880000, 932328, 987767, 1046502, 1108731, 1174659, 1244508,
  1318510, 1396913, 1479978, 1567982, 1661219, 1760000, 1864655, 1975533,
  2093005, 2217461, 2349318, 2489016, 2637020, 2793826, 2959955, 3135963,
  3322438, 3520000, 3729310, 3951066, 4186009, 4434922, 4698636, 4978032,
  5274041, 5587652, 5919911, 6271927, 6644875, 7040000, 7458620, 7902133,
  8372018, 8869844, 9397273, 9956063, 10548082, 11175303, 11839822, 12543854 >>
Nominal(key) == NomMilliHz[key + 1]

(* ------------------------------------------------------------------ (2) resampler phase machine
   setupResampler: m_rateratio = floor(144 * rate * 2^10 / clock);  m_samplecnt = 0
   resampledGenerate: while(samplecnt >= rateratio) { nativeTick; samplecnt -= rateratio }  samplecnt += 2^10
   32-bit arithmetic: 144*rate*1024 is split as (144*rate*32)*32. *)
RsmOne == 1024
RR2(rate, fam) ==
  LET a == 144 * rate
      clk == Clock(fam)
      q1 == (a * 32) \div clk
      r1 == (a * 32) % clk
      q2 == (r1 * 32) \div clk
      r2 == (r1 * 32) % clk
  IN [rr |-> q1 * 32 + q2, rem |-> r2]          \* 144*rate*1024 = rr*clock + rem
RateRatio(rate, fam) == RR2(rate, fam).rr
\* one output frame: native ticks spent and the new phase
ResFrame(s, rr) == [ticks |-> s \div rr, s |-> (s % rr) + RsmOne]
\* n >= 1 output frames from phase s (closed form, checked against ResFrame by ChipFrontMC)
ResRun(s, rr, n) == [ticks |-> (s + (n - 1) * RsmOne) \div rr, s |-> ((s + (n - 1) * RsmOne) % rr) + RsmOne]

TolPermille(rate) == IF rate < 22050 THEN 10 ELSE 5
\* P2 (pitch): the resampler plays native samples at rate*1024/rr instead of clock/144 per second:
\* pitch factor 1 + rem/(rr*clock); within tolerance  <=>  rem*(1000/tol) <= rr*clock
P2PitchOK(rate, fam) ==
  LET x == RR2(rate, fam) IN x.rr > 0 /\ CeilDiv(x.rem * (1000 \div TolPermille(rate)), Clock(fam)) <= x.rr
\* P2 (ticks): every output frame spends floor(1024/rr) or that plus one native ticks
P2TicksOK(ticks, rr) == ticks >= RsmOne \div rr /\ ticks <= 1 + (RsmOne - 1) \div rr
\* pitch factor excess in parts per million (t = rem/clock in 1/256)
FactorPpm(rate, fam) == LET x == RR2(rate, fam) IN (((x.rem * 256) \div Clock(fam)) * 1000000) \div (256 * x.rr)

\* frequency the chip is programmed to (block / F-number as requested by OPN2::noteOn), in mHz:
\* f = fnum * 2^block * clock / (144 * 2^21);  C1024 = floor(clock * 1000 * 1024 / (144 * 2^21))
C1024(fam) == IF fam = 0 THEN 26009 ELSE 27083
Pow2(n) == CASE n = 0 -> 1 [] n = 1 -> 2 [] n = 2 -> 4 [] n = 3 -> 8 [] n = 4 -> 16 [] n = 5 -> 32 [] n = 6 -> 64 [] OTHER -> 128
ChipMilliHz(block, fnum, fam) ==
  LET x == fnum * Pow2(block) IN (x \div 1024) * C1024(fam) + ((x % 1024) * C1024(fam)) \div 1024
\* what the model expects at the output (native mode): chip frequency times the resampler's pitch factor
ModelMilliHz(block, fnum, fam, rate) ==
  LET f == ChipMilliHz(block, fnum, fam) IN f + ((f \div 1000) * FactorPpm(rate, fam)) \div 1000

(* ------------------------------------------------------------------ (1) register write path
   A write is any value; the machines only move them.  Ring = YmFmOPN2::writeReg / nativeGenerate. *)
RingInit(cap) == [q |-> [i \in 0..(cap - 1) |-> 0], head |-> 0, tail |-> 0, count |-> 0]
\* as in the tree: no capacity check.  Returns the new ring and the writes applied by this call (none).
RingEnqAsIs(R, cap, w) ==
  [r |-> [R EXCEPT !.q[R.head] = w, !.head = (R.head + 1) % cap, !.count = R.count + 1], out |-> <<>>]
\* suggested repair: a full ring applies its oldest entry before taking the new one (what Nuked does)
RingEnqFix(R, cap, w) ==
  IF R.count < cap THEN RingEnqAsIs(R, cap, w)
  ELSE [r |-> [R EXCEPT !.q[R.head] = w, !.head = (R.head + 1) % cap, !.tail = (R.tail + 1) % cap], out |-> <<R.q[R.tail]>>]
RingEnq(R, cap, w, fix) == IF fix THEN RingEnqFix(R, cap, w) ELSE RingEnqAsIs(R, cap, w)
\* one native sample: at most one dequeue
RingDeq(R, cap) ==
  IF R.count > 0 THEN [r |-> [R EXCEPT !.tail = (R.tail + 1) % cap, !.count = R.count - 1], out |-> <<R.q[R.tail]>>]
  ELSE [r |-> R, out |-> <<>>]

\* Closed form of the as-is ring for a burst of n writes (1-based positions) into an EMPTY ring followed
\* by a complete drain: only the last `cap` writes are ever applied (some of them several times, the
\* final pass in order), every earlier write is lost.  Checked against the machine by ChipFrontMC.
RingLost(j, n, cap) == n > cap /\ j <= n - cap
\* k-th dequeue (1-based) of that drain applies the write at this position
RingApplied(k, n, cap) == LET r == (k - 1) % cap IN r + 1 + cap * ((n - 1 - r) \div cap)

\* Nuked delay queue (OPN2_WriteBuffered / OPN2_Generate), unit = one register write of the library
\* (two buffer entries, 30 chip cycles).  Burst of n writes into an idle queue: position j (1-based) is
\* applied this many chip cycles of RENDERED time after the burst (a full buffer applies its oldest
\* entry at once and skips chip time instead of rendering it).
NukedLatencyCycles(j, n, cap, cyc) == IF n <= cap THEN (j - 1) * cyc ELSE Max(0, j - (n - cap)) * cyc

(* ------------------------------------------------------------------ events and what they cost
   An event is <<t, ch, a, b>>: t = 0 note-off(ch, key a), 1 note-on(ch, key a, velocity b),
   2 controller(ch, number a, value b), 3 pitch bend(ch, lsb a, msb b), 4 program change(ch, program a).
   Held keys: the MIDI rule for the events the check uses (no pedals, CC 120/123 = all off). *)
HeldStep(H, e) ==
  CASE e[1] = 1 /\ e[4] > 0 -> H \cup {<<e[2], e[3]>>}
    [] e[1] = 1 /\ e[4] = 0 -> H \ {<<e[2], e[3]>>}
    [] e[1] = 0 -> H \ {<<e[2], e[3]>>}
    [] e[1] = 2 /\ e[3] \in {120, 123} -> { h \in H : h[1] # e[2] }
    [] OTHER -> H
RECURSIVE HeldFold(_, _, _)
HeldFold(H, evs, i) == IF i > Len(evs) THEN H ELSE HeldFold(HeldStep(H, evs[i]), evs, i + 1)
HeldAfter(H, evs) == HeldFold(H, evs, 1)
\* largest number of simultaneously held keys during the burst
RECURSIVE HeldPeak(_, _, _, _)
HeldPeak(H, evs, i, m) == IF i > Len(evs) THEN m
                          ELSE LET H1 == HeldStep(H, evs[i]) IN HeldPeak(H1, evs, i + 1, Max(m, Cardinality(H1)))

\* register writes requested by OPN2 for one event while polyphony is not exceeded (opnmidi_opn2.cpp:
\* setPatch 30, setPan 1, touchNote 4, noteOn 7; noteOff 1; volume/expression re-level 4 per note of the
\* channel; pitch bend re-pitches (noteOn) 7 per note of the channel)
WOn == 42
WOff == 1
WLevel == 4
WPitch == 7
EvCost(H, e) ==
  LET onch == Cardinality({ h \in H : h[1] = e[2] }) IN
  CASE e[1] = 1 /\ e[4] > 0 -> WOn + (IF <<e[2], e[3]>> \in H THEN WOff ELSE 0)
    [] e[1] = 0 -> IF <<e[2], e[3]>> \in H THEN WOff ELSE 0
    [] e[1] = 2 /\ e[3] \in {7, 11} -> WLevel * onch
    [] e[1] = 3 -> WPitch * onch
    [] OTHER -> 0
RECURSIVE CostFold(_, _, _, _)
CostFold(H, evs, i, acc) == IF i > Len(evs) THEN acc ELSE CostFold(HeldStep(H, evs[i]), evs, i + 1, acc + EvCost(H, evs[i]))
BurstCost(H, evs) == CostFold(H, evs, 1, 0)
\* position (1-based, in requested writes of the burst) of the last write of the LAST note-on of <<ch,key>>; 0 = none
RECURSIVE KeyOnPos(_, _, _, _, _, _)
KeyOnPos(H, evs, i, acc, hk, pos) ==
  IF i > Len(evs) THEN pos
  ELSE LET c == EvCost(H, evs[i])
           me == evs[i][1] = 1 /\ evs[i][4] > 0 /\ <<evs[i][2], evs[i][3]>> = hk
       IN KeyOnPos(HeldStep(H, evs[i]), evs, i + 1, acc + c, hk, IF me THEN acc + c ELSE pos)

(* ------------------------------------------------------------------ burst templates (the model chooses)
   kind: "single" | "chord" | "b16A" "b64A" (filler = note-on/off pairs of another key on another channel)
         | "b64B" (filler = pitch-bend wiggles ending at the centre) | "b64C" (filler = volume toggles)
         | "b64D" (a chord on one MIDI channel, then volume toggles of that channel)
   pos : 1 = target first, 2 = middle, 3 = last.   Events as tuples, see above. *)
MelodicCh == <<0, 1, 2, 3, 4, 5, 6, 7, 8, 10, 11, 12, 13, 14, 15>>
On(ch, k)  == <<1, ch, k, 127>>
Off(ch, k) == <<0, ch, k, 0>>
\* companions of a chord: distinct keys in 24..108, never the target key
ChordKey(key, i) == IF i = 0 THEN key ELSE ((key - 24 + 5 * i) % 85) + 24
ChordSize(chips) == Min(16, 6 * chips)
\* index (0-based slot) of the target inside a chord of n notes
TargetSlot(pos, n) == CASE pos = 1 -> 0 [] pos = 2 -> n \div 2 [] OTHER -> n - 1
\* note i (0-based) of the chord burst: the target sits at slot ts, companion number c elsewhere
ChordNote(key, ts, i) == IF i = ts THEN On(0, key) ELSE LET c == IF i < ts THEN i + 1 ELSE i IN On(MelodicCh[(c % 14) + 2], ChordKey(key, c))
ChordOn(key, n, pos) == [i \in 1..n |-> ChordNote(key, TargetSlot(pos, n), i - 1)]
ChordCompanionsOff(key, n, pos) ==
  LET ts == TargetSlot(pos, n)
      all == ChordOn(key, n, pos)
  IN SelectSeq([i \in 1..n |-> <<0, all[i][2], all[i][3], 0>>], LAMBDA e : <<e[2], e[3]>> # <<0, key>>)
FillKey(key) == IF key + 7 <= 108 THEN key + 7 ELSE key - 5
Filler(kind, key, i) ==             \* i-th (1-based) filler event
  CASE kind \in {"b16A", "b64A"} -> IF i % 2 = 1 THEN On(1, FillKey(key)) ELSE Off(1, FillKey(key))
    [] kind = "b64B" -> IF i % 2 = 1 THEN <<3, 0, 0, 80>> ELSE <<3, 0, 0, 64>>
    [] OTHER -> <<2, 0, 7, 100 + (i % 2)>>
BurstLen(kind) == IF kind = "b16A" THEN 16 ELSE 64
VolumeDefault == <<2, 0, 7, 100>>
FillerMute    == <<4, 1, 1, 0>>        \* the filler channel plays program 1 (all operators at TL 127): its notes cost
FillerUnmute  == <<4, 1, 0, 0>>        \* the same writes but make no sound, so the first sound heard is the target's
\* kinds A B C: the filler channel muted, the target note-on, an even number nf of fillers (complete pairs) of
\* which `before` precede the target, and two closing volume events
BurstEvents(kind, key, pos) ==
  LET nev == BurstLen(kind)
      nf == nev - 4
      before == CASE pos = 1 -> 0 [] pos = 2 -> 2 * (nf \div 4) [] OTHER -> nf
  IN [i \in 1..nev |-> IF i = 1 THEN FillerMute
                       ELSE IF i - 1 <= before THEN Filler(kind, key, i - 1)
                       ELSE IF i - 1 = before + 1 THEN On(0, key)
                       ELSE IF i < nev - 1 THEN Filler(kind, key, i - 2)
                       ELSE IF i = nev - 1 THEN VolumeDefault
                       ELSE FillerUnmute]
\* kind D: a chord on ONE MIDI channel (6, 3 or 2 keys, target first) followed by volume toggles of that channel
DChord(pos) == CASE pos = 1 -> 6 [] pos = 2 -> 3 [] OTHER -> 2
DEvents(key, pos) ==
  LET m == DChord(pos) IN
  [i \in 1..64 |-> IF i <= m THEN On(0, ChordKey(key, i - 1)) ELSE IF i < 64 THEN <<2, 0, 7, 100 + (i % 2)>> ELSE VolumeDefault]
OnEvents(kind, key, chips, pos) ==
  CASE kind = "single" -> <<On(0, key)>>
    [] kind = "chord" -> ChordOn(key, ChordSize(chips), pos)
    [] kind = "b64D" -> DEvents(key, pos)
    [] OTHER -> BurstEvents(kind, key, pos)
\* note-offs of everything a burst leaves held (ordered by channel, key)
RECURSIVE OffsOf(_)
OffsOf(H) == IF H = {} THEN <<>>
             ELSE LET h == CHOOSE x \in H : \A y \in H : x[1] < y[1] \/ (x[1] = y[1] /\ x[2] <= y[2])
                  IN <<Off(h[1], h[2])>> \o OffsOf(H \ {h})

\* what the write-path model predicts for the target note of a burst on ONE chip (all writes in one queue);
\* fixRing / fixNuked = the tree under test has the ring / the delay queue repaired (bounded backlog, nothing lost)
Predict(emu, evs, key, fixRing, fixNuked) ==
  LET n == BurstCost({}, evs)
      kon == KeyOnPos({}, evs, 1, 0, <<0, key>>, 0)
      first == kon - WOn + 1                      \* first write of the target's note-on (its patch)
  IN CASE IsYmfm(emu) /\ ~fixRing /\ RingLost(first, n, RingCap) -> "lost"          \* the patch never reaches the chip
       [] IsYmfm(emu) /\ ~fixRing /\ n > RingCap -> "replayed"                         \* it does, but stale entries are applied around it
       [] IsNuked(emu) /\ ~fixNuked /\ NukedLatencyCycles(kon, n, NukedCap, NukedCyclesPerWrite) * 1000
                              > 10 * NativeRate(0) * NukedCyclesPerSample -> "late"
       [] OTHER -> "ok"

(* ------------------------------------------------------------------ (3) life-cycle observation automaton
   Windows are <<lo, hi, rms>> over 5 ms; idle band = [ilo, ihi] of the instance's first rendering.
   A window is IDLE when every sample is within 1 % of full scale of the idle band.  The tone is THERE at a
   window when within the next g windows the output leaves the idle band on BOTH sides (one held key; g
   covers one period of its nominal frequency) or on some side (several held keys). *)
WinIdle(w, ilo, ihi) == w[1] >= ilo - FullScale1 /\ w[2] <= ihi + FullScale1
WinAbove(w, ihi) == w[2] > ihi + FullScale1
WinBelow(w, ilo) == w[1] < ilo - FullScale1
\* windows spanned by one period of `key` plus two (phase and edge effects); at least 2
GroupLen(key, rate, wf) == Max(2, ((rate * 1000) \div Nominal(key)) \div wf + 2)
ChordGroup == 5
\* is the tone there at window i?  "yes" / "no" / "open" (not enough windows left in this rendering to tell)
WinSound(W, i, g, single, ilo, ihi) ==
  IF i + g - 1 > Len(W) THEN "open"
  ELSE LET up == \E j \in i..(i + g - 1) : WinAbove(W[j], ihi)
           dn == \E j \in i..(i + g - 1) : WinBelow(W[j], ilo)
       IN IF (single /\ up /\ dn) \/ (~single /\ (up \/ dn)) THEN "yes" ELSE "no"

\* Automaton.  st: "Idle" "Attack" "Settle" "Sounding" "Release" "Failed" (= reported; waits for the next command)
\* A command (burst / panic / reset) with the held sets before and after it; anyOn = the burst keyed something
LcCommand(st, Hb, Ha, anyOn) ==
  IF Ha = {} THEN (IF st = "Idle" /\ ~anyOn THEN "Idle" ELSE "Release")
  ELSE IF Hb = {} \/ st \in {"Idle", "Release"} THEN "Attack"
  ELSE IF st = "Failed" THEN "Failed"
  ELSE IF Hb \subseteq Ha THEN (IF st = "Attack" THEN "Attack" ELSE st)
  ELSE "Settle"
\* One window starting `age` frames after the last command: snd = WinSound, idle = WinIdle of the window.
\* t10 / trel = onset / release deadlines in frames.  Returns the new state and a verdict ("" = none).
LcWindow(st, snd, idle, age, t10, trel) ==
  CASE st = "Attack" ->
         IF snd = "yes" THEN [st |-> "Sounding", v |-> ""]
         ELSE IF age >= t10 /\ snd = "no" THEN [st |-> "Failed", v |-> "no-sound"]
         ELSE [st |-> "Attack", v |-> ""]
    [] st = "Settle" ->
         IF age < trel \/ snd = "open" THEN [st |-> "Settle", v |-> ""]
         ELSE IF snd = "yes" THEN [st |-> "Sounding", v |-> ""]
         ELSE [st |-> "Failed", v |-> "no-sound"]
    [] st = "Sounding" ->
         IF snd # "no" THEN [st |-> "Sounding", v |-> ""]
         ELSE IF age < t10 THEN [st |-> "Attack", v |-> ""]     \* what was heard was an earlier note's tail
         ELSE [st |-> "Failed", v |-> "no-sound"]
    [] st = "Release" ->
         IF age < trel THEN [st |-> "Release", v |-> ""]
         ELSE IF idle THEN [st |-> "Idle", v |-> ""]
         ELSE [st |-> "Failed", v |-> "not-idle"]
    [] st = "Idle" ->
         IF idle THEN [st |-> "Idle", v |-> ""] ELSE [st |-> "Failed", v |-> "not-idle"]
    [] OTHER -> [st |-> st, v |-> ""]

(* ------------------------------------------------------------------ property predicates on measured integers *)
\* pitch: |f - nominal| within 0.5 % (1 % below 22050 Hz) of nominal
PitchOK(f, key, rate) == Abs(f - Nominal(key)) <= (TolPermille(rate) * Nominal(key)) \div 1000
\* the zero-crossing measurement is meaningful: at least 2.5 output samples per period
Representable(key, rate) == Nominal(key) * 5 <= rate * 2000
\* onset: first frame leaving the idle band, within 10 ms
OnsetOK(on, rate) == on >= 0 /\ on * 1000 <= 10 * rate
=============================================================================
