------------------------------- MODULE Mus2Mid -------------------------------
(* Implementation-shaped model of the DMX MUS -> SMF converter  Convert_mus2midi  (src/cvt_mus2mid.hpp) as it stands in
   the tree: one operator per step of the C function, same case analysis, same bounds checks (goto _end -> rejected).

   Input : the file image b (sequence of bytes 0..255; C offset p is b[p + 1]) and the `frequency` argument (the library
           always passes 0, i.e. MUS_FREQUENCY = 140).
   Output: [ok |-> FALSE]                                                     the converter returned -1, or
           [ok |-> TRUE, fmt, ntr, div, tempo, tracks |-> << [len, ev, rs] >>]  the abstract SMF it writes:
             div    time division of the MThd chunk (MUS_DIVISION = 0x0101)
             tempo  data bytes of the first FF 51 meta as they stand in the file (MUS_TEMPO is written LOW byte first)
             len    the track length the converter patches into the MTrk chunk
             ev     << <<delta, status, data...>>, ... >>; a meta event is <<delta, 255, type, data...>>
             rs     per event 1 when the status byte is omitted (running status); this converter never does that
   What is transcribed: header checks; channel map (first-use allocation, 9 skipped, MUS 15 -> 9 preset); the CC7 = 100
   artefacts (percussion channel at time 0, every other channel at its first use - whatever event names it, the score
   end included - written in front of that event with the event's delta time); per MIDI channel remembered volume
   (initial 0x40); every event type with its byte consumption; pitch wheel arithmetic; controller map; one-byte system
   events (value = channels + 1 for "mono", else 0); multi-byte delay with the 140/frequency scaling applied per digit;
   End event (the loop goes on if bytes follow); track length.
           [ok |-> FALSE, crash |-> TRUE]                                    a delta time >= 2^28 reaches mus2mid_writevarlen: its
                                                                             int32 `buffer` turns negative, the output loop never
                                                                             sees bit 7 clear and writes past temp_buffer[32]
                                                                             (label mus-delay-overflow-crash of the check)
           [ok |-> FALSE, unmodelled |-> TRUE]                               delta_time * 128 overflows int32 (undefined in C)
   Left out: output buffer growth (realloc), the double rounding of 140.0/frequency for frequencies that do not divide
   140 * 2^k (the library passes 140).                                                                                 *)
EXTENDS Common

\* ---- constants of the converter (the binding demonstration mutates these) ----
M2Division   == 257                  \* MUS_DIVISION 0x0101
M2TempoBytes == <<27, 138, 6>>       \* MUS_TEMPO 0x00068A1B, low byte first (the SMF reader sees 0x1B8A06)
M2Cc7Value   == 100                  \* "Percussions channel starts out at volume 100" / first-use volume
M2PercMidi   == 9                    \* channelMap[15] = 9
M2SkipMidi   == 9                    \* if (currentChannel == 9) ++currentChannel
M2DefVolume  == 64                   \* channel_volume[] = 0x40
M2KeyOffVel  == 64                   \* bit2 = 0x40
M2DefaultFrequency == 140
M2HeaderSize == 14
\* repair switch (FALSE = the tree as it is): TRUE models the suggested repair of the delay loop
\*   if (delta_time > 0x001FFFFF) goto _end;  before the multiplication,  if (delta_time < 0 || delta_time > 0x0FFFFFFF) goto _end;  after it
M2RepairDelayLimit == TRUE     \* repaired in the tree (known_findings.json: fixed C17 mus-delay-overflow-crash)
M2Midimap == <<0, 0, 1, 7, 10, 11, 91, 93, 64, 67, 120, 123, 126, 127, 121>>     \* mus_midimap[]
M2MusId == <<77, 85, 83, 26>>

M2Rejected == [ok |-> FALSE]
M2At(b, p) == b[p + 1]                                   \* byte at C offset p
M2Le16(b, p) == M2At(b, p) + 256 * M2At(b, p + 1)          \* MUS_READ_INT16

\* mus2mid_writevarlen: number of bytes written for a value in 0 .. 2^28 - 1; from 2^28 on it does not terminate inside the buffer
M2VarLenLimit == 268435456
M2VarLen(v) == IF v < 128 THEN 1 ELSE IF v < 16384 THEN 2 ELSE IF v < 2097152 THEN 3 ELSE 4

\* (int32_t)(x * (140.0 / (double)frequency))
M2Scale(x, f) == IF f = 140 THEN x ELSE (x * 140) \div f

\* do { if (end - cur < 1) goto _end; delta = scale(delta * 128 + (*cur & 127)); } while (*cur++ & 128);
\* returns <<delta, cur>>, cur = -1 on goto _end, -2 when the arithmetic leaves int32
RECURSIVE M2Delay(_, _, _, _, _)
M2Delay(b, end, f, cur, delta) ==
  IF end - cur < 1 THEN <<0, -1>>
  ELSE IF M2RepairDelayLimit /\ delta > 2097151 THEN <<0, -1>>
  ELSE IF delta >= 16777216 THEN <<0, -2>>                       \* delta * 128 overflows int32 in the C code: outside the model
  ELSE LET x == M2At(b, cur)  d1 == M2Scale(delta * 128 + (x % 128), f) IN
       IF M2RepairDelayLimit /\ d1 > 268435455 THEN <<0, -1>>
       ELSE IF x >= 128 THEN M2Delay(b, end, f, cur + 1, d1) ELSE <<d1, cur + 1>>

\* state of the main loop: cur (C offset), delta (delta_time), map (channelMap, index MUS channel + 1), cc (currentChannel),
\* vol (channel_volume, index MIDI channel + 1), ev (events written), n (bytes written to the track), st
M2Map0 == <<-1, -1, -1, -1, -1, -1, -1, -1, -1, -1, -1, -1, -1, -1, -1, M2PercMidi>>
M2Vol0 == <<M2DefVolume, M2DefVolume, M2DefVolume, M2DefVolume, M2DefVolume, M2DefVolume, M2DefVolume, M2DefVolume,
            M2DefVolume, M2DefVolume, M2DefVolume, M2DefVolume, M2DefVolume, M2DefVolume, M2DefVolume, M2DefVolume>>

\* the switch ((event & 122) >> 4): [ok, status, bit1, bit2, bitc, cur, vol]
M2Event(b, end, chans, ty, mapped, cur, vol) ==
  LET avail == end - cur
      x == M2At(b, cur)              \* *cur (only read after the bounds check of the case)
      rej == [ok |-> FALSE]
  IN CASE ty = 0 ->                  \* MUSEVENT_KEYOFF
            IF avail < 1 THEN rej
            ELSE [ok |-> TRUE, status |-> 128 + mapped, bit1 |-> x, bit2 |-> M2KeyOffVel, bitc |-> 2, cur |-> cur + 1, vol |-> vol]
       [] ty = 1 ->                  \* MUSEVENT_KEYON
            IF avail < 1 THEN rej
            ELSE IF avail < (IF x >= 128 THEN 2 ELSE 1) THEN rej
            ELSE LET vol1 == IF x >= 128 THEN [vol EXCEPT ![mapped + 1] = M2At(b, cur + 1)] ELSE vol IN
                 [ok |-> TRUE, status |-> 144 + mapped, bit1 |-> x % 128, bit2 |-> vol1[mapped + 1] % 256, bitc |-> 2,
                  cur |-> IF x >= 128 THEN cur + 2 ELSE cur + 1, vol |-> vol1]
       [] ty = 2 ->                  \* MUSEVENT_PITCHWHEEL: bit1 = (*cur & 1) << 6; bit2 = (*cur >> 1) & 127
            IF avail < 1 THEN rej
            ELSE [ok |-> TRUE, status |-> 224 + mapped, bit1 |-> (x % 2) * 64, bit2 |-> (x \div 2) % 128, bitc |-> 2, cur |-> cur + 1, vol |-> vol]
       [] ty = 3 ->                  \* MUSEVENT_CHANNELMODE: ONE byte
            IF avail < 1 THEN rej
            ELSE IF x >= Len(M2Midimap) THEN rej
            ELSE [ok |-> TRUE, status |-> 176 + mapped, bit1 |-> M2Midimap[x + 1], bit2 |-> IF x = 12 THEN (chans + 1) % 256 ELSE 0,
                  bitc |-> 2, cur |-> cur + 1, vol |-> vol]
       [] ty = 4 ->                  \* MUSEVENT_CONTROLLERCHANGE
            IF avail < 2 THEN rej
            ELSE IF x = 0 THEN [ok |-> TRUE, status |-> 192 + mapped, bit1 |-> M2At(b, cur + 1), bit2 |-> 0, bitc |-> 1, cur |-> cur + 2, vol |-> vol]
            ELSE IF x >= Len(M2Midimap) THEN rej
            ELSE [ok |-> TRUE, status |-> 176 + mapped, bit1 |-> M2Midimap[x + 1], bit2 |-> M2At(b, cur + 1), bitc |-> 2, cur |-> cur + 2, vol |-> vol]
       [] ty = 6 ->                  \* MUSEVENT_END: FF 2F 00
            [ok |-> TRUE, status |-> 255, bit1 |-> 47, bit2 |-> 0, bitc |-> 2, cur |-> cur, vol |-> vol]
       [] OTHER -> rej               \* 5, 7: unrecognized event

\* one pass of  while (cur < end) { ... }
M2Step(b, end, chans, f, S) ==
  LET event == M2At(b, S.cur)
      channel == event % 16
      fresh == S.map[channel + 1] < 0                              \* if (channelMap[channel] < 0)
      mapped == IF fresh THEN S.cc ELSE S.map[channel + 1]
      map1 == IF fresh THEN [S.map EXCEPT ![channel + 1] = S.cc] ELSE S.map
      cc1 == IF ~fresh THEN S.cc ELSE IF S.cc + 1 = M2SkipMidi THEN S.cc + 2 ELSE S.cc + 1
      r == M2Event(b, end, chans, (event \div 16) % 8, mapped, S.cur + 1, S.vol)
  IN IF S.delta >= M2VarLenLimit THEN [S EXCEPT !.st = "crash"]       \* out_local += mus2mid_writevarlen(delta_time, out_local)
     ELSE IF ~r.ok THEN [S EXCEPT !.st = "rejected"]
     ELSE LET main == IF r.status = 255 THEN <<r.bit1>>                                   \* FF 2F + length byte 00
                      ELSE IF r.bitc = 2 THEN <<r.bit1, r.bit2>> ELSE <<r.bit1>>
              evs == IF fresh THEN << <<S.delta, 176 + S.cc, 7, M2Cc7Value>>, <<0, r.status>> \o main >>
                     ELSE << <<S.delta, r.status>> \o main >>
              nb == M2VarLen(S.delta) + (IF fresh THEN 4 ELSE 0) + 2 + (IF r.bitc = 2 THEN 1 ELSE 0)
              d == IF event >= 128 THEN M2Delay(b, end, f, r.cur, 0) ELSE <<0, r.cur>>
          IN IF d[2] = -1 THEN [S EXCEPT !.st = "rejected"]
             ELSE IF d[2] = -2 THEN [S EXCEPT !.st = "unmodelled"]
             ELSE [S EXCEPT !.cur = d[2], !.delta = d[1], !.map = map1, !.cc = cc1, !.vol = r.vol, !.ev = @ \o evs, !.n = @ + nb]
RECURSIVE M2Loop(_, _, _, _, _)
M2Loop(b, end, chans, f, S) == IF S.st # "run" \/ S.cur >= end THEN S ELSE M2Loop(b, end, chans, f, M2Step(b, end, chans, f, S))

\* Convert_mus2midi(in, insize, out, outsize, frequency)
Mus2Mid(b, frequency) ==
  IF Len(b) < M2HeaderSize THEN M2Rejected
  ELSE LET f == IF frequency = 0 THEN M2DefaultFrequency ELSE frequency
           scoreLen == M2Le16(b, 4)  scoreStart == M2Le16(b, 6)  chans == M2Le16(b, 8)
       IN IF SubSeq(b, 1, 4) # M2MusId THEN M2Rejected
          ELSE IF Len(b) < scoreLen + scoreStart THEN M2Rejected
          ELSE IF chans > 15 THEN M2Rejected
          ELSE LET S0 == [cur |-> scoreStart, delta |-> 0, map |-> M2Map0, cc |-> 0, vol |-> M2Vol0, st |-> "run", n |-> 7 + 4,
                          ev |-> << <<0, 255, 81>> \o M2TempoBytes, <<0, 176 + M2PercMidi, 7, M2Cc7Value>> >>]
                   S == M2Loop(b, scoreStart + scoreLen, chans, f, S0)
               IN IF S.st = "rejected" THEN M2Rejected
                  ELSE IF S.st = "crash" THEN [ok |-> FALSE, crash |-> TRUE]
                  ELSE IF S.st # "run" THEN [ok |-> FALSE, unmodelled |-> TRUE]
                  ELSE [ok |-> TRUE, fmt |-> 0, ntr |-> 1, div |-> M2Division, tempo |-> M2TempoBytes,
                        tracks |-> << [len |-> S.n, ev |-> S.ev, rs |-> [i \in DOMAIN S.ev |-> 0]] >>]
=============================================================================
