SPECIFICATION Spec
CONSTANTS
  NC = 2
  MaxDepth = 6
  ArpOn = FALSE
  AllocMode = 3
  EmitDepth = 0
INVARIANT NoBad
CONSTRAINT DepthBound
VIEW View
CHECK_DEADLOCK FALSE
