--------------------------- MODULE ChipFrontTrace ---------------------------
(* C20, legs (B) and (C): validation of executions of the real emulator cores recorded by
   harness/drive_chipfront.  One record per step.  The harness only reports integers (5 ms windows
   <<lo, hi, rms>>, first frame leaving the idle band, zero-crossing fundamental in mHz, register writes
   requested per chip, block / F-number of the keyed channels); everything the property needs is computed
   here: held keys (fold of the burst's events), nominal frequency (table of ChipFront), tolerances,
   deadlines in frames, window classes, the life-cycle automaton, the ring / delay-queue / resampler
   predictions that explain a failure (labels ymfm-ring-overflow, nuked-write-delay) and the model
   expectations compared as refinement (drift): programmed frequency x resampler pitch factor, write costs,
   run-at-PCM-rate ability, prediction of ChipFrontMC for the row. *)
EXTENDS ChipFront, Json, IOUtils
T == ndJsonDeserialize(IOEnv.TRACE)
\* failures kept per label and in total (per trace file); CF_MAXPER in the environment lifts the caps for diagnosis
MaxPerLabel == IF "CF_MAXPER" \in DOMAIN IOEnv THEN atoi(IOEnv.CF_MAXPER) ELSE 3
MaxFails == IF "CF_MAXPER" \in DOMAIN IOEnv THEN 100000 ELSE 40
VARIABLES l, X, fails, cnt, drift, exec
vars == <<l, X, fails, cnt, drift, exec>>

Cnt0 == [execs |-> 0, gens |-> 0, windows |-> 0, idle_windows |-> 0, sound_windows |-> 0, onsets |-> 0, pitches |-> 0,
         releases |-> 0, after_panic |-> 0, after_reset |-> 0, after_burst_release |-> 0, bursts |-> 0, events |-> 0,
         chords |-> 0, pcm_execs |-> 0, dac_offset_execs |-> 0, ring_overflow_bursts |-> 0, nuked_late_bursts |-> 0,
         unrepresentable |-> 0, refined_pitch |-> 0, refined_cost |-> 0, refined_pred |-> 0, drifted |-> 0]
X0 == [cfg |-> [emu |-> 0, fam |-> 0, rate |-> 44100, chips |-> 1, pcmr |-> 0, famr |-> 0, rel |-> 50, pred |-> "unknown"],
       have |-> FALSE, ilo |-> 0, ihi |-> 0, H |-> {}, st |-> "Idle", why |-> "ev", age |-> 0, dl |-> 0, fresh |-> FALSE,
       pend |-> <<0>>, ovf |-> 0, nlate |-> FALSE, over |-> FALSE, kd |-> <<>>, rs |-> 0, xf |-> 0, judged |-> FALSE]
Init == l = 1 /\ X = X0 /\ fails = <<>> /\ cnt = Cnt0 /\ drift = <<>> /\ exec = 0

Fail(w, ev, d) == [p |-> "C20", w |-> w, l |-> l, x |-> exec, e |-> ev.o, d |-> d]
AddFail(fs, f) == IF Len(fs) >= MaxFails \/ Cardinality({ i \in DOMAIN fs : fs[i].w = f.w }) >= MaxPerLabel THEN fs ELSE Append(fs, f)
RECURSIVE AddFailSeq(_, _)
AddFailSeq(fs, s) == IF s = <<>> THEN fs ELSE AddFailSeq(AddFail(fs, s[1]), Tail(s))
AddDrift(ds, what, ev, d) == IF Len(ds) < 12 THEN Append(ds, [l |-> l, x |-> exec, e |-> ev.o, d |-> what \o " " \o d]) ELSE ds

Field(ev, f, dflt) == IF f \in DOMAIN ev THEN ev[f] ELSE dflt
Rate == X.cfg.rate
T10F == (10 * Rate) \div 1000                     \* onset deadline in frames (the automaton uses whole windows: Min(T10F, 2 wf))
TRelF == (X.cfg.rel * Rate) \div 1000             \* release time of the instrument in frames
NativeMode == X.cfg.pcmr = 0
MaxSeq(s) == IF s = <<>> THEN 0 ELSE LET m == CHOOSE i \in DOMAIN s : \A j \in DOMAIN s : s[j] <= s[i] IN s[m]
TheKey(H) == (CHOOSE h \in H : TRUE)[2]

\* prediction of ChipFrontMC for the previous execution against what was observed (refinement, never a verdict)
PredDrift(ev) ==
  IF exec = 0 \/ ~X.judged \/ X.cfg.pred \in {"unknown", "replayed"} THEN <<>>
  ELSE IF X.cfg.pred = "ok" /\ X.xf > 0 THEN <<"pred-ok-but-failed">>
  ELSE IF X.cfg.pred # "ok" /\ X.xf = 0 THEN <<"pred-" \o X.cfg.pred \o "-but-passed">>
  ELSE <<>>
ClosePrev(ev) ==
  LET pd == PredDrift(ev) IN
  [dr |-> IF pd = <<>> THEN drift ELSE AddDrift(drift, pd[1], ev, ToString(exec)),
   c |-> [cnt EXCEPT !.refined_pred = @ + (IF exec > 0 /\ X.judged /\ X.cfg.pred \notin {"unknown", "replayed"} THEN 1 ELSE 0),
                      !.drifted = @ + (IF pd = <<>> THEN 0 ELSE 1)]]

StepInit(ev) ==
  LET cp == ClosePrev(ev)
      pcmx == IF ev.pcm = 1 /\ CanPcm(ev.emu) THEN 1 ELSE 0
      d == (IF ev.pcmr # pcmx THEN <<"pcm-mode">> ELSE <<>>) \o (IF ev.famr # ev.fam THEN <<"family">> ELSE <<>>)
           \o (IF ev.rc # 0 \/ ev.nchips # ev.chips \/ ev.nch # 6 * ev.chips THEN <<"setup">> ELSE <<>>)
  IN /\ X' = [X0 EXCEPT !.cfg = [emu |-> ev.emu, fam |-> ev.fam, rate |-> ev.rate, chips |-> ev.chips, pcmr |-> ev.pcmr, famr |-> ev.famr,
                                 rel |-> ev.rel, pred |-> Field(ev, "pred", "unknown")],
                        !.pend = [c \in 1..ev.chips |-> ev.nwi[c]]]
     /\ exec' = exec + 1
     /\ fails' = fails
     /\ drift' = IF d = <<>> THEN cp.dr ELSE AddDrift(cp.dr, d[1], ev, ToString(<<ev.emu, ev.fam, ev.pcm, ev.pcmr, ev.famr, ev.rc>>))
     /\ cnt' = [cp.c EXCEPT !.execs = @ + 1, !.pcm_execs = @ + ev.pcmr, !.drifted = @ + (IF d = <<>> THEN 0 ELSE 1)]

\* ---------------------------------------------------------------- rendering
\* the automaton over the windows of one rendering; acc = [st, v (first verdict), iv (its window), was (state it failed in), ns, ni]
RECURSIVE RunWin(_, _, _, _, _, _)
RunWin(W, wf, g, single, i, acc) ==
  IF i > Len(W) THEN acc
  ELSE LET sounding == acc.st \in {"Attack", "Settle", "Sounding"}
           judge == ~sounding \/ (NativeMode /\ ~X.over)
           snd == IF sounding /\ judge THEN WinSound(W, i, g, single, X.ilo, X.ihi) ELSE "open"
           idl == WinIdle(W[i], X.ilo, X.ihi)
           r == IF judge THEN LcWindow(acc.st, snd, idl, X.age + (i - 1) * wf, Min(T10F, 2 * wf), TRelF) ELSE [st |-> acc.st, v |-> ""]
       IN RunWin(W, wf, g, single, i + 1,
                 [st |-> r.st,
                  v |-> IF acc.v = "" THEN r.v ELSE acc.v,
                  iv |-> IF acc.v = "" /\ r.v # "" THEN i ELSE acc.iv,
                  was |-> IF acc.v = "" /\ r.v # "" THEN acc.st ELSE acc.was,
                  ns |-> acc.ns + (IF sounding /\ judge /\ snd = "yes" THEN 1 ELSE 0),
                  ni |-> acc.ni + (IF acc.st \in {"Release", "Idle"} /\ r.st = "Idle" THEN 1 ELSE 0),
                  rel |-> acc.rel + (IF acc.st = "Release" /\ r.st = "Idle" THEN 1 ELSE 0)])

\* frequency the model expects from the keyed channels (all programmed alike), 0 = no expectation
ModelFreq ==
  IF X.kd = <<>> \/ ~NativeMode \/ \E i \in DOMAIN X.kd : X.kd[i][2] # X.kd[1][2] \/ X.kd[i][3] # X.kd[1][3] THEN 0
  ELSE ModelMilliHz(X.kd[1][2], X.kd[1][3], X.cfg.famr, Rate)

Explain(base) ==
  IF IsYmfm(X.cfg.emu) /\ X.ovf > 0 THEN "ymfm-ring-overflow"
  ELSE IF IsNuked(X.cfg.emu) /\ X.nlate /\ base \in {"onset-late", "silent-held"} THEN "nuked-write-delay"
  ELSE base

StepGen(ev) ==
  LET W == ev.w
      wf == ev.wf
      nfr == Len(W) * wf
      rr == RateRatio(Rate, X.cfg.famr)
      run == IF NativeMode THEN ResRun(X.rs, rr, nfr) ELSE [ticks |-> nfr, s |-> X.rs]
      pend1 == [c \in DOMAIN X.pend |-> Max(0, X.pend[c] - run.ticks)]
  IN
  IF ~X.have THEN
    \* the instance's idle level: what it renders before any note
    /\ X' = [X EXCEPT !.have = TRUE, !.ilo = MaxSeq([i \in DOMAIN W |-> -W[i][1]]) * (-1), !.ihi = MaxSeq([i \in DOMAIN W |-> W[i][2]]),
                      !.age = X.age + nfr, !.rs = run.s, !.pend = pend1]
    /\ cnt' = [cnt EXCEPT !.gens = @ + 1, !.windows = @ + Len(W),
                          !.dac_offset_execs = @ + (IF MaxSeq([i \in DOMAIN W |-> W[i][2]]) > 50 THEN 1 ELSE 0)]
    /\ UNCHANGED <<fails, drift, exec>>
  ELSE
    LET single == Cardinality(X.H) = 1
        key == IF X.H = {} THEN 60 ELSE TheKey(X.H)
        g == IF single THEN GroupLen(key, Rate, wf) ELSE ChordGroup
        acc == RunWin(W, wf, g, single, 1, [st |-> X.st, v |-> "", iv |-> 0, was |-> "", ns |-> 0, ni |-> 0, rel |-> 0])
        judgeSound == NativeMode /\ ~X.over /\ X.H # {}
        laterSound == acc.v = "no-sound" /\ \E j \in (acc.iv + 1)..Len(W) : WinSound(W, j, g, single, X.ilo, X.ihi) = "yes"
        base == CASE acc.v = "no-sound" -> IF acc.was = "Attack" /\ laterSound THEN "onset-late" ELSE "silent-held"
                  [] acc.v = "not-idle" -> "not-idle-after-" \o (IF X.why = "ev" THEN "release" ELSE X.why)
                  [] OTHER -> ""
        ms == ((X.age + (IF acc.iv > 0 THEN acc.iv - 1 ELSE 0) * wf) * 1000) \div Rate
        det == ToString([what |-> base, window |-> acc.iv, ms_after_command |-> ms, win |-> IF acc.iv > 0 THEN W[acc.iv] ELSE <<>>,
                         idle |-> <<X.ilo, X.ihi>>, held |-> X.H, lost_writes |-> X.ovf, pending |-> X.pend,
                         emu |-> X.cfg.emu, rate |-> Rate, fam |-> X.cfg.fam, chips |-> X.cfg.chips])
        f1 == IF base = "" THEN <<>> ELSE <<Fail(Explain(base), ev, det)>>
        \* frame-exact onset of the first rendering after a command that started a note from silence
        onsetJ == X.fresh /\ judgeSound /\ acc.v = ""
        f2 == IF onsetJ /\ ~OnsetOK(ev.on, Rate)
              THEN <<Fail(Explain(IF ev.on < 0 THEN "silent-held" ELSE "onset-late"), ev,
                          ToString([what |-> "onset", frame |-> ev.on, deadline |-> T10F, rate |-> Rate, emu |-> X.cfg.emu, pending |-> X.pend, lost_writes |-> X.ovf]))>>
              ELSE <<>>
        \* pitch of a single held key, measured after the deadline of the last command
        zsF == (Field(ev, "zs", 0) * Rate) \div 1000
        pitchJ == judgeSound /\ single /\ acc.v = "" /\ acc.st = "Sounding" /\ f2 = <<>> /\ X.age + zsF >= X.dl /\ ev.zc[1] >= 4
        repr == Representable(key, Rate)
        f3 == IF pitchJ /\ repr /\ ~PitchOK(ev.zc[2], key, Rate)
              THEN <<Fail(Explain("pitch"), ev, ToString([what |-> "pitch", measured_mHz |-> ev.zc[2], nominal_mHz |-> Nominal(key), key |-> key, crossings |-> ev.zc[1],
                                                          rate |-> Rate, emu |-> X.cfg.emu, fam |-> X.cfg.fam, keyed |-> X.kd, lost_writes |-> X.ovf]))>>
              ELSE <<>>
        mf == ModelFreq
        pdrift == pitchJ /\ repr /\ mf > 0 /\ Abs(ev.zc[2] - mf) > (3 * mf) \div 1000
        allf == f1 \o f2 \o f3
    IN
    /\ X' = [X EXCEPT !.st = acc.st, !.age = X.age + nfr, !.rs = run.s, !.pend = pend1, !.fresh = FALSE,
                      !.xf = X.xf + Len(allf), !.judged = X.judged \/ judgeSound]
    /\ fails' = AddFailSeq(fails, allf)
    /\ drift' = IF pdrift THEN AddDrift(drift, "pitch-model", ev, ToString(<<"measured", ev.zc[2], "model", mf, "keyed", X.kd>>)) ELSE drift
    /\ exec' = exec
    /\ cnt' = [cnt EXCEPT !.gens = @ + 1, !.windows = @ + Len(W), !.idle_windows = @ + acc.ni, !.sound_windows = @ + acc.ns,
                          !.onsets = @ + (IF onsetJ THEN 1 ELSE 0),
                          !.pitches = @ + (IF pitchJ /\ repr THEN 1 ELSE 0),
                          !.unrepresentable = @ + (IF pitchJ /\ ~repr THEN 1 ELSE 0),
                          !.chords = @ + (IF judgeSound /\ ~single /\ acc.ns > 0 THEN 1 ELSE 0),
                          !.releases = @ + acc.rel,
                          !.after_panic = @ + (IF X.why = "panic" THEN acc.rel ELSE 0),
                          !.after_reset = @ + (IF X.why = "reset" THEN acc.rel ELSE 0),
                          !.after_burst_release = @ + (IF X.why = "ev" THEN acc.rel ELSE 0),
                          !.refined_pitch = @ + (IF pitchJ /\ repr /\ mf > 0 THEN 1 ELSE 0),
                          !.drifted = @ + (IF pdrift THEN 1 ELSE 0)]

\* ---------------------------------------------------------------- commands
StepCmd(ev) ==
  LET isEv == ev.o = "ev"
      evs == IF isEv THEN ev.evs ELSE <<>>
      Hb == X.H
      Ha == IF isEv THEN HeldAfter(Hb, evs) ELSE {}
      anyOn == ~isEv \/ \E i \in DOMAIN evs : evs[i][1] = 1 /\ evs[i][4] > 0
      peak == IF isEv THEN HeldPeak(Hb, evs, 1, Cardinality(Hb)) ELSE 0
      over1 == X.over \/ peak > 6 * X.cfg.chips
      st1 == LcCommand(X.st, Hb, Ha, anyOn)
      \* write path: requested writes per chip against the ring of the YMFM cores (chips are re-created by a reset)
      base == IF ev.o = "reset" THEN [c \in DOMAIN X.pend |-> 0] ELSE X.pend
      tot == [c \in DOMAIN X.pend |-> base[c] + ev.nw[c]]
      lost == MaxSeq([c \in DOMAIN tot |-> Max(0, tot[c] - RingCap)])
      ovf1 == IF ~IsYmfm(X.cfg.emu) THEN 0 ELSE IF ev.o = "reset" THEN lost ELSE Max(X.ovf, lost)
      nlate1 == IsNuked(X.cfg.emu) /\ MaxSeq(ev.nw) * NukedCyclesPerWrite * 1000 > 10 * NativeRate(X.cfg.famr) * NukedCyclesPerSample
      cost == IF isEv THEN BurstCost(Hb, evs) ELSE 0
      costJ == isEv /\ ~over1
      cdrift == costJ /\ cost # SumSeq(ev.nw)
  IN
  /\ X' = [X EXCEPT !.H = Ha, !.st = st1, !.why = IF Ha = {} THEN ev.o ELSE X.why, !.age = 0,
                    !.dl = IF st1 = "Settle" \/ Ha = {} THEN TRelF ELSE T10F,
                    !.fresh = (st1 = "Attack" /\ Hb = {} /\ X.st \in {"Idle"}),
                    !.pend = tot, !.ovf = ovf1, !.nlate = nlate1, !.over = over1, !.kd = ev.kd,
                    !.rs = IF ev.o = "reset" THEN 0 ELSE X.rs]
  /\ fails' = fails
  /\ exec' = exec
  /\ drift' = IF cdrift THEN AddDrift(drift, "write-cost", ev, ToString(<<"model", cost, "requested", ev.nw>>)) ELSE drift
  /\ cnt' = [cnt EXCEPT !.bursts = @ + (IF isEv THEN 1 ELSE 0), !.events = @ + Len(evs),
                        !.ring_overflow_bursts = @ + (IF IsYmfm(X.cfg.emu) /\ lost > 0 THEN 1 ELSE 0),
                        !.nuked_late_bursts = @ + (IF nlate1 THEN 1 ELSE 0),
                        !.refined_cost = @ + (IF costJ THEN 1 ELSE 0),
                        !.drifted = @ + (IF cdrift THEN 1 ELSE 0)]

StepEnd(ev) ==
  LET cp == ClosePrev(ev) IN
  /\ X' = [X EXCEPT !.judged = FALSE] /\ drift' = cp.dr /\ cnt' = cp.c /\ UNCHANGED <<fails, exec>>
StepCrash(ev) ==
  /\ fails' = AddFail(fails, [p |-> "CRASH", w |-> Field(ev, "stage", "?"), l |-> l, x |-> exec, e |-> "crash", d |-> ""])
  /\ UNCHANGED <<X, cnt, drift, exec>>

Next ==
  \/ /\ l <= Len(T) /\ l' = l + 1
     /\ LET ev == T[l] IN
        CASE ev.o = "init" -> StepInit(ev)
          [] ev.o = "gen" /\ "w" \in DOMAIN ev -> StepGen(ev)
          [] ev.o \in {"ev", "panic", "reset"} /\ "nw" \in DOMAIN ev -> StepCmd(ev)
          [] ev.o = "end" -> StepEnd(ev)
          [] ev.o = "crash" -> StepCrash(ev)
          [] OTHER -> UNCHANGED <<X, fails, cnt, drift, exec>>
  \/ /\ l = Len(T) + 1 /\ l' = l + 1
     /\ PrintT(<<"RESULT", ToJson([n |-> Len(T), fails |-> fails, cnt |-> cnt, drift |-> drift])>>)
     /\ UNCHANGED <<X, fails, cnt, drift, exec>>
Spec == Init /\ [][Next]_vars
=============================================================================
