-------------------------------- MODULE Synth --------------------------------
(* Implementation-shaped model of libOPNMIDI's real-time synthesizer core
   (src/opnmidi_midiplay.cpp): MIDI channels with their active notes, chip channels with their
   users, the voice allocator, pedals, percussion minimum life, arpeggio and the reset paths.

   One operator per C++ function, same names, same case analysis.  The state is ONE record S
   of the same shape as the projection recorded from the real library (harness/vh.hpp), except
   that times are kept in microseconds (fields kon, koff, vd of users/channels; ttlus of notes in
   nanoseconds): Proj(S) converts to the logged milliseconds.  `Step(S, ev)` is the transition
   function: ev is a call record exactly as the harness logs it.

   The model describes the code as it is AFTER the fix: commits recorded in
   known_findings.json (key-down test by note occupancy, dropActiveNotes, ResetState releasing
   pedal holds, SysEx strictness/broadcast).                                                   *)
EXTENDS SynthProps

Pedal == 1
Sost  == 2
SAny  == 3
And2(a, b) == (IF BitHas(a, 1) /\ BitHas(b, 1) THEN 1 ELSE 0) + (IF BitHas(a, 2) /\ BitHas(b, 2) THEN 2 ELSE 0)
NegClampUs == -2000000000      \* the code clamps at -0x1FFFFFFF ms; histories stay far above

Props(patch, pan, vol, pitch, off, mute) ==
  [patch |-> patch, pan |-> pan, vol |-> vol, pitch |-> pitch, off |-> off, mute |-> mute]
UpdAll      == Props(FALSE, TRUE, TRUE, TRUE, FALSE, FALSE)
UpdAllPatch == Props(TRUE, TRUE, TRUE, TRUE, FALSE, FALSE)
UpdOff      == Props(FALSE, FALSE, FALSE, FALSE, TRUE, FALSE)
UpdOffMute  == Props(FALSE, FALSE, FALSE, FALSE, TRUE, TRUE)
UpdPitch    == Props(FALSE, FALSE, FALSE, TRUE, FALSE, FALSE)
UpdVolume   == Props(FALSE, FALSE, TRUE, FALSE, FALSE, FALSE)
UpdPan      == Props(FALSE, TRUE, FALSE, FALSE, FALSE, FALSE)
UpdPVP      == Props(FALSE, TRUE, TRUE, TRUE, FALSE, FALSE)

UserIdx(us, m, n)  == FirstIdx(us, LAMBDA u : u.m = m /\ u.n = n)
NoteIdx(notes, key) == FirstIdx(notes, LAMBDA nt : nt.n = key)
MetaOf(S, nt) == InsAt(S.bl, nt.ib, nt.ii)
Users(S, c) == S.ch[c + 1].u
\* isUserKeyDown(): the note is active and occupies chip channel c
KeyDown(S, c, u) == NoteOccupies(S, u.m, u.n, c)

---------------------------------------------------------------------------
(* MIDIchannel defaults *)
NoNotes == <<>>
MidiChan0(chn) ==
  [c |-> chn, patch |-> 0, msb |-> 0, lsb |-> 0, vol |-> 100, expr |-> 127, pan |-> 64, vib |-> 0, at |-> 0,
   porta |-> 0, sus |-> FALSE, soft |-> FALSE, portaEn |-> FALSE, psrc |-> -1, bend |-> 0, bsm |-> 2, bsl |-> 0,
   lrpn |-> 0, mrpn |-> 0, nrpn |-> FALSE, bright |-> 127, xgp |-> FALSE, glc |-> 0, exc |-> 0, notes |-> NoNotes]
ResetAllControllers121(m) ==
  [m EXCEPT !.bend = 0, !.bsm = 2, !.bsl = 0, !.expr = 127, !.sus = FALSE, !.soft = FALSE, !.vib = 0, !.at = 0,
            !.porta = 0, !.portaEn = FALSE, !.psrc = -1]
ResetAllControllers(m) == ResetAllControllers121([m EXCEPT !.vol = 100, !.bright = 127, !.pan = 64])
ChipChan0 == [k |-> FALSE, koff |-> 0, ri |-> -1, u |-> <<>>]

---------------------------------------------------------------------------
(* noteUpdate(midCh, i, props, select_adlchn) *)
RECURSIVE PatchPhase(_, _, _, _, _)
PatchPhase(S, mi, ni, k, sel) ==
  LET nt == S.mc[mi].notes[ni] IN
  IF k > Len(nt.ph) THEN S
  ELSE LET c == nt.ph[k].c IN
    IF sel >= 0 /\ c # sel THEN PatchPhase(S, mi, ni, k + 1, sel)
    ELSE LET us   == Users(S, c)
             ui   == UserIdx(us, S.mc[mi].c, nt.n)
             meta == MetaOf(S, nt)
             nu   == [m |-> S.mc[mi].c, n |-> nt.n, s |-> 0, f |-> (meta.kon = 40000), kon |-> 1000 * meta.kon,
                      vd |-> 0, id |-> nt.ph[k].id]
             us2  == IF ui # 0 THEN [us EXCEPT ![ui] = nu] ELSE IF Len(us) < 128 THEN Append(us, nu) ELSE us
         IN PatchPhase([S EXCEPT !.ch[c + 1].u = us2], mi, ni, k + 1, sel)

RECURSIVE MainPhase(_, _, _, _, _, _)
MainPhase(S, mi, ni, k, P, sel) ==
  LET nt == S.mc[mi].notes[ni]  chn == S.mc[mi].c IN
  IF k > Len(nt.ph) THEN S
  ELSE LET c == nt.ph[k].c  us == Users(S, c)  ui == UserIdx(us, chn, nt.n) IN
    IF sel >= 0 /\ c # sel THEN MainPhase(S, mi, ni, k + 1, P, sel)
    ELSE IF P.off
    THEN LET S1 ==
               IF ~S.mc[mi].sus
               THEN LET doErase == ui # 0 /\ ~BitHas(us[ui].s, Sost)
                        us2     == IF doErase THEN RemoveAt(us, ui) ELSE us
                        emptied == doErase /\ us2 = <<>>
                    IN [S EXCEPT !.ch[c + 1].u = us2,
                                 !.ch[c + 1].k = IF emptied THEN FALSE ELSE @,                       \* synth.noteOff(c)
                                 !.ch[c + 1].koff = IF emptied THEN (IF P.mute THEN 0 ELSE 1000 * MetaOf(S, nt).koff) ELSE @]
               ELSE \* pedal down: forget the note, keep the user and mark it
                    IF ui # 0 THEN [S EXCEPT !.ch[c + 1].u[ui].s = BitSet(@, Pedal)] ELSE S
             S2 == [S1 EXCEPT !.mc[mi].notes[ni].ph = RemoveAt(@, k)]                               \* phys_erase_at
         IN MainPhase(S2, mi, ni, k, P, sel)
    ELSE LET S1 == IF P.pitch /\ (ui = 0 \/ ~BitHas(us[ui].s, Pedal)) THEN [S EXCEPT !.ch[c + 1].k = TRUE] ELSE S   \* synth.noteOn(c, tone)
         IN MainPhase(S1, mi, ni, k + 1, P, sel)

EraseNote(S, mi, ni, cleanup) ==
  LET nt == S.mc[mi].notes[ni] IN
  [S EXCEPT !.mc[mi].glc = IF cleanup /\ nt.gl THEN @ - 1 ELSE @,
            !.mc[mi].exc = IF cleanup /\ nt.ttl THEN @ - 1 ELSE @,
            !.mc[mi].notes = RemoveAt(@, ni)]

NoteUpdate(S, mi, key, P, sel) ==
  LET ni == NoteIdx(S.mc[mi].notes, key) IN
  IF ni = 0 THEN S
  ELSE IF S.mc[mi].notes[ni].blank THEN (IF P.off THEN EraseNote(S, mi, ni, FALSE) ELSE S)
  ELSE LET S1 == IF P.patch THEN PatchPhase(S, mi, ni, 1, sel) ELSE S
           S2 == MainPhase(S1, mi, ni, 1, P, sel)
       IN IF S2.mc[mi].notes[ni].ph = <<>> THEN EraseNote(S2, mi, ni, TRUE) ELSE S2

RECURSIVE NoteUpdateKeys(_, _, _, _)
NoteUpdateKeys(S, mi, keys, P) ==
  IF keys = <<>> THEN S ELSE NoteUpdateKeys(NoteUpdate(S, mi, Head(keys), P, -1), mi, Tail(keys), P)
NoteUpdateAll(S, mi, P) == NoteUpdateKeys(S, mi, [i \in DOMAIN S.mc[mi].notes |-> S.mc[mi].notes[i].n], P)

---------------------------------------------------------------------------
(* killSustainingNotes(midCh, this_adlchn, type), markSostenutoNotes(midCh) *)
RECURSIVE KillUsers(_, _, _, _, _, _, _)
KillUsers(S, c, us, j, midCh, type, acc) ==
  IF j > Len(us) THEN acc
  ELSE LET u == us[j] IN
    IF (midCh < 0 \/ u.m = midCh) /\ And2(u.s, type) # 0
    THEN LET ns == u.s - And2(u.s, type) IN
         IF ns = 0 /\ ~KeyDown(S, c, u) THEN KillUsers(S, c, us, j + 1, midCh, type, acc)
         ELSE KillUsers(S, c, us, j + 1, midCh, type, Append(acc, [u EXCEPT !.s = ns]))
    ELSE KillUsers(S, c, us, j + 1, midCh, type, Append(acc, u))
KillOnChan(S, c, midCh, type) ==
  IF Users(S, c) = <<>> THEN S
  ELSE LET us2 == KillUsers(S, c, Users(S, c), 1, midCh, type, <<>>) IN
       [S EXCEPT !.ch[c + 1].u = us2, !.ch[c + 1].k = IF us2 = <<>> THEN FALSE ELSE @]
RECURSIVE KillRange(_, _, _, _, _)
KillRange(S, c, last, midCh, type) ==
  IF c > last THEN S ELSE KillRange(KillOnChan(S, c, midCh, type), c + 1, last, midCh, type)
KillSustainingNotes(S, midCh, chip, type) ==
  IF chip >= 0 THEN KillOnChan(S, chip, midCh, type) ELSE KillRange(S, 0, S.nc - 1, midCh, type)

MarkSostenutoNotes(S, midCh) ==
  [S EXCEPT !.ch = [ci \in DOMAIN S.ch |->
      [S.ch[ci] EXCEPT !.u = [j \in DOMAIN S.ch[ci].u |->
          IF S.ch[ci].u[j].m = midCh /\ S.ch[ci].u[j].s = 0 THEN [S.ch[ci].u[j] EXCEPT !.s = Sost] ELSE S.ch[ci].u[j]]]]]

---------------------------------------------------------------------------
(* calculateChipChannelGoodness(c, ins) -- exact integer arithmetic, times in ms like the code *)
AllocType(S) == IF S.alloc = -1 THEN 0 ELSE S.alloc          \* AUTO = OffDelay outside CMF mode
UserScore(S, c, u, id) ==
  LET konms == TruncDiv(u.kon, 1000)
      base  == IF KeyDown(S, c, u) THEN -(4000000 + konms) ELSE -(500000 + TruncDiv(konms, 2))
      mi    == McOf(S, u.m)
      ni    == IF mi = 0 THEN 0 ELSE NoteIdx(S.mc[mi].notes, u.n)
      bonus == IF ni = 0 THEN 0
               ELSE (IF u.id = id THEN 300 + (IF u.vd < 70000 \/ u.kon > 20000000 THEN 10 ELSE 0) ELSE 0)
                    + (IF S.mc[mi].notes[ni].perc THEN 50 ELSE 0)
  IN base + bonus
RECURSIVE SumScores(_, _, _, _)
SumScores(S, c, j, id) == IF j > Len(Users(S, c)) THEN 0 ELSE UserScore(S, c, Users(S, c)[j], id) + SumScores(S, c, j + 1, id)
Goodness(S, c, id) ==
  LET koffms == TruncDiv(S.ch[c + 1].koff, 1000)  s0 == -koffms  same == S.ch[c + 1].ri = id IN
  IF s0 < 0 /\ Users(S, c) = <<>>
  THEN CASE AllocType(S) = 1 -> IF same THEN 0 ELSE s0 - 40000
         [] AllocType(S) = 2 -> 0
         [] OTHER            -> IF same THEN -koffms ELSE s0 - 40000
  ELSE s0 + SumScores(S, c, 1, id)
BestChan(S, id) ==
  CHOOSE c \in 0..(S.nc - 1) : \A e \in 0..(S.nc - 1) :
      Goodness(S, e, id) < Goodness(S, c, id) \/ (Goodness(S, e, id) = Goodness(S, c, id) /\ c <= e)

---------------------------------------------------------------------------
(* killOrEvacuate, prepareChipChannelForNewNote *)
ArpeggioStation(S, c, u) ==
  /\ Len(Users(S, c)) < 128
  /\ UserIdx(Users(S, c), u.m, u.n) = 0
  /\ \E j \in DOMAIN Users(S, c) : LET mv == Users(S, c)[j] IN ~(mv.vd >= 200000 /\ mv.kon < 10000000) /\ mv.id = u.id
KillOrEvacuate(S, from, u) ==
  LET mi == McOf(S, u.m)
      st == IF S.arp THEN { c \in 0..(S.nc - 1) : c # from /\ ArpeggioStation(S, c, u) } ELSE {} IN
  IF st # {}
  THEN LET c  == CHOOSE x \in st : \A y \in st : x <= y
           ni == NoteIdx(S.mc[mi].notes, u.n)
           ph == S.mc[mi].notes[ni].ph
           p1 == SelectSeq(ph, LAMBDA p : p.c # from)
           p2 == IF \E q \in DOMAIN p1 : p1[q].c = c THEN [q \in DOMAIN p1 |-> IF p1[q].c = c THEN [p1[q] EXCEPT !.id = u.id] ELSE p1[q]]
                 ELSE Append(p1, [c |-> c, id |-> u.id])
           uf == UserIdx(Users(S, from), u.m, u.n)
       IN [S EXCEPT !.mc[mi].notes[ni].ph = p2,
                    !.ch[c + 1].u = Append(@, u),
                    !.ch[from + 1].u = RemoveAt(@, uf)]
  ELSE NoteUpdate(S, mi, u.n, UpdOff, from)

RECURSIVE PrepLocs(_, _, _, _)
PrepLocs(S, c, locs, id) ==
  IF locs = <<>> THEN S
  ELSE LET ui == UserIdx(Users(S, c), Head(locs)[1], Head(locs)[2]) IN
       IF ui = 0 THEN PrepLocs(S, c, Tail(locs), id)
       ELSE LET u == Users(S, c)[ui] IN
            IF ~KeyDown(S, c, u) THEN PrepLocs(S, c, Tail(locs), id)
            ELSE IF (u.vd < 70000 \/ u.kon > 20000000) /\ u.id = id THEN PrepLocs(S, c, Tail(locs), id)   \* arpeggio together
            ELSE PrepLocs(KillOrEvacuate(S, c, u), c, Tail(locs), id)
PrepareChipChannelForNewNote(S, c, id) ==
  IF Users(S, c) = <<>> THEN S
  ELSE LET locs == [j \in DOMAIN Users(S, c) |-> <<Users(S, c)[j].m, Users(S, c)[j].n>>]
           S1 == PrepLocs(S, c, locs, id)
           S2 == KillSustainingNotes(S1, -1, c, SAny)
       IN IF Users(S2, c) = <<>> THEN [S2 EXCEPT !.ch[c + 1].k = FALSE] ELSE S2

---------------------------------------------------------------------------
(* noteOff, realTime_NoteOn (instrument lookup transcribed from the code, NOT from Doc) *)
NoteOffM(S, mi, key, force) ==
  LET ni == NoteIdx(S.mc[mi].notes, key) IN
  IF ni = 0 THEN S
  ELSE IF force \/ ~S.mc[mi].notes[ni].ttl THEN NoteUpdate(S, mi, key, UpdOff, -1)
  ELSE [S EXCEPT !.mc[mi].notes[ni].ext = TRUE]

HasBank(S, key) == BankIdx(S.bl, key) # 0
Resolve(S, mi, key) ==
  LET m     == S.mc[mi]
      perc  == (m.c % 16 = 9) \/ m.xgp
      bank0 == IF m.msb # 0 \/ m.lsb # 0 THEN (IF BitHas(S.mode, ModeGS) THEN m.msb * 256 ELSE m.msb * 256 + m.lsb) ELSE 0
      bank  == IF perc THEN PercTag + (IF BitHas(S.mode, ModeXG) THEN m.patch + (IF m.msb = 126 THEN 128 ELSE 0) ELSE m.patch)
               ELSE bank0
      idx   == IF perc THEN key ELSE m.patch
      low   == bank % PercTag
      cur1  == IF low > 0 /\ HasBank(S, bank) THEN bank ELSE -3
      bl1   == cur1 = -3 \/ InsAt(S.bl, cur1, idx).blank
      fb    == bank - (bank % 128)
      cur2  == IF bl1 /\ fb # bank /\ HasBank(S, fb) THEN fb ELSE cur1
      bl2   == cur2 = -3 \/ InsAt(S.bl, cur2, idx).blank
      zero  == bank - low
      cur3  == IF bl2 /\ HasBank(S, zero) THEN zero ELSE cur2
      meta  == IF cur3 = -3 THEN BlankIns ELSE InsAt(S.bl, cur3, idx)
  IN [ib |-> cur3, ii |-> idx, meta |-> meta, perc |-> perc]

AddAge0(S, c) == IF Users(S, c) = <<>> THEN S ELSE [S EXCEPT !.ch[c + 1].koff = 0]

NoteOnM(S, chn, key0, vel0) ==
  LET key == Min(key0, 127)  mi == McOf(S, chn)
      S0  == NoteOffM(S, mi, key, vel0 # 0) IN
  IF vel0 = 0 THEN [s |-> S0, r |-> 0]
  ELSE LET rs   == Resolve(S0, mi, key)
           meta == rs.meta
           vel1 == Clamp(vel0 + meta.veloff, 1, 127)
           tone == IF meta.drum = 0 THEN key ELSE IF meta.drum >= 128 THEN meta.drum - 128 ELSE meta.drum
       IN IF meta.blank
          THEN [s |-> [S0 EXCEPT !.mc[mi].psrc = key,
                                 !.mc[mi].notes = Append(@, [n |-> key, v |-> 0, tone |-> 0, gl |-> FALSE, ttl |-> FALSE, ttlus |-> 0,
                                                             ext |-> FALSE, perc |-> FALSE, blank |-> TRUE, ib |-> -2, ii |-> -1, mi |-> 0, ph |-> <<>>])],
                r |-> 0]
          ELSE LET c    == BestChan(S0, meta.id)
                   S1   == PrepareChipChannelForNewNote(S0, c, meta.id)
                   vel2 == IF S1.mc[mi].soft THEN (vel1 * 4) \div 5 ELSE vel1
                   m    == S1.mc[mi]
                   glide == m.portaEn /\ m.porta > 0 /\ ~rs.perc /\ m.psrc >= 0
                   nt   == [n |-> key, v |-> vel2, tone |-> tone, gl |-> glide, ttl |-> rs.perc, ttlus |-> IF rs.perc THEN 30000000 ELSE 0,
                            ext |-> FALSE, perc |-> rs.perc, blank |-> FALSE, ib |-> rs.ib, ii |-> rs.ii, mi |-> rs.ii,
                            ph |-> <<[c |-> c, id |-> meta.id]>>]
                   S2   == [S1 EXCEPT !.mc[mi].psrc = key,
                                      !.mc[mi].glc = IF glide THEN @ + 1 ELSE @,
                                      !.mc[mi].exc = IF rs.perc THEN @ + 1 ELSE @,
                                      !.mc[mi].notes = Append(@, nt)]
                   S3   == NoteUpdate(S2, mi, key, UpdAllPatch, -1)
                   S4   == AddAge0([S3 EXCEPT !.ch[c + 1].ri = meta.id], c)
               IN [s |-> S4, r |-> 1]

---------------------------------------------------------------------------
(* TickIterators(s): ageing, percussion minimum life, vibrato, arpeggio, glide *)
AddAge(chn, us) ==
  IF chn.u = <<>> THEN [chn EXCEPT !.koff = Max(chn.koff - us, 0)]
  ELSE [chn EXCEPT !.koff = 0,
                   !.u = [j \in DOMAIN chn.u |-> [chn.u[j] EXCEPT !.kon = IF chn.u[j].f THEN @ ELSE Max(@ - us, NegClampUs),
                                                                   !.vd = Min(@ + us, 2000000000)]]]
RECURSIVE TtlKeys(_, _, _, _)
TtlKeys(S, mi, keys, ns) ==
  IF keys = <<>> THEN S
  ELSE LET ni == NoteIdx(S.mc[mi].notes, Head(keys)) IN
    IF ni = 0 \/ ~S.mc[mi].notes[ni].ttl THEN TtlKeys(S, mi, Tail(keys), ns)
    ELSE LET left == S.mc[mi].notes[ni].ttlus - ns IN
      IF left > 0 THEN TtlKeys([S EXCEPT !.mc[mi].notes[ni].ttlus = left], mi, Tail(keys), ns)
      ELSE LET S1 == [S EXCEPT !.mc[mi].notes[ni].ttlus = 0, !.mc[mi].notes[ni].ttl = FALSE, !.mc[mi].exc = @ - 1]
               S2 == IF S1.mc[mi].notes[ni].ext THEN NoteUpdate(S1, mi, Head(keys), UpdOff, -1) ELSE S1
           IN TtlKeys(S2, mi, Tail(keys), ns)
RECURSIVE TtlChans(_, _, _)
TtlChans(S, mi, ns) ==
  IF mi > Len(S.mc) THEN S
  ELSE IF S.mc[mi].exc = 0 THEN TtlChans(S, mi + 1, ns)
  ELSE TtlChans(TtlKeys(S, mi, [i \in DOMAIN S.mc[mi].notes |-> S.mc[mi].notes[i].n], ns), mi + 1, ns)

HasVibrato(m) == m.vib > 0 \/ m.at > 0
RECURSIVE VibChans(_, _)
VibChans(S, mi) ==
  IF mi > Len(S.mc) THEN S
  ELSE VibChans(IF HasVibrato(S.mc[mi]) /\ S.mc[mi].notes # <<>> THEN NoteUpdateAll(S, mi, UpdPitch) ELSE S, mi + 1)
RECURSIVE GlideChans(_, _)
GlideChans(S, mi) ==
  IF mi > Len(S.mc) THEN S
  ELSE GlideChans(IF S.mc[mi].glc > 0 THEN NoteUpdateAll(S, mi, UpdPitch) ELSE S, mi + 1)

RECURSIVE ArpChans(_, _, _)
ArpChans(S, c, fuel) ==
  IF c >= S.nc \/ fuel = 0 THEN S
  ELSE LET n == Len(Users(S, c)) IN
    IF n <= 1 THEN ArpChans(S, c + 1, fuel)
    ELSE LET rr == IF n >= 4 THEN 1 ELSE IF n >= 3 THEN 2 ELSE 3
             d  == Users(S, c)[((S.arpc \div rr) % n) + 1]
             mi == McOf(S, d.m) IN
         IF d.s # 0 \/ mi = 0 \/ NoteIdx(S.mc[mi].notes, d.n) = 0 THEN ArpChans(S, c + 1, fuel)
         ELSE IF d.kon <= 0 THEN ArpChans(NoteUpdate(S, mi, d.n, UpdOff, c), c, fuel - 1)      \* goto retry_arpeggio
         ELSE ArpChans(NoteUpdate(S, mi, d.n, UpdPVP, c), c + 1, fuel)
UpdateArpeggio(S) ==
  IF ~S.arp THEN [S EXCEPT !.arpc = 0]
  ELSE ArpChans([S EXCEPT !.arpc = @ + 1], 0, 400)

\* one call of TickIterators with `us` microseconds (`ns` nanoseconds for the double-typed ttl)
TickIterators(S, us, ns) ==
  LET S1 == [S EXCEPT !.ch = [ci \in DOMAIN S.ch |-> IF ci - 1 < S.nc THEN AddAge(S.ch[ci], us) ELSE S.ch[ci]]]
      S2 == TtlChans(S1, 1, ns)
      S3 == VibChans(S2, 1)
      S4 == UpdateArpeggio(S3)
  IN GlideChans(S4, 1)
\* opn2_generate(frames): one TickIterators per period; pf = frames of each period
UsOf(n, rate) == (n * 1000000) \div rate
NsOf(n, rate) == UsOf(n, rate) * 1000 + (((n * 1000000) % rate) * 1000) \div rate
RECURSIVE GenPeriods(_, _, _)
GenPeriods(S, pf, rate) ==
  IF pf = <<>> THEN S
  ELSE GenPeriods(TickIterators(S, UsOf(Head(pf), rate), NsOf(Head(pf), rate)), Tail(pf), rate)
PeriodsOf(frames) == [i \in 1..((frames + 511) \div 512) |-> IF i * 512 <= frames THEN 512 ELSE frames - (i - 1) * 512]

---------------------------------------------------------------------------
(* controllers, resets *)
RECURSIVE PanicKeys(_, _, _)
PanicKeys(S, mi, keys) == IF keys = <<>> THEN S ELSE PanicKeys(NoteOffM(S, mi, Head(keys), FALSE), mi, Tail(keys))
SortedKeys(notes) == LET ks == { notes[i].n : i \in DOMAIN notes } IN
  [i \in 1..Cardinality(ks) |-> CHOOSE k \in ks : Cardinality({ x \in ks : x < k }) = i - 1]
RECURSIVE PanicChans(_, _)
PanicChans(S, mi) == IF mi > Len(S.mc) THEN S ELSE PanicChans(PanicKeys(S, mi, SortedKeys(S.mc[mi].notes)), mi + 1)
Panic(S) == KillSustainingNotes(PanicChans(S, 1), -1, -1, SAny)

RECURSIVE ResetChans(_, _)
ResetChans(S, mi) ==
  IF mi > Len(S.mc) THEN S
  ELSE LET m1 == [ResetAllControllers(S.mc[mi]) EXCEPT !.lrpn = 0, !.mrpn = 0, !.nrpn = FALSE,
                                                    !.xgp = IF BitHas(S.mode, ModeGS) THEN FALSE ELSE @]
           S1 == [S EXCEPT !.mc[mi] = m1]
           S2 == NoteUpdateAll(S1, mi, UpdAll)
           S3 == NoteUpdateAll(S2, mi, UpdOff)
       IN ResetChans(KillSustainingNotes(S3, S.mc[mi].c, -1, SAny), mi + 1)
ResetState(S) == [ResetChans(S, 1) EXCEPT !.master = 127]

IsXgPerc(msb) == msb = 126 \/ msb = 127
Controller(S, chn, n, v) ==
  LET mi == McOf(S, chn) IN
  CASE n = 0   -> [S EXCEPT !.mc[mi].msb = v, !.mc[mi].xgp = IF BitHas(S.mode, ModeGS) THEN @ ELSE IsXgPerc(v)]
    [] n = 32  -> [S EXCEPT !.mc[mi].lsb = v, !.mc[mi].xgp = IF BitHas(S.mode, ModeGS) THEN @ ELSE IsXgPerc(S.mc[mi].msb)]
    [] n = 1   -> [S EXCEPT !.mc[mi].vib = v]
    [] n = 5   -> [S EXCEPT !.mc[mi].porta = (@ % 128) + v * 128]
    [] n = 37  -> [S EXCEPT !.mc[mi].porta = (@ \div 128) * 128 + v]
    [] n = 65  -> [S EXCEPT !.mc[mi].portaEn = v >= 64]
    [] n = 7   -> NoteUpdateAll([S EXCEPT !.mc[mi].vol = v], mi, UpdVolume)
    [] n = 74  -> NoteUpdateAll([S EXCEPT !.mc[mi].bright = v], mi, UpdVolume)
    [] n = 11  -> NoteUpdateAll([S EXCEPT !.mc[mi].expr = v], mi, UpdVolume)
    [] n = 10  -> NoteUpdateAll([S EXCEPT !.mc[mi].pan = v], mi, UpdPan)
    [] n = 64  -> LET S1 == [S EXCEPT !.mc[mi].sus = v >= 64] IN
                  IF v >= 64 THEN S1 ELSE KillSustainingNotes(S1, chn, -1, Pedal)
    [] n = 66  -> IF v >= 64 THEN MarkSostenutoNotes(S, chn) ELSE KillSustainingNotes(S, chn, -1, Sost)
    [] n = 67  -> [S EXCEPT !.mc[mi].soft = v >= 64]
    [] n = 121 -> KillSustainingNotes(NoteUpdateAll([S EXCEPT !.mc[mi] = ResetAllControllers121(@)], mi, UpdPVP), chn, -1, SAny)
    [] n = 120 -> NoteUpdateAll(S, mi, UpdOffMute)
    [] n = 123 -> NoteUpdateAll(S, mi, UpdOff)
    [] n = 98  -> [S EXCEPT !.mc[mi].lrpn = v, !.mc[mi].nrpn = TRUE]
    [] n = 99  -> [S EXCEPT !.mc[mi].mrpn = v, !.mc[mi].nrpn = TRUE]
    [] n = 100 -> [S EXCEPT !.mc[mi].lrpn = v, !.mc[mi].nrpn = FALSE]
    [] n = 101 -> [S EXCEPT !.mc[mi].mrpn = v, !.mc[mi].nrpn = FALSE]
    [] n = 6   -> IF S.mc[mi].lrpn = 0 /\ S.mc[mi].mrpn = 0 /\ ~S.mc[mi].nrpn THEN [S EXCEPT !.mc[mi].bsm = v] ELSE S
    [] n = 38  -> IF S.mc[mi].lrpn = 0 /\ S.mc[mi].mrpn = 0 /\ ~S.mc[mi].nrpn THEN [S EXCEPT !.mc[mi].bsl = v] ELSE S
    [] OTHER   -> S

\* chips re-created: applySetup()/partialReset() after the fix (dropActiveNotes)
Rebuild(S, nc) ==
  [S EXCEPT !.nc = nc, !.ch = [i \in 1..nc |-> ChipChan0], !.arpc = 0,
            !.mc = [mi \in DOMAIN S.mc |-> [S.mc[mi] EXCEPT !.notes = <<>>, !.glc = 0, !.exc = 0]]]
NcFor(S, chips) == IF S.lim > 0 /\ S.lim < chips * 6 THEN S.lim ELSE chips * 6

\* SysEx as the code implements it (doUniversalSysEx / doRolandSysEx / doYamahaSysEx)
SysExM(S, m) ==
  LET n == Len(m) IN
  IF n < 4 \/ m[1] # 240 \/ m[n] # 247 \/ ~AllSeven(SubSeq(m, 2, n - 1)) THEN [s |-> S, r |-> 0]
  ELSE LET man == m[2]  dv == m[3]  d == SubSeq(m, 4, n - 1)  sz == Len(d) IN
   CASE man \in {126, 127} ->
          IF sz < 2 \/ ~(dv = 127 \/ dv = S.dev) THEN [s |-> S, r |-> 0]
          ELSE LET addr == d[1] * 256 + d[2]  rest == sz - 2 IN
            IF man = 126 /\ addr = 2305 /\ rest = 0 THEN [s |-> ResetState([S EXCEPT !.mode = 0]), r |-> 1]
            ELSE IF man = 126 /\ addr = 2306 /\ rest = 0 THEN [s |-> ResetState([S EXCEPT !.mode = ModeXG]), r |-> 1]
            ELSE IF man = 127 /\ addr = 1025 /\ rest = 2
                 THEN [s |-> [S EXCEPT !.master = (d[3] + d[4] * 128) \div 128], r |-> 1]
            ELSE [s |-> S, r |-> 0]
     [] man = 65 ->
          IF sz < 6 \/ ~(dv = 127 \/ dv % 16 = S.dev) THEN [s |-> S, r |-> 0]
          ELSE LET model == d[1]  md == d[2]  cs == d[sz]  body == SubSeq(d, 3, sz - 1)
                   dv2 == IF dv = 127 THEN 16 + S.dev ELSE dv IN
            IF RolandSum(body) # cs THEN [s |-> S, r |-> 0]
            ELSE LET a0 == body[1] * 65536 + body[2] * 256 + body[3]
                     isdrum == body[1] = 64 /\ (body[2] \div 16) = 1 /\ body[3] = 21
                     vals == SubSeq(body, 4, Len(body)) IN
              IF md # 18 \/ model # 66 \/ Len(vals) # 1 \/ (dv2 \div 16) # 1 THEN [s |-> S, r |-> 0]
              ELSE IF a0 = 127 \/ a0 = 4194431 THEN [s |-> ResetState([S EXCEPT !.mode = ModeGS]), r |-> 1]
              ELSE IF isdrum
                   THEN LET tc == GsDrumMap[(body[2] % 16) + 1]  mi == McOf(S, tc) IN
                        [s |-> IF mi = 0 THEN S ELSE [S EXCEPT !.mc[mi].xgp = (vals[1] = 1 \/ vals[1] = 2)], r |-> 1]
              ELSE [s |-> S, r |-> 0]
     [] man = 67 ->
          IF sz < 1 \/ ~(dv = 127 \/ dv % 16 = S.dev) THEN [s |-> S, r |-> 0]
          ELSE LET dv2 == IF dv = 127 THEN 16 + S.dev ELSE dv IN
            IF d[1] = 76 /\ (dv2 \div 16) = 1 /\ sz = 5 /\ d[2] = 0 /\ d[3] = 0 /\ d[4] = 126
            THEN [s |-> ResetState([S EXCEPT !.mode = ModeXG]), r |-> 1]
            ELSE [s |-> S, r |-> 0]
     [] OTHER -> [s |-> S, r |-> 0]

---------------------------------------------------------------------------
(* Step: one public API call *)
Ret(S) == [s |-> S, r |-> 0]
Step(S, ev) ==
  LET e == ev.e IN
  CASE e = "NoteOn"  -> IF McOf(S, ev.ch) = 0 THEN Ret(S) ELSE NoteOnM(S, ev.ch, ev.k, ev.v)
    [] e = "NoteOff" -> IF McOf(S, ev.ch) = 0 THEN Ret(S) ELSE Ret(NoteOffM(S, McOf(S, ev.ch), ev.k, FALSE))
    [] e = "CC"      -> IF McOf(S, ev.ch) = 0 THEN Ret(S) ELSE Ret(Controller(S, ev.ch, ev.n, ev.v))
    [] e = "Patch"   -> IF McOf(S, ev.ch) = 0 THEN Ret(S) ELSE Ret([S EXCEPT !.mc[McOf(S, ev.ch)].patch = ev.p])
    [] e = "Bend"    -> IF McOf(S, ev.ch) = 0 THEN Ret(S)
                        ELSE Ret(NoteUpdateAll([S EXCEPT !.mc[McOf(S, ev.ch)].bend = ev.v - 8192], McOf(S, ev.ch), UpdPitch))
    [] e = "NoteAT"  -> Ret(S)
    [] e = "ChanAT"  -> IF McOf(S, ev.ch) = 0 THEN Ret(S) ELSE Ret([S EXCEPT !.mc[McOf(S, ev.ch)].at = ev.v])
    [] e = "BankMSB" -> IF McOf(S, ev.ch) = 0 THEN Ret(S) ELSE Ret([S EXCEPT !.mc[McOf(S, ev.ch)].msb = ev.v])
    [] e = "BankLSB" -> IF McOf(S, ev.ch) = 0 THEN Ret(S) ELSE Ret([S EXCEPT !.mc[McOf(S, ev.ch)].lsb = ev.v])
    [] e = "Bank"    -> IF McOf(S, ev.ch) = 0 THEN Ret(S)
                        ELSE Ret([S EXCEPT !.mc[McOf(S, ev.ch)].lsb = ev.v % 256, !.mc[McOf(S, ev.ch)].msb = (ev.v \div 256) % 256])
    [] e = "SysEx"   -> SysExM(S, ev.b)
    [] e = "Panic"   -> Ret(Panic(S))
    [] e = "ResetState" -> Ret(ResetState(S))
    [] e = "Gen"     -> [s |-> GenPeriods(S, IF "pf" \in DOMAIN ev THEN ev.pf ELSE PeriodsOf(ev.fr), S.rate), r |-> 2 * ev.fr]
    [] e = "SetArp"  -> Ret([S EXCEPT !.arp = ev.v # 0])
    [] e = "SetAlloc" -> Ret([S EXCEPT !.alloc = IF ev.v < -1 \/ ev.v >= 3 THEN -1 ELSE ev.v])
    [] e = "SetDevId" -> IF ev.v \in 0..15 THEN Ret([S EXCEPT !.dev = ev.v]) ELSE [s |-> S, r |-> -1]
    [] e = "SetNumChips" -> IF ev.v \in 1..100 THEN Ret(Rebuild(Panic(S), NcFor(S, ev.v))) ELSE [s |-> S, r |-> -1]
    [] e = "Reset"   -> Ret([Rebuild(Panic(S), S.nc) EXCEPT !.mc = [mi \in DOMAIN S.mc |-> MidiChan0(S.mc[mi].c)],
                                                          !.mode = ModeXG, !.master = 127])
    [] e \in {"SwitchEmu", "SetRunAtPcm"} -> IF ev.r = 0 THEN Ret(Rebuild(Panic(S), S.nc)) ELSE [s |-> S, r |-> ev.r]
    [] e = "SetChipType" -> Ret(Rebuild(S, S.nc))
    [] e = "OpenBank" -> IF ev.r = 0 THEN Ret([Rebuild(S, S.nc) EXCEPT !.bl = ev.bl]) ELSE [s |-> S, r |-> ev.r]
    [] e = "SetIns"  -> IF ev.r = 0 THEN Ret([S EXCEPT !.bl = SetInsBl(@, ev.msb * 256 + ev.lsb + (IF ev.p = 1 THEN PercTag ELSE 0), ev.i, ev.insrec)])
                        ELSE [s |-> S, r |-> ev.r]
    [] OTHER -> Ret(S)
Modelled(ev) == ev.e \in {"NoteOn", "NoteOff", "CC", "Patch", "Bend", "ChanAT", "NoteAT", "BankMSB", "BankLSB", "Bank", "SysEx", "Panic",
                          "ResetState", "Gen", "SetArp", "SetAlloc", "SetDevId", "SetNumChips", "Reset", "SwitchEmu", "SetRunAtPcm",
                          "SetChipType", "OpenBank", "SetIns"}

\* projection to the logged shape: microseconds -> truncated milliseconds, drop model-only fields
Proj(S) ==
  [nc |-> S.nc, mode |-> S.mode, master |-> S.master, dev |-> S.dev, alloc |-> S.alloc, arp |-> S.arp,
   ch |-> [ci \in DOMAIN S.ch |-> [k |-> S.ch[ci].k, koff |-> TruncDiv(S.ch[ci].koff, 1000), ri |-> S.ch[ci].ri,
            u |-> [j \in DOMAIN S.ch[ci].u |-> [S.ch[ci].u[j] EXCEPT !.kon = TruncDiv(@, 1000), !.vd = TruncDiv(@, 1000)]]]],
   mc |-> S.mc]

\* logged snapshot -> model state (milliseconds -> microseconds); x carries lim, rate, bl
Lift(s, x) ==
  [nc |-> s.nc, lim |-> x.lim, rate |-> x.rate, mode |-> s.mode, master |-> s.master, dev |-> s.dev, alloc |-> s.alloc,
   arp |-> s.arp, arpc |-> s.arpc, bl |-> x.bl,
   ch |-> [ci \in DOMAIN s.ch |-> [k |-> s.ch[ci].k, koff |-> 1000 * s.ch[ci].koff, ri |-> s.ch[ci].ri,
            u |-> [j \in DOMAIN s.ch[ci].u |-> [s.ch[ci].u[j] EXCEPT !.kon = Max(1000 * Max(@, -2000000), NegClampUs), !.vd = 1000 * Min(@, 2000000)]]]],
   mc |-> s.mc]

\* structural difference between a model projection a and a logged snapshot b (labels); tol in ms
UserSame(x, y) == x.m = y.m /\ x.n = y.n /\ x.s = y.s /\ x.f = y.f /\ x.id = y.id
UserTime(x, y, tol) == Abs(x.kon - y.kon) <= tol /\ Abs(x.vd - y.vd) <= tol
NoteSame(x, y) == x.n = y.n /\ x.v = y.v /\ x.tone = y.tone /\ x.gl = y.gl /\ x.ttl = y.ttl /\ x.ext = y.ext /\ x.perc = y.perc
                  /\ x.blank = y.blank /\ x.ib = y.ib /\ x.ii = y.ii /\ x.ph = y.ph
CtlSame(x, y) == x.c = y.c /\ x.patch = y.patch /\ x.msb = y.msb /\ x.lsb = y.lsb /\ x.vol = y.vol /\ x.expr = y.expr /\ x.pan = y.pan
                 /\ x.vib = y.vib /\ x.at = y.at /\ x.porta = y.porta /\ x.sus = y.sus /\ x.soft = y.soft /\ x.portaEn = y.portaEn
                 /\ x.psrc = y.psrc /\ x.bend = y.bend /\ x.bsm = y.bsm /\ x.bsl = y.bsl /\ x.lrpn = y.lrpn /\ x.mrpn = y.mrpn
                 /\ x.nrpn = y.nrpn /\ x.bright = y.bright /\ x.xgp = y.xgp /\ x.glc = y.glc /\ x.exc = y.exc
Diff(a, b, tol) ==
  {"global" : q \in IF a.nc = b.nc /\ a.mode = b.mode /\ a.master = b.master /\ a.dev = b.dev /\ a.alloc = b.alloc /\ a.arp = b.arp
                          /\ Len(a.ch) = Len(b.ch) /\ Len(a.mc) = Len(b.mc) THEN {} ELSE {1}} \cup
  (IF Len(a.ch) # Len(b.ch) \/ Len(a.mc) # Len(b.mc) THEN {}
   ELSE {"keyed" : q \in IF \A ci \in DOMAIN a.ch : a.ch[ci].k = b.ch[ci].k THEN {} ELSE {1}} \cup
        {"users" : q \in IF \A ci \in DOMAIN a.ch : Len(a.ch[ci].u) = Len(b.ch[ci].u) /\
                               \A j \in DOMAIN a.ch[ci].u : UserSame(a.ch[ci].u[j], b.ch[ci].u[j]) THEN {} ELSE {1}} \cup
        {"time" : q \in IF \A ci \in DOMAIN a.ch : Abs(a.ch[ci].koff - b.ch[ci].koff) <= tol /\
                              (Len(a.ch[ci].u) = Len(b.ch[ci].u) => \A j \in DOMAIN a.ch[ci].u : UserTime(a.ch[ci].u[j], b.ch[ci].u[j], tol)) THEN {} ELSE {1}} \cup
        {"ctl" : q \in IF \A mi \in DOMAIN a.mc : CtlSame(a.mc[mi], b.mc[mi]) THEN {} ELSE {1}} \cup
        {"notes" : q \in IF \A mi \in DOMAIN a.mc : Len(a.mc[mi].notes) = Len(b.mc[mi].notes) /\
                               \A i \in DOMAIN a.mc[mi].notes : NoteSame(a.mc[mi].notes[i], b.mc[mi].notes[i]) THEN {} ELSE {1}})

Init0(chans, nc, lim, bl, rate, arp, alloc, dev) ==
  [nc |-> nc, lim |-> lim, rate |-> rate, mode |-> ModeXG, master |-> 127, dev |-> dev, alloc |-> alloc, arp |-> arp, arpc |-> 0,
   ch |-> [i \in 1..nc |-> ChipChan0], mc |-> [i \in 1..Len(chans) |-> MidiChan0(chans[i])], bl |-> bl]
=============================================================================
