------------------------------ MODULE IsolationMC ------------------------------
(* Leg A of C14: exhaustive exploration of spec/Isolation.tla for N instances over every audio core.
   Each operation is one API call of one instance (the records are the harness commands of
   harness/drive_isolation.cpp with 1-based instance index); a behaviour is an interleaving of the
   instances' call histories.  bad1 / bad2 collect the violated labels of P1 / P2.
   The check (lib/checks_isolation.py) runs this module
     - as the code is (all Fix* FALSE): TLC reports the counterexamples (F12: Create(A,nuked3438);
       Create(B,nuked2612); Gen(A)), CEX lines give every first violation within the scope; they are
       replayed on the real library;
     - with the repairs switched on: NoBad holds on the whole reachable state space;
     - in simulation mode (Emit): BEHAVIOUR lines = interleavings to replay on the real library.
   PanOps adds the calls that touch an instance's own settings / controllers (soft panning on and off, pan controller to
   the left, to the right and back to the centre, volume controller, another volume model): with them P1 also says that the
   panning decision of a call (eff.pan) is the one of the solo run.  The operation table is the same with and without them. *)
EXTENDS Isolation, Json
CONSTANTS N, MaxDepth, EmitDepth, PruneBad, PanOps
VARIABLES S, bad1, bad2, hist
vars == <<S, bad1, bad2, hist>>
View == <<S.inst, S.g, S.solo, S.acc, bad1, bad2>>

EmuSeq == <<0, 1, 2, 3, 4, 5, 6, 8>>
SwitchSeq == <<1, 8, 4>>
OpsOf(i) == [k \in 1..Len(EmuSeq) |-> [e |-> "Create", i |-> i, emu |-> EmuSeq[k], rate |-> 44100, chips |-> 1]] \o
            << [e |-> "Gen", i |-> i, fr |-> 384],
               [e |-> "Pcm", i |-> i, v |-> 1],
               [e |-> "Lfo", i |-> i, v |-> 1] >> \o
            [k \in 1..Len(SwitchSeq) |-> [e |-> "Switch", i |-> i, emu |-> SwitchSeq[k]]] \o
            << [e |-> "Reset", i |-> i], [e |-> "Close", i |-> i] >> \o
            << [e |-> "Set", i |-> i, s |-> "softpan", v |-> 1], [e |-> "Set", i |-> i, s |-> "softpan", v |-> 0],
               [e |-> "Ctl", i |-> i, ch |-> 0, c |-> 10, v |-> 20], [e |-> "Ctl", i |-> i, ch |-> 0, c |-> 10, v |-> 105],
               [e |-> "Ctl", i |-> i, ch |-> 0, c |-> 10, v |-> 64], [e |-> "Ctl", i |-> i, ch |-> 0, c |-> 7, v |-> 70],
               [e |-> "Set", i |-> i, s |-> "vmodel", v |-> 3] >>
PanEvents == {"Set", "Ctl"}
RECURSIVE OpsUpTo(_)
OpsUpTo(n) == IF n = 0 THEN <<>> ELSE OpsUpTo(n - 1) \o OpsOf(n)
Ops == OpsUpTo(N)
ASSUME PrintT(<<"OPS", ToJson(Ops)>>)

Init == S = S0(N) /\ bad1 = {} /\ bad2 = {} /\ hist = <<>>
Next == \E k \in DOMAIN Ops :
  /\ PruneBad => bad1 = {}            \* CEX enumeration: a state with a P1 violation is not extended
  /\ PanOps \/ Ops[k].e \notin PanEvents
  /\ Enabled(S, Ops[k])
  /\ S' = Step(S, Ops[k])
  /\ bad1' = bad1 \cup P1(S')
  /\ bad2' = bad2 \cup P2(S')
  /\ hist' = Append(hist, k)
Spec == Init /\ [][Next]_vars

NoBadP1 == bad1 = {}
NoBadP2 == bad2 = {}
NoBad == NoBadP1 /\ NoBadP2
DepthBound == TLCGet("level") < MaxDepth
\* every transition on which a new P1 label appears (also transitions into states already seen)
CexEmit == (bad1' # bad1) => PrintT(<<"CEX", ToJson([h |-> hist', b1 |-> bad1' \ bad1, b2 |-> bad2'])>>)
Emit == (Len(hist) = EmitDepth) => PrintT(<<"BEHAVIOUR", ToJson(hist)>>)
=============================================================================
