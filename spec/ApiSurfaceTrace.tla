--------------------------- MODULE ApiSurfaceTrace ---------------------------
(* C03 legs B and C: validation of executions of the real library recorded by harness/drive_api.cpp.
   Every record is one API call with its return value and, if the child process died inside the call,
   the crash observation {cls, sig, what, fn, file, line, top} (fn = the library frame directly below the exported function).  The abstract state S of spec/ApiSurface.tla is
   carried along the execution (driven by the recorded return values).

   Leg B (property monitors, evaluated on every executed call; failures are accumulated in `fails`):
     <kind>@<site> <class>   the call crashed / was aborted / threw / blew the allocator / hung.  If the as-written model
                             predicts a hazard for this call in this state and the observed class of the report is
                             compatible with it, the label is the model's defect class (e.g. "crash@realTime_NoteOn
                             channel=16", "alloc@setNumChips -1", "overflow@dmx-volume cc7=255"); otherwise it is
                             generic: "<kind>@<library call site> <innermost library function>" (a defect the model does not contain).
                             A memory report while young drum notes that the last re-creation of the chips had to drop would
                             sit beyond the chip channels (StaleSurvivor) is labelled "uaf@reset keeps a young drum note ...".
     hang@<call>             killed by the CPU-time limit Tmo(S, ev) = 2 s + cost allowance computed by the model
     retval@<call> <class>   a call documented to fail returned something else than its documented error value
     overflow@buffer <call>  a fence of an exactly sized argument buffer was overwritten (non-ASan builds)
     alloc@rss <call>        resident set above the cap after the call
     overflow@describeChannels unterminated
   Leg C (refinement, recorded in `drift`, never a verdict): the recorded call is a step of the model with the guards as written
   (state S) or of the model with the repaired guards (state SR, RM!...): the return value equals Ret of one of them and a hazard
   the as-written model is sure about materialises unless the repaired model explains its absence; bank iteration count; time
   allowance smaller than the model's.  cnt.asis / cnt.fixed count the calls explained by either model. *)
EXTENDS ApiSurface, Json, IOUtils
T == ndJsonDeserialize(IOEnv.TRACE)
MaxFails == 300
MaxDrift == 40
RM == INSTANCE ApiSurface WITH Repaired <- TRUE          \* the repaired design, carried along in SR
VARIABLES l, S, SR, fails, cnt, drift, exec
vars == <<l, S, SR, fails, cnt, drift, exec>>

BaseKeys == {"recs", "execs", "calls", "crashes", "skipped", "docfail", "docfail2", "retpred", "drifted", "refined", "hazard_calls",
             "hazard_sure", "hazard_confirmed", "hazard_unconfirmed", "nulldev", "buffers", "hangchk", "asis", "fixed"}
FnKey(f) == "fn_" \o f
CntKeys == BaseKeys \cup { FnKey(Fns[i]) : i \in DOMAIN Fns } \cup {FnKey("Init")}
Cnt0 == [k \in CntKeys |-> 0]
Init == l = 1 /\ S = Dead /\ SR = Dead /\ fails = << >> /\ cnt = Cnt0 /\ drift = << >> /\ exec = 0

B2N(c) == IF c THEN 1 ELSE 0
Args(ev) == [k \in DOMAIN ev \ {"e", "bytes", "ms", "crash", "tmo"} |-> ev[k]]
Tag(ws, ev, d) == { [p |-> "C03", w |-> x, l |-> l, x |-> exec, e |-> ev.e, d |-> d] : x \in ws }
AddFails(F) == IF Len(fails) >= MaxFails \/ F = {} THEN fails ELSE fails \o SetToSeq(F)
AddDrift(ds, ev) == IF ds = {} \/ Len(drift) >= MaxDrift THEN drift
                    ELSE Append(drift, [l |-> l, x |-> exec, e |-> ev.e, d |-> ToString(<<ds, Args(ev)>>)])

(* ---------------------------------------------------------------- crash labels *)
Compatible(kind, cls) ==
  CASE kind = "crash"    -> cls \in {"overflow", "segv", "uaf", "asan", "ub"}
    [] kind = "overflow" -> cls \in {"overflow", "segv", "ub"}
    [] kind = "uaf"      -> cls \in {"uaf", "overflow", "segv"}
    [] kind = "abort"    -> cls \in {"abort"}
    [] kind = "alloc"    -> cls \in {"alloc", "throw", "abort", "segv", "killed"}
    [] OTHER -> FALSE
GenKind(cls) == CASE cls = "overflow" -> "overflow" [] cls = "uaf" -> "uaf" [] cls = "alloc" -> "alloc" [] cls = "abort" -> "abort"
                  [] cls = "throw" -> "throw" [] cls = "hang" -> "hang" [] cls = "ub" -> "ub" [] OTHER -> "crash"
CrashLabel(St, ev) ==
  LET cr == ev.crash
      hz == Hazards(St, ev)
      js == { j \in DOMAIN hz : Compatible(hz[j].k, cr.cls) }
      at == IF Has(ev, "atclose") THEN " (in the final opn2_close)" ELSE ""
  IN IF cr.cls = "hang" THEN "hang@" \o ev.e \o at
     ELSE IF js # {} /\ ~Has(ev, "atclose") THEN hz[CHOOSE j \in js : \A i \in js : j <= i].w
     ELSE IF StaleSurvivor(St) /\ Compatible("uaf", cr.cls) THEN SurvivorLabel \o at
     ELSE GenKind(cr.cls) \o "@" \o (IF cr.fn # "" THEN cr.fn \o " " \o cr.topfn ELSE ev.e \o " ?") \o at
CrashDetail(ev) == ToString([cls |-> ev.crash.cls, sig |-> ev.crash.sig, what |-> ev.crash.what, site |-> ev.crash.fn, file |-> ev.crash.file,
                             line |-> ev.crash.line, top |-> ev.crash.top, args |-> Args(ev)])

\* class of the arguments of a call documented to fail
FailClass(St, ev) ==
  IF NullDev(St, ev) THEN "NULL-device"
  ELSE CASE ev.e = "setNumChips" -> IntTok(ev.n)
         [] ev.e \in {"switchEmulator", "setDeviceIdentifier"} -> IntTok(ev.v)
         [] ev.e = "getBank" -> IF BankIdOk(ev) THEN "absent" ELSE "bad-id"
         [] ev.e \in {"openBankData", "openBankFile", "openData", "openFile"} -> ev.a
         [] ev.e = "setTrackOptions" -> "track=" \o IntTok(ev.i)
         [] ev.e = "setChannelEnabled" -> IntTok(ev.i)
         [] ev.e = "rt_systemExclusive" -> ev.x
         [] OTHER -> ""

(* ---------------------------------------------------------------- one record *)
StepCall(ev) ==
  LET crashed == Has(ev, "crash")
      hz == Hazards(S, ev)
      anySure == \E j \in DOMAIN hz : hz[j].sure
      allow == IF Has(ev, "tmo") THEN ev.tmo ELSE 2
      tmo == Max(Tmo(S, ev), RM!Tmo(SR, ev))
      hangOk == crashed /\ ev.crash.cls = "hang" /\ allow < tmo                 \* the harness was given less time than the model allows
      fCrash == IF crashed /\ ~hangOk THEN {CrashLabel(S, ev)} ELSE {}
      dk == DocFail(S, ev)
      fDoc == IF ~crashed /\ dk # "none" /\ Has(ev, "r") /\ ~DocHolds(dk, ev.r) THEN {"retval@" \o ev.e \o " " \o FailClass(S, ev)} ELSE {}
      dk2 == DocFail2(S, ev)
      fDoc2 == IF ~crashed /\ dk2 # "none" /\ ~DocHolds(dk2, ev.r2) THEN {"retval@" \o ev.then \o " index=" \o IntTok(ev.idx)} ELSE {}
      fBuf == IF Has(ev, "guard") THEN {"overflow@buffer " \o ev.e} ELSE {}
      fRss == IF Has(ev, "rssmb") THEN {"alloc@rss " \o ev.e} ELSE {}
      fStr == IF ev.e = "describeChannels" /\ Has(ev, "rs") /\ ev.rs < 0 THEN {"overflow@describeChannels unterminated"} ELSE {}
      f == fCrash \cup fDoc \cup fDoc2 \cup fBuf \cup fRss \cup fStr
      pr == Ret(S, ev)
      prR == RM!Ret(SR, ev)
      pr2 == IF ev.e = "getBank" /\ Has(ev, "r2") THEN Ret2(S, ev) ELSE NoPred
      hzR == RM!Hazards(SR, ev)
      \* the call as a step of the as-written model / of the repaired model
      okA == ~crashed /\ (Has(ev, "r") /\ pr # NoPred => ev.r = pr) /\ ~anySure
      okR == ~crashed /\ (Has(ev, "r") /\ prR # NoPred => ev.r = prR) /\ hzR = << >>
      okC == crashed /\ hz # << >>                                   \* a crash where the as-written model has a hazard
      dRet == IF ~crashed /\ ~okA /\ ~okR /\ Has(ev, "r") /\ pr # NoPred /\ ev.r # pr THEN {<<"ret", pr, prR>>} ELSE {}
      dRet2 == IF ~crashed /\ pr2 # NoPred /\ ev.r2 # pr2 THEN {<<"ret2", pr2>>} ELSE {}
      dHz == IF ~crashed /\ anySure /\ ~okR THEN {<<"sure hazard did not materialise", hz[1].w>>} ELSE {}
      dIt == IF ~crashed /\ ev.e = "iterBanks" /\ ~NullDev(S, ev) /\ ev.cnt # Min(Cardinality(S.banks), ev.max) THEN {<<"banks", Cardinality(S.banks)>>} ELSE {}
      dTmo == IF hangOk THEN {<<"allowance below the model's", tmo>>} ELSE {}
      d == dRet \cup dRet2 \cup dHz \cup dIt \cup dTmo
      isBuf == ev.e \in {"play", "playFormat", "generate", "generateFormat", "rt_systemExclusive", "describeChannels", "openBankData", "openData"}
      fk == FnKey(ev.e)
  IN /\ S' = IF crashed THEN S ELSE Step(S, ev)
     /\ SR' = IF crashed THEN SR ELSE RM!Step(SR, ev)
     /\ fails' = AddFails(Tag(f, ev, IF crashed THEN CrashDetail(ev) ELSE ToString(Args(ev))))
     /\ drift' = AddDrift(d, ev)
     /\ exec' = exec
     /\ cnt' = [cnt EXCEPT !.recs = @ + 1, !.calls = @ + 1, !.crashes = @ + B2N(crashed),
                  !.docfail = @ + B2N(~crashed /\ dk # "none" /\ Has(ev, "r")), !.docfail2 = @ + B2N(~crashed /\ dk2 # "none"),
                  !.retpred = @ + B2N(~crashed /\ pr # NoPred /\ Has(ev, "r")) + B2N(~crashed /\ pr2 # NoPred),
                  !.refined = @ + 1, !.drifted = @ + B2N(d # {}),
                  !.hazard_calls = @ + B2N(hz # << >>), !.hazard_sure = @ + B2N(anySure),
                  !.hazard_confirmed = @ + B2N(hz # << >> /\ crashed), !.hazard_unconfirmed = @ + B2N(anySure /\ ~crashed),
                  !.nulldev = @ + B2N(NullDev(S, ev)), !.buffers = @ + B2N(isBuf /\ ~crashed), !.hangchk = @ + B2N(tmo > 2),
                  !.asis = @ + B2N(okA \/ okC), !.fixed = @ + B2N(okR),
                  ![IF fk \in CntKeys THEN fk ELSE "recs"] = @ + B2N(fk \in CntKeys)]

Next ==
  \/ /\ l <= Len(T) /\ l' = l + 1
     /\ LET ev == T[l] IN
        CASE ev.e = "end" -> UNCHANGED <<S, SR, fails, cnt, drift, exec>>
          [] Has(ev, "skip") -> /\ cnt' = [cnt EXCEPT !.recs = @ + 1, !.skipped = @ + 1] /\ UNCHANGED <<S, SR, fails, drift, exec>>
          [] ev.e = "Init" /\ ~Has(ev, "crash") -> /\ exec' = exec + 1 /\ S' = New(ev.rate) /\ SR' = New(ev.rate)
                                                   /\ fails' = AddFails(Tag(IF ev.r = 1 THEN {} ELSE {"retval@init"}, ev, ""))
                                                   /\ cnt' = [cnt EXCEPT !.recs = @ + 1, !.execs = @ + 1, !.calls = @ + 1, !.fn_Init = @ + 1]
                                                   /\ UNCHANGED drift
          [] ev.e = "Init" -> /\ exec' = exec + 1 /\ S' = Dead /\ SR' = Dead
                              /\ fails' = AddFails(Tag({CrashLabel(Dead, ev)}, ev, CrashDetail(ev)))
                              /\ cnt' = [cnt EXCEPT !.recs = @ + 1, !.execs = @ + 1, !.calls = @ + 1, !.crashes = @ + 1]
                              /\ UNCHANGED drift
          [] OTHER -> StepCall(ev)
  \/ /\ l = Len(T) + 1 /\ l' = l + 1
     /\ PrintT(<<"RESULT", ToJson([n |-> Len(T), fails |-> fails, cnt |-> cnt, drift |-> drift])>>)
     /\ UNCHANGED <<S, SR, fails, cnt, drift, exec>>
Spec == Init /\ [][Next]_vars
=============================================================================
