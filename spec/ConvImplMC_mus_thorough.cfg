SPECIFICATION MCSpec
CONSTANTS
  Fmt = "mus"
  MaxLen = 3
  MaxLen2 = 3
  Tempi = {0}
INVARIANT NoBad
CHECK_DEADLOCK FALSE
