------------------------------- MODULE WopnMC -------------------------------
(* Leg (A) for C15: exhaustive exploration of the serialisation model over every bank value
   reachable by at most MaxDepth field mutations (field extremes, name shapes, blank x delays,
   bank counts 1..2) of a bank file with NINS instruments per bank.  For every reached value and
   both format versions the invariant evaluates, on the model of spec/Wopn.tla:
     - every destination size 0..calculated size: bytes written <= size, too small => error,
       calculated size => success                                        (labels overrun/refuse/save-fails/size)
     - decode(encode(V)) = the documented survival of V                   (RtBankLabels)
     - for byte strings derived from encode(V) (zero bank counts, unterminated names, version
       field 0/1/3, flag byte, trailing bytes): every truncation gives a defined result without
       reading beyond the given length, and for accepted strings save-then-load of the loaded
       value is the identity                                              (IdBankLabels)
   The two value classes the version-2 format cannot represent and the two loader oddities are
   collected under `Limits` (they are reported from real executions, not from here). *)
EXTENDS Wopn, Json
CONSTANTS MaxDepth, EmitDepth
VARIABLES V, hist
vars == <<V, hist>>
View == V

Fill(n, x) == [i \in 1..n |-> x]
Lbl0(c, s) == IF c THEN {} ELSE {s}
Blank0 == BlankIns
Sounding == << <<>>, 0, 0, 0, 0, 0, 0, <<>>, 1, 1 >>
Extreme == << Fill(31, 120), -1, 0, 255, 0, 255, 255, Fill(28, 255), 65535, 65535 >>
V0 == [ver |-> 2, nm |-> 1, np |-> 1, lfo |-> 0, chip |-> 0, vm |-> 0, banks |-> << << <<>>, 0, 0 >>, << <<>>, 0, 0 >> >>,
       dflt |-> Blank0, ins |-> <<>>]

\* update instrument (s, b, i) with the function F (applied to its current value)
Upd(W, s, b, i, F(_)) ==
  LET ks == { k \in DOMAIN W.ins : W.ins[k][1] = s /\ W.ins[k][2] = b /\ W.ins[k][3] = i } IN
  IF ks = {} THEN [W EXCEPT !.ins = Append(@, << s, b, i, F(W.dflt) >>)]
  ELSE [W EXCEPT !.ins[SetMin(ks)] = << s, b, i, F(W.ins[SetMin(ks)][4]) >>]
SetF(I, k, x) == [I EXCEPT ![k] = x]
UpdX(W, k, x) == Upd(W, 0, 0, 0, LAMBDA I : SetF(I, k, x))
NOps == 26
Apply(W, op) ==
  CASE op = 1 -> IF W.nm = 1 THEN [W EXCEPT !.nm = 2, !.banks = << @[1], << <<>>, 0, 0 >> >> \o SubSeq(@, 2, Len(@))] ELSE W
    [] op = 2 -> IF W.np = 1 THEN [W EXCEPT !.np = 2, !.banks = Append(@, << <<>>, 0, 0 >>)] ELSE W
    [] op = 3 -> [W EXCEPT !.banks[1][1] = Fill(32, 78)]
    [] op = 4 -> [W EXCEPT !.banks[1][1] = <<65, 0, 66>>]
    [] op = 5 -> [W EXCEPT !.banks[W.nm + 1][2] = 255, !.banks[W.nm + 1][3] = 255]
    [] op = 6 -> [W EXCEPT !.lfo = 15]
    [] op = 7 -> [W EXCEPT !.chip = 1]
    [] op = 8 -> UpdX(W, 1, Fill(31, 120))
    [] op = 9 -> UpdX(W, 1, Fill(32, 121))
    [] op = 10 -> UpdX(W, 1, <<65, 0, 66>>)
    [] op = 11 -> UpdX(W, 2, -32768)
    [] op = 12 -> UpdX(W, 2, 32767)
    [] op = 13 -> UpdX(W, 4, 255)
    [] op = 14 -> UpdX(W, 6, 255)
    [] op = 15 -> UpdX(W, 7, 255)
    [] op = 16 -> UpdX(W, 8, Fill(28, 255))
    [] op = 17 -> UpdX(W, 5, 2)
    [] op = 18 -> UpdX(W, 5, 0)
    [] op = 19 -> UpdX(W, 9, 65535)
    [] op = 20 -> UpdX(W, 9, 0)
    [] op = 21 -> UpdX(W, 10, 1)
    [] op = 22 -> UpdX(W, 10, 0)
    [] op = 23 -> Upd(W, 1, W.np - 1, NINS - 1, LAMBDA I : Extreme)
    [] op = 24 -> Upd(W, 1, W.np - 1, NINS - 1, LAMBDA I : Blank0)
    [] op = 25 -> [W EXCEPT !.dflt = Sounding]
    [] op = 26 -> [W EXCEPT !.dflt = Blank0]
    [] OTHER -> W

---------------------------------------------------------------------------
Limits == {"rt-blank-delay", "rt-zero-delay", "id-version0", "id-v1-blank-flag"}

SaveLabels(W, ver) ==
  LET enc == EncLen(W.nm, W.np, ver)  calc == CalcSize(W.nm, W.np, ver)
      blocks == SaveBlocks(W.nm, W.np, Eff(ver)) IN
  Lbl0(calc >= enc, "size")
  \cup UNION { LET w == Walk(blocks, n, 0) IN          \* = SaveWalk(W.nm, W.np, ver, n)
               Lbl0(w.hw <= n, "overrun") \cup Lbl0(n < enc => w.r # 0, "refuse") \cup Lbl0(n >= calc => w.r = 0, "save-fails")
               \cup Lbl0(w.r = 0 => w.hw = enc, "written") : n \in 0..calc }
RtLabels(W, ver) ==
  LET b == EncodeBank(W, ver)
      calc == CalcSize(W.nm, W.np, ver)
      d == DecodeBank(b \o Fill(calc - Len(b), 165), calc) IN
  Lbl0(Len(b) = EncLen(W.nm, W.np, ver), "enclen")
  \cup (IF d.r # 0 THEN {"load-fails"} ELSE RtBankLabels(W, ver, d.v))

\* byte strings derived from an encoding: k = 1..NPatch
NPatch == 9
Patched(b, ver, k) ==
  LET h == IF ver > 1 THEN 13 ELSE 11                 \* offset of the counts
      m0 == h + 5 IN                                   \* start of the bank meta-data (version 2)
  CASE k = 1 -> [b EXCEPT ![h + 1] = 0, ![h + 2] = 0]                                     \* zero melodic count
    [] k = 2 -> [b EXCEPT ![h + 3] = 0, ![h + 4] = 0]                                     \* zero percussion count
    [] k = 3 -> [b EXCEPT ![h + 1] = 0, ![h + 2] = 0, ![h + 3] = 0, ![h + 4] = 0]
    [] k = 4 -> [i \in DOMAIN b |-> IF i > Len(b) - InsSize(ver, TRUE) /\ i <= Len(b) - InsSize(ver, TRUE) + 32 THEN 90 ELSE b[i]]   \* last instrument: unterminated name
    [] k = 5 -> IF ver > 1 THEN [i \in DOMAIN b |-> IF i > m0 /\ i <= m0 + 32 THEN 91 ELSE b[i]] ELSE b      \* first bank: unterminated name
    [] k = 6 -> IF ver > 1 THEN [b EXCEPT ![12] = 0] ELSE b                                \* version field 0 under the version-2 magic
    [] k = 7 -> IF ver > 1 THEN [b EXCEPT ![12] = 1] ELSE b                                \* version field 1 under the version-2 magic
    [] k = 8 -> IF ver > 1 THEN [b EXCEPT ![12] = 3] ELSE [b EXCEPT ![8] = 66]             \* newer version / bad magic
    [] k = 9 -> [b EXCEPT ![h + 5] = 255] \o <<1, 2, 3>>                                    \* all flag bits, trailing bytes
    [] OTHER -> b
IdLabels(W, ver) ==
  LET b0 == EncodeBank(W, ver) IN
  UNION { LET b == Patched(b0, ver, k)
              \* truncations (all lengths up to 40 and every block boundary -1/0/+1): a defined result computed from bytes inside the given length only
              \* (an access beyond SubSeq(b, 1, n) is a TLC evaluation error)
              full == LoadWalk(b, Len(b))
              bnd == IF full.r = 0 THEN { full.meta0, full.ins0, full.ins0 + full.isz * NINS * full.cm,
                                          full.ins0 + full.isz * NINS * (full.cm + full.cp) } ELSE {}
              lens == (0..40) \cup { x + dx : x \in bnd \cup {Len(b)}, dx \in {-1, 0, 1} }
              walks == { LoadWalk(SubSeq(b, 1, Min(n, 18)), n).r : n \in { x \in lens : x >= 0 /\ x <= Len(b) } }
              d1 == DecodeBank(b, Len(b))
          IN Lbl0(walks \subseteq 0..6, "defined-result")
             \cup (IF d1.r # 0 THEN {}
                   ELSE LET v1 == d1.v
                            calc == CalcSize(v1.nm, v1.np, v1.ver)
                            b2 == EncodeBank(v1, v1.ver)
                            d2 == DecodeBank(b2 \o Fill(calc - Len(b2), 165), calc)
                        IN Lbl0(SaveWalk(v1.nm, v1.np, v1.ver, calc).r = 0, "save-fails")
                           \cup (IF d2.r # 0 THEN {"load-fails"} ELSE IdBankLabels(v1, d2.v)))
        : k \in 1..NPatch }
Labels(W) == UNION { SaveLabels(W, ver) \cup RtLabels(W, ver) \cup IdLabels(W, ver) : ver \in {1, 2} }

Init == V = V0 /\ hist = <<>>
Next == \E op \in 1..NOps : V' = Apply(V, op) /\ hist' = Append(hist, op)
Spec == Init /\ [][Next]_vars
NoBad == Labels(V) \subseteq Limits
\* violated on purpose (shows that the model reaches the four limit classes)
LimitsUnreached == Labels(V) \cap Limits = {}
NoBadSave == \A ver \in {1, 2} : SaveLabels(V, ver) = {}
NoBadRt == \A ver \in {1, 2} : RtLabels(V, ver) \subseteq Limits
NoBadId == \A ver \in {1, 2} : IdLabels(V, ver) \subseteq Limits
DepthBound == TLCGet("level") < MaxDepth
Emit == (Len(hist) = EmitDepth) => PrintT(<<"BEHAVIOUR", ToJson(hist)>>)
=============================================================================
