----------------------------- MODULE ChipFrontMC -----------------------------
(* Leg (A) of C20: small-scope exhaustive instances of the machines of ChipFront.tla.  `Part` selects one:

   "ring"       the YMFM register ring (capacity Cap, NR registers, at most MaxW writes, Fix = repaired
                enqueue).  Invariants  P1          every requested write is applied exactly once, in order
                                       ClosedForm  the closed forms RingLost / RingApplied used at real
                                                   scale describe the as-is machine exactly
   "nuked"      the Nuked delay queue (capacity Cap, D cycles per write): P1 and the latency closed form
   "resampler"  P2 for EVERY integer rate RateLo..RateHi and both families (initial states), and the
                phase machine walked NF frames for the matrix rates against its closed form
   "lifecycle"  the observation automaton against an abstract core with onset latency L, release tail Rl,
                possibly losing the note or never going silent: no verdict on a conforming core, a verdict
                on a non-conforming one
   "shapes"     every burst template is well formed; what the write-path model predicts for it
   "matrix"     the configuration matrix; rows Offset, Offset+Stride, ... are printed as BEHAVIOUR lines
                (events of the burst, the model's prediction) and replayed on the real library
   "hunt"       the model searches the burst shapes for the ones it predicts to go wrong on the queueing
                cores (YMFM ring, Nuked delay queue); they are printed and replayed likewise
   Fix / FixN = the tree under test has the ring / the Nuked queue repaired (predictions of the two last parts) *)
EXTENDS ChipFront, Json
CONSTANTS Part, Cap, NR, MaxW, Fix, FixN, RateLo, RateHi, NF, Stride, Offset
VARIABLES S, bad
vars == <<S, bad>>

Lbl(c, s) == IF c THEN {} ELSE {s}

(* ------------------------------------------------------------------ "ring" *)
RingS0 == [R |-> RingInit(Cap), nreq |-> 0, app |-> <<>>, chipR |-> [r \in 1..NR |-> 0], chipD |-> [r \in 1..NR |-> 0],
           seg |-> <<>>, chip0 |-> [r \in 1..NR |-> 0], drain |-> <<>>, ticked |-> FALSE, mixed |-> FALSE, flushed |-> FALSE]
ApplyAll(chip, ws) == IF ws = <<>> THEN chip ELSE [chip EXCEPT ![ws[1].reg] = ws[1].id]
RingWrite(s, r) ==
  LET w == [id |-> s.nreq + 1, reg |-> r]
      e == RingEnq(s.R, Cap, w, Fix)
      fresh == s.R.count = 0
  IN [s EXCEPT !.R = e.r, !.nreq = s.nreq + 1,
               !.app = s.app \o [i \in 1..Len(e.out) |-> e.out[i].id],
               !.chipR = ApplyAll(s.chipR, e.out), !.chipD = [s.chipD EXCEPT ![r] = w.id],
               !.seg = IF fresh THEN <<w>> ELSE Append(s.seg, w),
               !.chip0 = IF fresh THEN s.chipR ELSE s.chip0,
               !.drain = <<>>,
               !.ticked = IF fresh THEN FALSE ELSE s.ticked,
               !.mixed = IF fresh THEN FALSE ELSE (s.mixed \/ s.ticked),
               !.flushed = IF fresh THEN FALSE ELSE (s.flushed \/ e.out # <<>>)]
RingTick(s) ==
  LET d == RingDeq(s.R, Cap) IN
  [s EXCEPT !.R = d.r, !.app = s.app \o [i \in 1..Len(d.out) |-> d.out[i].id], !.chipR = ApplyAll(s.chipR, d.out),
            !.drain = s.drain \o [i \in 1..Len(d.out) |-> d.out[i].id], !.ticked = TRUE]
RingNext == \/ \E r \in 1..NR : S.nreq < MaxW /\ S' = RingWrite(S, r)
            \/ S.R.count > 0 /\ S' = RingTick(S)
LastPos(seg, r) == IF \E i \in DOMAIN seg : seg[i].reg = r THEN CHOOSE i \in DOMAIN seg : seg[i].reg = r /\ \A j \in DOMAIN seg : seg[j].reg = r => j <= i ELSE 0
RingBad(s) ==
  Lbl(\A i \in DOMAIN s.app : s.app[i] = i, "P1-order")
  \cup Lbl(s.R.count = 0 => Len(s.app) = s.nreq, "P1-once")
  \cup (IF s.R.count = 0 /\ ~s.mixed /\ ~s.flushed /\ s.seg # <<>> /\ ~Fix
        THEN LET n == Len(s.seg) IN
             Lbl(\A r \in 1..NR : LET lp == LastPos(s.seg, r) IN
                   s.chipR[r] = IF lp = 0 \/ RingLost(lp, n, Cap) THEN s.chip0[r] ELSE s.seg[lp].id, "closed-form-lost")
             \cup Lbl(s.drain = [k \in 1..n |-> s.seg[RingApplied(k, n, Cap)].id], "closed-form-applied")
        ELSE {})

(* ------------------------------------------------------------------ "nuked"  (NR is the delay D here) *)
NukS0 == [buf |-> <<>>, lasttime |-> 0, now |-> 5, out |-> 0, nreq |-> 0, app |-> <<>>, reqOut |-> <<>>,
          first |-> 0, lat |-> <<>>]
NukWrite(s) ==
  LET full == Len(s.buf) = Cap
      hd == IF full THEN s.buf[1] ELSE [id |-> 0, time |-> 0]
      now1 == IF full THEN hd.time ELSE s.now                       \* chip time skipped, not rendered
      buf1 == IF full THEN Tail(s.buf) ELSE s.buf
      t1 == Max(s.lasttime + NR, now1)
      id == s.nreq + 1
      fresh == s.buf = <<>> /\ s.lasttime + NR <= s.now
  IN [s EXCEPT !.buf = Append(buf1, [id |-> id, time |-> t1]), !.lasttime = t1, !.now = now1, !.nreq = id,
               !.app = IF full THEN Append(s.app, hd.id) ELSE s.app,
               !.lat = IF full THEN Append(s.lat, s.out - s.reqOut[hd.id]) ELSE s.lat,
               !.reqOut = Append(s.reqOut, s.out),
               !.first = IF fresh THEN id ELSE s.first]
RECURSIVE NukDrain(_)
NukDrain(s) == IF s.buf # <<>> /\ s.buf[1].time <= s.now
               THEN NukDrain([s EXCEPT !.buf = Tail(s.buf), !.app = Append(s.app, s.buf[1].id),
                                       !.lat = Append(s.lat, s.out - s.reqOut[s.buf[1].id])])
               ELSE s
NukCycle(s) == LET d == NukDrain(s) IN [d EXCEPT !.now = d.now + 1, !.out = d.out + 1]
NukNext == \/ S.nreq < MaxW /\ S' = NukWrite(S)
           \/ S.out < 4 * MaxW * NR /\ (S.buf # <<>> \/ S.out < 3) /\ S' = NukCycle(S)
NukBad(s) ==
  Lbl(\A i \in DOMAIN s.app : s.app[i] = i, "P1-order")
  \cup Lbl(s.buf = <<>> => Len(s.app) = s.nreq, "P1-once")
  \cup (IF s.buf = <<>> /\ s.first > 0 /\ s.nreq >= s.first
        THEN LET n == s.nreq - s.first + 1 IN
             \* burst = writes first..nreq, entered without a rendered cycle in between?  only then the closed form applies
             IF \A i \in s.first..s.nreq : s.reqOut[i] = s.reqOut[s.first]
             THEN Lbl(\A i \in s.first..s.nreq : s.lat[i] = NukedLatencyCycles(i - s.first + 1, n, Cap, NR), "closed-form-latency")
             ELSE {}
        ELSE {})

(* ------------------------------------------------------------------ "resampler" *)
MatrixRates == {8000, 11025, 22050, 44100, 48000, 53267, 55466, 96000, 192000}
ResInit == \E rate \in RateLo..RateHi, fam \in {0, 1} :
             /\ S = [rate |-> rate, fam |-> fam, rr |-> RateRatio(rate, fam), s |-> 0, n |-> 0, ticks |-> 0]
             /\ bad = Lbl(P2PitchOK(rate, fam), "P2-pitch")
                      \cup Lbl(LET x == RR2(rate, fam) IN x.rem >= 0 /\ x.rem < Clock(fam), "rr-split")
ResNext == /\ S.rate \in MatrixRates /\ S.n < NF
           /\ LET f == ResFrame(S.s, S.rr)
                  c == ResRun(0, S.rr, S.n + 1)
              IN /\ S' = [S EXCEPT !.s = f.s, !.n = S.n + 1, !.ticks = S.ticks + f.ticks]
                 /\ bad' = bad \cup Lbl(S.n = 0 \/ P2TicksOK(f.ticks, S.rr), "P2-ticks")
                               \cup Lbl(c.ticks = S.ticks + f.ticks /\ c.s = f.s, "closed-form-run")

(* ------------------------------------------------------------------ "lifecycle"
   abstract core: commands take effect L windows later (a lost note-on never), after a key-off the sound lasts
   Rl more windows (a stuck core never stops).  One frame per window: t10 = 2, trel = 10. *)
T10w == 2
TRelw == 10
LcInit == \E L \in 0..4, Rl \in 0..12, lost \in BOOLEAN, stuck \in BOOLEAN :
            S = [L |-> L, Rl |-> Rl, lost |-> lost, stuck |-> stuck, q |-> <<>>, loud |-> FALSE, quietAt |-> -1,
                 now |-> 0, st |-> "Idle", H |-> {}, age |-> 0, verdicts |-> {}, cmds |-> 0,
                 clean |-> TRUE]           \* clean = the last command found the automaton in Idle or Sounding
LcCmd(s, what) ==
  LET Ha == IF what = "on" THEN {<<0, 60>>} ELSE {}
      st1 == LcCommand(s.st, s.H, Ha, what = "on")
  IN [s EXCEPT !.q = IF what = "on" /\ s.lost THEN s.q ELSE Append(s.q, <<what, s.now + s.L>>),
               !.st = st1, !.H = Ha, !.age = 0, !.cmds = s.cmds + 1,
               !.clean = s.st \in {"Idle", "Sounding"}]
RECURSIVE CoreApply(_)
CoreApply(s) == IF s.q # <<>> /\ s.q[1][2] <= s.now
                THEN CoreApply([s EXCEPT !.q = Tail(s.q),
                                         !.loud = IF s.q[1][1] = "on" THEN TRUE ELSE s.loud,
                                         !.quietAt = IF s.q[1][1] = "on" THEN -1 ELSE IF s.stuck THEN -1 ELSE s.now + s.Rl])
                ELSE s
LcWin(s) ==
  LET a == CoreApply(s)
      b == IF a.quietAt # -1 /\ a.now >= a.quietAt THEN [a EXCEPT !.loud = FALSE, !.quietAt = -1] ELSE a
      r == LcWindow(b.st, IF b.loud THEN "yes" ELSE "no", ~b.loud, b.age, T10w, TRelw)
  IN [b EXCEPT !.st = r.st, !.verdicts = b.verdicts \cup (IF r.v = "" THEN {} ELSE {r.v}), !.now = b.now + 1, !.age = b.age + 1]
LcNext == \/ S.cmds < 3 /\ S.H = {} /\ S' = LcCmd(S, "on")
          \/ S.cmds < 3 /\ S.H # {} /\ S' = LcCmd(S, "off")
          \/ S.now < 30 /\ S' = LcWin(S)
Conforming(s) == ~s.lost /\ ~s.stuck /\ s.L <= T10w /\ s.L + s.Rl <= TRelw
LcBad(s) ==
  \* soundness: a conforming core never gets a verdict
  Lbl(Conforming(s) => s.verdicts = {}, "false-alarm")
  \* completeness: a note-on in Idle followed by T10w + 1 windows, the note lost or late: reported
  \cup Lbl((s.cmds = 1 /\ s.H # {} /\ s.age > T10w /\ (s.lost \/ s.L > T10w)) => "no-sound" \in s.verdicts, "missed-no-sound")
  \* a release from Sounding followed by TRelw + 1 windows, the core still sounding: reported
  \cup Lbl((s.cmds = 2 /\ s.H = {} /\ s.clean /\ s.age > TRelw /\ s.loud) => "not-idle" \in s.verdicts, "missed-not-idle")

(* ------------------------------------------------------------------ "shapes" and "matrix" *)
EmuSeq   == <<0, 1, 2, 3, 4, 5, 6, 8>>
RateSeq  == <<8000, 11025, 22050, 44100, 48000, 53267, 55466, 96000, 192000>>
KeySeq   == <<24, 36, 48, 60, 72, 84, 96, 108>>
KindSeq  == <<"single", "chord", "b16A", "b64A", "b64B", "b64C", "b64D">>
EndSeq   == <<"off", "panic", "reset", "inburst">>
\* mixed-radix decoding of a row index; the fastest digits are the ones the cores differ in
Radix == <<8, 7, 9, 3, 2, 8, 3, 2, 4>>      \* emu kind rate pos pcm key chips fam end
MatrixSize == 8 * 7 * 9 * 3 * 2 * 8 * 3 * 2 * 4
RECURSIVE Digits(_, _)
Digits(x, i) == IF i > Len(Radix) THEN <<>> ELSE <<x % Radix[i]>> \o Digits(x \div Radix[i], i + 1)
Row(idx) == LET d == Digits(idx, 1) IN
  [emu |-> EmuSeq[d[1] + 1], kind |-> KindSeq[d[2] + 1], rate |-> RateSeq[d[3] + 1], pos |-> d[4] + 1, pcm |-> d[5],
   key |-> KeySeq[d[6] + 1], chips |-> d[7] + 1, fam |-> d[8], end |-> EndSeq[d[9] + 1]]
RowEvents(row) == OnEvents(row.kind, row.key, row.chips, row.pos)
\* one chip: exact.  More chips: the writes spread over several queues, which can only help: "ok" stays "ok"
RowPredict(row) == LET p == Predict(row.emu, RowEvents(row), row.key, Fix, FixN) IN IF row.chips = 1 \/ p = "ok" THEN p ELSE "unknown"
ShapeInit == \E emu \in {0, 1, 3}, ki \in DOMAIN KindSeq, pos \in 1..3, key \in SeqToSet(KeySeq), chips \in 1..3 :
  LET kind == KindSeq[ki]
      evs == OnEvents(kind, key, chips, pos)
      H == HeldAfter({}, evs)
      n == Len(evs)
  IN /\ S = [emu |-> emu, kind |-> kind, pos |-> pos, key |-> key, chips |-> chips, cost |-> BurstCost({}, evs), pred |-> Predict(emu, evs, key, FALSE, FALSE)]
     /\ bad = Lbl(<<0, key>> \in H, "target-held")
              \cup Lbl(\A i \in DOMAIN evs : evs[i][3] \in 0..127 /\ evs[i][2] \in 0..15 /\ evs[i][2] # 9, "event-range")
              \cup Lbl(CASE kind = "single" -> n = 1 /\ Cardinality(H) = 1
                         [] kind = "chord" -> n = ChordSize(chips) /\ Cardinality(H) = n
                         [] kind = "b16A" -> n = 16 /\ Cardinality(H) = 1
                         [] kind = "b64D" -> n = 64 /\ Cardinality(H) = DChord(pos)
                         [] OTHER -> n = 64 /\ Cardinality(H) = 1, "shape")
              \cup Lbl(HeldPeak({}, evs, 1, 0) <= 6 * chips, "polyphony")
              \cup Lbl(HeldAfter(H, OffsOf(H)) = {}, "offs")
              \* the bursts the ring model loses are exactly the ones with more than RingCap writes before the target's patch survives
              \cup Lbl((emu = 3 /\ Predict(emu, evs, key, FALSE, FALSE) = "lost") => BurstCost({}, evs) > RingCap, "lost-needs-overflow")
              \cup Lbl(Predict(emu, evs, key, TRUE, TRUE) = "ok", "repaired-predicts-ok")
MatInit == \E k \in 0..((MatrixSize - 1 - Offset) \div Stride) :
             /\ S = [idx |-> Offset + k * Stride] /\ bad = {}
\* "hunt": the model searches the shapes for bursts it predicts to go wrong on the queueing cores
HuntInit == \E ei \in {2, 4, 7, 8}, ki \in DOMAIN KindSeq, pos \in 1..3, chips \in 1..3, yi \in {2, 4, 7} :
              /\ S = [row |-> [emu |-> EmuSeq[ei], kind |-> KindSeq[ki], rate |-> RateSeq[((ki + pos + chips + yi) % 9) + 1], pos |-> pos, pcm |-> 0,
                               key |-> KeySeq[yi], chips |-> chips, fam |-> (ki + pos + ei) % 2, end |-> EndSeq[((ki + yi + chips) % 3) + 1]]]
              /\ bad = {}
RowJson(row, idx) ==
  LET evs == RowEvents(row)
      H == HeldAfter({}, evs)
  IN ToJson(row @@ [idx |-> idx, pred |-> RowPredict(row), evs |-> evs, offs |-> OffsOf(H),
                    coffs |-> IF row.kind = "chord" THEN ChordCompanionsOff(row.key, ChordSize(row.chips), row.pos) ELSE <<>>])

(* ------------------------------------------------------------------ dispatch *)
Init == CASE Part = "ring" -> S = RingS0 /\ bad = {}
          [] Part = "nuked" -> S = NukS0 /\ bad = {}
          [] Part = "resampler" -> ResInit
          [] Part = "lifecycle" -> LcInit /\ bad = {}
          [] Part = "shapes" -> ShapeInit
          [] Part = "hunt" -> HuntInit
          [] OTHER -> MatInit
Next == CASE Part = "ring" -> RingNext /\ bad' = bad \cup RingBad(S')
          [] Part = "nuked" -> NukNext /\ bad' = bad \cup NukBad(S')
          [] Part = "resampler" -> ResNext
          [] Part = "lifecycle" -> LcNext /\ bad' = bad \cup LcBad(S')
          [] OTHER -> FALSE
Spec == Init /\ [][Next]_vars
NoBad == bad = {}
\* the as-is ring violates P1 (finding F11); the closed forms must hold nevertheless
NoBadClosedForm == \A x \in bad : x \in {"P1-order", "P1-once"}
Emit == CASE Part = "matrix" -> PrintT(<<"BEHAVIOUR", RowJson(Row(S.idx), S.idx)>>)
          [] Part = "hunt" -> (Predict(S.row.emu, RowEvents(S.row), S.row.key, FALSE, FALSE) # "ok" => PrintT(<<"BEHAVIOUR", RowJson(S.row, -1)>>))
          [] OTHER -> TRUE
=============================================================================
