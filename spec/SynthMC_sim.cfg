SPECIFICATION Spec
CONSTANTS
  NC = 3
  MaxDepth = 100
  ArpOn = FALSE
  AllocMode = 3
  EmitDepth = 24
INVARIANT NoBad
CONSTRAINT Emit
CHECK_DEADLOCK FALSE
