------------------------------ MODULE AudioTrace ------------------------------
(* C13: validation of recorded audio calls (harness/drive_audio) against spec/Audio.tla.
   One record per command.  An audio record carries the request size n, the format list f (one
   format per instance; instance 1 renders F64 and is the source of the int32 mix x) and one
   observation per instance in v:
     r, ae     return value, opn2_atEnd after the call
     ch        changed bytes of the guard-fenced buffer as strided runs <<start, len, stride, count>>
               (positions relative to the allocation, the caller's memory starts at g), tr = list cut
     nch, un   number of changed bytes / of bytes inside the reported sample slots still holding poison
     p         <<frame, channel, x, lo, hi>>: stored container bits (hi * 65536 + lo) resp. the float
               sample in fixed point lo = round(out * 2^21); xb = slots whose reference sample is not finite
   Monitors (legs B): ret / refuse, same, signal, foot, count, slots, conv.  foot and count are byte-exact for every
   layout with disjoint slots, whatever the record stride and the alignment of the pointers: foot = every changed byte
   of the allocation (guards included) lies in a slot left / right + i * so + 0..c-1, i < r / 2; count = changed bytes +
   slot bytes still holding the poison = 2 * c * (r / 2), i.e. no changed byte outside and none missed by a cut run list.
   Leg C: the recorded return value and period sequence (tap records of instance 1) against GenCall of the model with the real period
   buffer (512 frames). *)
EXTENDS Audio, Json, IOUtils
T == ndJsonDeserialize(IOEnv.TRACE)
MaxFails == 40
VARIABLES l, sync, M, fails, cnt, drift, exec
vars == <<l, sync, M, fails, cnt, drift, exec>>
PReal == [cap |-> 512, D |-> 1, track |-> FALSE]
Cnt0 == [steps |-> 0, execs |-> 0, calls |-> 0, vcalls |-> 0, gen |-> 0, play |-> 0, api16 |-> 0,
         neg |-> 0, odd |-> 0, zero |-> 0, big |-> 0, refused |-> 0, ret |-> 0, play_short |-> 0, play_end0 |-> 0,
         foot |-> 0, foot_bytes |-> 0, foot_trunc |-> 0, count |-> 0, coincide |-> 0, slots_full |-> 0,
         conv |-> 0, conv_clip |-> 0, conv_int |-> 0, conv_float |-> 0, unsynced |-> 0,
         t0 |-> 0, t1 |-> 0, t2 |-> 0, t3 |-> 0, t4 |-> 0, t5 |-> 0, t6 |-> 0, t7 |-> 0, t8 |-> 0, t9 |-> 0,
         c1 |-> 0, c2 |-> 0, c4 |-> 0, c8 |-> 0, planar |-> 0, gapped |-> 0, ustride |-> 0, ustride1 |-> 0, uptr |-> 0,
         refined |-> 0, pf_exact |-> 0, pf_fuzzy |-> 0, drifted |-> 0]
Init == l = 1 /\ sync = <<>> /\ M = S0(<<>>) /\ fails = <<>> /\ cnt = Cnt0 /\ drift = <<>> /\ exec = 0

\* at most one failure per signature w and TLC run (a known defect must not crowd out other failures)
AddFails(S) ==
  LET fresh == { f \in S : \A i \in DOMAIN fails : fails[i].w # f.w }
      pick  == { (CHOOSE f \in fresh : f.w = w) : w \in { g.w : g \in fresh } }
  IN IF Len(fails) >= MaxFails \/ pick = {} THEN fails ELSE fails \o SetToSeq(pick)

FirstBad(s, Ok(_)) == LET i == FirstIdx(s, LAMBDA q : ~Ok(q)) IN IF i = 0 THEN <<>> ELSE s[i]

\* ---- monitors for instance k of an audio record
Var(ev, k) ==
  LET F   == ev.f[k]
      V   == ev.v[k]
      sup == Supported(F.t, F.c)
      E   == EvenReq(ev.n)
      nf  == IF V.r > 0 THEN V.r \div 2 ELSE 0
      syn == sync[k] /\ sup
      isf == IsFloat(F.t)
      tb  == IntTab(F.t)
      PairOK(q) == /\ q[1] < nf
                   /\ IF isf THEN q[5] = 0 /\ FloatOK(F.t, q[3], q[4])
                      ELSE <<q[5], q[4]>> = EncInt(DocIntT(tb, q[3]), F.c)
      RunOK(q)  == RunIn(q, ev.g, F, nf)
      full == syn /\ nf <= ev.fl /\ V.r = ev.v[1].r
      tc == "t=" \o ToString(F.t) \o " c=" \o ToString(F.c)
      ctx == " k=" \o ToString(k) \o " so=" \o ToString(F.so) \o " lb=" \o ToString(F.lb) \o " rb=" \o ToString(F.rb)
             \o " a=" \o ToString(F.a) \o " n=" \o ToString(ev.n) \o " r=" \o ToString(V.r)
      mk(c, w, d) == IF c THEN {} ELSE {[p |-> "C13", w |-> w, l |-> l, x |-> exec, e |-> ev.o, d |-> tc \o ctx \o d]}
      convok == \A i \in DOMAIN V.p : PairOK(V.p[i])
      footok == \A i \in DOMAIN V.ch : RunOK(V.ch[i])
      badp == IF convok THEN <<>> ELSE FirstBad(V.p, PairOK)
      badr == IF footok THEN <<>> ELSE FirstBad(V.ch, RunOK)
  IN [ f |-> mk(RetOK(ev.o, ev.n, F.t, F.c, V.r, V.ae = 1), IF sup THEN "ret " \o ev.o ELSE "refuse " \o tc, " ae=" \o ToString(V.ae))
             \cup mk(syn => V.r = ev.v[1].r, "same", " ref=" \o ToString(ev.v[1].r))
             \* the F64 rendering holds a finite sample in every slot it is asked for
             \cup mk(V.xb = 0, "signal", " slots without a reference sample=" \o ToString(V.xb))
             \cup mk(badr = <<>>, "foot", " run=" \o ToString(badr))
             \cup mk(V.nch + V.un = 2 * F.c * nf, "count", " nch=" \o ToString(V.nch) \o " un=" \o ToString(V.un))
             \cup mk(full => /\ Len(V.p) = 2 * nf
                             /\ \A i \in 1..nf : V.p[2 * i - 1][1] = i - 1 /\ V.p[2 * i - 1][2] = 0 /\ V.p[2 * i][1] = i - 1 /\ V.p[2 * i][2] = 1,
                     "slots", " pairs=" \o ToString(Len(V.p)))
             \cup mk(syn => badp = <<>>, "conv " \o tc, " pair=" \o ToString(badp)
                                         \o (IF badp # <<>> /\ sup /\ ~IsFloat(F.t) THEN " doc=" \o ToString(EncInt(DocInt(F.t, badp[3]), F.c)) ELSE "")),
       sync |-> sync[k] /\ (sup \/ E = 0) /\ V.r = ev.v[1].r,
       sup |-> sup, syn |-> syn, nf |-> nf, full |-> full,
       bytes |-> V.nch,
       clip |-> IF syn THEN Cardinality({ i \in DOMAIN V.p : V.p[i][3] > 32767 \/ V.p[i][3] < -32768 }) ELSE 0 ]

\* ---- leg C: the call on the model
NonZero(s) == SelectSeq(s, LAMBDA a : a # 0)
PSums(s) == { SumSeq(SubSeq(s, 1, i)) : i \in DOMAIN s }
\* double rounding in the code may move a period boundary by one frame or split a period
Fuzzy(a, b) == SumSeq(a) = SumSeq(b) /\ \A x \in PSums(a) : \E y \in PSums(b) : Abs(x - y) <= 1

StepInit(ev) ==
  /\ sync' = [k \in 1..ev.K |-> TRUE] /\ M' = S0(<<>>) /\ exec' = exec + 1 /\ fails' = fails
  \* a rejected emulator / song is a problem of the set-up, not a verdict on the property
  /\ drift' = IF (ev.emuok # 1 \/ ev.loadok # 1) /\ Len(drift) < 6
              THEN Append(drift, [l |-> l, x |-> exec + 1, e |-> ev.o, d |-> "emulator or song rejected"]) ELSE drift
  /\ cnt' = [cnt EXCEPT !.execs = @ + 1, !.steps = @ + 1, !.drifted = @ + (IF ev.emuok # 1 \/ ev.loadok # 1 THEN 1 ELSE 0)]
StepEvent(ev) ==
  /\ UNCHANGED <<sync, M, fails, drift, exec>> /\ cnt' = [cnt EXCEPT !.steps = @ + 1]
StepAudio(ev) ==
  LET K  == Len(ev.f)
      R  == [k \in 1..K |-> Var(ev, k)]
      F1 == ev.f[1]
      mr == IF ev.o = "gen" THEN GenCall(M, ev.n, F1, PReal) ELSE [s |-> M, r |-> ev.v[1].r, mem |-> {}, pf |-> <<>>]
      obs == NonZero(ev.pf)
      exact == mr.pf = obs
      fuzzy == Fuzzy(mr.pf, obs)
      dr == IF ev.o = "gen"
            THEN Lbl(mr.r = ev.v[1].r, "r") \cup Lbl(Len(ev.pf) >= 100 \/ exact \/ fuzzy, "periods")
            ELSE Lbl(SumSeq(ev.pf) * 2 = ev.v[1].r \/ Len(ev.pf) >= 100, "frames")
                 \cup Lbl(ev.v[1].r = EvenReq(ev.n) \/ ev.v[1].ae = 1, "short")
      dall == dr \cup Lbl(\A i \in DOMAIN ev.pf : ev.pf[i] <= 512, "period>512")
      sumk(g(_)) == SumSeq([k \in 1..K |-> g(k)])
      cntT(t) == sumk(LAMBDA k : IF R[k].syn /\ ev.f[k].t = t THEN Len(ev.v[k].p) ELSE 0)
      cntC(c) == sumk(LAMBDA k : IF R[k].syn /\ ev.f[k].c = c THEN Len(ev.v[k].p) ELSE 0)
      E == EvenReq(ev.n)
  IN /\ sync' = [k \in 1..K |-> R[k].sync]
     /\ M' = [mr.s EXCEPT !.g = 0]
     /\ exec' = exec
     /\ fails' = AddFails(UNION { R[k].f : k \in 1..K })
     /\ drift' = IF dall # {} /\ Len(drift) < 6 THEN Append(drift, [l |-> l, x |-> exec, e |-> ev.o, d |-> ToString(dall) \o " n=" \o ToString(ev.n) \o " pf=" \o ToString(ev.pf)]) ELSE drift
     /\ cnt' = [cnt EXCEPT !.steps = @ + 1, !.calls = @ + 1, !.vcalls = @ + K,
           !.gen = @ + (IF ev.o = "gen" THEN 1 ELSE 0), !.play = @ + (IF ev.o = "play" THEN 1 ELSE 0),
           !.api16 = @ + sumk(LAMBDA k : ev.f[k].a),
           !.neg = @ + (IF ev.n < 0 THEN 1 ELSE 0), !.odd = @ + (IF ev.n % 2 = 1 THEN 1 ELSE 0),
           !.zero = @ + (IF E = 0 THEN 1 ELSE 0), !.big = @ + (IF E > 2048 THEN 1 ELSE 0),
           !.refused = @ + sumk(LAMBDA k : IF ~R[k].sup /\ E > 0 THEN 1 ELSE 0),
           !.ret = @ + K,
           !.play_short = @ + (IF ev.o = "play" /\ ev.v[1].r < E /\ ev.v[1].r > 0 THEN 1 ELSE 0),
           !.play_end0 = @ + (IF ev.o = "play" /\ ev.v[1].r = 0 /\ E > 0 THEN 1 ELSE 0),
           !.foot = @ + sumk(LAMBDA k : IF ev.v[k].nch > 0 THEN 1 ELSE 0),
           !.foot_bytes = @ + sumk(LAMBDA k : R[k].bytes),
           !.foot_trunc = @ + sumk(LAMBDA k : ev.v[k].tr),
           !.count = @ + K,
           !.coincide = @ + sumk(LAMBDA k : ev.v[k].un),
           !.slots_full = @ + sumk(LAMBDA k : IF R[k].full /\ R[k].nf > 0 THEN 1 ELSE 0),
           !.conv = @ + sumk(LAMBDA k : IF R[k].syn THEN Len(ev.v[k].p) ELSE 0),
           !.conv_clip = @ + sumk(LAMBDA k : R[k].clip),
           !.conv_int = @ + sumk(LAMBDA k : IF R[k].syn /\ ~IsFloat(ev.f[k].t) THEN Len(ev.v[k].p) ELSE 0),
           !.conv_float = @ + sumk(LAMBDA k : IF R[k].syn /\ IsFloat(ev.f[k].t) THEN Len(ev.v[k].p) ELSE 0),
           !.unsynced = @ + sumk(LAMBDA k : IF R[k].sup /\ ~sync[k] THEN 1 ELSE 0),
           !.t0 = @ + cntT(0), !.t1 = @ + cntT(1), !.t2 = @ + cntT(2), !.t3 = @ + cntT(3), !.t4 = @ + cntT(4),
           !.t5 = @ + cntT(5), !.t6 = @ + cntT(6), !.t7 = @ + cntT(7), !.t8 = @ + cntT(8), !.t9 = @ + cntT(9),
           !.c1 = @ + cntC(1), !.c2 = @ + cntC(2), !.c4 = @ + cntC(4), !.c8 = @ + cntC(8),
           !.planar = @ + sumk(LAMBDA k : IF R[k].syn /\ R[k].nf > 0 /\ Abs(ev.f[k].rb - ev.f[k].lb) >= ev.f[k].so /\ R[k].nf > 1 THEN 1 ELSE 0),
           !.gapped = @ + sumk(LAMBDA k : IF R[k].syn /\ R[k].nf > 1 /\ ev.f[k].so > 2 * ev.f[k].c THEN 1 ELSE 0),
           \* byte-granular layouts: calls of >= 2 frames whose record stride is not a multiple of the container (ustride1: the
           \* smallest one, container + 1), calls whose left or right pointer is not aligned to the container
           !.ustride = @ + sumk(LAMBDA k : IF R[k].syn /\ R[k].nf > 1 /\ ev.f[k].so % ev.f[k].c # 0 THEN 1 ELSE 0),
           !.ustride1 = @ + sumk(LAMBDA k : IF R[k].syn /\ R[k].nf > 1 /\ ev.f[k].c > 1 /\ ev.f[k].so = ev.f[k].c + 1 THEN 1 ELSE 0),
           !.uptr = @ + sumk(LAMBDA k : IF R[k].syn /\ R[k].nf > 0 /\ (ev.f[k].lb % ev.f[k].c # 0 \/ ev.f[k].rb % ev.f[k].c # 0) THEN 1 ELSE 0),
           !.refined = @ + 1,
           !.pf_exact = @ + (IF ev.o = "gen" /\ exact THEN 1 ELSE 0),
           !.pf_fuzzy = @ + (IF ev.o = "gen" /\ ~exact /\ fuzzy THEN 1 ELSE 0),
           !.drifted = @ + (IF dall # {} THEN 1 ELSE 0)]
Next ==
  \/ /\ l <= Len(T) /\ l' = l + 1
     /\ LET ev == T[l] IN
        CASE ev.o = "init" -> StepInit(ev)
          [] ev.o = "end" -> UNCHANGED <<sync, M, fails, cnt, drift, exec>>
          [] ev.o \in {"gen", "play"} -> StepAudio(ev)
          [] OTHER -> StepEvent(ev)
  \/ /\ l = Len(T) + 1 /\ l' = l + 1
     /\ PrintT(<<"RESULT", ToJson([n |-> Len(T), fails |-> fails, cnt |-> cnt, drift |-> drift])>>)
     /\ UNCHANGED <<sync, M, fails, cnt, drift, exec>>
Spec == Init /\ [][Next]_vars
=============================================================================
