SPECIFICATION Spec
CONSTANTS
  Repaired = FALSE
CHECK_DEADLOCK FALSE
