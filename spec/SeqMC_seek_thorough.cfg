SPECIFICATION MCSeekSpec
CONSTANTS
  MaxLen = 2
  TwoTracks = TRUE
  SeekMode = TRUE
INVARIANT NoBad
CHECK_DEADLOCK FALSE
