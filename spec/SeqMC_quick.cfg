SPECIFICATION MCSpec
CONSTANTS
  MaxLen = 3
  TwoTracks = FALSE
INVARIANT NoBad
CHECK_DEADLOCK FALSE
