SPECIFICATION MCSpec
CONSTANTS
  MaxLen = 2
  TwoTracks = TRUE
INVARIANT NoBad
CHECK_DEADLOCK FALSE
