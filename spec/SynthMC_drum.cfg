SPECIFICATION Spec
CONSTANTS
  NC = 3
  MaxDepth = 6
  ArpOn = FALSE
  AllocMode = 3
  EmitDepth = 0
INVARIANT NoBad
CONSTANT Alphabet <- DrumAlphabet
CONSTRAINT DepthBound
VIEW View
CHECK_DEADLOCK FALSE
