SPECIFICATION Spec
CONSTANTS
  NC = 3
  MaxDepth = 10
  ArpOn = FALSE
  AllocMode = 3
  EmitDepth = 0
INVARIANT NoBad
CONSTRAINT DepthBound
VIEW View
CHECK_DEADLOCK FALSE
