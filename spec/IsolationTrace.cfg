SPECIFICATION Spec
CONSTANTS
  FixChipType = TRUE
  FixLfoTable = TRUE
  FixTables = FALSE
CHECK_DEADLOCK FALSE
