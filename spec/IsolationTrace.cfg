SPECIFICATION Spec
CONSTANTS
  FixChipType = FALSE
  FixLfoTable = FALSE
  FixTables = FALSE
CHECK_DEADLOCK FALSE
