------------------------------ MODULE PitchTrace ------------------------------
(* C10: validation of executions recorded by harness/drive_pitch.  The trace specification keeps,
   from the COMMANDS alone, the pitch-relevant controls of every MIDI channel (bend, bend range set
   through RPN 0, program, pedals, portamento, vibrato sources) and the sounding notes with the chip
   channel their key-on write went to.  For every recorded frequency write [c, block, fnum, mul]
     (B) the property predicates of spec/Pitch.tla are evaluated on the RECORDED block/F-number against
         the reference F-number TLC computes for the note's pitch (Within / WithinRange, MonoOK), and
         for every pitch-bend call the set of re-pitched chip channels is compared with the key-down
         notes of that channel - failures go to `fails`;
     (C) the write is compared with the model of OPN2::noteOn (ModelAgrees) - mismatches go to `drift`.
   A sweep record carries one entry per value (bend value or key) and is consumed point by point.
   The Crash record of a call that did not return (no field "w") is skipped: the pipeline reports it.

   Reading of the property that is built in here:
     * bend range = RPN 0 (CC101 = 0, CC100 = 0), CC6 = semitones, CC38 = 1/128 semitone; the range of a
       channel is unknown (writes of that channel are not judged) until both were set;
     * a NoteOn glides from the key of the previous NoteOn of the channel when CC65 >= 64 and the
       portamento time (CC5/CC37) is not 0; start point = that key, end point = the note's own tone;
       a glide is complete after a tick of at least LongTick microseconds (assumption: the slowest
       portamento, 1.4 semitones/s, covers the keyboard in 89 s); in between only the range is judged;
     * with vibrato sources active (CC1, channel/key aftertouch) the offset is a sine the specification
       does not compute: such writes are only compared with the range +-depth (0.5 semitone at 127), as drift;
     * a chip channel on which a NoteOn lands while it still carries another tracked note (voice stealing or
       sharing) is not judged any more in that execution (counter `contended`); the generators keep the number
       of notes below the number of chip channels;
     * bank select, program change on the drum channel, CC120/121/123 put a channel out of scope (not judged).
     * channels 16..31 exist in executions whose init line carries "seq": the commands are then delivered by the sequencer
       from a two-port song (harness), channel 16 + c being channel c of the second port; every rule above applies to
       them unchanged (channel 25 is the second port's percussion channel);
   Failure labels: pitch, glide-range, glide-end, monotone, bend-skips-keydown, bend-skips-sostenuto-keydown,
   glide-skips-sostenuto-keydown (at most MaxPerLabel records each). *)
EXTENDS Pitch, Json, IOUtils
T == ndJsonDeserialize(IOEnv.TRACE)
MaxFails == 40          \* in total ...
MaxPerLabel == 4        \* ... and per failure label, so that one persistent defect cannot crowd out the others
MaxDrift == 6
LongTick == 100000000
VARIABLES l, pi, st, fails, cnt, drift, exec
vars == <<l, pi, st, fails, cnt, drift, exec>>

CntNames == <<"steps", "execs", "sweeps", "points", "freq", "eval", "evalrange", "native", "ext", "edge", "oor",
              "unknown", "untracked", "mono", "mono_strict", "repitch", "repitch_notes", "repitch_multi", "repitch_sost",
              "glide_start", "glide_mid", "glide_end", "keyon", "keyon_perc", "keyon_noff_neg", "keyon_noff_pos", "fam0", "fam1",
              "bend_neg", "bend_pos", "dev_q1", "dev_q2", "dev_half", "dev_q3", "dev_q4", "vib", "refined", "drifted", "noplay", "contended">>
NC == Len(CntNames)
Cnt0 == [i \in 1..NC |-> 0] \o <<>>
\* by name (once per record) and by position (once per call; d in the order of CntNames)
AddCnt(k, d) == LET dom == DOMAIN d IN [i \in 1..NC |-> IF CntNames[i] \in dom THEN k[i] + d[CntNames[i]] ELSE k[i]] \o <<>>
AddTup(k, d) == [i \in 1..NC |-> k[i] + d[i]] \o <<>>
CntRecord(k) == [nm \in { CntNames[i] : i \in 1..NC } |-> k[CHOOSE i \in 1..NC : CntNames[i] = nm]]
B2I(b) == IF b THEN 1 ELSE 0
(* Every judged write gets ONE category (field cat of EvalOp); the categories of a call are counted in one pass:
   category c adds 64^(c % 5) to component (c \div 5) + 1 of a triple (at most 48 writes are logged per call). *)
CatUntracked == 0  CatUnknown == 1  CatOor == 2  CatEdge == 3  CatExt == 4
CatVib == 5  CatRange == 6  CatQ1 == 7  CatQ2 == 8  CatHalf == 9  CatQ3 == 10  CatQ4 == 11  CatBad == 12
P64 == <<1, 64, 4096, 262144, 16777216>>
RECURSIVE CatSum(_, _, _)
CatSum(evs, i, acc) == IF i > Len(evs) THEN acc
                       ELSE LET c == evs[i].cat IN CatSum(evs, i + 1, [acc EXCEPT ![(c \div 5) + 1] = @ + P64[(c % 5) + 1]])
CatN(sum, c) == (sum[(c \div 5) + 1] \div P64[(c % 5) + 1]) % 64
DevCat(dev) == IF dev <= 64 THEN CatQ1 ELSE IF dev <= 128 THEN CatQ2 ELSE IF dev <= 136 THEN CatHalf ELSE IF dev <= 192 THEN CatQ3
               ELSE IF dev <= 256 + Eps THEN CatQ4 ELSE CatBad

Chan0 == [ok |-> TRUE, bend |-> 0, msb |-> -1, lsb |-> -1, rm |-> -1, rl |-> -1, nrpn |-> FALSE, prog |-> 0, ped |-> FALSE,
          pen |-> FALSE, porta |-> 0, psrc |-> -1, vib |-> 0, cat |-> 0, nat |-> FALSE]
St0 == [fam |-> 0, banks |-> <<>>, chans |-> [c \in 1..32 |-> Chan0] \o <<>>, notes |-> <<>>, last |-> <<>>, cont |-> {}]

Init == l = 1 /\ pi = 0 /\ st = St0 /\ fails = <<>> /\ cnt = Cnt0 /\ drift = <<>> /\ exec = 0

\* instrument a NoteOn(ch, k) resolves to: bank 0 melodic by program / bank 0 percussive by key; i = -1: none
NoIns == [i |-> -1]
InsOf(s, ch, k) ==
  LET p == IF ch % 16 = 9 THEN 1 ELSE 0
      idx == IF ch % 16 = 9 THEN k ELSE s.chans[ch + 1].prog
      bi == FirstIdx(s.banks, LAMBDA bk : bk.p = p /\ bk.msb = 0 /\ bk.lsb = 0)
  IN IF bi = 0 THEN NoIns
     ELSE LET ii == FirstIdx(s.banks[bi].ins, LAMBDA r : r.i = idx) IN IF ii = 0 THEN NoIns ELSE s.banks[bi].ins[ii]

\* ------------------------------------------------------------------ controls
SetChan(s, ch, c) == [s EXCEPT !.chans[ch + 1] = c]
MapSeq(q, F(_)) == [i \in DOMAIN q |-> F(q[i])] \o <<>>
MapNotes(s, F(_)) == [s EXCEPT !.notes = MapSeq(s.notes, F)]
CtlCC(s, ch, n, v) ==
  LET c == s.chans[ch + 1] IN
  CASE n = 101 -> SetChan(s, ch, [c EXCEPT !.rm = v, !.nrpn = FALSE])
    [] n = 100 -> SetChan(s, ch, [c EXCEPT !.rl = v, !.nrpn = FALSE])
    [] n = 99  -> SetChan(s, ch, [c EXCEPT !.rm = v, !.nrpn = TRUE])
    [] n = 98  -> SetChan(s, ch, [c EXCEPT !.rl = v, !.nrpn = TRUE])
    [] n \in {6, 38} ->
         IF c.nrpn \/ c.rm > 0 \/ c.rl > 0 THEN s                       \* another parameter is selected
         ELSE LET x == IF c.rm = 0 /\ c.rl = 0 THEN v ELSE -1             \* selection never made: range unknown
              IN SetChan(s, ch, IF n = 6 THEN [c EXCEPT !.msb = x] ELSE [c EXCEPT !.lsb = x])
    [] n = 64 ->
         LET s1 == SetChan(s, ch, [c EXCEPT !.ped = (v >= 64)])
             keep == SelectSeq(s.notes, LAMBDA m : ~(m.ch = ch /\ ~m.down /\ ~m.sost /\ ~m.ttl))
         IN IF v >= 64 THEN s1
            ELSE [s1 EXCEPT !.notes = MapSeq(keep, LAMBDA m : IF m.ch = ch THEN [m EXCEPT !.heldp = FALSE] ELSE m)]
    [] n = 66 ->
         IF v >= 64 THEN MapNotes(s, LAMBDA m : IF m.ch = ch /\ ~m.heldp THEN [m EXCEPT !.sost = TRUE] ELSE m)
         ELSE LET keep == SelectSeq(s.notes, LAMBDA m : ~(m.ch = ch /\ ~m.down /\ ~m.heldp /\ ~m.ttl))
              IN [s EXCEPT !.notes = MapSeq(keep, LAMBDA m : IF m.ch = ch THEN [m EXCEPT !.sost = FALSE] ELSE m)]
    [] n = 65 -> SetChan(s, ch, [c EXCEPT !.pen = (v >= 64)])
    [] n = 5  -> SetChan(s, ch, [c EXCEPT !.porta = (c.porta % 128) + v * 128])
    [] n = 37 -> SetChan(s, ch, [c EXCEPT !.porta = (c.porta \div 128) * 128 + v])
    [] n = 1  -> SetChan(s, ch, [c EXCEPT !.vib = v])
    \* reset all controllers: wheel centred, bend range back to the default of 2 semitones, pedals, vibrato, aftertouch
    \* and portamento off; notes that only a pedal was holding end (the RPN selection itself is left alone)
    [] n = 121 ->
         LET c1 == [c EXCEPT !.bend = 0, !.msb = 2, !.lsb = 0, !.ped = FALSE, !.vib = 0, !.cat = 0, !.nat = FALSE, !.porta = 0, !.pen = FALSE, !.psrc = -1]
             keep == SelectSeq(s.notes, LAMBDA m : ~(m.ch = ch /\ ~m.down /\ ~m.ttl))
         IN [SetChan(s, ch, c1) EXCEPT !.notes = MapSeq(keep, LAMBDA m : IF m.ch = ch THEN [m EXCEPT !.heldp = FALSE] ELSE m)]
    \* bank select and all-sounds/notes-off are outside the scope of this check
    [] n \in {0, 32, 120, 123} -> [SetChan(s, ch, [c EXCEPT !.ok = FALSE]) EXCEPT !.notes = SelectSeq(s.notes, LAMBDA m : m.ch # ch)]
    [] OTHER -> s

\* the key (ch, k) is released: by NoteOff (force = FALSE) or by the NoteOn that re-strikes it (force = TRUE)
ReleaseKey(s, ch, k, force) ==
  LET c == s.chans[ch + 1]
      rel(m) == IF ~(m.ch = ch /\ m.k = k /\ m.down) THEN <<m>>
                ELSE IF m.perc /\ ~force THEN <<[m EXCEPT !.down = FALSE, !.ttl = TRUE]>>    \* drum: minimum life time
                ELSE IF c.ped THEN <<[m EXCEPT !.down = FALSE, !.heldp = TRUE]>>
                ELSE IF m.sost THEN <<[m EXCEPT !.down = FALSE]>>
                ELSE <<>>
  IN [s EXCEPT !.notes = FlattenSeq(MapSeq(s.notes, rel))]

NoteOn(s, ch, k, w) ==
  LET s1 == ReleaseKey(s, ch, k, TRUE)
      c == s1.chans[ch + 1]
      ins == InsOf(s1, ch, k)
      perc == ch % 16 = 9
  IN IF ins.i = -1 THEN SetChan(s1, ch, [c EXCEPT !.psrc = k])
     ELSE IF w = <<>> THEN s1
     ELSE LET cc == w[Len(w)][1]
              tone == DrumTone(k, ins.drum)
              glide == c.pen /\ c.porta > 0 /\ ~perc /\ c.psrc >= 0
              start == IF glide THEN c.psrc * U ELSE tone * U
              nn == [ch |-> ch, k |-> k, c |-> cc, lo |-> start, hi |-> start, tgt |-> tone * U, noff |-> ins.noff, perc |-> perc,
                     down |-> TRUE, sost |-> FALSE, heldp |-> FALSE, ttl |-> FALSE, gl |-> glide, atT |-> B2I(~glide), muls |-> ins.mul]
              \* the chip channel already carries a tracked note: the library either replaces it or lets both share the
              \* channel (writes of either note then land on it): the channel is not judged any more in this execution
              \* (a held note of the same key is the same user of the chip channel: it is simply replaced)
              taken == \E i \in DOMAIN s1.notes : s1.notes[i].c = cc /\ ~(s1.notes[i].ch = ch /\ s1.notes[i].k = k)
          IN [SetChan(s1, ch, [c EXCEPT !.psrc = k]) EXCEPT !.notes = Append(SelectSeq(s1.notes, LAMBDA m : m.c # cc), nn),
                                                           !.cont = IF taken THEN @ \cup {cc} ELSE @]

\* time passes: gliding notes move towards their end point; released drum notes end
TickWiden(s) == MapNotes([s EXCEPT !.notes = SelectSeq(s.notes, LAMBDA m : ~m.ttl)],
                         LAMBDA m : IF m.gl THEN [m EXCEPT !.lo = Min(m.lo, m.tgt), !.hi = Max(m.hi, m.tgt)] ELSE m)
TickFinal(s, us) == IF us < LongTick THEN TickWiden(s)
                    ELSE MapNotes(TickWiden(s), LAMBDA m : IF m.gl THEN [m EXCEPT !.lo = m.tgt, !.hi = m.tgt, !.gl = FALSE] ELSE m)

Apply(s, pc, w) ==
  CASE pc.o = "pc" -> SetChan(s, pc.ch, IF pc.ch % 16 = 9 /\ pc.p # 0 THEN [s.chans[pc.ch + 1] EXCEPT !.ok = FALSE]    \* selects another drum kit
                                        ELSE [s.chans[pc.ch + 1] EXCEPT !.prog = pc.p])
    [] pc.o = "cc" -> CtlCC(s, pc.ch, pc.n, pc.v)
    [] pc.o = "bend" -> SetChan(s, pc.ch, [s.chans[pc.ch + 1] EXCEPT !.bend = pc.v - 8192])
    [] pc.o = "bendml" -> SetChan(s, pc.ch, [s.chans[pc.ch + 1] EXCEPT !.bend = pc.m * 128 + pc.l - 8192])
    [] pc.o = "cat" -> SetChan(s, pc.ch, [s.chans[pc.ch + 1] EXCEPT !.cat = pc.v])
    [] pc.o = "nat" -> SetChan(s, pc.ch, [s.chans[pc.ch + 1] EXCEPT !.nat = TRUE])
    [] pc.o = "on" -> IF pc.v = 0 THEN ReleaseKey(s, pc.ch, pc.k, FALSE) ELSE NoteOn(s, pc.ch, pc.k, w)
    [] pc.o = "off" -> ReleaseKey(s, pc.ch, pc.k, FALSE)
    [] pc.o = "tick" -> TickFinal(s, pc.us)
    \* opn2_panic and the calls that rebuild the chips (emulator switch, chip count) cut every note; wheel, bend range, program
    \* and the other controls of the channels stay as they are
    [] pc.o \in {"panic", "emu", "chips"} -> [s EXCEPT !.notes = <<>>]
    [] OTHER -> [s EXCEPT !.chans = [i \in 1..32 |-> [s.chans[i] EXCEPT !.ok = FALSE]] \o <<>>, !.notes = <<>>]

\* ------------------------------------------------------------------ judging one recorded write
VibAmp(c) == IF c.nat THEN (127 * U) \div 254 + 1
             ELSE LET v == Max(c.vib, c.cat) IN IF v = 0 THEN 0 ELSE (v * U) \div 254 + 1
\* atT: was this write at the note's (glide) end point?  0 no, 1 yes, 2 not judged
Skip(kind, cat) == [kind |-> kind, cat |-> cat, ok |-> TRUE, agree |-> TRUE, exact |-> FALSE, vib |-> FALSE, P |-> 0, ni |-> 0, atT |-> 2]
EvalOp(s, op) ==
  LET ni == FirstIdx(s.notes, LAMBDA m : m.c = op[1]) IN
  IF ni = 0 \/ op[1] \in s.cont THEN Skip("untracked", CatUntracked)
  ELSE LET n == s.notes[ni]
           c == s.chans[n.ch + 1]
       IN IF ~c.ok \/ c.msb < 0 \/ c.lsb < 0 THEN [Skip("unknown", CatUnknown) EXCEPT !.ni = ni]
          ELSE IF ~InDomain(n.lo, n.noff) \/ ~InDomain(n.hi, n.noff) THEN [Skip("oor", CatOor) EXCEPT !.ni = ni]
          ELSE LET base == n.noff * U + c.bend * Cent(c.msb, c.lsb)
                   A == VibAmp(c)
                   Plo == n.lo + base - A
                   Phi == n.hi + base + A
                   b == op[2]
                   w == op[3]
               IN IF Plo = Phi
                  THEN \* the pitch is known exactly: mantissa/octave computed once
                       LET mo == MantOct(Plo, s.fam)
                           top == RefAt(mo, 7)
                           dev == Abs(w * 256 - RefAt(mo, b))
                       IN IF top < Lim2 - 256
                          THEN [kind |-> "native", cat |-> DevCat(dev), exact |-> TRUE, vib |-> FALSE, P |-> Plo, ni |-> ni,
                                atT |-> IF n.gl THEN B2I(Within(w, b, n.tgt + base, s.fam)) ELSE 1,
                                ok |-> dev <= 256 + Eps,
                                agree |-> ModelAgreesMO(w, b, op[4], mo, Plo, s.fam, n.muls)]
                          ELSE IF top >= Lim2 + 256
                          THEN [Skip("ext", CatExt) EXCEPT !.ni = ni, !.exact = TRUE, !.P = Plo, !.agree = ModelAgreesMO(w, b, op[4], mo, Plo, s.fam, n.muls)]
                          ELSE [Skip("edge", CatEdge) EXCEPT !.ni = ni]
                  ELSE IF Native(Phi, s.fam)
                  THEN [kind |-> "native", cat |-> IF A > 0 THEN CatVib ELSE CatRange, exact |-> FALSE, vib |-> A > 0, P |-> Plo, ni |-> ni,
                        atT |-> IF A = 0 THEN B2I(Within(w, b, n.tgt + base, s.fam)) ELSE 2,
                        ok |-> WithinRange(w, b, Plo, Phi, s.fam), agree |-> TRUE]
                  ELSE IF Extended(Plo, s.fam) THEN [Skip("ext", CatExt) EXCEPT !.ni = ni, !.P = Plo]
                  ELSE [Skip("edge", CatEdge) EXCEPT !.ni = ni]

Brief(s, op, e) ==
  IF e.ni = 0 THEN <<"write", op>>
  ELSE LET n == s.notes[e.ni]  c == s.chans[n.ch + 1]
       IN <<"write[c,block,fnum,mul]", op, "fam", s.fam, "ch", n.ch, "key", n.k, "noff", n.noff, "tone-lo-hi-units", n.lo, n.hi, "bend", c.bend,
            "range", c.msb, c.lsb, "P", e.P, "ref256-at-block", IF e.kind = "native" THEN Ref256(e.P, op[2], s.fam) ELSE -1, "sost", n.sost>>

RECURSIVE MonoFold(_, _, _, _)
\* acc = <<last, pairs, strict, bad>>
MonoFold(w, evs, i, acc) ==
  IF i > Len(w) THEN acc
  ELSE LET e == evs[i]
           use == e.kind = "native" /\ e.exact /\ ~e.vib
           v == Val(w[i][3], w[i][2])
           has == acc[1] # <<>>
       IN IF ~use THEN MonoFold(w, evs, i + 1, acc)
          ELSE MonoFold(w, evs, i + 1,
                        << <<e.P, v>>, acc[2] + B2I(has), acc[3] + B2I(has /\ acc[1][2] # v),
                           IF has /\ acc[4] = <<>> /\ ~MonoOK(acc[1][1], acc[1][2], e.P, v) THEN <<acc[1], <<e.P, v>>, w[i]>> ELSE acc[4] >>)

RECURSIVE SetAtT(_, _, _)
SetAtT(notes, evs, i) == IF i > Len(evs) THEN notes
                         ELSE SetAtT(IF evs[i].ni = 0 \/ evs[i].ni > Len(notes) THEN notes ELSE [notes EXCEPT ![evs[i].ni].atT = evs[i].atT], evs, i + 1)

(* One primitive call pc with its recorded frequency writes w.  acc = [s, f, d, k]. *)
Prim(acc, pc, w, name) ==
  LET s0 == acc.s
      s1 == Apply(s0, pc, w)
      sE == IF pc.o = "tick" THEN TickWiden(s0) ELSE s1          \* the bounds this call's writes are judged against
      evs == [i \in DOMAIN w |-> EvalOp(sE, w[i])] \o <<>>
      isbend == pc.o \in {"bend", "bendml"}
      ison == pc.o = "on" /\ pc.v > 0
      \* (B1) in tune
      badp == { i \in DOMAIN evs : evs[i].kind = "native" /\ ~evs[i].ok /\ ~evs[i].vib }
      F1 == { [p |-> "C10", w |-> IF evs[i].exact THEN "pitch" ELSE "glide-range", l |-> l, x |-> exec, e |-> name,
               d |-> ToString(Brief(sE, w[i], evs[i]))] : i \in badp }
      \* (B2) monotone
      mono == MonoFold(w, evs, 1, <<s0.last, 0, 0, <<>>>>)
      F2 == IF mono[4] = <<>> THEN {} ELSE { [p |-> "C10", w |-> "monotone", l |-> l, x |-> exec, e |-> name,
                                              d |-> ToString(<<"previous <<P, fnum*2^block>>", mono[4][1], "now", mono[4][2], "write", mono[4][3], "fam", s0.fam>>)] }
      \* (B3) a pitch bend re-pitches every key-down note of its channel in the same call
      down == IF isbend /\ s1.chans[pc.ch + 1].ok THEN SelectSeq(s1.notes, LAMBDA m : m.ch = pc.ch /\ m.down /\ m.c \notin s1.cont) ELSE <<>>
      missed == { i \in DOMAIN down : ~\E j \in DOMAIN w : w[j][1] = down[i].c }
      F3 == { [p |-> "C10", w |-> IF down[i].sost THEN "bend-skips-sostenuto-keydown" ELSE "bend-skips-keydown", l |-> l, x |-> exec, e |-> name,
               d |-> ToString(<<"key-down note not re-pitched: ch", down[i].ch, "key", down[i].k, "chip channel", down[i].c,
                                "sostenuto-tagged", down[i].sost, "bend", pc, "writes", w>>)] : i \in missed }
      \* (B4) glide end point: after a long tick the last write of a gliding key-down note is its end point
      sA == [s1 EXCEPT !.notes = SetAtT(s1.notes, evs, 1)]      \* (sE and s1 list the same notes in the same order)
      glend == IF pc.o = "tick" /\ pc.us >= LongTick
               THEN { i \in DOMAIN s0.notes : LET m == s0.notes[i] c == s0.chans[m.ch + 1]
                                              IN m.gl /\ m.down /\ ~m.ttl /\ m.c \notin s0.cont /\ c.ok /\ c.msb >= 0 /\ c.lsb >= 0 /\ VibAmp(c) = 0 /\ InDomain(m.tgt, m.noff)
                                                 /\ Native(m.tgt + m.noff * U + c.bend * Cent(c.msb, c.lsb), s0.fam) }
               ELSE {}
      \* the most recent write of note i of s0 was at its end point (or could not be judged)
      AtEnd(i) == LET j == FirstIdx(sA.notes, LAMBDA q : q.c = s0.notes[i].c) IN j # 0 /\ sA.notes[j].atT # 0
      F4 == { [p |-> "C10", w |-> IF s0.notes[i].sost THEN "glide-skips-sostenuto-keydown" ELSE "glide-end", l |-> l, x |-> exec, e |-> name,
               d |-> ToString(<<"glide not at its end point after the long tick: ch", s0.notes[i].ch, "key", s0.notes[i].k, "chip channel", s0.notes[i].c,
                                "from-to units", s0.notes[i].lo, s0.notes[i].tgt, "writes", w>>)] : i \in { j \in glend : ~AtEnd(j) } }
      F == F1 \cup F2 \cup F3 \cup F4
      \* (C) refinement
      drifters == { j \in DOMAIN evs : ~evs[j].agree }
      D == { [l |-> l, x |-> exec, e |-> name, d |-> ToString(<<"model", ModelNoteOn(evs[i].P, sE.fam, sE.notes[evs[i].ni].muls), Brief(sE, w[i], evs[i])>>)]
               : i \in drifters }
           \cup { [l |-> l, x |-> exec, e |-> name, d |-> ToString(<<"vibrato beyond +-depth", Brief(sE, w[i], evs[i])>>)]
               : i \in { j \in DOMAIN evs : evs[j].kind = "native" /\ ~evs[j].ok /\ evs[j].vib } }
           \cup (IF ison /\ w = <<>> /\ InsOf(s0, pc.ch, pc.k).i # -1
                 THEN { [l |-> l, x |-> exec, e |-> name, d |-> "NoteOn without a frequency write (note not played)"] } ELSE {})
           \cup (IF ison /\ Len(w) > 1 THEN { [l |-> l, x |-> exec, e |-> name, d |-> ToString(<<"NoteOn with several frequency writes", w>>)] } ELSE {})
      fam == s0.fam
      newnote == ison /\ w # <<>> /\ s1.notes # <<>> /\ s1.notes[Len(s1.notes)].k = pc.k /\ s1.notes[Len(s1.notes)].ch = pc.ch
      nn == s1.notes[Len(s1.notes)]
      bend == IF isbend THEN s1.chans[pc.ch + 1].bend ELSE 0
      cs == CatSum(evs, 1, <<0, 0, 0>>)
      nEval == CatN(cs, CatQ1) + CatN(cs, CatQ2) + CatN(cs, CatHalf) + CatN(cs, CatQ3) + CatN(cs, CatQ4) + CatN(cs, CatBad)
      nRange == CatN(cs, CatRange)
      nVib == CatN(cs, CatVib)
      nExt == CatN(cs, CatExt)
      delta == << 0, 0, 0, 0, Len(w), nEval, nRange, nEval + nRange + nVib, nExt, CatN(cs, CatEdge), CatN(cs, CatOor),
                  CatN(cs, CatUnknown), CatN(cs, CatUntracked), mono[2], mono[3],
                  B2I(down # <<>>), Len(down), B2I(Len(down) > 1), B2I(\E i \in DOMAIN down : down[i].sost),
                  B2I(newnote /\ nn.gl), IF pc.o = "tick" THEN nRange ELSE 0, Cardinality(glend),
                  B2I(newnote), B2I(newnote /\ nn.perc), B2I(newnote /\ nn.noff < 0), B2I(newnote /\ nn.noff > 0),
                  IF fam = 0 THEN Len(w) ELSE 0, IF fam = 1 THEN Len(w) ELSE 0, B2I(bend < 0) * Len(w), B2I(bend > 0) * Len(w),
                  CatN(cs, CatQ1), CatN(cs, CatQ2), CatN(cs, CatHalf), CatN(cs, CatQ3), CatN(cs, CatQ4), nVib,
                  nEval + nExt, Cardinality(drifters), B2I(ison /\ w = <<>>), Cardinality(s1.cont \ s0.cont) >>
  IN [s |-> [sA EXCEPT !.last = mono[1]],
      f |-> IF F = {} \/ Len(acc.f) >= MaxFails THEN acc.f
            ELSE acc.f \o SetToSeq({ x \in F : Count(acc.f, LAMBDA y : y.w = x.w) < MaxPerLabel }),
      d |-> IF Len(acc.d) >= MaxDrift \/ D = {} THEN acc.d ELSE acc.d \o SetToSeq(D),
      k |-> AddTup(acc.k, delta)]

StepInit(ev) ==
  /\ st' = [St0 EXCEPT !.fam = ev.fam, !.banks = ev.banks]
  /\ exec' = exec + 1 /\ fails' = fails
  /\ drift' = IF ev.famr # ev.fam /\ Len(drift) < MaxDrift THEN Append(drift, [l |-> l, x |-> exec + 1, e |-> "init", d |-> "chip family read back differs"]) ELSE drift
  /\ cnt' = AddCnt(cnt, [execs |-> 1])
StepOp(ev) ==
  IF ev.w = <<>> /\ ev.o \in {"cc", "pc", "off", "cat", "nat"}
  THEN \* a call that only changes controls and wrote no frequency: nothing to judge
       /\ st' = Apply(st, ev, <<>>) /\ cnt' = AddCnt(cnt, [steps |-> 1]) /\ UNCHANGED <<fails, drift, exec>>
  ELSE LET acc1 == Prim([s |-> st, f |-> fails, d |-> drift, k |-> cnt], ev, ev.w, ev.o)
       IN /\ st' = acc1.s /\ fails' = acc1.f /\ drift' = acc1.d /\ exec' = exec
          /\ cnt' = AddCnt(acc1.k, [steps |-> 1])
\* a sweep record is consumed one point per step (pi = number of points already consumed)
StepPoint(ev) ==
  LET np == Len(ev.pts)
      acc0 == [s |-> st, f |-> fails, d |-> drift, k |-> cnt]
      pt == ev.pts[pi + 1]
      acc1 == IF np = 0 THEN acc0
              ELSE IF ev.ax = "bend" THEN Prim(acc0, [o |-> "bend", ch |-> ev.ch, v |-> pt[1]], pt[2], "sweep-bend")
              ELSE Prim(Prim(acc0, [o |-> "on", ch |-> ev.ch, k |-> pt[1], v |-> IF "v" \in DOMAIN ev THEN ev.v ELSE 100], pt[2], "sweep-key"),
                        [o |-> "off", ch |-> ev.ch, k |-> pt[1]], <<>>, "sweep-key")
      last == pi + 1 >= np
  IN /\ st' = acc1.s /\ fails' = acc1.f /\ drift' = acc1.d /\ exec' = exec
     /\ l' = IF last THEN l + 1 ELSE l
     /\ pi' = IF last THEN 0 ELSE pi + 1
     /\ cnt' = IF last THEN AddCnt(acc1.k, [steps |-> 1, sweeps |-> 1, points |-> np]) ELSE acc1.k
Next ==
  \/ /\ l <= Len(T)
     /\ LET ev == T[l] IN
        IF "o" \notin DOMAIN ev \/ (ev.o \notin {"init", "end", "sweep"} /\ "w" \notin DOMAIN ev)      \* Crash record
        THEN l' = l + 1 /\ pi' = 0 /\ UNCHANGED <<st, fails, cnt, drift, exec>>
        ELSE CASE ev.o = "init" -> l' = l + 1 /\ pi' = 0 /\ StepInit(ev)
               [] ev.o = "end" -> l' = l + 1 /\ pi' = 0 /\ UNCHANGED <<st, fails, cnt, drift, exec>>
               [] ev.o = "sweep" -> StepPoint(ev)
               [] OTHER -> l' = l + 1 /\ pi' = 0 /\ StepOp(ev)
  \/ /\ l = Len(T) + 1 /\ l' = l + 1 /\ pi' = 0
     /\ PrintT(<<"RESULT", ToJson([n |-> Len(T), fails |-> fails, cnt |-> CntRecord(cnt), drift |-> drift])>>)
     /\ UNCHANGED <<st, fails, cnt, drift, exec>>
Spec == Init /\ [][Next]_vars
=============================================================================
