------------------------------ MODULE SettingsMC ------------------------------
(* C18 leg A: exhaustive small-scope exploration of the settings model.  Every sequence of at most
   MaxDepth calls from Ops (setters with in-range, boundary and invalid arguments, reset, emulator
   switch, bank and music loads, accepted and rejected) is executed on spec/Settings.tla and every
   transition is judged by the same predicates the trace specification applies to the real library.
   Fix = {} is the code as it stands (TLC then reports the store-before-validate defects);
   Fix = {"numchips", "trackopt", "dumper", "rsxxlock"} is the repaired design.  OpenMidi s = 3 is the EA-MUS song
   that locks the set-up: with four calls the model reaches bank, EA-MUS song, setter while locked, and the call
   that ends the lock (ordinary song, bank, chip type, or a rejected file).  WithDumper adds the VGM-dumper
   pseudo-emulator, which takes the loop hooks and forces "loop hooks only" by design.
   In -simulate mode Emit prints BEHAVIOUR lines (indices into Ops) that are replayed on the library. *)
EXTENDS Settings, Json
CONSTANTS MaxDepth, EmitDepth, Fix, WithDumper
VARIABLES S, R, viol, hist
vars == <<S, R, viol, hist>>
View == <<S, R, viol, Len(hist)>>          \* the length keeps the bound exact when several workers race

IntMax == 2147483647
V(e, v) == [e |-> e, v |-> v]
Ops ==
  << V("SetNumChips", 0), V("SetNumChips", 1), V("SetNumChips", 100), V("SetNumChips", 101), V("SetNumChips", -1), V("SetNumChips", 3),
     V("SwitchEmulator", 1), V("SwitchEmulator", 5), V("SwitchEmulator", 9), V("SwitchEmulator", -1), V("SwitchEmulator", IntMax),
     V("SetVolModel", 0), V("SetVolModel", 3), V("SetVolModel", 100),
     V("SetAlloc", 1), V("SetAlloc", 101),
     V("SetLfo", 1), V("SetLfo", -1), V("SetLfoFreq", 6), V("SetLfoFreq", -1),
     V("SetChipType", 1), V("SetChipType", -1),
     V("SetScaleMod", 1), V("SetFullBright", 1), V("SetArp", 1), V("SetSoftPan", 1), V("SetRunAtPcm", 1),
     V("SetDevId", 15), V("SetDevId", 16), V("SetDevId", -1),
     V("SetLoop", 1), V("SetLoopCount", 2), V("SetHooksOnly", 1), V("SetHooksOnly", 0), V("SelectSong", 1),
     [e |-> "SetTempo", num |-> 2, den |-> 1], [e |-> "SetTempo", num |-> 0, den |-> 1],
     [e |-> "TrackOpt", t |-> 1, o |-> 2], [e |-> "TrackOpt", t |-> 2, o |-> 2], [e |-> "TrackOpt", t |-> 0, o |-> 3], [e |-> "TrackOpt", t |-> 1, o |-> 6],
     [e |-> "ChanEn", c |-> 1, en |-> 0], [e |-> "ChanEn", c |-> 16, en |-> 0],
     [e |-> "SetHook", h |-> "raw", on |-> 1], [e |-> "SetHook", h |-> "ls", on |-> 1], [e |-> "SetHook", h |-> "ls", on |-> 0],
     [e |-> "Reset"],
     [e |-> "OpenBank", b |-> 1, bad |-> 0], [e |-> "OpenBank", b |-> 2, bad |-> 0], [e |-> "OpenBank", b |-> 1, bad |-> 1],
     [e |-> "OpenMidi", s |-> 1, bad |-> 0], [e |-> "OpenMidi", s |-> 2, bad |-> 0], [e |-> "OpenMidi", s |-> 1, bad |-> 1],
     [e |-> "OpenMidi", s |-> 3, bad |-> 0],
     \* the later file of another container: a GMF song (plain MIDI mode, no lock; the DMX MUS song is the same step of the
     \* model) and the refused IMF image -- after the EA-MUS song, after a refused file, before an ordinary one
     [e |-> "OpenMidi", s |-> 4, bad |-> 0], [e |-> "OpenMidi", s |-> 7, bad |-> 5],
     V("SwitchEmulator", 7) >>
NOps == IF WithDumper THEN Len(Ops) ELSE Len(Ops) - 1

Init == S = Derive(S0) /\ R = R0 /\ viol = {} /\ hist = <<>>
Next == \E i \in 1..NOps :
  LET ev == Ops[i]
      x0 == ModelStep(S, ev, Fix)
      R1 == RefStep(R, ev, x0.r, S)
      x == [x0 EXCEPT !.s.ho = IF @ = -1 THEN R1.ho ELSE @]      \* the repaired design restores the user's value
  IN /\ S' = x.s /\ R' = R1 /\ hist' = Append(hist, i)
     /\ viol' = viol \cup (IF x.r = -99 THEN {"crash:" \o ev.e}
                         ELSE CallFails(S, ev, x.r, x.s, R, R1) \cup ForceFails(x.s, R1) \cup ReloadFails(ev, x.r, R)
                              \cup LoadFails(ev, x.r, x.s, R))
Spec == Init /\ [][Next]_vars
NoBad == viol = {}
DepthBound == Len(hist) <= MaxDepth          \* histories of at most MaxDepth calls (exact, unlike TLCGet("level") with several workers)
\* informational runs: print every new violation label reached within three calls
Report == (viol' # viol /\ Len(hist') <= 3) => PrintT(<<"MODELBAD", viol' \ viol, hist'>>)
Emit == (Len(hist) = EmitDepth) => PrintT(<<"BEHAVIOUR", ToJson(hist)>>)
=============================================================================
