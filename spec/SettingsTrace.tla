---------------------------- MODULE SettingsTrace ----------------------------
(* C18 legs B and C: validation of executions of the real library recorded by harness/drive_settings.
   Every record is one API call (or probe) with the observation of instance A (every call) and of
   its twin B (every call except those that reported failure on A) taken after the call.
   Leg B: the predicates of spec/Settings.tla -- accepted values stick (labels stick:..), everything else
   persists (persist:.. inforce:.. hook-slot:..), a call that reports failure changes nothing
   (reject-changed:.. twin:.. probe-..), rejected loads leave an error text (reject-noerror), a valid
   file loads after a rejected one (reload-after-reject), registered hooks fire and playback follows
   the settings in force (hook-fire:.. play:..), a crash inside a call (crash:<call>).
   Set-up lock of a loaded EA-MUS song: the format's volume model and two chips are in force (locked-inforce:..),
   an accepted setter is stored (locked-stick:..), the stored requests are in force once the lock is gone
   (locked-apply:.. locked-persist:..), a call that reports failure does not end the lock (reject-unlocked).
   Sequences of music files of different containers on one instance (SMF, EA-MUS, GMF, DMX MUS, XMIDI, refused CMF / IMF): every
   load is judged on THAT file -- accepted / refused as the model predicts (load-refused, load-accepted, reload-after-reject),
   music mode and sequencer format of its own container afterwards (load-mode, load-format), and through the documented state
   the lock and the settings in force (a GMF / MUS / SMF / XMIDI song after the EA-MUS song ends the lock: locked-apply:..,
   inforce:.., stick:.. of the setters that follow).
   Leg C: the recorded step is a step of the model, from the recorded pre-state (stateless), either of
   the code as it stands (Fix = {}) or of the repaired design; otherwise it is recorded as drift. *)
EXTENDS Settings, Json, IOUtils
T == ndJsonDeserialize(IOEnv.TRACE)
MaxFails == 400                     \* no total cap: at most MaxPerLabel entries per label (w), MaxFails only bounds the label count
MaxPerLabel == 40
AllFix == {"numchips", "trackopt", "dumper", "rsxxlock"}
VARIABLES l, pre, R, fails, cnt, drift, exec, xf, seen, nl
vars == <<l, pre, R, fails, cnt, drift, exec, xf, seen, nl>>
Cnt0 == [steps |-> 0, execs |-> 0, stick |-> 0, auto |-> 0, persist |-> 0, rejected |-> 0, rejbank |-> 0, rejmidi |-> 0,
         reload |-> 0, bankreset |-> 0, force |-> 0, twin |-> 0, probetwin |-> 0, probeaudio |-> 0, probesand |-> 0,
         play |-> 0, playloop |-> 0, hookfire |-> 0, hooksilent |-> 0, crashes |-> 0, voidinvalid |-> 0,
         lockenter |-> 0, locksteps |-> 0, lockstick |-> 0, lockdefer |-> 0, lockrelease |-> 0, lockapply |-> 0,
         lockreject |-> 0, lockplay |-> 0,
         loadgmf |-> 0, loadmus |-> 0, loadxmi |-> 0, refusedimf |-> 0, refusedcmf |-> 0, loadjudged |-> 0,
         loadafterlock |-> 0, loadafterrefused |-> 0, loadafterxmi |-> 0, loadthird |-> 0,
         refined |-> 0, drifted |-> 0, asis |-> 0, fixed |-> 0]
Init == l = 1 /\ pre = Derive(S0) /\ R = R0 /\ fails = <<>> /\ cnt = Cnt0 /\ drift = <<>> /\ exec = 0 /\ xf = FALSE /\ seen = {} /\ nl = 0

Norm(o) == [o EXCEPT !.cd = IF o.nt = 0 THEN 0 ELSE @]
Args(ev) == [k \in DOMAIN ev \ {"oa", "ob", "pa", "pb", "e"} |-> ev[k]]
Tag(S, ev) == { [p |-> "C18", w |-> x, l |-> l, x |-> exec, e |-> ev.e, d |-> ToString(Args(ev))] : x \in S }
\* only the first failing step of an execution is reported (with all its labels): what follows a broken
\* step is a consequence, and the verdict logic looks at the first failure of a history anyway
\* (a valid music file re-establishes the per-song state of the instance and of its twin: from there on the labels this
\* execution has not shown yet are reported again -- what a listed finding left behind must not hide the load that follows it)
\* The list is capped per label, never in total.
NLabel(fl, w) == Cardinality({ i \in DOMAIN fl : fl[i].w = w })
AddFails(S, already) ==
  IF already \/ S = {} THEN fails
  ELSE fails \o SetToSeq({ x \in S : NLabel(fails, x.w) < MaxPerLabel })
Rearm(ev) == ev.e = "OpenMidi" /\ ev.bad = 0
B2N(c) == IF c THEN 1 ELSE 0

Proj(o) == [f \in ModelF |-> o[f]]
Same(m, o, f) == m.s[f] = o[f] \/ (f = "ho" /\ m.s.ho = -1)            \* -1: any value (see Settings!AfterReset)
Matches(m, o, ev, r) == (\A f \in ModelF : Same(m, o, f)) /\ (HasR(ev) => m.r = r)
DiffF(m, o, ev, r) == { f \in ModelF : ~Same(m, o, f) } \cup (IF HasR(ev) /\ m.r # r THEN {"ret"} ELSE {})

StepInit(ev) ==
  LET a == Norm(ev.oa)  b == Norm(ev.ob)
      d == { f \in ModelF : Derive(S0)[f] # a[f] }
  IN /\ pre' = a /\ R' = R0 /\ exec' = exec + 1
     /\ fails' = AddFails(Tag(TwinFails(a, b) \cup ForceFails(a, R0), ev), FALSE)
     /\ xf' = (TwinFails(a, b) \cup ForceFails(a, R0) # {})
     /\ seen' = TwinFails(a, b) \cup ForceFails(a, R0) /\ nl' = 0
     /\ drift' = IF d # {} /\ Len(drift) < 8 THEN Append(drift, [l |-> l, x |-> exec + 1, e |-> "Init", d |-> ToString(d)]) ELSE drift
     /\ cnt' = [cnt EXCEPT !.execs = @ + 1, !.steps = @ + 1, !.twin = @ + 1, !.force = @ + 1, !.refined = @ + 1, !.drifted = @ + B2N(d # {})]

StepCall(ev) ==
  LET a == Norm(ev.oa)  b == Norm(ev.ob)
      r == IF "r" \in DOMAIN ev THEN ev.r ELSE 0
      failed == Failed(ev, r)
      R1 == RefStep(R, ev, r, pre)
      ex == IF failed THEN {} ELSE Exp(ev, pre, R)
      f == CallFails(pre, ev, r, a, R, R1) \cup ForceFails(a, R1) \cup ReloadFails(ev, r, R) \cup LoadFails(ev, r, a, R) \cup TwinFails(a, b)
           \cup (IF ev.e = "Probe" THEN ProbeFails(ev, R) ELSE {})
           \cup (IF ev.e = "PlaySong" THEN PlayFails(ev.pa, a, R1) \cup (IF ev.pa # ev.pb THEN {"play-twin"} ELSE {}) ELSE {})
      m0 == ModelStep(Proj(pre), ev, {})
      m1 == ModelStep(Proj(pre), ev, AllFix)
      ok0 == Matches(m0, a, ev, r)
      ok1 == Matches(m1, a, ev, r)
      played == ev.e = "PlaySong" /\ ev.pa.played = 1 /\ R1.song # 0
      nreg == Cardinality({ h \in DOMAIN R1.hooks : R1.hooks[h] = 1 })
      kind == IF ev.e = "OpenMidi" /\ ev.bad = 0 /\ ~failed THEN ev.s ELSE 0       \* the accepted file
  IN /\ pre' = a /\ R' = R1 /\ exec' = exec
     \* (once a rejected load has ended the set-up lock of the instance - listed finding F39 - the instance is in a state the
     \*  model does not have and the twin, which skipped that call, is no oracle any more: nothing is re-armed in that execution)
     /\ fails' = (IF Rearm(ev) /\ "reject-unlocked" \notin seen THEN AddFails(Tag(f \ seen, ev), FALSE)
                  ELSE AddFails(Tag(f, ev), xf))
     /\ xf' = (xf \/ f # {}) /\ seen' = seen \cup f
     /\ nl' = nl + B2N(ev.e = "OpenMidi" /\ R.hasBank)          \* music files handed to this instance so far
     /\ drift' = IF ~ok0 /\ ~ok1 /\ Len(drift) < 8
                 THEN Append(drift, [l |-> l, x |-> exec, e |-> ev.e, d |-> ToString(<<Args(ev), DiffF(m0, a, ev, r)>>)]) ELSE drift
     /\ cnt' = [cnt EXCEPT
          !.steps = @ + 1,
          !.stick = @ + Cardinality(ex),
          !.auto = @ + B2N(~failed /\ R.hasBank /\ ex # {} /\
                           ((ev.e = "SetVolModel" /\ ev.v = 0) \/ (ev.e \in {"SetLfo", "SetLfoFreq", "SetChipType"} /\ ev.v = -1))),
          !.voidinvalid = @ + B2N(~HasR(ev) /\ ex = {} /\ Target(ev) # {}),
          !.persist = @ + (IF failed THEN 0 ELSE Cardinality(PersistF \ Target(ev))),
          !.rejected = @ + B2N(failed),
          !.rejbank = @ + B2N(failed /\ ev.e = "OpenBank" /\ R.hasBank),
          !.rejmidi = @ + B2N(failed /\ ev.e = "OpenMidi"),
          !.reload = @ + B2N(ReloadCounts(ev, R)),
          !.bankreset = @ + B2N(ev.e = "OpenBank" /\ ~failed /\ (pre.vm # 0 \/ pre.lfo # -1 \/ pre.lff # -1 \/ pre.ct # -1)),
          !.force = @ + 1, !.twin = @ + 1,
          !.probetwin = @ + B2N(ev.e = "Probe"),
          !.probeaudio = @ + B2N(ev.e = "Probe" /\ AudioComparable(ev.oa) /\ ev.pa.loud = 1),
          !.probesand = @ + B2N(ev.e = "Probe" /\ R.onlyFails /\ R.probe # <<>>),
          \* the set-up lock: EA-MUS loads, calls made while locked, accepted setters while locked (stored request
          \* checked), of these the three deferred ones, calls that ended the lock, of these with a request that differs
          \* from the locked value (chip count # 2, volume model # Generic), rejected calls while locked, playbacks
          !.lockenter = @ + B2N(R1.locked /\ ev.e = "OpenMidi" /\ ~failed),
          !.locksteps = @ + B2N(R.locked),
          !.lockstick = @ + (IF R.locked THEN Cardinality(ex) ELSE 0),
          !.lockdefer = @ + B2N(R.locked /\ ~failed /\ ex # {} /\ ev.e \in {"SetNumChips", "SetVolModel", "SetRunAtPcm"}),
          !.lockrelease = @ + B2N(R1.rel),
          !.lockapply = @ + B2N(R1.rel /\ (a.nc # 2 \/ (R.req.gvm \notin {-1, 1} /\ ev.e # "OpenBank"))),
          !.lockreject = @ + B2N(R.locked /\ failed),
          !.lockplay = @ + B2N(played /\ R1.locked),
          \* sequences of files: accepted GMF / MUS / XMIDI songs, refused IMF / CMF images, loads judged on their own result,
          \* a GMF / MUS / XMIDI song given to an instance whose set-up was locked / whose last file was refused / that was in
          \* XMIDI mode / that had been given two files before
          !.loadgmf = @ + B2N(kind = 4), !.loadmus = @ + B2N(kind = 5), !.loadxmi = @ + B2N(kind = 6),
          !.refusedimf = @ + B2N(failed /\ ev.e = "OpenMidi" /\ ev.bad = 5 /\ ev.s = 7),
          !.refusedcmf = @ + B2N(failed /\ ev.e = "OpenMidi" /\ ev.bad = 5 /\ ev.s # 7),
          !.loadjudged = @ + B2N(ev.e = "OpenMidi" /\ R.hasBank),
          !.loadafterlock = @ + B2N(kind \in {4, 5, 6} /\ R.locked),
          !.loadafterrefused = @ + B2N(kind \in {4, 5, 6} /\ R.afterReject),
          !.loadafterxmi = @ + B2N(kind \in {4, 5} /\ pre.fmt = FmtXMIDI),
          !.loadthird = @ + B2N(kind \in {4, 5, 6} /\ nl >= 2),
          !.play = @ + B2N(played),
          !.playloop = @ + B2N(played /\ Passes(R1) # 1),
          !.hookfire = @ + (IF played THEN nreg ELSE 0),
          !.hooksilent = @ + (IF played THEN 5 - nreg ELSE 0),
          !.refined = @ + 1, !.drifted = @ + B2N(~ok0 /\ ~ok1),
          !.asis = @ + B2N(ok0 /\ ~ok1), !.fixed = @ + B2N(ok1 /\ ~ok0)]

StepCrash(ev) ==
  /\ fails' = AddFails({[p |-> "C18", w |-> "crash:" \o ev.stage, l |-> l, x |-> exec, e |-> "Crash", d |-> ToString(ev.sig)]}, xf)
  /\ cnt' = [cnt EXCEPT !.crashes = @ + 1] /\ xf' = TRUE
  /\ UNCHANGED <<pre, R, drift, exec, seen, nl>>

Next ==
  \/ /\ l <= Len(T) /\ l' = l + 1
     /\ LET ev == T[l] IN
        CASE ev.e = "Init" -> StepInit(ev)
          [] ev.e = "Crash" -> StepCrash(ev)
          [] ev.e = "End" -> UNCHANGED <<pre, R, fails, cnt, drift, exec, xf, seen, nl>>
          [] OTHER -> StepCall(ev)
  \/ /\ l = Len(T) + 1 /\ l' = l + 1
     /\ PrintT(<<"RESULT", ToJson([n |-> Len(T), fails |-> fails, cnt |-> cnt, drift |-> drift])>>)
     /\ UNCHANGED <<pre, R, fails, cnt, drift, exec, xf, seen, nl>>
Spec == Init /\ [][Next]_vars
=============================================================================
