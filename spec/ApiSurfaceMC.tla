----------------------------- MODULE ApiSurfaceMC -----------------------------
(* C03 leg A.  Three uses of spec/ApiSurface.tla, selected by Mode:

   "mc"    exhaustive exploration of all call sequences of at most MaxDepth calls over the REDUCED alphabet
           below (one representative per boundary class that matters for an index-validity condition).
           Repaired = TRUE : INVARIANT NoBad -- no table access with an invalid index, and every return value of a
                             call documented to fail is its documented error value, for every sequence.
           Repaired = FALSE: the code as written; a call whose index condition fails ends the behaviour (the real
                             process would die there); ACTION_CONSTRAINT Report prints one WITNESS line per defect
                             class (label, sure/may, shortest call sequence found) -- these sequences are replayed
                             on the real library by the check.
   "sim"   TLC -simulate: random calls over the FULL alphabet (every function, every parameter drawn from its
           boundary classes).  Avoid = TRUE keeps only calls for which the as-written model predicts no hazard
           (deep behaviours that must be crash-free on the real library); Avoid = FALSE lets hazards through and
           ends the behaviour at the first one.  CONSTRAINT Emit prints BEHAVIOUR lines (the calls as JSON).
   "sweep" prints, for the contexts of Ctx (fresh / bank / bank+song / a music file rejected midway / the same + rewind / a looping song
           after rewind / locked setup / sounding notes under DMX / bursts of simultaneous drum hits on several chips ...), every
           function with one parameter at a time swept over its classes
           (SWEEP lines = ready histories: hazard-free calls chained, hazardous calls on their own), followed by the context's
           suffix Sfx (calls that make the library USE the state the swept call left behind: a render and a tick). *)
EXTENDS ApiSurface, Json
CONSTANTS MaxDepth, EmitDepth, Mode, Avoid, FuelCap, Salt

VARIABLES S, bad, hist, sw                      \* sw: work list of the sweep mode (constant otherwise)
vars == <<S, bad, hist, sw>>
View == <<S, bad>>

(* ---------------------------------------------------------------- predicted results (model runs only) *)
RetMC(St, ev) ==
  LET r == Ret(St, ev) IN
  IF r # NoPred THEN r
  ELSE CASE ev.e = "getBank" -> -1
         [] ev.e = "switchEmulator" -> 0                 \* undefined shift, taken modulo 32: "available"
         [] ev.e \in {"play", "playFormat"} -> Even(Max(ev.n, 0))
         [] OTHER -> 0
WithRet(St, ev) ==
  LET e1 == ev @@ [r |-> RetMC(St, ev)] IN
  IF ev.e = "getBank" /\ e1.r = 0 /\ ev.then # "none" /\ ~NullDev(St, ev)
  THEN e1 @@ [r2 |-> IF Ret2(St, ev) = NoPred THEN -1 ELSE Ret2(St, ev)] ELSE e1
Out(St, ev) == IF Tmo(St, ev) > 2 THEN ev @@ [tmo |-> Tmo(St, ev)] ELSE ev
Spend(St, ev) == [Step(St, WithRet(St, ev)) EXCEPT !.fuel = St.fuel + Cost(St, ev)]

\* model-level property: hazards (index conditions) and documented failures of the return value the code produces
DocBad(St, ev) ==
  LET k == DocFail(St, ev)  r == Ret(St, ev) IN
  IF k # "none" /\ r # NoPred /\ ~DocHolds(k, r) THEN { <<"doc@" \o ev.e, TRUE>> } ELSE {}
HzSet(St, ev) == LET h == Hazards(St, ev) IN { <<h[j].w, h[j].sure>> : j \in DOMAIN h }

(* ---------------------------------------------------------------- reduced alphabet *)
E(f, p) == Mk(f, p)
Cc(ch, n, v) == E("rt_controllerChange", [ch |-> ch, n |-> n, v |-> v])
Reduced == <<
  E("openBankData", [a |-> "b1"]), E("openBankData", [a |-> "bgarb"]), E("openData", [a |-> "s2"]), E("openData", [a |-> "sgarb"]),
  E("setNumChips", [n |-> -1]), E("setNumChips", [n |-> 0]), E("setNumChips", [n |-> 100]), E("setNumChips", [n |-> 101]), E("setNumChips", [n |-> IMAX]),
  E("setChipType", [v |-> 0]), E("switchEmulator", [v |-> 1]), E("switchEmulator", [v |-> 9]), E("switchEmulator", [v |-> 32]),
  E("switchEmulator", [v |-> 33]), E("switchEmulator", [v |-> -1]),
  E("setVolumeRangeModel", [v |-> 3]), E("setVolumeRangeModel", [v |-> 5]), E("setVolumeRangeModel", [v |-> 0]), E("setVolumeRangeModel", [v |-> 6]),
  E("setLogarithmicVolumes", [v |-> 1]),
  E("rt_noteOn", [ch |-> 0, k |-> 64, v |-> 127]), E("rt_noteOn", [ch |-> 16, k |-> 64, v |-> 127]), E("rt_noteOn", [ch |-> 17, k |-> 64, v |-> 64]),
  E("rt_noteOff", [ch |-> 0, k |-> 64]), E("rt_noteOff", [ch |-> 16, k |-> 64]),
  E("noteBurst", [ch |-> 9, k |-> 35, cnt |-> 13, v |-> 127]), E("setNumChips", [n |-> 1]),
  E("rt_noteAfterTouch", [ch |-> 16, k |-> 64, v |-> 64]), E("rt_channelAfterTouch", [ch |-> 16, v |-> 64]),
  Cc(0, 7, 255), Cc(0, 7, 128), Cc(0, 11, 255), Cc(0, 7, 127), Cc(0, 121, 0), Cc(0, 123, 0), Cc(16, 7, 0), Cc(255, 7, 64),
  E("rt_patchChange", [ch |-> 0, p |-> 255]), E("rt_patchChange", [ch |-> 0, p |-> 127]), E("rt_patchChange", [ch |-> 16, p |-> 0]),
  E("rt_pitchBend", [ch |-> 16, b |-> 8192]), E("rt_pitchBendML", [ch |-> 16, m |-> 64, l |-> 0]),
  E("rt_bankChangeLSB", [ch |-> 16, v |-> 0]), E("rt_bankChangeMSB", [ch |-> 16, v |-> 0]), E("rt_bankChange", [ch |-> 16, b |-> 0]),
  E("rt_systemExclusive", [x |-> "master"]), E("rt_systemExclusive", [x |-> "gmOn"]), E("rt_systemExclusive", [x |-> "short3"]),
  E("reserveBanks", [n |-> UMAX]), E("reserveBanks", [n |-> 8]),
  E("getBank", [id |-> <<0, 0, 0>>, flags |-> 1, then |-> "none", idx |-> 0, ver |-> 0, fl |-> 0]),
  E("getBank", [id |-> <<0, 128, 0>>, flags |-> 1, then |-> "none", idx |-> 0, ver |-> 0, fl |-> 0]),
  E("getBank", [id |-> <<0, 0, 0>>, flags |-> 0, then |-> "getIns", idx |-> 128, ver |-> 0, fl |-> 0]),
  E("getBank", [id |-> <<0, 0, 0>>, flags |-> 1, then |-> "setIns", idx |-> 128, ver |-> 0, fl |-> 0]),
  E("generate", [n |-> 1024]), E("play", [n |-> -1]), E("reset", [nd |-> 0]), E("panic", [nd |-> 0]), E("rt_resetState", [nd |-> 0]),
  E("close", [nd |-> 0]), E("setDeviceIdentifier", [v |-> 16]), E("setChannelEnabled", [i |-> 16, v |-> 0]),
  E("setTrackOptions", [i |-> 1, opt |-> 1]), E("setNumChips", [n |-> 2]) @@ [nd |-> 1] >>

Preload == E("openBankData", [a |-> "b1"])

(* ---------------------------------------------------------------- weighted function choice for simulation *)
Hot == << "rt_noteOn", "rt_noteOn", "rt_noteOn", "rt_noteOff", "rt_controllerChange", "rt_controllerChange", "rt_controllerChange",
          "rt_patchChange", "rt_systemExclusive", "generate", "generate", "play", "playFormat", "generateFormat", "tickEvents",
          "openBankData", "openData", "openData", "openFile", "setNumChips", "switchEmulator", "setVolumeRangeModel", "setChipType", "getBank",
          "positionSeek", "positionRewind", "tickEvents", "play", "setLoopEnabled", "setTempo", "noteBurst", "noteBurst", "setNumChips" >>
FnW == Fns \o Hot \o Hot
RateSeq == SetToSeq(RateC)
\* (operators with a state argument: TLC evaluates constant-level definitions once, at start-up)
Draw(St) == (RandomElement(0..(999999 + 0 * St.fuel)) + Salt) % 1000000     \* Salt: different runs, different behaviours
\* one tuple of independent draws per step; everything else is a pure function of it
Seeds(St) == << Draw(St), Draw(St), Draw(St), Draw(St), Draw(St), Draw(St) >>

(* ---------------------------------------------------------------- the three specifications *)
Ok(St, ev) == Enabled(St, ev, FuelCap) /\ (Avoid => Hazards(St, ev) = << >>)
\* an instance that was closed is re-created half of the time; otherwise the calls go to the NULL device
Cand(St, s1, s2) ==
  IF ~St.alive /\ s1 % 2 = 0 THEN Mk("reinit", [rate |-> PickFrom(RateSeq, s2)])
  ELSE LET ev == RandCall(St, PickFrom(FnW, s1), s2) IN
       IF ev.e # "reinit" /\ s2 % 40 = 1 THEN ev @@ [nd |-> 1] ELSE ev

Init ==
  /\ TLCSet(7, {})
  /\ bad = {} /\ sw = 0
  /\ IF Mode = "sim" THEN \E rate \in RateC : S = New(rate) /\ hist = << [e |-> "Init", rate |-> rate] >>
     ELSE \/ S = New(44100) /\ hist = << [e |-> "Init", rate |-> 44100] >>
          \/ Mode = "mc" /\ S = Spend(New(44100), Preload) /\ hist = << [e |-> "Init", rate |-> 44100], Preload >>   \* second root: bank b1 loaded

NextWith(ev) ==
  LET hz == HzSet(S, ev) \cup (IF Mode = "mc" THEN DocBad(S, ev) ELSE {}) IN
  /\ hist' = Append(hist, Out(S, ev))
  /\ bad' = hz /\ UNCHANGED sw
  /\ S' = IF hz # {} THEN Dead ELSE Spend(S, ev)

NextMC == \E i \in DOMAIN Reduced : Enabled(S, Reduced[i], FuelCap) /\ NextWith(Reduced[i])
NextSim ==
  \E sd \in { Seeds(S) } :
    LET c1 == Cand(S, sd[1], sd[2])  c2 == Cand(S, sd[3], sd[4])  c3 == Cand(S, sd[5], sd[6])
        ev == IF Ok(S, c1) THEN c1 ELSE IF Ok(S, c2) THEN c2 ELSE IF Ok(S, c3) THEN c3 ELSE [e |-> "getNumChips"]
    IN NextWith(ev)

Next == bad = {} /\ (IF Mode = "sim" THEN NextSim ELSE IF Mode = "mc" THEN NextMC ELSE FALSE)
Spec == Init /\ [][Next]_vars

NoBad == bad = {}
\* hist = the Init record + the calls: at most MaxDepth calls (not counting the bank load of the second root)
DepthBound == Len(hist) <= MaxDepth + 1 + (IF Len(hist) >= 2 /\ hist[2] = Preload THEN 1 ELSE 0)
\* one line per (label, sure) and worker: the first (breadth-first: a shortest) call sequence that reaches the defect class
Report == LET new == bad' \ TLCGet(7) IN
          (new # {}) => (TLCSet(7, TLCGet(7) \cup new) /\ PrintT(<<"WITNESS", ToJson([labels |-> new, path |-> hist'])>>))
Emit == (Len(hist) = EmitDepth \/ bad # {}) => PrintT(<<"BEHAVIOUR", ToJson(hist)>>)

(* ---------------------------------------------------------------- sweeps (SPECIFICATION SweepSpec) *)
Ctx == [
  fresh |-> << >>,
  bank  |-> << E("openBankData", [a |-> "b1"]) >>,
  song  |-> << E("openBankData", [a |-> "b2"]), E("openData", [a |-> "s1"]), E("setLoopEnabled", [v |-> 1]) >>,
  rej   |-> << E("openBankData", [a |-> "b1"]), E("openData", [a |-> "s2"]), E("openData", [a |-> "sbadtrk"]) >>,
  rejrew |-> << E("openBankData", [a |-> "b1"]), E("openData", [a |-> "s1"]), E("openData", [a |-> "sbadvlq"]), E("positionRewind", [nd |-> 0]) >>,
  looprew |-> << E("openBankData", [a |-> "b1"]), E("openData", [a |-> "s2"]), E("setLoopEnabled", [v |-> 1]), E("positionRewind", [nd |-> 0]) >>,
  locked |-> << E("openBankData", [a |-> "b1"]), E("openData", [a |-> "srsxx"]), E("rt_noteOn", [ch |-> 0, k |-> 64, v |-> 127]) >>,
  \* ... and a chip count requested while it is locked: stored, not applied (everything that walks the chips must still see 2)
  lockedn |-> << E("openBankData", [a |-> "b1"]), E("openData", [a |-> "srsxx"]), E("setNumChips", [n |-> 8]), E("rt_noteOn", [ch |-> 0, k |-> 64, v |-> 127]) >>,
  \* a looping song under an absurd tempo multiplier request (ignored since 8786f57)
  fastloop |-> << E("openBankData", [a |-> "b1"]), E("openData", [a |-> "s2"]), E("setLoopEnabled", [v |-> 1]), E("setTempo", [t |-> "huge"]) >>,
  note  |-> << E("openBankData", [a |-> "b1"]), E("rt_noteOn", [ch |-> 0, k |-> 64, v |-> 127]), E("rt_noteOn", [ch |-> 9, k |-> 64, v |-> 127]),
               E("setVolumeRangeModel", [v |-> 3]) >>,
  \* bursts of simultaneous drum hits that fill the chip channels of several chips; the swept call follows at once (the notes are
  \* inside their minimal life time, whatever releases them), then the suffix renders and ticks past that life time
  drums |-> << E("openBankData", [a |-> "b1"]), E("setNumChips", [n |-> 4]), E("noteBurst", [ch |-> 9, k |-> 35, cnt |-> 22, v |-> 127]) >>,
  \* ... the same on a channel in XG percussion mode (bank MSB 127), 3 chips, some keys released by hand before the swept call
  \* (note-off and panic() leave a young drum note alive; CC120 / CC123 do not, they cut every note of the channel at once)
  drumsx |-> << E("openBankData", [a |-> "b1"]), E("setNumChips", [n |-> 3]), Cc(0, 0, 127), E("noteBurst", [ch |-> 0, k |-> 30, cnt |-> 18, v |-> 100]),
                E("rt_noteOff", [ch |-> 0, k |-> 47]), E("rt_noteOff", [ch |-> 0, k |-> 46]) >>,
  \* (Mode = "sweepall", thorough tier) 8 chips filled up to the last channel while a looping song is loaded: the sequencer's
  \* own ticking (opn2_play) is what meets the notes afterwards; and 100 chips / 128 hits
  drums8s |-> << E("openBankData", [a |-> "b1"]), E("setNumChips", [n |-> 8]), E("openData", [a |-> "s2"]), E("setLoopEnabled", [v |-> 1]),
                 E("noteBurst", [ch |-> 9, k |-> 27, cnt |-> 49, v |-> 127]), E("panic", [nd |-> 0]) >>,
  drums100 |-> << E("openBankData", [a |-> "b1"]), E("setNumChips", [n |-> 100]), E("noteBurst", [ch |-> 9, k |-> 0, cnt |-> 128, v |-> 1]) >>,
  \* more simultaneous notes of one instrument than chip channels with the automatic arpeggio on (notes SHARE chip channels), all of
  \* them captured by sostenuto; the suffix releases some keys (their chip-channel users stay, the notes are gone) and lets time pass
  arpsost |-> << E("openBankData", [a |-> "b1"]), E("setNumChips", [n |-> 1]), E("setAutoArpeggio", [v |-> 1]),
                 E("noteBurst", [ch |-> 0, k |-> 60, cnt |-> 8, v |-> 100]), Cc(0, 66, 127) >> ]
\* calls appended to every history of a context (render calls are left out while the VGM dumper is selected)
Sfx == [c \in DOMAIN Ctx |->
         CASE c = "drums"  -> << E("generate", [n |-> 3072]), E("tickEvents", [s |-> "one", g |-> "small"]) >>
           [] c = "drumsx" -> << E("tickEvents", [s |-> "one", g |-> "small"]), E("generate", [n |-> 1024]) >>
           [] c = "drums8s" -> << E("play", [n |-> 4096]), E("tickEvents", [s |-> "small", g |-> "small"]), E("generate", [n |-> 1024]) >>
           [] c = "drums100" -> << E("tickEvents", [s |-> "small", g |-> "tiny"]), E("tickEvents", [s |-> "small", g |-> "small"]),
                                   E("tickEvents", [s |-> "small", g |-> "small"]), E("generate", [n |-> 1024]) >>
           [] c = "arpsost" -> << E("rt_noteOff", [ch |-> 0, k |-> 67]), E("rt_noteOff", [ch |-> 0, k |-> 66]), E("rt_noteOff", [ch |-> 0, k |-> 60]),
                                  E("rt_noteOff", [ch |-> 0, k |-> 61]), E("generate", [n |-> 3072]), E("tickEvents", [s |-> "one", g |-> "small"]),
                                  Cc(0, 66, 0), E("generate", [n |-> 1024]) >>
           [] OTHER -> << >> ]
RECURSIVE Run(_, _)
Run(St, evs) == IF evs = << >> THEN St ELSE Run(Spend(St, Head(evs)), Tail(evs))
CtxNames == << "fresh", "bank", "song", "rej", "rejrew", "looprew", "locked", "lockedn", "fastloop", "note", "drums", "drumsx", "arpsost" >>
            \o (IF Mode = "sweepall" THEN << "drums8s", "drums100" >> ELSE << >>)
RECURSIVE SfxRun(_, _)
SfxRun(St, evs) == IF evs = << >> THEN << >>
                   ELSE LET ev == Head(evs) IN
                        IF IsRender(ev) /\ St.alive /\ St.emu = VGM THEN SfxRun(St, Tail(evs))
                        ELSE << Out(St, ev) >> \o SfxRun(Spend(St, ev), Tail(evs))
ChainMax == 1          \* calls per sweep history after the context prefix (1: no interference between the swept calls)
\* the work list of one context, computed once (TLC does not memoise): its state, its prefix, the calls still to place
SwOf(i) == LET c == CtxNames[i]  st0 == Run(New(44100), Ctx[c]) IN
           [i |-> i, st0 |-> st0, h0 |-> << [e |-> "Init", rate |-> 44100] >> \o Ctx[c],
            evs |-> FlattenSeq([j \in DOMAIN Fns |-> SetToSeq(Sweep(st0, Fns[j]))])]
\* h = the history, st = the model state after its last call
Flush(st, h) == PrintT(<<"SWEEP", ToJson([ctx |-> CtxNames[sw.i], h |-> h \o SfxRun(st, Sfx[CtxNames[sw.i]])])>>)
SweepInit == sw = SwOf(1) /\ S = sw.st0 /\ hist = sw.h0 /\ bad = {}
\* one call per step: the hazard-free calls of ONE function extend the current chain (a new function starts a new chain from the
\* context state, so that every function is exercised right after the context prefix); a call that is hazardous in the chain's
\* state (or ends the instance) becomes a history of its own from the context state
SweepNext ==
  /\ bad' = bad
  /\ IF sw.evs = << >>
     THEN /\ Len(hist) > Len(sw.h0) => Flush(S, hist)
          /\ IF sw.i < Len(CtxNames) THEN sw' = SwOf(sw.i + 1) /\ S' = sw'.st0 /\ hist' = sw'.h0
             ELSE Len(hist) > Len(sw.h0) /\ hist' = sw.h0 /\ UNCHANGED <<S, sw>>
     ELSE LET ev == Head(sw.evs)
              newfn == Len(hist) > Len(sw.h0) /\ hist[Len(hist)].e # ev.e
              st == IF newfn THEN sw.st0 ELSE S
              h == IF newfn THEN sw.h0 ELSE hist
          IN
          /\ newfn => Flush(S, hist)
          /\ sw' = [sw EXCEPT !.evs = Tail(@)]
          /\ IF Hazards(st, ev) = << >> /\ Enabled(st, ev, FuelCap) /\ ev.e \notin {"close", "reinit"}
             THEN LET h1 == Append(h, Out(st, ev)) IN
                  IF Len(h1) >= Len(sw.h0) + ChainMax \/ Len(sw.evs) = 1
                  THEN Flush(Spend(st, ev), h1) /\ S' = sw.st0 /\ hist' = sw.h0
                  ELSE S' = Spend(st, ev) /\ hist' = h1
             ELSE Flush(IF Hazards(sw.st0, ev) = << >> THEN Spend(sw.st0, ev) ELSE sw.st0, Append(sw.h0, Out(sw.st0, ev))) /\ S' = st /\ hist' = h
SweepSpec == SweepInit /\ [][SweepNext]_vars
=============================================================================
