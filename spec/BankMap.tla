------------------------------- MODULE BankMap -------------------------------
(* C16.  Concrete model of BasicBankMap<T> (src/opnmidi_bankmap.tcc): 256 hash buckets of
   doubly linked slots, a free list, block allocation with a minimum of 4 slots, plus the
   abstract map it has to implement.  Functional style: C is the concrete state record,
     C.slots[i] = [next, prev, key, val, used]     slot ids 1..Len(slots), 0 = NULL
     C.heads    = function bucket -> slot id        (only buckets ever touched are stored)
     C.free     = head of the free list, C.size, C.cap, C.nalloc (number of allocated blocks)
   Keys are msb*256 + lsb + 32768*percussive; values map instrument index -> the instrument LAST WRITTEN there, complete:
   a tuple of the 36 fields of OPN2_Instrument (InsFields below: note offset, velocity offset, percussion key, flags,
   fbalg, lfosens, 4 x 7 operator bytes, both delays).  The flags are part of the value like any other field: the map stores
   what was written whatever the flag byte says (blank, pseudo-8op, reserved bits), over whatever the slot held before.
   A bank holds the instruments 0..127: the instrument API (opn2_getInstrument / opn2_setInstrument) rejects every other
   index with -1 and leaves every bank as it was (the slots lie side by side in one allocation block, so a write at
   index 128 would land on the header and the first instrument of the NEXT slot).  Indices are unsigned in the API:
   negative numbers stand for the values from 2^31 up (-1 = UINT_MAX). *)
EXTENDS Common, TLC

Hash(key) == ((key % 128) + ((key \div 256) * 128)) % 256
MinAlloc == 4
InsCount == 128
InsIdxOk(idx) == idx >= 0 /\ idx < InsCount
BlankVal == <<>>            \* sequence of <<idx, instrument>> pairs written so far (absent = BlankIns)

\* the instrument value: field positions of the 36-tuple (signed: noff -32768..32767, veloff -128..127; delays 0..65535; other bytes)
InsFields == <<"note_offset", "midi_velocity_offset", "percussion_key_number", "inst_flags", "fbalg", "lfosens">>
             \o [i \in 1..28 |-> "op" \o ToString((i - 1) \div 7) \o "." \o <<"dtfm_30", "level_40", "rsatk_50", "amdecay1_60", "decay2_70", "susrel_80", "ssgeg_90">>[((i - 1) % 7) + 1]]
             \o <<"delay_on_ms", "delay_off_ms">>
InsLen == 36
FNoff == 1  FVeloff == 2  FDrum == 3  FFlags == 4  FFbalg == 5  FLfosens == 6  FOp0 == 7  FDon == 35  FDoff == 36
FlagPseudo8op == 1
FlagBlank == 2
\* every instrument of a newly created bank: the blank flag and nothing else
BlankIns == [i \in 1..InsLen |-> IF i = FFlags THEN FlagBlank ELSE 0]
InsHasFlag(v, f) == (v[FFlags] \div f) % 2 = 1
InsDataZero(v) == \A i \in 1..InsLen : i = FFlags \/ i = FDrum \/ v[i] = 0
InsWellFormed(v) == /\ Len(v) = InsLen /\ v[FNoff] \in -32768..32767 /\ v[FVeloff] \in -128..127 /\ v[FDon] \in 0..65535 /\ v[FDoff] \in 0..65535
                    /\ \A i \in 3..34 : v[i] \in 0..255
\* what a WOPN version-2 bank file keeps of an instrument (the route of opn2_openBankData): no velocity offset, no flag
\* byte - "null delays indicate the blank instrument", and a blank instrument is saved with null delays; all voice data
\* (note offset, percussion key, fbalg, lfosens, operators) is kept also for a blank instrument
WopnV2Ins(v) ==
  LET blank == InsHasFlag(v, FlagBlank) \/ (v[FDon] = 0 /\ v[FDoff] = 0) IN
  [i \in 1..InsLen |-> CASE i = FVeloff -> 0
                        [] i = FFlags -> IF blank THEN FlagBlank ELSE 0
                        [] i = FDon \/ i = FDoff -> IF blank THEN 0 ELSE v[i]
                        [] OTHER -> v[i]]

C0 == [slots |-> <<>>, heads |-> <<>>, free |-> 0, size |-> 0, cap |-> 0, nalloc |-> 0]

BHead(C, b) == LET i == FirstIdx(C.heads, LAMBDA r : r[1] = b) IN IF i = 0 THEN 0 ELSE C.heads[i][2]
SetHead(C, b, s) ==
  LET i == FirstIdx(C.heads, LAMBDA r : r[1] = b) IN
  IF i = 0 THEN [C EXCEPT !.heads = Append(@, <<b, s>>)] ELSE [C EXCEPT !.heads[i] = <<b, s>>]

\* free_slot(slot): push on the free list, value reset
FreeSlot(C, s) ==
  LET nx == C.free
      C1 == IF nx # 0 THEN [C EXCEPT !.slots[nx].prev = s] ELSE C
  IN [C1 EXCEPT !.slots[s] = [next |-> nx, prev |-> 0, key |-> -1, val |-> BlankVal, used |-> FALSE], !.free = s]
\* allocate_slot(): pop the free list (0 when empty)
AllocSlot(C) ==
  IF C.free = 0 THEN [c |-> C, s |-> 0]
  ELSE LET s == C.free  nx == C.slots[s].next
           C1 == IF nx # 0 THEN [C EXCEPT !.slots[nx].prev = 0] ELSE C
       IN [c |-> [C1 EXCEPT !.free = nx], s |-> s]

RECURSIVE FreeRange(_, _, _)
FreeRange(C, hi, lo) == IF hi < lo THEN C ELSE FreeRange(FreeSlot(C, hi), hi - 1, lo)
\* reserve(capacity)
Reserve(C, capacity) ==
  IF C.cap >= capacity THEN C
  ELSE LET need == Max(capacity - C.cap, MinAlloc)
           base == Len(C.slots)
           C1 == [C EXCEPT !.slots = @ \o [i \in 1..need |-> [next |-> 0, prev |-> 0, key |-> -1, val |-> BlankVal, used |-> FALSE]],
                           !.cap = @ + need, !.nalloc = @ + 1]
       IN FreeRange(C1, base + need, base + 1)

RECURSIVE BucketFindFrom(_, _, _)
BucketFindFrom(C, s, key) == IF s = 0 THEN 0 ELSE IF C.slots[s].key = key THEN s ELSE BucketFindFrom(C, C.slots[s].next, key)
BucketFind(C, key) == BucketFindFrom(C, BHead(C, Hash(key)), key)
BucketAdd(C, b, s) ==
  LET nx == BHead(C, b)
      C1 == IF nx # 0 THEN [C EXCEPT !.slots[nx].prev = s] ELSE C
  IN SetHead([C1 EXCEPT !.slots[s].next = nx], b, s)
BucketRemove(C, b, s) ==
  LET pv == C.slots[s].prev  nx == C.slots[s].next
      C1 == IF pv = 0 THEN SetHead(C, b, nx) ELSE [C EXCEPT !.slots[pv].next = nx]
  IN IF nx # 0 THEN [C1 EXCEPT !.slots[nx].prev = pv] ELSE C1

\* insert(value) / insert(value, do_not_expand): result [c, s (slot or 0), isnew]
Insert(C, key, expand) ==
  LET f == BucketFind(C, key) IN
  IF f # 0 THEN [c |-> C, s |-> f, isnew |-> FALSE]
  ELSE LET a1 == AllocSlot(C)
           a2 == IF a1.s = 0 /\ expand THEN AllocSlot(Reserve(C, C.cap + MinAlloc)) ELSE a1
       IN IF a2.s = 0 THEN [c |-> C, s |-> 0, isnew |-> FALSE]
          ELSE LET C2 == [a2.c EXCEPT !.slots[a2.s].key = key, !.slots[a2.s].val = BlankVal, !.slots[a2.s].used = TRUE]
               IN [c |-> [BucketAdd(C2, Hash(key), a2.s) EXCEPT !.size = @ + 1], s |-> a2.s, isnew |-> TRUE]
\* erase(it)
Erase(C, s) == [FreeSlot(BucketRemove(C, Hash(C.slots[s].key), s), s) EXCEPT !.size = @ - 1]
\* clear()
RECURSIVE ChainOf(_, _)
ChainOf(C, s) == IF s = 0 THEN <<>> ELSE <<s>> \o ChainOf(C, C.slots[s].next)
RECURSIVE FreeSeq(_, _)
FreeSeq(C, ss) == IF ss = <<>> THEN C ELSE FreeSeq(FreeSlot(C, Head(ss)), Tail(ss))
BucketsSorted(C) == LET bs == { C.heads[i][1] : i \in DOMAIN C.heads } IN
  [i \in 1..Cardinality(bs) |-> CHOOSE b \in bs : Cardinality({ x \in bs : x < b }) = i - 1]
RECURSIVE ClearBuckets(_, _)
ClearBuckets(C, bs) ==
  IF bs = <<>> THEN C
  ELSE LET b == bs[1]  chain == ChainOf(C, BHead(C, b)) IN ClearBuckets(SetHead(FreeSeq(C, chain), b, 0), SubSeq(bs, 2, Len(bs)))
Clear(C) == [ClearBuckets(C, BucketsSorted(C)) EXCEPT !.size = 0]

\* begin()/operator++: slots in iteration order
Iter(C) == FlattenSeq([i \in 1..Len(BucketsSorted(C)) |-> ChainOf(C, BHead(C, BucketsSorted(C)[i]))])
IterKeys(C) == [i \in DOMAIN Iter(C) |-> C.slots[Iter(C)[i]].key]

\* values: the instrument last written per instrument index (complete, flags included; never merged with the earlier content)
ValGet(v, idx) == LET i == FirstIdx(v, LAMBDA r : r[1] = idx) IN IF i = 0 THEN BlankIns ELSE v[i][2]
ValSet(v, idx, ins) == LET i == FirstIdx(v, LAMBDA r : r[1] = idx) IN IF i = 0 THEN Append(v, <<idx, ins>>) ELSE [v EXCEPT ![i] = <<idx, ins>>]

---------------------------------------------------------------------------
(* The abstract map and the API-level step.  A: sequence of [key, val] (order irrelevant).
   op: [o, key, mode, n, idx, ins, keys] *)
AIdx(A, key) == FirstIdx(A, LAMBDA r : r.key = key)
AHas(A, key) == AIdx(A, key) # 0
AKeys(A) == { A[i].key : i \in DOMAIN A }

\* API step on the concrete model: returns [c, r (0 ok / -1), extra]
ApiStep(C, op) ==
  CASE op.o = "reserve" -> LET C1 == Reserve(C, op.n) IN [c |-> C1, r |-> C1.cap]
    [] op.o = "get" ->
         IF op.mode = "find" THEN [c |-> C, r |-> IF BucketFind(C, op.key) # 0 THEN 0 ELSE -1]
         ELSE LET ir == Insert(C, op.key, op.mode = "create") IN [c |-> ir.c, r |-> IF ir.s = 0 THEN -1 ELSE 0]
    [] op.o = "remove" -> LET s == BucketFind(C, op.key) IN IF s = 0 THEN [c |-> C, r |-> -1] ELSE [c |-> Erase(C, s), r |-> 0]
    [] op.o = "setins" -> LET s == BucketFind(C, op.key) IN
                          IF s = 0 \/ ~InsIdxOk(op.idx) THEN [c |-> C, r |-> -1]
                          ELSE [c |-> [C EXCEPT !.slots[s].val = ValSet(@, op.idx, op.ins)], r |-> 0]
    [] op.o = "getins" -> [c |-> C, r |-> IF BucketFind(C, op.key) # 0 /\ InsIdxOk(op.idx) THEN 0 ELSE -1]
    [] op.o = "clear" -> [c |-> Clear(C), r |-> 0]
    [] OTHER -> [c |-> C, r |-> 0]
\* the same call on the abstract map
AbsStep(A, op, r) ==
  CASE op.o = "get" /\ op.mode # "find" /\ r = 0 /\ ~AHas(A, op.key) -> Append(A, [key |-> op.key, val |-> BlankVal])
    [] op.o = "remove" /\ r = 0 -> RemoveAt(A, AIdx(A, op.key))
    [] op.o = "setins" /\ r = 0 -> [A EXCEPT ![AIdx(A, op.key)].val = ValSet(@, op.idx, op.ins)]
    [] op.o = "clear" -> <<>>
    [] OTHER -> A

---------------------------------------------------------------------------
(* Properties *)
ListOK(C) ==
  /\ \A s \in DOMAIN C.slots : LET r == C.slots[s] IN
       /\ (r.next # 0 => C.slots[r.next].prev = s)
       /\ (r.prev # 0 => C.slots[r.prev].next = s)
  /\ LET used == SeqToSet(Iter(C))  fr == SeqToSet(ChainOf(C, C.free)) IN
       /\ used \cap fr = {} /\ used \cup fr = DOMAIN C.slots
       /\ Cardinality(used) = C.size /\ Len(Iter(C)) = C.size
       /\ \A s \in used : C.slots[s].used /\ Hash(C.slots[s].key) \in { C.heads[i][1] : i \in DOMAIN C.heads }
  /\ C.cap = Len(C.slots)
AbsOK(C, A) ==
  /\ SeqToSet(IterKeys(C)) = AKeys(A)
  /\ NoDup(IterKeys(C), LAMBDA k : k)
  /\ \A i \in DOMAIN A : LET s == BucketFind(C, A[i].key) IN
        s # 0 /\ \A j \in DOMAIN A[i].val : ValGet(C.slots[s].val, A[i].val[j][1]) = A[i].val[j][2]
\* real-time creation: never allocates, fails exactly when the capacity is exhausted
RtOK(C, C1, op, r) ==
  (op.o = "get" /\ op.mode = "creatert") =>
     /\ C1.nalloc = C.nalloc /\ C1.cap = C.cap
     /\ (r = -1) <=> (BucketFind(C, op.key) = 0 /\ C.size = C.cap)
=============================================================================
