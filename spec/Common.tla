------------------------------- MODULE Common -------------------------------
(* Helpers shared by all libOPNMIDI specifications: C++ integer semantics, sequence
   utilities and bit sets encoded as small integers. *)
EXTENDS Integers, Sequences, FiniteSets

Min(a, b) == IF a < b THEN a ELSE b
Max(a, b) == IF a > b THEN a ELSE b
Abs(a)    == IF a < 0 THEN -a ELSE a
Clamp(x, lo, hi) == IF x < lo THEN lo ELSE IF x > hi THEN hi ELSE x

\* C++ '/' truncates toward zero, TLA+ \div floors.
TruncDiv(a, b) == IF a >= 0 THEN a \div b ELSE -((-a) \div b)

RemoveAt(s, i) == SubSeq(s, 1, i - 1) \o SubSeq(s, i + 1, Len(s))
SeqToSet(s)    == { s[i] : i \in DOMAIN s }
\* index of the first element satisfying P, 0 if none
FirstIdx(s, P(_)) ==
  IF \E i \in DOMAIN s : P(s[i]) THEN CHOOSE i \in DOMAIN s : P(s[i]) /\ \A j \in 1..(i-1) : ~P(s[j]) ELSE 0
Count(s, P(_)) == Cardinality({ i \in DOMAIN s : P(s[i]) })
NoDup(s, K(_)) == \A i, j \in DOMAIN s : i # j => K(s[i]) # K(s[j])
SelectSeq2(s, P(_)) == SelectSeq(s, P)

\* bits of small masks
BitHas(s, b) == (s \div b) % 2 = 1
BitClr(s, b) == IF BitHas(s, b) THEN s - b ELSE s
BitSet(s, b) == IF BitHas(s, b) THEN s ELSE s + b

\* a set as a sequence (order unspecified); linear, unlike CHOOSE over [1..n -> S]
RECURSIVE SetToSeq(_)
SetToSeq(S) == IF S = {} THEN <<>> ELSE LET x == CHOOSE y \in S : TRUE IN <<x>> \o SetToSeq(S \ {x})

RECURSIVE SumSeq(_)
SumSeq(s) == IF s = <<>> THEN 0 ELSE Head(s) + SumSeq(Tail(s))

RECURSIVE FlattenSeq(_)
FlattenSeq(ss) == IF ss = <<>> THEN <<>> ELSE Head(ss) \o FlattenSeq(Tail(ss))
=============================================================================
