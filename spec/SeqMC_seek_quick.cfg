SPECIFICATION MCSeekSpec
CONSTANTS
  MaxLen = 3
  TwoTracks = FALSE
  SeekMode = TRUE
INVARIANT NoBad
CHECK_DEADLOCK FALSE
